/-
  C10 — Symbolic results do not depend on analysis history.
-/
import Amoco.Model.Hist

namespace Amoco.Hist.Props

open Amoco.Hist

theorem assign_other (w : World) (sv : Slot × Bool) (t : Slot) (h : t ≠ sv.1) : assign w sv t = w t := by
  simp [assign, h]

theorem applyWrites_untouched (ws : List (Slot × Bool)) :
    ∀ (w : World) (t : Slot), (∀ sv ∈ ws, sv.1 ≠ t) → ws.foldl assign w t = w t := by
  induction ws with
  | nil => intro w t _; rfl
  | cons sv rest ih =>
    intro w t h
    simp only [List.foldl_cons]
    rw [ih (assign w sv) t (fun x hx => h x (List.mem_cons_of_mem _ hx))]
    exact assign_other w sv t (fun e => h sv List.mem_cons_self e.symm)

theorem runHist_untouched (h : List Op) :
    ∀ (w : World) (t : Slot), (∀ op ∈ h, ∀ sv ∈ op.writes, sv.1 ≠ t) → runHist w h t = w t := by
  induction h with
  | nil => intro w t _; rfl
  | cons op rest ih =>
    intro w t hh
    simp only [runHist, List.foldl_cons]
    have := ih (applyOp w op) t (fun o ho => hh o (List.mem_cons_of_mem _ ho))
    simp only [runHist] at this
    rw [this]
    exact applyWrites_untouched op.writes w t (hh op List.mem_cons_self)

/-- **Non-interference.**  An observation (building the map of a block, or evaluating a map or an
    expression computed earlier) that depends on the world only through the slots `reads` gives the
    same result after any history whose operations assign none of those slots. -/
theorem history_independence {α} (reads : List Slot) (run : World → α)
    (hext : ∀ w w', (∀ s ∈ reads, w s = w' s) → run w = run w')
    (h : List Op) (w : World)
    (hdisj : ∀ op ∈ h, ∀ sv ∈ op.writes, sv.1 ∉ reads) :
    run (runHist w h) = run w := by
  apply hext
  intro s hs
  apply runHist_untouched
  intro op ho sv hsv e
  exact hdisj op ho sv hsv (e ▸ hs)

/-- instantiated on a measured footprint table: if the table is clean, every observation is
    independent of every history drawn from it — for all blocks, all histories, all worlds. -/
theorem history_independence_clean {α} (tbl : List Op) (hclean : allClean tbl = true)
    (reads : List Slot) (run : World → α)
    (hext : ∀ w w', (∀ s ∈ reads, w s = w' s) → run w = run w')
    (h : List Op) (hin : ∀ op ∈ h, op ∈ tbl) (w : World) :
    run (runHist w h) = run w := by
  apply history_independence reads run hext h w
  intro op ho sv hsv
  have : op.writes.isEmpty = true := by
    have := List.all_eq_true.mp hclean op (hin op ho)
    exact this
  simp [List.isEmpty_iff.mp this] at hsv

/-- the same for histories that avoid the dirty operations of a table that is not clean: the
    complement of `dirty tbl` is exactly what the theorem covers; `dirty tbl` is the list of findings. -/
theorem history_independence_partial {α} (tbl : List Op)
    (reads : List Slot) (run : World → α)
    (hext : ∀ w w', (∀ s ∈ reads, w s = w' s) → run w = run w')
    (h : List Op) (hin : ∀ op ∈ h, op ∈ tbl ∧ op ∉ dirty tbl) (w : World) :
    run (runHist w h) = run w := by
  apply history_independence reads run hext h w
  intro op ho sv hsv
  obtain ⟨hm, hnd⟩ := hin op ho
  have : op.writes.isEmpty = true := by
    by_cases he : op.writes.isEmpty = true
    · exact he
    · exfalso; apply hnd
      simp only [dirty, List.mem_filter]
      exact ⟨hm, by simpa using he⟩
  simp [List.isEmpty_iff.mp this] at hsv

/-- conversely a write to a slot that an observation reads does change it: the slot named by a
    non-empty footprint is a genuine channel (e.g. the `sf` flag of a global register). -/
theorem dirty_slot_is_observable :
    let op : Op := ⟨"rv32i", "SRA", [(5, true)]⟩
    (fun (w : World) => w 5) (runHist (fun _ => false) [op]) ≠ (fun (w : World) => w 5) (fun _ => false) := by
  decide

example : allClean [⟨"x86", "NOP", []⟩, ⟨"x86", "MOV", []⟩] = true := by decide

end Amoco.Hist.Props
