/-
  C17 — Decoding and executing any bytes never crashes; instructions are well formed.
  Only the *framework* is a theorem: hooks, formatters and semantics functions are ≈1000 Python
  functions whose contracts are exercised by spec-directed enumeration in the harness (partial).
-/
import Amoco.Model.Frame
import Amoco.Proofs.Dis

namespace Amoco.Frame.Props

open Amoco Amoco.Dis Amoco.Frame

/-- **framework_total**: if no hook raises anything but `DecodeError`/`InstructionError` (the decode
    outcome is never `.raise`), `xdata` does not raise, accepted specs are no longer than the input and
    no spec is empty, then for every byte string, pending state and candidate function the call returns
    an instruction or `None` — it never raises (and never exhausts the recursion budget). -/
theorem framework_total {I} (r : Bool) (cands : List Nat → List SpecK)
    (dec : Option I → List Nat → SpecK → Out I) (xd : I → Option I)
    (hhook : ∀ st b s e, dec st b s ≠ .raise e)
    (hxd : ∀ i, (xd i).isSome)
    (hlen : ∀ st b s i, dec st b s = .ok i → 8 ≤ s.size ∧ s.size / 8 ≤ b.length) :
    ∀ (fuel : Nat) (st : Option I) (bytes : List Nat), bytes.length < fuel →
      ∀ e, (call r cands dec xd fuel st bytes).2 ≠ .raised e
  | 0, _, _, h, _ => by omega
  | fuel+1, st, bytes, h, e => by
    simp only [call]
    split
    · simp
    · simp
    · rename_i s e' hfh
      exact absurd (firstHit_some _ _ _ _ hfh).1 (hhook st bytes s e')
    · rename_i s i hfh
      have hl := hlen st bytes s i (firstHit_some _ _ _ _ hfh).1
      split
      · apply framework_total r cands dec xd hhook hxd hlen fuel
        rw [List.length_drop]; omega
      · have := hxd i
        split
        · simp
        · rename_i hx; simp [hx] at this
      · simp

/-- applying an instruction to a map: with a semantics function that does not raise, `icore.__call__`
    either updates the map or logs that the semantics are missing. -/
theorem exec_total (uarch : Option (List String)) (sem : String → Option Nat) (m : String)
    (hsem : sem m = none) : exec uarch sem m = .done ∨ exec uarch sem m = .logged := by
  unfold exec
  cases uarch with
  | none => simp
  | some tbl =>
    simp only
    by_cases h : tbl.contains ("i_" ++ m) = true
    · rw [if_pos h, hsem]; exact Or.inl rfl
    · rw [if_neg h]; exact Or.inr rfl

/-- pickling: `__setstate__` restores the hook the spec had, provided formats identify specs within
    their module. -/
theorem state_roundtrip (ispecs : List PSpec) (s : PSpec) (hs : s ∈ ispecs)
    (huniq : ∀ a ∈ ispecs, ∀ b ∈ ispecs, a.format = b.format → a = b) :
    restoreHook ispecs s.format = some s.hook := by
  unfold restoreHook
  induction ispecs with
  | nil => cases hs
  | cons a l ih =>
    simp only [List.find?_cons]
    by_cases h : a.format = s.format
    · have : a = s := huniq a List.mem_cons_self s hs h
      simp [this]
    · have hne : (a.format == s.format) = false := by simpa using h
      simp only [hne]
      rcases List.mem_cons.mp hs with rfl | hs'
      · exact absurd rfl h
      · exact ih hs' (fun x hx y hy => huniq x (List.mem_cons_of_mem _ hx) y (List.mem_cons_of_mem _ hy))

/-- …and when two specs of one module share a format (they exist: variants distinguished only by a
    precondition) the second one comes back with the first one's hook. -/
theorem state_roundtrip_fails_on_duplicates :
    restoreHook [⟨"8>[ {90} ]", 1⟩, ⟨"8>[ {90} ]", 2⟩] "8>[ {90} ]" = some 1 := by decide

example : exec (some ["i_NOP"]) (fun _ => none) "NOP" = .done := by decide
example : exec (some ["i_NOP"]) (fun _ => none) "XYZ" = .logged := by decide

end Amoco.Frame.Props
