/-
  Amoco.Props.C14Macho — property theorems for the Mach-O reader (C14 / C20, Mach-O half).
  Model: `Amoco.Model.Macho` (mirrors `amoco/system/macho.py`), lemmas: `Amoco.Proofs.Macho`.
-/
import Amoco.Proofs.Macho
import Amoco.Props.C20

namespace Amoco.Macho

/-- minimal 32-bit image: header, one LC_SEGMENT with one section, 4 bytes of code -/
def exImg32 : Bytes := [206, 250, 237, 254, 7, 0, 0, 0, 3, 0, 0, 0, 2, 0, 0, 0, 1, 0, 0, 0, 124, 0, 0, 0, 0, 0, 0, 0, 1, 0, 0, 0, 124, 0, 0, 0, 95, 95, 84, 69, 88, 84, 0, 0, 0, 0, 0, 0, 0, 0, 0, 0, 0, 16, 0, 0, 0, 16, 0, 0, 0, 0, 0, 0, 156, 0, 0, 0, 7, 0, 0, 0, 5, 0, 0, 0, 1, 0, 0, 0, 0, 0, 0, 0, 95, 95, 116, 101, 120, 116, 0, 0, 0, 0, 0, 0, 0, 0, 0, 0, 95, 95, 84, 69, 88, 84, 0, 0, 0, 0, 0, 0, 0, 0, 0, 0, 0, 16, 0, 0, 4, 0, 0, 0, 152, 0, 0, 0, 2, 0, 0, 0, 0, 0, 0, 0, 0, 0, 0, 0, 0, 4, 0, 128, 0, 0, 0, 0, 0, 0, 0, 0, 144, 144, 144, 195]

/-- minimal 64-bit image: header, one LC_SEGMENT_64 with one section, 4 bytes of code -/
def exImg64 : Bytes := [207, 250, 237, 254, 7, 0, 0, 1, 3, 0, 0, 0, 2, 0, 0, 0, 1, 0, 0, 0, 152, 0, 0, 0, 0, 0, 0, 0, 0, 0, 0, 0, 25, 0, 0, 0, 152, 0, 0, 0, 95, 95, 84, 69, 88, 84, 0, 0, 0, 0, 0, 0, 0, 0, 0, 0, 0, 0, 0, 0, 1, 0, 0, 0, 0, 16, 0, 0, 0, 0, 0, 0, 0, 0, 0, 0, 0, 0, 0, 0, 188, 0, 0, 0, 0, 0, 0, 0, 7, 0, 0, 0, 5, 0, 0, 0, 1, 0, 0, 0, 0, 0, 0, 0, 95, 95, 116, 101, 120, 116, 0, 0, 0, 0, 0, 0, 0, 0, 0, 0, 95, 95, 84, 69, 88, 84, 0, 0, 0, 0, 0, 0, 0, 0, 0, 0, 0, 0, 0, 0, 1, 0, 0, 0, 4, 0, 0, 0, 0, 0, 0, 0, 184, 0, 0, 0, 2, 0, 0, 0, 0, 0, 0, 0, 0, 0, 0, 0, 0, 4, 0, 128, 0, 0, 0, 0, 0, 0, 0, 0, 0, 0, 0, 0, 144, 144, 144, 195]

/-- **macho_parse_eq_ref** — on every well-formed image (the by-the-book reference reader, which walks
    `ncmds` commands laid back to back in `sizeofcmds` bytes with whole-structure bounds checks, accepts
    it) the constructor model — which walks by `sizeofcmds`, field by field, on clamped slices — returns
    exactly the reference's header, load-command list (cmd, cmdsize, offset), segments and sections. -/
theorem macho_parse_eq_ref (d : Bytes) (hwf : MachoWF d) :
    ∃ o, refParse d = some o ∧ machoInit d = .ok o ∧ parseRaw d = .ok o := by
  unfold MachoWF at hwf
  cases h : refParse d with
  | none => rw [h] at hwf; cases hwf
  | some o => exact ⟨o, rfl, machoInit_eq_ref h, parseRaw_eq_ref h⟩

set_option maxRecDepth 100000 in
example : MachoWF exImg32 := by decide +kernel
set_option maxRecDepth 100000 in
example : MachoWF exImg64 := by decide +kernel
def oneSegOneSect (r : Py Obj) (k : Kind) : Bool :=
  match r with
  | .ok o => o.kind == k && o.cmds.length == 1 &&
      o.cmds.all (fun c => match c.body with | .seg s => s.sections.length == 1 && s.nsects == 1 | _ => false)
  | .error _ => false

set_option maxRecDepth 100000 in
example : oneSegOneSect (machoInit exImg32) .macho32 = true := by decide +kernel
set_option maxRecDepth 100000 in
example : oneSegOneSect (machoInit exImg64) .macho64 = true := by decide +kernel

/-- **macho_walker_total** — for every byte string: the constructor (header + load-command stage)
    returns an object or raises `MachOError`/`StructureError`, nothing else; and the load-command walker,
    started anywhere with any `sizeofcmds`, never exhausts `length + 1` units of fuel (it terminates
    within `length/8 + 1` iterations — note that the code does not use `ncmds` at all), ends only
    normally or with one of the two format errors (without the help of the wrapper), every command it
    built had its 8-byte header inside the file, and `k` commands built means `off + 8k ≤ length`. -/
theorem macho_walker_total (d : Bytes) :
    (∀ e, machoInit d = .error e → e.isFormat = true) ∧
    (∀ soc off, let r := walk d soc (d.length + 1) off 0
       r.2 ≠ some .fuel ∧ (∀ e, r.2 = some e → e.isFormat = true) ∧
       (∀ c ∈ r.1, c.off + 8 ≤ d.length) ∧ (r.1 ≠ [] → off + 8 * r.1.length ≤ d.length)) := by
  refine ⟨?_, ?_⟩
  · intro e h
    rcases wrap_format _ _ h with h | h <;> subst h <;> rfl
  · intro soc off
    have hnf := walk_no_fuel d soc (d.length + 1) off 0 (by omega) (by omega)
    refine ⟨hnf, ?_, walk_inbounds d soc _ off 0, ?_⟩
    · intro e he
      rcases walk_end d soc _ off 0 e he with h | h | h
      · subst h; rfl
      · subst h; rfl
      · subst h; exact absurd he hnf
    · intro hne
      exact chain_steps d.length _ off (walk_chain d soc _ off 0) (walk_inbounds d soc _ off 0) hne

/-- the walker does reach both error classes and the normal exit -/
example : (walk [1, 0, 0, 0, 4, 0, 0, 0] 8 9 0 0).2 = some .machoError := by decide
example : (walk [1, 0, 0, 0] 8 5 0 0).2 = some .structureError := by decide
example : (walk [0x99, 0, 0, 0, 8, 0, 0, 0] 8 9 0 0) = ([{ off := 0, cmd := 0x99, cmdsize := 8, body := .raw }], none) := by decide

/-- **macho_offsets_monotone** — for every byte string the commands the walker reports are
    consecutive: each starts where the previous one ends and is at least 8 bytes long; on a well-formed
    image they start right after the header and all lie inside the `sizeofcmds` bytes. -/
theorem macho_offsets_monotone (d : Bytes) :
    (∀ soc off, Chain off (walk d soc (d.length + 1) off 0).1) ∧
    (∀ o, refParse d = some o →
       let hs := if o.header.is64 then 32 else 28
       Chain hs o.cmds ∧ ∀ c ∈ o.cmds, hs ≤ c.off ∧ c.off + c.cmdsize ≤ hs + o.header.sizeofcmds) := by
  refine ⟨fun soc off => walk_chain d soc _ off 0, ?_⟩
  intro o ho
  have hp := parseRaw_eq_ref ho
  unfold refParse at ho
  cases hh : refHeader d with
  | none => simp [hh] at ho
  | some hd =>
    simp only [hh] at ho
    obtain ⟨is64, magic, ct, cst, ft, ncmds, soc, fl, rs⟩ := hd
    cases is64 <;> simp only [Bool.false_eq_true, if_false, if_true] at ho <;> split_ifs at ho with hlen <;> split at ho
    all_goals first | (cases ho; done) | skip
    all_goals (
      rename_i cmds hc
      injection ho with ho
      subst ho
      simp only [Bool.false_eq_true, if_false, if_true]
      refine ⟨?_, refCmds_range d _ _ _ _ hc⟩
      have hsteps := refCmds_steps _ _ _ _ _ hc
      have hw := walk_eq_ref d soc _ hlen _ _ cmds (d.length + 1) 0 hc (by omega) (by omega) (by omega)
      have e : cmds = (cmds, (none : Option Exn)).1 := rfl
      rw [e, ← hw]
      exact walk_chain d soc _ _ 0)

/-- **macho_cmds_disjoint** — no byte is reported as part of two commands: for `a` before `b` in the
    list, `a.off + a.cmdsize ≤ b.off` (for every byte string, hence in particular under `MachoWF`). -/
theorem macho_cmds_disjoint (d : Bytes) (soc off : Nat) :
    (walk d soc (d.length + 1) off 0).1.Pairwise (fun a b => a.off + a.cmdsize ≤ b.off) :=
  chain_pairwise _ off (walk_chain d soc _ off 0)

theorem macho_cmds_disjoint_obj (d : Bytes) (o : Obj) (h : parseRaw d = .ok o) :
    o.cmds.Pairwise (fun a b => a.off + a.cmdsize ≤ b.off) := by
  unfold parseRaw at h
  cases hr : readHeader32 d with
  | error e => simp [hr] at h
  | ok hd =>
    simp only [hr] at h
    split_ifs at h with h1 h2 h3
    · obtain ⟨h64, _, h⟩ := bind_ok h
      obtain ⟨cs, hcs, h⟩ := bind_ok h
      simp only [pure, Except.pure] at h; injection h with h; subst h
      unfold readCommands at hcs
      split at hcs
      · rename_i cs' hw
        injection hcs with hcs; subst hcs
        have := macho_cmds_disjoint d h64.sizeofcmds 32
        rw [hw] at this; exact this
      · cases hcs
    · obtain ⟨_, _, h⟩ := bind_ok h
      obtain ⟨nf, _, h⟩ := bind_ok h
      split_ifs at h with h4
      · simp only [pure, Except.pure] at h; injection h with h; subst h; exact List.Pairwise.nil
      · obtain ⟨_, _, h⟩ := bind_ok h; cases h
    · obtain ⟨cs, hcs, h⟩ := bind_ok h
      simp only [pure, Except.pure] at h; injection h with h; subst h
      unfold readCommands at hcs
      split at hcs
      · rename_i cs' hw
        injection hcs with hcs; subst hcs
        have := macho_cmds_disjoint d hd.sizeofcmds 28
        rw [hw] at this; exact this
      · cases hcs

set_option maxRecDepth 100000 in
example : (walk exImg32 124 153 28 0).1.length = 1 := by decide +kernel

theorem leVal_eq : ∀ bs : Bytes, Amoco.Fmt.leVal bs = leVal bs
  | [] => rfl
  | b :: t => by simp [Amoco.Fmt.leVal, leVal, leVal_eq t]

/-- **macho_magic_disjoint** — an image the Mach-O constructor accepts satisfies the header-level
    Mach-O predicate of the `read_program` model, hence (by `Fmt.magic_disjoint`) is not accepted as
    ELF, PE, Intel-HEX or S-record. -/
theorem macho_magic_disjoint (env : Amoco.Fmt.ElfEnv) (d : Bytes) (hb : Amoco.Fmt.BytesOK d) (o : Obj)
    (h : machoInit d = .ok o) :
    Amoco.Fmt.machoHeaderOK d = true ∧ Amoco.Fmt.accElf env d = false ∧ Amoco.Fmt.peHeaderOK d = false ∧
    Amoco.Fmt.accHex d = false ∧ Amoco.Fmt.accSrec d = false := by
  obtain ⟨h28, hm⟩ := machoInit_header h
  have hok : Amoco.Fmt.machoHeaderOK d = true := by
    unfold Amoco.Fmt.machoHeaderOK
    have e : Amoco.Fmt.leVal (Amoco.Fmt.slice d 0 4) = le d 0 4 := by rw [leVal_eq]; rfl
    simp only [e, Bool.and_eq_true, Bool.or_eq_true, decide_eq_true_eq, beq_iff_eq]
    refine ⟨h28, ?_⟩
    rcases hm with hm | ⟨hm, h32⟩ | hm
    · exact Or.inl (Or.inl hm)
    · exact Or.inl (Or.inr ⟨hm, h32⟩)
    · exact Or.inr hm
  obtain ⟨_, m2, _, _, m5, _, _, m8, m9, _⟩ := Amoco.Fmt.Props20.magic_disjoint env d hb
  refine ⟨hok, ?_, ?_, ?_, ?_⟩
  · cases hx : Amoco.Fmt.accElf env d with
    | false => rfl
    | true => exact absurd ⟨hx, hok⟩ m2
  · cases hx : Amoco.Fmt.peHeaderOK d with
    | false => rfl
    | true => exact absurd ⟨hx, hok⟩ m5
  · cases hx : Amoco.Fmt.accHex d with
    | false => rfl
    | true => exact absurd ⟨hok, hx⟩ m8
  · cases hx : Amoco.Fmt.accSrec d with
    | false => rfl
    | true => exact absurd ⟨hok, hx⟩ m9



end Amoco.Macho
