/-
  C13 — Expressions, maps and memory behave as values.
-/
import Amoco.Model.Value
import Amoco.Props.C08
import Amoco.Props.C01

namespace Amoco.Value.Props

open Amoco.Value

variable {V : Type}

/-- a rewrite is *value-preserving* when whatever it puts in place of a node has the node's width and
    denotation (this is exactly what the soundness and width theorems of the simplifier, C01/C12,
    establish for `op.simplify`, `comp.simplify`, `slc.simplify`, …) -/
def Sound (S : Sem V) (rw : Tm → Option Tm) : Prop :=
  ∀ t t', rw t = some t' → width S t' = width S t ∧ den S t' = den S t

mutual
theorem rewrite_preserves (S : Sem V) (rw : Tm → Option Tm) (h : Sound S rw) :
    ∀ t : Tm, width S (rewrite rw t) = width S t ∧ den S (rewrite rw t) = den S t
  | .leaf i => by
    unfold rewrite
    cases hr : rw (.leaf i) with
    | none => simp
    | some t' => simpa using h _ _ hr
  | .node f as => by
    have ih := rewrites_preserves S rw h as
    unfold rewrite
    simp only
    have hnode : width S (Tm.node f (rewrites rw as)) = width S (Tm.node f as) ∧
                 den S (Tm.node f (rewrites rw as)) = den S (Tm.node f as) := by
      simp only [width, den, ih.1, ih.2, and_self]
    cases hr : rw (Tm.node f (rewrites rw as)) with
    | none => simpa using hnode
    | some t' =>
      have := h _ _ hr
      simp only [Option.getD_some]
      exact ⟨this.1.trans hnode.1, this.2.trans hnode.2⟩
theorem rewrites_preserves (S : Sem V) (rw : Tm → Option Tm) (h : Sound S rw) :
    ∀ ts : List Tm, widths S (rewrites rw ts) = widths S ts ∧ dens S (rewrites rw ts) = dens S ts
  | [] => by simp [rewrites, widths, dens]
  | t :: ts => by
    have h1 := rewrite_preserves S rw h t
    have h2 := rewrites_preserves S rw h ts
    simp only [rewrites, widths, dens, h1.1, h1.2, h2.1, h2.2, and_self]
end

/-- **operand_preserved**: an in-place rewrite of shared nodes that is sound node-wise leaves the width
    and the denotation of *every* expression embedding those nodes unchanged — the expression may be
    re-shaped, but only into an equivalent form. -/
theorem operand_preserved (S : Sem V) (rw : Tm → Option Tm) (h : Sound S rw) (e : Tm) :
    width S (rewrite rw e) = width S e ∧ den S (rewrite rw e) = den S e :=
  rewrite_preserves S rw h e

/-- …and so does any sequence of operations (each one a sound rewrite), for every expression of a
    workspace, whatever the sharing between them. -/
theorem history_preserved (S : Sem V) :
    ∀ (hist : List (Tm → Option Tm)), (∀ rw ∈ hist, Sound S rw) → ∀ e : Tm,
      width S (hist.foldl (fun t rw => rewrite rw t) e) = width S e ∧
      den S (hist.foldl (fun t rw => rewrite rw t) e) = den S e
  | [], _, e => by simp
  | rw :: rest, h, e => by
    have h1 := rewrite_preserves S rw (h rw List.mem_cons_self) e
    have h2 := history_preserved S rest (fun r hr => h r (List.mem_cons_of_mem _ hr)) (rewrite rw e)
    simp only [List.foldl_cons]
    exact ⟨h2.1.trans h1.1, h2.2.trans h1.2⟩

/-- conversely, one unsound node rewrite is visible from an embedding expression: value semantics
    really rests on the soundness of each in-place rule. -/
theorem unsound_rewrite_is_visible :
    let S : Sem Nat := ⟨fun _ => 8, fun i => i, fun _ _ => 8, fun _ vs => vs.foldl (· + ·) 0⟩
    let rw : Tm → Option Tm := fun t => match t with | .leaf 1 => some (.leaf 2) | _ => none
    den S (rewrite rw (.node 0 [.leaf 1, .leaf 5])) ≠ den S (.node 0 [.leaf 1, .leaf 5]) := by
  decide

/-- **Instance on amoco's algebra.**  `e.simplify(**opts)` rewrites the operand object `e` in place into
    what the functional model `simplify` returns.  By C01's `simplify_sound` / C12's width theorem the
    object seen afterwards — by its owner and by every expression that embeds it — has the same width and
    the same bit-vector value under every valuation: the rewrite is `Sound` in the sense above (for the
    sign-agnostic fragment `Plain`, without widening, threshold off, under `NoRenderClash`). -/
theorem operand_after_simplify (cfg : Amoco.Cfg) (hc : Amoco.C01.NoThreshold cfg) (ρ : Amoco.Expr.Val)
    (hρ : Amoco.C01.NoRenderClash ρ) (fuel : Nat) (opts : Amoco.Opts) (ho : opts.widening = false)
    (e post : Amoco.Expr) (he : Amoco.Expr.WF e) (hp : Amoco.Expr.Plain e)
    (h : Amoco.simplify cfg fuel opts e = .ok post) :
    post.size = e.size ∧ Amoco.Expr.ideal ρ post = Amoco.Expr.ideal ρ e := by
  have := Amoco.C01.simplify_sound cfg hc ρ hρ fuel opts ho e post he hp h
  exact ⟨this.2.1, this.2.2.2⟩

/-- memory half: operations on one live memory map (or on a copy) leave every other live map
    untouched — restated from C08 (functional model; the guarantee for the Python objects comes from
    the correspondence on all live maps in the C08 harness). -/
theorem memory_maps_are_values (ws : List Amoco.Memory.MMap) (i j : Nat) (op : Amoco.Memory.MOp) (h : i ≠ j) :
    (Amoco.Memory.WOp.apply ws (.on i op))[j]? = ws[j]? :=
  Amoco.Memory.Props.op_leaves_others ws i j op h

example : Sound (⟨fun _ => 8, fun i => i % 2, fun _ _ => 8, fun _ vs => vs.foldl (· + ·) 0⟩ : Sem Nat)
    (fun t => match t with | .leaf 4 => some (.leaf 2) | _ => none) := by
  intro t t' h
  simp only at h
  split at h
  · cases h; simp [width, den]
  · cases h

end Amoco.Value.Props
