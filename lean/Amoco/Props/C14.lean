/-
  C14 — Executable-format parsers report what the file encodes.
  Property theorems only (helper lemmas live in Amoco/Proofs/Fmt.lean).

  Models: Amoco/Model/HexSrec.lean (Intel-HEX / S-record readers and printers as coded),
  Amoco/Model/Elf.lean (struct walk, `Elf.__init__`, address queries, reference reader from the
  ELF specification).  `Generated/FmtStructs.lean` is rewritten on every run from the patched
  struct instances of /repo (reflection) and re-checked here.
-/
import Amoco.Model.HexSrec
import Amoco.Model.Elf
import Amoco.Proofs.Fmt
import Generated.FmtStructs

namespace Amoco.Fmt.Props

open Amoco Amoco.Fmt

/-! ## Intel HEX / S-record -/

/-- parse (print r) = r for every Intel-HEX record (any type, any payload, count/address/type in
    range, type-specific payload lengths as the format defines them). -/
theorem hex_roundtrip (r : HexRec) (h : r.WF) :
    hexLineSet (hexPrint r r.cksum) = .ok r.toLine :=
  hexLineSet_print r h

/-- every record with every wrong checksum byte is rejected with the format's own error. -/
theorem hex_bad_checksum_rejected (r : HexRec) (h : r.WF) (ck : Nat) (hck : ck < 256) (hne : ck ≠ r.cksum) :
    hexLineSet (hexPrint r ck) = .error .hexError :=
  hexLineSet_bad_cksum r h ck hck hne

/-- parse (print r) = r for every S-record (S0–S3, S5–S9). -/
theorem srec_roundtrip (r : SrecRec) (h : r.WF) :
    srecLineSet (srecPrint r r.cksum) = .ok r.toLine :=
  srecLineSet_print r h

/-- every S-record with every wrong checksum byte is rejected (model of the code *with*
    proposed_fixes/C14-srec-checksum.diff; the unrepaired code only logs a warning). -/
theorem srec_bad_checksum_rejected (r : SrecRec) (h : r.WF) (ck : Nat) (hck : ck < 256) (hne : ck ≠ r.cksum) :
    srecLineSet (srecPrint r ck) = .error .srecError :=
  srecLineSet_bad_cksum r h ck hck hne

/-- HEX address composition (`HEX.decode`) agrees with the Intel-HEX specification (the most recent
    extension record decides between segment·16+offset and linear·65536+offset) for EVERY stream of
    records, mixed extension records included.  (The first version of the code kept both bases and
    let a non-zero linear base win over a later segment record; the theorem was then only provable
    for streams with one kind of extension record, with a `decide`d witness of the excluded case.  The
    code was repaired and the model follows it.) -/
theorem hex_address_composition (ls : List HexLine) :
    hexDecode ls = hexRefAddrs ls :=
  hexDecode_eq_ref ls .plain

/-- the formerly excluded case: type 04 (base 1), then type 02 (base 0x2000), then data at 0x10 goes
    to 0x2000·16 + 0x10. -/
example :
    hexDecode [⟨2, 0, 4, [0, 1], 0xF9, .ela 1⟩, ⟨2, 0, 2, [0x20, 0], 0xDC, .base 0x2000⟩, ⟨1, 0x10, 0, [0xAA], 0x45, .none⟩]
      = [(0x20010, [0xAA])] := by
  decide

/-! ## ELF structure layouts -/

def letterSize : String → Option Nat
  | "B" => some 1 | "c" => some 1 | "b" => some 1
  | "H" => some 2 | "I" => some 4 | "Q" => some 8
  | _ => none

/-- a generated row `(name, struct letter, count, order)` as a model field, provided the letter is
    one of the unsigned scalars / byte arrays the ELF structures use and the order is the expected one. -/
def genField (order : String) (g : Generated.Fmt.F) : Option RawField :=
  match letterSize g.2.1 with
  | some sz => if g.2.2.2 == order then some { name := g.1, size := sz, count := g.2.2.1 } else none
  | none => none

def genFields (order : String) (l : List Generated.Fmt.F) : Option (List RawField) := l.mapM (genField order)

/-- T tie: the field lists reflected from the *patched instances* of /repo's `Ehdr/Phdr/Shdr/Sym/Rel/
    Rela/Dyn` in the four class × byte-order combinations are the model's field lists (same names,
    same order, same widths, unsigned, the byte order that was asked for). Regenerated every run. -/
theorem generated_eq_model :
    ∀ e ∈ [ ("<", Generated.Fmt.ident, identFields),
      ("<", Generated.Fmt.ehdr32le, ehdrFields false), (">", Generated.Fmt.ehdr32be, ehdrFields false),
      ("<", Generated.Fmt.ehdr64le, ehdrFields true), (">", Generated.Fmt.ehdr64be, ehdrFields true),
      ("<", Generated.Fmt.phdr32le, phdrFields false), (">", Generated.Fmt.phdr32be, phdrFields false),
      ("<", Generated.Fmt.phdr64le, phdrFields true), (">", Generated.Fmt.phdr64be, phdrFields true),
      ("<", Generated.Fmt.shdr32le, shdrFields false), (">", Generated.Fmt.shdr32be, shdrFields false),
      ("<", Generated.Fmt.shdr64le, shdrFields true), (">", Generated.Fmt.shdr64be, shdrFields true),
      ("<", Generated.Fmt.sym32le, symFields false), (">", Generated.Fmt.sym32be, symFields false),
      ("<", Generated.Fmt.sym64le, symFields true), (">", Generated.Fmt.sym64be, symFields true),
      ("<", Generated.Fmt.rel32le, relFields false), (">", Generated.Fmt.rel32be, relFields false),
      ("<", Generated.Fmt.rel64le, relFields true), (">", Generated.Fmt.rel64be, relFields true),
      ("<", Generated.Fmt.rela32le, relaFields false), (">", Generated.Fmt.rela32be, relaFields false),
      ("<", Generated.Fmt.rela64le, relaFields true), (">", Generated.Fmt.rela64be, relaFields true),
      ("<", Generated.Fmt.dyn32le, dynFields false), (">", Generated.Fmt.dyn32be, dynFields false),
      ("<", Generated.Fmt.dyn64le, dynFields true), (">", Generated.Fmt.dyn64be, dynFields true) ],
      genFields e.1 e.2.1 = some e.2.2 := by
  decide

/-- The field lists of `Ehdr/Phdr/Shdr/Sym/Rel/Rela/Dyn` as `elf.py` patches them, laid out by the
    struct walk (`offset = base + align(offset − base)`, `offset += size`), are the offset tables of the ELF
    specification, for both classes (byte order does not move fields). -/
theorem elf_layouts (x64 : Bool) :
    layout identFields 0 = specIdent ∧
    layoutPacked (ehdrFields x64) 16 = specEhdr x64 ∧
    layout (phdrFields x64) 0 = specPhdr x64 ∧
    layout (shdrFields x64) 0 = specShdr x64 ∧
    layout (symFields x64) 0 = specSym x64 ∧
    layout (relFields x64) 0 = specRel x64 ∧
    layout (relaFields x64) 0 = specRela x64 ∧
    layout (dynFields x64) 0 = specDyn x64 :=
  ⟨layout_ident, layout_ehdr x64, layout_phdr x64, layout_shdr x64, layout_sym x64, layout_rel x64,
   layout_rela x64, layout_dyn x64⟩

/-- the struct walk of `StructCore.unpack` at *any* base offset (fields are aligned relative to the
    start of the structure) reads every field at `base +` its layout offset — this is what makes
    `elf_layouts` meaningful. -/
theorem unpack_reads_layout (be : Bool) (fs : List RawField) (data : Bytes) (base : Nat)
    (hs : ∀ f ∈ fs, f.count = 0) (hin : base + layoutEnd fs 0 ≤ data.length) :
    structUnpack be fs data base = .ok (readLayout be (layout fs 0) data base) := by
  unfold structUnpack
  rw [unpackFields_aligned be fs data base 0 hin, readAt_eq_layout be fs data base 0 hs]
  rfl

/-! ## ELF parsing -/

/-- For every well-formed image (`ElfWF`: magic, header and both tables inside the file at any
    position, section-name string table valid) the constructor's header fields, program
    headers, section headers, section names, class and byte order are those of the reference reader.
    (Named `_partial` since the first version needed `ElfWF.ph_known`: the code dropped program headers
    whose `p_type` is not in amoco's constant table; that was repaired in the code — `keepPhdr` is
    constantly true — and the hypothesis is gone.  What remains outside `ElfWF` is malformed images,
    which C20 covers.) -/
theorem elf_parse_eq_ref_partial (env : ElfEnv) (data : Bytes) (h : ElfWF env data) :
    ∃ t, elfTables env data = .ok t ∧
      t.ident = (refElf data).ident ∧ t.ehdr = (refElf data).ehdr ∧
      t.x64 = (refElf data).x64 ∧ t.be = (refElf data).be ∧
      t.phdr = (refElf data).phdr ∧
      t.shdr.map (·.hdr) = (refElf data).shdr ∧
      t.shdr.map (·.name) = (refElf data).names :=
  elfTables_eq_ref env data h

/-- … and whenever the constructor returns an object, its tables are those and the entry point it
    reports is the file's `e_entry`. -/
theorem elf_object_eq_ref_partial (env : ElfEnv) (data : Bytes) (h : ElfWF env data) (o : ElfObj)
    (ho : elfInit env data = .ok o) :
    o.t.ehdr = (refElf data).ehdr ∧ o.t.phdr = (refElf data).phdr ∧
    o.t.shdr.map (·.hdr) = (refElf data).shdr ∧ o.t.shdr.map (·.name) = (refElf data).names ∧
    o.entrypoints = [(refElf data).entry] := by
  obtain ⟨t, ht, _, he, _, _, hp, hs, hn⟩ := elfTables_eq_ref env data h
  have hot : o.t = t := by
    unfold elfInit at ho
    cases hr : elfParseRaw env data with
    | error e => rw [hr] at ho; cases e <;> simp [toElfError] at ho
    | ok o' =>
      rw [hr] at ho
      simp only [toElfError, Except.ok.injEq] at ho
      subst ho
      unfold elfParseRaw at hr
      rw [ht] at hr
      simp only [bind, Except.bind] at hr
      cases hsym : elfSymbols t data with
      | error e => rw [hsym] at hr; cases hr
      | ok fv =>
        rw [hsym] at hr
        simp only [pure, Except.pure, Except.ok.injEq] at hr
        rw [← hr]
  rw [hot]
  refine ⟨he, hp, hs, hn, ?_⟩
  simp [ElfObj.entrypoints, hot, he, refElf]

/-- symbol tables: `__read_symtab` on the bytes of a symbol table section returns, entry by entry,
    the specification's `ElfN_Sym` at `i · sh_entsize`. -/
theorem elf_symtab_entries (be x64 : Bool) (S : Rec) (bytes : Bytes)
    (hent : fget S "sh_entsize" ≠ 0) (hmod : fget S "sh_size" % fget S "sh_entsize" = 0)
    (hbig : fget S "sh_size" / fget S "sh_entsize" ≤ bigTable)
    (hne : bytes ≠ [])
    (hin : ∀ i, i < fget S "sh_size" / fget S "sh_entsize" → i * fget S "sh_entsize" + symSize x64 ≤ bytes.length) :
    readEntries be (symFields x64) S bytes =
      .ok ((refTable be (specSym x64) bytes (fget S "sh_size" / fget S "sh_entsize") 0 (fget S "sh_entsize")).map some) :=
  readEntries_sym be x64 S bytes hent hmod hbig hne hin

/-- address → section and address → file offset follow the file's mapping: with a section table,
    `getinfo` returns the *last* `SHT_PROGBITS` section whose `[sh_addr, sh_addr+sh_size)` holds the
    address, offset `addr − sh_addr`, and `getfileoffset` is `sh_offset + (addr − sh_addr)`; it
    returns nothing exactly when no such section exists. -/
theorem elf_getinfo_follows_mapping (t : ElfTables) (addr : Nat) (hne : t.shdr ≠ []) :
    (∃ i s, t.shdr[i]? = some s ∧ secHolds addr s = true ∧
        (∀ j s', i < j → t.shdr[j]? = some s' → secHolds addr s' = false) ∧
        getinfo t addr = (.sec i, addr - fget s.hdr "sh_addr", fget s.hdr "sh_addr") ∧
        getfileoffset t addr = some (fget s.hdr "sh_offset" + (addr - fget s.hdr "sh_addr"))) ∨
    ((∀ s ∈ t.shdr, secHolds addr s = false) ∧ getinfo t addr = (.none, 0, 0) ∧ getfileoffset t addr = none) :=
  getinfo_sec t addr hne

/-! ## non-vacuity -/

-- a well-formed HEX data record and an S1 record
example : (⟨3, 0x0100, 0, [1, 2, 3]⟩ : HexRec).WF := by
  refine ⟨rfl, by decide, by decide, by decide, ?_, ?_, ?_, ?_, ?_⟩ <;> decide
example : (⟨2, 0, 4, [0x08, 0x00]⟩ : HexRec).WF := by
  refine ⟨rfl, by decide, by decide, by decide, ?_, ?_, ?_, ?_, ?_⟩ <;> decide
example : (⟨1, 0x1234, [0xde, 0xad]⟩ : SrecRec).WF := by
  refine ⟨by decide, by decide, by decide, by decide, ?_, ?_⟩ <;> decide
example : hexLineSet (hexPrint ⟨3, 0x0100, 0, [1, 2, 3]⟩ (HexRec.cksum ⟨3, 0x0100, 0, [1, 2, 3]⟩))
    = .ok (HexRec.toLine ⟨3, 0x0100, 0, [1, 2, 3]⟩) :=
  hex_roundtrip _ (by refine ⟨rfl, by decide, by decide, by decide, ?_, ?_, ?_, ?_, ?_⟩ <;> decide)

/-- a 143-byte ELF32-LSB image: header, two section headers (NULL, .shstrtab) at 52, names at 132 -/
def tinyElf : Bytes :=
  [127, 69, 76, 70, 1, 1, 1, 0, 0, 0, 0, 0, 0, 0, 0, 0, 2, 0, 3, 0, 1, 0, 0, 0, 0, 128, 4, 8, 0, 0, 0, 0, 52, 0, 0, 0,
   0, 0, 0, 0, 52, 0, 32, 0, 0, 0, 40, 0, 2, 0, 1, 0] ++
  [0, 0, 0, 0, 0, 0, 0, 0, 0, 0, 0, 0, 0, 0, 0, 0, 0, 0, 0, 0, 0, 0, 0, 0, 0, 0, 0, 0, 0, 0, 0, 0, 0, 0, 0, 0, 0, 0, 0, 0] ++
  [1, 0, 0, 0, 3, 0, 0, 0, 0, 0, 0, 0, 0, 0, 0, 0, 132, 0, 0, 0, 11, 0, 0, 0, 0, 0, 0, 0, 0, 0, 0, 0, 1, 0, 0, 0, 0, 0, 0, 0] ++
  [0, 46, 115, 104, 115, 116, 114, 116, 97, 98, 0]

set_option maxRecDepth 100000 in
example : ElfWF { knownPT := [0, 1, 2, 3], knownSHT := [] } tinyElf where
  len := by decide
  magic0 := by decide
  magic := by decide
  ph_in := by decide
  sh_in := by decide
  strndx_pos := by decide
  strndx_lt := by decide
  strtab := by decide
  str_off := by decide
  str_size := by decide
  names_utf8 := by decide

end Amoco.Fmt.Props
