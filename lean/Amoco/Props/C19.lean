/-
  C19 — Merging two maps over-approximates both.
-/
import Amoco.Model.Merge

namespace Amoco.Merge.Props

open Amoco.Merge

variable {E V : Type}

/-- set-valued denotation under a fixed concrete state: `val e` is the value of expression `e`. -/
def Den (val : E → V) : MV E → V → Prop
  | .top, _ => True
  | .leaf e, x => x = val e
  | .vec l, x => ∃ e ∈ l, x = val e
  | .vecw _, _ => True

theorem dedupBy_acc (eq : E → E → Bool) : ∀ (l acc : List E) (e : E), e ∈ acc → e ∈ dedupBy eq acc l
  | [], _, _, h => h
  | a :: rest, acc, e, h => by
    unfold dedupBy
    split
    · exact dedupBy_acc eq rest acc e h
    · exact dedupBy_acc eq rest (acc ++ [a]) e (List.mem_append_left _ h)

theorem dedupBy_covers (eq : E → E → Bool) (val : E → V) (heq : ∀ a b, eq a b = true → val a = val b) :
    ∀ (l acc : List E) (e : E), e ∈ l → ∃ e' ∈ dedupBy eq acc l, val e' = val e
  | [], _, _, h => by cases h
  | a :: rest, acc, e, h => by
    unfold dedupBy
    rcases List.mem_cons.mp h with rfl | h'
    · split
      · rename_i hany
        obtain ⟨b, hb, hab⟩ := List.any_eq_true.mp hany
        exact ⟨b, dedupBy_acc eq rest acc b hb, (heq _ _ hab).symm⟩
      · exact ⟨e, dedupBy_acc eq rest (acc ++ [e]) e (List.mem_append_right _ List.mem_cons_self), rfl⟩
    · split
      · exact dedupBy_covers eq val heq rest acc e h'
      · exact dedupBy_covers eq val heq rest (acc ++ [a]) e h'

theorem gather_inl (val : E → V) : ∀ (cs : List (MV E)) (acc : List E) (v : MV E),
    gather cs acc = .inl v → ∀ x, Den val v x
  | [], _, _, h => by simp [gather] at h
  | .top :: _, _, v, h => by simp only [gather, Sum.inl.injEq] at h; subst h; intro x; trivial
  | .vecw l :: _, _, v, h => by simp only [gather, Sum.inl.injEq] at h; subst h; intro x; trivial
  | .vec l :: rest, acc, v, h => by simp only [gather] at h; exact gather_inl val rest _ v h
  | .leaf e :: rest, acc, v, h => by simp only [gather] at h; exact gather_inl val rest _ v h

theorem gather_inr_acc : ∀ (cs : List (MV E)) (acc l : List E), gather cs acc = .inr l → ∀ e ∈ acc, e ∈ l
  | [], acc, l, h, e, he => by simp only [gather, Sum.inr.injEq] at h; subst h; exact he
  | .top :: _, _, _, h, _, _ => by simp [gather] at h
  | .vecw _ :: _, _, _, h, _, _ => by simp [gather] at h
  | .vec l' :: rest, acc, l, h, e, he => by
    simp only [gather] at h
    exact gather_inr_acc rest _ l h e (List.mem_append_left _ he)
  | .leaf a :: rest, acc, l, h, e, he => by
    simp only [gather] at h
    exact gather_inr_acc rest _ l h e (List.mem_append_left _ he)

theorem gather_inr (val : E → V) : ∀ (cs : List (MV E)) (acc l : List E), gather cs acc = .inr l →
    ∀ c ∈ cs, ∀ x, Den val c x → ∃ e ∈ l, x = val e
  | [], _, _, _, c, hc, _, _ => by cases hc
  | .top :: _, _, _, h, _, _, _, _ => by simp [gather] at h
  | .vecw _ :: _, _, _, h, _, _, _, _ => by simp [gather] at h
  | .vec l' :: rest, acc, l, h, c, hc, x, hx => by
    simp only [gather] at h
    rcases List.mem_cons.mp hc with rfl | hc'
    · obtain ⟨e, he, hxe⟩ := hx
      exact ⟨e, gather_inr_acc rest _ l h e (List.mem_append_right _ he), hxe⟩
    · exact gather_inr val rest _ l h c hc' x hx
  | .leaf a :: rest, acc, l, h, c, hc, x, hx => by
    simp only [gather] at h
    rcases List.mem_cons.mp hc with rfl | hc'
    · exact ⟨a, gather_inr_acc rest _ l h a (List.mem_append_right _ List.mem_cons_self), hx⟩
    · exact gather_inr val rest _ l h c hc' x hx

/-- **`vec.simplify` covers every alternative**, for every widening flag and complexity threshold:
    whatever a child may denote, the simplified vector either is 'unknown' (`top`, widened) or lists a
    term with that value.  `heq`: terms the algebra considers equal (same rendering) have the same value. -/
theorem vecSimplify_covers (eq : E → E → Bool) (val : E → V)
    (heq : ∀ a b, eq a b = true → val a = val b)
    (cplx : E → Nat) (thr : Nat) (widening : Bool) (children : List (MV E))
    (c : MV E) (hc : c ∈ children) (x : V) (hx : Den val c x) :
    Den val (vecSimplify eq cplx thr widening children) x := by
  unfold vecSimplify
  cases hg : gather children [] with
  | inl v => exact gather_inl val children [] v hg x
  | inr l =>
    obtain ⟨e, he, hxe⟩ := gather_inr val children [] l hg c hc x hx
    obtain ⟨e', he', hv⟩ := dedupBy_covers eq val heq l [] e he
    simp only
    split
    · rename_i e0 h1
      rw [h1] at he'
      simp only [List.mem_singleton] at he'
      subst he'
      show x = val e'
      rw [hxe, hv]
    · split
      · trivial
      · split
        · trivial
        · exact ⟨e', he', by rw [hxe, hv]⟩

theorem get_of_mem (input : Loc → E) : ∀ (m : Map E) (loc : Loc) (v : MV E),
    m.find? (fun p => p.1 == loc) = some (loc, v) → m.get input loc = v := by
  intro m loc v h; simp [Map.get, h]

/-- value of a location in a map, as a set of candidates: the written value, or the input value. -/
def valOf (val : E → V) (input : Loc → E) (m : Map E) (loc : Loc) : V → Prop := Den val (m.get input loc)

/-- **merge_covers**: for every register location written by the first map (resp. by the second and
    not the first), the merged value covers the value the location has in the first map and — unless
    it is a flag, which becomes `top` — the value it has in the second (the written one, or the
    untouched input). `simp` is any sound simplifier, `vs` any covering vec-simplifier (e.g.
    `vecSimplify`, by `vecSimplify_covers`). -/
theorem merge_covers (val : E → V) (input : Loc → E) (simp : MV E → MV E) (vs : List (MV E) → MV E)
    (hsimp : ∀ v x, Den val v x → Den val (simp v) x)
    (hvs : ∀ cs c, c ∈ cs → ∀ x, Den val c x → Den val (vs cs) x)
    (m1 m2 : Map E) (loc : Loc) (v : MV E)
    (hm : (loc, v) ∈ merge input simp vs m1 m2) (x : V) :
    (∀ v1, (loc, v1) ∈ m1 → v = vs [simp v1, simp (if loc.isFlag then MV.top else m2.get input loc)] →
        (Den val v1 x → Den val v x) ∧ (Den val (m2.get input loc) x → Den val v x)) := by
  intro v1 _ hv
  subst hv
  constructor
  · intro h
    exact hvs _ (simp v1) List.mem_cons_self x (hsimp v1 x h)
  · intro h
    apply hvs _ (simp (if loc.isFlag then MV.top else m2.get input loc)) (by simp) x
    apply hsimp
    split
    · trivial
    · exact h

/-- every entry of the merge has the shape the code gives it, and covers both maps' values. -/
theorem merge_entry_covers (val : E → V) (input : Loc → E) (simp : MV E → MV E) (vs : List (MV E) → MV E)
    (hsimp : ∀ v x, Den val v x → Den val (simp v) x)
    (hvs : ∀ cs c, c ∈ cs → ∀ x, Den val c x → Den val (vs cs) x)
    (m1 m2 : Map E) (loc : Loc) (v : MV E)
    (hm : (loc, v) ∈ merge input simp vs m1 m2) :
    (∃ v1, (loc, v1) ∈ m1 ∧ ∀ x, (Den val v1 x → Den val v x) ∧ (Den val (m2.get input loc) x → Den val v x)) ∨
    (∃ v2, (loc, v2) ∈ m2 ∧ ∀ x, (Den val v2 x → Den val v x) ∧ (Den val (m1.get input loc) x → Den val v x)) := by
  unfold merge at hm
  simp only [List.mem_append, List.mem_map, List.mem_filter, Prod.mk.injEq, Prod.exists] at hm
  rcases hm with ⟨l, v1, hin, rfl, rfl⟩ | ⟨l, v2, ⟨hin, _⟩, rfl, rfl⟩
  · left
    refine ⟨v1, hin, fun x => ⟨fun h => hvs _ _ List.mem_cons_self x (hsimp _ x h), fun h => ?_⟩⟩
    apply hvs _ (simp (if l.isFlag then MV.top else m2.get input l)) (by simp) x
    apply hsimp
    split
    · trivial
    · exact h
  · right
    refine ⟨v2, hin, fun x => ⟨fun h => hvs _ (simp v2) (by simp) x (hsimp _ x h), fun h => ?_⟩⟩
    apply hvs _ (simp (if l.isFlag then MV.top else m1.get input l)) List.mem_cons_self x
    apply hsimp
    split
    · trivial
    · exact h

theorem has_map (m : Map E) (f : Loc → MV E → MV E) (loc : Loc) :
    Map.has (m.map (fun p => (p.1, f p.1 p.2))) loc = m.has loc := by
  unfold Map.has
  induction m with
  | nil => rfl
  | cons a l ih => simp only [List.map_cons, List.any_cons, ih]

/-- every location written by either map is in the merge, and locations written by neither are not. -/
theorem merge_keys (input : Loc → E) (simp : MV E → MV E) (vs : List (MV E) → MV E) (m1 m2 : Map E) (loc : Loc) :
    (merge input simp vs m1 m2).has loc = (m1.has loc || m2.has loc) := by
  have hp1 : ∀ l, Map.has (m1.map (fun (p : Loc × MV E) =>
      (p.1, vs [simp p.2, simp (if p.1.isFlag then MV.top else m2.get input p.1)]))) l = m1.has l :=
    fun l => has_map m1 (fun l v => vs [simp v, simp (if l.isFlag then MV.top else m2.get input l)]) l
  unfold merge
  simp only []
  rw [show ∀ (a b : Map E), Map.has (a ++ b) loc = (a.has loc || b.has loc) from
        fun a b => by simp [Map.has, List.any_append]]
  rw [hp1 loc]
  by_cases h1 : m1.has loc = true
  · simp [h1]
  · have h1' : m1.has loc = false := by simpa using h1
    rw [h1', Bool.false_or, Bool.false_or]
    rw [has_map _ (fun l v => vs [simp (if l.isFlag then MV.top else m1.get input l), simp v]) loc]
    unfold Map.has
    rw [List.any_filter]
    congr 1
    funext p
    by_cases hp : (p.1 == loc) = true
    · have hpl : p.1 = loc := by simpa using hp
      have := hp1 p.1
      unfold Map.has at this
      rw [this, hpl]
      have h1'' := h1'
      unfold Map.has at h1''
      rw [h1'']; simp
    · have : (p.1 == loc) = false := by simpa using hp
      simp [this]

-- non-vacuity: a concrete merge
example : vecSimplify (E := Nat) (· == ·) (fun _ => 1) 0 false [.leaf 3, .vec [3, 4], .leaf 5] = .vec [3, 4, 5] := by decide
example : vecSimplify (E := Nat) (· == ·) (fun _ => 1) 0 false [.leaf 3, .leaf 3] = .leaf 3 := by decide
example : vecSimplify (E := Nat) (· == ·) (fun _ => 2) 3 false [.leaf 3, .leaf 4] = .top := by decide
example : vecSimplify (E := Nat) (· == ·) (fun _ => 2) 3 true [.leaf 3, .leaf 4] = .vecw [3, 4] := by decide

end Amoco.Merge.Props
