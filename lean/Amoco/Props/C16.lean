/-
  C16 — Structure definitions encode, decode and lay out like C.
  Property theorems only (helper lemmas live in Amoco/Proofs/Struct*).

  Model: Amoco.Model.Struct (amoco/system/structs/{__init__,core,fields}.py) and
         Amoco.Model.Leb128 (utils.py).  `ps` is the `psize` argument of the code
         (4 / 8 / 32 / 64 select the pointer size; anything else means the host's native size).
-/
import Amoco.Proofs.Struct

namespace Amoco.Struct.Props

open Amoco Amoco.Struct

/-! ## layout -/

/-- **Size, alignment and every offset computed by the code are those of the C ABI reference**,
    for every definition of the modelled fragment (any nesting depth, arrays, unions, typedefs,
    bit-field units, packed or not) and every `psize`.  `refDef` is the reference calculator
    (`place`: each member at the least multiple of its alignment not below the end of the previous
    one, alignment 1 when packed, size rounded up to the alignment; validated against gcc by the
    harness). -/
theorem layout_eq_abi (ps : Nat) (d : Def) (hm : d.modelled ps = true) (L : Lay) (hL : refDef ps d = some L) :
    d.sizeV ps = some L.size ∧ d.alignV ps = L.align ∧
      d.offsetsV ps = refEntries ps d.isUnion d.fields L.offs := by
  have h := (defRel ps d hm).2
  rw [hL] at h
  exact ⟨h.1, h.2, offsetsV_ref ps d hm L hL⟩

/-- definitions with a variable-length member have no C layout, and the code reports an infinite size -/
theorem layout_var_infinite (ps : Nat) (d : Def) (hm : d.modelled ps = true) (hL : refDef ps d = none) :
    d.sizeV ps = none := by
  have h := (defRel ps d hm).2
  rw [hL] at h
  exact h

/-- the code's `Field.align` is "round up to the next multiple" — the least one -/
theorem align_least (o a : Nat) (ha : 0 < a) :
    a ∣ alignTo o a ∧ o ≤ alignTo o a ∧ ∀ m, o ≤ m → a ∣ m → alignTo o a ≤ m := by
  rw [alignTo_eq_roundUp o a ha]
  have := roundUp_spec o a ha
  exact ⟨this.1, this.2.1, this.2.2.2⟩

/-- declarative reading of the reference: the offsets `placeMembers` assigns are the unique ones that
    put every member at the least suitably aligned offset after its predecessor -/
theorem abi_placement_least (ms : List (Nat × Nat)) (e : Nat) (hp : ∀ m ∈ ms, 0 < m.2)
    (os : List Nat) (e' : Nat) (h : Placed ms e os e') :
    os = (placeMembers ms e).1 ∧ e' = (placeMembers ms e).2 :=
  placed_unique h (placeMembers_placed ms e hp)

/-- the size of a fixed-size definition is a multiple of its alignment -/
theorem size_multiple_of_align (ps : Nat) (d : Def) (hm : d.modelled ps = true) (s : Nat)
    (h : d.sizeV ps = some s) : s % d.alignV ps = 0 :=
  sizeV_mod_alignV hm h

/-! ## pack ∘ unpack -/

/-- **Packing the unpacked values reproduces the original bytes.**
    For every well-formed definition of the modelled fragment (scalars, arrays, nested structures,
    unions, typedefs, bit-fields, counted / bound / terminated / LEB128 variable-length fields), every
    `psize`, every byte string and offset at which `unpack` succeeds:
    `pack` returns exactly `n = len(instance)` bytes, equal to the bytes read at `pos` on every data
    bit, and zero on every padding bit.  `m` is the data mask of the instance (ghost output of the
    model's `unpack`: `0xff` on data bytes, the covered bits of bit-field units, `0` on padding);
    `canonical = true` says that every LEB128 number met was in shortest form — the only encodings a
    writer can reproduce. -/
theorem pack_unpack (ps : Nat) (d : Def) (hwf : d.wf ps = true) (hm : d.modelled ps = true)
    (data : Bytes) (pos : Nat) (v : Val) (n : Nat) (m : Bytes)
    (h : unpackDef ps data pos d = some (v, n, m, true)) :
    packDef ps d v = some (canon m (data.drop pos)) ∧ m.length = n := by
  obtain ⟨h1, h2, _⟩ := defRT ps data d hwf hm pos v n m true h rfl
  exact ⟨h1, h2⟩

/-- where the mask says "all data" (no padding, e.g. packed definitions) the packed bytes are the
    original bytes, verbatim -/
theorem pack_unpack_exact (ps : Nat) (d : Def) (hwf : d.wf ps = true) (hm : d.modelled ps = true)
    (data : Bytes) (pos : Nat) (v : Val) (n : Nat)
    (h : unpackDef ps data pos d = some (v, n, ones n, true)) (hlen : pos + n ≤ data.length) :
    packDef ps d v = some ((data.drop pos).take n) := by
  obtain ⟨h1, _⟩ := pack_unpack ps d hwf hm data pos v n (ones n) h
  rw [h1, canon_ones n _ (by rw [List.length_drop]; omega)]

/-- for a fixed-size definition the instance is as long as the C ABI size -/
theorem unpack_len_eq_size (ps : Nat) (d : Def) (hwf : d.wf ps = true) (hm : d.modelled ps = true)
    (data : Bytes) (pos : Nat) (v : Val) (n : Nat) (m : Bytes)
    (h : unpackDef ps data pos d = some (v, n, m, true)) (L : Lay) (hL : refDef ps d = some L) :
    n = L.size := by
  obtain ⟨_, _, h3⟩ := defRT ps data d hwf hm pos v n m true h rfl
  exact h3 L.size (layout_eq_abi ps d hm L hL).1

/-! ## unpack reads the C layout -/

/-- **Unpacking reads each field from exactly the C layout.**  For a fixed-size definition (one the
    C ABI reference lays out), `unpack` at `pos` succeeds exactly when the reference decoder does, and
    returns its value: every member decoded from the bytes at `pos +` its ABI offset (arrays at the
    ABI stride, nested aggregates recursively, bit-field parts from their storage unit), with
    `len(instance)` the ABI size, the data mask the reference mask (members at their offsets, padding
    zero) — and no LEB128 caveat (`canonical = true`). -/
theorem unpack_reads_layout (ps : Nat) (d : Def) (hwf : d.wf ps = true) (hm : d.modelled ps = true)
    (L : Lay) (hL : refDef ps d = some L) (data : Bytes) (pos : Nat) :
    unpackDef ps data pos d
      = (refDecodeDef ps (data.drop pos) d).map (fun v => (v, L.size, refMaskDef ps d, true)) :=
  defRef ps data d hwf hm L hL pos

/-- fixed-size definitions: `pack (unpack bytes)` is the original `size` bytes with the padding
    (as given by the ABI reference) zeroed — in particular the inner padding is kept in place -/
theorem pack_unpack_fixed (ps : Nat) (d : Def) (hwf : d.wf ps = true) (hm : d.modelled ps = true)
    (L : Lay) (hL : refDef ps d = some L) (data : Bytes) (pos : Nat) (v : Val) (n : Nat) (m : Bytes) (c : Bool)
    (h : unpackDef ps data pos d = some (v, n, m, c)) :
    packDef ps d v = some (canon (refMaskDef ps d) (data.drop pos)) ∧ n = L.size ∧
      (refMaskDef ps d).length = L.size := by
  have href := unpack_reads_layout ps d hwf hm L hL data pos
  rw [h] at href
  cases hd : refDecodeDef ps (data.drop pos) d with
  | none => rw [hd] at href; simp at href
  | some v' =>
    rw [hd] at href
    simp only [Option.map_some, Option.some.injEq, Prod.mk.injEq] at href
    obtain ⟨rfl, rfl, rfl, rfl⟩ := href
    obtain ⟨h1, h2⟩ := pack_unpack ps d hwf hm data pos v L.size (refMaskDef ps d) h
    exact ⟨h1, rfl, h2⟩

/-! ## LEB128 -/

open Amoco.Leb128

/-- unsigned LEB128: reading what was written gives the value back and consumes exactly the bytes
    written, for ALL values, at any offset, whatever follows -/
theorem uleb_roundtrip (v : Nat) (pre rest : List UInt8) :
    readLeb false (pre ++ (writeU v ++ rest)) pre.length = some ((v : Int), (writeU v).length) := by
  rw [readLeb_drop, readLeb_writeU]

/-- signed LEB128: the same for ALL integers -/
theorem sleb_roundtrip (v : Int) (pre rest : List UInt8) :
    readLeb true (pre ++ (writeS v ++ rest)) pre.length = some (v, (writeS v).length) := by
  rw [readLeb_drop, readLeb_writeS]

/-- unsigned LEB128: writing what was read gives the bytes back, for canonical encodings -/
theorem uleb_canonical (data : List UInt8) (pos : Nat) (v : Int) (n : Nat)
    (h : readLeb false data pos = some (v, n)) (hc : canonU ((data.drop pos).take n) = true) :
    0 ≤ v ∧ writeU v.toNat = (data.drop pos).take n := by
  obtain ⟨hv, hw, _⟩ := readLeb_canonU h hc
  rw [hv]
  exact ⟨by omega, by simpa using hw⟩

/-- signed LEB128: the same -/
theorem sleb_canonical (data : List UInt8) (pos : Nat) (v : Int) (n : Nat)
    (h : readLeb true data pos = some (v, n)) (hc : canonS ((data.drop pos).take n) = true) :
    writeS v = (data.drop pos).take n :=
  (readLeb_canonS h hc).1

/-- the writer only produces canonical encodings (so the hypothesis above is exactly
    "these bytes could have been written") -/
theorem uleb_written_is_canonical (v : Nat) : canonU (writeU v) = true := canonU_writeU v

/-! ## non-vacuity: the hypotheses are met by concrete definitions, data and values -/

/-- `c: a \n I: b` — the definition of DESIGN.md §12 -/
def exCI : Def := .mk .struct false [.raw "a" .c false 0, .raw "b" .I false 0]

def exData : Bytes := [0x41, 0xff, 0xff, 0xff, 0xef, 0xcd, 0xab, 0x89]

example : exCI.wf 8 = true ∧ exCI.modelled 8 = true := by decide

example : refDef 8 exCI = some { size := 8, align := 4, offs := [0, 4] } := by decide

example : (unpackDef 8 exData 0 exCI).map (fun r => (r.2.1, r.2.2.1, r.2.2.2))
    = some (8, [0xff, 0, 0, 0, 0xff, 0xff, 0xff, 0xff], true) := by decide

example : refMaskDef 8 exCI = [0xff, 0, 0, 0, 0xff, 0xff, 0xff, 0xff] := by decide

/-- the padding bytes `ff ff ff` come back as zeros, everything else verbatim -/
example : (unpackDef 8 exData 0 exCI).bind (fun r => packDef 8 exCI r.1)
    = some [0x41, 0, 0, 0, 0xef, 0xcd, 0xab, 0x89] := by decide

example : readLeb false [0xe5, 0x8e, 0x26, 0x99] 0 = some (624485, 3) ∧
    readLeb true [0x07, 0xc0, 0xbb, 0x78] 1 = some (-123456, 3) := by decide

example : writeU 624485 = [0xe5, 0x8e, 0x26] :=
  (uleb_canonical [0xe5, 0x8e, 0x26, 0x99] 0 624485 3 (by decide) (by decide)).2

example : writeS (-123456) = [0xc0, 0xbb, 0x78] :=
  sleb_canonical [0x07, 0xc0, 0xbb, 0x78] 1 (-123456) 3 (by decide) (by decide)

example : canonS [0xc0, 0xbb, 0x78] = true ∧ canonU [0x80, 0x00] = false := by decide

end Amoco.Struct.Props
