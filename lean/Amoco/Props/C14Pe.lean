/-
  C14 / C20, PE half — property theorems about the model of `amoco.system.pe.PE.__init__` up to and
  including the section table (Amoco/Model/Pe.lean).  Helper lemmas: Amoco/Proofs/Pe.lean.

  * `pe_layouts`          the code's `@StructDefine` field lists, with the PE32+ patch of
                          `OptionalHdr.unpack`, lay out at the offsets of the PE/COFF specification;
  * `pe_parse_eq_ref`     on every image satisfying `PeWF` the constructor returns exactly what the
                          by-the-book reference reader reports (C14);
  * `pe_ctor_total`       for every byte string the header stage returns an object or raises
                          `PEError` / `StructureError`, with or without the catch-all of `__init__` (C20);
  * `pe_sections_bounded` entries parsed ≤ the 16-bit count field, ≤ 16 directories, and everything
                          read lies inside the input (so entries ≤ |input| / 40) (C20);
  * `pe_magic_disjoint`   an accepted PE is not accepted as ELF / Mach-O / HEX / SREC (C20);
  * `pe_locate_sound`      the RVA → section → file offset mapping of `locate` / `getfileoffset`.
-/
import Amoco.Model.Pe
import Amoco.Proofs.Pe
import Amoco.Model.Elf
import Amoco.Proofs.Fmt

namespace Amoco.Pe.Props

open Amoco.Pe Amoco.Pe.Ref

/-- The field lists of pe.py (PE32+ list = the list after `f.pop(8)` and the five `typename = "Q"`)
    produce the offset/size tables of the specification, and `len()` of each structure is the
    specification's size. -/
theorem pe_layouts :
    layout coffFields 0 = coffSpec.map ofSpec ∧ structLen coffFields = 24 ∧
    layout opt32Fields 0 = opt32Spec.map ofSpec ∧ structLen opt32Fields = 96 ∧
    layout (optFields [0x0b, 0x02]) 0 = opt64Spec.map ofSpec ∧ structLen (optFields [0x0b, 0x02]) = 112 ∧
    layout ddFields 0 = ddSpec.map ofSpec ∧ structLen ddFields = 8 ∧
    layout secFields 0 = secSpec.map ofSpec ∧ structLen secFields = 40 ∧
    layout dosFields 0 = [(.bytes, 0, 2), (.pad, 2, 58), (.le, 60, 4)] :=
  ⟨coff_layout, coff_len, opt32_layout, opt32_len, opt64_layout, opt64_len, dd_layout, dd_len,
   sec_layout, sec_len, dos_layout⟩

/-! ## C14: the constructor reports what the file encodes -/

theorem pe_parse_eq_ref (data : Bytes) (h : PeWF data = true) :
    peParseRaw data = .ok (refRead data) ∧ peInit data = .ok (refRead data) := by
  have key : peParseRaw data = .ok (refRead data) := by
    simp only [PeWF, Bool.and_eq_true, decide_eq_true_eq, beq_iff_eq, Bool.or_eq_true] at h
    obtain ⟨⟨⟨⟨⟨⟨⟨⟨⟨hb, h64⟩, hmz⟩, hlf⟩, hsig⟩, hmagic⟩, hfix⟩, hnd⟩, hsoh⟩, hsec⟩ := h
    -- DOS header
    have hdosU := structUnpack_ok dosFields data 0 (by rw [dos_end]; omega)
    have hMZ : slice data 0 2 = [0x4d, 0x5a] :=
      slice2_of_u16 data 0 0x4d 0x5a hb (by omega) (by omega) (by omega) (by rw [hmz])
    have hdos : dosHdr data = .ok ((layout dosFields 0).map (readAt data 0)) := by
      simp [dosHdr, hdosU, hMZ]
    have hlfv : Rec.nth ((layout dosFields 0).map (readAt data 0)) 2 = u32 data 0x3c := by
      rw [dos_layout]
      simp [Rec.nth, readAt, fieldVal, u32, uN, leTake_eq, slice]
    -- COFF header
    have hcoff : coffHdr data (u32 data 0x3c) = .ok (readSpec data (u32 data 0x3c) coffSpec) := by
      have hu := structUnpack_ok coffFields data (u32 data 0x3c) (by rw [coff_end]; omega)
      rw [coff_layout, map_readAt_ofSpec] at hu
      have h0 : Rec.nth (readSpec data (u32 data 0x3c) coffSpec) 0 = 0x4550 := by
        simp [Rec.nth, readSpec, coffSpec, rd]
        simpa [u32, uN] using hsig
      simp [coffHdr, hu, h0]
    have hnsec : Rec.nth (readSpec data (u32 data 0x3c) coffSpec) 2 = u16 data (u32 data 0x3c + 6) := by
      simp [Rec.nth, readSpec, coffSpec, rd, u16, uN]
    have hsohv : Rec.nth (readSpec data (u32 data 0x3c) coffSpec) 6 = u16 data (u32 data 0x3c + 20) := by
      simp [Rec.nth, readSpec, coffSpec, rd, u16, uN]
    -- section table
    have hsecs := tableLoop_ok secFields secSpec 40 sec_layout sec_len (by rw [sec_end]; omega) data
      (u16 data (u32 data 0x3c + 6)) (u32 data 0x3c + 24 + u16 data (u32 data 0x3c + 20)) hsec
    -- optional header, by magic
    rcases hmagic with hm | hm
    · -- PE32
      have hne : (u16 data (u32 data 0x3c + 24) == 0x20b) = false := by rw [hm]; decide
      have e96 : (if (0x10b : Nat) = 0x20b then 112 else 96) = 96 := by decide
      simp only [hm, e96] at hfix hnd hsoh
      have hsl : slice data (u32 data 0x3c + 24) 2 = [0x0b, 0x01] :=
        slice2_of_u16 data _ 0x0b 0x01 hb (by omega) (by omega) (by omega) (by rw [hm])
      have hu := structUnpack_ok opt32Fields data (u32 data 0x3c + 24) (by rw [opt32_end]; omega)
      rw [opt32_layout, map_readAt_ofSpec] at hu
      have hndv : Rec.nth (readSpec data (u32 data 0x3c + 24) opt32Spec) 29 = u32 data (u32 data 0x3c + 24 + 96 - 4) := by
        simp [Rec.nth, readSpec, opt32Spec, rd, u32, uN, Nat.add_assoc]
      have hdirs := tableLoop_ok ddFields ddSpec 8 dd_layout dd_len (by rw [dd_end]; omega) data
        (u32 data (u32 data 0x3c + 24 + 96 - 4)) (u32 data 0x3c + 24 + 96) (by omega)
      have hopt : optHdr data (u32 data 0x3c + 24) = .ok (false, readSpec data (u32 data 0x3c + 24) opt32Spec,
          (List.range (u32 data (u32 data 0x3c + 24 + 96 - 4))).map
            (fun i => readSpec data (u32 data 0x3c + 24 + 96 + 8 * i) ddSpec)) := by
        have hof : optFields [0x0b, 0x01] = opt32Fields := optFields_other _ (by decide)
        simp only [optHdr, hsl, hof, hu, show (([0x0b, 0x01] : Bytes) == [0x0b, 0x02]) = false by decide,
          idxNdirs, Bool.false_eq_true, if_false, hndv, maxDirs, Nat.min_eq_left hnd, opt32_len, hdirs]
      simp only [peParseRaw, hdos, hlfv, hcoff, coff_len, hopt, hnsec, hsohv, hsecs]
      simp only [refRead, hne, Bool.false_eq_true, if_false]
    · -- PE32+
      have hne : (u16 data (u32 data 0x3c + 24) == 0x20b) = true := by rw [hm]; decide
      simp only [hm, reduceIte] at hfix hnd hsoh
      have hsl : slice data (u32 data 0x3c + 24) 2 = [0x0b, 0x02] :=
        slice2_of_u16 data _ 0x0b 0x02 hb (by omega) (by omega) (by omega) (by rw [hm])
      have hu := structUnpack_ok (optFields [0x0b, 0x02]) data (u32 data 0x3c + 24) (by rw [opt64_end]; omega)
      rw [opt64_layout, map_readAt_ofSpec] at hu
      have hndv : Rec.nth (readSpec data (u32 data 0x3c + 24) opt64Spec) 28 = u32 data (u32 data 0x3c + 24 + 112 - 4) := by
        simp [Rec.nth, readSpec, opt64Spec, rd, u32, uN, Nat.add_assoc]
      have hdirs := tableLoop_ok ddFields ddSpec 8 dd_layout dd_len (by rw [dd_end]; omega) data
        (u32 data (u32 data 0x3c + 24 + 112 - 4)) (u32 data 0x3c + 24 + 112) (by omega)
      have hopt : optHdr data (u32 data 0x3c + 24) = .ok (true, readSpec data (u32 data 0x3c + 24) opt64Spec,
          (List.range (u32 data (u32 data 0x3c + 24 + 112 - 4))).map
            (fun i => readSpec data (u32 data 0x3c + 24 + 112 + 8 * i) ddSpec)) := by
        simp only [optHdr, hsl, hu, show (([0x0b, 0x02] : Bytes) == [0x0b, 0x02]) = true by decide,
          idxNdirs, if_true, hndv, maxDirs, Nat.min_eq_left hnd, opt64_len, hdirs]
      simp only [peParseRaw, hdos, hlfv, hcoff, coff_len, hopt, hnsec, hsohv, hsecs]
      simp only [refRead, hne, if_true]
  exact ⟨key, by simp [peInit, key]⟩

/-! ## C20: only format errors, bounded work -/

theorem peParseRaw_raises (data : Bytes) (e : PyExn) (h : peParseRaw data = .error e) :
    e = .peError ∨ e = .structureError := by
  simp only [peParseRaw] at h
  split at h
  · cases h; exact .inl rfl
  · split at h
    · rename_i e' he'
      cases h
      unfold coffHdr at he'
      split at he'
      · rename_i e'' he''; cases he'; exact .inr (structUnpack_raises _ _ _ _ he'')
      · split at he'
        · cases he'
        · cases he'; exact .inl rfl
    · split at h
      · rename_i e' he'
        cases h
        unfold optHdr at he'
        simp only at he'
        split at he'
        · rename_i e'' he''; cases he'; exact .inr (structUnpack_raises _ _ _ _ he'')
        · split at he'
          · rename_i e'' he''; cases he'; exact .inr (tableLoop_raises _ _ _ _ _ he'')
          · cases he'
      · split at h
        · rename_i e' he'; cases h; exact .inr (tableLoop_raises _ _ _ _ _ he')
        · cases h

/-- For every byte string the header stage of the PE constructor returns a parsed object or a
    format error (`PEError`, or the struct layer's `StructureError` that `read_program` catches with
    it) — already without the catch-all of `PE.__init__`, and hence with it. -/
theorem pe_ctor_total (data : Bytes) :
    ((∃ o, peParseRaw data = .ok o) ∨ peParseRaw data = .error .peError ∨ peParseRaw data = .error .structureError) ∧
    ((∃ o, peInit data = .ok o) ∨ ∃ e, peInit data = .error e ∧ e.isFormat = true) ∧
    (∀ o, peInit data = .ok o ↔ peParseRaw data = .ok o) := by
  have hraw : (∃ o, peParseRaw data = .ok o) ∨ peParseRaw data = .error .peError ∨
      peParseRaw data = .error .structureError := by
    cases hr : peParseRaw data with
    | ok o => exact .inl ⟨o, rfl⟩
    | error e => rcases peParseRaw_raises data e hr with rfl | rfl <;> simp
  refine ⟨hraw, ?_, ?_⟩
  · rcases hraw with ⟨o, ho⟩ | ho | ho
    · exact .inl ⟨o, by simp [peInit, ho]⟩
    · exact .inr ⟨.peError, by simp [peInit, ho], rfl⟩
    · exact .inr ⟨.structureError, by simp [peInit, ho], rfl⟩
  · intro o
    rcases hraw with ⟨o', ho⟩ | ho | ho <;> simp [peInit, ho]

/-- What an accepted image made the constructor read: exactly `NumberOfSections` section entries
    (a 16-bit field: < 65536 on a byte string) and at most 16 directories, each entry wholly inside the
    input — so the number of entries is also at most |input| / 40 resp. |input| / 8.  Nothing is
    allocated from a file-controlled size at this stage. -/
theorem pe_sections_bounded (data : Bytes) (o : PeObj) (h : peParseRaw data = .ok o) :
    o.sections.length = o.nt.nth 2 ∧
    40 * o.sections.length ≤ data.length ∧
    o.dirs.length ≤ 16 ∧ 8 * o.dirs.length ≤ data.length ∧
    o.lfanew + 24 ≤ data.length ∧
    (data.all (· < 256) = true → o.sections.length < 65536) := by
  simp only [peParseRaw] at h
  split at h
  · cases h
  · rename_i dos hdos
    split at h
    · cases h
    · rename_i nt hnt
      split at h
      · cases h
      · rename_i plus opt ds hopt
        split at h
        · cases h
        · rename_i secs hsecs
          cases h
          simp only
          obtain ⟨hlen, hin⟩ := tableLoop_bound secFields sec_pos (by decide) data _ _ _ hsecs
          -- COFF header inside the data
          have hcb : dos.nth 2 + 24 ≤ data.length := by
            unfold coffHdr at hnt
            split at hnt
            · cases hnt
            · rename_i r hr
              have := structUnpack_bound coffFields data _ r coff_pos (by decide) hr
              rw [coff_end] at this; exact this
          -- directories
          have hd : ds.length ≤ 16 ∧ 8 * ds.length ≤ data.length := by
            unfold optHdr at hopt
            simp only at hopt
            split at hopt
            · cases hopt
            · split at hopt
              · cases hopt
              · rename_i r hr l hl
                cases hopt
                obtain ⟨hdl, hdin⟩ := tableLoop_bound ddFields dd_pos (by decide) data _ _ _ hl
                refine ⟨by rw [hdl]; exact Nat.min_le_right _ _, ?_⟩
                by_cases hz : ds.length = 0
                · omega
                · have := hdin (by omega)
                  rw [dd_len, dd_end, ← hdl] at this
                  omega
          refine ⟨hlen, ?_, hd.1, hd.2, hcb, ?_⟩
          · by_cases hz : secs.length = 0
            · omega
            · have := hin (by omega)
              rw [sec_len, sec_end, ← hlen] at this
              omega
          · intro hb
            rw [hlen]
            -- NumberOfSections is two bytes of the file
            unfold coffHdr at hnt
            split at hnt
            · cases hnt
            · rename_i r hr
              have hbnd := structUnpack_bound coffFields data _ r coff_pos (by decide) hr
              rw [coff_end] at hbnd
              rw [structUnpack_ok coffFields data _ (by rw [coff_end]; exact hbnd)] at hr
              cases hr
              split at hnt
              · cases hnt
                rw [coff_layout, map_readAt_ofSpec]
                have : Rec.nth (readSpec data (dos.nth 2) coffSpec) 2 = u16 data (dos.nth 2 + 6) := by
                  simp [Rec.nth, readSpec, coffSpec, rd, u16, uN]
                rw [this]
                exact u16_lt data _ hb
              · cases hnt

/-! ## C20: an accepted PE is not another format -/

theorem peParseRaw_head (data : Bytes) (o : PeObj) (h : peParseRaw data = .ok o) : data.head? = some 77 := by
  simp only [peParseRaw] at h
  split at h
  · cases h
  · rename_i dos hdos
    unfold dosHdr at hdos
    split at hdos
    · cases hdos
    · split at hdos
      · rename_i hm
        have hm' : slice data 0 2 = [0x4d, 0x5a] := by simpa using hm
        rcases data with _ | ⟨a, t⟩
        · simp [slice] at hm'
        · simp [slice] at hm'
          simp [hm'.1]
      · cases hdos

/-- A byte string the PE constructor accepts starts with 'M', hence is rejected by the ELF
    constructor (0x7f), the Mach-O header test (0xCE/0xCF/0xCA), HEX (':') and SREC ('S'), and it
    satisfies the header-level PE predicate of the `read_program` model (Model/Elf.lean)'s first-byte
    requirement. -/
theorem pe_magic_disjoint (env : Amoco.Fmt.ElfEnv) (data : Bytes) (o : PeObj)
    (hb : ∀ b ∈ data, b < 256) (h : peInit data = .ok o) :
    Amoco.Fmt.accElf env data = false ∧ Amoco.Fmt.machoHeaderOK data = false ∧
    Amoco.Fmt.accHex data = false ∧ Amoco.Fmt.accSrec data = false := by
  have hraw : peParseRaw data = .ok o := ((pe_ctor_total data).2.2 o).mp h
  have hd := peParseRaw_head data o hraw
  have sp77 : Amoco.Fmt.isSpace 77 = false := by decide
  refine ⟨?_, ?_, ?_, ?_⟩
  · cases hc : Amoco.Fmt.accElf env data with
    | false => rfl
    | true => have := Amoco.Fmt.accElf_head env data hc; rw [hd] at this; cases this
  · cases hc : Amoco.Fmt.machoHeaderOK data with
    | false => rfl
    | true =>
      rcases Amoco.Fmt.machoHeaderOK_head data hb hc with a | a | a <;> rw [hd] at a <;> cases a
  · cases hc : Amoco.Fmt.accHex data with
    | false => rfl
    | true => have := Amoco.Fmt.accHex_first data _ hc hd sp77; omega
  · cases hc : Amoco.Fmt.accSrec data with
    | false => rfl
    | true => have := Amoco.Fmt.accSrec_first data _ hc hd sp77; omega

/-! ## C14: RVA → section → file offset -/

theorem locateSecs_sound (ss : List Rec) (i0 : Nat) (a : Int) (i : Nat) (off : Int)
    (h : locateSecs ss i0 a = some (i, off)) :
    i0 ≤ i ∧ i - i0 < ss.length ∧
    (let s := ss.getD (i - i0) []
     s.nth 9 ≠ IMAGE_SCN_LNK_REMOVE ∧ (s.nth 2 : Int) ≤ a ∧ a < (s.nth 2 : Int) + (s.nth 1 : Int) ∧
     off = a - (s.nth 2 : Int)) ∧
    (∀ j, j < i - i0 → let s := ss.getD j []
      s.nth 9 = IMAGE_SCN_LNK_REMOVE ∨ ¬ ((s.nth 2 : Int) ≤ a ∧ a < (s.nth 2 : Int) + (s.nth 1 : Int))) := by
  induction ss generalizing i0 with
  | nil => cases h
  | cons s ss ih =>
    simp only [locateSecs] at h
    split at h
    · rename_i hrem
      obtain ⟨h1, h2, h3, h4⟩ := ih _ h
      have e : i - i0 = (i - (i0 + 1)) + 1 := by omega
      refine ⟨by omega, by simp; omega, ?_, ?_⟩
      · rw [e]; simpa using h3
      · intro j hj
        cases j with
        | zero => left; simpa using hrem
        | succ j => simpa using h4 j (by omega)
    · rename_i hrem
      split at h
      · rename_i hin
        cases h
        refine ⟨by omega, by simp, ?_, ?_⟩
        · simp only [Nat.sub_self, List.getD_cons_zero]
          exact ⟨by simpa using hrem, hin.1, hin.2, trivial⟩
        · intro j hj; omega
      · rename_i hout
        obtain ⟨h1, h2, h3, h4⟩ := ih _ h
        have e : i - i0 = (i - (i0 + 1)) + 1 := by omega
        refine ⟨by omega, by simp; omega, ?_, ?_⟩
        · rw [e]; simpa using h3
        · intro j hj
          cases j with
          | zero => right; simpa using hout
          | succ j => simpa using h4 j (by omega)

/-- `locate` answers with the first section, not marked LNK_REMOVE, whose [RVA, RVA+VirtualSize)
    holds the address, and the offset inside it; `getfileoffset` is then
    PointerToRawData + (address − ImageBase − RVA) — the file's own mapping. -/
theorem pe_locate_sound (o : PeObj) (addr : Int) (i : Nat) (off : Int)
    (h : locate o addr true = .sec i off) :
    i < o.sections.length ∧
    (let s := o.sections.getD i []
     let rva := addr - (o.basemap : Int)
     s.nth 9 ≠ IMAGE_SCN_LNK_REMOVE ∧ (s.nth 2 : Int) ≤ rva ∧ rva < (s.nth 2 : Int) + (s.nth 1 : Int) ∧
     off = rva - (s.nth 2 : Int) ∧
     getfileoffset o addr = .ok ((s.nth 4 : Int) + (rva - (s.nth 2 : Int)))) ∧
    (∀ j, j < i → let s := o.sections.getD j []
      s.nth 9 = IMAGE_SCN_LNK_REMOVE ∨
        ¬ ((s.nth 2 : Int) ≤ addr - (o.basemap : Int) ∧ addr - (o.basemap : Int) < (s.nth 2 : Int) + (s.nth 1 : Int))) := by
  have h0 := h
  unfold locate at h
  simp only [if_true] at h
  split at h
  · rename_i i' off' hl
    cases h
    obtain ⟨_, h2, h3, h4⟩ := locateSecs_sound _ _ _ _ _ hl
    simp only [Nat.sub_zero] at h2 h3 h4
    refine ⟨h2, ⟨h3.1, h3.2.1, h3.2.2.1, h3.2.2.2, ?_⟩, h4⟩
    simp only [getfileoffset, h0, h3.2.2.2]
  · split at h <;> cases h

/-! ## non-vacuity -/

/-- a minimal PE32 image: DOS header (e_lfanew = 64), 'PE\0\0', COFF header with one section and
    SizeOfOptionalHeader = 104, optional header with one data directory, one section header -/
def minimalPE32 : Bytes :=
  [0x4d, 0x5a] ++ List.replicate 58 0 ++ [64, 0, 0, 0] ++
  [0x50, 0x45, 0, 0, 0x4c, 0x01, 1, 0] ++ List.replicate 12 0 ++ [104, 0, 0x02, 0x01] ++
  [0x0b, 0x01] ++ List.replicate 26 0 ++ [0, 0, 0x40, 0] ++ List.replicate 60 0 ++ [1, 0, 0, 0] ++
  [0x10, 0, 0, 0, 0x20, 0, 0, 0] ++
  [0x2e, 0x74, 0x65, 0x78, 0x74, 0, 0, 0, 0x10, 0, 0, 0, 0, 0x10, 0, 0, 0, 2, 0, 0, 0, 2, 0, 0] ++
  List.replicate 12 0 ++ [0x20, 0, 0, 0x60]

/-- a minimal PE32+ image: the same with magic 0x20b, SizeOfOptionalHeader = 112, no directory, no section -/
def minimalPE64 : Bytes :=
  [0x4d, 0x5a] ++ List.replicate 58 0 ++ [64, 0, 0, 0] ++
  [0x50, 0x45, 0, 0, 0x64, 0x86, 0, 0] ++ List.replicate 12 0 ++ [112, 0, 0x22, 0x00] ++
  [0x0b, 0x02] ++ List.replicate 22 0 ++ [0, 0, 0, 0x40, 1, 0, 0, 0] ++ List.replicate 76 0 ++ [0, 0, 0, 0]

example : PeWF minimalPE32 = true := by decide +kernel
example : PeWF minimalPE64 = true := by decide +kernel
example : ∃ o, peInit minimalPE32 = .ok o ∧ o.sections.length = 1 ∧ o.dirs = [[0x10, 0x20]] ∧ o.basemap = 0x400000 :=
  ⟨refRead minimalPE32, (pe_parse_eq_ref _ (by decide +kernel)).2, by decide +kernel⟩
example : getfileoffset (refRead minimalPE32) 0x401005 = .ok 0x205 := by rfl
example : getfileoffset (refRead minimalPE32) 0x400005 = .error .attributeError := by rfl
example : ∃ o, peInit minimalPE64 = .ok o ∧ o.plus = true ∧ o.basemap = 0x140000000 :=
  ⟨refRead minimalPE64, (pe_parse_eq_ref _ (by decide +kernel)).2, by decide +kernel⟩
-- both error classes occur: not a DOS header / a COFF header cut short
example : peInit [1, 2, 3] = .error .peError := by rfl
example : peInit (minimalPE32.take 80) = .error .structureError := by rfl

end Amoco.Pe.Props
