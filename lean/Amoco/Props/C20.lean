/-
  C20 — Program identification is total and reports only format errors.
  Property theorems only (helper lemmas live in Amoco/Proofs/Fmt.lean).

  Model: `readProgram` (Amoco/Model/Elf.lean) — the `try … except (A, B)` chain of
  `amoco.system.core.read_program` over the format constructors in `Except PyExn`; ELF, HEX and SREC
  constructors are modelled in full, PE / Mach-O / COFF at header level with the rest of the
  constructor abstracted by `Bodies` (returns / raises its own error type — what the repairs
  `proposed_fixes/C20-{pe,macho,coff}-wrap.diff` establish and the harness observes).
-/
import Amoco.Model.HexSrec
import Amoco.Model.Elf
import Amoco.Proofs.Fmt
import Amoco.Proofs.FmtAlloc

namespace Amoco.Fmt.Props20

open Amoco Amoco.Fmt

/-- Each fully modelled constructor lets only its own error type out (ELF additionally the struct
    layer's `StructureError`, which `read_program` catches alongside): every `assert`, `int(…)`,
    `unhexlify`, short `struct` read, index, `%` by zero, `decode` inside is accounted for. -/
theorem constructors_raise_only_format_errors (env : ElfEnv) (data : Bytes) :
    (∀ e, elfInit env data = .error e → e = .elfError ∨ e = .structureError) ∧
    (∀ e, hexInit data = .error e → e = .hexError) ∧
    (∀ e, srecInit data = .error e → e = .srecError) ∧
    (∀ raw e, hexLineSet raw = .error e → e = .hexError) ∧
    (∀ raw e, srecLineSet raw = .error e → e = .srecError) :=
  ⟨raises_elfInit env data, raises_hexInit data, raises_srecInit data,
   fun raw => raises_hexLineSet raw, fun raw => raises_srecLineSet raw⟩

/-- For every byte string, every table of known types and every behaviour of the PE / Mach-O / COFF
    bodies (within their contract), `read_program` returns a format object or the raw fallback —
    no exception of any class leaves it; termination is Lean totality (every loop is bounded by a
    file field of bounded width or by the length of the input). -/
theorem read_program_total (env : ElfEnv) (B : Bodies) (data : Bytes) :
    ∃ o, readProgram env B data = .ok o :=
  readProgram_total env B data

/-- the chain hands out an ELF object exactly when the ELF constructor accepts. -/
theorem read_program_elf_first (env : ElfEnv) (B : Bodies) (data : Bytes) (o : ElfObj)
    (h : elfInit env data = .ok o) : readProgram env B data = .ok (.elf o) := by
  unfold readProgram
  rw [h]; rfl

/-- The acceptance predicates are pairwise exclusive on the first byte of the file: what ELF accepts
    starts with 0x7f, PE with 'M', Mach-O with 0xCE/0xCF/0xCA, a non-empty HEX file with ':' and an
    S-record file with 'S' (after blanks of the first line); HEX and SREC both accept only the empty
    file.  Hence a valid file of one of these formats is never claimed by another one earlier in the
    chain.  (COFF has no magic at all: `coffHeaderOK` is `length ≥ 20` — not covered, see C20 notes.) -/
theorem magic_disjoint (env : ElfEnv) (data : Bytes) (hb : BytesOK data) :
    ¬ (accElf env data = true ∧ peHeaderOK data = true) ∧
    ¬ (accElf env data = true ∧ machoHeaderOK data = true) ∧
    ¬ (accElf env data = true ∧ accHex data = true) ∧
    ¬ (accElf env data = true ∧ accSrec data = true) ∧
    ¬ (peHeaderOK data = true ∧ machoHeaderOK data = true) ∧
    ¬ (peHeaderOK data = true ∧ accHex data = true) ∧
    ¬ (peHeaderOK data = true ∧ accSrec data = true) ∧
    ¬ (machoHeaderOK data = true ∧ accHex data = true) ∧
    ¬ (machoHeaderOK data = true ∧ accSrec data = true) ∧
    (accHex data = true ∧ accSrec data = true → data = []) := by
  have sp7f : isSpace 0x7f = false := by decide
  have sp77 : isSpace 77 = false := by decide
  have spCE : isSpace 0xCE = false := by decide
  have spCF : isSpace 0xCF = false := by decide
  have spCA : isSpace 0xCA = false := by decide
  refine ⟨?_, ?_, ?_, ?_, ?_, ?_, ?_, ?_, ?_, ?_⟩
  · rintro ⟨h1, h2⟩
    have a := accElf_head env data h1; have b := peHeaderOK_head data h2
    rw [a] at b; cases b
  · rintro ⟨h1, h2⟩
    have a := accElf_head env data h1
    rcases machoHeaderOK_head data hb h2 with b | b | b <;> rw [a] at b <;> cases b
  · rintro ⟨h1, h2⟩
    have a := accElf_head env data h1
    have := accHex_first data _ h2 a sp7f; omega
  · rintro ⟨h1, h2⟩
    have a := accElf_head env data h1
    have := accSrec_first data _ h2 a sp7f; omega
  · rintro ⟨h1, h2⟩
    have a := peHeaderOK_head data h1
    rcases machoHeaderOK_head data hb h2 with b | b | b <;> rw [a] at b <;> cases b
  · rintro ⟨h1, h2⟩
    have a := peHeaderOK_head data h1
    have := accHex_first data _ h2 a sp77; omega
  · rintro ⟨h1, h2⟩
    have a := peHeaderOK_head data h1
    have := accSrec_first data _ h2 a sp77; omega
  · rintro ⟨h1, h2⟩
    rcases machoHeaderOK_head data hb h1 with a | a | a
    · have := accHex_first data _ h2 a spCE; omega
    · have := accHex_first data _ h2 a spCF; omega
    · have := accHex_first data _ h2 a spCA; omega
  · rintro ⟨h1, h2⟩
    rcases machoHeaderOK_head data hb h1 with a | a | a
    · have := accSrec_first data _ h2 a spCE; omega
    · have := accSrec_first data _ h2 a spCF; omega
    · have := accSrec_first data _ h2 a spCA; omega
  · rintro ⟨h1, h2⟩
    exact accHex_accSrec data h1 h2

/-- **No unbounded allocation (HEX).**  Whatever `HEX.__init__` accepts, the object it builds holds at
    most one record per input line — hence per input byte — and at most one data byte per two input
    characters: memory is linear in the length of the file, whatever the count fields say. -/
theorem hex_alloc_bounded (data : Bytes) (h : HexFile) (e : hexInit data = .ok h) :
    h.lines.length ≤ data.length ∧ 2 * hexDataBytes h.lines ≤ data.length := by
  have := hexInitLoop_bound (readlines data) _ h e
  have hs := readlines_sum data
  simp only [List.length_nil, hexDataBytes, List.map_nil, List.sum_nil] at this
  simp only [hexDataBytes]
  omega

/-- **No unbounded allocation (S-records).** -/
theorem srec_alloc_bounded (data : Bytes) (h : SrecFile) (e : srecInit data = .ok h) :
    h.lines.length ≤ data.length ∧ 2 * srecDataBytes h.lines ≤ data.length := by
  have := srecInitLoop_bound (readlines data) _ h e
  have hs := readlines_sum data
  simp only [List.length_nil, srecDataBytes, List.map_nil, List.sum_nil] at this
  simp only [srecDataBytes]
  omega

/-- the bytes the loaders place in memory (`decode`) are among the data bytes counted above -/
theorem hex_decode_bounded (data : Bytes) (h : HexFile) (e : hexInit data = .ok h) :
    2 * ((hexDecode h.lines).map (fun p => p.2.length)).sum ≤ data.length := by
  have hb := (hex_alloc_bounded data h e).2
  have : ∀ (ls : List HexLine) (b : Int),
      ((hexDecodeLoop ls b).map (fun p => p.2.length)).sum ≤ hexDataBytes ls := by
    intro ls
    induction ls with
    | nil => intro b; simp [hexDecodeLoop, hexDataBytes]
    | cons l rest ih =>
      intro b
      unfold hexDecodeLoop
      have k : hexDataBytes (l :: rest) = l.data.length + hexDataBytes rest := by simp [hexDataBytes]
      split
      · exact Nat.le_trans (ih _) (by omega)
      · split
        · exact Nat.le_trans (ih _) (by omega)
        · split
          · have := ih b
            simp only [List.map_cons, List.sum_cons]; omega
          · have := ih b; omega
  have := this h.lines 0
  unfold hexDecode; omega

/-! ## non-vacuity -/

-- a one-record HEX file is accepted by HEX and by nothing before it in the chain
example : readProgram { knownPT := [], knownSHT := [] }
    { pe := fun _ => true, macho := fun _ => true, coff := fun _ => false }
    [58, 48, 48, 48, 48, 48, 48, 48, 49, 70, 70, 10] =
    .ok (.hex { lines := [⟨0, 0, 1, [], 255, .none⟩], entry := .zero, eip := none }) := by
  rfl

-- the hypothesis of `hex_alloc_bounded` is met by a record with data: `:0100000041BE` keeps 1 data byte of 13 characters
example : ∃ h, hexInit [58, 48, 49, 48, 48, 48, 48, 48, 48, 52, 49, 66, 69, 10] = .ok h ∧ hexDataBytes h.lines = 1 ∧ h.lines.length = 1 :=
  ⟨_, rfl, rfl, rfl⟩

-- random bytes fall through to the raw fallback
example : readProgram { knownPT := [], knownSHT := [] }
    { pe := fun _ => true, macho := fun _ => true, coff := fun _ => true } [1, 2, 3] = .ok .raw := by
  rfl

end Amoco.Fmt.Props20
