/-
  C08 — Abstract memory behaves as a last-write-wins byte store.
  Property theorems only (helper lemmas live in Amoco/Proofs/Memory.lean).

  Vocabulary (defined in the model / proofs files):
    `Zone.WF z`      the zone invariant: no empty object, every object ends at or before the start of
                     every later object (hence sorted and pairwise disjoint), cache = start addresses;
    `Zone.abs z`     the zone as a partial byte map `Int → Option ByteDesc`;
    `override f g`   `g` written over `f`;     `absWrite a v en` the bytes a write puts at `a…`;
    `window f a n`   `(List.range n).map (fun k => f (a + k))`, what a byte store returns for a read;
    `flattenItems`   a read result flattened to one `Option ByteDesc` per byte (`none` = bottom).
  All theorems hold for every zone / history / address / length; the only hypothesis on written
  values is that they are non-empty.
-/
import Amoco.Model.Memory
import Amoco.Proofs.Memory

namespace Amoco.Memory.Props

open Amoco Amoco.Memory

/-! ## The invariant `ZoneWF` and the operations that preserve it -/

/-- what the invariant says, spelled out on indices. -/
theorem zoneWF_meaning (z : Zone) (wf : z.WF) :
    (∀ o ∈ z.map, 0 < o.len) ∧
    (∀ i j (hi : i < j) (hj : j < z.map.length), (z.map[i]'(by omega)).fin ≤ (z.map[j]).vaddr) ∧
    z.cache = z.map.map Mo.vaddr := by
  refine ⟨wf.1.1, ?_, wf.2⟩
  intro i j hi hj
  exact (List.pairwise_iff_getElem.mp wf.1.2) i j (by omega) hj hi

theorem zoneWF_empty : Zone.empty.WF := Zone.empty_wf

theorem zoneWF_addtomap (z : Zone) (o : Mo) (wf : z.WF) (ho : 0 < o.len) : (z.addtomap o).WF :=
  (Zone.addtomap_spec z o wf ho).1

theorem zoneWF_write (z : Zone) (a : Int) (v : Val) (en : Endian) (wf : z.WF) (hv : 0 < v.len) :
    (z.write a v en).WF := (Zone.write_spec z a v en wf hv).1

theorem zoneWF_restruct (z : Zone) (wf : z.WF) : z.restruct.WF := (Zone.restruct_spec z wf).1

theorem zoneWF_shift (z : Zone) (off : Int) (wf : z.WF) : (z.shift off).WF := (Zone.shift_spec z off wf).1

theorem zoneWF_copy (z : Zone) (wf : z.WF) : z.copy.WF := (Zone.copy_spec z wf.1).1

theorem zoneWF_merge (z other : Zone) (wf : z.WF) (wfo : other.WF) : (z.mergeWith other).WF :=
  (Zone.mergeWith_spec z other wf wfo.1).1

/-- K-tie: the executable checker run on dumps of the real `MemoryZone` is sound (and complete). -/
theorem check_sound (z : Zone) (h : z.check = true) : z.WF := Zone.check_sound z h

theorem check_complete (z : Zone) (wf : z.WF) : z.check = true := Zone.check_complete z wf

/-! ## Writing is overriding -/

/-- `addtomap` (all its `i`/`j` cases) = the new object written over the old content. -/
theorem abs_addtomap (z : Zone) (o : Mo) (wf : z.WF) (ho : 0 < o.len) :
    (z.addtomap o).abs = override z.abs (absMo o) := (Zone.addtomap_spec z o wf ho).2

theorem abs_write (z : Zone) (a : Int) (v : Val) (en : Endian) (wf : z.WF) (hv : 0 < v.len) :
    (z.write a v en).abs = override z.abs (absWrite a v en) := (Zone.write_spec z a v en wf hv).2

/-- the written bytes are what the value is, in memory order, whatever `datadiv.__init__` made of it. -/
theorem absWrite_bytes (a : Int) (v : Val) (en : Endian) (k : Nat) :
    absWrite a v en (a + (k : Int)) = (v.memBytes en)[k]? := by
  unfold absWrite
  have : a ≤ a + (k : Int) := by omega
  simp only [this, if_true]
  congr 1; omega

/-! ## Reading returns the abstraction, byte for byte -/

theorem read_refines (z : Zone) (a : Int) (n : Nat) (wf : z.WF) :
    flattenItems (z.read a n) = (List.range n).map (fun (k : Nat) => z.abs (a + (k : Int))) :=
  Zone.read_spec z a n wf

/-- a read of `n` bytes returns items of total length `n`. -/
theorem read_length (z : Zone) (a : Int) (n : Nat) (wf : z.WF) : (flattenItems (z.read a n)).length = n := by
  rw [read_refines z a n wf]; simp

/-- byte `k` of a read is the content of address `a + k`; `none` (a byte of a bottom item) exactly when
    the address was never written. -/
theorem read_byte (z : Zone) (a : Int) (n k : Nat) (wf : z.WF) (hk : k < n) :
    (flattenItems (z.read a n))[k]? = some (z.abs (a + (k : Int))) := by
  rw [read_refines z a n wf, List.getElem?_map, List.getElem?_range hk]; rfl

/-! ## restruct / shift / copy / merge do not change what a read returns -/

theorem abs_restruct (z : Zone) (wf : z.WF) : z.restruct.abs = z.abs := (Zone.restruct_spec z wf).2

theorem abs_shift (z : Zone) (off : Int) (wf : z.WF) : (z.shift off).abs = fun q => z.abs (q - off) :=
  (Zone.shift_spec z off wf).2

theorem abs_copy (z : Zone) (wf : z.WF) : z.copy.abs = z.abs := (Zone.copy_spec z wf.1).2

theorem abs_merge (z other : Zone) (wf : z.WF) (wfo : other.WF) :
    (z.mergeWith other).abs = override z.abs other.abs := (Zone.mergeWith_spec z other wf wfo.1).2

theorem read_restruct (z : Zone) (a : Int) (n : Nat) (wf : z.WF) :
    flattenItems (z.restruct.read a n) = flattenItems (z.read a n) := by
  rw [Zone.read_spec _ a n (zoneWF_restruct z wf), Zone.read_spec z a n wf, abs_restruct z wf]

theorem read_copy (z : Zone) (a : Int) (n : Nat) (wf : z.WF) :
    flattenItems (z.copy.read a n) = flattenItems (z.read a n) := by
  rw [Zone.read_spec _ a n (zoneWF_copy z wf), Zone.read_spec z a n wf, abs_copy z wf]

theorem read_shift (z : Zone) (off a : Int) (n : Nat) (wf : z.WF) :
    flattenItems ((z.shift off).read (a + off) n) = flattenItems (z.read a n) := by
  rw [Zone.read_spec _ _ n (zoneWF_shift z off wf), Zone.read_spec z a n wf, abs_shift z off wf]
  unfold window
  apply List.map_congr_left
  intro k _
  show z.abs (a + off + (k : Int) - off) = z.abs (a + (k : Int))
  congr 1; omega

/-! ## Whole histories -/

/-- Induction over any history of writes (any value, size ≥ 1, either endianness, any overlap),
    restructs, copies, shifts and merges: the zone stays well formed and is the byte store. -/
theorem history_last_write_wins (ops : List ZOp) (h : ∀ op ∈ ops, op.ok) :
    (runZone ops).WF ∧ (runZone ops).abs = specZone ops :=
  runFrom_spec ops Zone.empty Zone.empty_wf h

/-- …and so every read after every history returns the byte store's answer. -/
theorem read_history (ops : List ZOp) (h : ∀ op ∈ ops, op.ok) (a : Int) (n : Nat) :
    flattenItems ((runZone ops).read a n) = (List.range n).map (fun (k : Nat) => specZone ops (a + (k : Int))) := by
  obtain ⟨wf, ab⟩ := history_last_write_wins ops h
  rw [read_refines _ a n wf, ab]

/-- for a pure write history the byte store is literally "the most recent write covering the byte". -/
theorem writes_last_write_wins (ws : List WriteOp) (h : ∀ w ∈ ws, 0 < w.2.1.len) (q : Int) :
    (writesZone ws).abs q = lastWrite ws q := by
  obtain ⟨_, ab⟩ := writesZone_spec ws Zone.empty Zone.empty_wf h
  have e : (writesZone ws).abs = specWrites ws Zone.empty.abs := ab
  rw [e, specWrites_eq]
  simp [Zone.empty_abs]

/-! ## MemoryMap: zone selection, concrete and symbol-relative zones -/

theorem mmap_wf_empty : MMap.empty.WF := MMap.empty_wf

/-- a write at an address that denotes a location `(zone key r, offset o)` succeeds, creates the zone if
    needed, overrides the bytes of that zone and leaves every other zone alone. -/
theorem mmap_write (mm : MMap) (addr : Addr) (v : Val) (en : Endian) (r : ZKey) (d : Bool) (o : Int)
    (wf : mm.WF) (href : reference addr = .ok (r, d, o)) (hd : r.isSome = true → d = true) (hv : 0 < v.len) :
    ∃ mm', mm.write addr v en = .ok mm' ∧ mm'.WF ∧
      ∀ k, mm'.absK k = if k = r then override (mm.absK r) (absWrite o v en) else mm.absK k :=
  MMap.write_spec mm addr v en r d o wf href hd hv

/-- a read goes to the zone the address denotes: it returns that zone's bytes, or `MemoryError`
    exactly when the zone was never created (then it holds no byte at all). -/
theorem mmap_read (mm : MMap) (addr : Addr) (n : Nat) (r : ZKey) (d : Bool) (o : Int)
    (wf : mm.WF) (href : reference addr = .ok (r, d, o)) :
    match mm.getZone r with
    | some _ => ∃ items, mm.read addr n = .ok items ∧
        flattenItems items = (List.range n).map (fun (k : Nat) => mm.absK r (o + (k : Int)))
    | none => mm.read addr n = .error .memoryError ∧ mm.absK r = fun _ => none :=
  MMap.read_spec mm addr n r d o wf href

theorem mmap_restruct (mm : MMap) (wf : mm.WF) : mm.restruct.WF ∧ ∀ k, mm.restruct.absK k = mm.absK k :=
  MMap.restruct_spec mm wf

theorem mmap_copy (mm : MMap) (wf : mm.WF) : mm.copy.WF ∧ ∀ k, mm.copy.absK k = mm.absK k :=
  MMap.copy_spec mm wf

theorem mmap_merge (mm other : MMap) (wf : mm.WF) (wfo : other.WF) :
    (mm.merge other).WF ∧ ∀ k, (mm.merge other).absK k = override (mm.absK k) (other.absK k) :=
  MMap.merge_spec mm other wf wfo

/-- histories over a whole `MemoryMap` (writes at concrete / constant / pointer / symbol-relative
    addresses, invalid addresses included, restruct, copy, per-zone shift, merge). -/
theorem mmap_history (ops : List MOp) (h : ∀ op ∈ ops, op.ok) :
    (runMMap ops).WF ∧ ∀ k, (runMMap ops).absK k = specMMap ops k := by
  have := runMMapFrom_spec ops MMap.empty MMap.empty_wf h
  refine ⟨this.1, fun k => ?_⟩
  have he : MMap.empty.absK = fun _ _ => none := funext MMap.empty_absK
  unfold specMMap runMMap
  rw [this.2 k, he]

/-! ## Workspaces: the original map and its copies stay independent -/

/-- histories over several live maps (`fork` keeps the original alive next to its copy, operations
    address any live map, `mergeCopy` merges a copy of one live map into another): every live map —
    the original after a copy was taken, restructured or written, and every copy — is well formed and
    is its own byte store. -/
theorem workspace_history (ops : List WOp) (hok : ∀ op ∈ ops, op.ok) :
    WsInv (runWorkspace ops) (specWorkspace ops) :=
  runWorkspace_inv ops _ _ WsInv.init hok

/-- an operation on one map leaves every other live map untouched.  In the functional model this holds
    by construction (maps are values); for the Python objects it is what the correspondence on all
    live maps establishes on every run. -/
theorem op_leaves_others (ws : List MMap) (i j : Nat) (op : MOp) (h : i ≠ j) :
    (WOp.apply ws (.on i op))[j]? = ws[j]? := by
  simp only [WOp.apply]
  cases ws[i]? with
  | none => rfl
  | some mm => rw [List.getElem?_set]; simp [h]

/-- taking a copy leaves every existing map (the original included) untouched. -/
theorem fork_leaves_others (ws : List MMap) (src j : Nat) (hj : j < ws.length) :
    (WOp.apply ws (.fork src))[j]? = ws[j]? := by
  simp only [WOp.apply]
  cases ws[src]? with
  | none => rfl
  | some mm => rw [List.getElem?_append_left hj]

/-! ## Non-vacuity -/

/-- a history with an overlap inside raw bytes by a big-endian expression, an adjacent write, a partial
    overwrite of the expression, a restruct, a shift and a merge. -/
def exOps : List ZOp :=
  [.write 16 (.raw [1, 2, 3, 4, 5, 6]) .little,
   .write 18 (.ex [.sym 1 0, .sym 1 1, .sym 1 2, .sym 1 3]) .big,
   .write 22 (.ex [.raw 0xaa, .raw 0xbb]) .big,
   .write 20 (.raw [9]) .little,
   .restruct, .shift 4,
   .merge [(21, .ex [.sym 2 0, .sym 2 1], .little)], .copy]

example : ∀ op ∈ exOps, op.ok := by
  intro op h
  simp only [exOps, List.mem_cons, List.not_mem_nil, or_false] at h
  rcases h with rfl | rfl | rfl | rfl | rfl | rfl | rfl | rfl <;> simp [ZOp.ok, Val.len]

-- the byte store of that history: address 23 (= 19 shifted by 4) holds byte 2 of atom 1 (big endian)
example : specZone exOps 23 = some (.sym 1 2) := by decide
example : specZone exOps 24 = some (.raw 9) := by decide
example : specZone exOps 22 = some (.sym 2 1) := by decide
example : specZone exOps 26 = some (.raw 0xbb) := by decide
example : specZone exOps 19 = none := by decide

-- hypotheses of the single-step theorems are satisfiable
example : Zone.empty.WF ∧ 0 < (Mo.new 0 (.raw [1]) .little).len := ⟨Zone.empty_wf, by decide⟩
example : (Zone.empty.write 5 (.ex [.sym 1 0, .sym 1 1]) .big).WF :=
  zoneWF_write _ _ _ _ Zone.empty_wf (by decide)
example : ∃ r d o, reference (.ptrSym "esp" true (-4)) = .ok (r, d, o) ∧ (r.isSome = true → d = true) :=
  ⟨some "esp", true, -4, rfl, fun _ => rfl⟩
example : ∀ op ∈ [MOp.write (.ptrSym "esp" true (-4)) (.raw [1, 2]) .little, .write .other (.raw [3]) .big, .copy],
    op.ok := by
  intro op h
  simp only [List.mem_cons, List.not_mem_nil, or_false] at h
  rcases h with rfl | rfl | rfl <;> simp [MOp.ok, Val.len]

example : ∀ op ∈ [WOp.on 0 (.write (.int 20) (.raw [66, 66, 66, 66]) .little), .on 0 (.write (.int 16) (.raw [65, 65, 65, 65]) .little),
    .fork 0, .on 0 (.write (.int 21) (.raw [88]) .little), .on 1 (.write (.int 14) (.raw [90, 90, 90, 90]) .big), .mergeCopy 1 0],
    op.ok := by
  intro op h
  simp only [List.mem_cons, List.not_mem_nil, or_false] at h
  rcases h with rfl | rfl | rfl | rfl | rfl | rfl <;> simp [WOp.ok, MOp.ok, Val.len]

end Amoco.Memory.Props
