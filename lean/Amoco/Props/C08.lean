import Amoco.Model.Memory
import Amoco.Proofs.Memory
namespace Amoco.Memory.Props
end Amoco.Memory.Props
