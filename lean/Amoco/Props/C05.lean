/-
  C05 — A decoded instruction is determined by the bytes it consumes.
-/
import Amoco.Props.C04
import Amoco.Props.C11
import Amoco.Props.C03
import Amoco.Proofs.LebOperand

namespace Amoco.Dis.Props05

open Amoco Amoco.Dis

/-- A decoded instruction consumes a prefix of its input: its bytes are the first `length` bytes
    given, and its length is never more than what was supplied. -/
theorem consumes_prefix (cands : List Nat → List SpecK)
    (accepts : SpecK → List Nat → Bool) (hook : SpecK → List Nat → Option Ins → HookOut)
    (xd : Ins → Option Ins) (hxd : ∀ i i', xd i = some i' → i'.bytes = i.bytes)
    (fuel : Nat) (bytes : List Nat) (i : Ins)
    (h : (call true cands (decBytes accepts hook) xd fuel none bytes).2 = .instr i) :
    i.bytes = bytes.take i.bytes.length ∧ i.bytes.length ≤ bytes.length := by
  have hp := Props11.no_prefix_leak cands accepts hook xd hxd fuel bytes i h
  exact ⟨List.prefix_iff_eq_take.mp hp, hp.length_le⟩

/-- …and its length is at least one byte when no spec is empty. -/
theorem length_pos (cands : List Nat → List SpecK) (hpos : ∀ b, ∀ s ∈ cands b, 8 ≤ s.size)
    (accepts : SpecK → List Nat → Bool) (hook : SpecK → List Nat → Option Ins → HookOut)
    (xd : Ins → Option Ins) (hxd : ∀ i i', xd i = some i' → i'.bytes = i.bytes) :
    ∀ (fuel : Nat) (st : Option Ins) (bytes : List Nat) (i : Ins),
      (call true cands (decBytes accepts hook) xd fuel st bytes).2 = .instr i → 1 ≤ i.bytes.length
  | 0, _, _, _, h => by simp [call] at h
  | fuel+1, st, bytes, i, h => by
    simp only [call] at h
    split at h
    · simp at h
    · simp at h
    · simp at h
    · rename_i s i0 hfh
      have hs := firstHit_some _ _ _ _ hfh
      obtain ⟨n, hn, hge, _, hb⟩ := decBytes_ok accepts hook st bytes s i0 hs.1
      have h8 := hpos bytes s hs.2
      have hi0 : 1 ≤ i0.bytes.length := by
        rw [hb, List.length_append, List.length_take]; omega
      split at h
      · exact length_pos cands hpos accepts hook xd hxd fuel _ _ i h
      · split at h
        · rename_i i' hx
          simp only [Res.instr.injEq] at h
          subst h; rw [hxd _ _ hx]; exact hi0
        · simp at h
      · simp only [Res.instr.injEq] at h
        subst h; exact hi0

/-- **The index adds no dependence on trailing bytes.**  Through a checked tree, if every
    specification gives the same outcome on two inputs (at every offset reached by the prefix
    recursion), `__call__` returns the same result on both — although the two search keys, taken from
    the first `maxlen` bytes, may differ.  With `b2 = b1.take n ++ t'` this is "decoding the consumed
    bytes followed by anything else yields the same instruction"; with `b2 = b1.take maxlen` it is
    "a fetch window of the advertised maximum length suffices". -/
theorem index_adds_no_tail_dependence (be : Bool) (maxlen : Nat) (t : Tree) (S : List SpecK)
    (hc : checkTree be maxlen t S = true) {I : Type}
    (dec : Option I → List Nat → SpecK → Out I) (xd : I → Option I)
    (hacc : ∀ st bytes s, s ∈ S → dec st bytes s ≠ .reject →
              key be maxlen bytes &&& s.amask be maxlen = s.afix be maxlen)
    (b1 b2 : List Nat)
    (hsame : ∀ k st s, s ∈ S → dec st (b1.drop k) s = dec st (b2.drop k) s)
    (r : Bool) (fuel : Nat) (st : Option I) :
    call r (fun bs => route t (key be maxlen bs)) dec xd fuel st b1
      = call r (fun bs => route t (key be maxlen bs)) dec xd fuel st b2 := by
  rw [Props.lookup_eq_scan be maxlen t S hc dec xd hacc, Props.lookup_eq_scan be maxlen t S hc dec xd hacc]
  simpa using scan_eq_of_dec_eq r S dec xd b1 b2 hsame fuel 0 st

/-- ISAs without prefix specifications (all fixed-width RISC ISAs shipped: mips, sparc, ppc32, armv8,
    rv32i/rv64i, sh2, tricore …): if every specification gives the same outcome on two inputs — which
    `fixed_spec_ignores_tail` guarantees for inputs that agree on the first `size/8` bytes — the call
    returns the same result. No assumption on other offsets is needed because nothing recurses. -/
theorem no_prefix_isa_determined (be : Bool) (maxlen : Nat) (t : Tree) (S : List SpecK)
    (hc : checkTree be maxlen t S = true) (hnp : ∀ s ∈ S, s.pfx ≠ .prefix) {I : Type}
    (dec : Option I → List Nat → SpecK → Out I) (xd : I → Option I)
    (hacc : ∀ st bytes s, s ∈ S → dec st bytes s ≠ .reject →
              key be maxlen bytes &&& s.amask be maxlen = s.afix be maxlen)
    (b1 b2 : List Nat) (st : Option I)
    (hsame : ∀ s, s ∈ S → dec st b1 s = dec st b2 s)
    (r : Bool) (fuel : Nat) :
    call r (fun bs => route t (key be maxlen bs)) dec xd fuel st b1
      = call r (fun bs => route t (key be maxlen bs)) dec xd fuel st b2 := by
  rw [Props.lookup_eq_scan be maxlen t S hc dec xd hacc, Props.lookup_eq_scan be maxlen t S hc dec xd hacc]
  cases fuel with
  | zero => rfl
  | succ n =>
    simp only [call]
    rw [firstHit_congr _ _ S hsame]
    split <;> try rfl
    rename_i s i hfh
    have hs := (firstHit_some _ _ _ _ hfh).2
    split
    · rename_i hp; exact absurd hp (hnp s hs)
    · rfl
    · rfl

/-- Per-spec premise of the previous theorem for fixed-length specifications: `ispec.decode`'s
    acceptance and delivered fields do not depend on bytes after the spec's own length
    (restated from C03). Variable-length tails (`(*)` fields handed to hooks that parse ModRM/SIB,
    immediates, LEB128…) are *not* covered by a theorem: hooks are Python code; the harness checks
    the premise per generated case. -/
theorem fixed_spec_ignores_tail (s : Spec.Spec) (b t : List Nat) (be : Bool)
    (hfix : s.size ≠ 0) (hlen : s.fixSize / 8 ≤ b.length) :
    Spec.decode s (b ++ t) be = Spec.decode s b be :=
  Spec.Props.decode_reads_prefix s b t be hfix hlen

end Amoco.Dis.Props05

/-! ### The hook premise for LEB128 operands (dwarf, wasm)

`index_adds_no_tail_dependence` needs, per specification, that the outcome of `ispec.decode` — hence
of the hook — is the same on two inputs that agree on the consumed bytes.  For the variable-length
specifications of the DWARF and WebAssembly decoders the tail is parsed by the LEB128 operand helper
(`_leb128` / `_leb`, model `Leb128.lebOperand`, tied to the real helpers by correspondence on every
run).  For that helper the premise is a theorem: an accepted operand is determined by the bytes it
consumes, whatever follows them, and no proper truncation of those bytes is accepted. -/

namespace Amoco.Leb128.Props05

open Amoco.Leb128

/-- An accepted LEB128 operand consumes at least one byte and only bytes that were supplied. -/
theorem leb_operand_bounds (signed : Bool) (data : List UInt8) (off : Nat) (v : Int) (n : Nat)
    (h : lebOperand signed data off = some (v, n)) : 1 ≤ n ∧ off + n ≤ data.length := by
  rw [lebOperand_eq] at h
  have := lebOpL_bounds signed _ v n h
  rw [List.length_drop] at this
  omega

/-- **Determined by the consumed bytes.** If the helper accepts `(v, n)` at `off`, it returns the
    same value and length on the consumed bytes followed by *any* other tail (in particular by
    nothing: decoding exactly the consumed bytes). -/
theorem leb_operand_ignores_tail (signed : Bool) (data : List UInt8) (off : Nat) (v : Int) (n : Nat)
    (h : lebOperand signed data off = some (v, n)) (t : List UInt8) :
    lebOperand signed (data.take (off + n) ++ t) off = some (v, n) := by
  have hb := leb_operand_bounds signed data off v n h
  rw [lebOperand_eq] at h ⊢
  have := lebOpL_take_append signed _ v n h t
  have e : (data.take (off + n) ++ t).drop off = (data.drop off).take n ++ t := by
    rw [List.drop_append_of_le_length (by rw [List.length_take]; omega), List.drop_take]
    congr 2; omega
  rw [e]; exact this

/-- **No truncation is accepted.** Every input that ends strictly inside the operand is rejected
    (the instruction is not reported with fewer bytes than it needs). -/
theorem leb_operand_truncation_rejected (signed : Bool) (data : List UInt8) (off : Nat) (v : Int) (n : Nat)
    (h : lebOperand signed data off = some (v, n)) (k : Nat) (hk : k < n) :
    lebOperand signed (data.take (off + k)) off = none := by
  rw [lebOperand_eq] at h ⊢
  have := lebOpL_truncated signed _ v n h k hk
  have e : (data.take (off + k)).drop off = (data.drop off).take k := by
    rw [List.drop_take]; congr 1; omega
  rw [e]; exact this

/-- the prefix of the data before `off` is irrelevant as well: only `data[off : off+n]` matters. -/
theorem leb_operand_depends_on_consumed (signed : Bool) (d1 d2 : List UInt8) (o1 o2 : Nat) (v : Int) (n : Nat)
    (h : lebOperand signed d1 o1 = some (v, n))
    (hsame : (d2.drop o2).take n = (d1.drop o1).take n) :
    lebOperand signed d2 o2 = some (v, n) := by
  rw [lebOperand_eq] at h ⊢
  have h1 := lebOpL_take_append signed _ v n h ((d2.drop o2).drop n)
  rw [← hsame, List.take_append_drop] at h1
  exact h1

/-- non-vacuity: `e5 8e 26` (624485) followed by other bytes, at offset 1; its 2-byte truncation is rejected. -/
example : lebOperand false [0x10, 0xe5, 0x8e, 0x26, 0x99] 1 = some (624485, 3) ∧
          lebOperand false [0x10, 0xe5, 0x8e] 1 = none ∧
          lebOperand true [0x7f] 0 = some (-1, 1) := by decide

end Amoco.Leb128.Props05
