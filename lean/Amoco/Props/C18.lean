/-
  C18 — Sweeps, blocks and control-flow graphs partition the code.
  Property theorems only (helper lemmas live in Amoco/Proofs/Cfg*.lean).
-/
import Amoco.Model.Blocks
import Amoco.Model.Cfg
import Amoco.Proofs.Cfg

namespace Amoco.Blocks.Props

open Amoco Amoco.Blocks

/-! ## Linear sweep -/

/-- the sweep yields consecutive instructions: each next one starts where the previous one ends
    (in the address arithmetic `norm` of the start address), for every reader, start address and
    number of instructions drawn. -/
theorem sequence_consecutive (read : Reader) (norm : Nat → Nat) (fuel loc : Nat) :
    ∀ pre x y post, sequence read norm fuel loc = pre ++ x :: y :: post →
      y.addr = norm (x.addr + x.length) := by
  induction fuel generalizing loc with
  | zero => intro pre x y post h; simp [sequence] at h
  | succ n ih =>
    intro pre x y post h
    unfold sequence at h
    split at h
    · simp at h
    · rename_i i hi
      cases pre with
      | nil =>
        simp only [List.nil_append, List.cons.injEq] at h
        obtain ⟨hx, hrest⟩ := h
        subst hx
        cases n with
        | zero => simp [sequence] at hrest
        | succ m =>
          unfold sequence at hrest
          split at hrest
          · simp at hrest
          · simp only [List.cons.injEq] at hrest
            rw [← hrest.1]
      | cons p pre' =>
        simp only [List.cons_append, List.cons.injEq] at h
        exact ih _ pre' x y post h.2

/-- the first instruction is at the start address, and every instruction is what the reader gives
    at its own address. -/
theorem sequence_reads (read : Reader) (norm : Nat → Nat) (fuel loc : Nat) :
    (∀ x r, sequence read norm fuel loc = x :: r → x.addr = loc) ∧
    (∀ x ∈ sequence read norm fuel loc, ∃ i, read x.addr = some i ∧ x = { i with addr := x.addr }) := by
  induction fuel generalizing loc with
  | zero => simp [sequence]
  | succ n ih =>
    unfold sequence
    split
    · simp
    · rename_i i hi
      constructor
      · intro x r h
        simp only [List.cons.injEq] at h
        rw [← h.1]
      · intro x hx
        rcases List.mem_cons.mp hx with rfl | hx
        · exact ⟨i, hi, rfl⟩
        · exact (ih _).2 x hx

/-- the sweep stops before `fuel` instructions only where the reader gives nothing. -/
theorem sequence_stops (read : Reader) (norm : Nat → Nat) (fuel loc : Nat)
    (h : (sequence read norm fuel loc).length < fuel) :
    match (sequence read norm fuel loc).getLast? with
    | none => read loc = none
    | some x => read (norm (x.addr + x.length)) = none := by
  induction fuel generalizing loc with
  | zero => simp at h
  | succ n ih =>
    cases hr : read loc with
    | none => simp [sequence, hr]
    | some i =>
      simp only [sequence, hr] at h ⊢
      simp only [List.length_cons, Nat.add_lt_add_iff_right] at h
      have := ih _ h
      rw [List.getLast?_cons]
      cases hl : (sequence read norm n (norm (loc + Instr.length { i with addr := loc }))).getLast? with
      | none => rw [hl] at this; simpa using this
      | some y => rw [hl] at this; simpa using this

/-! ## Basic blocks -/

/-- `iterblocks` cuts the instruction stream into the maximal runs that end at a block end
    (`endsBlock`: a control-flow instruction without delay slot, or the instruction after a delayed
    one): the blocks concatenate to the stream; every block except possibly the last one is
    non-empty, has no block end before its last instruction and a block end at its last instruction;
    a last unterminated block is non-empty and has no block end at all. -/
theorem blocks_maximal_runs (s : List Instr) :
    (iterblocks s).flatten = s ∧
    ∃ closed trailing, iterblocks s = closed ++ trailing ∧
      (∀ b ∈ closed, ClosedBlock b) ∧
      (trailing = [] ∨ ∃ t, trailing = [t] ∧ t ≠ [] ∧ NoEnd t) := by
  obtain ⟨c, t, e1, e2, e3, e4⟩ := iterblocksAux_spec s [] false (by simp [lastDelayed]) (by simpa using noEnd_nil)
  exact ⟨by simpa [iterblocks] using e4, c, t, e1, e2, e3⟩

/-- the delay-slot state at the start of every block is "not armed": the instruction before a
    block (the last one of a closed block) is never a delayed one. -/
theorem closed_block_last_not_delayed (b : List Instr) (h : ClosedBlock b) : lastDelayed b = false := by
  obtain ⟨p, x, rfl, _, he⟩ := h
  rw [lastDelayed_append_singleton]
  simp [endsBlock] at he
  simp [he.1]

/-! ## Blocks: address range and raw bytes are the concatenation of the instructions' -/

/-- a block of consecutive instructions covers `[address, address + length)`, ends where its last
    instruction ends, and its raw bytes are the instructions' bytes in order, `length` of them. -/
theorem block_raw_concat (a : Instr) (p : List Instr) (h : Consecutive (a :: p)) :
    support (a :: p) = some (a.addr, a.addr + blen (a :: p)) ∧
    (∀ q x, p = q ++ [x] → x.addr + x.length = a.addr + blen (a :: p)) ∧
    raw (a :: p) = ((a :: p).map (·.bytes)).flatten ∧
    (raw (a :: p)).length = blen (a :: p) := by
  refine ⟨rfl, ?_, rfl, raw_length _⟩
  intro q x hp
  subst hp
  exact consecutive_end a q x h

/-- slicing: a successful `block[sta:sto]` selects the instructions between two instruction
    boundaries `i < j`; its byte offsets are the resolved slice bounds, its raw bytes are that slice of
    the block's raw bytes, its length the difference, and (for a consecutive block) its address range
    starts at `address + sta`. -/
theorem block_getitem_concat (b b' : Block) (sta sto : Option Int) (h : getitem b sta sto = some b') :
    ∃ i j, i < j ∧ j ≤ b.length ∧ b' = (b.take j).drop i ∧
      blen (b.take i) = sliceBound sta 0 (blen b) ∧
      blen (b.take j) = sliceBound sto (blen b) (blen b) ∧
      raw b' = ((raw b).take (blen (b.take j))).drop (blen (b.take i)) ∧
      blen (b.take i) + blen b' = blen (b.take j) ∧
      (Consecutive b → ∀ a, address? b = some a →
        Consecutive b' ∧ support b' = some (a + blen (b.take i), a + blen (b.take j))) := by
  obtain ⟨i, j, hij, hj, rfl, h1, h2⟩ := getitem_spec b b' sta sto h
  have hlen : blen (b.take i) + blen ((b.take j).drop i) = blen (b.take j) := by
    have := blen_take_add_drop (b.take j) i
    rw [List.take_take] at this
    rw [show min i j = i by omega] at this
    exact this
  refine ⟨i, j, hij, hj, rfl, h1, h2, raw_drop_take b i j (by omega), hlen, ?_⟩
  intro hc a ha
  refine ⟨consecutive_drop _ _ (consecutive_take _ _ hc), ?_⟩
  have hcj := consecutive_take b j hc
  have haj : address? (b.take j) = some a := by rw [address_take b j (by omega)]; exact ha
  have := address_drop (b.take j) i a (by simp; omega) hcj haj
  rw [List.take_take, show min i j = i by omega] at this
  simp only [support, this, Option.map_some]
  congr 2
  omega

/-- cutting: `cut` at an instruction address keeps exactly the instructions before it (the first
    occurrence), reports how many were removed, the raw bytes are the corresponding prefix, and (for
    a consecutive block) the kept part ends at the cut address; at any other address nothing happens. -/
theorem block_cut_concat (b : Block) (addr : Nat) :
    ((cut b addr).2 = 0 → (cut b addr).1 = b ∧ ∀ x ∈ b, x.addr ≠ addr) ∧
    ((cut b addr).2 ≠ 0 →
      ∃ x rem, b = (cut b addr).1 ++ x :: rem ∧ x.addr = addr ∧ (cut b addr).2 = rem.length + 1 ∧
        (∀ y ∈ (cut b addr).1, y.addr ≠ addr) ∧
        raw (cut b addr).1 = (raw b).take (blen (cut b addr).1) ∧
        (Consecutive b → ∀ a, address? b = some a → a + blen (cut b addr).1 = addr)) := by
  refine ⟨cut_spec_none b addr, ?_⟩
  intro h
  obtain ⟨x, rem, hb, hx, hn, hmin, htake⟩ := cut_spec_some b addr h
  refine ⟨x, rem, hb, hx, hn, hmin, ?_, ?_⟩
  · rw [htake]; exact raw_take b _
  · intro hc a ha
    have := consecutive_addr' (cut b addr).1 x rem a (hb ▸ hc) (hb ▸ ha)
    omega

-- non-vacuity: a concrete reader, stream and block meeting the hypotheses
private def rd : Reader := fun a =>
  if a = 0 then some ⟨0, [0x31, 0xc0], false, false⟩
  else if a = 2 then some ⟨0, [0xc3], true, false⟩
  else if a = 3 then some ⟨0, [0x90], false, false⟩ else none

example : sequence rd id 10 0 = [⟨0, [0x31, 0xc0], false, false⟩, ⟨2, [0xc3], true, false⟩, ⟨3, [0x90], false, false⟩] := by
  decide
example : iterblocks (sequence rd id 10 0) =
    [[⟨0, [0x31, 0xc0], false, false⟩, ⟨2, [0xc3], true, false⟩], [⟨3, [0x90], false, false⟩]] := by decide
example : Consecutive (sequence rd id 10 0) := by
  show Consecutive [_, _, _]
  exact ⟨by decide, by decide, trivial⟩
example : getitem (sequence rd id 10 0) (some 2) none = some [⟨2, [0xc3], true, false⟩, ⟨3, [0x90], false, false⟩] := by decide
example : cut (sequence rd id 10 0) 2 = ([⟨0, [0x31, 0xc0], false, false⟩], 2) := by decide

end Amoco.Blocks.Props
