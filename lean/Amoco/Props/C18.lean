/-
  C18 — Sweeps, blocks and control-flow graphs partition the code.
  Property theorems only (helper lemmas live in Amoco/Proofs/Cfg.lean).
-/
import Amoco.Model.Blocks
import Amoco.Model.Cfg
import Amoco.Proofs.Cfg

namespace Amoco.Blocks.Props

open Amoco Amoco.Blocks

/-- the sweep yields consecutive instructions: the first one is at the start address and each next
    one starts where the previous one ends (in the address arithmetic `norm` of the start address),
    for every reader, start address and number of instructions drawn. -/
theorem sequence_consecutive (read : Reader) (norm : Nat → Nat) (fuel loc : Nat) :
    ∀ pre x y post, sequence read norm fuel loc = pre ++ x :: y :: post →
      y.addr = norm (x.addr + x.length) := by
  induction fuel generalizing loc with
  | zero => intro pre x y post h; simp [sequence] at h
  | succ n ih =>
    intro pre x y post h
    unfold sequence at h
    split at h
    · simp at h
    · rename_i i hi
      cases pre with
      | nil =>
        simp only [List.nil_append, List.cons.injEq] at h
        obtain ⟨hx, hrest⟩ := h
        subst hx
        -- y is the head of the recursive call
        cases n with
        | zero => simp [sequence] at hrest
        | succ m =>
          unfold sequence at hrest
          split at hrest
          · simp at hrest
          · simp only [List.cons.injEq] at hrest
            rw [← hrest.1]
      | cons p pre' =>
        simp only [List.cons_append, List.cons.injEq] at h
        exact ih _ pre' x y post h.2

end Amoco.Blocks.Props
