/-
  C18 — Sweeps, blocks and control-flow graphs partition the code.
  Property theorems only (helper lemmas live in Amoco/Proofs/Cfg*.lean).
-/
import Amoco.Model.Blocks
import Amoco.Model.Cfg
import Amoco.Proofs.Cfg

namespace Amoco.Blocks.Props

open Amoco Amoco.Blocks

/-! ## Linear sweep -/

/-- the sweep yields consecutive instructions: each next one starts where the previous one ends
    (in the address arithmetic `norm` of the start address), for every reader, start address and
    number of instructions drawn. -/
theorem sequence_consecutive (read : Reader) (norm : Nat → Nat) (fuel loc : Nat) :
    ∀ pre x y post, sequence read norm fuel loc = pre ++ x :: y :: post →
      y.addr = norm (x.addr + x.length) := by
  induction fuel generalizing loc with
  | zero => intro pre x y post h; simp [sequence] at h
  | succ n ih =>
    intro pre x y post h
    unfold sequence at h
    split at h
    · simp at h
    · rename_i i hi
      cases pre with
      | nil =>
        simp only [List.nil_append, List.cons.injEq] at h
        obtain ⟨hx, hrest⟩ := h
        subst hx
        cases n with
        | zero => simp [sequence] at hrest
        | succ m =>
          unfold sequence at hrest
          split at hrest
          · simp at hrest
          · simp only [List.cons.injEq] at hrest
            rw [← hrest.1]
      | cons p pre' =>
        simp only [List.cons_append, List.cons.injEq] at h
        exact ih _ pre' x y post h.2

/-- the first instruction is at the start address, and every instruction is what the reader gives
    at its own address. -/
theorem sequence_reads (read : Reader) (norm : Nat → Nat) (fuel loc : Nat) :
    (∀ x r, sequence read norm fuel loc = x :: r → x.addr = loc) ∧
    (∀ x ∈ sequence read norm fuel loc, ∃ i, read x.addr = some i ∧ x = { i with addr := x.addr }) := by
  induction fuel generalizing loc with
  | zero => simp [sequence]
  | succ n ih =>
    unfold sequence
    split
    · simp
    · rename_i i hi
      constructor
      · intro x r h
        simp only [List.cons.injEq] at h
        rw [← h.1]
      · intro x hx
        rcases List.mem_cons.mp hx with rfl | hx
        · exact ⟨i, hi, rfl⟩
        · exact (ih _).2 x hx

/-- the sweep stops before `fuel` instructions only where the reader gives nothing. -/
theorem sequence_stops (read : Reader) (norm : Nat → Nat) (fuel loc : Nat)
    (h : (sequence read norm fuel loc).length < fuel) :
    match (sequence read norm fuel loc).getLast? with
    | none => read loc = none
    | some x => read (norm (x.addr + x.length)) = none := by
  induction fuel generalizing loc with
  | zero => simp at h
  | succ n ih =>
    cases hr : read loc with
    | none => simp [sequence, hr]
    | some i =>
      simp only [sequence, hr] at h ⊢
      simp only [List.length_cons, Nat.add_lt_add_iff_right] at h
      have := ih _ h
      rw [List.getLast?_cons]
      cases hl : (sequence read norm n (norm (loc + Instr.length { i with addr := loc }))).getLast? with
      | none => rw [hl] at this; simpa using this
      | some y => rw [hl] at this; simpa using this

/-! ## Basic blocks -/

/-- `iterblocks` cuts the instruction stream into the maximal runs that end at a block end
    (`endsBlock`: a control-flow instruction without delay slot, or the instruction after a delayed
    one): the blocks concatenate to the stream; every block except possibly the last one is
    non-empty, has no block end before its last instruction and a block end at its last instruction;
    a last unterminated block is non-empty and has no block end at all. -/
theorem blocks_maximal_runs (s : List Instr) :
    (iterblocks s).flatten = s ∧
    ∃ closed trailing, iterblocks s = closed ++ trailing ∧
      (∀ b ∈ closed, ClosedBlock b) ∧
      (trailing = [] ∨ ∃ t, trailing = [t] ∧ t ≠ [] ∧ NoEnd t) := by
  obtain ⟨c, t, e1, e2, e3, e4⟩ := iterblocksAux_spec s [] false (by simp [lastDelayed]) (by simpa using noEnd_nil)
  exact ⟨by simpa [iterblocks] using e4, c, t, e1, e2, e3⟩

/-- the delay-slot state at the start of every block is "not armed": the instruction before a
    block (the last one of a closed block) is never a delayed one. -/
theorem closed_block_last_not_delayed (b : List Instr) (h : ClosedBlock b) : lastDelayed b = false := by
  obtain ⟨p, x, rfl, _, he⟩ := h
  rw [lastDelayed_append_singleton]
  simp [endsBlock] at he
  simp [he.1]

/-! ## Blocks: address range and raw bytes are the concatenation of the instructions' -/

/-- a block of consecutive instructions covers `[address, address + length)`, ends where its last
    instruction ends, and its raw bytes are the instructions' bytes in order, `length` of them. -/
theorem block_raw_concat (a : Instr) (p : List Instr) (h : Consecutive (a :: p)) :
    support (a :: p) = some (a.addr, a.addr + blen (a :: p)) ∧
    (∀ q x, p = q ++ [x] → x.addr + x.length = a.addr + blen (a :: p)) ∧
    raw (a :: p) = ((a :: p).map (·.bytes)).flatten ∧
    (raw (a :: p)).length = blen (a :: p) := by
  refine ⟨rfl, ?_, rfl, raw_length _⟩
  intro q x hp
  subst hp
  exact consecutive_end a q x h

/-- slicing: a successful `block[sta:sto]` selects the instructions between two instruction
    boundaries `i < j`; its byte offsets are the resolved slice bounds, its raw bytes are that slice of
    the block's raw bytes, its length the difference, and (for a consecutive block) its address range
    starts at `address + sta`. -/
theorem block_getitem_concat (b b' : Block) (sta sto : Option Int) (h : getitem b sta sto = some b') :
    ∃ i j, i < j ∧ j ≤ b.length ∧ b' = (b.take j).drop i ∧
      blen (b.take i) = sliceBound sta 0 (blen b) ∧
      blen (b.take j) = sliceBound sto (blen b) (blen b) ∧
      raw b' = ((raw b).take (blen (b.take j))).drop (blen (b.take i)) ∧
      blen (b.take i) + blen b' = blen (b.take j) ∧
      (Consecutive b → ∀ a, address? b = some a →
        Consecutive b' ∧ support b' = some (a + blen (b.take i), a + blen (b.take j))) := by
  obtain ⟨i, j, hij, hj, rfl, h1, h2⟩ := getitem_spec b b' sta sto h
  have hlen : blen (b.take i) + blen ((b.take j).drop i) = blen (b.take j) := by
    have := blen_take_add_drop (b.take j) i
    rw [List.take_take] at this
    rw [show min i j = i by omega] at this
    exact this
  refine ⟨i, j, hij, hj, rfl, h1, h2, raw_drop_take b i j (by omega), hlen, ?_⟩
  intro hc a ha
  refine ⟨consecutive_drop _ _ (consecutive_take _ _ hc), ?_⟩
  have hcj := consecutive_take b j hc
  have haj : address? (b.take j) = some a := by rw [address_take b j (by omega)]; exact ha
  have := address_drop (b.take j) i a (by simp; omega) hcj haj
  rw [List.take_take, show min i j = i by omega] at this
  simp only [support, this, Option.map_some]
  congr 2
  omega

/-- cutting: `cut` at an instruction address keeps exactly the instructions before it (the first
    occurrence), reports how many were removed, the raw bytes are the corresponding prefix, and (for
    a consecutive block) the kept part ends at the cut address; at any other address nothing happens. -/
theorem block_cut_concat (b : Block) (addr : Nat) :
    ((cut b addr).2 = 0 → (cut b addr).1 = b ∧ ∀ x ∈ b, x.addr ≠ addr) ∧
    ((cut b addr).2 ≠ 0 →
      ∃ x rem, b = (cut b addr).1 ++ x :: rem ∧ x.addr = addr ∧ (cut b addr).2 = rem.length + 1 ∧
        (∀ y ∈ (cut b addr).1, y.addr ≠ addr) ∧
        raw (cut b addr).1 = (raw b).take (blen (cut b addr).1) ∧
        (Consecutive b → ∀ a, address? b = some a → a + blen (cut b addr).1 = addr)) := by
  refine ⟨cut_spec_none b addr, ?_⟩
  intro h
  obtain ⟨x, rem, hb, hx, hn, hmin, htake⟩ := cut_spec_some b addr h
  refine ⟨x, rem, hb, hx, hn, hmin, ?_, ?_⟩
  · rw [htake]; exact raw_take b _
  · intro hc a ha
    have := consecutive_addr' (cut b addr).1 x rem a (hb ▸ hc) (hb ▸ ha)
    omega

-- non-vacuity: a concrete reader, stream and block meeting the hypotheses
private def rd : Reader := fun a =>
  if a = 0 then some ⟨0, [0x31, 0xc0], false, false⟩
  else if a = 2 then some ⟨0, [0xc3], true, false⟩
  else if a = 3 then some ⟨0, [0x90], false, false⟩ else none

example : sequence rd id 10 0 = [⟨0, [0x31, 0xc0], false, false⟩, ⟨2, [0xc3], true, false⟩, ⟨3, [0x90], false, false⟩] := by
  decide
example : iterblocks (sequence rd id 10 0) =
    [[⟨0, [0x31, 0xc0], false, false⟩, ⟨2, [0xc3], true, false⟩], [⟨3, [0x90], false, false⟩]] := by decide
example : Consecutive (sequence rd id 10 0) := by
  show Consecutive [_, _, _]
  exact ⟨by decide, by decide, trivial⟩
example : getitem (sequence rd id 10 0) (some 2) none = some [⟨2, [0xc3], true, false⟩, ⟨3, [0x90], false, false⟩] := by decide
example : cut (sequence rd id 10 0) 2 = ([⟨0, [0x31, 0xc0], false, false⟩], 2) := by decide

end Amoco.Blocks.Props

namespace Amoco.Cfg.Props

open Amoco Amoco.Blocks Amoco.Cfg

/-! ## Control-flow graph: vertex insertion partitions the code -/

/-- For every instruction stream as the sweep yields it (`StreamOK`: consecutive, non-empty
    instructions) and every list `hist` of blocks cut from it (`IsRun`: non-empty contiguous parts;
    the list is the insertion history, so this quantifies over every order, subset and repetition),
    inserting them one after the other into an empty graph succeeds, and afterwards the main support
      * is sorted with pairwise disjoint address ranges,
      * holds only non-empty blocks cut from the same stream, each stored at its own address,
      * contains exactly the instructions that were inserted,
      * each of them once (the instruction addresses along the support are strictly increasing). -/
theorem cfg_partition (S : List Instr) (hS : StreamOK S) (hist : List Block) (hh : ∀ v ∈ hist, IsRun S v) :
    ∃ g, addAll Graph.empty hist = some g ∧
      g.support.Pairwise (fun m1 m2 => m1.end ≤ m2.vaddr) ∧
      (∀ m ∈ g.support, IsRun S m.blk ∧ address? m.blk = some m.vaddr) ∧
      (∀ x, x ∈ (g.support.map (·.blk)).flatten ↔ ∃ v ∈ hist, x ∈ v) ∧
      ((g.support.map (·.blk)).flatten).Nodup := by
  obtain ⟨g, h1, h2, h3, h4, h5⟩ := partition_core hS hist hh
  refine ⟨g, h1, h2, h3, h4, ?_⟩
  exact List.Pairwise.imp (fun {a b} (h : a.addr < b.addr) => by
    intro heq; rw [heq] at h; exact Nat.lt_irrefl _ h) h5

/-- … with a fall-through edge wherever a block was split: whenever two stored blocks are adjacent
    (`m1` ends where `m2` starts) and some inserted block contains both the last instruction of `m1`
    and the first instruction of `m2` (it was split there), the graph has the edge `m1 → m2`. -/
theorem cfg_fallthrough (S : List Instr) (hS : StreamOK S) (hist : List Block) (hh : ∀ v ∈ hist, IsRun S v) :
    ∃ g, addAll Graph.empty hist = some g ∧
      ∀ m1 ∈ g.support, ∀ m2 ∈ g.support, m1.end = m2.vaddr →
        (∃ v ∈ hist, ∃ x y, m1.blk.getLast? = some x ∧ m2.blk.head? = some y ∧ x ∈ v ∧ y ∈ v) →
        (m1.vaddr, m2.vaddr) ∈ g.edges :=
  fallthrough_core hS hist hh

/-- `get_with_address` finds, for the address of every inserted instruction, the stored block that
    contains it, and nothing for an instruction of the stream that was never inserted. -/
theorem get_with_address_spec (S : List Instr) (hS : StreamOK S) (hist : List Block) (hh : ∀ v ∈ hist, IsRun S v) :
    ∃ g, addAll Graph.empty hist = some g ∧
      ∀ x ∈ S,
        ((∃ v ∈ hist, x ∈ v) → ∃ m ∈ g.support, getWithAddress g x.addr = some m ∧ x ∈ m.blk) ∧
        ((¬ ∃ v ∈ hist, x ∈ v) → getWithAddress g x.addr = none) :=
  getWithAddress_core hS hist hh

/-- one insertion, stated on its own: into any zone of runs of the stream (index intervals `ivs`),
    `add_vertex` of the run `s..e-1` returns the node stored at its start address and the new zone is
    again a zone of runs that covers the old instructions and the new ones, all other blocks kept. -/
theorem add_vertex_step (S : List Instr) (hS : StreamOK S) (ivs : List Iv) (E : Edges) (s e : Nat)
    (hok : IvsOK S.length ivs) (hse : s < e) (he : e ≤ S.length) :
    ∃ ivs' E', addVertex ((run S s e).length + 1) ⟨rep S ivs, E⟩ (run S s e) = .ok ⟨rep S ivs', E'⟩ (addrOf S s) ∧
      IvsOK S.length ivs' ∧ (∀ k, cov ivs' k ↔ (cov ivs k ∨ (s ≤ k ∧ k < e))) ∧
      (∀ iv ∈ ivs, ¬(iv.1 < s ∧ s < iv.2) → iv ∈ ivs') := by
  have hA : ∀ a b, a ≤ S.length → b ≤ S.length → addrOf S a = addrOf S b → a = b :=
    fun a b ha hb => addrOf_inj hS a b ha hb
  obtain ⟨ivs', E', hr, sp⟩ := absAdd_spec (addrOf S) hA ((run S s e).length + 1) ivs E s e hok hse he
    (by rw [run_length s e he]; omega)
  refine ⟨ivs', E', ?_, sp.ok, sp.covers, sp.keep⟩
  rw [addVertex_refines hS _ ivs E s e hok hse he, hr]
  rfl

-- non-vacuity: a stream of five instructions; blocks inserted out of order, one starting in the
-- middle of a stored block, one swallowing a later one, one equal block twice
private def S5 : List Instr :=
  [⟨0, [1, 2], false, false⟩, ⟨2, [3], false, false⟩, ⟨3, [4, 5, 6], true, false⟩,
   ⟨6, [7], false, false⟩, ⟨7, [8, 9], true, false⟩]

example : StreamOK S5 :=
  ⟨⟨by decide, by decide, by decide, by decide, trivial⟩, by decide⟩

example : ∀ v ∈ [S5.drop 3, (S5.take 3).drop 1, S5.take 4, (S5.take 3).drop 2, S5.drop 3], IsRun S5 v := by
  intro v hv
  simp only [List.mem_cons, List.not_mem_nil, or_false] at hv
  rcases hv with rfl | rfl | rfl | rfl | rfl
  · exact ⟨by decide, ⟨S5.take 3, [], by decide⟩⟩
  · exact ⟨by decide, ⟨S5.take 1, S5.drop 3, by decide⟩⟩
  · exact ⟨by decide, ⟨[], S5.drop 4, by decide⟩⟩
  · exact ⟨by decide, ⟨S5.take 2, S5.drop 3, by decide⟩⟩
  · exact ⟨by decide, ⟨S5.take 3, [], by decide⟩⟩

example : (addAll Graph.empty [S5.drop 3, (S5.take 3).drop 1, S5.take 4, (S5.take 3).drop 2, S5.drop 3]).map
      (fun g => (g.support.map (fun m => (m.vaddr, blen m.blk)), g.edges)) =
    some ([(0, 2), (2, 1), (3, 3), (6, 3)], [(0, 2), (3, 6), (2, 3)]) := by decide

end Amoco.Cfg.Props
