/-
  C15 — A loaded program's memory image equals the file's mapping.
  Property theorems only (helper lemmas live in Amoco/Proofs/Loader.lean; the memory model and its
  last-write-wins theorems are C08's).

  Vocabulary (defined in Amoco/Model/Loader.lean):
    `loadElf fx c img`    the task `OS.load_elf_binary` builds (`none`: the loader raises), for the code
                          with the proposed repairs (`fx = .repaired`);
    `elfWrites fx c img`  the writes it performs, oldest first: one per `PT_LOAD` (page-rounded block
                          returned by `Elf.loadsegment`), the stack pages, one per relocation slot;
    `LoadableOK c img`    decidable: what the loader maps as the file says — page size ≥ 1, every `PT_LOAD`
                          has `p_vaddr & (ps-1) ≤ p_offset` (implied by `p_offset ≡ p_vaddr` modulo the page,
                          lemmas `congruent_seekable`, `congruent_pow2`; unaligned segments are admitted too),
                          `filesz ≤ memsz`, `0 < memsz`, file part
                          inside the file; segments ascending and disjoint in memory; where a later
                          segment's first page reaches into an earlier segment both show the same file
                          bytes and the earlier one has no zero-filled part; the stack pages lie apart;
                          the entry point fits the program counter;
    `notInSlots n d a`    address `a` lies in none of the `n`-byte relocation slots `d`;
    `t.zone.abs`          the loaded memory as a partial byte map (C08), `fetch` = what `read_instruction`
                          hands to the disassembler.
  All theorems hold for every image, every page size `ps ≥ 1` and every loader configuration.
-/
import Amoco.Model.Loader
import Amoco.Proofs.Loader
import Amoco.Props.C08

namespace Amoco.Loader.Props

open Amoco Amoco.Memory Amoco.Loader

/-! ## page arithmetic of `Elf.loadsegment` -/

/-- `PAGESTART(v) + PAGEOFFSET(v) = v`, `PAGEOFFSET(v) ≤ ps - 1`, `v ≤ PAGEALIGN(v)` for every page size ≥ 1
    (not only powers of two). -/
theorem page_arith (ps v : Nat) (h : 0 < ps) :
    pageStart ps v + pageOffset ps v = v ∧ pageOffset ps v ≤ ps - 1 ∧ v ≤ pageAlign ps v :=
  ⟨pageStart_add_pageOffset ps v, pageOffset_le_mask ps v, le_pageAlign ps v h⟩

/-- for a power of two the masks are the usual rounding: `PAGEOFFSET = v mod ps`, `PAGESTART = ⌊v/ps⌋·ps`. -/
theorem page_pow2 (k v : Nat) :
    pageOffset (2 ^ k) v = v % 2 ^ k ∧ pageStart (2 ^ k) v = v / 2 ^ k * 2 ^ k :=
  ⟨pageOffset_pow2 k v, pageStart_pow2 k v⟩

/-- a segment whose file offset and address agree modulo the page (what a kernel insists on; for a power
    of two: `p_offset ≡ p_vaddr (mod page size)`) satisfies the first clause of `SegOK`; `SegOK` also admits
    unaligned segments, which the loader maps just as well. -/
theorem congruent_seekable (ps : Nat) (s : Phdr) (h : SegCongruent ps s) : pageOffset ps s.vaddr ≤ s.offset := by
  unfold SegCongruent at h
  rw [← h]; exact pageOffset_le ps s.offset

theorem congruent_pow2 (k : Nat) (s : Phdr) : SegCongruent (2 ^ k) s ↔ s.offset % 2 ^ k = s.vaddr % 2 ^ k := by
  unfold SegCongruent
  rw [pageOffset_pow2, pageOffset_pow2]

/-! ## one segment: what `Elf.loadsegment` returns -/

/-- the block `loadsegment` returns for a `PT_LOAD` starts at `PAGESTART(p_vaddr)`; its byte at
    `p_vaddr + i` is file byte `p_offset + i` for `i < filesz` and `0` for `filesz ≤ i < memsz`; the page
    slack below `p_vaddr` is file content too (bytes `p_offset - PAGEOFFSET …`). -/
theorem loadsegment_bytes (file : Bytes) (ps : Nat) (s : Phdr) (hps : 0 < ps) (ok : SegOK file ps s) :
    (∀ i, i < s.filesz →
      (segBytes .repaired file ps s)[pageOffset ps s.vaddr + i]? = file[s.offset + i]? ∧ s.offset + i < file.length) ∧
    (∀ i, s.filesz ≤ i → i < s.memsz → (segBytes .repaired file ps s)[pageOffset ps s.vaddr + i]? = some 0) ∧
    (∀ k, k < pageOffset ps s.vaddr →
      (segBytes .repaired file ps s)[k]? = file[s.offset - pageOffset ps s.vaddr + k]?) := by
  obtain ⟨hc, hfm, hpos, hin⟩ := ok
  have hpo : pageOffset ps s.vaddr ≤ s.offset := hc
  refine ⟨fun i hi => ?_, fun i h1 h2 => ?_, fun k hk => ?_⟩
  · have := segBytes_file file ps s (pageOffset ps s.vaddr + i) hps hpo hin (by omega)
    have e : s.offset - pageOffset ps s.vaddr + (pageOffset ps s.vaddr + i) = s.offset + i := by omega
    rw [e] at this
    exact this
  · exact segBytes_zero file ps s _ hps hpo hin (by omega) (by omega)
  · exact (segBytes_file file ps s k hps hpo hin (by omega)).1

/-! ## the loaded image -/

section image

variable (c : Cfg) (img : ElfImage)

/-- a loadable image is loaded (no exception), and every write of the loader is non-empty. -/
theorem elf_loads (h : LoadableOK c img) :
    loadElf .repaired c img = some ⟨writesZone (elfWrites .repaired c img), entryPc c img.entry⟩ ∧
    ∀ w ∈ elfWrites .repaired c img, 0 < w.2.1.len := by
  obtain ⟨hps, hptr, _, hseg, _, _⟩ := h
  constructor
  · unfold loadElf
    have : (loads img.phdrs).all (Phdr.seekOk c.ps) = true := by
      rw [List.all_eq_true]
      intro s hs
      obtain ⟨hc, _⟩ := hseg s hs
      simp only [Phdr.seekOk, decide_eq_true_eq]
      exact hc
    rw [if_pos this]
  · intro w hw
    unfold elfWrites at hw
    rcases List.mem_append.mp hw with hw | hw
    · rcases List.mem_append.mp hw with hw | hw
      · unfold segWrites at hw
        obtain ⟨s, hs, rfl⟩ := List.mem_map.mp hw
        obtain ⟨hc, hfm, hpos, hin⟩ := hseg s hs
        have hpo : pageOffset c.ps s.vaddr ≤ s.offset := hc
        exact segBytes_length_pos img.file c.ps s hps hpo hin hfm hpos
      · unfold stackWrites at hw
        split at hw
        · simp at hw
        · simp only [List.mem_singleton] at hw
          subst hw
          show 0 < (zeros (stackSize c)).length
          simp only [zeros, List.length_replicate, stackSize]
          omega
    · unfold slotWrites at hw
      obtain ⟨r, _, rfl⟩ := List.mem_map.mp hw
      show 0 < (extVal r.2 c.ptr).len
      rw [extVal_len]; exact hptr

/-- the memory zone after loading is well formed and is, byte for byte, the most recent write of the
    loader covering the address — this is what the page-rounding slack, the stack pages and every other
    address hold ("whatever the code puts there"): `lastWrite (elfWrites …)`. -/
theorem elf_image_last_write (h : LoadableOK c img) :
    (writesZone (elfWrites .repaired c img)).WF ∧
    ∀ q : Int, (writesZone (elfWrites .repaired c img)).abs q = lastWrite (elfWrites .repaired c img) q := by
  have hne := (elf_loads c img h).2
  exact ⟨(writesZone_spec _ Zone.empty Zone.empty_wf hne).1,
         fun q => Amoco.Memory.Props.writes_last_write_wins _ hne q⟩

/-- the stack pages and the relocation slots do not reach an address inside a segment that is in no slot. -/
theorem later_writes_miss (h : LoadableOK c img) (s : Phdr) (hs : s ∈ loads img.phdrs) (i : Nat) (hi : i < s.memsz)
    (hslot : notInSlots c.ptr (elfSlots c img) (s.vaddr + i)) :
    lastWrite (stackWrites c) ((s.vaddr + i : Nat) : Int) = none ∧
    lastWrite (slotWrites c.ptr (elfSlots c img)) ((s.vaddr + i : Nat) : Int) = none := by
  obtain ⟨_, _, _, _, _, hst⟩ := h
  constructor
  · apply lastWrite_none
    intro w hw
    unfold stackWrites at hw
    split at hw
    · simp at hw
    · rename_i hab
      simp only [List.mem_singleton] at hw
      subst hw
      rcases hst with ha | hb | ⟨hsz, hap⟩
      · simp [ha] at hab
      · simp [hb] at hab
      · have e : ((stackBase c : Int) - (stackSize c : Int)) = ((stackBase c - stackSize c : Nat) : Int) := by omega
        show absWrite ((stackBase c : Int) - (stackSize c : Int)) (.raw (zeros (stackSize c))) .little _ = none
        rw [e]
        apply absWrite_raw_none
        simp only [zeros, List.length_replicate]
        rcases hap s hs with h1 | h1
        · left; unfold stackLo at h1; omega
        · right; omega
  · apply lastWrite_none
    intro w hw
    unfold slotWrites at hw
    obtain ⟨r, hr, rfl⟩ := List.mem_map.mp hw
    rw [absWrite_slot]
    have := hslot r hr
    have hn : ¬ (r.1 ≤ s.vaddr + i ∧ s.vaddr + i < r.1 + c.ptr) := by omega
    rw [if_neg hn]

/-- the write of segment `s` itself at an address of `s`. -/
theorem own_write (hps : 0 < c.ps) (s : Phdr) (ok : SegOK img.file c.ps s) (i : Nat) (hi : i < s.memsz) :
    absWrite (segWrite .repaired img.file c.ps s).1 (segWrite .repaired img.file c.ps s).2.1
        (segWrite .repaired img.file c.ps s).2.2 ((s.vaddr + i : Nat) : Int) =
      if i < s.filesz then (img.file[s.offset + i]?).map ByteDesc.raw else some (ByteDesc.raw 0) := by
  show absWrite ((segBase c.ps s : Nat) : Int) (.raw (segBytes .repaired img.file c.ps s)) .little _ = _
  rw [absWrite_raw]
  have hb := pageStart_add_pageOffset c.ps s.vaddr
  have hle : segBase c.ps s ≤ s.vaddr + i := by unfold segBase; omega
  have e : s.vaddr + i - segBase c.ps s = pageOffset c.ps s.vaddr + i := by unfold segBase; omega
  rw [if_pos hle, e]
  obtain ⟨h1, h2, _⟩ := loadsegment_bytes img.file c.ps s hps ok
  split
  · rename_i hlt
    rw [(h1 i hlt).1]
  · rename_i hge
    rw [h2 i (by omega) hi]; rfl

/-- the write of a later segment `t` at an address of an earlier segment `s`: it misses, or shows the
    same file byte (page-sharing segments mapped from one file range). -/
theorem later_segment_write (hps : 0 < c.ps) (s t : Phdr) (okt : SegOK img.file c.ps t)
    (hnc : NoClobber c.ps s t) (i : Nat) (hi : i < s.memsz) :
    absWrite (segWrite .repaired img.file c.ps t).1 (segWrite .repaired img.file c.ps t).2.1
        (segWrite .repaired img.file c.ps t).2.2 ((s.vaddr + i : Nat) : Int) = none ∨
    (i < s.filesz ∧
      absWrite (segWrite .repaired img.file c.ps t).1 (segWrite .repaired img.file c.ps t).2.1
        (segWrite .repaired img.file c.ps t).2.2 ((s.vaddr + i : Nat) : Int) =
        (img.file[s.offset + i]?).map ByteDesc.raw) := by
  have e : absWrite (segWrite .repaired img.file c.ps t).1 (segWrite .repaired img.file c.ps t).2.1
        (segWrite .repaired img.file c.ps t).2.2 ((s.vaddr + i : Nat) : Int) =
      absWrite ((segBase c.ps t : Nat) : Int) (.raw (segBytes .repaired img.file c.ps t)) .little
        ((s.vaddr + i : Nat) : Int) := rfl
  rw [e, absWrite_raw]
  obtain ⟨hord, hcl⟩ := hnc
  have hb := pageStart_add_pageOffset c.ps t.vaddr
  by_cases hle : segBase c.ps t ≤ s.vaddr + i
  · right
    rw [if_pos hle]
    unfold segBase at hle
    rcases hcl with h1 | ⟨hd, hmf⟩
    · omega
    · obtain ⟨hct, _, _, hint⟩ := okt
      have hpo : pageOffset c.ps t.vaddr ≤ t.offset := hct
      have hk : s.vaddr + i - pageStart c.ps t.vaddr < pageOffset c.ps t.vaddr + t.filesz := by omega
      have := (segBytes_file img.file c.ps t (s.vaddr + i - pageStart c.ps t.vaddr) hps hpo hint hk).1
      have e2 : t.offset - pageOffset c.ps t.vaddr + (s.vaddr + i - pageStart c.ps t.vaddr) = s.offset + i := by omega
      rw [e2] at this
      refine ⟨by omega, ?_⟩
      show ((segBytes .repaired img.file c.ps t)[s.vaddr + i - pageStart c.ps t.vaddr]?).map ByteDesc.raw = _
      rw [this]
  · left
    rw [if_neg hle]

/-- **C15, ELF.**  For every image satisfying `LoadableOK` and every page size: the loader produces a task
    whose memory zone is well formed; for every `PT_LOAD` segment the bytes `i < filesz` at `p_vaddr + i`
    are the file bytes `p_offset + i`, the bytes `filesz ≤ i < memsz` are zero — at every address that
    is not inside a relocation slot —; the program counter is the entry point (with bit 0 cleared by the
    ARM loader, whose odd entry points select Thumb state). -/
theorem elf_image (h : LoadableOK c img) :
    ∃ t, loadElf .repaired c img = some t ∧ t.zone.WF ∧
      t.pc = (if c.thumb then img.entry / 2 * 2 else img.entry) ∧
      (∀ s ∈ loads img.phdrs, ∀ i, i < s.filesz → notInSlots c.ptr (elfSlots c img) (s.vaddr + i) →
          s.offset + i < img.file.length ∧
          t.zone.abs ((s.vaddr + i : Nat) : Int) = (img.file[s.offset + i]?).map ByteDesc.raw) ∧
      (∀ s ∈ loads img.phdrs, ∀ i, s.filesz ≤ i → i < s.memsz → notInSlots c.ptr (elfSlots c img) (s.vaddr + i) →
          t.zone.abs ((s.vaddr + i : Nat) : Int) = some (ByteDesc.raw 0)) := by
  have hl := (elf_loads c img h).1
  obtain ⟨wf, hab⟩ := elf_image_last_write c img h
  have h' := h
  obtain ⟨hps, _, hent, hseg, hpw, _⟩ := h
  refine ⟨_, hl, wf, ?_, ?_, ?_⟩
  · show entryPc c img.entry = _
    unfold entryPc
    rw [Nat.mod_eq_of_lt hent]
  -- both byte statements come from one computation of `lastWrite` at an address of a segment
  all_goals
    intro s hs i
  · intro hi hslot
    have oks := hseg s hs
    refine ⟨by obtain ⟨_, _, _, hin⟩ := oks; omega, ?_⟩
    show (writesZone (elfWrites .repaired c img)).abs _ = _
    rw [hab]
    obtain ⟨hstk, hsl⟩ := later_writes_miss c img h' s hs i (by obtain ⟨_, hfm, _, _⟩ := oks; omega) hslot
    unfold elfWrites
    rw [lastWrite_append, lastWrite_append, hsl, hstk]
    show lastWrite (segWrites .repaired img.file c.ps img.phdrs) _ = _
    unfold segWrites
    obtain ⟨pre, post, hdec⟩ := List.append_of_mem hs
    rw [hdec, List.map_append, List.map_cons]
    have hx : (img.file[s.offset + i]?).map ByteDesc.raw = some (ByteDesc.raw (img.file[s.offset + i]'(by
        obtain ⟨_, _, _, hin⟩ := oks; omega))) := by
      rw [List.getElem?_eq_getElem]; rfl
    rw [hx]
    apply lastWrite_split
    · rw [own_write c img hps s oks i (by obtain ⟨_, hfm, _, _⟩ := oks; omega), if_pos hi, hx]
    · intro v hv
      obtain ⟨t, ht, rfl⟩ := List.mem_map.mp hv
      rw [hdec] at hpw hseg
      have hnc : NoClobber c.ps s t := by
        have := (List.pairwise_append.mp hpw).2.1
        exact (List.pairwise_cons.mp this).1 t ht
      have okt := hseg t (List.mem_append_right _ (List.mem_cons_of_mem _ ht))
      rcases later_segment_write c img hps s t okt hnc i (by obtain ⟨_, hfm, _, _⟩ := oks; omega) with h1 | ⟨_, h1⟩
      · exact Or.inl h1
      · right; rw [h1, hx]
  · intro hge hi hslot
    have oks := hseg s hs
    show (writesZone (elfWrites .repaired c img)).abs _ = _
    rw [hab]
    obtain ⟨hstk, hsl⟩ := later_writes_miss c img h' s hs i hi hslot
    unfold elfWrites
    rw [lastWrite_append, lastWrite_append, hsl, hstk]
    show lastWrite (segWrites .repaired img.file c.ps img.phdrs) _ = _
    unfold segWrites
    obtain ⟨pre, post, hdec⟩ := List.append_of_mem hs
    rw [hdec, List.map_append, List.map_cons]
    apply lastWrite_split
    · rw [own_write c img hps s oks i hi, if_neg (by omega)]
    · intro v hv
      obtain ⟨t, ht, rfl⟩ := List.mem_map.mp hv
      rw [hdec] at hpw hseg
      have hnc : NoClobber c.ps s t := by
        have := (List.pairwise_append.mp hpw).2.1
        exact (List.pairwise_cons.mp this).1 t ht
      have okt := hseg t (List.mem_append_right _ (List.mem_cons_of_mem _ ht))
      rcases later_segment_write c img hps s t okt hnc i hi with h1 | ⟨h2, _⟩
      · exact Or.inl h1
      · omega

/-- **relocation slots.**  Every byte of a bound slot that no later slot overlaps holds the external
    symbol the relocation names: byte `b` of the slot `(addr, sym)` is byte `b` of symbol `sym`. -/
theorem elf_slots (h : LoadableOK c img) (pre post : List Reloc) (r : Reloc)
    (hd : elfSlots c img = pre ++ r :: post) (b : Nat) (hb : b < c.ptr)
    (hlater : notInSlots c.ptr post (r.1 + b)) :
    (writesZone (elfWrites .repaired c img)).abs ((r.1 + b : Nat) : Int) = some (ByteDesc.sym r.2 b) := by
  rw [(elf_image_last_write c img h).2]
  unfold elfWrites
  rw [lastWrite_append, hd]
  unfold slotWrites
  rw [List.map_append, List.map_cons]
  have : lastWrite (pre.map (slotWrite c.ptr) ++ slotWrite c.ptr r :: post.map (slotWrite c.ptr)) ((r.1 + b : Nat) : Int)
      = some (ByteDesc.sym r.2 b) := by
    apply lastWrite_split
    · rw [absWrite_slot, if_pos (by omega)]
      congr 2; omega
    · intro v hv
      obtain ⟨r', hr', rfl⟩ := List.mem_map.mp hv
      left
      rw [absWrite_slot]
      have := hlater r' hr'
      rw [if_neg (by omega)]
  rw [this]; rfl

end image

/-! ## instruction fetch -/

/-- the joined leading `bytes` items of a read result are a prefix of its flattening. -/
theorem joinRaw_prefix (l : List Item) :
    (joinRaw l).map (fun b => some (ByteDesc.raw b)) <+: flattenItems l := by
  induction l with
  | nil => exact List.nil_prefix
  | cons it rest ih =>
    unfold flattenItems at ih ⊢
    rw [List.flatMap_cons]
    cases it with
    | bot n => exact List.nil_prefix
    | data v en =>
      cases v with
      | ex e => exact List.nil_prefix
      | raw bs =>
        show (bs ++ joinRaw rest).map _ <+: _
        rw [List.map_append]
        have e : (Item.data (.raw bs) en).flatten = bs.map (fun b => some (ByteDesc.raw b)) := by
          simp [Item.flatten, Val.memBytes, List.map_map, Function.comp_def]
        rw [e]
        exact (List.prefix_append_right_inj _).mpr ih

/-- **fetch window.**  What `read_instruction` hands to the disassembler (the first item of
    `mmap.read(a, maxlen)`, joined with the `bytes` items directly behind it) is a prefix of the memory
    content at `a, a+1, …`: byte `k` of the window is the image byte at `a + k`.  Holds for the code as it is
    (`fx = .none`: first item alone) and with the repair. -/
theorem fetch_window (fx : Fix) (z : Zone) (wf : z.WF) (a : Int) (maxlen : Nat) (it : Item)
    (h : fetch fx z a maxlen = some it) :
    it.flatten <+: (List.range maxlen).map (fun (k : Nat) => z.abs (a + (k : Int))) := by
  unfold fetch at h
  have hr := Amoco.Memory.Props.read_refines z a maxlen wf
  cases hz : z.read a maxlen with
  | nil => rw [hz] at h; simp at h
  | cons x rest =>
    rw [hz] at h hr
    rw [← hr]
    have hx : x.flatten <+: flattenItems (x :: rest) := by
      unfold flattenItems
      rw [List.flatMap_cons]
      exact List.prefix_append _ _
    cases x with
    | bot n =>
      simp only [Option.some.injEq] at h
      subst h; exact hx
    | data v en =>
      cases v with
      | ex e =>
        simp only [Option.some.injEq] at h
        subst h; exact hx
      | raw bs =>
        cases fx with
        | none =>
          simp only [Option.some.injEq] at h
          subst h; exact hx
        | repaired =>
          simp only [Option.some.injEq] at h
          subst h
          have := joinRaw_prefix (Item.data (.raw bs) en :: rest)
          have e : (Item.data (.raw (bs ++ joinRaw rest)) en).flatten =
              (joinRaw (Item.data (.raw bs) en :: rest)).map (fun b => some (ByteDesc.raw b)) := by
            simp [Item.flatten, Val.memBytes, joinRaw, List.map_map, Function.comp_def]
          rw [e]; exact this

/-- at a mapped address the window is never empty: `read_instruction` gets at least the byte at `a`
    itself (the first item of the read is a non-empty value of the object holding `a`). -/
theorem fetch_mapped (fx : Fix) (z : Zone) (wf : z.WF) (a : Int) (maxlen : Nat) (hn : 0 < maxlen) (d : ByteDesc)
    (hd : z.abs a = some d) :
    ∃ it, fetch fx z a maxlen = some it ∧ it.flatten[0]? = some (some d) := by
  obtain ⟨v, en, rest, hr, hv⟩ := read_head_mapped z wf a maxlen hn d hd
  have hex : ∃ it, fetch fx z a maxlen = some it ∧ 0 < it.flatten.length := by
    unfold fetch
    rw [hr]
    cases v with
    | ex e =>
      refine ⟨_, rfl, ?_⟩
      simp only [Item.flatten, List.length_map, Val.memBytes_length]; exact hv
    | raw bs =>
      cases fx with
      | none =>
        refine ⟨_, rfl, ?_⟩
        simp only [Item.flatten, List.length_map, Val.memBytes_length]; exact hv
      | repaired =>
        refine ⟨_, rfl, ?_⟩
        simp only [Item.flatten, List.length_map, Val.memBytes_length, Val.len, List.length_append]
        simp only [Val.len] at hv
        omega
  obtain ⟨it, hf, hlen⟩ := hex
  refine ⟨it, hf, ?_⟩
  obtain ⟨tail, ht⟩ := fetch_window fx z wf a maxlen it hf
  have e1 : it.flatten[0]? = (it.flatten ++ tail)[0]? := (List.getElem?_append_left hlen).symm
  rw [e1, ht, List.getElem?_map, List.getElem?_range hn]
  simp only [Option.map_some]
  have e2 : a + ((0 : Nat) : Int) = a := by omega
  rw [e2, hd]

/-- …so fetching at an address inside the file-backed part of a segment returns file bytes at the
    mapped offset: byte `k` of a fetch window at `p_vaddr + i` is file byte `p_offset + i + k`, as far as the
    window stays inside the segment's file part and outside relocation slots. -/
theorem elf_fetch (c : Cfg) (img : ElfImage) (h : LoadableOK c img) (s : Phdr) (hs : s ∈ loads img.phdrs)
    (i maxlen : Nat) (it : Item)
    (hf : fetch .repaired (writesZone (elfWrites .repaired c img)) ((s.vaddr + i : Nat) : Int) maxlen = some it)
    (k : Nat) (hk : k < it.flatten.length) (hin : i + k < s.filesz)
    (hslot : notInSlots c.ptr (elfSlots c img) (s.vaddr + (i + k))) :
    it.flatten[k]? = some ((img.file[s.offset + (i + k)]?).map ByteDesc.raw) := by
  obtain ⟨t, hl, wf, _, hbytes, _⟩ := elf_image c img h
  rw [(elf_loads c img h).1] at hl
  have ht : t.zone = writesZone (elfWrites .repaired c img) := by
    have := Option.some.inj hl
    rw [← this]
  rw [ht] at wf hbytes
  have hp := fetch_window _ _ wf _ maxlen it hf
  obtain ⟨rest, hrest⟩ := hp
  have hkm : k < maxlen := by
    have := congrArg List.length hrest
    simp only [List.length_append, List.length_map, List.length_range] at this
    omega
  have e1 : it.flatten[k]? = (it.flatten ++ rest)[k]? := (List.getElem?_append_left hk).symm
  rw [e1, hrest, List.getElem?_map, List.getElem?_range hkm]
  simp only [Option.map_some]
  have := (hbytes s hs (i + k) hin hslot).2
  have e2 : (((s.vaddr + i : Nat) : Int) + (k : Int)) = ((s.vaddr + (i + k) : Nat) : Int) := by omega
  rw [e2, this]

/-! ## every loader: the image is the composition of its writes -/

/-- PE (`load_pe_binary`), Mach-O (`load_macho_binary`), raw / Intel-HEX / S-record (`RawExec.auto_load`):
    whatever the list of writes, if none is empty the zone is well formed and each address holds the most
    recent write covering it. -/
theorem loader_image (ws : List WriteOp) (h : ∀ w ∈ ws, 0 < w.2.1.len) :
    (writesZone ws).WF ∧ ∀ q : Int, (writesZone ws).abs q = lastWrite ws q :=
  ⟨(writesZone_spec ws Zone.empty Zone.empty_wf h).1, fun q => Amoco.Memory.Props.writes_last_write_wins ws h q⟩

/-- a block of raw bytes written at `a` and not overlapped by any later write is present byte for byte:
    sections, segments and records that no later one overlaps are in memory as the file has them. -/
theorem block_present (pre post : List WriteOp) (a : Nat) (bs : Bytes)
    (h : ∀ w ∈ pre ++ rawWrite a bs :: post, 0 < w.2.1.len)
    (k : Nat) (hk : k < bs.length)
    (hpost : ∀ v ∈ post, absWrite v.1 v.2.1 v.2.2 ((a + k : Nat) : Int) = none) :
    (writesZone (pre ++ rawWrite a bs :: post)).abs ((a + k : Nat) : Int) = (bs[k]?).map ByteDesc.raw := by
  rw [(loader_image _ h).2]
  have hx : (bs[k]?).map ByteDesc.raw = some (ByteDesc.raw bs[k]) := by
    rw [List.getElem?_eq_getElem hk]; rfl
  rw [hx]
  apply lastWrite_split
  · show absWrite (a : Int) (.raw bs) .little _ = _
    rw [absWrite_raw, if_pos (by omega)]
    have : a + k - a = k := by omega
    rw [this, hx]
  · intro v hv; exact Or.inl (hpost v hv)

/-- `RawExec.relocate(vaddr)`: the zone stays well formed and the whole image moves by
    `vaddr - (first mapped address)`; the program counter becomes `vaddr`. -/
theorem relocate_image (t : Task) (wf : t.zone.WF) (vaddr pcbits : Nat) :
    (relocate t vaddr pcbits).zone.WF ∧
    (∀ q : Int, (relocate t vaddr pcbits).zone.abs q = t.zone.abs (q - ((vaddr : Int) - t.zone.range.1))) ∧
    (relocate t vaddr pcbits).pc = vaddr % 2 ^ pcbits := by
  have w1 := Amoco.Memory.Props.zoneWF_shift t.zone ((vaddr : Int) - t.zone.range.1) wf
  refine ⟨Amoco.Memory.Props.zoneWF_restruct _ w1, fun q => ?_, rfl⟩
  show ((t.zone.shift _).restruct).abs q = _
  rw [Amoco.Memory.Props.abs_restruct _ w1, Amoco.Memory.Props.abs_shift _ _ wf]

/-- the bytes `PE.loadsegment` (repaired) returns for a section: raw data as far as the file has it, zero
    up to `VirtualSize` and up to the section alignment. -/
theorem pe_section_bytes (file : Bytes) (salign : Nat) (s : PeSection) (k : Nat) :
    (k < s.rawsize → s.rawptr + k < file.length → (peBytes .repaired file salign s)[k]? = file[s.rawptr + k]?) ∧
    (min s.rawsize (file.length - s.rawptr) ≤ k → k < max s.vsize salign → salign ≠ 0 ∨ k < s.vsize →
      (peBytes .repaired file salign s)[k]? = some 0) := by
  have hlen := fileRead_length file s.rawptr s.rawsize
  constructor
  · intro h1 h2
    have hl : k < (fileRead file s.rawptr s.rawsize).length := by rw [hlen]; omega
    unfold peBytes
    simp only
    have h3 : (ljust (fileRead file s.rawptr s.rawsize) s.vsize 0)[k]? = file[s.rawptr + k]? := by
      rw [ljust_getElem?_lt _ _ _ _ hl, fileRead_getElem? _ _ _ _ h1]
    split
    · rw [ljust_getElem?_lt _ _ _ _ (by rw [ljust_length]; omega), h3]
    · exact h3
  · intro h1 h2 h3
    unfold peBytes
    simp only
    by_cases hv : k < s.vsize
    · have h4 : (ljust (fileRead file s.rawptr s.rawsize) s.vsize 0)[k]? = some 0 :=
        ljust_getElem?_ge _ _ _ _ (by rw [hlen]; omega) hv
      split
      · rw [ljust_getElem?_lt _ _ _ _ (by rw [ljust_length]; omega), h4]
      · exact h4
    · have hsa : salign ≠ 0 := by rcases h3 with h | h; exact h; omega
      rw [if_pos hsa]
      apply ljust_getElem?_ge
      · rw [ljust_length, hlen]; omega
      · omega

/-- Mach-O segment bytes: file content as far as the file has it, zero up to `vmsize`. -/
theorem macho_segment_bytes (file : Bytes) (s : MachSeg) (k : Nat) :
    (k < s.filesize → s.fileoff + k < file.length → (machBytes file s)[k]? = file[s.fileoff + k]?) ∧
    (min s.filesize (file.length - s.fileoff) ≤ k → k < s.vmsize → (machBytes file s)[k]? = some 0) := by
  have hlen := fileRead_length file s.fileoff s.filesize
  unfold machBytes
  constructor
  · intro h1 h2
    rw [ljust_getElem?_lt _ _ _ _ (by rw [hlen]; omega), fileRead_getElem? _ _ _ _ h1]
  · intro h1 h2
    exact ljust_getElem?_ge _ _ _ _ (by rw [hlen]; omega) h2

/-! ## Non-vacuity -/

/-- two page-sharing segments mapped from one file range (page size 16), the second with a zero-filled
    tail, and one bound relocation slot. -/
def exFile : Bytes := List.range 64

def exImg : ElfImage :=
  { file := exFile,
    phdrs := [⟨PT_INTERP, 60, 0, 3, 3⟩, ⟨PT_LOAD, 0, 32, 20, 20⟩, ⟨6, 0, 0, 0, 0⟩, ⟨PT_LOAD, 24, 56, 8, 30⟩],
    entry := 36,
    relocs := [(40, 7), (60, 9), (40, 8)] }

def exCfg : Cfg := { ps := 16, ptr := 4, top := 0x7FFFFFFF, aslr := false, bare := false, thumb := false }

example : LoadableOK exCfg exImg := by decide

example : elfSlots exCfg exImg = [(40, 8), (60, 9)] := by decide

-- file byte, zero fill, slot content, page-tail of the first segment overlaid by the second one's page head
example : lastWrite (elfWrites .repaired exCfg exImg) 33 = some (.raw 1) := by decide
example : lastWrite (elfWrites .repaired exCfg exImg) 57 = some (.raw 25) := by decide
example : lastWrite (elfWrites .repaired exCfg exImg) 70 = some (.raw 0) := by decide
example : lastWrite (elfWrites .repaired exCfg exImg) 41 = some (.sym 8 1) := by decide
example : lastWrite (elfWrites .repaired exCfg exImg) 52 = some (.raw 20) := by decide
example : lastWrite (elfWrites .repaired exCfg exImg) 96 = none := by decide

-- without the repair the bytes behind `p_filesz` are unmapped beyond the page of the file part, and file
-- content inside it, instead of zero
example : lastWrite (elfWrites .none exCfg exImg) 70 = none := by decide
example : lastWrite (elfWrites .none exCfg { exImg with phdrs := [⟨PT_LOAD, 24, 56, 4, 30⟩] }) 61 = some (.raw 29) := by decide
example : lastWrite (elfWrites .repaired exCfg { exImg with phdrs := [⟨PT_LOAD, 24, 56, 4, 30⟩] }) 61 = some (.raw 0) := by decide

example : notInSlots exCfg.ptr (elfSlots exCfg exImg) (32 + 1) := by decide

-- an unaligned segment (file offset 21, address 35: different in-page offsets for page size 16) with a
-- zero-filled tail is covered by the hypothesis as well
def exUnaligned : ElfImage := { exImg with phdrs := [⟨PT_LOAD, 21, 35, 8, 12⟩] }
example : LoadableOK exCfg exUnaligned ∧ ¬ SegCongruent 16 ⟨PT_LOAD, 21, 35, 8, 12⟩ := by decide
example : lastWrite (elfWrites .repaired exCfg exUnaligned) 35 = some (.raw 21) := by decide
example : lastWrite (elfWrites .repaired exCfg exUnaligned) 44 = some (.raw 0) := by decide

-- a clobbering layout (second segment's page comes from another file page) is not `LoadableOK` …
def exClobber : ElfImage := { exImg with phdrs := [⟨PT_LOAD, 0, 32, 20, 20⟩, ⟨PT_LOAD, 40, 56, 8, 8⟩] }
example : ¬ LoadableOK exCfg exClobber := by decide
-- … and that clause of the hypothesis cannot be dropped: there the page head of the second segment
-- (file bytes 32 … 39) overlays bytes 48 … 51 of the first one, which the file maps to 16 … 19
example : lastWrite (elfWrites .repaired exCfg exClobber) 49 = some (.raw 33) := by decide
example : exClobber.file[0 + 17]? = some 17 := by decide

end Amoco.Loader.Props
