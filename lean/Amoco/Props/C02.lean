/-
  C02 — Symbolic block map agrees with step-by-step concrete execution.
  Property theorems only (helper lemmas live in Amoco/Proofs/Mapper*.lean).

  Vocabulary (model: Amoco/Model/Mapper.lean):
    `Prog`            an IR program: statements `reg[pos:pos+size] := e` and `[base+disp] := e` whose right-hand
                      sides (constants, registers, slices, compositions, `x + c`, binary operators of arbitrary
                      meaning `sem`, loads) are evaluated in the current map — what an `i_XXX` body does to `fmap`;
    `symExec cfg P`   the map built by the model of `mapper.__setitem__/__call__/M/aliasing/_Mem_read/_Mem_write`
                      under the settings `cfg = (noaliasing, memtrace)`;
    `applyMap σ m`    `σ >> m`: every register takes the value of its expression in `σ` (loads read `σ`'s memory
                      after replaying their mods), the pointer items are replayed in map order on `σ`'s memory;
    `concExec P σ`    sequential execution on registers and a byte memory (either byte order);
    `agrees`          registers equal modulo their width, memory equal byte for byte;
    `accessesOf`      the accesses of the program as (symbolic base, displacement, length);
    `Access.noWrap`   the access does not wrap around the address space (address = zone base + zone offset);
    `Access.apart`    two accesses through different zones touch no common byte.
  What is NOT covered by a theorem: that each ISA's Python semantics function performs the same IR program
  on a symbolic and on a concrete map (checked per generated instruction by the harness: partial);
  and the setting noaliasing ∧ ¬memtrace, where stores are not recorded and `>>` drops them (a known finding).
-/
import Amoco.Proofs.Mapper

namespace Amoco.Mapper.Props

open Amoco.Mapper

/-- **registers and sub-register slices**: for every IR program over registers and slices (any operators,
    any widths), every state and every setting, applying the symbolic map gives the registers and memory of
    the sequential execution. -/
theorem block_map_sound_regs (sem : OpSem) (cfg : Cfg) (P : Prog) (σ : St)
    (hwf : P.wf = true) (hr : P.regsOnly = true) :
    (applyMap sem σ (symExec cfg P)).agrees (concExec sem P σ) :=
  prog_sound ⟨sem, σ, cfg, P.be, accessesOf cfg P⟩ P rfl hwf (Or.inl hr) (fun _ h => h)

/-- hypotheses on the state: memory cells hold bytes, no access wraps around the address space and — under
    the no-aliasing assumption — accesses through distinct symbolic bases do not overlap -/
structure StateOK (sem : OpSem) (cfg : Cfg) (P : Prog) (σ : St) : Prop where
  bytes : ∀ x, σ.mem x < 256
  nowrap : ∀ a ∈ accessesOf cfg P, a.noWrap sem σ
  apart : cfg.noaliasing = true → ∀ a ∈ accessesOf cfg P, ∀ b ∈ accessesOf cfg P, Access.apart sem σ a b

/-- **the general statement** (registers, slices, loads and stores through concrete and symbolic
    pointers, either byte order, every setting in which stores are recorded): `σ >> symExec P` is the
    state reached by executing `P` statement by statement on `σ`. -/
theorem block_map_sound (sem : OpSem) (cfg : Cfg) (P : Prog) (σ : St)
    (hwf : P.wf = true) (hrec : cfg.records = true) (hσ : StateOK sem cfg P σ) :
    (applyMap sem σ (symExec cfg P)).agrees (concExec sem P σ) :=
  prog_sound ⟨sem, σ, cfg, P.be, accessesOf cfg P⟩ P rfl hwf
    (Or.inr ⟨hrec, hσ.bytes, hσ.nowrap, hσ.apart⟩) (fun _ h => h)

/-- **loads and stores at concrete addresses**, both byte orders, by refinement to the byte store of C08
    (`read_refines`, `abs_write`): no assumption on aliasing is needed — only that no access runs past the
    end of the address space. -/
theorem block_map_sound_mem_concrete (sem : OpSem) (cfg : Cfg) (P : Prog) (σ : St)
    (hwf : P.wf = true) (hc : P.concOnly = true) (hrec : cfg.records = true) (hb : ∀ x, σ.mem x < 256)
    (htop : ∀ a ∈ accessesOf cfg P, (zref a.base a.disp).2 + (a.len : Int) ≤ ((2 ^ a.base.size : Nat) : Int)) :
    (applyMap sem σ (symExec cfg P)).agrees (concExec sem P σ) := by
  have hcst : ∀ a ∈ accessesOf cfg P, ∃ v s, a.base = .cst v s := by
    apply progAccesses_conc
    intro s hs
    simp only [Prog.concOnly, List.all_eq_true] at hc
    exact hc s hs
  apply block_map_sound sem cfg P σ hwf hrec
  refine ⟨hb, ?_, ?_⟩
  · intro a ha
    obtain ⟨v, s, hbase⟩ := hcst a ha
    have ht := htop a ha
    constructor
    · show locAddr sem σ a.base a.disp = _
      rw [hbase, locAddr_cst]
      simp [zref, zbase]
    · rw [hbase] at ht ⊢
      simp only [zref, zbase, E.size] at ht ⊢
      push_cast at ht ⊢
      omega
  · intro _ a ha b hb'
    obtain ⟨v, s, h1⟩ := hcst a ha
    obtain ⟨v', s', h2⟩ := hcst b hb'
    left
    rw [h1, h2]; rfl

/-- **symbolic base + displacement pointers under the no-aliasing assumption**: for states in which
    distinct symbolic bases do not overlap. -/
theorem block_map_sound_noalias (sem : OpSem) (memtrace : Bool) (P : Prog) (σ : St)
    (hwf : P.wf = true) (hmt : memtrace = true) (hσ : StateOK sem ⟨true, memtrace⟩ P σ) :
    (applyMap sem σ (symExec ⟨true, memtrace⟩ P)).agrees (concExec sem P σ) :=
  block_map_sound sem _ P σ hwf (by simp [Cfg.records, hmt]) hσ

/-- **composition** (`m1 >> m2`, `mapper.rcompose`): composing the map of a program with any well-formed map
    `m2` (distinct locations, whole-byte pointer items in the program's byte order — what `symExec`
    produces; loads with mods allowed) and then applying the result to `σ` equals applying `m1` and then `m2`
    in sequence:  `σ >> (m1 >> m2) = (σ >> m1) >> m2`.  The accesses of the composition (the loads of `m2`'s
    pointers and values evaluated in `m1`, and `m2`'s stores) are subject to the same hypotheses as the
    program's. -/
theorem rcompose_assoc_eval (sem : OpSem) (cfg : Cfg) (P1 : Prog) (m2 : MapSt) (σ : St)
    (hwf : P1.wf = true) (hrec : cfg.records = true) (hm2 : m2.ok P1.be = true) (hb : ∀ x, σ.mem x < 256)
    (hnw : ∀ a ∈ accessesOf cfg P1 ++ rcomposeAccesses cfg m2 (symExec cfg P1), a.noWrap sem σ)
    (hap : cfg.noaliasing = true →
      ∀ a ∈ accessesOf cfg P1 ++ rcomposeAccesses cfg m2 (symExec cfg P1),
      ∀ b ∈ accessesOf cfg P1 ++ rcomposeAccesses cfg m2 (symExec cfg P1), Access.apart sem σ a b) :
    (applyMap sem σ (rcompose cfg m2 (symExec cfg P1))).agrees
      (applyMap sem (applyMap sem σ (symExec cfg P1)) m2) := by
  let c : Ctx := ⟨sem, σ, cfg, P1.be, accessesOf cfg P1 ++ rcomposeAccesses cfg m2 (symExec cfg P1)⟩
  have ok : c.OK := ⟨hrec, hb, hnw, hap⟩
  have h1 := prog_inv c P1 rfl hwf (Or.inr ok) (fun a ha => List.mem_append_left _ ha)
  have h2 := rcompose_sound ok h1 m2 hm2 (fun a ha => List.mem_append_right _ ha)
  refine agrees_trans h2 (applyMap_congr sem _ _ ?_ m2)
  exact agrees_symm (agrees_of_inv h1)

/-! ## Non-vacuity -/

/-- the little operator table of the examples -/
def exSem : OpSem := fun o w a b => if o = "+" then (a + b) % 2 ^ w else a ^^^ b

/-- `al := bl ^ 0x5a ; ax[8:16] := al ; ecx := eax + ebx` over 32-bit registers with 8-bit slices -/
def exRegs : Prog := ⟨false,
  [.set "eax" 32 0 8 (.op "^" (.slc (.reg "ebx" 32) 0 8) (.cst 0x5a 8) 8),
   .set "eax" 32 8 8 (.slc (.reg "eax" 32) 0 8),
   .set "ecx" 32 0 32 (.op "+" (.reg "eax" 32) (.reg "ebx" 32) 32)]⟩

example : exRegs.wf = true ∧ exRegs.regsOnly = true := by decide

/-- a big-endian program at concrete addresses: wide store, narrower store into it, load across both -/
def exConc : Prog := ⟨true,
  [.store (.cst 0x1000 32) 0 32 (.reg "a" 32),
   .store (.cst 0x1000 32) 1 8 (.cst 0x11 8),
   .set "b" 32 0 32 (.load (.cst 0x1000 32) 0 32)]⟩

example : exConc.wf = true ∧ exConc.concOnly = true := by decide

example : ∀ a ∈ accessesOf ⟨true, true⟩ exConc,
    (zref a.base a.disp).2 + (a.len : Int) ≤ ((2 ^ a.base.size : Nat) : Int) := by decide

def exSt0 : St := ⟨fun n _ => if n = "a" then 0xaabbccdd else 0x55, fun a => (a % 251).toNat⟩

/-- the theorem, instantiated: big-endian `[0x1000] := a ; [0x1001] := 0x11 ; b := [0x1000]` gives
    `b = 0xaa11ccdd` through the symbolic map -/
example : (applyMap exSem exSt0 (symExec ⟨true, true⟩ exConc)).reg "b" 32 % 2 ^ 32 = 0xaa11ccdd := by
  rw [(block_map_sound_mem_concrete exSem ⟨true, true⟩ exConc exSt0 (by decide) (by decide) (by decide)
    (by intro x; simp only [exSt0]; omega) (by decide)).1 "b" 32]
  decide

/-- … and `al := bl ^ 0x5a ; ah := al ; ecx := eax + ebx` on `eax = ebx = 0x55` -/
example : (applyMap exSem exSt0 (symExec ⟨true, false⟩ exRegs)).reg "ecx" 32 % 2 ^ 32 = 0x0f64 := by
  rw [(block_map_sound_regs exSem ⟨true, false⟩ exRegs exSt0 (by decide) (by decide)).1 "ecx" 32]
  decide

/-- `[p] := a ; q := p + 4` then `b := [q - 4] ; [q] := b` composed: the second map loads through the
    pointer the first one computed -/
def exP1 : Prog := ⟨false,
  [.store (.reg "p" 32) 0 32 (.reg "a" 32),
   .set "q" 32 0 32 (.addc (.reg "p" 32) 4)]⟩
def exP2 : Prog := ⟨false,
  [.set "b" 32 0 32 (.load (.reg "q" 32) (-4) 32),
   .store (.reg "q" 32) 0 32 (.reg "b" 32)]⟩

def exSt1 : St := ⟨fun n _ => if n = "p" then 0x2000 else if n = "a" then 0xaabbccdd else 0x55, fun a => (a % 251).toNat⟩

instance (sem : OpSem) (σ : St) (a : Access) : Decidable (a.noWrap sem σ) := by
  unfold Access.noWrap; exact inferInstance

example : exP1.wf = true ∧ (symExec ⟨false, true⟩ exP2).ok false = true := by decide
example : ∀ a ∈ accessesOf ⟨false, true⟩ exP1 ++ rcomposeAccesses ⟨false, true⟩ (symExec ⟨false, true⟩ exP2)
    (symExec ⟨false, true⟩ exP1), a.noWrap exSem exSt1 := by decide

end Amoco.Mapper.Props
