import Amoco.Model.Eval
namespace Amoco.C01
theorem placeholder : True := trivial
end Amoco.C01
