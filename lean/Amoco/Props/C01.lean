/-
  C01 — Expression algebra preserves bit-vector meaning.

  Property theorems about the executable model Amoco.Model.{Expr,Render,Simplify,Eval} of
  `cas/expressions.py` (helper lemmas: Amoco/Proofs/Expr{Bits,Arith,Cst}.lean).  Values are natural
  numbers with an explicit width; `binSem o signed w a b` / `unSem o w a` (Amoco.Model.Eval) are the
  reference two's-complement meanings of the operators, `bitsOf a p s` the slice `a[p:p+s]`, `cat a wa b`
  the composition `{ [0:wa]→a | [wa:…]→b }`.

  One soundness lemma per rewrite rule, each for all widths and all operand values, so that a rule can be
  re-proved alone; constant folding per operator (`cst_*`: the `cst` operator table returns the reference
  value and the dictated width); shifts by any amount; rotations; extensions; conditionals.
  `eval_sound`: evaluation of ANY well-formed tree (all operators, all widths, shifts by any amount, rotations,
  slices, compositions, conditionals, extensions) under a total constant valuation returns the constant
  `cst (ideal ρ e)` of width `e.size` — proved by structural induction, for every fuel and complexity oracle.
  `simplify_sound` / `oper_sound` / `slice_sound` / `compose_sound` / `extend_sound`: the induction through the
  whole rewrite system (`Amoco.soundIH_all`, on the fuel of the mutual block): on the sign-agnostic fragment
  (`Plain`), for `simplify()` and `simplify(bitslice=True)`, with the complexity threshold off, under `NoRenderClash ρ`, the
  result of every entry point is again `Plain`, well-formed, of the dictated width, and has the ideal value its
  construction dictates.  What is outside that fragment is listed at `simplify_sound_partial` (widths and
  well-formedness hold there too: C12).
-/
import Amoco.Proofs.ExprSoundSimp

namespace Amoco.C01

open Amoco Amoco.Expr Amoco.Bits

/-! ## rules of `eqn2_helpers` with a constant right operand -/

/-- *mask_to_slice*: `(l & mask[i1..i2]) ⇒ { [0:i1]→0 | [i1:i2+1]→l[i1:i2+1] | [i2+1:w]→0 }` -/
theorem mask_to_slice (a i1 i2 : Nat) (h : i1 ≤ i2) :
    a &&& maskOf i1 i2 = (bitsOf a i1 (i2 + 1 - i1)) <<< i1 := Bits.mask_to_slice a i1 i2 h

/-- `ismask(v)` of the code recognises exactly the contiguous masks (`maskBounds` is its model) -/
theorem maskBounds_sound (v : Int) (i1 i2 : Nat) (h : maskBounds v = some (i1, i2)) :
    0 < v ∧ v.toNat = maskOf i1 i2 := by
  unfold maskBounds at h
  split at h
  · cases h
  · rename_i hv
    simp only at h
    split at h
    · rename_i hm
      simp only [Option.some.injEq, Prod.mk.injEq] at h
      obtain ⟨rfl, rfl⟩ := h
      simp only [beq_iff_eq] at hm
      exact ⟨by omega, by unfold maskOf; exact hm.symm⟩
    · cases h

/-- *shl_to_comp*: `(l << n) ⇒ { [0:n]→0 | [n:w]→l[0:w-n] }` for a constant `n ≤ w` -/
theorem shl_to_comp (a w n : Nat) (h : n ≤ w) : binSem Op.lsl false w a n = if n = w then 0 else (bitsOf a 0 (w - n)) <<< n := by
  simp only [binSem]
  by_cases hn : n = w
  · subst hn; simp
  · have : ¬ n ≥ w := by omega
    simp only [this, hn, if_false]
    exact Bits.shl_to_comp a w n h

/-- *shr_to_comp*: `(l >> n) ⇒ { [0:w-n]→l[n:w] | [w-n:w]→0 }` -/
theorem shr_to_comp (a w n : Nat) (ha : a < 2 ^ w) : binSem Op.lsr false w a n = bitsOf a n (w - n) :=
  Bits.shr_to_comp a w n ha

/-- shifts by the width or more: `(l << n) ⇒ 0`, `(l >> n) ⇒ 0` (the repaired rule and constant table;
    the unchanged tree raises `ValueError`) -/
theorem shift_ge_width (a w n : Nat) (ha : a < 2 ^ w) (h : w ≤ n) :
    binSem Op.lsl false w a n = 0 ∧ binSem Op.lsr false w a n = 0 := by
  refine ⟨?_, Bits.shr_ge_width a w n ha h⟩
  simp [binSem, h]

/-- arithmetic shift by the width or more gives the sign fill -/
theorem asr_ge_width (a w n : Nat) (ha : a < 2 ^ w) (h : w ≤ n) (sg : Bool) :
    binSem Op.asr sg w a n = if a.testBit (w - 1) then 2 ^ w - 1 else 0 := Bits.asr_ge_width a w n ha h sg

/-- `(l op 0) ⇒ l` for `| ^ + - >> <<` -/
theorem op_zero_right (o : Op) (ho : o = Op.or ∨ o = Op.xor ∨ o = Op.add ∨ o = Op.sub ∨ o = Op.lsr ∨ o = Op.lsl)
    (sg : Bool) (w a : Nat) (h : a < 2 ^ w) (hw : 0 < w) : binSem o sg w a 0 = a :=
  Bits.op_zero_right o ho sg w a h hw

/-- `(l op 0) ⇒ 0` for `& * **` -/
theorem op_zero_absorb (o : Op) (ho : o = Op.and ∨ o = Op.mul) (sg : Bool) (w a : Nat) : binSem o sg w a 0 = 0 :=
  Bits.op_zero_absorb o ho sg w a

theorem mul2_zero (sg : Bool) (w a : Nat) : binSem Op.mul2 sg w a 0 = 0 := Bits.mul2_zero sg w a

/-- `(l * 1) ⇒ l`, `(l / 1) ⇒ l` -/
theorem mul_one (sg : Bool) (w a : Nat) (h : a < 2 ^ w) : binSem Op.mul sg w a 1 = a := Bits.mul_one sg w a h
theorem div_one (w a : Nat) (h : a < 2 ^ w) : binSem Op.div false w a 1 = a := Bits.div_one_unsigned w a h

/-- the repaired rule `(l ** 1) ⇒ l.extend(l.sf, 2w)`: the widening product with 1 is the extension of `l`
    (zero extension for the unsigned reading, sign extension for the signed one); the unchanged tree returns
    `l` itself, `w` bits wide (C12) -/
theorem mul2_one (w a : Nat) (h : a < 2 ^ w) (hw : 0 < w) :
    binSem Op.mul2 false w a 1 = cat a w 0 ∧
    (1 < w → binSem Op.mul2 true w a 1 = cat a w (if a.testBit (w - 1) then 2 ^ w - 1 else 0)) := by
  constructor
  · simp only [binSem, Nat.mul_one, zext_value]
    apply Nat.mod_eq_of_lt
    calc a < 2 ^ w := h
      _ ≤ 2 ^ (2 * w) := Nat.pow_le_pow_right (by decide) (by omega)
  · intro hw1
    rw [sext_value a w w h]
    simp only [binSem]
    have : toInt w 1 = 1 := by
      unfold toInt
      have : (1 : Nat).testBit (w - 1) = false := by
        apply Nat.testBit_lt_two_pow
        calc 1 < 2 ^ 1 := by decide
          _ ≤ 2 ^ (w - 1) := Nat.pow_le_pow_right (by decide) (by omega)
      simp [this]
    rw [this, Int.mul_one, Nat.two_mul]
    simp

/-! ## `+` / `-` normalisation -/

/-- *reassoc_pm (left)*: `((a lo c) o r) ⇒ ((a o r) lo c)` for `o, lo ∈ {+,-}` -/
theorem reassoc_pm_left (o lo : Op) (ho : o = Op.add ∨ o = Op.sub) (hlo : lo = Op.add ∨ lo = Op.sub)
    (sg1 sg2 sg3 sg4 : Bool) (w a c r : Nat) :
    binSem o sg1 w (binSem lo sg2 w a c) r = binSem lo sg3 w (binSem o sg4 w a r) c :=
  Bits.reassoc_pm_left o lo ho hlo sg1 sg2 sg3 sg4 w a c r

/-- *reassoc_pm (right)*: `(l o (a ro c)) ⇒ ((l o a) (o·ro) c)` -/
theorem reassoc_pm_right (o ro x : Op) (hx : Op.pm o ro = some x) (sg1 sg2 sg3 sg4 : Bool) (w l a c : Nat) :
    binSem o sg1 w l (binSem ro sg2 w a c) = binSem x sg3 w (binSem o sg4 w l a) c :=
  Bits.reassoc_pm_right o ro x hx sg1 sg2 sg3 sg4 w l a c

/-- *merge_consts*: `((a lo c2) o c1) ⇒ (a lo (c2 (o·lo) c1))` -/
theorem merge_consts (o lo x : Op) (hx : Op.pm o lo = some x) (sg1 sg2 sg3 sg4 : Bool) (w a c2 c1 : Nat) :
    binSem o sg1 w (binSem lo sg2 w a c2) c1 = binSem lo sg3 w a (binSem x sg4 w c2 c1) :=
  Bits.merge_consts o lo x hx sg1 sg2 sg3 sg4 w a c2 c1

/-- `(l + (-r)) ⇒ (l - r)` -/
theorem add_neg_to_sub (sg : Bool) (w l r : Nat) :
    binSem Op.add sg w l (unSem Op.sub w r) = binSem Op.sub sg w l r := Bits.add_neg_to_sub sg w l r

/-- operand order of `-` in `op.simplify`: `(l - r) ⇒ ((-r) + l)` -/
theorem sub_swap (sg1 sg2 : Bool) (w l r : Nat) :
    binSem Op.sub sg1 w l r = binSem Op.add sg2 w (unSem Op.sub w r) l := Bits.sub_swap sg1 sg2 w l r

/-- operand order of the commutative operators (`l._is_cst` pushed right, lexical order of symbols) -/
theorem comm_swap (o : Op) (ho : o = Op.add ∨ o = Op.mul ∨ o = Op.and ∨ o = Op.or ∨ o = Op.xor) (sg1 sg2 : Bool) (w a b : Nat) :
    binSem o sg1 w a b = binSem o sg2 w b a := by
  rcases ho with rfl | rfl | rfl | rfl | rfl <;> simp only [binSem]
  · rw [Nat.add_comm]
  · rw [Nat.mul_comm]
  · rw [Nat.and_comm]
  · rw [Nat.or_comm]
  · rw [Nat.xor_comm]

/-- the widening multiply commutes when both operands carry the same declared signedness -/
theorem mul2_comm (sg : Bool) (w a b : Nat) : binSem Op.mul2 sg w a b = binSem Op.mul2 sg w b a := by
  simp only [binSem]; rw [Nat.mul_comm a b, Int.mul_comm]

/-! ## rules of `eqn1_helpers` -/

/-- *neg_of_sum*: `-(a ro b) ⇒ ((-a) (−·ro) b)` -/
theorem neg_of_sum (ro x : Op) (hx : Op.pm Op.sub ro = some x) (sg1 sg2 : Bool) (w a b : Nat) :
    unSem Op.sub w (binSem ro sg1 w a b) = binSem x sg2 w (unSem Op.sub w a) b :=
  Bits.neg_of_sum ro x hx sg1 sg2 w a b

/-- `-(-x) ⇒ x` -/
theorem neg_neg (w a : Nat) (h : a < 2 ^ w) : unSem Op.sub w (unSem Op.sub w a) = a := Bits.neg_neg w a h

/-- *not_cond*: `~(a o b) ⇒ (a notop(o) b)`, for either declared reading of the ordered comparisons -/
theorem not_cond (o o' : Op) (h : notop o = some o') (sg : Bool) (w a b : Nat) :
    unSem Op.not 1 (binSem o sg w a b) = binSem o' sg w a b := Bits.not_cond o o' h sg w a b

/-! ## conditions against a bit constant, `x op x` -/

/-- *eq_bit*: `(c == 1) ⇒ c`, `(c == 0) ⇒ ~c`, `(c != 1) ⇒ ~c`, and the repaired `(c != 0) ⇒ c` -/
theorem eq_bit (sg : Bool) (c : Nat) (h : c < 2) :
    binSem Op.eq sg 1 c 1 = c ∧ binSem Op.eq sg 1 c 0 = unSem Op.not 1 c ∧
    binSem Op.neq sg 1 c 1 = unSem Op.not 1 c ∧ binSem Op.neq sg 1 c 0 = c :=
  ⟨eq_bit1 sg c h, eq_bit0 sg c h, neq_bit1 sg c h, neq_bit0 sg c h⟩

/-- the unchanged tree rewrites `(c != 0)` to `~c`: wrong for both values of `c` -/
theorem neq_bit0_unfixed_is_wrong (sg : Bool) (c : Nat) (h : c < 2) : binSem Op.neq sg 1 c 0 ≠ unSem Op.not 1 c := by
  have : c = 0 ∨ c = 1 := by omega
  rcases this with rfl | rfl <;> simp [binSem, unSem, b2n]

/-- *x_op_x*: operands with the same meaning -/
theorem x_op_x (sg : Bool) (w a : Nat) :
    binSem Op.sub sg w a a = 0 ∧ binSem Op.xor sg w a a = 0 ∧ binSem Op.and sg w a a = a ∧ binSem Op.or sg w a a = a ∧
    binSem Op.neq sg w a a = 0 ∧ binSem Op.lt sg w a a = 0 ∧ binSem Op.gt sg w a a = 0 ∧
    binSem Op.eq sg w a a = 1 ∧ binSem Op.le sg w a a = 1 ∧ binSem Op.ge sg w a a = 1 :=
  ⟨x_sub_x sg w a, x_xor_x sg w a, x_and_x sg w a, x_or_x sg w a,
   x_cmp_x_false _ (Or.inl rfl) sg w a, x_cmp_x_false _ (Or.inr (Or.inl rfl)) sg w a, x_cmp_x_false _ (Or.inr (Or.inr rfl)) sg w a,
   x_cmp_x_true _ (Or.inl rfl) sg w a, x_cmp_x_true _ (Or.inr (Or.inl rfl)) sg w a, x_cmp_x_true _ (Or.inr (Or.inr rfl)) sg w a⟩

/-! ## slices, compositions, extensions, conditionals -/

/-- *slice-of-slice* (`slc.__getitem__`, `slc.__init__` on a slice) -/
theorem slice_of_slice (a p s q t : Nat) (h : q + t ≤ s) : bitsOf (bitsOf a p s) q t = bitsOf a (p + q) t :=
  Bits.slice_of_slice a p s q t h

/-- *slice-of-comp* (`comp.__getitem__`): a slice inside the low / the high part -/
theorem slice_of_comp (a wa b p s : Nat) (ha : a < 2 ^ wa) :
    (p + s ≤ wa → bitsOf (cat a wa b) p s = bitsOf a p s) ∧ (wa ≤ p → bitsOf (cat a wa b) p s = bitsOf b (p - wa) s) :=
  ⟨slice_cat_low a wa b p s ha, slice_cat_high a wa b p s ha⟩

/-- *comp merge of adjacent constants* (`restruct`): the merged constant has the two constants as its slices -/
theorem comp_merge (a wa b wb : Nat) (ha : a < 2 ^ wa) (hb : b < 2 ^ wb) :
    bitsOf (cat a wa b) 0 wa = a ∧ bitsOf (cat a wa b) wa wb = b ∧ cat a wa b < 2 ^ (wa + wb) :=
  ⟨cat_low a wa b ha, cat_high a wa b wb ha hb, cat_lt a wa b wb ha hb⟩

/-- *comp cut*: splitting a part in two at any position keeps its value -/
theorem comp_cut (a k : Nat) : cat (bitsOf a 0 k) k (a >>> k) = a := Bits.cat_split a k

/-- slices distribute over the logic operators and low slices over `+` (`slc.simplify` on an `op`) -/
theorem slice_logic (a b p s : Nat) :
    bitsOf (a &&& b) p s = bitsOf a p s &&& bitsOf b p s ∧ bitsOf (a ||| b) p s = bitsOf a p s ||| bitsOf b p s ∧
    bitsOf (a ^^^ b) p s = bitsOf a p s ^^^ bitsOf b p s := ⟨slice_and a b p s, slice_or a b p s, slice_xor a b p s⟩

theorem slice_add_low (a b w s : Nat) (h : s ≤ w) :
    bitsOf ((a + b) % 2 ^ w) 0 s = (bitsOf a 0 s + bitsOf b 0 s) % 2 ^ s := Bits.slice_add_low a b w s h

/-- *zero / sign extension*: `{ [0:w]→a | [w:n]→0 }` is `a`; `{ [0:w]→a | [w:n]→(a[w-1] ? -1 : 0) }` is the
    two's complement of the signed reading of `a` on `n` bits -/
theorem extension (a w xt : Nat) (ha : a < 2 ^ w) :
    cat a w 0 = a ∧ cat a w (if a.testBit (w - 1) then 2 ^ xt - 1 else 0) = wrap (w + xt) (toInt w a) :=
  ⟨zext_value a w, sext_value a w xt ha⟩

/-- *tst* rules: equal branches make the condition irrelevant (constant conditions select by definition) -/
theorem tst_same (c a : Nat) : (if c % 2 = 1 then a else a) = a := Bits.tst_same c a

/-- *bitslice*: a logic operator acts bit by bit -/
theorem bitslice_logic (a b i : Nat) :
    bitsOf (a &&& b) i 1 = bitsOf a i 1 &&& bitsOf b i 1 ∧ bitsOf (a ||| b) i 1 = bitsOf a i 1 ||| bitsOf b i 1 ∧
    bitsOf (a ^^^ b) i 1 = bitsOf a i 1 ^^^ bitsOf b i 1 := ⟨and_bit a b i, or_bit a b i, xor_bit a b i⟩

/-! ## constant folding: the `cst` operator table computes the reference meaning (`cstOut` = `(value, size)`) -/

theorem fold_add (lv ls : Nat) (lf : Bool) (rv : Nat) (rf sg : Bool) (hl : lv < 2 ^ ls) (hr : rv < 2 ^ ls) :
    cstOut (cstApi Op.add lv ls lf rv ls rf) = some (binSem Op.add sg ls lv rv, ls) := cst_add lv ls lf rv rf sg hl hr
theorem fold_sub (lv ls : Nat) (lf : Bool) (rv : Nat) (rf sg : Bool) (hl : lv < 2 ^ ls) (hr : rv < 2 ^ ls) :
    cstOut (cstApi Op.sub lv ls lf rv ls rf) = some (binSem Op.sub sg ls lv rv, ls) := cst_sub lv ls lf rv rf sg hl hr
theorem fold_mul (lv ls : Nat) (lf : Bool) (rv : Nat) (rf sg : Bool) (hl : lv < 2 ^ ls) (hr : rv < 2 ^ ls) :
    cstOut (cstApi Op.mul lv ls lf rv ls rf) = some (binSem Op.mul sg ls lv rv, ls) := cst_mul lv ls lf rv rf sg hl hr
/-- widening multiply, `/`, `%`, ordered comparisons: for operands with ONE declared signedness -/
theorem fold_mul2 (lv ls rv : Nat) (sg : Bool) :
    cstOut (cstApi Op.mul2 lv ls sg rv ls sg) = some (binSem Op.mul2 sg ls lv rv, 2 * ls) := cst_mul2 lv ls rv sg
theorem fold_div (lv ls rv : Nat) (sg : Bool) (hl : lv < 2 ^ ls) (h0 : cstValue rv ls sg ≠ 0) :
    cstOut (cstApi Op.div lv ls sg rv ls sg) = some (binSem Op.div sg ls lv rv, ls) := cst_div lv ls rv sg hl h0
theorem fold_mod (lv ls rv : Nat) (sg : Bool) (hl : lv < 2 ^ ls) (h0 : cstValue rv ls sg ≠ 0) :
    cstOut (cstApi Op.mod lv ls sg rv ls sg) = some (binSem Op.mod sg ls lv rv, ls) := cst_mod lv ls rv sg hl h0
theorem fold_cmp (o : Op) (ho : o = Op.lt ∨ o = Op.le ∨ o = Op.ge ∨ o = Op.gt) (lv ls rv : Nat) (sg : Bool) :
    cstOut (cstApi o lv ls sg rv ls sg) = some (binSem o sg ls lv rv, 1) := cst_cmp o ho lv ls rv sg
theorem fold_and (lv ls : Nat) (lf : Bool) (rv : Nat) (rf sg : Bool) (hl : lv < 2 ^ ls) :
    cstOut (cstApi Op.and lv ls lf rv ls rf) = some (binSem Op.and sg ls lv rv, ls) := cst_and lv ls lf rv rf sg hl
theorem fold_or (lv ls : Nat) (lf : Bool) (rv : Nat) (rf sg : Bool) (hl : lv < 2 ^ ls) (hr : rv < 2 ^ ls) :
    cstOut (cstApi Op.or lv ls lf rv ls rf) = some (binSem Op.or sg ls lv rv, ls) := cst_or lv ls lf rv rf sg hl hr
theorem fold_xor (lv ls : Nat) (lf : Bool) (rv : Nat) (rf sg : Bool) (hl : lv < 2 ^ ls) (hr : rv < 2 ^ ls) :
    cstOut (cstApi Op.xor lv ls lf rv ls rf) = some (binSem Op.xor sg ls lv rv, ls) := cst_xor lv ls lf rv rf sg hl hr
/-- shifts of constants by ANY amount (amount of any width, read unsigned) -/
theorem fold_lsl (lv ls : Nat) (lf : Bool) (rv rs : Nat) (rf sg : Bool) (hl : lv < 2 ^ ls) :
    cstOut (cstApi Op.lsl lv ls lf rv rs rf) = some (binSem Op.lsl sg ls lv rv, ls) := cst_lsl lv ls lf rv rs rf sg hl
theorem fold_lsr (lv ls rv rs : Nat) (rf sg : Bool) (hl : lv < 2 ^ ls) :
    cstOut (cstApi Op.lsr lv ls false rv rs rf) = some (binSem Op.lsr sg ls lv rv, ls) := cst_lsr lv ls rv rs rf sg hl
theorem fold_asr (lv ls rv rs : Nat) (rf sg : Bool) :
    cstOut (cstApi Op.asr lv ls true rv rs rf) = some (binSem Op.asr sg ls lv rv, ls) := cst_asr lv ls rv rs rf sg
theorem fold_eq (lv ls : Nat) (lf : Bool) (rv : Nat) (rf sg : Bool) :
    cstOut (cstApi Op.eq lv ls lf rv ls rf) = some (binSem Op.eq sg ls lv rv, 1) := cst_eq lv ls lf rv rf sg
theorem fold_neq (lv ls : Nat) (lf : Bool) (rv : Nat) (rf sg : Bool) :
    cstOut (cstApi Op.neq lv ls lf rv ls rf) = some (binSem Op.neq sg ls lv rv, 1) := cst_neq lv ls lf rv rf sg
/-- the explicitly unsigned comparisons: the repaired helpers clear both sign flags before comparing -/
theorem fold_ltu (lv ls rv : Nat) (sg : Bool) :
    cstOut (cstApi Op.lt lv ls false rv ls false) = some (binSem Op.ltu sg ls lv rv, 1) := cst_ltu lv ls rv sg
theorem fold_geu (lv ls rv : Nat) (sg : Bool) :
    cstOut (cstApi Op.ge lv ls false rv ls false) = some (binSem Op.geu sg ls lv rv, 1) := cst_geu lv ls rv sg
/-- the unchanged tree sets both sign flags in `ltu`: `0x80000000 <. 1` evaluates to 1 -/
theorem ltu_unfixed_is_wrong :
    cstOut (cstApi Op.lt 0x80000000 32 true 1 32 true) ≠ some (binSem Op.ltu false 32 0x80000000 1, 1) :=
  ltu_signed_is_wrong
theorem fold_neg (v s : Nat) (f : Bool) (h : v < 2 ^ s) : wrap s (-(cstValue v s f)) = unSem Op.sub s v := cst_neg v s f h
theorem fold_not (v s : Nat) (h : v < 2 ^ s) : wrap s ((mask s - v % 2 ^ s : Nat) : Int) = unSem Op.not s v := cst_not v s h
/-- rotations of a constant by a constant amount (amount reduced modulo the width) -/
theorem fold_ror (a w n : Nat) (ha : a < 2 ^ w) :
    ((a >>> (n % w)) ||| ((a <<< (w - n % w)) % 2 ^ w)) = binSem Op.ror false w a n := ror_formula a w n ha
theorem fold_rol (a w n : Nat) (ha : a < 2 ^ w) :
    (((a <<< (n % w)) % 2 ^ w) ||| (a >>> (w - n % w))) = binSem Op.rol false w a n := rol_formula a w n ha

/-! ## evaluation -/

/-- **eval_sound**.  `e` well-formed, built from constants and registers that `env` binds to constants
    (`Ground`), every sign-dependent operator applied to operands of one declared signedness (`SignOK`):
    if `eval` returns at all (it raises on division by zero) it returns the constant whose value is the ideal
    value of `e` under the valuation `env` stands for, and whose width is the width of `e`.
    For every fuel and every complexity oracle. -/
theorem eval_sound (cfg : Cfg) (fuel : Nat) (env : Env) (henv : EnvOK env) (e r : Expr)
    (he : WF e) (hg : Ground env e) (hs : SignOK e) (h : eval cfg fuel env e = .ok r) :
    ∃ f, r = .cst (ideal (envVal env) e) e.size f ∧ ideal (envVal env) e < 2 ^ e.size :=
  let ⟨f, h1, h2, _⟩ := eval_const cfg env henv fuel e r he hg hs h
  ⟨f, h1, h2⟩

/-- what `_operator.__call__` returns on two constants is the reference meaning of the operator (every
    operator, incl. `<. >=. >>> <<<` and shifts by any amount), read with the signedness both operands carry -/
theorem operator_on_constants (cfg : Cfg) (fuel : Nat) (o : Op) (lv ls : Nat) (lf : Bool) (rv rs : Nat) (rf sg : Bool)
    (res : Expr) (hl : lv < 2 ^ ls) (hr : rv < 2 ^ rs) (hls : 0 < ls) (hsz : o.type ≠ 8 → ls = rs)
    (hsd : signDep o = true → cstValue lv ls lf = reading sg ls lv ∧ cstValue rv rs rf = reading sg rs rv)
    (h : callOp cfg fuel o (.cst lv ls lf) (.cst rv rs rf) = .ok res) :
    ∃ f, res = .cst (binSem o sg ls lv rv) (if o.type = 4 then 1 else if o = Op.mul2 then 2 * ls else ls) f :=
  callOp_cst_sound cfg fuel o lv ls lf rv rs rf sg res hl hr hls hsz hsd h

/-- a tiled composition of constants is merged by `restruct` into ONE constant: its value is the composition -/
theorem comp_of_constants (ρ : Val) (n k : Nat) (ps : List Part) (hl : ps.length = k + 1) (ht : Tiles n ps)
    (hw : ∀ p ∈ ps, WF p.2.2) (hc : AllCst ps) (hn : 0 < n) :
    ∃ v f, restruct ps = [(0, n, .cst v n f)] ∧ v < 2 ^ n ∧ v = idealParts ρ ps := by
  obtain ⟨v, f, h1, h2, h3⟩ := restruct_allcst ρ n k ps hl ht hw hc hn
  exact ⟨v, f, by unfold restruct; rw [hl]; exact h1, h2, h3⟩

/-! ## simplification: value soundness by induction over the whole rewrite system -/

/-- `NoRenderClash ρ`: the simplifier decides `x op x`, the comparison shortcuts and the equality of `tst`
    branches by comparing renderings (`str(l) == str(r)`) or `hash(str)+size` (`exp.__eq__`).  The hypothesis:
    under `ρ`, two well-formed `Plain` expressions of one size that render alike (or are `exp.__eq__`-equal) have
    the same value.  (It fails e.g. for a register *named* `"(a+0x1)"` whose value is not `a+1`.) -/
abbrev NoRenderClash (ρ : Val) : Prop := EqOK ρ

/-- the complexity threshold is off (`conf.Cas.complexity = 0`, or never exceeded) -/
abbrev NoThreshold (cfg : Cfg) : Prop := ∀ e, cfg.cplx e = false

/-- **simplify_sound**.  `e` well-formed and in the sign-agnostic fragment `Plain` (constants, registers,
    slices, compositions, conditionals, `+ - * & | ^ == != <. >=. << >> //` and unary `- ~`, all widths, shifts by
    any amount): whatever `e.simplify()` or `e.simplify(bitslice=True)` returns is again well-formed and `Plain`, has the width of `e`, and
    under every valuation without rendering clashes **the same value as `e`**.  For every fuel. -/
theorem simplify_sound (cfg : Cfg) (hc : NoThreshold cfg) (ρ : Val) (hρ : NoRenderClash ρ) (fuel : Nat) (opts : Opts)
    (ho : opts.widening = false) (e r : Expr) (he : WF e) (hp : Plain e) (h : simplify cfg fuel opts e = .ok r) :
    WF r ∧ r.size = e.size ∧ Plain r ∧ ideal ρ r = ideal ρ e := by
  obtain ⟨h1, h2⟩ := (widthIH_all cfg fuel).simplify opts e he r h
  obtain ⟨h3, h4⟩ := (soundIH_all cfg hc ρ hρ fuel).simplify opts e he hp ho r h
  exact ⟨h1, h2, h3, h4⟩

/-- **oper_sound**.  `_operator.__call__(l, r)` (the Python operators `l + r`, `l & r`, `l == r`, `ltu(l,r)`,
    `l << r` …, each followed by the simplification of the new node) on well-formed `Plain` operands returns an
    expression with the reference meaning of the operator applied to the values of the operands. -/
theorem oper_sound (cfg : Cfg) (hc : NoThreshold cfg) (ρ : Val) (hρ : NoRenderClash ρ) (fuel : Nat) (o : Op)
    (l r res : Expr) (hl : WF l) (hr : WF r) (hpl : Plain l) (hpr : Plain r) (ho : agnOp o = true)
    (hsz : o.type ≠ 8 → l.size = r.size) (h : callOp cfg fuel o l r = .ok res) :
    WF res ∧ res.size = (if o.type = 4 then 1 else l.size) ∧ Plain res ∧
      ideal ρ res = binSem o false l.size (ideal ρ l) (ideal ρ r) := by
  obtain ⟨h1, h2⟩ := (widthIH_all cfg fuel).callOp o l r hl hr (fun h4 => hsz (by omega)) res h
  obtain ⟨h3, h4⟩ := (soundIH_all cfg hc ρ hρ fuel).callOp o l r hl hr hpl hpr ho hsz res h
  refine ⟨h1, ?_, h3, h4⟩
  rw [h2]
  cases o <;> simp [agnOp] at ho <;> simp [resSize, Op.type]

/-- unary `-x`, `~x` -/
theorem uoper_sound (cfg : Cfg) (hc : NoThreshold cfg) (ρ : Val) (hρ : NoRenderClash ρ) (fuel : Nat) (o : Op)
    (x res : Expr) (hx : WF x) (hp : Plain x) (ho : o = Op.sub ∨ o = Op.not) (h : callUop cfg fuel o x = .ok res) :
    WF res ∧ res.size = x.size ∧ Plain res ∧ ideal ρ res = unSem o x.size (ideal ρ x) := by
  obtain ⟨h1, h2⟩ := (widthIH_all cfg fuel).callUop o x hx res h
  obtain ⟨h3, h4⟩ := (soundIH_all cfg hc ρ hρ fuel).callUop o x hx hp ho res h
  exact ⟨h1, h2, h3, h4⟩

/-- **slice_sound**.  `x[a:b]` is the slice of the value (through `comp.__getitem__`, `cut`, `restruct`,
    slices of slices …). -/
theorem slice_sound (cfg : Cfg) (hc : NoThreshold cfg) (ρ : Val) (hρ : NoRenderClash ρ) (fuel : Nat)
    (x res : Expr) (a b : Int) (hx : WF x) (hp : Plain x) (h : getitem cfg fuel x a b = .ok res) :
    WF res ∧ res.size = (b - a).toNat ∧ Plain res ∧ ideal ρ res = bitsOf (ideal ρ x) a.toNat (b.toNat - a.toNat) := by
  obtain ⟨h1, h2⟩ := (widthIH_all cfg fuel).getitem x a b hx res h
  obtain ⟨h3, h4⟩ := (soundIH_all cfg hc ρ hρ fuel).getitem x a b hx hp res h
  exact ⟨h1, h2, h3, h4⟩

/-- **compose_sound**.  `composer([x0, x1, …])` (a `comp` filled by `__setitem__`, then simplified) is the
    concatenation of the values, `x0` lowest. -/
theorem compose_sound (cfg : Cfg) (hc : NoThreshold cfg) (ρ : Val) (hρ : NoRenderClash ρ) (fuel : Nat)
    (parts : List Expr) (res : Expr) (hw : ∀ x ∈ parts, WF x) (hp : ∀ x ∈ parts, Plain x)
    (h : composer cfg fuel parts = .ok res) :
    WF res ∧ res.size = parts.foldl (fun a x => a + x.size) 0 ∧ Plain res ∧ ideal ρ res = catVal ρ parts := by
  obtain ⟨h1, h2⟩ := (widthIH_all cfg fuel).composer parts hw res h
  obtain ⟨h3, h4⟩ := (soundIH_all cfg hc ρ hρ fuel).composer parts hw hp res h
  exact ⟨h1, h2, h3, h4⟩

/-- **extend_sound**.  `x.zeroextend(n)` keeps the value, `x.signextend(n)` is the `n`-bit two's complement of
    the signed reading of `x` (for a non-constant `x` and `n > x.size`; constants: `fold_*`/`extension`). -/
theorem extend_sound (cfg : Cfg) (hc : NoThreshold cfg) (ρ : Val) (hρ : NoRenderClash ρ) (fuel : Nat) (sign : Bool)
    (x res : Expr) (n : Nat) (hx : WF x) (hp : Plain x) (hn : x.size < n) (h : extendExp cfg fuel sign x n = .ok res) :
    WF res ∧ res.size = n ∧ Plain res ∧
      ideal ρ res = (if sign then wrap n (toInt x.size (ideal ρ x)) else ideal ρ x) := by
  obtain ⟨h1, h2⟩ := (widthIH_all cfg fuel).extendExp sign x n hx res h
  obtain ⟨h3, h4⟩ := (soundIH_all cfg hc ρ hρ fuel).extendExp sign x n hx hp hn res h
  exact ⟨h1, by rw [h2]; omega, h3, h4⟩

/-! ### outside the fragment of `simplify_sound`

`simplify_sound_partial`: for EVERY well-formed tree, every fuel, option and complexity oracle, the rewrite
system returns a WELL-FORMED expression of the SAME WIDTH (so a constant result `cst v w` satisfies `v < 2^w`
with `w` the dictated width).  Value soundness of `simplify` is NOT proved (it is covered on every run by the
correspondence tie and the reference evaluator) for:
  * trees containing the sign-dependent operators `< <= > >= ** / %` or the rotations `>>> <<<` (their own
    rules are proved alone above: `x_op_x`, `not_cond`, `mul2_one`, `div_one`, `fold_*`, `ror/rol_formula`; the
    declared-signedness side condition `SignOK` is not threaded through the rewriting of their operands);
  * `top`, `vec`, `vecw`, `mem`, `ptr` (non-deterministic or memory-dependent meanings: C19 / C13), externals
    (`ext == 0 ⇒ false` is an assumption about the loader), a unary operator applied to a literal constant;
  * the option `widening=True` (it produces `vecw`);
  * the complexity threshold on (it introduces `top`).
The evaluation half is finished for all operators (`eval_sound` above). -/
theorem simplify_sound_partial (cfg : Cfg) (fuel : Nat) (opts : Opts) (e r : Expr) (he : WF e)
    (h : simplify cfg fuel opts e = .ok r) :
    WF r ∧ r.size = e.size ∧ (∀ v s f, r = .cst v s f → v < 2 ^ s ∧ s = e.size) := by
  obtain ⟨h1, h2⟩ := (widthIH_all cfg fuel).simplify opts e he r h
  refine ⟨h1, h2, ?_⟩
  intro v s f hr
  subst hr
  simp only [WF] at h1
  exact ⟨h1.2, h2⟩

theorem eval_sound_partial (cfg : Cfg) (fuel : Nat) (env : Env) (henv : EnvOK env) (e r : Expr) (he : WF e)
    (h : eval cfg fuel env e = .ok r) :
    WF r ∧ r.size = e.size ∧ (∀ v s f, r = .cst v s f → v < 2 ^ s ∧ s = e.size) := by
  obtain ⟨h1, h2⟩ := eval_width cfg env henv fuel e he r h
  refine ⟨h1, h2, ?_⟩
  intro v s f hr
  subst hr
  simp only [WF] at h1
  exact ⟨h1.2, h2⟩

/-! ### non-vacuity -/

/-- `((a + 0xfffffff0) >> 4)[0:8]` with `a = 0x123`: well-formed, ground, sign-agnostic; `eval` returns `0x1` -/
def exEnv : Env := [("a", 32, .cst 0x123 32 false)]
def exE : Expr :=
  .slc (.op .lsr (.op .add (.reg "a" 32 false) (.cst 0xfffffff0 32 false) 32 false 1) (.cst 4 32 false) 32 false 9) 0 8 false none 0

example : WF exE ∧ Ground exEnv exE ∧ SignOK exE := by
  refine ⟨by simp [exE, WF, Op.type], ?_, by simp [exE, SignOK, signDep]⟩
  simp only [exE, Ground, and_true, true_and]
  exact ⟨0x123, false, rfl, by decide⟩

example : EnvOK exEnv := by
  intro n s v h
  simp only [exEnv, Env.lookup] at h
  split at h
  · rename_i hc
    simp only [Bool.and_eq_true, beq_iff_eq] at hc
    cases h; simp [WF]; exact hc.2
  · cases h

def cfg0 : Cfg := { cplx := fun _ => false, vecCplx := fun _ => false }

example : (match eval cfg0 30 exEnv exE with | .ok (.cst v s _) => v == 0x11 && s == 8 | _ => false) = true := by
  decide +kernel


/-- a tree of the fragment of `simplify_sound`: `((a + 3) - a) & 0xff00` — and what `simplify` makes of it -/
def exS : Expr :=
  .op .and (.op .sub (.op .add (.reg "a" 32 false) (.cst 3 32 false) 32 false 1) (.reg "a" 32 false) 32 false 1)
    (.cst 0xff00 32 false) 32 false 3

example : WF exS ∧ Plain exS := by
  constructor
  · simp [exS, WF, Op.type]
  · simp [exS, Plain, agnOp]

example : (match simplify cfg0 40 {} exS with | .ok r => r.size == 32 | _ => false) = true := by decide +kernel

example : binSem Op.and false 32 0x12345678 0xff00 = (bitsOf 0x12345678 8 8) <<< 8 := by decide
example : maskBounds 0xff00 = some (8, 15) := by decide +kernel
example : Op.pm Op.sub Op.add = some Op.sub := rfl
example : notop Op.lt = some Op.ge := rfl
example : cstOut (cstApi Op.lt 0x80000000 32 false 1 32 false) = some (0, 1) := by decide +kernel

end Amoco.C01
