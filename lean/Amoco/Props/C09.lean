/-
  C09 — Stores and loads through symbolic pointers stay correct under aliasing.
  Property theorems only (helper lemmas live in Amoco/Proofs/Mapper*.lean; vocabulary as in Props/C02.lean).

  The model is the pointer path of `amoco/cas/mapper.py` *as repaired* by proposed_fixes/C09-*.diff and
  C02-*.diff (see DESIGN.md §12 for the two counter-examples on the unchanged code):
    `aliasing(k)`   the item of the read location only shields the read from earlier writes through other
                    bases when it is at least as wide as the read;
    `__setitem__`   the bytes of a previous, wider write that stay in place are read back through `M` (so a
                    later write into them, or a possible alias, is honoured) and composed on the side the
                    byte order dictates; the byte order of a pointer item is recorded and used by every replay
                    (`eval`, `rcompose`, `mem.eval`).
  A load answered with mods is `E.load … mods`; its meaning (`ideal`) is: replay the mods, in order, on the
  memory of the state, then read — exactly how the property reads "a load together with the ordered list
  of earlier possibly-aliasing stores".
-/
import Amoco.Props.C02

namespace Amoco.Mapper.Props

open Amoco.Mapper

/-- **aliasing is not assumed away** (`noaliasing = False`, either `memtrace` setting): for every
    load/store program over pointer registers (any offsets, any whole-byte sizes, either byte order, any
    operators) and *every* assignment of the pointers — equal, partially overlapping or disjoint — that does
    not wrap around the address space, every register (each loaded value read together with its mods) and
    the final memory are those of the byte-level sequential execution. -/
theorem alias_sound (sem : OpSem) (memtrace : Bool) (P : Prog) (σ : St) (hwf : P.wf = true)
    (hb : ∀ x, σ.mem x < 256) (hnw : ∀ a ∈ accessesOf ⟨false, memtrace⟩ P, a.noWrap sem σ) :
    (applyMap sem σ (symExec ⟨false, memtrace⟩ P)).agrees (concExec sem P σ) :=
  block_map_sound sem _ P σ hwf (by simp [Cfg.records]) ⟨hb, hnw, fun h => by simp at h⟩

/-- the loaded values, spelled out: the expression the map holds for a register evaluates — loads with
    their mods replayed — to the register's value after the sequential execution. -/
theorem alias_sound_loads (sem : OpSem) (memtrace : Bool) (P : Prog) (σ : St) (hwf : P.wf = true)
    (hb : ∀ x, σ.mem x < 256) (hnw : ∀ a ∈ accessesOf ⟨false, memtrace⟩ P, a.noWrap sem σ)
    (n : String) (s : Nat) :
    ideal sem σ ((symExec ⟨false, memtrace⟩ P).R n s) = (concExec sem P σ).reg n s % 2 ^ s :=
  (prog_inv ⟨sem, σ, ⟨false, memtrace⟩, P.be, accessesOf ⟨false, memtrace⟩ P⟩ P rfl hwf
    (Or.inr ⟨by simp [Cfg.records], hb, hnw, fun h => by simp at h⟩) (fun _ h => h)).regs n s

/-- the final memory, spelled out: replaying the pointer items of the map, in map order, on the initial
    memory gives the memory after the sequential execution. -/
theorem alias_sound_memory (sem : OpSem) (memtrace : Bool) (P : Prog) (σ : St) (hwf : P.wf = true)
    (hb : ∀ x, σ.mem x < 256) (hnw : ∀ a ∈ accessesOf ⟨false, memtrace⟩ P, a.noWrap sem σ) (x : Int) :
    replayEntries sem σ σ.mem (symExec ⟨false, memtrace⟩ P).entries x = (concExec sem P σ).mem x :=
  (alias_sound sem memtrace P σ hwf hb hnw).2 x

/-- **under the no-aliasing assumption** (`noaliasing = True`, stores recorded): the same for every
    assignment in which accesses through different symbolic bases do not overlap. -/
theorem noalias_sound (sem : OpSem) (P : Prog) (σ : St) (hwf : P.wf = true)
    (hb : ∀ x, σ.mem x < 256) (hnw : ∀ a ∈ accessesOf ⟨true, true⟩ P, a.noWrap sem σ)
    (hap : ∀ a ∈ accessesOf ⟨true, true⟩ P, ∀ b ∈ accessesOf ⟨true, true⟩ P, Access.apart sem σ a b) :
    (applyMap sem σ (symExec ⟨true, true⟩ P)).agrees (concExec sem P σ) :=
  block_map_sound sem _ P σ hwf rfl ⟨hb, hnw, fun _ => hap⟩

/-! ## Non-vacuity: the first counter-example of DESIGN.md §12, on the repaired model -/

instance (sem : OpSem) (σ : St) (a b : Access) : Decidable (Access.apart sem σ a b) := by
  unfold Access.apart; exact inferInstance

/-- `[q] := 0xaabbccdd (32) ; [p] := 0x11 (8) ; r := [p] (32)` -/
def exAlias : Prog := ⟨false,
  [.store (.reg "q" 32) 0 32 (.cst 0xaabbccdd 32),
   .store (.reg "p" 32) 0 8 (.cst 0x11 8),
   .set "r" 32 0 32 (.load (.reg "p" 32) 0 32)]⟩

/-- the pointers coincide: `p = q = 0x1000` -/
def exSt : St := ⟨fun n _ => if n = "p" ∨ n = "q" then 0x1000 else 7, fun a => (a % 251).toNat⟩

example : exAlias.wf = true := by decide
example : ∀ x, exSt.mem x < 256 := by intro x; simp only [exSt]; omega
example : ∀ a ∈ accessesOf ⟨false, true⟩ exAlias, a.noWrap exSem exSt := by decide

/-- sequential execution gives `r = 0xaabbcc11` (bytes 1..3 from the store through `q`) … -/
example : (concExec exSem exAlias exSt).reg "r" 32 = 0xaabbcc11 := by decide
/-- … and so does the repaired model: the load is answered with its mods (kernel-evaluated; the unchanged
    code answers `{0x11, M24(p+1)}` = 0x4b4a4911 on the harness's memory, see corpus/C09). -/
example : ideal exSem exSt ((symExec ⟨false, true⟩ exAlias).R "r" 32) = 0xaabbcc11 := by decide

/-- the second counter-example: big-endian `[p] := 0xaabbccdd (32) ; [p] := 0x11 (8) ; r := [p] (32)` -/
def exBE : Prog := ⟨true,
  [.store (.reg "p" 32) 0 32 (.cst 0xaabbccdd 32),
   .store (.reg "p" 32) 0 8 (.cst 0x11 8),
   .set "r" 32 0 32 (.load (.reg "p" 32) 0 32)]⟩

/-- the theorem, instantiated: the repaired model gives `0x11bbccdd` (the unchanged code: `0x11ccbbaa`). -/
example : ideal exSem exSt ((symExec ⟨false, true⟩ exBE).R "r" 32) = 0x11bbccdd := by
  rw [alias_sound_loads exSem true exBE exSt (by decide) (by intro x; simp only [exSt]; omega) (by decide)]
  decide

/-- a narrower store into an earlier wide one after a store through another base (`q = p + 1`): the bytes
    that stay in place are read back with their mods -/
def exRest : Prog := ⟨false,
  [.store (.reg "p" 32) 0 32 (.reg "a" 32),
   .store (.reg "q" 32) 0 32 (.reg "b" 32),
   .store (.reg "p" 32) 0 8 (.cst 0x11 8)]⟩

def exSt2 : St := ⟨fun n _ => if n = "p" then 0x1000 else if n = "q" then 0x1001 else 0x01020304,
  fun a => (a % 251).toNat⟩

example : ∀ a ∈ accessesOf ⟨false, false⟩ exRest, a.noWrap exSem exSt2 := by decide
example : (concExec exSem exRest exSt2).mem 0x1002 = 0x03 := by decide
example : replayEntries exSem exSt2 exSt2.mem (symExec ⟨false, false⟩ exRest).entries 0x1002 = 0x03 := by
  rw [alias_sound_memory exSem false exRest exSt2 (by decide) (by intro x; simp only [exSt2]; omega) (by decide)]
  decide

/-- under the no-aliasing assumption, with bases 0x100 apart -/
def exSt3 : St := ⟨fun n _ => if n = "p" then 0x1000 else if n = "q" then 0x1100 else 5, fun a => (a % 251).toNat⟩

example : (∀ a ∈ accessesOf ⟨true, true⟩ exAlias, a.noWrap exSem exSt3) ∧
    ∀ a ∈ accessesOf ⟨true, true⟩ exAlias, ∀ b ∈ accessesOf ⟨true, true⟩ exAlias, Access.apart exSem exSt3 a b := by
  constructor <;> decide

end Amoco.Mapper.Props
