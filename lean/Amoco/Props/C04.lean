/-
  C04 — Decoder index is equivalent to a most-constrained-first scan.
-/
import Amoco.Proofs.Dis
import Amoco.Proofs.DisKey
import Amoco.Proofs.DisSetup

namespace Amoco.Dis.Props

open Amoco Amoco.Dis

/-- **The decision tree is only an index.**  For every tree that passes the routing check for the
    weight-sorted spec list `S` (the real trees are checked on every run; `setup` always produces
    such a tree, see `setup_checks`), every decode-outcome function whose non-rejections imply that
    the spec's justified fixed bits are present in the search key, every pending state, input and
    recursion budget, `__call__` through the tree returns the same outcome — and leaves the same
    pending state — as scanning all of `S` in order. Includes prefix recursion and short inputs. -/
theorem lookup_eq_scan (be : Bool) (maxlen : Nat) (t : Tree) (S : List SpecK)
    (hc : checkTree be maxlen t S = true) {I : Type}
    (dec : Option I → List Nat → SpecK → Out I) (xd : I → Option I)
    (hacc : ∀ st bytes s, s ∈ S → dec st bytes s ≠ .reject →
              key be maxlen bytes &&& s.amask be maxlen = s.afix be maxlen)
    (r : Bool) (fuel : Nat) (st : Option I) (bytes : List Nat) :
    call r (fun bs => route t (key be maxlen bs)) dec xd fuel st bytes
      = call r (fun _ => S) dec xd fuel st bytes := by
  apply call_congr
  intro st bytes
  exact firstHit_route be maxlen (dec st bytes) (key be maxlen bytes) t S hc (hacc st bytes)

/-- The hypothesis of `lookup_eq_scan` holds for `ispec.decode` (little-endian fetch): a spec that
    does not raise `DecodeError` has its fixed bits in the key. -/
theorem accept_in_key_le (s : Spec.Spec) (bytes : List Nat) (maxlen : Nat)
    (h8 : s.fixSize % 8 = 0) (hm : s.fixSize / 8 ≤ maxlen) (hmask : s.mask < 2 ^ s.fixSize)
    (hacc : (Spec.decode s bytes false).isSome) :
    key false maxlen bytes &&& adj false maxlen s.fixSize s.mask = adj false maxlen s.fixSize s.fix := by
  simpa [adj] using le_accept_key s bytes maxlen h8 hm hmask hacc

/-- Same for big-endian fetch, where key, mask and fix are left-justified to `maxlen*8` bits
    (16-bit specs among 32-bit ones). -/
theorem accept_in_key_be (s : Spec.Spec) (bytes : List Nat) (maxlen : Nat)
    (h8 : s.fixSize % 8 = 0) (hm : s.fixSize / 8 ≤ maxlen) (hmask : s.mask < 2 ^ s.fixSize)
    (hacc : (Spec.decode s bytes true).isSome) :
    key true maxlen bytes &&& adj true maxlen s.fixSize s.mask = adj true maxlen s.fixSize s.fix := by
  simpa [adj] using be_accept_key s bytes maxlen h8 hm hmask hacc

/-- the index never hides a matching specification: the first non-rejecting spec of the whole list
    is found in the leaf reached through the tree. -/
theorem index_hides_nothing (be : Bool) (maxlen : Nat) (t : Tree) (S : List SpecK)
    (hc : checkTree be maxlen t S = true) {I : Type} (dec : SpecK → Out I) (b : Nat)
    (hacc : ∀ s ∈ S, dec s ≠ .reject → b &&& s.amask be maxlen = s.afix be maxlen) :
    firstHit dec (route t b) = firstHit dec S :=
  firstHit_route be maxlen dec b t S hc hacc

/-- `disassembler.setup`, as coded, always builds a tree that passes the routing check — for every
    specification list, endianness, `maxlen` and recursion budget. -/
theorem setup_checks (be : Bool) (maxlen fuel : Nat) (S : List SpecK) :
    checkTree be maxlen (setup be maxlen fuel S) (sortW S) = true :=
  Amoco.Dis.setup_checks be maxlen fuel S

/-- **End to end on the model**: decoding through the tree that `setup` builds from ANY specification
    list equals the most-constrained-first scan of that list. -/
theorem lookup_setup_eq_scan (be : Bool) (maxlen sfuel : Nat) (S : List SpecK) {I : Type}
    (dec : Option I → List Nat → SpecK → Out I) (xd : I → Option I)
    (hacc : ∀ st bytes s, s ∈ sortW S → dec st bytes s ≠ .reject →
              key be maxlen bytes &&& s.amask be maxlen = s.afix be maxlen)
    (r : Bool) (fuel : Nat) (st : Option I) (bytes : List Nat) :
    call r (fun bs => route (setup be maxlen sfuel S) (key be maxlen bs)) dec xd fuel st bytes
      = call r (fun _ => sortW S) dec xd fuel st bytes :=
  lookup_eq_scan be maxlen _ _ (setup_checks be maxlen sfuel S) dec xd hacc r fuel st bytes

-- non-vacuity: a two-level tree over six specs passes the check and routes a key
def exS : List SpecK :=
  [⟨0, 8, 0xff, 0x10, .no⟩, ⟨1, 8, 0xff, 0x11, .no⟩, ⟨2, 8, 0xff, 0x20, .no⟩,
   ⟨3, 8, 0xff, 0x21, .no⟩, ⟨4, 8, 0xf0, 0x30, .no⟩, ⟨5, 8, 0xf0, 0x40, .prefix⟩]
example : checkTree false 1 (setup false 1 7 exS) (sortW exS) = true := by decide
example : (route (setup false 1 7 exS) (key false 1 [0x21, 9])).map (·.id) = [2, 3] := by decide

end Amoco.Dis.Props
