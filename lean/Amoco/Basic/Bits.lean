/-
  Amoco.Basic.Bits — natural numbers used as bit-vectors with an explicit width.
  Core Lean only (no Mathlib): these definitions are linked into the compiled driver.
-/
namespace Amoco

/-- `2^n - 1` -/
def maskN (n : Nat) : Nat := 2 ^ n - 1

/-- bits `[lo, lo+len)` of `x`, as a number `< 2^len` (Python `Bits.__getitem__` on a slice). -/
def bitsAt (x lo len : Nat) : Nat := (x >>> lo) % 2 ^ len

/-- little-endian value of a byte list (`Bits(bytes, bitorder=1).ival`). -/
def leVal : List Nat → Nat
  | [] => 0
  | b :: bs => b % 256 + 256 * leVal bs

/-- big-endian value of a byte list. -/
def beVal (bs : List Nat) : Nat := leVal bs.reverse

def popcount : Nat → Nat → Nat
  | 0, _ => 0
  | n+1, x => (if x.testBit n then 1 else 0) + popcount n x

theorem testBit_bitsAt (x lo len j : Nat) :
    (bitsAt x lo len).testBit j = (decide (j < len) && x.testBit (lo + j)) := by
  unfold bitsAt
  rw [Nat.testBit_mod_two_pow, Nat.testBit_shiftRight]

theorem bitsAt_lt (x lo len : Nat) : bitsAt x lo len < 2 ^ len := by
  unfold bitsAt; exact Nat.mod_lt _ (Nat.two_pow_pos len)

theorem leVal_lt (bs : List Nat) : leVal bs < 2 ^ (8 * bs.length) := by
  induction bs with
  | nil => simp [leVal]
  | cons b bs ih =>
    simp only [leVal, List.length_cons]
    have h : 2 ^ (8 * (bs.length + 1)) = 256 * 2 ^ (8 * bs.length) := by
      rw [Nat.mul_add, Nat.pow_add]; simp [Nat.mul_comm]
    have : b % 256 < 256 := Nat.mod_lt _ (by decide)
    omega

end Amoco
