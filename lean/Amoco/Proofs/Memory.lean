/-
  Amoco.Proofs.Memory — helper lemmas for C08 (abstract memory).
  Part A: values / datadiv (`memBytes` of `exp.bytes`, `datadiv.__init__`, `cut`, `getpart`, `mergeparts`, `setpart`).
  Part B: `mo` (`trim`, `write`) and chains of consecutive objects.
  Part C: `locate` on a sorted cache; decomposition of a well-formed zone.
  Part D: `addtomap` by cases, `readLoop`, `restruct`, `shift`, `copy`, `merge`.
-/
import Amoco.Model.Memory
namespace Amoco.Memory

/-! ## Abstraction basics -/

theorem absL_nil (a : Int) : absL [] a = none := rfl
theorem absL_cons (o : Mo) (m : List Mo) (a : Int) : absL (o :: m) a = (absMo o a).or (absL m a) := by
  unfold absL
  rw [List.findSome?_cons]
  cases absMo o a <;> rfl
theorem absL_append (m1 m2 : List Mo) (a : Int) : absL (m1 ++ m2) a = (absL m1 a).or (absL m2 a) := by
  unfold absL; exact List.findSome?_append

/-! ## Part A: values and datadiv -/

theorem Ex.bytes_mem (e : Ex) (sta : Nat) (sto : Option Nat) (en : Endian) :
    (Val.ex (e.bytes sta sto en)).memBytes en =
      (((Val.ex e).memBytes en).drop sta).take ((sto.getD e.length) - sta) := by
  cases en with
  | little =>
    simp only [Val.memBytes, Ex.bytes]
    apply List.ext_getElem?
    intro i
    cases sto <;> simp only [List.getElem?_take, List.getElem?_drop, Option.getD] <;> grind
  | big =>
    simp only [Val.memBytes, Ex.bytes]
    apply List.ext_getElem?
    intro i
    cases sto <;> simp only [List.getElem?_take, List.getElem?_drop, Option.getD] <;> grind

theorem Val.memBytes_length (v : Val) (en : Endian) : (v.memBytes en).length = v.len := by
  cases v <;> cases en <;> simp [Val.memBytes, Val.len]

theorem DD.memBytes_length (d : DD) : d.memBytes.length = d.len := Val.memBytes_length _ _

theorem map_raw_rawVal (e : Ex) (h : e.isCst = true) : (e.map ByteDesc.rawVal).map ByteDesc.raw = e := by
  induction e with
  | nil => rfl
  | cons x xs ih =>
    simp only [Ex.isCst, List.all_cons, Bool.and_eq_true] at h
    simp only [List.map_cons]
    rw [ih (by simpa [Ex.isCst] using h.2)]
    cases x <;> simp_all [ByteDesc.isRaw, ByteDesc.rawVal]

theorem DD.new_memBytes (v : Val) (en : Endian) : (DD.new v en).memBytes = v.memBytes en := by
  cases v with
  | raw bs => rfl
  | ex e =>
    by_cases h : e.isCst = true
    · simp only [DD.new, h, if_true]
      cases en
      · simp [DD.memBytes, Val.memBytes, Ex.toBytes, map_raw_rawVal e h]
      · simp only [DD.memBytes, Val.memBytes, Ex.toBytes, List.map_reverse]
        rw [map_raw_rawVal e h]
    · simp only [DD.new, h]; rfl

theorem DD.new_endian (v : Val) (en : Endian) : (DD.new v en).endian = en := by
  cases v with
  | raw bs => rfl
  | ex e => by_cases h : e.isCst = true <;> simp [DD.new, h]

theorem DD.new_len (v : Val) (en : Endian) : (DD.new v en).len = v.len := by
  rw [← DD.memBytes_length, DD.new_memBytes, Val.memBytes_length]

theorem DD.cut_memBytes (d : DD) (l : Nat) : (d.cut l).memBytes = d.memBytes.drop l := by
  unfold DD.cut DD.memBytes
  cases h : d.val with
  | raw bs => simp [Val.memBytes]
  | ex e =>
    simp only
    rw [Ex.bytes_mem]
    simp only [Option.getD]
    apply List.take_of_length_le
    simp [Val.memBytes_length, Val.len]

theorem DD.cut_endian (d : DD) (l : Nat) : (d.cut l).endian = d.endian := by
  unfold DD.cut; cases d.val <;> rfl

theorem DD.getpart_fst (d : DD) (o l : Nat) :
    ∀ v, (d.getpart o l).1 = some v → v.memBytes d.endian = (d.memBytes.drop o).take l := by
  intro v hv
  unfold DD.getpart at hv
  by_cases h : o = 0 ∧ l = d.len
  · simp only [h, and_self, if_true] at hv
    cases hv
    obtain ⟨h1, h2⟩ := h
    subst h1
    simp only [DD.memBytes, List.drop_zero]
    rw [List.take_of_length_le]
    rw [Val.memBytes_length]; unfold DD.len at h2; omega
  · simp only [h, if_false] at hv
    cases hd : d.val with
    | raw bs =>
      simp only [hd] at hv
      cases hv
      simp [DD.memBytes, hd, Val.memBytes]
    | ex e =>
      simp only [hd] at hv
      by_cases h2 : o ≥ d.len
      · simp [h2] at hv
      · simp only [h2, if_false] at hv
        cases hv
        simp only [DD.memBytes, hd]
        rw [Ex.bytes_mem]
        simp

theorem DD.getpart_none (d : DD) (o l : Nat) : (d.getpart o l).1 = none → d.len ≤ o := by
  intro hv
  unfold DD.getpart at hv
  by_cases h : o = 0 ∧ l = d.len
  · simp [h] at hv
  · simp only [h, if_false] at hv
    cases hd : d.val with
    | raw bs => simp [hd] at hv
    | ex e =>
      simp only [hd] at hv
      by_cases h2 : o ≥ d.len
      · exact h2
      · simp [h2] at hv

theorem DD.partVal_memBytes (d : DD) (o l : Nat) :
    (d.partVal o l).memBytes d.endian = (d.memBytes.drop o).take l := by
  unfold DD.partVal
  cases h : (d.getpart o l).1 with
  | some v => exact DD.getpart_fst d o l v h
  | none =>
    have := DD.getpart_none d o l h
    simp only [Val.memBytes, List.map_nil]
    rw [List.drop_of_length_le (by rw [DD.memBytes_length]; exact this)]; simp


/-! ### mergeparts / setpart -/

def flat (P : List DD) : List ByteDesc := P.flatMap DD.memBytes

theorem flat_cons (p : DD) (P : List DD) : flat (p :: P) = p.memBytes ++ flat P := by
  simp [flat]

theorem flat_append (P Q : List DD) : flat (P ++ Q) = flat P ++ flat Q := by
  simp [flat]

theorem DD.mergeGo_flat (cur : DD) (P : List DD) : flat (DD.mergeGo cur P) = cur.memBytes ++ flat P := by
  induction P generalizing cur with
  | nil => simp [DD.mergeGo, flat]
  | cons p rest ih =>
    unfold DD.mergeGo
    split
    · rename_i a b ha hb
      rw [ih, flat_cons]
      simp [DD.memBytes, ha, hb, Val.memBytes]
    · rw [flat_cons, ih, flat_cons]

theorem DD.mergeGo_pos (cur : DD) (P : List DD) (hc : 0 < cur.len) (hP : ∀ p ∈ P, 0 < p.len) :
    ∀ q ∈ DD.mergeGo cur P, 0 < q.len := by
  induction P generalizing cur with
  | nil => intro q hq; simp [DD.mergeGo] at hq; subst hq; exact hc
  | cons p rest ih =>
    unfold DD.mergeGo
    split
    · rename_i a b ha hb
      apply ih
      · simp only [DD.len, Val.len, List.length_append]
        simp only [DD.len, ha, Val.len] at hc; omega
      · intro q hq; exact hP q (List.mem_cons_of_mem _ hq)
    · intro q hq
      rcases List.mem_cons.mp hq with h | h
      · subst h; exact hc
      · exact ih p (hP p (List.mem_cons_self)) (fun q hq => hP q (List.mem_cons_of_mem _ hq)) q h

theorem DD.mergeGo_ne_nil (cur : DD) (P : List DD) : DD.mergeGo cur P ≠ [] := by
  induction P generalizing cur with
  | nil => simp [DD.mergeGo]
  | cons p rest ih =>
    unfold DD.mergeGo
    split
    · exact ih _
    · simp

/-- the three candidate parts of `setpart` before merging. -/
def DD.setparts (d : DD) (o : Nat) (data : Val) (en : Endian) : List DD :=
  (if o > 0 then [DD.new (d.partVal 0 o) d.endian] else []) ++ [DD.new data en] ++
  (if o + data.len < d.len then [DD.new (d.partVal (o + data.len) (d.len - (o + data.len))) d.endian] else [])

theorem DD.setpart_eq (d : DD) (o : Nat) (data : Val) (en : Endian) :
    d.setpart o data en = DD.mergeparts (d.setparts o data en) := by
  unfold DD.setpart DD.setparts
  by_cases h1 : o > 0 <;> by_cases h2 : o + data.len < d.len <;> simp [h1, h2]

theorem DD.setparts_flat (d : DD) (o : Nat) (data : Val) (en : Endian) :
    flat (d.setparts o data en) = d.memBytes.take o ++ data.memBytes en ++ d.memBytes.drop (o + data.len) := by
  unfold DD.setparts
  rw [flat_append, flat_append]
  congr 1
  congr 1
  · by_cases h1 : o > 0
    · simp [h1, flat, DD.new_memBytes, DD.partVal_memBytes]
    · have : o = 0 := by omega
      simp [this, flat]
  · simp [flat, DD.new_memBytes]
  · by_cases h2 : o + data.len < d.len
    · simp only [h2, if_true, flat, List.flatMap_cons, List.flatMap_nil, List.append_nil, DD.new_memBytes,
        DD.partVal_memBytes]
      apply List.take_of_length_le
      simp [DD.memBytes_length]
    · simp only [h2, if_false, flat, List.flatMap_nil]
      rw [List.drop_of_length_le]
      rw [DD.memBytes_length]; omega

theorem DD.setparts_pos (d : DD) (o : Nat) (data : Val) (en : Endian) (ho : o ≤ d.len) (hd : 0 < data.len) :
    ∀ q ∈ d.setparts o data en, 0 < q.len := by
  intro q hq
  unfold DD.setparts at hq
  simp only [List.mem_append, List.mem_singleton] at hq
  rcases hq with (hq | hq) | hq
  · by_cases h1 : o > 0
    · simp only [h1, if_true, List.mem_singleton] at hq
      subst hq
      rw [DD.new_len, ← Val.memBytes_length _ d.endian, DD.partVal_memBytes]
      simp [DD.memBytes_length]; omega
    · simp [h1] at hq
  · subst hq; rw [DD.new_len]; exact hd
  · by_cases h2 : o + data.len < d.len
    · simp only [h2, if_true, List.mem_singleton] at hq
      subst hq
      rw [DD.new_len, ← Val.memBytes_length _ d.endian, DD.partVal_memBytes]
      simp [DD.memBytes_length]; omega
    · simp [h2] at hq

theorem DD.setparts_ne_nil (d : DD) (o : Nat) (data : Val) (en : Endian) : d.setparts o data en ≠ [] := by
  unfold DD.setparts; simp

theorem DD.mergeparts_flat (P : List DD) : flat (DD.mergeparts P) = flat P := by
  cases P with
  | nil => rfl
  | cons p rest => simp [DD.mergeparts, DD.mergeGo_flat, flat_cons]

theorem DD.mergeparts_pos (P : List DD) (hP : ∀ p ∈ P, 0 < p.len) : ∀ q ∈ DD.mergeparts P, 0 < q.len := by
  cases P with
  | nil => intro q hq; simp [DD.mergeparts] at hq
  | cons p rest =>
    exact DD.mergeGo_pos p rest (hP p List.mem_cons_self) (fun q hq => hP q (List.mem_cons_of_mem _ hq))

theorem DD.mergeparts_ne_nil (P : List DD) (h : P ≠ []) : DD.mergeparts P ≠ [] := by
  cases P with
  | nil => exact absurd rfl h
  | cons p rest => exact DD.mergeGo_ne_nil p rest

theorem DD.setpart_flat (d : DD) (o : Nat) (data : Val) (en : Endian) :
    flat (d.setpart o data en) = d.memBytes.take o ++ data.memBytes en ++ d.memBytes.drop (o + data.len) := by
  rw [DD.setpart_eq, DD.mergeparts_flat, DD.setparts_flat]

theorem DD.setpart_pos (d : DD) (o : Nat) (data : Val) (en : Endian) (ho : o ≤ d.len) (hd : 0 < data.len) :
    ∀ q ∈ d.setpart o data en, 0 < q.len := by
  rw [DD.setpart_eq]; exact DD.mergeparts_pos _ (DD.setparts_pos d o data en ho hd)

theorem DD.setpart_ne_nil (d : DD) (o : Nat) (data : Val) (en : Endian) : d.setpart o data en ≠ [] := by
  rw [DD.setpart_eq]; exact DD.mergeparts_ne_nil _ (DD.setparts_ne_nil d o data en)


/-! ## Part B: mo -/

def ZoneWF (m : List Mo) : Prop := (∀ o ∈ m, 0 < o.len) ∧ m.Pairwise (fun a b => a.fin ≤ b.vaddr)

theorem Mo.fin_eq (o : Mo) : o.fin = o.vaddr + (o.len : Int) := rfl
theorem Mo.len_eq (o : Mo) : o.len = o.data.memBytes.length := (DD.memBytes_length _).symm

theorem absMo_eq (o : Mo) (q : Int) (h : o.vaddr ≤ q) : absMo o q = o.data.memBytes[(q - o.vaddr).toNat]? := by
  simp [absMo, h]

theorem absMo_none_lt (o : Mo) (q : Int) (h : q < o.vaddr) : absMo o q = none := by
  simp [absMo]; omega

theorem absMo_none_ge (o : Mo) (q : Int) (h : o.fin ≤ q) : absMo o q = none := by
  unfold absMo
  split
  · rw [List.getElem?_eq_none_iff, ← Mo.len_eq]; rw [Mo.fin_eq] at h; omega
  · rfl

theorem absMo_isSome (o : Mo) (q : Int) (h1 : o.vaddr ≤ q) (h2 : q < o.fin) : (absMo o q).isSome := by
  rw [absMo_eq o q h1]
  have : (q - o.vaddr).toNat < o.data.memBytes.length := by rw [← Mo.len_eq]; rw [Mo.fin_eq] at h2; omega
  rw [(List.getElem?_eq_some_getElem_iff this).mpr trivial]; rfl

theorem absMo_some_range (o : Mo) (q : Int) (d : ByteDesc) (h : absMo o q = some d) : o.vaddr ≤ q ∧ q < o.fin := by
  constructor
  · by_cases h1 : o.vaddr ≤ q
    · exact h1
    · rw [absMo_none_lt o q (by omega)] at h; cases h
  · by_cases h2 : q < o.fin
    · exact h2
    · rw [absMo_none_ge o q (by omega)] at h; cases h

theorem absL_none_of (m : List Mo) (q : Int) (h : ∀ o ∈ m, q < o.vaddr ∨ o.fin ≤ q) : absL m q = none := by
  induction m with
  | nil => rfl
  | cons o m ih =>
    rw [absL_cons]
    have : absMo o q = none := by
      rcases h o List.mem_cons_self with h1 | h1
      · exact absMo_none_lt o q h1
      · exact absMo_none_ge o q h1
    rw [this, ih (fun o ho => h o (List.mem_cons_of_mem _ ho))]; rfl

theorem Mo.new_vaddr (v : Int) (d : Val) (e : Endian) : (Mo.new v d e).vaddr = v := rfl
theorem Mo.new_memBytes (v : Int) (d : Val) (e : Endian) : (Mo.new v d e).data.memBytes = d.memBytes e :=
  DD.new_memBytes d e
theorem Mo.new_len (v : Int) (d : Val) (e : Endian) : (Mo.new v d e).len = d.len := DD.new_len d e
theorem Mo.new_fin (v : Int) (d : Val) (e : Endian) : (Mo.new v d e).fin = v + (d.len : Int) := by
  rw [Mo.fin_eq, Mo.new_len]; rfl

/-- consecutive objects starting at `v`. -/
def Contig : Int → List Mo → Prop
  | _, [] => True
  | v, o :: ms => o.vaddr = v ∧ Contig o.fin ms

def flatM (ms : List Mo) : List ByteDesc := ms.flatMap (fun o => o.data.memBytes)

theorem flatM_cons (o : Mo) (ms : List Mo) : flatM (o :: ms) = o.data.memBytes ++ flatM ms := by simp [flatM]

theorem Contig.absL {v : Int} {ms : List Mo} (h : Contig v ms) (q : Int) :
    absL ms q = if v ≤ q then (flatM ms)[(q - v).toNat]? else none := by
  induction ms generalizing v with
  | nil => simp [absL_nil, flatM]
  | cons o ms ih =>
    obtain ⟨h1, h2⟩ := h
    rw [absL_cons, ih h2, flatM_cons]
    subst h1
    by_cases hq : o.vaddr ≤ q
    · rw [absMo_eq o q hq]
      simp only [hq, if_true]
      rw [List.getElem?_append]
      by_cases hi : (q - o.vaddr).toNat < o.data.memBytes.length
      · simp only [hi, if_true]
        rw [(List.getElem?_eq_some_getElem_iff hi).mpr trivial]; rfl
      · simp only [hi, if_false]
        rw [List.getElem?_eq_none_iff.mpr (by omega)]
        have : o.fin ≤ q := by rw [Mo.fin_eq, Mo.len_eq]; omega
        simp only [this, if_true, Option.none_or]
        congr 1
        rw [Mo.fin_eq, Mo.len_eq]; omega
    · rw [absMo_none_lt o q (by omega)]
      have : ¬ o.fin ≤ q := by rw [Mo.fin_eq]; omega
      simp [hq, this]

theorem Contig.within {v : Int} {ms : List Mo} (h : Contig v ms) :
    ∀ o ∈ ms, v ≤ o.vaddr ∧ o.fin ≤ v + ((flatM ms).length : Int) := by
  induction ms generalizing v with
  | nil => intro o ho; cases ho
  | cons o ms ih =>
    obtain ⟨h1, h2⟩ := h
    intro w hw
    rw [flatM_cons, List.length_append]
    rcases List.mem_cons.mp hw with hw | hw
    · subst hw; subst h1; rw [Mo.fin_eq, Mo.len_eq]; omega
    · have := ih h2 w hw
      rw [Mo.fin_eq, Mo.len_eq] at this
      subst h1; omega

theorem Contig.pairwise {v : Int} {ms : List Mo} (h : Contig v ms) :
    ms.Pairwise (fun a b => a.fin ≤ b.vaddr) := by
  induction ms generalizing v with
  | nil => exact List.Pairwise.nil
  | cons o ms ih =>
    obtain ⟨h1, h2⟩ := h
    apply List.Pairwise.cons
    · intro w hw; exact (h2.within w hw).1
    · exact ih h2

theorem chain_contig (v : Int) (ps : List DD) : Contig v (Mo.chain v ps) := by
  induction ps generalizing v with
  | nil => trivial
  | cons p ps ih =>
    refine ⟨rfl, ?_⟩
    have : (Mo.new v p.val p.endian).fin = v + (p.len : Int) := by rw [Mo.new_fin]; rfl
    rw [this]; exact ih _

theorem chain_flatM (v : Int) (ps : List DD) : flatM (Mo.chain v ps) = flat ps := by
  induction ps generalizing v with
  | nil => rfl
  | cons p ps ih =>
    simp only [Mo.chain, flatM_cons, flat_cons, ih, Mo.new_memBytes]; rfl

theorem chain_pos (v : Int) (ps : List DD) (h : ∀ p ∈ ps, 0 < p.len) : ∀ o ∈ Mo.chain v ps, 0 < o.len := by
  induction ps generalizing v with
  | nil => intro o ho; cases ho
  | cons p ps ih =>
    intro o ho
    rcases List.mem_cons.mp ho with ho | ho
    · subst ho; rw [Mo.new_len]; exact h p List.mem_cons_self
    · exact ih _ (fun p hp => h p (List.mem_cons_of_mem _ hp)) o ho


/-! ### mo.write -/

/-- the objects replacing `o` after `o.write(z.vaddr, z.data.val, z.data.endian)`. -/
def writeL (o z : Mo) : List Mo :=
  let r := o.write z.vaddr z.data.val z.data.endian
  r.1 :: r.2

theorem writeL_in (o z : Mo) (h1 : o.vaddr ≤ z.vaddr) (h2 : z.vaddr ≤ o.fin) :
    Contig o.vaddr (writeL o z) ∧
    flatM (writeL o z) = o.data.memBytes.take (z.vaddr - o.vaddr).toNat ++ z.data.memBytes ++
        o.data.memBytes.drop ((z.vaddr - o.vaddr).toNat + z.len) ∧
    ((0 < z.len) → ∀ w ∈ writeL o z, 0 < w.len) := by
  have hc : (o.contains z.vaddr || z.vaddr == o.fin) = true := by
    simp only [Mo.contains, Bool.or_eq_true, Bool.and_eq_true, decide_eq_true_eq, beq_iff_eq]; omega
  have hk : (z.vaddr - o.vaddr).toNat ≤ o.data.len := by
    rw [Mo.fin_eq] at h2; unfold Mo.len at h2; omega
  unfold writeL Mo.write
  simp only [hc, if_true]
  have hf := DD.setpart_flat o.data (z.vaddr - o.vaddr).toNat z.data.val z.data.endian
  have hp := DD.setpart_pos o.data (z.vaddr - o.vaddr).toNat z.data.val z.data.endian hk
  have hn := DD.setpart_ne_nil o.data (z.vaddr - o.vaddr).toNat z.data.val z.data.endian
  cases hs : o.data.setpart (z.vaddr - o.vaddr).toNat z.data.val z.data.endian with
  | nil => exact absurd hs hn
  | cons p0 ps =>
    rw [hs] at hf hp
    simp only
    refine ⟨⟨rfl, chain_contig _ _⟩, ?_, ?_⟩
    · rw [flatM_cons, chain_flatM, ← flat_cons]; exact hf
    · intro hz w hw
      have hp' := hp hz
      rcases List.mem_cons.mp hw with hw | hw
      · subst hw; exact hp' p0 List.mem_cons_self
      · exact chain_pos _ ps (fun p hp2 => hp' p (List.mem_cons_of_mem _ hp2)) w hw

theorem writeL_out (o z : Mo) (h2 : o.fin < z.vaddr) :
    writeL o z = [o, Mo.new z.vaddr z.data.val z.data.endian] := by
  have hc : (o.contains z.vaddr || z.vaddr == o.fin) = false := by
    simp only [Mo.contains, Bool.or_eq_false_iff, Bool.and_eq_false_iff, decide_eq_false_iff_not, beq_eq_false_iff_ne]
    omega
  unfold writeL Mo.write
  simp [hc]

/-- `mo.write` is "write z over o", for every position of `z` at or after the start of `o`. -/
theorem writeL_abs (o z : Mo) (h1 : o.vaddr ≤ z.vaddr) (q : Int) :
    absL (writeL o z) q = (absMo z q).or (absMo o q) := by
  by_cases h2 : z.vaddr ≤ o.fin
  · obtain ⟨hc, hf, _⟩ := writeL_in o z h1 h2
    rw [hc.absL q, hf]
    by_cases hq : o.vaddr ≤ q
    · simp only [hq, if_true]
      have hk : (z.vaddr - o.vaddr).toNat ≤ o.data.memBytes.length := by
        rw [← Mo.len_eq]; rw [Mo.fin_eq] at h2; omega
      rw [absMo_eq o q hq]
      have hM : o.data.memBytes.length = o.len := (Mo.len_eq o).symm
      have hN : z.data.memBytes.length = z.len := (Mo.len_eq z).symm
      have hT : (List.take (z.vaddr - o.vaddr).toNat o.data.memBytes).length = (z.vaddr - o.vaddr).toNat := by
        rw [List.length_take]; omega
      have hfz : z.fin = z.vaddr + (z.len : Int) := rfl
      by_cases hqa : q < z.vaddr
      · rw [absMo_none_lt z q hqa, Option.none_or, List.append_assoc, List.getElem?_append_left (by omega)]
        rw [List.getElem?_take]; simp; omega
      · by_cases hqb : q < z.fin
        · have hs := absMo_isSome z q (by omega) hqb
          rw [Option.or_of_isSome hs, absMo_eq z q (by omega)]
          rw [List.getElem?_append_left (by rw [List.length_append]; omega),
            List.getElem?_append_right (by omega)]
          congr 1; omega
        · rw [absMo_none_ge z q (by omega), Option.none_or]
          rw [List.getElem?_append_right (by rw [List.length_append]; omega), List.getElem?_drop]
          congr 1
          rw [List.length_append]; omega
    · rw [absMo_none_lt o q (by omega), absMo_none_lt z q (by omega)]; simp [hq]
  · rw [writeL_out o z (by omega), absL_cons, absL_cons, absL_nil, Option.or_none]
    have hz : absMo (Mo.new z.vaddr z.data.val z.data.endian) q = absMo z q := by
      unfold absMo; rw [Mo.new_vaddr, Mo.new_memBytes]; rfl
    rw [hz]
    cases h : absMo o q with
    | none => simp
    | some d =>
      have := absMo_some_range o q d h
      rw [absMo_none_lt z q (by omega)]; simp


theorem writeL_wf (o z : Mo) (h1 : o.vaddr ≤ z.vaddr) (ho : 0 < o.len) (hz : 0 < z.len) :
    ZoneWF (writeL o z) ∧ ∀ w ∈ writeL o z, o.vaddr ≤ w.vaddr ∧ w.fin ≤ max o.fin z.fin := by
  by_cases h2 : z.vaddr ≤ o.fin
  · obtain ⟨hc, hf, hp⟩ := writeL_in o z h1 h2
    refine ⟨⟨hp hz, hc.pairwise⟩, ?_⟩
    intro w hw
    have := hc.within w hw
    rw [hf] at this
    have hM : o.data.memBytes.length = o.len := (Mo.len_eq o).symm
    have hN : z.data.memBytes.length = z.len := (Mo.len_eq z).symm
    simp only [List.length_append, List.length_take, List.length_drop, hM, hN] at this
    have hfz : z.fin = z.vaddr + (z.len : Int) := rfl
    have hfo : o.fin = o.vaddr + (o.len : Int) := rfl
    omega
  · have hfz : z.fin = z.vaddr + (z.len : Int) := rfl
    have hfo : o.fin = o.vaddr + (o.len : Int) := rfl
    rw [writeL_out o z (by omega)]
    refine ⟨⟨?_, ?_⟩, ?_⟩
    · intro w hw
      simp only [List.mem_cons, List.not_mem_nil, or_false] at hw
      rcases hw with hw | hw
      · subst hw; exact ho
      · subst hw; rw [Mo.new_len]; exact hz
    · simp only [List.pairwise_cons, List.mem_singleton, forall_eq, List.not_mem_nil, false_imp_iff,
        implies_true, List.Pairwise.nil, and_true]
      rw [Mo.new_vaddr]; omega
    · intro w hw
      simp only [List.mem_cons, List.not_mem_nil, or_false] at hw
      rcases hw with hw | hw
      · subst hw; omega
      · subst hw; rw [Mo.new_vaddr, Mo.new_fin]
        have : z.data.val.len = z.len := rfl
        omega

/-! ### mo.trim -/

theorem trim_props (y : Mo) (b : Int) (h : y.contains b = true) :
    (y.trim b).vaddr = b ∧ (y.trim b).fin = y.fin ∧
    (y.trim b).data.memBytes = y.data.memBytes.drop (b - y.vaddr).toNat := by
  have hr : y.vaddr ≤ b ∧ b < y.fin := by
    simpa [Mo.contains] using h
  unfold Mo.trim
  simp only [h, if_true]
  by_cases hl : (b - y.vaddr).toNat > 0
  · simp only [hl, if_true]
    refine ⟨by trivial, ?_, DD.cut_memBytes _ _⟩
    have h1 : (y.data.cut (b - y.vaddr).toNat).len = y.data.len - (b - y.vaddr).toNat := by
      rw [← DD.memBytes_length, DD.cut_memBytes, List.length_drop, DD.memBytes_length]
    simp only [Mo.fin, h1]
    rw [Mo.fin_eq] at hr; unfold Mo.len at hr
    omega
  · simp only [hl, if_false]
    have : (b - y.vaddr).toNat = 0 := by omega
    refine ⟨by trivial, ?_, by rw [this]; rfl⟩
    simp only [Mo.fin]; omega

theorem trim_abs (y : Mo) (b : Int) (h : y.contains b = true) (q : Int) :
    absMo (y.trim b) q = if b ≤ q then absMo y q else none := by
  obtain ⟨h1, _, h3⟩ := trim_props y b h
  have hr : y.vaddr ≤ b ∧ b < y.fin := by
    simpa [Mo.contains] using h
  by_cases hq : b ≤ q
  · simp only [hq, if_true]
    rw [absMo_eq _ q (by omega), absMo_eq _ q (by omega), h3, List.getElem?_drop, h1]
    congr 1; omega
  · simp only [hq, if_false]
    exact absMo_none_lt _ q (by omega)

/-! ## Part C: locate -/

theorem locate_cons_eq (a : Int) (p : List Int) : locate (a :: p) a = some 0 := by
  simp [locate]

theorem locate_cons_lt (x a : Int) (p : List Int) (h : x < a) :
    locate (x :: p) a = match locate p a with
      | none => some 0
      | some i => some (i + 1) := by
  have hne : ¬ a = x := by omega
  have hne' : ¬ x = a := by omega
  unfold locate
  by_cases hc : p.contains a = true
  · have : (x :: p).contains a = true := by simp [hne] ; simpa using hc
    simp only [this, hc, if_true]
    have hb : (x == a) = false := by simp [hne']
    rw [List.idxOf_cons, hb]; rfl
  · have : ¬ (x :: p).contains a = true := by simp [hne]; simpa using hc
    simp only [this, hc]
    have hb : bisectLeft (x :: p) a = bisectLeft p a + 1 := by
      simp [bisectLeft, h]
    rw [hb]
    by_cases h0 : bisectLeft p a = 0
    · simp [h0]
    · simp [h0]; omega

theorem locate_none_of (p : List Int) (a : Int) (h : ∀ y ∈ p, a < y) : locate p a = none := by
  unfold locate
  have hc : ¬ p.contains a = true := by
    simp only [List.contains_iff_mem]
    intro hm; have := h a hm; omega
  simp only [hc]
  cases p with
  | nil => simp [bisectLeft]
  | cons y p =>
    have : ¬ y < a := by have := h y List.mem_cons_self; omega
    simp [bisectLeft, this]



def starts (m : List Mo) : List Int := m.map Mo.vaddr

theorem ZoneWF.nil : ZoneWF [] := ⟨by simp, List.Pairwise.nil⟩

theorem zoneWF_cons (x : Mo) (m : List Mo) :
    ZoneWF (x :: m) ↔ 0 < x.len ∧ (∀ y ∈ m, x.fin ≤ y.vaddr) ∧ ZoneWF m := by
  unfold ZoneWF
  simp only [List.mem_cons, forall_eq_or_imp, List.pairwise_cons]
  constructor
  · rintro ⟨⟨h1, h2⟩, h3, h4⟩; exact ⟨h1, h3, h2, h4⟩
  · rintro ⟨h1, h3, h2, h4⟩; exact ⟨⟨h1, h2⟩, h3, h4⟩

theorem zoneWF_append (m1 m2 : List Mo) :
    ZoneWF (m1 ++ m2) ↔ ZoneWF m1 ∧ ZoneWF m2 ∧ ∀ a ∈ m1, ∀ b ∈ m2, a.fin ≤ b.vaddr := by
  unfold ZoneWF
  simp only [List.mem_append, List.pairwise_append]
  constructor
  · rintro ⟨h1, h2, h3, h4⟩
    exact ⟨⟨fun o ho => h1 o (Or.inl ho), h2⟩, ⟨fun o ho => h1 o (Or.inr ho), h3⟩, h4⟩
  · rintro ⟨⟨h1, h2⟩, ⟨h3, h4⟩, h5⟩
    exact ⟨fun o ho => ho.elim (h1 o) (h3 o), h2, h4, h5⟩

theorem Mo.lt_fin (o : Mo) (h : 0 < o.len) : o.vaddr < o.fin := by rw [Mo.fin_eq]; omega

theorem locateM_none_of (m : List Mo) (a : Int) (h : ∀ y ∈ m, a < y.vaddr) : locate (starts m) a = none := by
  apply locate_none_of
  intro y hy
  obtain ⟨o, ho, rfl⟩ := List.mem_map.mp hy
  exact h o ho

theorem locateM_spec (m : List Mo) (a : Int) (wf : ZoneWF m) :
    match locate (starts m) a with
    | none => ∀ y ∈ m, a < y.vaddr
    | some i => ∃ pre x post, m = pre ++ x :: post ∧ pre.length = i ∧ x.vaddr ≤ a ∧ ∀ y ∈ post, a < y.vaddr := by
  induction m with
  | nil => simp [starts, locate, bisectLeft]
  | cons x m ih =>
    obtain ⟨hx, hxm, wfm⟩ := (zoneWF_cons x m).mp wf
    have hxf := Mo.lt_fin x hx
    have ih := ih wfm
    by_cases h1 : a < x.vaddr
    · have : locate (starts (x :: m)) a = none := by
        apply locateM_none_of
        intro y hy
        rcases List.mem_cons.mp hy with hy | hy
        · subst hy; exact h1
        · have := hxm y hy; omega
      rw [this]
      intro y hy
      rcases List.mem_cons.mp hy with hy | hy
      · subst hy; exact h1
      · have := hxm y hy; omega
    · by_cases h2 : x.vaddr = a
      · have : locate (starts (x :: m)) a = some 0 := by
          simp only [starts, List.map_cons, h2]; exact locate_cons_eq a _
        rw [this]
        refine ⟨[], x, m, rfl, rfl, by omega, ?_⟩
        intro y hy; have := hxm y hy; omega
      · have hlt : x.vaddr < a := by omega
        have e := locate_cons_lt x.vaddr a (starts m) hlt
        have e' : locate (starts (x :: m)) a = _ := e
        rw [e']
        cases hl : locate (starts m) a with
        | none =>
          rw [hl] at ih
          exact ⟨[], x, m, rfl, rfl, by omega, ih⟩
        | some i =>
          rw [hl] at ih
          obtain ⟨pre, x', post, hm, hlen, hx', hpost⟩ := ih
          exact ⟨x :: pre, x', post, by rw [hm]; rfl, by simp [hlen], hx', hpost⟩

theorem locateM_none (m : List Mo) (a : Int) (wf : ZoneWF m) (h : locate (starts m) a = none) :
    ∀ y ∈ m, a < y.vaddr := by
  have := locateM_spec m a wf; rw [h] at this; exact this

theorem locateM_some (m : List Mo) (a : Int) (i : Nat) (wf : ZoneWF m) (h : locate (starts m) a = some i) :
    ∃ pre x post, m = pre ++ x :: post ∧ pre.length = i ∧ x.vaddr ≤ a ∧ ∀ y ∈ post, a < y.vaddr := by
  have := locateM_spec m a wf; rw [h] at this; exact this

theorem locateM_of_decomp (pre : List Mo) (x : Mo) (post : List Mo) (a : Int)
    (wf : ZoneWF (pre ++ x :: post)) (h1 : x.vaddr ≤ a) (h2 : ∀ y ∈ post, a < y.vaddr) :
    locate (starts (pre ++ x :: post)) a = some pre.length := by
  induction pre with
  | nil =>
    by_cases h : x.vaddr = a
    · simp only [List.nil_append, starts, List.map_cons, h]; exact locate_cons_eq a _
    · have e := locate_cons_lt x.vaddr a (starts post) (by omega)
      have e' : locate (starts ([] ++ x :: post)) a = _ := e
      rw [e', locateM_none_of post a h2]; rfl
  | cons w pre ih =>
    obtain ⟨hw, hwm, wfm⟩ := (zoneWF_cons w _).mp wf
    have hwf := Mo.lt_fin w hw
    have := hwm x (by simp)
    have e := locate_cons_lt w.vaddr a (starts (pre ++ x :: post)) (by omega)
    have e' : locate (starts (w :: pre ++ x :: post)) a = _ := e
    rw [e', ih wfm]; rfl

theorem locateM_append_gt (m1 m2 : List Mo) (a : Int) (wf : ZoneWF (m1 ++ m2)) (h : ∀ y ∈ m2, a < y.vaddr) :
    locate (starts (m1 ++ m2)) a = locate (starts m1) a := by
  obtain ⟨wf1, wf2, h12⟩ := (zoneWF_append m1 m2).mp wf
  cases hl : locate (starts m1) a with
  | none =>
    apply locateM_none_of
    intro y hy
    rcases List.mem_append.mp hy with hy | hy
    · exact locateM_none m1 a wf1 hl y hy
    · exact h y hy
  | some i =>
    obtain ⟨pre, x, post, hm, hlen, hx, hpost⟩ := locateM_some m1 a i wf1 hl
    subst hm
    rw [← hlen]
    have : (pre ++ x :: post) ++ m2 = pre ++ x :: (post ++ m2) := by simp
    rw [this] at wf ⊢
    apply locateM_of_decomp _ _ _ _ wf hx
    intro y hy
    rcases List.mem_append.mp hy with hy | hy
    · exact hpost y hy
    · exact h y hy


/-! ## Part D: addtomap -/

/-- what remains of the object `y` holding `z.end`, and of everything after it. -/
def tailPart (y : Mo) (post : List Mo) (b : Int) : List Mo :=
  if y.contains b then y.trim b :: post else post

theorem addtomapL_none (p : List Int) (m : List Mo) (z : Mo) (h : locate p z.fin = none) :
    addtomapL p m z = z :: m := by
  unfold addtomapL; simp [h]

theorem drop_len_succ (pre : List Mo) (y : Mo) (post : List Mo) :
    List.drop (pre.length + 1) (pre ++ y :: post) = post := by
  rw [List.drop_length_add_append]; rfl

theorem drop_len (pre : List Mo) (post : List Mo) :
    List.drop pre.length (pre ++ post) = post := List.drop_left' rfl

theorem addtomapL_same (p : List Int) (pre : List Mo) (y : Mo) (post : List Mo) (z : Mo)
    (hj : locate p z.fin = some pre.length) (hi : locate p z.vaddr = some pre.length) :
    addtomapL p (pre ++ y :: post) z = pre ++ writeL y z ++ post := by
  unfold addtomapL
  simp only [hj, hi, if_true]
  rw [List.getElem?_append_right (Nat.le_refl _)]
  simp only [Nat.sub_self, List.getElem?_cons_zero]
  rw [List.take_left' rfl, drop_len_succ]; rfl

theorem addtomapL_diff_none (p : List Int) (A : List Mo) (y : Mo) (post : List Mo) (z : Mo)
    (hj : locate p z.fin = some A.length) (hi : locate p z.vaddr = none) :
    addtomapL p (A ++ y :: post) z = z :: tailPart y post z.fin := by
  unfold addtomapL tailPart
  simp only [hj, hi]
  rw [List.getElem?_append_right (Nat.le_refl _)]
  simp only [Nat.sub_self, List.getElem?_cons_zero, reduceCtorEq, if_false]
  by_cases hc : y.contains z.fin = true
  · simp only [hc, if_true]
    rw [List.set_append_right _ _ (Nat.le_refl _)]
    simp only [Nat.sub_self, List.set_cons_zero]
    rw [drop_len]
  · have hc' : y.contains z.fin = false := by simpa using hc
    simp only [hc', Bool.false_eq_true, if_false]
    rw [drop_len_succ]

theorem addtomapL_diff_some (p : List Int) (pre : List Mo) (x : Mo) (mid : List Mo) (y : Mo) (post : List Mo)
    (z : Mo) (hj : locate p z.fin = some (pre ++ x :: mid).length) (hi : locate p z.vaddr = some pre.length) :
    addtomapL p ((pre ++ x :: mid) ++ y :: post) z =
      pre ++ (if z.vaddr ≤ x.fin then writeL x z else [x, z]) ++ tailPart y post z.fin := by
  have hne : ¬ (pre.length = (pre ++ x :: mid).length) := by simp
  unfold addtomapL tailPart
  simp only [hj, hi, Option.some.injEq, hne, if_false]
  rw [List.getElem?_append_right (Nat.le_refl _)]
  simp only [Nat.sub_self, List.getElem?_cons_zero]
  by_cases hc : y.contains z.fin = true
  · simp only [hc, if_true]
    rw [List.set_append_right _ _ (Nat.le_refl _)]
    simp only [Nat.sub_self, List.set_cons_zero]
    rw [drop_len]
    have e : (pre ++ x :: mid) ++ y.trim z.fin :: post = pre ++ x :: (mid ++ y.trim z.fin :: post) := by simp
    rw [e, List.getElem?_append_right (Nat.le_refl _)]
    simp only [Nat.sub_self, List.getElem?_cons_zero]
    rw [List.take_left' rfl]
    by_cases hx : z.vaddr ≤ x.fin
    · simp only [hx, if_true]; rfl
    · simp only [hx, if_false]
      have : List.take (pre.length + 1) (pre ++ x :: (mid ++ y.trim z.fin :: post)) = pre ++ [x] := by
        rw [List.take_length_add_append]; rfl
      rw [this]; simp
  · have hc' : y.contains z.fin = false := by simpa using hc
    simp only [hc', Bool.false_eq_true, if_false]
    rw [drop_len_succ]
    have e : (pre ++ x :: mid) ++ y :: post = pre ++ x :: (mid ++ y :: post) := by simp
    rw [e, List.getElem?_append_right (Nat.le_refl _)]
    simp only [Nat.sub_self, List.getElem?_cons_zero]
    rw [List.take_left' rfl]
    by_cases hx : z.vaddr ≤ x.fin
    · simp only [hx, if_true]; rfl
    · simp only [hx, if_false]
      have : List.take (pre.length + 1) (pre ++ x :: (mid ++ y :: post)) = pre ++ [x] := by
        rw [List.take_length_add_append]; rfl
      rw [this]; simp


theorem contains_iff (y : Mo) (b : Int) : y.contains b = true ↔ y.vaddr ≤ b ∧ b < y.fin := by
  simp [Mo.contains]

theorem tailPart_ge (y : Mo) (post : List Mo) (b q : Int) (hy : y.vaddr ≤ b) (hq : b ≤ q) :
    absL (tailPart y post b) q = absL (y :: post) q := by
  unfold tailPart
  by_cases hc : y.contains b = true
  · simp only [hc, if_true]
    rw [absL_cons, absL_cons, trim_abs y b hc]; simp [hq]
  · simp only [hc]
    have : y.fin ≤ b := by
      rw [contains_iff] at hc; omega
    rw [absL_cons, absMo_none_ge y q (by omega)]; rfl

theorem tailPart_lt (y : Mo) (post : List Mo) (b q : Int) (hp : ∀ w ∈ post, b < w.vaddr) (hq : q < b) :
    absL (tailPart y post b) q = none := by
  have hpost : absL post q = none := absL_none_of post q (fun w hw => Or.inl (by have := hp w hw; omega))
  unfold tailPart
  by_cases hc : y.contains b = true
  · simp only [hc, if_true]
    rw [absL_cons, trim_abs y b hc, hpost]
    have : ¬ b ≤ q := by omega
    simp [this]
  · simp only [hc]; exact hpost

theorem tailPart_wf (y : Mo) (post : List Mo) (b : Int) (wf : ZoneWF (y :: post)) (hp : ∀ w ∈ post, b < w.vaddr) :
    ZoneWF (tailPart y post b) ∧ ∀ w ∈ tailPart y post b, b ≤ w.vaddr := by
  obtain ⟨hy, hyp, wfp⟩ := (zoneWF_cons y post).mp wf
  unfold tailPart
  by_cases hc : y.contains b = true
  · simp only [hc, if_true]
    obtain ⟨t1, t2, t3⟩ := trim_props y b hc
    have hr := (contains_iff y b).mp hc
    constructor
    · rw [zoneWF_cons]
      refine ⟨?_, ?_, wfp⟩
      · have : (y.trim b).fin = (y.trim b).vaddr + ((y.trim b).len : Int) := rfl
        omega
      · intro w hw; rw [t2]; exact hyp w hw
    · intro w hw
      rcases List.mem_cons.mp hw with hw | hw
      · subst hw; omega
      · have := hp w hw; omega
  · simp only [hc]
    exact ⟨wfp, fun w hw => by have := hp w hw; omega⟩

/-- what replaces the object `x` in which (or after which) `z` starts. -/
def headPart (x z : Mo) : List Mo := if z.vaddr ≤ x.fin then writeL x z else [x, z]

theorem headPart_abs (x z : Mo) (h1 : x.vaddr ≤ z.vaddr) (q : Int) :
    absL (headPart x z) q = (absMo z q).or (absMo x q) := by
  unfold headPart
  by_cases h2 : z.vaddr ≤ x.fin
  · simp only [h2, if_true]; exact writeL_abs x z h1 q
  · simp only [h2, if_false]
    rw [absL_cons, absL_cons, absL_nil, Option.or_none]
    cases h : absMo x q with
    | none => simp
    | some d =>
      have := absMo_some_range x q d h
      rw [absMo_none_lt z q (by omega)]; simp

theorem headPart_wf (x z : Mo) (h1 : x.vaddr ≤ z.vaddr) (hx : 0 < x.len) (hz : 0 < z.len) :
    ZoneWF (headPart x z) ∧ ∀ w ∈ headPart x z, x.vaddr ≤ w.vaddr ∧ w.fin ≤ max x.fin z.fin := by
  unfold headPart
  by_cases h2 : z.vaddr ≤ x.fin
  · simp only [h2, if_true]; exact writeL_wf x z h1 hx hz
  · simp only [h2, if_false]
    have hfz := Mo.lt_fin z hz
    have hfx := Mo.lt_fin x hx
    refine ⟨?_, ?_⟩
    · rw [zoneWF_cons, zoneWF_cons]
      refine ⟨hx, ?_, hz, by simp, ZoneWF.nil⟩
      intro w hw; simp only [List.mem_singleton] at hw; subst hw; omega
    · intro w hw
      simp only [List.mem_cons, List.not_mem_nil, or_false] at hw
      rcases hw with hw | hw <;> subst hw <;> omega


theorem absMo_none_range (z : Mo) (q : Int) (h : absMo z q = none) : q < z.vaddr ∨ z.fin ≤ q := by
  by_cases h1 : z.vaddr ≤ q
  · by_cases h2 : q < z.fin
    · have := absMo_isSome z q h1 h2; rw [h] at this; cases this
    · right; omega
  · left; omega

theorem zoneWF_splice (pre H T : List Mo) (lo hi : Int) (hlh : lo ≤ hi)
    (wfp : ZoneWF pre) (wfH : ZoneWF H) (wfT : ZoneWF T)
    (h1 : ∀ p ∈ pre, p.fin ≤ lo) (h2 : ∀ w ∈ H, lo ≤ w.vaddr ∧ w.fin ≤ hi) (h3 : ∀ t ∈ T, hi ≤ t.vaddr) :
    ZoneWF (pre ++ H ++ T) := by
  rw [zoneWF_append, zoneWF_append]
  refine ⟨⟨wfp, wfH, ?_⟩, wfT, ?_⟩
  · intro a ha b hb; have := h1 a ha; have := (h2 b hb).1; omega
  · intro a ha b hb
    have := h3 b hb
    rcases List.mem_append.mp ha with ha | ha
    · have := h1 a ha; omega
    · have := (h2 a ha).2; omega

/-- `addtomap` on a well-formed zone: the result is well formed and is "z written over m". -/
theorem addtomapL_spec (m : List Mo) (z : Mo) (wf : ZoneWF m) (hz : 0 < z.len) :
    ZoneWF (addtomapL (starts m) m z) ∧
    ∀ q, absL (addtomapL (starts m) m z) q = (absMo z q).or (absL m q) := by
  have hab := Mo.lt_fin z hz
  cases hj : locate (starts m) z.fin with
  | none =>
    have hall := locateM_none m z.fin wf hj
    rw [addtomapL_none _ _ _ hj]
    refine ⟨?_, fun q => absL_cons z m q⟩
    rw [zoneWF_cons]
    exact ⟨hz, fun y hy => by have := hall y hy; omega, wf⟩
  | some j =>
    obtain ⟨A, y, post, hm, hlen, hyb, hpost⟩ := locateM_some m z.fin j wf hj
    subst hm
    subst hlen
    obtain ⟨wfA, wfyp, hAyp⟩ := (zoneWF_append A (y :: post)).mp wf
    obtain ⟨hy, hyp, wfp⟩ := (zoneWF_cons y post).mp wfyp
    have hyf := Mo.lt_fin y hy
    by_cases hya : y.vaddr ≤ z.vaddr
    · -- z starts in (or after) the object that holds z.end: j == i
      have hi : locate (starts (A ++ y :: post)) z.vaddr = some A.length :=
        locateM_of_decomp A y post z.vaddr wf hya (fun w hw => by have := hpost w hw; omega)
      rw [addtomapL_same _ _ _ _ _ hj hi]
      obtain ⟨wfH, hH⟩ := writeL_wf y z hya hy hz
      constructor
      · apply zoneWF_splice A (writeL y z) post y.vaddr (max y.fin z.fin) (by omega) wfA wfH wfp
        · intro p hp; exact hAyp p hp y List.mem_cons_self
        · exact hH
        · intro t ht; have := hpost t ht; have := hyp t ht; omega
      · intro q
        rw [absL_append, absL_append, absL_append, absL_cons, writeL_abs y z hya q]
        cases hzq : absMo z q with
        | none => simp [Option.or_assoc]
        | some d =>
          have hr := absMo_some_range z q d hzq
          have : absL A q = none := absL_none_of A q (fun p hp => Or.inr (by
            have := hAyp p hp y List.mem_cons_self; omega))
          rw [this]; simp
    · -- j != i
      have hgt : ∀ w ∈ y :: post, z.vaddr < w.vaddr := by
        intro w hw
        rcases List.mem_cons.mp hw with hw | hw
        · subst hw; omega
        · have := hpost w hw; omega
      have hiA := locateM_append_gt A (y :: post) z.vaddr wf hgt
      obtain ⟨wfT, hT⟩ := tailPart_wf y post z.fin wfyp hpost
      cases hi : locate (starts A) z.vaddr with
      | none =>
        have hallA := locateM_none A z.vaddr wfA hi
        rw [hi] at hiA
        rw [addtomapL_diff_none _ _ _ _ _ hj hiA]
        constructor
        · rw [zoneWF_cons]; exact ⟨hz, hT, wfT⟩
        · intro q
          rw [absL_cons, absL_append]
          cases hzq : absMo z q with
          | some d => simp
          | none =>
            simp only [Option.none_or]
            rcases absMo_none_range z q hzq with hq | hq
            · rw [tailPart_lt y post z.fin q hpost (by omega)]
              rw [absL_none_of A q (fun p hp => Or.inl (by have := hallA p hp; omega))]
              rw [absL_none_of (y :: post) q (fun p hp => Or.inl (by have := hgt p hp; omega))]
              rfl
            · rw [tailPart_ge y post z.fin q hyb hq]
              rw [absL_none_of A q (fun p hp => Or.inr (by
                have := hAyp p hp y List.mem_cons_self; omega))]
              rfl
      | some i =>
        rw [hi] at hiA
        obtain ⟨pre, x, mid, hA, hlen, hxa, hmid⟩ := locateM_some A z.vaddr i wfA hi
        subst hA
        subst hlen
        rw [addtomapL_diff_some _ _ _ _ _ _ _ hj hiA]
        have e : (if z.vaddr ≤ x.fin then writeL x z else [x, z]) = headPart x z := rfl
        rw [e]
        obtain ⟨wfpre, wfxm, hpxm⟩ := (zoneWF_append pre (x :: mid)).mp wfA
        obtain ⟨hx, hxm, wfmid⟩ := (zoneWF_cons x mid).mp wfxm
        obtain ⟨wfH, hH⟩ := headPart_wf x z hxa hx hz
        have hxy : x.fin ≤ y.vaddr := hAyp x (by simp) y List.mem_cons_self
        constructor
        · apply zoneWF_splice pre (headPart x z) (tailPart y post z.fin) x.vaddr z.fin (by omega) wfpre wfH wfT
          · intro p hp; exact hpxm p hp x List.mem_cons_self
          · intro w hw; have := hH w hw; omega
          · exact hT
        · intro q
          have hpre_ge : x.vaddr ≤ q → absL pre q = none := fun hq =>
            absL_none_of pre q (fun p hp => Or.inr (by have := hpxm p hp x List.mem_cons_self; omega))
          rw [absL_append, absL_append, headPart_abs x z hxa q]
          rw [absL_append, absL_append, absL_cons]
          cases hzq : absMo z q with
          | some d =>
            have hr := absMo_some_range z q d hzq
            rw [hpre_ge (by omega)]; simp
          | none =>
            simp only [Option.none_or]
            rcases absMo_none_range z q hzq with hq | hq
            · rw [tailPart_lt y post z.fin q hpost (by omega)]
              rw [absL_none_of mid q (fun p hp => Or.inl (by have := hmid p hp; omega))]
              rw [absL_none_of (y :: post) q (fun p hp => Or.inl (by have := hgt p hp; omega))]
              simp
            · rw [tailPart_ge y post z.fin q hyb hq]
              rw [absL_none_of mid q (fun p hp => Or.inr (by
                have := hAyp p (by simp [hp]) y List.mem_cons_self; omega))]
              simp



/-! ## read -/

/-- what a byte store returns for `n` bytes from `a`. -/
def window (f : ByteMap) (a : Int) (n : Nat) : List (Option ByteDesc) :=
  (List.range n).map (fun (k : Nat) => f (a + (k : Int)))

theorem window_length (f : ByteMap) (a : Int) (n : Nat) : (window f a n).length = n := by simp [window]

theorem window_getElem? (f : ByteMap) (a : Int) (n k : Nat) :
    (window f a n)[k]? = if k < n then some (f (a + (k : Int))) else none := by
  unfold window
  rw [List.getElem?_map]
  by_cases h : k < n
  · simp [h]
  · simp [h]

theorem window_add (f : ByteMap) (a : Int) (n1 n2 : Nat) :
    window f a (n1 + n2) = window f a n1 ++ window f (a + (n1 : Int)) n2 := by
  apply List.ext_getElem?
  intro k
  rw [List.getElem?_append, window_length, window_getElem?, window_getElem?, window_getElem?]
  by_cases h : k < n1
  · simp [h]; omega
  · simp only [h, if_false]
    by_cases h2 : k < n1 + n2
    · have : k - n1 < n2 := by omega
      simp only [h2, this, if_true]
      congr 2; omega
    · have : ¬ k - n1 < n2 := by omega
      simp [h2, this]

theorem window_congr (f g : ByteMap) (a : Int) (n : Nat) (h : ∀ k : Nat, k < n → f (a + (k : Int)) = g (a + (k : Int))) :
    window f a n = window g a n := by
  apply List.ext_getElem?
  intro k
  rw [window_getElem?, window_getElem?]
  by_cases hk : k < n
  · simp [hk, h k hk]
  · simp [hk]

theorem window_none (f : ByteMap) (a : Int) (n : Nat) (h : ∀ k : Nat, k < n → f (a + (k : Int)) = none) :
    window f a n = List.replicate n none := by
  apply List.ext_getElem?
  intro k
  rw [window_getElem?, List.getElem?_replicate]
  by_cases hk : k < n
  · simp [hk, h k hk]
  · simp [hk]

theorem window_zero (f : ByteMap) (a : Int) : window f a 0 = [] := by simp [window]

/-- the bytes of one object, seen through a window that lies inside it. -/
theorem window_mo (x : Mo) (a : Int) (n : Nat) (h1 : x.vaddr ≤ a) (h2 : a + (n : Int) ≤ x.fin) :
    window (absMo x) a n = ((x.data.memBytes.drop (a - x.vaddr).toNat).take n).map some := by
  apply List.ext_getElem?
  intro k
  rw [window_getElem?, List.getElem?_map, List.getElem?_take, List.getElem?_drop]
  by_cases hk : k < n
  · simp only [hk, if_true]
    rw [absMo_eq x _ (by omega)]
    have hlen := Mo.len_eq x
    have hf := Mo.fin_eq x
    have hi : (a + (k : Int) - x.vaddr).toNat < x.data.memBytes.length := by omega
    have e : (a - x.vaddr).toNat + k = (a + (k : Int) - x.vaddr).toNat := by omega
    rw [e, (List.getElem?_eq_some_getElem_iff hi).mpr trivial]; rfl
  · simp [hk]

theorem DD.getpart_spec (d : DD) (o l : Nat) (ho : o < d.len) :
    ∃ v, d.getpart o l = (some v, l - v.len) ∧ v.memBytes d.endian = (d.memBytes.drop o).take l := by
  cases h : (d.getpart o l).1 with
  | none => have := DD.getpart_none d o l h; omega
  | some v =>
    have hm := DD.getpart_fst d o l v h
    refine ⟨v, ?_, hm⟩
    have hvl : v.len = min l (d.len - o) := by
      rw [← Val.memBytes_length v d.endian, hm, List.length_take, List.length_drop, DD.memBytes_length]
    unfold DD.getpart at h ⊢
    by_cases hc : o = 0 ∧ l = d.len
    · simp only [hc, and_self, if_true] at h ⊢
      cases h
      simp [DD.len]
    · simp only [hc, if_false] at h ⊢
      cases hd : d.val with
      | raw bs =>
        simp only [hd] at h ⊢
        cases h
        simp [Val.len]
      | ex e =>
        simp only [hd] at h ⊢
        have : ¬ o ≥ d.len := by omega
        simp only [this, if_false] at h ⊢
        cases h
        simp [Val.len]


theorem flattenItems_cons (it : Item) (r : List Item) : flattenItems (it :: r) = it.flatten ++ flattenItems r := by
  simp [flattenItems]

theorem flattenItems_nil : flattenItems [] = [] := rfl

theorem window_cons_skip (x : Mo) (rest : List Mo) (a : Int) (n : Nat) (h : x.fin ≤ a) :
    window (absL (x :: rest)) a n = window (absL rest) a n := by
  apply window_congr
  intro k _
  rw [absL_cons, absMo_none_ge x _ (by omega)]; rfl

theorem readLoop_spec (l : List (Mo × Int)) (a : Int) (ll : Nat)
    (hc : ∀ p ∈ l, p.2 = p.1.vaddr) (wf : ZoneWF (l.map Prod.fst)) :
    flattenItems (readLoop l a ll) = window (absL (l.map Prod.fst)) a ll := by
  fun_induction readLoop l a ll with
  | case1 a ll h =>
    simp only [flattenItems_cons, flattenItems_nil, Item.flatten, List.append_nil]
    exact (window_none _ _ _ (fun k _ => rfl)).symm
  | case2 a ll h =>
    have : ll = 0 := by omega
    subst this; simp [flattenItems_nil, window_zero]
  | case3 x vi rest a =>
    simp [flattenItems_nil, window_zero]
  | case4 x vi rest a ll hll d ll' hr ih =>
    have hvi : vi = x.vaddr := hc (x, vi) List.mem_cons_self
    simp only [List.map_cons] at wf ⊢
    obtain ⟨hx, hxr, wfr⟩ := (zoneWF_cons x _).mp wf
    have ih := ih (fun p hp => hc p (List.mem_cons_of_mem _ hp)) wfr
    rw [flattenItems_cons, ih]
    -- the read hit x
    unfold Mo.read at hr
    by_cases hcx : x.contains a = true
    · simp only [hcx, if_true] at hr
      have hrange := (contains_iff x a).mp hcx
      have hf := Mo.fin_eq x
      have ho : (a - x.vaddr).toNat < x.data.len := by unfold Mo.len at hf; omega
      obtain ⟨v, hg, hm⟩ := DD.getpart_spec x.data (a - x.vaddr).toNat ll ho
      rw [hg] at hr
      cases hr
      have hvl : d.len = min ll (x.data.len - (a - x.vaddr).toNat) := by
        rw [← Val.memBytes_length d x.data.endian, hm, List.length_take, List.length_drop, DD.memBytes_length]
      have hsplit : ll = d.len + (ll - d.len) := by omega
      conv => rhs; rw [hsplit, window_add]
      congr 1
      · simp only [Item.flatten]
        have hw := window_mo x a d.len hrange.1 (by unfold Mo.len at hf; omega)
        have : window (absL (x :: List.map Prod.fst rest)) a d.len = window (absMo x) a d.len := by
          apply window_congr
          intro k hk
          rw [absL_cons]
          have := absMo_isSome x (a + k) (by omega) (by unfold Mo.len at hf; omega)
          rw [Option.or_of_isSome this]
        rw [this, hw, hm]
        congr 1
        have hL : (List.drop (a - x.vaddr).toNat x.data.memBytes).length = x.data.len - (a - x.vaddr).toNat := by
          rw [List.length_drop, DD.memBytes_length]
        apply List.ext_getElem?
        intro k
        rw [List.getElem?_take, List.getElem?_take]
        by_cases hk : k < d.len
        · have : k < ll := by omega
          simp [hk, this]
        · simp only [hk, if_false]
          by_cases hk2 : k < ll
          · simp only [hk2, if_true]
            rw [List.getElem?_eq_none_iff]; omega
          · simp [hk2]
      · by_cases hz : ll - d.len = 0
        · rw [hz, window_zero, window_zero]
        · rw [window_cons_skip]
          unfold Mo.len at hf; omega
    · simp [hcx] at hr
  | case5 x vi rest a ll hll _ hr hlt l ih =>
    have hvi : vi = x.vaddr := hc (x, vi) List.mem_cons_self
    have ih := ih hc wf
    rw [flattenItems_cons, ih]
    simp only [List.map_cons] at wf ⊢
    obtain ⟨hx, hxr, wfr⟩ := (zoneWF_cons x _).mp wf
    have hl : l = (min (a + ll) vi - a).toNat := rfl
    have hsplit : ll = l + (ll - l) := by omega
    conv => rhs; rw [hsplit, window_add]
    congr 1
    simp only [Item.flatten]
    symm
    apply window_none
    intro k hk
    apply absL_none_of
    intro o ho
    left
    rcases List.mem_cons.mp ho with ho | ho
    · subst ho; omega
    · have := hxr o ho; have := Mo.lt_fin x hx; omega
  | case6 x vi rest a ll hll _ hr hge ih =>
    have hvi : vi = x.vaddr := hc (x, vi) List.mem_cons_self
    simp only [List.map_cons] at wf ⊢
    obtain ⟨hx, hxr, wfr⟩ := (zoneWF_cons x _).mp wf
    have ih := ih (fun p hp => hc p (List.mem_cons_of_mem _ hp)) wfr
    rw [ih]
    symm
    apply window_cons_skip
    -- the read missed x and a ≥ x.vaddr, so a ≥ x.fin
    unfold Mo.read at hr
    by_cases hcx : x.contains a = true
    · simp only [hcx, if_true] at hr
      have hrange := (contains_iff x a).mp hcx
      have hf := Mo.fin_eq x
      have ho : (a - x.vaddr).toNat < x.data.len := by unfold Mo.len at hf; omega
      obtain ⟨v, hg, hm⟩ := DD.getpart_spec x.data (a - x.vaddr).toNat ll ho
      rw [hg] at hr
      cases hr
    · rw [contains_iff] at hcx; omega


def zipS (m : List Mo) : List (Mo × Int) := m.map (fun x => (x, x.vaddr))

theorem zip_starts (m : List Mo) : m.zip (starts m) = zipS m := by
  induction m with
  | nil => rfl
  | cons x m ih => simp only [starts, List.map_cons, List.zip_cons_cons, zipS] at ih ⊢; rw [ih]

theorem zipS_fst (m : List Mo) : (zipS m).map Prod.fst = m := by
  simp [zipS, Function.comp_def]

theorem zipS_snd (m : List Mo) : ∀ p ∈ zipS m, p.2 = p.1.vaddr := by
  intro p hp
  obtain ⟨x, _, rfl⟩ := List.mem_map.mp hp
  rfl

theorem readLoop_zipS (m : List Mo) (a : Int) (n : Nat) (wf : ZoneWF m) :
    flattenItems (readLoop (zipS m) a n) = window (absL m) a n := by
  have := readLoop_spec (zipS m) a n (zipS_snd m) (by rw [zipS_fst]; exact wf)
  rw [zipS_fst] at this; exact this

theorem readL_spec (m : List Mo) (a : Int) (n : Nat) (wf : ZoneWF m) :
    flattenItems (readL (starts m) m a n) = window (absL m) a n := by
  unfold readL
  cases hl : locate (starts m) a with
  | none =>
    have hall := locateM_none m a wf hl
    cases m with
    | nil =>
      simp only [flattenItems_cons, flattenItems_nil, Item.flatten, List.append_nil]
      exact (window_none _ _ _ (fun k _ => rfl)).symm
    | cons x0 rest =>
      simp only
      have h0 := hall x0 List.mem_cons_self
      obtain ⟨hx, hxr, wfr⟩ := (zoneWF_cons x0 rest).mp wf
      have hnone : ∀ k : Nat, a + (k : Int) < x0.vaddr → absL (x0 :: rest) (a + (k : Int)) = none := by
        intro k hk
        apply absL_none_of
        intro o ho
        left
        rcases List.mem_cons.mp ho with ho | ho
        · subst ho; exact hk
        · have := hxr o ho; have := Mo.lt_fin x0 hx; omega
      by_cases hv : x0.vaddr < a + (n : Int)
      · simp only [hv, if_true]
        rw [flattenItems_cons, zip_starts, readLoop_zipS _ _ _ wf]
        have hsplit : n = (x0.vaddr - a).toNat + (a + (n : Int) - x0.vaddr).toNat := by omega
        conv => rhs; rw [hsplit, window_add]
        congr 1
        · simp only [Item.flatten]
          exact (window_none _ _ _ (fun k hk => hnone k (by omega))).symm
        · congr 1; omega
      · simp only [hv, if_false, flattenItems_cons, flattenItems_nil, Item.flatten, List.append_nil]
        exact (window_none _ _ _ (fun k hk => hnone k (by omega))).symm
  | some i =>
    obtain ⟨pre, x, post, hm, hlen, hxa, hpost⟩ := locateM_some m a i wf hl
    subst hm
    subst hlen
    simp only
    rw [zip_starts]
    have : List.drop pre.length (zipS (pre ++ x :: post)) = zipS (x :: post) := by
      unfold zipS; rw [← List.map_drop, drop_len]
    rw [this]
    obtain ⟨wfp, wfxp, hpx⟩ := (zoneWF_append pre (x :: post)).mp wf
    rw [readLoop_zipS _ _ _ wfxp]
    apply window_congr
    intro k _
    rw [absL_append, absL_none_of pre _ (fun p hp => Or.inr (by have := hpx p hp x List.mem_cons_self; omega))]
    rfl



/-! ## restruct -/

theorem merge_raw_abs (cur z : Mo) (a b : List Nat) (ha : cur.data.val = .raw a) (hb : z.data.val = .raw b)
    (hz : z.vaddr = cur.fin) (q : Int) :
    absMo { cur with data := { cur.data with val := .raw (a ++ b) } } q = (absMo cur q).or (absMo z q) := by
  have hM : cur.data.memBytes = a.map ByteDesc.raw := by simp [DD.memBytes, ha, Val.memBytes]
  have hN : z.data.memBytes = b.map ByteDesc.raw := by simp [DD.memBytes, hb, Val.memBytes]
  have hlen : cur.len = a.length := by rw [Mo.len_eq, hM, List.length_map]
  have hf := Mo.fin_eq cur
  by_cases hq : cur.vaddr ≤ q
  · have e1 : absMo { cur with data := { cur.data with val := .raw (a ++ b) } } q =
        (a.map ByteDesc.raw ++ b.map ByteDesc.raw)[(q - cur.vaddr).toNat]? := by
      unfold absMo; simp [hq, DD.memBytes, Val.memBytes]
    rw [e1, absMo_eq cur q hq, hM]
    by_cases hi : (q - cur.vaddr).toNat < (a.map ByteDesc.raw).length
    · rw [List.getElem?_append_left hi, (List.getElem?_eq_some_getElem_iff hi).mpr trivial]; rfl
    · have hn : (List.map ByteDesc.raw a)[(q - cur.vaddr).toNat]? = none :=
        List.getElem?_eq_none_iff.mpr (by omega)
      rw [List.getElem?_append_right (by omega), hn, Option.none_or]
      simp only [List.length_map] at hi ⊢
      rw [absMo_eq z q (by omega), hN]
      congr 1
      omega
  · rw [absMo_none_lt _ q (by simp only; omega), absMo_none_lt cur q (by omega), absMo_none_lt z q (by omega)]; rfl

theorem restructGo_abs (cur : Mo) (rest : List Mo) (q : Int) :
    absL (restructGo cur rest) q = absL (cur :: rest) q := by
  induction rest generalizing cur with
  | nil => rfl
  | cons z rest ih =>
    unfold restructGo
    split
    · rename_i a b ha hb
      by_cases hz : z.vaddr = cur.fin
      · simp only [hz, if_true]
        rw [ih, absL_cons, merge_raw_abs cur z a b ha hb hz q, absL_cons, absL_cons, Option.or_assoc]
      · simp only [hz, if_false]
        rw [absL_cons, ih, absL_cons, absL_cons, absL_cons]
    · rw [absL_cons, ih, absL_cons, absL_cons, absL_cons]

theorem restructGo_vaddr (cur : Mo) (rest : List Mo) :
    ∀ w ∈ restructGo cur rest, ∃ o ∈ cur :: rest, w.vaddr = o.vaddr := by
  induction rest generalizing cur with
  | nil => intro w hw; simp [restructGo] at hw; exact ⟨cur, List.mem_cons_self, by rw [hw]⟩
  | cons z rest ih =>
    intro w hw
    unfold restructGo at hw
    split at hw
    · rename_i a b ha hb
      by_cases hz : z.vaddr = cur.fin
      · simp only [hz, if_true] at hw
        obtain ⟨o, ho, e⟩ := ih _ w hw
        rcases List.mem_cons.mp ho with ho | ho
        · subst ho; exact ⟨cur, List.mem_cons_self, e⟩
        · exact ⟨o, List.mem_cons_of_mem _ (List.mem_cons_of_mem _ ho), e⟩
      · simp only [hz, if_false] at hw
        rcases List.mem_cons.mp hw with hw | hw
        · exact ⟨cur, List.mem_cons_self, by rw [hw]⟩
        · obtain ⟨o, ho, e⟩ := ih _ w hw
          exact ⟨o, List.mem_cons_of_mem _ ho, e⟩
    · rcases List.mem_cons.mp hw with hw | hw
      · exact ⟨cur, List.mem_cons_self, by rw [hw]⟩
      · obtain ⟨o, ho, e⟩ := ih _ w hw
        exact ⟨o, List.mem_cons_of_mem _ ho, e⟩

theorem restructGo_wf (cur : Mo) (rest : List Mo) (wf : ZoneWF (cur :: rest)) : ZoneWF (restructGo cur rest) := by
  induction rest generalizing cur with
  | nil => exact wf
  | cons z rest ih =>
    obtain ⟨hc, hcr, wfr⟩ := (zoneWF_cons cur _).mp wf
    obtain ⟨hzl, hzr, wfr'⟩ := (zoneWF_cons z _).mp wfr
    have keep : ZoneWF (cur :: restructGo z rest) := by
      rw [zoneWF_cons]
      refine ⟨hc, ?_, ih z wfr⟩
      intro w hw
      obtain ⟨o, ho, e⟩ := restructGo_vaddr z rest w hw
      rw [e]; exact hcr o ho
    unfold restructGo
    split
    · rename_i a b ha hb
      by_cases hz : z.vaddr = cur.fin
      · simp only [hz, if_true]
        apply ih
        rw [zoneWF_cons]
        have hla : cur.len = a.length := by simp [Mo.len, DD.len, ha, Val.len]
        have hlb : z.len = b.length := by simp [Mo.len, DD.len, hb, Val.len]
        have hf1 := Mo.fin_eq cur
        have hf2 := Mo.fin_eq z
        refine ⟨?_, ?_, wfr'⟩
        · simp only [Mo.len, DD.len, Val.len, List.length_append]; omega
        · intro y hy
          have := hzr y hy
          simp only [Mo.fin, DD.len, Val.len, List.length_append]
          omega
      · simp only [hz, if_false]; exact keep
    · exact keep

theorem restructL_abs (m : List Mo) (q : Int) : absL (restructL m) q = absL m q := by
  cases m with
  | nil => rfl
  | cons x rest => exact restructGo_abs x rest q

theorem restructL_wf (m : List Mo) (wf : ZoneWF m) : ZoneWF (restructL m) := by
  cases m with
  | nil => exact wf
  | cons x rest => exact restructGo_wf x rest wf

/-! ## shift / copy -/

def shiftL (m : List Mo) (off : Int) : List Mo := m.map (fun o => { o with vaddr := o.vaddr + off })

theorem shiftL_abs (m : List Mo) (off q : Int) : absL (shiftL m off) q = absL m (q - off) := by
  induction m with
  | nil => rfl
  | cons x m ih =>
    simp only [shiftL, List.map_cons] at ih ⊢
    rw [absL_cons, absL_cons, ih]
    congr 1
    unfold absMo
    simp only
    by_cases h : x.vaddr + off ≤ q
    · have : x.vaddr ≤ q - off := by omega
      simp only [h, this, if_true]; congr 1; omega
    · have : ¬ x.vaddr ≤ q - off := by omega
      simp [h, this]

theorem shiftL_wf (m : List Mo) (off : Int) (wf : ZoneWF m) : ZoneWF (shiftL m off) := by
  induction m with
  | nil => exact wf
  | cons x m ih =>
    obtain ⟨hx, hxm, wfm⟩ := (zoneWF_cons x m).mp wf
    simp only [shiftL, List.map_cons] at ih ⊢
    rw [zoneWF_cons]
    refine ⟨hx, ?_, ih wfm⟩
    intro y hy
    obtain ⟨o, ho, rfl⟩ := List.mem_map.mp hy
    have := hxm o ho
    simp only [Mo.fin] at this ⊢; omega

theorem copy_absMo (o : Mo) (q : Int) : absMo o.copy q = absMo o q := by
  unfold absMo Mo.copy
  rw [Mo.new_vaddr, Mo.new_memBytes]; rfl

theorem copy_len (o : Mo) : o.copy.len = o.len := by unfold Mo.copy; rw [Mo.new_len]; rfl
theorem copy_vaddr (o : Mo) : o.copy.vaddr = o.vaddr := rfl
theorem copy_fin (o : Mo) : o.copy.fin = o.fin := by rw [Mo.fin_eq, Mo.fin_eq, copy_len, copy_vaddr]

theorem copyL_abs (m : List Mo) (q : Int) : absL (m.map Mo.copy) q = absL m q := by
  induction m with
  | nil => rfl
  | cons x m ih => rw [List.map_cons, absL_cons, absL_cons, ih, copy_absMo]

theorem copyL_wf (m : List Mo) (wf : ZoneWF m) : ZoneWF (m.map Mo.copy) := by
  induction m with
  | nil => exact wf
  | cons x m ih =>
    obtain ⟨hx, hxm, wfm⟩ := (zoneWF_cons x m).mp wf
    rw [List.map_cons, zoneWF_cons]
    refine ⟨by rw [copy_len]; exact hx, ?_, ih wfm⟩
    intro y hy
    obtain ⟨o, ho, rfl⟩ := List.mem_map.mp hy
    rw [copy_fin, copy_vaddr]; exact hxm o ho

/-! ## checker -/

theorem wfAdj_sound (m : List Mo) (h : wfAdj m = true) : ZoneWF m := by
  induction m with
  | nil => exact ZoneWF.nil
  | cons x m ih =>
    cases m with
    | nil =>
      simp only [wfAdj, decide_eq_true_eq] at h
      rw [zoneWF_cons]; exact ⟨h, by simp, ZoneWF.nil⟩
    | cons y rest =>
      simp only [wfAdj, Bool.and_eq_true, decide_eq_true_eq] at h
      obtain ⟨⟨h1, h2⟩, h3⟩ := h
      have wfy := ih h3
      obtain ⟨hy, hyr, _⟩ := (zoneWF_cons y rest).mp wfy
      rw [zoneWF_cons]
      refine ⟨h1, ?_, wfy⟩
      intro w hw
      rcases List.mem_cons.mp hw with hw | hw
      · subst hw; exact h2
      · have := hyr w hw; have := Mo.lt_fin y hy; omega

theorem wfAdj_complete (m : List Mo) (wf : ZoneWF m) : wfAdj m = true := by
  induction m with
  | nil => rfl
  | cons x m ih =>
    obtain ⟨hx, hxm, wfm⟩ := (zoneWF_cons x m).mp wf
    cases m with
    | nil => simp [wfAdj, hx]
    | cons y rest =>
      simp only [wfAdj, Bool.and_eq_true, decide_eq_true_eq]
      exact ⟨⟨hx, hxm y List.mem_cons_self⟩, ih wfm⟩



/-! ## zones (map + cache) -/

def Zone.WF (z : Zone) : Prop := ZoneWF z.map ∧ z.cache = starts z.map

theorem Zone.empty_wf : Zone.empty.WF := ⟨ZoneWF.nil, rfl⟩

theorem Zone.updateCache_wf (m : List Mo) (h : ZoneWF m) : (Zone.updateCache m).WF := ⟨h, rfl⟩

theorem Zone.check_sound (z : Zone) (h : z.check = true) : z.WF := by
  simp only [Zone.check, Bool.and_eq_true, beq_iff_eq] at h
  exact ⟨wfAdj_sound z.map h.1, h.2⟩

theorem Zone.check_complete (z : Zone) (h : z.WF) : z.check = true := by
  simp only [Zone.check, Bool.and_eq_true, beq_iff_eq]
  exact ⟨wfAdj_complete z.map h.1, h.2⟩

theorem Zone.addtomap_spec (z : Zone) (o : Mo) (wf : z.WF) (ho : 0 < o.len) :
    (z.addtomap o).WF ∧ (z.addtomap o).abs = override z.abs (absMo o) := by
  obtain ⟨h1, h2⟩ := wf
  unfold Zone.addtomap
  rw [h2]
  obtain ⟨w, a⟩ := addtomapL_spec z.map o h1 ho
  refine ⟨Zone.updateCache_wf _ w, ?_⟩
  funext q
  exact a q

theorem Zone.restruct_spec (z : Zone) (wf : z.WF) : z.restruct.WF ∧ z.restruct.abs = z.abs := by
  unfold Zone.restruct
  cases h : z.map with
  | nil => exact ⟨wf, rfl⟩
  | cons x rest =>
    simp only
    rw [← h]
    refine ⟨Zone.updateCache_wf _ (restructL_wf _ wf.1), ?_⟩
    funext q; exact restructL_abs z.map q

theorem Zone.shift_spec (z : Zone) (off : Int) (wf : z.WF) :
    (z.shift off).WF ∧ (z.shift off).abs = fun q => z.abs (q - off) := by
  refine ⟨Zone.updateCache_wf _ (shiftL_wf _ off wf.1), ?_⟩
  funext q; exact shiftL_abs z.map off q

theorem Zone.copy_spec (z : Zone) (wf : ZoneWF z.map) : z.copy.WF ∧ z.copy.abs = z.abs := by
  unfold Zone.copy Zone.restruct
  cases h : z.map.map Mo.copy with
  | nil =>
    simp only
    have : z.map = [] := by simpa using h
    refine ⟨⟨ZoneWF.nil, rfl⟩, ?_⟩
    funext q; simp [Zone.abs, this]
  | cons x rest =>
    simp only
    rw [← h]
    refine ⟨Zone.updateCache_wf _ (restructL_wf _ (copyL_wf _ wf)), ?_⟩
    funext q
    simp only [Zone.abs, Zone.updateCache]
    rw [restructL_abs, copyL_abs]

theorem mergeL_spec (l : List Mo) (z : Zone) (wf : z.WF) (wfl : ZoneWF l) :
    (l.foldl Zone.addtomap z).WF ∧ (l.foldl Zone.addtomap z).abs = override z.abs (absL l) := by
  induction l generalizing z with
  | nil =>
    refine ⟨wf, ?_⟩
    funext q; simp [override, absL_nil]
  | cons o l ih =>
    obtain ⟨ho, hol, wfl'⟩ := (zoneWF_cons o l).mp wfl
    obtain ⟨w1, a1⟩ := Zone.addtomap_spec z o wf ho
    obtain ⟨w2, a2⟩ := ih (z.addtomap o) w1 wfl'
    rw [List.foldl_cons]
    refine ⟨w2, ?_⟩
    rw [a2, a1]
    funext q
    simp only [override, absL_cons]
    cases h : absMo o q with
    | none => simp
    | some d =>
      have hr := absMo_some_range o q d h
      have : absL l q = none := absL_none_of l q (fun w hw => Or.inl (by have := hol w hw; omega))
      rw [this]; simp

theorem Zone.mergeWith_spec (z other : Zone) (wf : z.WF) (wfo : ZoneWF other.map) :
    (z.mergeWith other).WF ∧ (z.mergeWith other).abs = override z.abs other.abs :=
  mergeL_spec other.map z wf wfo

theorem Zone.read_spec (z : Zone) (a : Int) (n : Nat) (wf : z.WF) :
    flattenItems (z.read a n) = window z.abs a n := by
  unfold Zone.read; rw [wf.2]; exact readL_spec z.map a n wf.1



/-! ## histories -/

/-- the bytes a write `(a, v, en)` puts into memory. -/
def absWrite (a : Int) (v : Val) (en : Endian) : ByteMap := fun q =>
  if a ≤ q then (v.memBytes en)[(q - a).toNat]? else none

theorem absMo_new (a : Int) (v : Val) (en : Endian) : absMo (Mo.new a v en) = absWrite a v en := by
  funext q
  unfold absMo absWrite
  rw [Mo.new_vaddr, Mo.new_memBytes]

abbrev WriteOp := Int × Val × Endian

/-- most recent write of `ws` (oldest first) covering `q`. -/
def lastWrite (ws : List WriteOp) (q : Int) : Option ByteDesc :=
  ws.reverse.findSome? (fun w => absWrite w.1 w.2.1 w.2.2 q)

def specWrites (ws : List WriteOp) (f : ByteMap) : ByteMap :=
  ws.foldl (fun f w => override f (absWrite w.1 w.2.1 w.2.2)) f

theorem specWrites_eq (ws : List WriteOp) (f : ByteMap) (q : Int) :
    specWrites ws f q = (lastWrite ws q).or (f q) := by
  induction ws generalizing f with
  | nil => simp [specWrites, lastWrite]
  | cons w ws ih =>
    have : specWrites (w :: ws) f = specWrites ws (override f (absWrite w.1 w.2.1 w.2.2)) := rfl
    rw [this, ih]
    simp only [lastWrite, List.reverse_cons, List.findSome?_append, List.findSome?_cons, List.findSome?_nil,
      override]
    cases h : absWrite w.1 w.2.1 w.2.2 q <;> simp

/-- byte-store meaning of one zone operation. -/
def ZOp.spec (f : ByteMap) : ZOp → ByteMap
  | .write a v en => override f (absWrite a v en)
  | .restruct => f
  | .copy => f
  | .shift off => fun q => f (q - off)
  | .merge ws => override f (specWrites ws (fun _ => none))

def specZone (ops : List ZOp) : ByteMap := ops.foldl ZOp.spec (fun _ => none)

/-- writes are non-empty. -/
def ZOp.ok : ZOp → Prop
  | .write _ v _ => 0 < v.len
  | .merge ws => ∀ w ∈ ws, 0 < w.2.1.len
  | _ => True

theorem Zone.write_spec (z : Zone) (a : Int) (v : Val) (en : Endian) (wf : z.WF) (hv : 0 < v.len) :
    (z.write a v en).WF ∧ (z.write a v en).abs = override z.abs (absWrite a v en) := by
  have := Zone.addtomap_spec z (Mo.new a v en) wf (by rw [Mo.new_len]; exact hv)
  rw [absMo_new] at this
  exact this

theorem writesZone_spec (ws : List WriteOp) (z : Zone) (wf : z.WF) (h : ∀ w ∈ ws, 0 < w.2.1.len) :
    (ws.foldl (fun z w => z.write w.1 w.2.1 w.2.2) z).WF ∧
    (ws.foldl (fun z w => z.write w.1 w.2.1 w.2.2) z).abs = specWrites ws z.abs := by
  induction ws generalizing z with
  | nil => exact ⟨wf, rfl⟩
  | cons w ws ih =>
    obtain ⟨w1, a1⟩ := Zone.write_spec z w.1 w.2.1 w.2.2 wf (h w List.mem_cons_self)
    obtain ⟨w2, a2⟩ := ih (z.write w.1 w.2.1 w.2.2) w1 (fun w' hw' => h w' (List.mem_cons_of_mem _ hw'))
    rw [List.foldl_cons]
    refine ⟨w2, ?_⟩
    rw [a2, a1]; rfl

theorem ZOp.apply_spec (z : Zone) (op : ZOp) (wf : z.WF) (h : op.ok) :
    (op.apply z).WF ∧ (op.apply z).abs = op.spec z.abs := by
  cases op with
  | write a v en => exact Zone.write_spec z a v en wf h
  | restruct => exact Zone.restruct_spec z wf
  | copy => exact Zone.copy_spec z wf.1
  | shift off => exact Zone.shift_spec z off wf
  | merge ws =>
    obtain ⟨w1, a1⟩ := writesZone_spec ws Zone.empty Zone.empty_wf h
    have := Zone.mergeWith_spec z (writesZone ws) wf w1.1
    refine ⟨this.1, ?_⟩
    show (z.mergeWith (writesZone ws)).abs = override z.abs (specWrites ws (fun _ => none))
    rw [this.2]
    congr 1

theorem runFrom_spec (ops : List ZOp) (z : Zone) (wf : z.WF) (h : ∀ op ∈ ops, op.ok) :
    (ops.foldl ZOp.apply z).WF ∧ (ops.foldl ZOp.apply z).abs = ops.foldl ZOp.spec z.abs := by
  induction ops generalizing z with
  | nil => exact ⟨wf, rfl⟩
  | cons op ops ih =>
    obtain ⟨w1, a1⟩ := ZOp.apply_spec z op wf (h op List.mem_cons_self)
    obtain ⟨w2, a2⟩ := ih (op.apply z) w1 (fun o ho => h o (List.mem_cons_of_mem _ ho))
    rw [List.foldl_cons, List.foldl_cons]
    exact ⟨w2, by rw [a2, a1]⟩



/-! ## MemoryMap -/

def MMap.WF (mm : MMap) : Prop := (∀ kz ∈ mm.zones, kz.2.WF) ∧ (mm.zones.map Prod.fst).Nodup

/-- content of the zone with key `k` (nothing when the zone does not exist). -/
def MMap.absK (mm : MMap) (k : ZKey) : ByteMap :=
  match mm.getZone k with
  | some z => z.abs
  | none => fun _ => none

theorem MMap.empty_wf : MMap.empty.WF := by
  constructor
  · intro kz h
    simp only [MMap.empty, List.mem_singleton] at h
    subst h; exact Zone.empty_wf
  · simp [MMap.empty]

theorem MMap.getZone_mem (mm : MMap) (k : ZKey) (z : Zone) (h : mm.getZone k = some z) : (k, z) ∈ mm.zones := by
  unfold MMap.getZone at h
  cases hf : mm.zones.find? (fun kz => kz.1 == k) with
  | none => rw [hf] at h; cases h
  | some kz =>
    rw [hf] at h
    simp only [Option.map_some, Option.some.injEq] at h
    have h1 := List.find?_some hf
    have h2 := List.mem_of_find?_eq_some hf
    simp only [beq_iff_eq] at h1
    rw [← h1, ← h]; exact h2

theorem MMap.getZone_wf (mm : MMap) (k : ZKey) (z : Zone) (wf : mm.WF) (h : mm.getZone k = some z) : z.WF :=
  wf.1 (k, z) (MMap.getZone_mem mm k z h)

theorem MMap.getZone_none (mm : MMap) (k : ZKey) (h : mm.getZone k = none) : ∀ kz ∈ mm.zones, kz.1 ≠ k := by
  unfold MMap.getZone at h
  simp only [Option.map_eq_none_iff, List.find?_eq_none, beq_iff_eq] at h
  exact h

theorem MMap.getZone_setZone (mm : MMap) (k k' : ZKey) (z : Zone) :
    (mm.setZone k z).getZone k' = if k' = k then some z else mm.getZone k' := by
  unfold MMap.setZone
  by_cases hany : mm.zones.any (fun kz => kz.1 == k) = true
  · simp only [hany, if_true]
    unfold MMap.getZone
    simp only [List.find?_map]
    have hcomp : ((fun kz : ZKey × Zone => kz.1 == k') ∘ fun kz : ZKey × Zone => if (kz.1 == k) = true then (k, z) else kz)
        = fun kz => kz.1 == k' := by
      funext kz
      simp only [Function.comp]
      by_cases h : (kz.1 == k) = true
      · simp only [h, if_true]; simp only [beq_iff_eq] at h; rw [h]
      · simp [h]
    rw [hcomp]
    by_cases hk : k' = k
    · subst hk
      simp only [if_true]
      cases hf : mm.zones.find? (fun kz => kz.1 == k') with
      | none =>
        simp only [List.find?_eq_none] at hf
        simp only [List.any_eq_true] at hany
        obtain ⟨kz, hm, hb⟩ := hany
        exact absurd hb (hf kz hm)
      | some kz =>
        have := List.find?_some hf
        simp only [beq_iff_eq] at this
        simp [this]
    · simp only [hk, if_false]
      cases hf : mm.zones.find? (fun kz => kz.1 == k') with
      | none => rfl
      | some kz =>
        have h1 := List.find?_some hf
        simp only [beq_iff_eq] at h1
        have : ¬ kz.1 = k := by rw [h1]; exact hk
        simp [this]
  · simp only [hany]
    unfold MMap.getZone
    simp only [Bool.false_eq_true, if_false, List.find?_append]
    have hnone : mm.zones.find? (fun kz => kz.1 == k) = none := by
      simp only [List.find?_eq_none]
      intro kz hm hb
      apply hany
      simp only [List.any_eq_true]
      exact ⟨kz, hm, hb⟩
    by_cases hk : k' = k
    · subst hk
      simp [hnone]
    · have : ¬ (k == k') = true := by simp only [beq_iff_eq]; exact fun h => hk h.symm
      simp [hk, this]

theorem MMap.setZone_wf (mm : MMap) (k : ZKey) (z : Zone) (wf : mm.WF) (hz : z.WF) : (mm.setZone k z).WF := by
  unfold MMap.setZone
  by_cases hany : mm.zones.any (fun kz => kz.1 == k) = true
  · simp only [hany, if_true]
    constructor
    · intro kz hkz
      simp only [List.mem_map] at hkz
      obtain ⟨kz0, hm, rfl⟩ := hkz
      by_cases h : (kz0.1 == k) = true
      · simp only [h, if_true]; exact hz
      · simp only [h]; exact wf.1 kz0 hm
    · have : (mm.zones.map (fun kz => if (kz.1 == k) = true then (k, z) else kz)).map Prod.fst = mm.zones.map Prod.fst := by
        rw [List.map_map]
        apply List.map_congr_left
        intro kz _
        simp only [Function.comp]
        by_cases h : (kz.1 == k) = true
        · simp only [h, if_true]; simp only [beq_iff_eq] at h; exact h.symm
        · simp [h]
      simp only
      rw [this]; exact wf.2
  · simp only [hany]
    simp only [Bool.false_eq_true, if_false]
    constructor
    · intro kz hkz
      rcases List.mem_append.mp hkz with h | h
      · exact wf.1 kz h
      · simp only [List.mem_singleton] at h; subst h; exact hz
    · simp only [List.map_append, List.map_cons, List.map_nil]
      rw [List.nodup_append]
      refine ⟨wf.2, by simp, ?_⟩
      intro a ha b hb
      simp only [List.mem_singleton] at hb
      subst hb
      intro hab
      subst hab
      obtain ⟨kz, hm, hk⟩ := List.mem_map.mp ha
      apply hany
      simp only [List.any_eq_true, beq_iff_eq]
      exact ⟨kz, hm, hk⟩

theorem MMap.absK_setZone (mm : MMap) (k k' : ZKey) (z : Zone) :
    (mm.setZone k z).absK k' = if k' = k then z.abs else mm.absK k' := by
  unfold MMap.absK
  rw [MMap.getZone_setZone]
  by_cases h : k' = k <;> simp [h]



theorem override_none_left (g : ByteMap) : override (fun _ => none) g = g := by
  funext q; simp [override]

theorem override_none_right (f : ByteMap) : override f (fun _ => none) = f := by
  funext q; simp [override]

theorem Zone.empty_abs : Zone.empty.abs = fun _ => none := rfl

/-- the zone a write goes to. -/
theorem MMap.getD_wf (mm : MMap) (r : ZKey) (wf : mm.WF) :
    ((mm.getZone r).getD Zone.empty).WF ∧ ((mm.getZone r).getD Zone.empty).abs = mm.absK r := by
  unfold MMap.absK
  cases h : mm.getZone r with
  | none => exact ⟨Zone.empty_wf, rfl⟩
  | some z => exact ⟨MMap.getZone_wf mm r z wf h, rfl⟩

theorem MMap.write_spec (mm : MMap) (addr : Addr) (v : Val) (en : Endian) (r : ZKey) (d : Bool) (o : Int)
    (wf : mm.WF) (href : reference addr = .ok (r, d, o)) (hd : r.isSome = true → d = true) (hv : 0 < v.len) :
    ∃ mm', mm.write addr v en = .ok mm' ∧ mm'.WF ∧
      ∀ k, mm'.absK k = if k = r then override (mm.absK r) (absWrite o v en) else mm.absK k := by
  obtain ⟨wz, az⟩ := MMap.getD_wf mm r wf
  obtain ⟨w1, a1⟩ := Zone.write_spec _ o v en wz hv
  have hcond : (r.isSome && !d) = false := by
    cases hr : r.isSome with
    | false => rfl
    | true => simp [hd hr]
  refine ⟨mm.setZone r (((mm.getZone r).getD Zone.empty).write o v en), ?_, MMap.setZone_wf _ _ _ wf w1, ?_⟩
  · unfold MMap.write
    simp only [href, hcond, Bool.false_eq_true, if_false]
  · intro k
    rw [MMap.absK_setZone, a1, az]

theorem MMap.write_error (mm : MMap) (addr : Addr) (v : Val) (en : Endian)
    (h : match reference addr with
         | .error _ => True
         | .ok (r, d, _) => r.isSome = true ∧ d = false) :
    mm.write addr v en = .error .memoryError := by
  unfold MMap.write
  cases hr : reference addr with
  | error e => cases e; rfl
  | ok x =>
    obtain ⟨r, d, o⟩ := x
    rw [hr] at h
    simp only at h ⊢
    simp [h.1, h.2]

theorem MMap.read_spec (mm : MMap) (addr : Addr) (n : Nat) (r : ZKey) (d : Bool) (o : Int)
    (wf : mm.WF) (href : reference addr = .ok (r, d, o)) :
    match mm.getZone r with
    | some _ => ∃ items, mm.read addr n = .ok items ∧ flattenItems items = window (mm.absK r) o n
    | none => mm.read addr n = .error .memoryError ∧ mm.absK r = fun _ => none := by
  unfold MMap.read MMap.absK
  simp only [href]
  cases h : mm.getZone r with
  | none => exact ⟨rfl, rfl⟩
  | some z =>
    simp only
    exact ⟨_, rfl, Zone.read_spec z o n (MMap.getZone_wf mm r z wf h)⟩

/-! ### whole-map operations -/

/-- content of key `k` in an association list of zones. -/
def absKL (l : List (ZKey × Zone)) (k : ZKey) : ByteMap :=
  match l.find? (fun kz => kz.1 == k) with
  | some kz => kz.2.abs
  | none => fun _ => none

theorem MMap.absK_eq (mm : MMap) (k : ZKey) : mm.absK k = absKL mm.zones k := by
  unfold MMap.absK MMap.getZone absKL
  cases mm.zones.find? (fun kz => kz.1 == k) <;> rfl

theorem absKL_cons (kz : ZKey × Zone) (l : List (ZKey × Zone)) (k : ZKey) :
    absKL (kz :: l) k = if kz.1 = k then kz.2.abs else absKL l k := by
  unfold absKL
  rw [List.find?_cons]
  by_cases h : kz.1 = k
  · simp [h]
  · have : (kz.1 == k) = false := by simp [h]
    simp [this, h]

theorem absKL_not_mem (l : List (ZKey × Zone)) (k : ZKey) (h : k ∉ l.map Prod.fst) : absKL l k = fun _ => none := by
  unfold absKL
  have : l.find? (fun kz => kz.1 == k) = none := by
    simp only [List.find?_eq_none, beq_iff_eq]
    intro kz hm hk
    exact h (List.mem_map.mpr ⟨kz, hm, hk⟩)
  rw [this]

theorem MMap.restruct_spec (mm : MMap) (wf : mm.WF) : mm.restruct.WF ∧ ∀ k, mm.restruct.absK k = mm.absK k := by
  unfold MMap.restruct
  constructor
  · constructor
    · intro kz hkz
      simp only [List.mem_map] at hkz
      obtain ⟨kz0, hm, rfl⟩ := hkz
      exact (Zone.restruct_spec kz0.2 (wf.1 kz0 hm)).1
    · simp only [List.map_map]
      have : (Prod.fst ∘ fun kz : ZKey × Zone => (kz.1, kz.2.restruct)) = Prod.fst := by funext kz; rfl
      rw [this]; exact wf.2
  · intro k
    rw [MMap.absK_eq, MMap.absK_eq]
    simp only
    have hz := wf.1
    generalize mm.zones = l at hz
    induction l with
    | nil => rfl
    | cons kz l ih =>
      rw [List.map_cons, absKL_cons, absKL_cons, ih (fun kz' h => hz kz' (List.mem_cons_of_mem _ h))]
      simp only
      rw [(Zone.restruct_spec kz.2 (hz kz List.mem_cons_self)).2]

theorem copyFold_spec (l : List (ZKey × Zone)) (acc : MMap) (wfa : acc.WF)
    (hl : ∀ kz ∈ l, ZoneWF kz.2.map) (hn : (l.map Prod.fst).Nodup) :
    (l.foldl (fun acc kz => acc.setZone kz.1 kz.2.copy) acc).WF ∧
    ∀ k, (l.foldl (fun acc kz => acc.setZone kz.1 kz.2.copy) acc).absK k =
      if k ∈ l.map Prod.fst then absKL l k else acc.absK k := by
  induction l generalizing acc with
  | nil => exact ⟨wfa, fun k => by simp⟩
  | cons kz l ih =>
    obtain ⟨wc, ac⟩ := Zone.copy_spec kz.2 (hl kz List.mem_cons_self)
    have wfa' := MMap.setZone_wf acc kz.1 kz.2.copy wfa wc
    simp only [List.map_cons, List.nodup_cons] at hn
    obtain ⟨w2, a2⟩ := ih (acc.setZone kz.1 kz.2.copy) wfa' (fun kz' h => hl kz' (List.mem_cons_of_mem _ h)) hn.2
    rw [List.foldl_cons]
    refine ⟨w2, ?_⟩
    intro k
    rw [a2 k, absKL_cons, MMap.absK_setZone]
    by_cases hk : k ∈ l.map Prod.fst
    · have : ¬ kz.1 = k := fun e => hn.1 (e ▸ hk)
      simp [hk, this]
    · by_cases hk2 : k = kz.1
      · subst hk2; simp [hk, ac]
      · have : ¬ kz.1 = k := fun e => hk2 e.symm
        simp [hk, hk2]

theorem MMap.empty_absK (k : ZKey) : MMap.empty.absK k = fun _ => none := by
  unfold MMap.absK MMap.getZone MMap.empty
  simp only [List.find?_cons, List.find?_nil]
  cases k <;> rfl

theorem MMap.copy_spec (mm : MMap) (wf : mm.WF) : mm.copy.WF ∧ ∀ k, mm.copy.absK k = mm.absK k := by
  obtain ⟨w, a⟩ := copyFold_spec mm.zones MMap.empty MMap.empty_wf (fun kz h => (wf.1 kz h).1) wf.2
  refine ⟨w, ?_⟩
  intro k
  have := a k
  unfold MMap.copy
  rw [this, MMap.absK_eq mm k]
  by_cases hk : k ∈ mm.zones.map Prod.fst
  · simp [hk]
  · simp only [hk, if_false]; rw [MMap.empty_absK, absKL_not_mem _ _ hk]

def mergeStep (acc : MMap) (kz : ZKey × Zone) : MMap :=
  match acc.getZone kz.1 with
  | some z => acc.setZone kz.1 (z.mergeWith kz.2)
  | none => acc.setZone kz.1 kz.2

theorem mergeStep_spec (acc : MMap) (kz : ZKey × Zone) (wfa : acc.WF) (hz : kz.2.WF) :
    (mergeStep acc kz).WF ∧
    ∀ k, (mergeStep acc kz).absK k = if k = kz.1 then override (acc.absK k) kz.2.abs else acc.absK k := by
  unfold mergeStep
  cases h : acc.getZone kz.1 with
  | none =>
    simp only
    refine ⟨MMap.setZone_wf _ _ _ wfa hz, ?_⟩
    intro k
    rw [MMap.absK_setZone]
    by_cases hk : k = kz.1
    · subst hk
      have : acc.absK kz.1 = fun _ => none := by unfold MMap.absK; rw [h]
      simp [this, override_none_left]
    · simp [hk]
  | some z =>
    simp only
    obtain ⟨w1, a1⟩ := Zone.mergeWith_spec z kz.2 (MMap.getZone_wf acc kz.1 z wfa h) hz.1
    refine ⟨MMap.setZone_wf _ _ _ wfa w1, ?_⟩
    intro k
    rw [MMap.absK_setZone]
    by_cases hk : k = kz.1
    · subst hk
      have : acc.absK kz.1 = z.abs := by unfold MMap.absK; rw [h]
      simp [this, a1]
    · simp [hk]

theorem mergeFold_spec (l : List (ZKey × Zone)) (acc : MMap) (wfa : acc.WF)
    (hl : ∀ kz ∈ l, kz.2.WF) (hn : (l.map Prod.fst).Nodup) :
    (l.foldl mergeStep acc).WF ∧ ∀ k, (l.foldl mergeStep acc).absK k = override (acc.absK k) (absKL l k) := by
  induction l generalizing acc with
  | nil =>
    refine ⟨wfa, fun k => ?_⟩
    simp only [List.foldl_nil]
    have : absKL [] k = fun _ => none := rfl
    rw [this, override_none_right]
  | cons kz l ih =>
    obtain ⟨w1, a1⟩ := mergeStep_spec acc kz wfa (hl kz List.mem_cons_self)
    simp only [List.map_cons, List.nodup_cons] at hn
    obtain ⟨w2, a2⟩ := ih (mergeStep acc kz) w1 (fun kz' h => hl kz' (List.mem_cons_of_mem _ h)) hn.2
    rw [List.foldl_cons]
    refine ⟨w2, ?_⟩
    intro k
    rw [a2 k, a1 k, absKL_cons]
    by_cases hk : k = kz.1
    · subst hk
      simp only [if_true]
      rw [absKL_not_mem l _ hn.1, override_none_right]
    · have : ¬ kz.1 = k := fun e => hk e.symm
      simp [hk, this]

theorem MMap.merge_spec (mm other : MMap) (wf : mm.WF) (wfo : other.WF) :
    (mm.merge other).WF ∧ ∀ k, (mm.merge other).absK k = override (mm.absK k) (other.absK k) := by
  have := mergeFold_spec other.zones mm wf wfo.1 wfo.2
  refine ⟨this.1, fun k => ?_⟩
  rw [MMap.absK_eq other k]
  exact this.2 k



/-! ### MemoryMap histories -/

abbrev Store := ZKey → ByteMap

/-- byte-store meaning of a `MemoryMap.write`: nothing happens when the address denotes no location. -/
def specWrite (s : Store) (a : Addr) (v : Val) (en : Endian) : Store :=
  match reference a with
  | .error _ => s
  | .ok (r, d, o) =>
    if r.isSome && !d then s
    else fun k => if k = r then override (s r) (absWrite o v en) else s k

def specMWrites (ws : List (Addr × Val × Endian)) (s : Store) : Store :=
  ws.foldl (fun s w => specWrite s w.1 w.2.1 w.2.2) s

def MOp.spec (s : Store) : MOp → Store
  | .write a v en => specWrite s a v en
  | .restruct => s
  | .copy => s
  | .shift k off => fun k' => if k' = k then fun q => s k (q - off) else s k'
  | .merge ws => fun k => override (s k) (specMWrites ws (fun _ _ => none) k)

def specMMap (ops : List MOp) : Store := ops.foldl MOp.spec (fun _ _ => none)

def MOp.ok : MOp → Prop
  | .write _ v _ => 0 < v.len
  | .merge ws => ∀ w ∈ ws, 0 < w.2.1.len
  | _ => True

theorem MMap.writeD_spec (mm : MMap) (a : Addr) (v : Val) (en : Endian) (wf : mm.WF) (hv : 0 < v.len) :
    (mm.writeD a v en).WF ∧ ∀ k, (mm.writeD a v en).absK k = specWrite mm.absK a v en k := by
  unfold MMap.writeD specWrite
  cases href : reference a with
  | error e =>
    have : mm.write a v en = .error .memoryError := MMap.write_error mm a v en (by rw [href]; trivial)
    rw [this]; exact ⟨wf, fun k => by trivial⟩
  | ok x =>
    obtain ⟨r, d, o⟩ := x
    by_cases hc : (r.isSome && !d) = true
    · have : mm.write a v en = .error .memoryError := by
        apply MMap.write_error
        rw [href]
        simp only [Bool.and_eq_true, Bool.not_eq_true'] at hc
        exact hc
      rw [this]
      simp only [hc, if_true]
      exact ⟨wf, fun k => by trivial⟩
    · have hd : r.isSome = true → d = true := by
        intro h; simp [h] at hc; exact hc
      obtain ⟨mm', e, w, ab⟩ := MMap.write_spec mm a v en r d o wf href hd hv
      rw [e]
      simp only [hc]
      exact ⟨w, ab⟩

theorem writesMMap_spec (ws : List (Addr × Val × Endian)) (mm : MMap) (wf : mm.WF) (h : ∀ w ∈ ws, 0 < w.2.1.len) :
    (ws.foldl (fun mm w => mm.writeD w.1 w.2.1 w.2.2) mm).WF ∧
    ∀ k, (ws.foldl (fun mm w => mm.writeD w.1 w.2.1 w.2.2) mm).absK k = specMWrites ws mm.absK k := by
  induction ws generalizing mm with
  | nil => exact ⟨wf, fun k => rfl⟩
  | cons w ws ih =>
    obtain ⟨w1, a1⟩ := MMap.writeD_spec mm w.1 w.2.1 w.2.2 wf (h w List.mem_cons_self)
    obtain ⟨w2, a2⟩ := ih (mm.writeD w.1 w.2.1 w.2.2) w1 (fun w' hw' => h w' (List.mem_cons_of_mem _ hw'))
    rw [List.foldl_cons]
    refine ⟨w2, fun k => ?_⟩
    rw [a2 k]
    have : (mm.writeD w.1 w.2.1 w.2.2).absK = specWrite mm.absK w.1 w.2.1 w.2.2 := funext a1
    rw [this]; rfl

theorem MOp.apply_spec (mm : MMap) (op : MOp) (wf : mm.WF) (h : op.ok) :
    (op.apply mm).WF ∧ ∀ k, (op.apply mm).absK k = op.spec mm.absK k := by
  cases op with
  | write a v en => exact MMap.writeD_spec mm a v en wf h
  | restruct => exact MMap.restruct_spec mm wf
  | copy => exact MMap.copy_spec mm wf
  | shift k off =>
    simp only [MOp.apply, MOp.spec]
    cases hz : mm.getZone k with
    | none =>
      refine ⟨wf, fun k' => ?_⟩
      by_cases hk : k' = k
      · subst hk
        have : mm.absK k' = fun _ => none := by unfold MMap.absK; rw [hz]
        simp [this]
      · simp [hk]
    | some z =>
      simp only
      obtain ⟨w1, a1⟩ := Zone.shift_spec z off (MMap.getZone_wf mm k z wf hz)
      refine ⟨MMap.setZone_wf _ _ _ wf w1, fun k' => ?_⟩
      rw [MMap.absK_setZone]
      by_cases hk : k' = k
      · subst hk
        have : mm.absK k' = z.abs := by unfold MMap.absK; rw [hz]
        simp [this, a1]
      · simp [hk]
  | merge ws =>
    obtain ⟨w1, a1⟩ := writesMMap_spec ws MMap.empty MMap.empty_wf h
    obtain ⟨w2, a2⟩ := MMap.merge_spec mm (writesMMap ws) wf w1
    refine ⟨w2, fun k => ?_⟩
    show (mm.merge (writesMMap ws)).absK k = override (mm.absK k) (specMWrites ws (fun _ _ => none) k)
    rw [a2 k]
    congr 1
    have := a1 k
    have he : MMap.empty.absK = fun _ _ => none := funext MMap.empty_absK
    rw [he] at this
    exact this

theorem runMMapFrom_spec (ops : List MOp) (mm : MMap) (wf : mm.WF) (h : ∀ op ∈ ops, op.ok) :
    (ops.foldl MOp.apply mm).WF ∧ ∀ k, (ops.foldl MOp.apply mm).absK k = ops.foldl MOp.spec mm.absK k := by
  induction ops generalizing mm with
  | nil => exact ⟨wf, fun k => rfl⟩
  | cons op ops ih =>
    obtain ⟨w1, a1⟩ := MOp.apply_spec mm op wf (h op List.mem_cons_self)
    obtain ⟨w2, a2⟩ := ih (op.apply mm) w1 (fun o ho => h o (List.mem_cons_of_mem _ ho))
    rw [List.foldl_cons, List.foldl_cons]
    refine ⟨w2, fun k => ?_⟩
    rw [a2 k]
    have : (op.apply mm).absK = op.spec mm.absK := funext a1
    rw [this]



/-! ### workspaces of live maps (original and copies) -/

def WOp.spec (ss : List Store) : WOp → List Store
  | .fork src =>
    match ss[src]? with
    | some s => ss ++ [s]
    | none => ss
  | .on i op =>
    match ss[i]? with
    | some s => ss.set i (op.spec s)
    | none => ss
  | .mergeCopy i src =>
    match ss[i]?, ss[src]? with
    | some s, some o => ss.set i (fun k => override (s k) (o k))
    | _, _ => ss

def specWorkspace (ops : List WOp) : List Store := ops.foldl WOp.spec [fun _ _ => none]

def WOp.ok : WOp → Prop
  | .on _ op => op.ok
  | _ => True

/-- every live map is well formed and is its own byte store. -/
def WsInv (ws : List MMap) (ss : List Store) : Prop :=
  ws.length = ss.length ∧
  ∀ (i : Nat) (mm : MMap) (s : Store), ws[i]? = some mm → ss[i]? = some s → mm.WF ∧ ∀ k, mm.absK k = s k

theorem WsInv.set {ws : List MMap} {ss : List Store} (h : WsInv ws ss) (i : Nat) (mm : MMap) (s : Store)
    (hm : mm.WF) (ha : ∀ k, mm.absK k = s k) : WsInv (ws.set i mm) (ss.set i s) := by
  refine ⟨by simp [h.1], ?_⟩
  intro j mm' s' h1 h2
  rw [List.getElem?_set] at h1 h2
  by_cases hij : i = j
  · subst hij
    by_cases hl : i < ws.length
    · have hl' : i < ss.length := h.1 ▸ hl
      simp only [hl, hl', if_true, Option.some.injEq] at h1 h2
      subst h1; subst h2; exact ⟨hm, ha⟩
    · simp [hl] at h1
  · simp only [hij, if_false] at h1 h2
    exact h.2 j mm' s' h1 h2

theorem WsInv.append {ws : List MMap} {ss : List Store} (h : WsInv ws ss) (mm : MMap) (s : Store)
    (hm : mm.WF) (ha : ∀ k, mm.absK k = s k) : WsInv (ws ++ [mm]) (ss ++ [s]) := by
  refine ⟨by simp [h.1], ?_⟩
  intro j mm' s' h1 h2
  rw [List.getElem?_append] at h1 h2
  by_cases hl : j < ws.length
  · have hl' : j < ss.length := h.1 ▸ hl
    simp only [hl, hl', if_true] at h1 h2
    exact h.2 j mm' s' h1 h2
  · have hl' : ¬ j < ss.length := h.1 ▸ hl
    simp only [hl, hl', if_false] at h1 h2
    rw [h.1] at h1
    by_cases h0 : j - ss.length = 0
    · simp only [h0, List.getElem?_cons_zero, Option.some.injEq] at h1 h2
      subst h1; subst h2; exact ⟨hm, ha⟩
    · obtain ⟨n, hn⟩ := Nat.exists_eq_succ_of_ne_zero h0
      simp [hn] at h1

theorem WsInv.get {ws : List MMap} {ss : List Store} (h : WsInv ws ss) (i : Nat) :
    match ws[i]?, ss[i]? with
    | some mm, some s => mm.WF ∧ ∀ k, mm.absK k = s k
    | none, none => True
    | _, _ => False := by
  by_cases hl : i < ws.length
  · have hl' : i < ss.length := h.1 ▸ hl
    rw [(List.getElem?_eq_some_getElem_iff hl).mpr trivial, (List.getElem?_eq_some_getElem_iff hl').mpr trivial]
    exact h.2 i _ _ ((List.getElem?_eq_some_getElem_iff hl).mpr trivial) ((List.getElem?_eq_some_getElem_iff hl').mpr trivial)
  · have hl' : ¬ i < ss.length := h.1 ▸ hl
    rw [List.getElem?_eq_none_iff.mpr (by omega), List.getElem?_eq_none_iff.mpr (by omega)]
    trivial

theorem WOp.apply_inv (ws : List MMap) (ss : List Store) (op : WOp) (h : WsInv ws ss) (hok : op.ok) :
    WsInv (op.apply ws) (op.spec ss) := by
  cases op with
  | fork src =>
    have g := h.get src
    simp only [WOp.apply, WOp.spec]
    cases h1 : ws[src]? <;> cases h2 : ss[src]? <;> rw [h1, h2] at g
    · exact h
    · exact g.elim
    · exact g.elim
    · rename_i mm s
      obtain ⟨w, a⟩ := MMap.copy_spec mm g.1
      exact h.append mm.copy s w (fun k => by rw [a k, g.2 k])
  | on i op =>
    have g := h.get i
    simp only [WOp.apply, WOp.spec]
    cases h1 : ws[i]? <;> cases h2 : ss[i]? <;> rw [h1, h2] at g
    · exact h
    · exact g.elim
    · exact g.elim
    · rename_i mm s
      obtain ⟨w, a⟩ := MOp.apply_spec mm op g.1 hok
      have e : mm.absK = s := funext g.2
      exact h.set i (op.apply mm) (op.spec s) w (fun k => by rw [a k, e])
  | mergeCopy i src =>
    have g := h.get i
    have g' := h.get src
    simp only [WOp.apply, WOp.spec]
    cases h1 : ws[i]? <;> cases h2 : ss[i]? <;> rw [h1, h2] at g <;>
      cases h3 : ws[src]? <;> cases h4 : ss[src]? <;> rw [h3, h4] at g' <;>
      first | exact h | exact g.elim | exact g'.elim | skip
    rename_i mm s other o
    obtain ⟨wc, ac⟩ := MMap.copy_spec other g'.1
    obtain ⟨w, a⟩ := MMap.merge_spec mm other.copy g.1 wc
    exact h.set i _ _ w (fun k => by rw [a k, ac k, g.2 k, g'.2 k])

theorem runWorkspace_inv (ops : List WOp) (ws : List MMap) (ss : List Store) (h : WsInv ws ss)
    (hok : ∀ op ∈ ops, op.ok) : WsInv (ops.foldl WOp.apply ws) (ops.foldl WOp.spec ss) := by
  induction ops generalizing ws ss with
  | nil => exact h
  | cons op ops ih =>
    rw [List.foldl_cons, List.foldl_cons]
    exact ih _ _ (WOp.apply_inv ws ss op h (hok op List.mem_cons_self)) (fun o ho => hok o (List.mem_cons_of_mem _ ho))

theorem WsInv.init : WsInv [MMap.empty] [fun _ _ => none] := by
  refine ⟨rfl, ?_⟩
  intro i mm s h1 h2
  cases i with
  | zero =>
    simp only [List.getElem?_cons_zero, Option.some.injEq] at h1 h2
    subst h1; subst h2
    exact ⟨MMap.empty_wf, fun k => MMap.empty_absK k⟩
  | succ n => simp at h1


end Amoco.Memory
