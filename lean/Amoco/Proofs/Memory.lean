/-
  Amoco.Proofs.Memory — helper lemmas for C08 (abstract memory).
  Part A: values / datadiv (`memBytes` of `exp.bytes`, `datadiv.__init__`, `cut`, `getpart`, `mergeparts`, `setpart`).
  Part B: `mo` (`trim`, `write`) and chains of consecutive objects.
  Part C: `locate` on a sorted cache; decomposition of a well-formed zone.
  Part D: `addtomap` by cases, `readLoop`, `restruct`, `shift`, `copy`, `merge`.
-/
import Amoco.Model.Memory
namespace Amoco.Memory

/-! ## Abstraction basics -/

theorem absL_nil (a : Int) : absL [] a = none := rfl
theorem absL_cons (o : Mo) (m : List Mo) (a : Int) : absL (o :: m) a = (absMo o a).or (absL m a) := by
  unfold absL
  rw [List.findSome?_cons]
  cases absMo o a <;> rfl
theorem absL_append (m1 m2 : List Mo) (a : Int) : absL (m1 ++ m2) a = (absL m1 a).or (absL m2 a) := by
  unfold absL; exact List.findSome?_append

/-! ## Part A: values and datadiv -/

theorem Ex.bytes_mem (e : Ex) (sta : Nat) (sto : Option Nat) (en : Endian) :
    (Val.ex (e.bytes sta sto en)).memBytes en =
      (((Val.ex e).memBytes en).drop sta).take ((sto.getD e.length) - sta) := by
  cases en with
  | little =>
    simp only [Val.memBytes, Ex.bytes]
    apply List.ext_getElem?
    intro i
    cases sto <;> simp only [List.getElem?_take, List.getElem?_drop, Option.getD] <;> grind
  | big =>
    simp only [Val.memBytes, Ex.bytes]
    apply List.ext_getElem?
    intro i
    cases sto <;> simp only [List.getElem?_take, List.getElem?_drop, Option.getD] <;> grind

theorem Val.memBytes_length (v : Val) (en : Endian) : (v.memBytes en).length = v.len := by
  cases v <;> cases en <;> simp [Val.memBytes, Val.len]

theorem DD.memBytes_length (d : DD) : d.memBytes.length = d.len := Val.memBytes_length _ _

theorem map_raw_rawVal (e : Ex) (h : e.isCst = true) : (e.map ByteDesc.rawVal).map ByteDesc.raw = e := by
  induction e with
  | nil => rfl
  | cons x xs ih =>
    simp only [Ex.isCst, List.all_cons, Bool.and_eq_true] at h
    simp only [List.map_cons]
    rw [ih (by simpa [Ex.isCst] using h.2)]
    cases x <;> simp_all [ByteDesc.isRaw, ByteDesc.rawVal]

theorem DD.new_memBytes (v : Val) (en : Endian) : (DD.new v en).memBytes = v.memBytes en := by
  cases v with
  | raw bs => rfl
  | ex e =>
    by_cases h : e.isCst = true
    · simp only [DD.new, h, if_true]
      cases en
      · simp [DD.memBytes, Val.memBytes, Ex.toBytes, map_raw_rawVal e h]
      · simp only [DD.memBytes, Val.memBytes, Ex.toBytes, List.map_reverse]
        rw [map_raw_rawVal e h]
    · simp only [DD.new, h]; rfl

theorem DD.new_endian (v : Val) (en : Endian) : (DD.new v en).endian = en := by
  cases v with
  | raw bs => rfl
  | ex e => by_cases h : e.isCst = true <;> simp [DD.new, h]

theorem DD.new_len (v : Val) (en : Endian) : (DD.new v en).len = v.len := by
  rw [← DD.memBytes_length, DD.new_memBytes, Val.memBytes_length]

theorem DD.cut_memBytes (d : DD) (l : Nat) : (d.cut l).memBytes = d.memBytes.drop l := by
  unfold DD.cut DD.memBytes
  cases h : d.val with
  | raw bs => simp [Val.memBytes]
  | ex e =>
    simp only
    rw [Ex.bytes_mem]
    simp only [Option.getD]
    apply List.take_of_length_le
    simp [Val.memBytes_length, Val.len]

theorem DD.cut_endian (d : DD) (l : Nat) : (d.cut l).endian = d.endian := by
  unfold DD.cut; cases d.val <;> rfl

theorem DD.getpart_fst (d : DD) (o l : Nat) :
    ∀ v, (d.getpart o l).1 = some v → v.memBytes d.endian = (d.memBytes.drop o).take l := by
  intro v hv
  unfold DD.getpart at hv
  by_cases h : o = 0 ∧ l = d.len
  · simp only [h, and_self, if_true] at hv
    cases hv
    obtain ⟨h1, h2⟩ := h
    subst h1
    simp only [DD.memBytes, List.drop_zero]
    rw [List.take_of_length_le]
    rw [Val.memBytes_length]; unfold DD.len at h2; omega
  · simp only [h, if_false] at hv
    cases hd : d.val with
    | raw bs =>
      simp only [hd] at hv
      cases hv
      simp [DD.memBytes, hd, Val.memBytes]
    | ex e =>
      simp only [hd] at hv
      by_cases h2 : o ≥ d.len
      · simp [h2] at hv
      · simp only [h2, if_false] at hv
        cases hv
        simp only [DD.memBytes, hd]
        rw [Ex.bytes_mem]
        simp

theorem DD.getpart_none (d : DD) (o l : Nat) : (d.getpart o l).1 = none → d.len ≤ o := by
  intro hv
  unfold DD.getpart at hv
  by_cases h : o = 0 ∧ l = d.len
  · simp [h] at hv
  · simp only [h, if_false] at hv
    cases hd : d.val with
    | raw bs => simp [hd] at hv
    | ex e =>
      simp only [hd] at hv
      by_cases h2 : o ≥ d.len
      · exact h2
      · simp [h2] at hv

theorem DD.partVal_memBytes (d : DD) (o l : Nat) :
    (d.partVal o l).memBytes d.endian = (d.memBytes.drop o).take l := by
  unfold DD.partVal
  cases h : (d.getpart o l).1 with
  | some v => exact DD.getpart_fst d o l v h
  | none =>
    have := DD.getpart_none d o l h
    simp only [Val.memBytes, List.map_nil]
    rw [List.drop_of_length_le (by rw [DD.memBytes_length]; exact this)]; simp


/-! ### mergeparts / setpart -/

def flat (P : List DD) : List ByteDesc := P.flatMap DD.memBytes

theorem flat_cons (p : DD) (P : List DD) : flat (p :: P) = p.memBytes ++ flat P := by
  simp [flat]

theorem flat_append (P Q : List DD) : flat (P ++ Q) = flat P ++ flat Q := by
  simp [flat]

theorem DD.mergeGo_flat (cur : DD) (P : List DD) : flat (DD.mergeGo cur P) = cur.memBytes ++ flat P := by
  induction P generalizing cur with
  | nil => simp [DD.mergeGo, flat]
  | cons p rest ih =>
    unfold DD.mergeGo
    split
    · rename_i a b ha hb
      rw [ih, flat_cons]
      simp [DD.memBytes, ha, hb, Val.memBytes]
    · rw [flat_cons, ih, flat_cons]

theorem DD.mergeGo_pos (cur : DD) (P : List DD) (hc : 0 < cur.len) (hP : ∀ p ∈ P, 0 < p.len) :
    ∀ q ∈ DD.mergeGo cur P, 0 < q.len := by
  induction P generalizing cur with
  | nil => intro q hq; simp [DD.mergeGo] at hq; subst hq; exact hc
  | cons p rest ih =>
    unfold DD.mergeGo
    split
    · rename_i a b ha hb
      apply ih
      · simp only [DD.len, Val.len, List.length_append]
        simp only [DD.len, ha, Val.len] at hc; omega
      · intro q hq; exact hP q (List.mem_cons_of_mem _ hq)
    · intro q hq
      rcases List.mem_cons.mp hq with h | h
      · subst h; exact hc
      · exact ih p (hP p (List.mem_cons_self)) (fun q hq => hP q (List.mem_cons_of_mem _ hq)) q h

theorem DD.mergeGo_ne_nil (cur : DD) (P : List DD) : DD.mergeGo cur P ≠ [] := by
  induction P generalizing cur with
  | nil => simp [DD.mergeGo]
  | cons p rest ih =>
    unfold DD.mergeGo
    split
    · exact ih _
    · simp

/-- the three candidate parts of `setpart` before merging. -/
def DD.setparts (d : DD) (o : Nat) (data : Val) (en : Endian) : List DD :=
  (if o > 0 then [DD.new (d.partVal 0 o) d.endian] else []) ++ [DD.new data en] ++
  (if o + data.len < d.len then [DD.new (d.partVal (o + data.len) (d.len - (o + data.len))) d.endian] else [])

theorem DD.setpart_eq (d : DD) (o : Nat) (data : Val) (en : Endian) :
    d.setpart o data en = DD.mergeparts (d.setparts o data en) := by
  unfold DD.setpart DD.setparts
  by_cases h1 : o > 0 <;> by_cases h2 : o + data.len < d.len <;> simp [h1, h2]

theorem DD.setparts_flat (d : DD) (o : Nat) (data : Val) (en : Endian) :
    flat (d.setparts o data en) = d.memBytes.take o ++ data.memBytes en ++ d.memBytes.drop (o + data.len) := by
  unfold DD.setparts
  rw [flat_append, flat_append]
  congr 1
  congr 1
  · by_cases h1 : o > 0
    · simp [h1, flat, DD.new_memBytes, DD.partVal_memBytes]
    · have : o = 0 := by omega
      simp [this, flat]
  · simp [flat, DD.new_memBytes]
  · by_cases h2 : o + data.len < d.len
    · simp only [h2, if_true, flat, List.flatMap_cons, List.flatMap_nil, List.append_nil, DD.new_memBytes,
        DD.partVal_memBytes]
      apply List.take_of_length_le
      simp [DD.memBytes_length]
    · simp only [h2, if_false, flat, List.flatMap_nil]
      rw [List.drop_of_length_le]
      rw [DD.memBytes_length]; omega

theorem DD.setparts_pos (d : DD) (o : Nat) (data : Val) (en : Endian) (ho : o ≤ d.len) (hd : 0 < data.len) :
    ∀ q ∈ d.setparts o data en, 0 < q.len := by
  intro q hq
  unfold DD.setparts at hq
  simp only [List.mem_append, List.mem_singleton] at hq
  rcases hq with (hq | hq) | hq
  · by_cases h1 : o > 0
    · simp only [h1, if_true, List.mem_singleton] at hq
      subst hq
      rw [DD.new_len, ← Val.memBytes_length _ d.endian, DD.partVal_memBytes]
      simp [DD.memBytes_length]; omega
    · simp [h1] at hq
  · subst hq; rw [DD.new_len]; exact hd
  · by_cases h2 : o + data.len < d.len
    · simp only [h2, if_true, List.mem_singleton] at hq
      subst hq
      rw [DD.new_len, ← Val.memBytes_length _ d.endian, DD.partVal_memBytes]
      simp [DD.memBytes_length]; omega
    · simp [h2] at hq

theorem DD.setparts_ne_nil (d : DD) (o : Nat) (data : Val) (en : Endian) : d.setparts o data en ≠ [] := by
  unfold DD.setparts; simp

theorem DD.mergeparts_flat (P : List DD) : flat (DD.mergeparts P) = flat P := by
  cases P with
  | nil => rfl
  | cons p rest => simp [DD.mergeparts, DD.mergeGo_flat, flat_cons]

theorem DD.mergeparts_pos (P : List DD) (hP : ∀ p ∈ P, 0 < p.len) : ∀ q ∈ DD.mergeparts P, 0 < q.len := by
  cases P with
  | nil => intro q hq; simp [DD.mergeparts] at hq
  | cons p rest =>
    exact DD.mergeGo_pos p rest (hP p List.mem_cons_self) (fun q hq => hP q (List.mem_cons_of_mem _ hq))

theorem DD.mergeparts_ne_nil (P : List DD) (h : P ≠ []) : DD.mergeparts P ≠ [] := by
  cases P with
  | nil => exact absurd rfl h
  | cons p rest => exact DD.mergeGo_ne_nil p rest

theorem DD.setpart_flat (d : DD) (o : Nat) (data : Val) (en : Endian) :
    flat (d.setpart o data en) = d.memBytes.take o ++ data.memBytes en ++ d.memBytes.drop (o + data.len) := by
  rw [DD.setpart_eq, DD.mergeparts_flat, DD.setparts_flat]

theorem DD.setpart_pos (d : DD) (o : Nat) (data : Val) (en : Endian) (ho : o ≤ d.len) (hd : 0 < data.len) :
    ∀ q ∈ d.setpart o data en, 0 < q.len := by
  rw [DD.setpart_eq]; exact DD.mergeparts_pos _ (DD.setparts_pos d o data en ho hd)

theorem DD.setpart_ne_nil (d : DD) (o : Nat) (data : Val) (en : Endian) : d.setpart o data en ≠ [] := by
  rw [DD.setpart_eq]; exact DD.mergeparts_ne_nil _ (DD.setparts_ne_nil d o data en)


/-! ## Part B: mo -/

def ZoneWF (m : List Mo) : Prop := (∀ o ∈ m, 0 < o.len) ∧ m.Pairwise (fun a b => a.fin ≤ b.vaddr)

theorem Mo.fin_eq (o : Mo) : o.fin = o.vaddr + (o.len : Int) := rfl
theorem Mo.len_eq (o : Mo) : o.len = o.data.memBytes.length := (DD.memBytes_length _).symm

theorem absMo_eq (o : Mo) (q : Int) (h : o.vaddr ≤ q) : absMo o q = o.data.memBytes[(q - o.vaddr).toNat]? := by
  simp [absMo, h]

theorem absMo_none_lt (o : Mo) (q : Int) (h : q < o.vaddr) : absMo o q = none := by
  simp [absMo]; omega

theorem absMo_none_ge (o : Mo) (q : Int) (h : o.fin ≤ q) : absMo o q = none := by
  unfold absMo
  split
  · rw [List.getElem?_eq_none_iff, ← Mo.len_eq]; rw [Mo.fin_eq] at h; omega
  · rfl

theorem absMo_isSome (o : Mo) (q : Int) (h1 : o.vaddr ≤ q) (h2 : q < o.fin) : (absMo o q).isSome := by
  rw [absMo_eq o q h1]
  have : (q - o.vaddr).toNat < o.data.memBytes.length := by rw [← Mo.len_eq]; rw [Mo.fin_eq] at h2; omega
  rw [(List.getElem?_eq_some_getElem_iff this).mpr trivial]; rfl

theorem absMo_some_range (o : Mo) (q : Int) (d : ByteDesc) (h : absMo o q = some d) : o.vaddr ≤ q ∧ q < o.fin := by
  constructor
  · by_cases h1 : o.vaddr ≤ q
    · exact h1
    · rw [absMo_none_lt o q (by omega)] at h; cases h
  · by_cases h2 : q < o.fin
    · exact h2
    · rw [absMo_none_ge o q (by omega)] at h; cases h

theorem absL_none_of (m : List Mo) (q : Int) (h : ∀ o ∈ m, q < o.vaddr ∨ o.fin ≤ q) : absL m q = none := by
  induction m with
  | nil => rfl
  | cons o m ih =>
    rw [absL_cons]
    have : absMo o q = none := by
      rcases h o List.mem_cons_self with h1 | h1
      · exact absMo_none_lt o q h1
      · exact absMo_none_ge o q h1
    rw [this, ih (fun o ho => h o (List.mem_cons_of_mem _ ho))]; rfl

theorem Mo.new_vaddr (v : Int) (d : Val) (e : Endian) : (Mo.new v d e).vaddr = v := rfl
theorem Mo.new_memBytes (v : Int) (d : Val) (e : Endian) : (Mo.new v d e).data.memBytes = d.memBytes e :=
  DD.new_memBytes d e
theorem Mo.new_len (v : Int) (d : Val) (e : Endian) : (Mo.new v d e).len = d.len := DD.new_len d e
theorem Mo.new_fin (v : Int) (d : Val) (e : Endian) : (Mo.new v d e).fin = v + (d.len : Int) := by
  rw [Mo.fin_eq, Mo.new_len]; rfl

/-- consecutive objects starting at `v`. -/
def Contig : Int → List Mo → Prop
  | _, [] => True
  | v, o :: ms => o.vaddr = v ∧ Contig o.fin ms

def flatM (ms : List Mo) : List ByteDesc := ms.flatMap (fun o => o.data.memBytes)

theorem flatM_cons (o : Mo) (ms : List Mo) : flatM (o :: ms) = o.data.memBytes ++ flatM ms := by simp [flatM]

theorem Contig.absL {v : Int} {ms : List Mo} (h : Contig v ms) (q : Int) :
    absL ms q = if v ≤ q then (flatM ms)[(q - v).toNat]? else none := by
  induction ms generalizing v with
  | nil => simp [absL_nil, flatM]
  | cons o ms ih =>
    obtain ⟨h1, h2⟩ := h
    rw [absL_cons, ih h2, flatM_cons]
    subst h1
    by_cases hq : o.vaddr ≤ q
    · rw [absMo_eq o q hq]
      simp only [hq, if_true]
      rw [List.getElem?_append]
      by_cases hi : (q - o.vaddr).toNat < o.data.memBytes.length
      · simp only [hi, if_true]
        rw [(List.getElem?_eq_some_getElem_iff hi).mpr trivial]; rfl
      · simp only [hi, if_false]
        rw [List.getElem?_eq_none_iff.mpr (by omega)]
        have : o.fin ≤ q := by rw [Mo.fin_eq, Mo.len_eq]; omega
        simp only [this, if_true, Option.none_or]
        congr 1
        rw [Mo.fin_eq, Mo.len_eq]; omega
    · rw [absMo_none_lt o q (by omega)]
      have : ¬ o.fin ≤ q := by rw [Mo.fin_eq]; omega
      simp [hq, this]

theorem Contig.within {v : Int} {ms : List Mo} (h : Contig v ms) :
    ∀ o ∈ ms, v ≤ o.vaddr ∧ o.fin ≤ v + ((flatM ms).length : Int) := by
  induction ms generalizing v with
  | nil => intro o ho; cases ho
  | cons o ms ih =>
    obtain ⟨h1, h2⟩ := h
    intro w hw
    rw [flatM_cons, List.length_append]
    rcases List.mem_cons.mp hw with hw | hw
    · subst hw; subst h1; rw [Mo.fin_eq, Mo.len_eq]; omega
    · have := ih h2 w hw
      rw [Mo.fin_eq, Mo.len_eq] at this
      subst h1; omega

theorem Contig.pairwise {v : Int} {ms : List Mo} (h : Contig v ms) :
    ms.Pairwise (fun a b => a.fin ≤ b.vaddr) := by
  induction ms generalizing v with
  | nil => exact List.Pairwise.nil
  | cons o ms ih =>
    obtain ⟨h1, h2⟩ := h
    apply List.Pairwise.cons
    · intro w hw; exact (h2.within w hw).1
    · exact ih h2

theorem chain_contig (v : Int) (ps : List DD) : Contig v (Mo.chain v ps) := by
  induction ps generalizing v with
  | nil => trivial
  | cons p ps ih =>
    refine ⟨rfl, ?_⟩
    have : (Mo.new v p.val p.endian).fin = v + (p.len : Int) := by rw [Mo.new_fin]; rfl
    rw [this]; exact ih _

theorem chain_flatM (v : Int) (ps : List DD) : flatM (Mo.chain v ps) = flat ps := by
  induction ps generalizing v with
  | nil => rfl
  | cons p ps ih =>
    simp only [Mo.chain, flatM_cons, flat_cons, ih, Mo.new_memBytes]; rfl

theorem chain_pos (v : Int) (ps : List DD) (h : ∀ p ∈ ps, 0 < p.len) : ∀ o ∈ Mo.chain v ps, 0 < o.len := by
  induction ps generalizing v with
  | nil => intro o ho; cases ho
  | cons p ps ih =>
    intro o ho
    rcases List.mem_cons.mp ho with ho | ho
    · subst ho; rw [Mo.new_len]; exact h p List.mem_cons_self
    · exact ih _ (fun p hp => h p (List.mem_cons_of_mem _ hp)) o ho


/-! ### mo.write -/

/-- the objects replacing `o` after `o.write(z.vaddr, z.data.val, z.data.endian)`. -/
def writeL (o z : Mo) : List Mo :=
  let r := o.write z.vaddr z.data.val z.data.endian
  r.1 :: r.2

theorem writeL_in (o z : Mo) (h1 : o.vaddr ≤ z.vaddr) (h2 : z.vaddr ≤ o.fin) :
    Contig o.vaddr (writeL o z) ∧
    flatM (writeL o z) = o.data.memBytes.take (z.vaddr - o.vaddr).toNat ++ z.data.memBytes ++
        o.data.memBytes.drop ((z.vaddr - o.vaddr).toNat + z.len) ∧
    ((0 < z.len) → ∀ w ∈ writeL o z, 0 < w.len) := by
  have hc : (o.contains z.vaddr || z.vaddr == o.fin) = true := by
    simp only [Mo.contains, Bool.or_eq_true, Bool.and_eq_true, decide_eq_true_eq, beq_iff_eq]; omega
  have hk : (z.vaddr - o.vaddr).toNat ≤ o.data.len := by
    rw [Mo.fin_eq] at h2; unfold Mo.len at h2; omega
  unfold writeL Mo.write
  simp only [hc, if_true]
  have hf := DD.setpart_flat o.data (z.vaddr - o.vaddr).toNat z.data.val z.data.endian
  have hp := DD.setpart_pos o.data (z.vaddr - o.vaddr).toNat z.data.val z.data.endian hk
  have hn := DD.setpart_ne_nil o.data (z.vaddr - o.vaddr).toNat z.data.val z.data.endian
  cases hs : o.data.setpart (z.vaddr - o.vaddr).toNat z.data.val z.data.endian with
  | nil => exact absurd hs hn
  | cons p0 ps =>
    rw [hs] at hf hp
    simp only
    refine ⟨⟨rfl, chain_contig _ _⟩, ?_, ?_⟩
    · rw [flatM_cons, chain_flatM, ← flat_cons]; exact hf
    · intro hz w hw
      have hp' := hp hz
      rcases List.mem_cons.mp hw with hw | hw
      · subst hw; exact hp' p0 List.mem_cons_self
      · exact chain_pos _ ps (fun p hp2 => hp' p (List.mem_cons_of_mem _ hp2)) w hw

theorem writeL_out (o z : Mo) (h2 : o.fin < z.vaddr) :
    writeL o z = [o, Mo.new z.vaddr z.data.val z.data.endian] := by
  have hc : (o.contains z.vaddr || z.vaddr == o.fin) = false := by
    simp only [Mo.contains, Bool.or_eq_false_iff, Bool.and_eq_false_iff, decide_eq_false_iff_not, beq_eq_false_iff_ne]
    omega
  unfold writeL Mo.write
  simp [hc]

/-- `mo.write` is "write z over o", for every position of `z` at or after the start of `o`. -/
theorem writeL_abs (o z : Mo) (h1 : o.vaddr ≤ z.vaddr) (q : Int) :
    absL (writeL o z) q = (absMo z q).or (absMo o q) := by
  by_cases h2 : z.vaddr ≤ o.fin
  · obtain ⟨hc, hf, _⟩ := writeL_in o z h1 h2
    rw [hc.absL q, hf]
    by_cases hq : o.vaddr ≤ q
    · simp only [hq, if_true]
      have hk : (z.vaddr - o.vaddr).toNat ≤ o.data.memBytes.length := by
        rw [← Mo.len_eq]; rw [Mo.fin_eq] at h2; omega
      rw [absMo_eq o q hq]
      have hM : o.data.memBytes.length = o.len := (Mo.len_eq o).symm
      have hN : z.data.memBytes.length = z.len := (Mo.len_eq z).symm
      have hT : (List.take (z.vaddr - o.vaddr).toNat o.data.memBytes).length = (z.vaddr - o.vaddr).toNat := by
        rw [List.length_take]; omega
      have hfz : z.fin = z.vaddr + (z.len : Int) := rfl
      by_cases hqa : q < z.vaddr
      · rw [absMo_none_lt z q hqa, Option.none_or, List.append_assoc, List.getElem?_append_left (by omega)]
        rw [List.getElem?_take]; simp; omega
      · by_cases hqb : q < z.fin
        · have hs := absMo_isSome z q (by omega) hqb
          rw [Option.or_of_isSome hs, absMo_eq z q (by omega)]
          rw [List.getElem?_append_left (by rw [List.length_append]; omega),
            List.getElem?_append_right (by omega)]
          congr 1; omega
        · rw [absMo_none_ge z q (by omega), Option.none_or]
          rw [List.getElem?_append_right (by rw [List.length_append]; omega), List.getElem?_drop]
          congr 1
          rw [List.length_append]; omega
    · rw [absMo_none_lt o q (by omega), absMo_none_lt z q (by omega)]; simp [hq]
  · rw [writeL_out o z (by omega), absL_cons, absL_cons, absL_nil, Option.or_none]
    have hz : absMo (Mo.new z.vaddr z.data.val z.data.endian) q = absMo z q := by
      unfold absMo; rw [Mo.new_vaddr, Mo.new_memBytes]; rfl
    rw [hz]
    cases h : absMo o q with
    | none => simp
    | some d =>
      have := absMo_some_range o q d h
      rw [absMo_none_lt z q (by omega)]; simp


theorem writeL_wf (o z : Mo) (h1 : o.vaddr ≤ z.vaddr) (ho : 0 < o.len) (hz : 0 < z.len) :
    ZoneWF (writeL o z) ∧ ∀ w ∈ writeL o z, o.vaddr ≤ w.vaddr ∧ w.fin ≤ max o.fin z.fin := by
  by_cases h2 : z.vaddr ≤ o.fin
  · obtain ⟨hc, hf, hp⟩ := writeL_in o z h1 h2
    refine ⟨⟨hp hz, hc.pairwise⟩, ?_⟩
    intro w hw
    have := hc.within w hw
    rw [hf] at this
    have hM : o.data.memBytes.length = o.len := (Mo.len_eq o).symm
    have hN : z.data.memBytes.length = z.len := (Mo.len_eq z).symm
    simp only [List.length_append, List.length_take, List.length_drop, hM, hN] at this
    have hfz : z.fin = z.vaddr + (z.len : Int) := rfl
    have hfo : o.fin = o.vaddr + (o.len : Int) := rfl
    omega
  · have hfz : z.fin = z.vaddr + (z.len : Int) := rfl
    have hfo : o.fin = o.vaddr + (o.len : Int) := rfl
    rw [writeL_out o z (by omega)]
    refine ⟨⟨?_, ?_⟩, ?_⟩
    · intro w hw
      simp only [List.mem_cons, List.not_mem_nil, or_false] at hw
      rcases hw with hw | hw
      · subst hw; exact ho
      · subst hw; rw [Mo.new_len]; exact hz
    · simp only [List.pairwise_cons, List.mem_singleton, forall_eq, List.not_mem_nil, false_imp_iff,
        implies_true, List.Pairwise.nil, and_true]
      rw [Mo.new_vaddr]; omega
    · intro w hw
      simp only [List.mem_cons, List.not_mem_nil, or_false] at hw
      rcases hw with hw | hw
      · subst hw; omega
      · subst hw; rw [Mo.new_vaddr, Mo.new_fin]
        have : z.data.val.len = z.len := rfl
        omega

/-! ### mo.trim -/

theorem trim_props (y : Mo) (b : Int) (h : y.contains b = true) :
    (y.trim b).vaddr = b ∧ (y.trim b).fin = y.fin ∧
    (y.trim b).data.memBytes = y.data.memBytes.drop (b - y.vaddr).toNat := by
  have hr : y.vaddr ≤ b ∧ b < y.fin := by
    simpa [Mo.contains] using h
  unfold Mo.trim
  simp only [h, if_true]
  by_cases hl : (b - y.vaddr).toNat > 0
  · simp only [hl, if_true]
    refine ⟨by trivial, ?_, DD.cut_memBytes _ _⟩
    have h1 : (y.data.cut (b - y.vaddr).toNat).len = y.data.len - (b - y.vaddr).toNat := by
      rw [← DD.memBytes_length, DD.cut_memBytes, List.length_drop, DD.memBytes_length]
    simp only [Mo.fin, h1]
    rw [Mo.fin_eq] at hr; unfold Mo.len at hr
    omega
  · simp only [hl, if_false]
    have : (b - y.vaddr).toNat = 0 := by omega
    refine ⟨by trivial, ?_, by rw [this]; rfl⟩
    simp only [Mo.fin]; omega

theorem trim_abs (y : Mo) (b : Int) (h : y.contains b = true) (q : Int) :
    absMo (y.trim b) q = if b ≤ q then absMo y q else none := by
  obtain ⟨h1, _, h3⟩ := trim_props y b h
  have hr : y.vaddr ≤ b ∧ b < y.fin := by
    simpa [Mo.contains] using h
  by_cases hq : b ≤ q
  · simp only [hq, if_true]
    rw [absMo_eq _ q (by omega), absMo_eq _ q (by omega), h3, List.getElem?_drop, h1]
    congr 1; omega
  · simp only [hq, if_false]
    exact absMo_none_lt _ q (by omega)

/-! ## Part C: locate -/

theorem locate_cons_eq (a : Int) (p : List Int) : locate (a :: p) a = some 0 := by
  simp [locate]

theorem locate_cons_lt (x a : Int) (p : List Int) (h : x < a) :
    locate (x :: p) a = match locate p a with
      | none => some 0
      | some i => some (i + 1) := by
  have hne : ¬ a = x := by omega
  have hne' : ¬ x = a := by omega
  unfold locate
  by_cases hc : p.contains a = true
  · have : (x :: p).contains a = true := by simp [hne] ; simpa using hc
    simp only [this, hc, if_true]
    have hb : (x == a) = false := by simp [hne']
    rw [List.idxOf_cons, hb]; rfl
  · have : ¬ (x :: p).contains a = true := by simp [hne]; simpa using hc
    simp only [this, hc, if_false]
    have hb : bisectLeft (x :: p) a = bisectLeft p a + 1 := by
      simp [bisectLeft, List.takeWhile_cons, h]
    rw [hb]
    by_cases h0 : bisectLeft p a = 0
    · simp [h0]
    · simp [h0]; omega

theorem locate_none_of (p : List Int) (a : Int) (h : ∀ y ∈ p, a < y) : locate p a = none := by
  unfold locate
  have hc : ¬ p.contains a = true := by
    simp only [List.contains_iff_mem]
    intro hm; have := h a hm; omega
  simp only [hc, if_false]
  cases p with
  | nil => simp [bisectLeft]
  | cons y p =>
    have : ¬ y < a := by have := h y List.mem_cons_self; omega
    simp [bisectLeft, List.takeWhile_cons, this]



def starts (m : List Mo) : List Int := m.map Mo.vaddr

theorem ZoneWF.nil : ZoneWF [] := ⟨by simp, List.Pairwise.nil⟩

theorem zoneWF_cons (x : Mo) (m : List Mo) :
    ZoneWF (x :: m) ↔ 0 < x.len ∧ (∀ y ∈ m, x.fin ≤ y.vaddr) ∧ ZoneWF m := by
  unfold ZoneWF
  simp only [List.mem_cons, forall_eq_or_imp, List.pairwise_cons]
  constructor
  · rintro ⟨⟨h1, h2⟩, h3, h4⟩; exact ⟨h1, h3, h2, h4⟩
  · rintro ⟨h1, h3, h2, h4⟩; exact ⟨⟨h1, h2⟩, h3, h4⟩

theorem zoneWF_append (m1 m2 : List Mo) :
    ZoneWF (m1 ++ m2) ↔ ZoneWF m1 ∧ ZoneWF m2 ∧ ∀ a ∈ m1, ∀ b ∈ m2, a.fin ≤ b.vaddr := by
  unfold ZoneWF
  simp only [List.mem_append, List.pairwise_append]
  constructor
  · rintro ⟨h1, h2, h3, h4⟩
    exact ⟨⟨fun o ho => h1 o (Or.inl ho), h2⟩, ⟨fun o ho => h1 o (Or.inr ho), h3⟩, h4⟩
  · rintro ⟨⟨h1, h2⟩, ⟨h3, h4⟩, h5⟩
    exact ⟨fun o ho => ho.elim (h1 o) (h3 o), h2, h4, h5⟩

theorem Mo.lt_fin (o : Mo) (h : 0 < o.len) : o.vaddr < o.fin := by rw [Mo.fin_eq]; omega

theorem locateM_none_of (m : List Mo) (a : Int) (h : ∀ y ∈ m, a < y.vaddr) : locate (starts m) a = none := by
  apply locate_none_of
  intro y hy
  obtain ⟨o, ho, rfl⟩ := List.mem_map.mp hy
  exact h o ho

theorem locateM_spec (m : List Mo) (a : Int) (wf : ZoneWF m) :
    match locate (starts m) a with
    | none => ∀ y ∈ m, a < y.vaddr
    | some i => ∃ pre x post, m = pre ++ x :: post ∧ pre.length = i ∧ x.vaddr ≤ a ∧ ∀ y ∈ post, a < y.vaddr := by
  induction m with
  | nil => simp [starts, locate, bisectLeft]
  | cons x m ih =>
    obtain ⟨hx, hxm, wfm⟩ := (zoneWF_cons x m).mp wf
    have hxf := Mo.lt_fin x hx
    have ih := ih wfm
    by_cases h1 : a < x.vaddr
    · have : locate (starts (x :: m)) a = none := by
        apply locateM_none_of
        intro y hy
        rcases List.mem_cons.mp hy with hy | hy
        · subst hy; exact h1
        · have := hxm y hy; omega
      rw [this]
      intro y hy
      rcases List.mem_cons.mp hy with hy | hy
      · subst hy; exact h1
      · have := hxm y hy; omega
    · by_cases h2 : x.vaddr = a
      · have : locate (starts (x :: m)) a = some 0 := by
          simp only [starts, List.map_cons, h2]; exact locate_cons_eq a _
        rw [this]
        refine ⟨[], x, m, rfl, rfl, by omega, ?_⟩
        intro y hy; have := hxm y hy; omega
      · have hlt : x.vaddr < a := by omega
        have e := locate_cons_lt x.vaddr a (starts m) hlt
        have e' : locate (starts (x :: m)) a = _ := e
        rw [e']
        cases hl : locate (starts m) a with
        | none =>
          rw [hl] at ih
          exact ⟨[], x, m, rfl, rfl, by omega, ih⟩
        | some i =>
          rw [hl] at ih
          obtain ⟨pre, x', post, hm, hlen, hx', hpost⟩ := ih
          exact ⟨x :: pre, x', post, by rw [hm]; rfl, by simp [hlen], hx', hpost⟩

theorem locateM_none (m : List Mo) (a : Int) (wf : ZoneWF m) (h : locate (starts m) a = none) :
    ∀ y ∈ m, a < y.vaddr := by
  have := locateM_spec m a wf; rw [h] at this; exact this

theorem locateM_some (m : List Mo) (a : Int) (i : Nat) (wf : ZoneWF m) (h : locate (starts m) a = some i) :
    ∃ pre x post, m = pre ++ x :: post ∧ pre.length = i ∧ x.vaddr ≤ a ∧ ∀ y ∈ post, a < y.vaddr := by
  have := locateM_spec m a wf; rw [h] at this; exact this

theorem locateM_of_decomp (pre : List Mo) (x : Mo) (post : List Mo) (a : Int)
    (wf : ZoneWF (pre ++ x :: post)) (h1 : x.vaddr ≤ a) (h2 : ∀ y ∈ post, a < y.vaddr) :
    locate (starts (pre ++ x :: post)) a = some pre.length := by
  induction pre with
  | nil =>
    by_cases h : x.vaddr = a
    · simp only [List.nil_append, starts, List.map_cons, h]; exact locate_cons_eq a _
    · have e := locate_cons_lt x.vaddr a (starts post) (by omega)
      have e' : locate (starts ([] ++ x :: post)) a = _ := e
      rw [e', locateM_none_of post a h2]; rfl
  | cons w pre ih =>
    obtain ⟨hw, hwm, wfm⟩ := (zoneWF_cons w _).mp wf
    have hwf := Mo.lt_fin w hw
    have := hwm x (by simp)
    have e := locate_cons_lt w.vaddr a (starts (pre ++ x :: post)) (by omega)
    have e' : locate (starts (w :: pre ++ x :: post)) a = _ := e
    rw [e', ih wfm]; rfl

theorem locateM_append_gt (m1 m2 : List Mo) (a : Int) (wf : ZoneWF (m1 ++ m2)) (h : ∀ y ∈ m2, a < y.vaddr) :
    locate (starts (m1 ++ m2)) a = locate (starts m1) a := by
  obtain ⟨wf1, wf2, h12⟩ := (zoneWF_append m1 m2).mp wf
  cases hl : locate (starts m1) a with
  | none =>
    apply locateM_none_of
    intro y hy
    rcases List.mem_append.mp hy with hy | hy
    · exact locateM_none m1 a wf1 hl y hy
    · exact h y hy
  | some i =>
    obtain ⟨pre, x, post, hm, hlen, hx, hpost⟩ := locateM_some m1 a i wf1 hl
    subst hm
    rw [← hlen]
    have : (pre ++ x :: post) ++ m2 = pre ++ x :: (post ++ m2) := by simp
    rw [this] at wf ⊢
    apply locateM_of_decomp _ _ _ _ wf hx
    intro y hy
    rcases List.mem_append.mp hy with hy | hy
    · exact hpost y hy
    · exact h y hy


/-! ## Part D: addtomap -/

/-- what remains of the object `y` holding `z.end`, and of everything after it. -/
def tailPart (y : Mo) (post : List Mo) (b : Int) : List Mo :=
  if y.contains b then y.trim b :: post else post

theorem addtomapL_none (p : List Int) (m : List Mo) (z : Mo) (h : locate p z.fin = none) :
    addtomapL p m z = z :: m := by
  unfold addtomapL; simp [h]

theorem drop_len_succ (pre : List Mo) (y : Mo) (post : List Mo) :
    List.drop (pre.length + 1) (pre ++ y :: post) = post := by
  rw [List.drop_length_add_append]; rfl

theorem drop_len (pre : List Mo) (post : List Mo) :
    List.drop pre.length (pre ++ post) = post := List.drop_left' rfl

theorem addtomapL_same (p : List Int) (pre : List Mo) (y : Mo) (post : List Mo) (z : Mo)
    (hj : locate p z.fin = some pre.length) (hi : locate p z.vaddr = some pre.length) :
    addtomapL p (pre ++ y :: post) z = pre ++ writeL y z ++ post := by
  unfold addtomapL
  simp only [hj, hi, if_true]
  rw [List.getElem?_append_right (Nat.le_refl _)]
  simp only [Nat.sub_self, List.getElem?_cons_zero]
  rw [List.take_left' rfl, drop_len_succ]; rfl

theorem addtomapL_diff_none (p : List Int) (A : List Mo) (y : Mo) (post : List Mo) (z : Mo)
    (hj : locate p z.fin = some A.length) (hi : locate p z.vaddr = none) :
    addtomapL p (A ++ y :: post) z = z :: tailPart y post z.fin := by
  unfold addtomapL tailPart
  simp only [hj, hi]
  rw [List.getElem?_append_right (Nat.le_refl _)]
  simp only [Nat.sub_self, List.getElem?_cons_zero, reduceCtorEq, if_false]
  by_cases hc : y.contains z.fin = true
  · simp only [hc, if_true]
    rw [List.set_append_right _ _ (Nat.le_refl _)]
    simp only [Nat.sub_self, List.set_cons_zero]
    rw [drop_len]
  · have hc' : y.contains z.fin = false := by simpa using hc
    simp only [hc', Bool.false_eq_true, if_false]
    rw [drop_len_succ]

theorem addtomapL_diff_some (p : List Int) (pre : List Mo) (x : Mo) (mid : List Mo) (y : Mo) (post : List Mo)
    (z : Mo) (hj : locate p z.fin = some (pre ++ x :: mid).length) (hi : locate p z.vaddr = some pre.length) :
    addtomapL p ((pre ++ x :: mid) ++ y :: post) z =
      pre ++ (if z.vaddr ≤ x.fin then writeL x z else [x, z]) ++ tailPart y post z.fin := by
  have hne : ¬ (pre.length = (pre ++ x :: mid).length) := by simp
  unfold addtomapL tailPart
  simp only [hj, hi, Option.some.injEq, hne, if_false]
  rw [List.getElem?_append_right (Nat.le_refl _)]
  simp only [Nat.sub_self, List.getElem?_cons_zero]
  by_cases hc : y.contains z.fin = true
  · simp only [hc, if_true]
    rw [List.set_append_right _ _ (Nat.le_refl _)]
    simp only [Nat.sub_self, List.set_cons_zero]
    rw [drop_len]
    have e : (pre ++ x :: mid) ++ y.trim z.fin :: post = pre ++ x :: (mid ++ y.trim z.fin :: post) := by simp
    rw [e, List.getElem?_append_right (Nat.le_refl _)]
    simp only [Nat.sub_self, List.getElem?_cons_zero]
    rw [List.take_left' rfl]
    by_cases hx : z.vaddr ≤ x.fin
    · simp only [hx, if_true]; rfl
    · simp only [hx, if_false]
      have : List.take (pre.length + 1) (pre ++ x :: (mid ++ y.trim z.fin :: post)) = pre ++ [x] := by
        rw [List.take_length_add_append]; rfl
      rw [this]; simp
  · have hc' : y.contains z.fin = false := by simpa using hc
    simp only [hc', Bool.false_eq_true, if_false]
    rw [drop_len_succ]
    have e : (pre ++ x :: mid) ++ y :: post = pre ++ x :: (mid ++ y :: post) := by simp
    rw [e, List.getElem?_append_right (Nat.le_refl _)]
    simp only [Nat.sub_self, List.getElem?_cons_zero]
    rw [List.take_left' rfl]
    by_cases hx : z.vaddr ≤ x.fin
    · simp only [hx, if_true]; rfl
    · simp only [hx, if_false]
      have : List.take (pre.length + 1) (pre ++ x :: (mid ++ y :: post)) = pre ++ [x] := by
        rw [List.take_length_add_append]; rfl
      rw [this]; simp


theorem contains_iff (y : Mo) (b : Int) : y.contains b = true ↔ y.vaddr ≤ b ∧ b < y.fin := by
  simp [Mo.contains]

theorem tailPart_ge (y : Mo) (post : List Mo) (b q : Int) (hy : y.vaddr ≤ b) (hq : b ≤ q) :
    absL (tailPart y post b) q = absL (y :: post) q := by
  unfold tailPart
  by_cases hc : y.contains b = true
  · simp only [hc, if_true]
    rw [absL_cons, absL_cons, trim_abs y b hc]; simp [hq]
  · simp only [hc]
    have : y.fin ≤ b := by
      rw [contains_iff] at hc; omega
    rw [absL_cons, absMo_none_ge y q (by omega)]; rfl

theorem tailPart_lt (y : Mo) (post : List Mo) (b q : Int) (hp : ∀ w ∈ post, b < w.vaddr) (hq : q < b) :
    absL (tailPart y post b) q = none := by
  have hpost : absL post q = none := absL_none_of post q (fun w hw => Or.inl (by have := hp w hw; omega))
  unfold tailPart
  by_cases hc : y.contains b = true
  · simp only [hc, if_true]
    rw [absL_cons, trim_abs y b hc, hpost]
    have : ¬ b ≤ q := by omega
    simp [this]
  · simp only [hc]; exact hpost

theorem tailPart_wf (y : Mo) (post : List Mo) (b : Int) (wf : ZoneWF (y :: post)) (hp : ∀ w ∈ post, b < w.vaddr) :
    ZoneWF (tailPart y post b) ∧ ∀ w ∈ tailPart y post b, b ≤ w.vaddr := by
  obtain ⟨hy, hyp, wfp⟩ := (zoneWF_cons y post).mp wf
  unfold tailPart
  by_cases hc : y.contains b = true
  · simp only [hc, if_true]
    obtain ⟨t1, t2, t3⟩ := trim_props y b hc
    have hr := (contains_iff y b).mp hc
    constructor
    · rw [zoneWF_cons]
      refine ⟨?_, ?_, wfp⟩
      · have : (y.trim b).fin = (y.trim b).vaddr + ((y.trim b).len : Int) := rfl
        omega
      · intro w hw; rw [t2]; exact hyp w hw
    · intro w hw
      rcases List.mem_cons.mp hw with hw | hw
      · subst hw; omega
      · have := hp w hw; omega
  · simp only [hc]
    exact ⟨wfp, fun w hw => by have := hp w hw; omega⟩

/-- what replaces the object `x` in which (or after which) `z` starts. -/
def headPart (x z : Mo) : List Mo := if z.vaddr ≤ x.fin then writeL x z else [x, z]

theorem headPart_abs (x z : Mo) (h1 : x.vaddr ≤ z.vaddr) (q : Int) :
    absL (headPart x z) q = (absMo z q).or (absMo x q) := by
  unfold headPart
  by_cases h2 : z.vaddr ≤ x.fin
  · simp only [h2, if_true]; exact writeL_abs x z h1 q
  · simp only [h2, if_false]
    rw [absL_cons, absL_cons, absL_nil, Option.or_none]
    cases h : absMo x q with
    | none => simp
    | some d =>
      have := absMo_some_range x q d h
      rw [absMo_none_lt z q (by omega)]; simp

theorem headPart_wf (x z : Mo) (h1 : x.vaddr ≤ z.vaddr) (hx : 0 < x.len) (hz : 0 < z.len) :
    ZoneWF (headPart x z) ∧ ∀ w ∈ headPart x z, x.vaddr ≤ w.vaddr ∧ w.fin ≤ max x.fin z.fin := by
  unfold headPart
  by_cases h2 : z.vaddr ≤ x.fin
  · simp only [h2, if_true]; exact writeL_wf x z h1 hx hz
  · simp only [h2, if_false]
    have hfz := Mo.lt_fin z hz
    have hfx := Mo.lt_fin x hx
    refine ⟨?_, ?_⟩
    · rw [zoneWF_cons, zoneWF_cons]
      refine ⟨hx, ?_, hz, by simp, ZoneWF.nil⟩
      intro w hw; simp only [List.mem_singleton] at hw; subst hw; omega
    · intro w hw
      simp only [List.mem_cons, List.not_mem_nil, or_false] at hw
      rcases hw with hw | hw <;> subst hw <;> omega


theorem absMo_none_range (z : Mo) (q : Int) (h : absMo z q = none) : q < z.vaddr ∨ z.fin ≤ q := by
  by_cases h1 : z.vaddr ≤ q
  · by_cases h2 : q < z.fin
    · have := absMo_isSome z q h1 h2; rw [h] at this; cases this
    · right; omega
  · left; omega

theorem zoneWF_splice (pre H T : List Mo) (lo hi : Int) (hlh : lo ≤ hi)
    (wfp : ZoneWF pre) (wfH : ZoneWF H) (wfT : ZoneWF T)
    (h1 : ∀ p ∈ pre, p.fin ≤ lo) (h2 : ∀ w ∈ H, lo ≤ w.vaddr ∧ w.fin ≤ hi) (h3 : ∀ t ∈ T, hi ≤ t.vaddr) :
    ZoneWF (pre ++ H ++ T) := by
  rw [zoneWF_append, zoneWF_append]
  refine ⟨⟨wfp, wfH, ?_⟩, wfT, ?_⟩
  · intro a ha b hb; have := h1 a ha; have := (h2 b hb).1; omega
  · intro a ha b hb
    have := h3 b hb
    rcases List.mem_append.mp ha with ha | ha
    · have := h1 a ha; omega
    · have := (h2 a ha).2; omega

/-- `addtomap` on a well-formed zone: the result is well formed and is "z written over m". -/
theorem addtomapL_spec (m : List Mo) (z : Mo) (wf : ZoneWF m) (hz : 0 < z.len) :
    ZoneWF (addtomapL (starts m) m z) ∧
    ∀ q, absL (addtomapL (starts m) m z) q = (absMo z q).or (absL m q) := by
  have hab := Mo.lt_fin z hz
  cases hj : locate (starts m) z.fin with
  | none =>
    have hall := locateM_none m z.fin wf hj
    rw [addtomapL_none _ _ _ hj]
    refine ⟨?_, fun q => absL_cons z m q⟩
    rw [zoneWF_cons]
    exact ⟨hz, fun y hy => by have := hall y hy; omega, wf⟩
  | some j =>
    obtain ⟨A, y, post, hm, hlen, hyb, hpost⟩ := locateM_some m z.fin j wf hj
    subst hm
    subst hlen
    obtain ⟨wfA, wfyp, hAyp⟩ := (zoneWF_append A (y :: post)).mp wf
    obtain ⟨hy, hyp, wfp⟩ := (zoneWF_cons y post).mp wfyp
    have hyf := Mo.lt_fin y hy
    by_cases hya : y.vaddr ≤ z.vaddr
    · -- z starts in (or after) the object that holds z.end: j == i
      have hi : locate (starts (A ++ y :: post)) z.vaddr = some A.length :=
        locateM_of_decomp A y post z.vaddr wf hya (fun w hw => by have := hpost w hw; omega)
      rw [addtomapL_same _ _ _ _ _ hj hi]
      obtain ⟨wfH, hH⟩ := writeL_wf y z hya hy hz
      constructor
      · apply zoneWF_splice A (writeL y z) post y.vaddr (max y.fin z.fin) (by omega) wfA wfH wfp
        · intro p hp; exact hAyp p hp y List.mem_cons_self
        · exact hH
        · intro t ht; have := hpost t ht; have := hyp t ht; omega
      · intro q
        rw [absL_append, absL_append, absL_append, absL_cons, writeL_abs y z hya q]
        cases hzq : absMo z q with
        | none => simp [Option.or_assoc]
        | some d =>
          have hr := absMo_some_range z q d hzq
          have : absL A q = none := absL_none_of A q (fun p hp => Or.inr (by
            have := hAyp p hp y List.mem_cons_self; omega))
          rw [this]; simp
    · -- j != i
      have hgt : ∀ w ∈ y :: post, z.vaddr < w.vaddr := by
        intro w hw
        rcases List.mem_cons.mp hw with hw | hw
        · subst hw; omega
        · have := hpost w hw; omega
      have hiA := locateM_append_gt A (y :: post) z.vaddr wf hgt
      obtain ⟨wfT, hT⟩ := tailPart_wf y post z.fin wfyp hpost
      cases hi : locate (starts A) z.vaddr with
      | none =>
        have hallA := locateM_none A z.vaddr wfA hi
        rw [hi] at hiA
        rw [addtomapL_diff_none _ _ _ _ _ hj hiA]
        constructor
        · rw [zoneWF_cons]; exact ⟨hz, hT, wfT⟩
        · intro q
          rw [absL_cons, absL_append]
          cases hzq : absMo z q with
          | some d => simp
          | none =>
            simp only [Option.none_or]
            rcases absMo_none_range z q hzq with hq | hq
            · rw [tailPart_lt y post z.fin q hpost (by omega)]
              rw [absL_none_of A q (fun p hp => Or.inl (by have := hallA p hp; omega))]
              rw [absL_none_of (y :: post) q (fun p hp => Or.inl (by have := hgt p hp; omega))]
              rfl
            · rw [tailPart_ge y post z.fin q hyb hq]
              rw [absL_none_of A q (fun p hp => Or.inr (by
                have := hAyp p hp y List.mem_cons_self; omega))]
              rfl
      | some i =>
        rw [hi] at hiA
        obtain ⟨pre, x, mid, hA, hlen, hxa, hmid⟩ := locateM_some A z.vaddr i wfA hi
        subst hA
        subst hlen
        rw [addtomapL_diff_some _ _ _ _ _ _ _ hj hiA]
        have e : (if z.vaddr ≤ x.fin then writeL x z else [x, z]) = headPart x z := rfl
        rw [e]
        obtain ⟨wfpre, wfxm, hpxm⟩ := (zoneWF_append pre (x :: mid)).mp wfA
        obtain ⟨hx, hxm, wfmid⟩ := (zoneWF_cons x mid).mp wfxm
        obtain ⟨wfH, hH⟩ := headPart_wf x z hxa hx hz
        have hxy : x.fin ≤ y.vaddr := hAyp x (by simp) y List.mem_cons_self
        constructor
        · apply zoneWF_splice pre (headPart x z) (tailPart y post z.fin) x.vaddr z.fin (by omega) wfpre wfH wfT
          · intro p hp; exact hpxm p hp x List.mem_cons_self
          · intro w hw; have := hH w hw; omega
          · exact hT
        · intro q
          have hpre_ge : x.vaddr ≤ q → absL pre q = none := fun hq =>
            absL_none_of pre q (fun p hp => Or.inr (by have := hpxm p hp x List.mem_cons_self; omega))
          rw [absL_append, absL_append, headPart_abs x z hxa q]
          rw [absL_append, absL_append, absL_cons]
          cases hzq : absMo z q with
          | some d =>
            have hr := absMo_some_range z q d hzq
            rw [hpre_ge (by omega)]; simp
          | none =>
            simp only [Option.none_or]
            rcases absMo_none_range z q hzq with hq | hq
            · rw [tailPart_lt y post z.fin q hpost (by omega)]
              rw [absL_none_of mid q (fun p hp => Or.inl (by have := hmid p hp; omega))]
              rw [absL_none_of (y :: post) q (fun p hp => Or.inl (by have := hgt p hp; omega))]
              simp
            · rw [tailPart_ge y post z.fin q hyb hq]
              rw [absL_none_of mid q (fun p hp => Or.inr (by
                have := hAyp p (by simp [hp]) y List.mem_cons_self; omega))]
              simp


end Amoco.Memory
