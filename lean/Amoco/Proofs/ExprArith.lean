/-
  Amoco.Proofs.ExprArith — modular-arithmetic facts behind the `+`/`-` normalisation rules, the
  constant table of `cst`, comparisons and their negations, `x op x`, `== bit`, rotations.
-/
import Amoco.Proofs.ExprBits
import Mathlib.Tactic.SplitIfs

namespace Amoco.Bits

open Amoco.Expr

/-! ### `wrap` : integers modulo `2^w` -/

theorem wrap_lt (w : Nat) (x : Int) : wrap w x < 2 ^ w := by
  unfold wrap
  have hp : (0 : Int) < ((2 ^ w : Nat) : Int) := by exact_mod_cast two_pow_pos' w
  have h1 := Int.emod_lt_of_pos x hp
  have h0 := Int.emod_nonneg x (ne_of_gt hp)
  omega

theorem wrap_cast (w : Nat) (x : Int) : ((wrap w x : Nat) : Int) = x % ((2 ^ w : Nat) : Int) := by
  unfold wrap
  have hp : (0 : Int) < ((2 ^ w : Nat) : Int) := by exact_mod_cast two_pow_pos' w
  exact Int.toNat_of_nonneg (Int.emod_nonneg x (ne_of_gt hp))

theorem wrap_congr (w : Nat) (x y : Int) (h : x % ((2 ^ w : Nat) : Int) = y % ((2 ^ w : Nat) : Int)) :
    wrap w x = wrap w y := by
  unfold wrap; rw [h]

theorem wrap_add_left (w : Nat) (x y : Int) : wrap w ((wrap w x : Nat) + y) = wrap w (x + y) := by
  apply wrap_congr; rw [wrap_cast]; exact Int.emod_add_emod x _ y

theorem wrap_add_right (w : Nat) (x y : Int) : wrap w (x + (wrap w y : Nat)) = wrap w (x + y) := by
  apply wrap_congr; rw [wrap_cast]; exact Int.add_emod_emod x y _

theorem wrap_sub_left (w : Nat) (x y : Int) : wrap w ((wrap w x : Nat) - y) = wrap w (x - y) := by
  apply wrap_congr; rw [wrap_cast]; exact Int.emod_sub_emod x _ y

theorem wrap_sub_right (w : Nat) (x y : Int) : wrap w (x - (wrap w y : Nat)) = wrap w (x - y) := by
  apply wrap_congr; rw [wrap_cast]; exact Int.sub_emod_emod x y _

theorem wrap_neg (w : Nat) (x : Int) : wrap w (-((wrap w x : Nat) : Int)) = wrap w (-x) := by
  have := wrap_sub_right w 0 x
  simpa using this

theorem wrap_mul_left (w : Nat) (x y : Int) : wrap w ((wrap w x : Nat) * y) = wrap w (x * y) := by
  apply wrap_congr; rw [wrap_cast, Int.mul_emod, Int.emod_emod_of_dvd _ (dvd_refl _), ← Int.mul_emod]

theorem wrap_mul_right (w : Nat) (x y : Int) : wrap w (x * (wrap w y : Nat)) = wrap w (x * y) := by
  apply wrap_congr; rw [wrap_cast, Int.mul_emod, Int.emod_emod_of_dvd _ (dvd_refl _), ← Int.mul_emod]

theorem wrap_of_nat (w a : Nat) : wrap w (a : Int) = a % 2 ^ w := by
  unfold wrap
  have : ((a : Int) % ((2 ^ w : Nat) : Int)) = ((a % 2 ^ w : Nat) : Int) := by push_cast; rfl
  rw [this]; rfl

theorem wrap_of_lt (w a : Nat) (h : a < 2 ^ w) : wrap w (a : Int) = a := by
  rw [wrap_of_nat, Nat.mod_eq_of_lt h]

theorem wrap_add_pow (w : Nat) (x : Int) : wrap w (x + ((2 ^ w : Nat) : Int)) = wrap w x := by
  apply wrap_congr; exact Int.add_emod_right x _

/-- the signed reading is congruent to the value -/
theorem wrap_toInt (w a : Nat) (h : a < 2 ^ w) : wrap w (toInt w a) = a := by
  unfold toInt
  split
  · have : ((a : Int) - ((2 ^ w : Nat) : Int)) = (a : Int) + (-1) * ((2 ^ w : Nat) : Int) := by ring
    rw [this]
    have : wrap w ((a : Int) + -1 * ((2 ^ w : Nat) : Int)) = wrap w (a : Int) := by
      apply wrap_congr; exact Int.add_mul_emod_self_right _ _ _
    rw [this, wrap_of_lt w a h]
  · exact wrap_of_lt w a h

/-- `cst(x, size).v` for a Python integer `x` -/
theorem mkCst_v (x : Int) (s : Nat) : mkCst x s = Expr.cst (wrap s x) s (decide (x < 0)) := rfl

/-- `cst.value` is congruent to `cst.v`, whatever the sign flag -/
theorem wrap_cstValue (v s : Nat) (f : Bool) (h : v < 2 ^ s) : wrap s (cstValue v s f) = v := by
  unfold cstValue
  split
  · have : ((v : Int) - ((2 ^ s : Nat) : Int)) = (v : Int) + (-1) * ((2 ^ s : Nat) : Int) := by ring
    rw [this]
    have : wrap s ((v : Int) + -1 * ((2 ^ s : Nat) : Int)) = wrap s (v : Int) := by
      apply wrap_congr; exact Int.add_mul_emod_self_right _ _ _
    rw [this, wrap_of_lt s v h]
  · exact wrap_of_lt s v h

theorem cstValue_signed (v s : Nat) : cstValue v s true = toInt s v := by
  unfold cstValue toInt; simp

theorem cstValue_unsigned (v s : Nat) : cstValue v s false = (v : Int) := by
  unfold cstValue; simp

/-! ### `+` / `-` : the algebra behind re-association and constant merging -/

/-- integer meaning of `+`/`-` -/
def pmInt (o : Op) (x y : Int) : Int := if o = Op.sub then x - y else x + y

theorem binSem_add (sg : Bool) (w a b : Nat) : binSem Op.add sg w a b = wrap w ((a : Int) + b) := by
  unfold binSem
  rw [← wrap_of_nat]; push_cast; rfl

theorem binSem_sub (sg : Bool) (w a b : Nat) : binSem Op.sub sg w a b = wrap w ((a : Int) - b) := rfl

theorem binSem_pm (o : Op) (h : o = Op.add ∨ o = Op.sub) (sg : Bool) (w a b : Nat) :
    binSem o sg w a b = wrap w (pmInt o a b) := by
  rcases h with h | h <;> subst h
  · rw [binSem_add]; rfl
  · rw [binSem_sub]; rfl

theorem wrap_pm_left (o : Op) (w : Nat) (x y : Int) : wrap w (pmInt o ((wrap w x : Nat) : Int) y) = wrap w (pmInt o x y) := by
  unfold pmInt; split
  · exact wrap_sub_left w x y
  · exact wrap_add_left w x y

theorem wrap_pm_right (o : Op) (w : Nat) (x y : Int) : wrap w (pmInt o x ((wrap w y : Nat) : Int)) = wrap w (pmInt o x y) := by
  unfold pmInt; split
  · exact wrap_sub_right w x y
  · exact wrap_add_right w x y

/-- rule *reassoc_pm (1)*: `((a lo c) o r)  ⇒  ((a o r) lo c)` for `o, lo ∈ {+,-}` -/
theorem reassoc_pm_left (o lo : Op) (ho : o = Op.add ∨ o = Op.sub) (hlo : lo = Op.add ∨ lo = Op.sub)
    (sg1 sg2 sg3 sg4 : Bool) (w a c r : Nat) :
    binSem o sg1 w (binSem lo sg2 w a c) r = binSem lo sg3 w (binSem o sg4 w a r) c := by
  rw [binSem_pm o ho, binSem_pm lo hlo, binSem_pm lo hlo, binSem_pm o ho, wrap_pm_left, wrap_pm_left]
  congr 1
  rcases ho with h | h <;> rcases hlo with h' | h' <;> subst h <;> subst h' <;> simp [pmInt] <;> ring

/-- rule *add_neg*: `l + (-r)  ⇒  l - r` -/
theorem add_neg_to_sub (sg : Bool) (w l r : Nat) :
    binSem Op.add sg w l (unSem Op.sub w r) = binSem Op.sub sg w l r := by
  rw [binSem_add, binSem_sub]
  show wrap w ((l : Int) + ((wrap w (-(r : Int)) : Nat) : Int)) = _
  rw [wrap_add_right]; congr 1

/-- rule *reassoc_pm (2)*: `(l o (a ro c))  ⇒  ((l o a) (o·ro) c)` where `o·ro` is the sign product -/
theorem reassoc_pm_right (o ro x : Op) (hx : Op.pm o ro = some x) (sg1 sg2 sg3 sg4 : Bool) (w l a c : Nat) :
    binSem o sg1 w l (binSem ro sg2 w a c) = binSem x sg3 w (binSem o sg4 w l a) c := by
  have key : ∀ o ro x, Op.pm o ro = some x → (o = Op.add ∨ o = Op.sub) ∧ (ro = Op.add ∨ ro = Op.sub) ∧ (x = Op.add ∨ x = Op.sub) := by
    intro o ro x h
    cases o <;> cases ro <;> simp [Op.pm] at h <;> subst h <;> simp
  obtain ⟨ho, hro, hxx⟩ := key o ro x hx
  rw [binSem_pm o ho, binSem_pm ro hro, binSem_pm x hxx, binSem_pm o ho, wrap_pm_right, wrap_pm_left]
  congr 1
  rcases ho with h | h <;> rcases hro with h' | h' <;> subst h <;> subst h' <;> simp [Op.pm] at hx <;> subst hx <;>
    simp [pmInt] <;> ring

/-- rule *merge_consts*: `((a lo c2) o c1)  ⇒  (a lo (c2 (o·lo) c1))` -/
theorem merge_consts (o lo x : Op) (hx : Op.pm o lo = some x) (sg1 sg2 sg3 sg4 : Bool) (w a c2 c1 : Nat) :
    binSem o sg1 w (binSem lo sg2 w a c2) c1 = binSem lo sg3 w a (binSem x sg4 w c2 c1) := by
  have key : ∀ o ro x, Op.pm o ro = some x → (o = Op.add ∨ o = Op.sub) ∧ (ro = Op.add ∨ ro = Op.sub) ∧ (x = Op.add ∨ x = Op.sub) := by
    intro o ro x h
    cases o <;> cases ro <;> simp [Op.pm] at h <;> subst h <;> simp
  obtain ⟨ho, hlo, hxx⟩ := key o lo x hx
  rw [binSem_pm o ho, binSem_pm lo hlo, binSem_pm lo hlo, binSem_pm x hxx, wrap_pm_left, wrap_pm_right]
  congr 1
  rcases ho with h | h <;> rcases hlo with h' | h' <;> subst h <;> subst h' <;> simp [Op.pm] at hx <;> subst hx <;>
    simp [pmInt] <;> ring

/-- rule *neg_of_sum*: `-(a ro b)  ⇒  ((-a) (−·ro) b)` -/
theorem neg_of_sum (ro x : Op) (hx : Op.pm Op.sub ro = some x) (sg1 sg2 : Bool) (w a b : Nat) :
    unSem Op.sub w (binSem ro sg1 w a b) = binSem x sg2 w (unSem Op.sub w a) b := by
  have hro : ro = Op.add ∨ ro = Op.sub := by cases ro <;> simp [Op.pm] at hx <;> simp
  have hxx : x = Op.add ∨ x = Op.sub := by cases ro <;> simp [Op.pm] at hx <;> subst hx <;> simp
  rw [binSem_pm ro hro, binSem_pm x hxx]
  show wrap w (-((wrap w (pmInt ro a b) : Nat) : Int)) = wrap w (pmInt x ((wrap w (-(a : Int)) : Nat) : Int) b)
  rw [wrap_neg, wrap_pm_left]
  congr 1
  rcases hro with h | h <;> subst h <;> simp [Op.pm] at hx <;> subst hx <;> simp [pmInt] <;> ring

/-- rule *neg_neg*: `-(-x) ⇒ x` -/
theorem neg_neg (w a : Nat) (h : a < 2 ^ w) : unSem Op.sub w (unSem Op.sub w a) = a := by
  show wrap w (-((wrap w (-(a : Int)) : Nat) : Int)) = a
  rw [wrap_neg]; simp [wrap_of_lt w a h]

/-- operand swap of `-` in `op.simplify`: `l - r ⇒ (-r) + l` -/
theorem sub_swap (sg1 sg2 : Bool) (w l r : Nat) :
    binSem Op.sub sg1 w l r = binSem Op.add sg2 w (unSem Op.sub w r) l := by
  rw [binSem_sub, binSem_add]
  show _ = wrap w (((wrap w (-(r : Int)) : Nat) : Int) + l)
  rw [wrap_add_left]; congr 1; ring

/-! ### identities with a constant operand -/

theorem op_zero_right (o : Op) (ho : o = Op.or ∨ o = Op.xor ∨ o = Op.add ∨ o = Op.sub ∨ o = Op.lsr ∨ o = Op.lsl)
    (sg : Bool) (w a : Nat) (h : a < 2 ^ w) (hw : 0 < w) : binSem o sg w a 0 = a := by
  rcases ho with h' | h' | h' | h' | h' | h' <;> subst h'
  · simp [binSem]
  · simp [binSem]
  · simp [binSem, Nat.mod_eq_of_lt h]
  · rw [binSem_sub]; simp [wrap_of_lt w a h]
  · simp [binSem]
  · have : ¬ (0 ≥ w) := by omega
    simp [binSem, this, Nat.mod_eq_of_lt h]

theorem op_zero_absorb (o : Op) (ho : o = Op.and ∨ o = Op.mul) (sg : Bool) (w a : Nat) : binSem o sg w a 0 = 0 := by
  rcases ho with h' | h' <;> subst h' <;> simp [binSem]

theorem mul2_zero (sg : Bool) (w a : Nat) : binSem Op.mul2 sg w a 0 = 0 := by
  unfold binSem
  by_cases h : sg <;> simp [h, wrap, toInt]

theorem mul_one (sg : Bool) (w a : Nat) (h : a < 2 ^ w) : binSem Op.mul sg w a 1 = a := by
  simp [binSem, Nat.mod_eq_of_lt h]

theorem div_one_unsigned (w a : Nat) (h : a < 2 ^ w) : binSem Op.div false w a 1 = a := by
  simp [binSem, Nat.mod_eq_of_lt h]

/-! ### `x op x` (operands with the same meaning) -/

theorem x_sub_x (sg : Bool) (w a : Nat) : binSem Op.sub sg w a a = 0 := by
  rw [binSem_sub]; simp [wrap]

theorem x_xor_x (sg : Bool) (w a : Nat) : binSem Op.xor sg w a a = 0 := by simp [binSem]
theorem x_and_x (sg : Bool) (w a : Nat) : binSem Op.and sg w a a = a := by simp [binSem]
theorem x_or_x (sg : Bool) (w a : Nat) : binSem Op.or sg w a a = a := by simp [binSem]

theorem x_cmp_x_false (o : Op) (ho : o = Op.neq ∨ o = Op.lt ∨ o = Op.gt) (sg : Bool) (w a : Nat) : binSem o sg w a a = 0 := by
  rcases ho with h | h | h <;> subst h <;> cases sg <;> simp [binSem, b2n]

theorem x_cmp_x_true (o : Op) (ho : o = Op.eq ∨ o = Op.le ∨ o = Op.ge) (sg : Bool) (w a : Nat) : binSem o sg w a a = 1 := by
  rcases ho with h | h | h <;> subst h <;> cases sg <;> simp [binSem, b2n]

/-! ### conditions: `== bit`, negation -/

/-- rule *eq_bit*: `(c == 1) ⇒ c`, `(c == 0) ⇒ ~c`, `(c != 1) ⇒ ~c`, `(c != 0) ⇒ c` for a 1-bit `c` -/
theorem eq_bit1 (sg : Bool) (c : Nat) (h : c < 2) : binSem Op.eq sg 1 c 1 = c := by
  have : c = 0 ∨ c = 1 := by omega
  rcases this with h | h <;> subst h <;> simp [binSem, b2n]

theorem eq_bit0 (sg : Bool) (c : Nat) (h : c < 2) : binSem Op.eq sg 1 c 0 = unSem Op.not 1 c := by
  have : c = 0 ∨ c = 1 := by omega
  rcases this with h | h <;> subst h <;> simp [binSem, b2n, unSem]

theorem neq_bit1 (sg : Bool) (c : Nat) (h : c < 2) : binSem Op.neq sg 1 c 1 = unSem Op.not 1 c := by
  have : c = 0 ∨ c = 1 := by omega
  rcases this with h | h <;> subst h <;> simp [binSem, b2n, unSem]

/-- the repaired rule: `(c != 0) ⇒ c` (the unchanged tree returns `~c`) -/
theorem neq_bit0 (sg : Bool) (c : Nat) (h : c < 2) : binSem Op.neq sg 1 c 0 = c := by
  have : c = 0 ∨ c = 1 := by omega
  rcases this with h | h <;> subst h <;> simp [binSem, b2n]

/-- the negated comparison operator of `eqn1_helpers` -/
def notop : Op → Option Op
  | .eq => some .neq | .neq => some .eq | .lt => some .ge | .gt => some .le
  | .ltu => some .geu | .geu => some .ltu | .le => some .gt | .ge => some .lt
  | _ => none

/-- rule *not_cond*: `~(a o b) ⇒ (a notop(o) b)` on 1-bit results, for either declared reading -/
theorem not_cond (o o' : Op) (h : notop o = some o') (sg : Bool) (w a b : Nat) :
    unSem Op.not 1 (binSem o sg w a b) = binSem o' sg w a b := by
  cases o <;> simp [notop] at h <;> subst h <;> cases sg <;> simp only [binSem, unSem, b2n] <;>
    split_ifs <;> first | rfl | omega | (simp_all; done) | (simp_all; omega)

/-! ### conditional -/

/-- `tst` rules: a constant condition selects a branch; equal branches make the condition irrelevant -/
theorem tst_same (c a : Nat) : (if c % 2 = 1 then a else a) = a := by split <;> rfl

/-! ### bit-slicing of logic operators -/

/-- rule *bitslice*: a logic operator acts bit by bit -/
theorem and_bit (a b i : Nat) : bitsOf (a &&& b) i 1 = bitsOf a i 1 &&& bitsOf b i 1 := by
  apply Nat.eq_of_testBit_eq; intro j
  simp only [testBit_bitsOf, Nat.testBit_and]
  by_cases h : j < 1 <;> simp [h]

theorem or_bit (a b i : Nat) : bitsOf (a ||| b) i 1 = bitsOf a i 1 ||| bitsOf b i 1 := by
  apply Nat.eq_of_testBit_eq; intro j
  simp only [testBit_bitsOf, Nat.testBit_or]
  by_cases h : j < 1 <;> simp [h]

theorem xor_bit (a b i : Nat) : bitsOf (a ^^^ b) i 1 = bitsOf a i 1 ^^^ bitsOf b i 1 := by
  apply Nat.eq_of_testBit_eq; intro j
  simp only [testBit_bitsOf, Nat.testBit_xor]
  by_cases h : j < 1 <;> simp [h]

/-- slices distribute over logic operators (`slc.simplify` on `op` of type LOGIC) -/
theorem slice_and (a b p s : Nat) : bitsOf (a &&& b) p s = bitsOf a p s &&& bitsOf b p s := by
  apply Nat.eq_of_testBit_eq; intro j
  simp only [testBit_bitsOf, Nat.testBit_and]
  by_cases h : j < s <;> simp [h]

theorem slice_or (a b p s : Nat) : bitsOf (a ||| b) p s = bitsOf a p s ||| bitsOf b p s := by
  apply Nat.eq_of_testBit_eq; intro j
  simp only [testBit_bitsOf, Nat.testBit_or]
  by_cases h : j < s <;> simp [h]

theorem slice_xor (a b p s : Nat) : bitsOf (a ^^^ b) p s = bitsOf a p s ^^^ bitsOf b p s := by
  apply Nat.eq_of_testBit_eq; intro j
  simp only [testBit_bitsOf, Nat.testBit_xor]
  by_cases h : j < s <;> simp [h]

/-- low slices commute with `+` and `-` (`slc.simplify` on `op` `+`/`-` at `pos = 0`) -/
theorem slice_add_low (a b w s : Nat) (h : s ≤ w) : bitsOf ((a + b) % 2 ^ w) 0 s = (bitsOf a 0 s + bitsOf b 0 s) % 2 ^ s := by
  unfold bitsOf
  simp only [Nat.shiftRight_zero]
  rw [Nat.mod_mod_of_dvd _ (Nat.pow_dvd_pow 2 h)]
  exact (Nat.add_mod a b (2 ^ s))

end Amoco.Bits
