/-
  [C01 extension: the fragment WITH ROTATIONS.  This file is `Proofs/ExprSoundSimp.lean` redone in namespace `Amoco.Rot`, where
   `agnOp`/`Plain` also allow `>>>` (`ror`) and `<<<` (`rol`) nodes; changed proof steps: `api_sstep`, `callOp_sstep`,
   `helperRot_spost` (new), `eqn2tail_sstep`, `eqn2cst_sstep` (rule `l >>> 0 ⇒ l`, lemma `rot_zero`).  Original header follows.]
  Amoco.Proofs.ExprSoundSimp — value-soundness step for `simplify`, the induction over the fuel, and the
  resulting theorems.
-/
import Amoco.Proofs.ExprSoundExtEqn

namespace Amoco.Rot

open Expr Bits

theorem wrap_mod (w s : Nat) (h : s ≤ w) (x : Int) : (wrap w x) % 2 ^ s = wrap s x := by
  rw [← wrap_of_nat s (wrap w x), wrap_cast]
  apply wrap_congr
  have hd : ((2 ^ s : Nat) : Int) ∣ ((2 ^ w : Nat) : Int) := by
    exact_mod_cast Nat.pow_dvd_pow 2 h
  exact Int.emod_emod_of_dvd x hd

theorem slice_sub_low (a b w s : Nat) (h : s ≤ w) :
    bitsOf (binSem Op.sub false w a b) 0 s = binSem Op.sub false s (bitsOf a 0 s) (bitsOf b 0 s) := by
  simp only [binSem, bitsOf, Nat.shiftRight_zero]
  rw [wrap_mod w s h, ← wrap_of_nat s a, ← wrap_of_nat s b, wrap_sub_left, wrap_sub_right]

theorem slice_add_low' (a b w s : Nat) (h : s ≤ w) :
    bitsOf (binSem Op.add false w a b) 0 s = binSem Op.add false s (bitsOf a 0 s) (bitsOf b 0 s) := by
  simp only [binSem]
  exact slice_add_low a b w s h

theorem slice_neg_low (a w s : Nat) (h : s ≤ w) : bitsOf (unSem Op.sub w a) 0 s = unSem Op.sub s (bitsOf a 0 s) := by
  simp only [unSem, bitsOf, Nat.shiftRight_zero]
  rw [wrap_mod w s h, ← wrap_of_nat s a, wrap_neg]

theorem slice_not (a w p s : Nat) (ha : a < 2 ^ w) (h : p + s ≤ w) :
    bitsOf (unSem Op.not w a) p s = unSem Op.not s (bitsOf a p s) := by
  have hb : bitsOf a p s < 2 ^ s := Nat.mod_lt _ (Nat.two_pow_pos _)
  simp only [unSem, Nat.mod_eq_of_lt ha, Nat.mod_eq_of_lt hb]
  have e1 : 2 ^ w - 1 - a = 2 ^ w - (a + 1) := by omega
  have e2 : 2 ^ s - 1 - bitsOf a p s = 2 ^ s - (bitsOf a p s + 1) := by omega
  rw [e1, e2]
  apply Nat.eq_of_testBit_eq; intro j
  rw [testBit_bitsOf, Nat.testBit_two_pow_sub_succ ha, Nat.testBit_two_pow_sub_succ hb, testBit_bitsOf]
  by_cases hj : j < s
  · have : p + j < w := by omega
    simp [hj, this]
  · simp [hj]

theorem comm_swap' (o : Op) (ho : o = Op.add ∨ o = Op.mul ∨ o = Op.and ∨ o = Op.or ∨ o = Op.xor) (sg1 sg2 : Bool) (w a b : Nat) :
    binSem o sg1 w a b = binSem o sg2 w b a := by
  rcases ho with rfl | rfl | rfl | rfl | rfl <;> simp only [binSem]
  · rw [Nat.add_comm]
  · rw [Nat.mul_comm]
  · rw [Nat.and_comm]
  · rw [Nat.or_comm]
  · rw [Nat.xor_comm]

theorem tbit_cons (ρ : Val) (lo hi : Nat) (e : Expr) (tl : List Part) (j : Nat) :
    tbit ρ ((lo, hi, e) :: tl) j = if lo ≤ j ∧ j < hi then (ideal ρ e).testBit (j - lo) else tbit ρ tl j := by
  unfold tbit
  simp only [cover]
  by_cases h : lo ≤ j ∧ j < hi
  · have : (decide (lo ≤ j) && decide (j < hi)) = true := by simp [h]
    rw [if_pos this, if_pos h]
  · have : ¬ ((decide (lo ≤ j) && decide (j < hi)) = true) := by simpa using h
    rw [if_neg this, if_neg h]

/-- simplifying the parts of a table keeps its bits -/
theorem mapM_parts_sem (ρ : Val) (f : Expr → R Expr)
    (hf : ∀ e r, WF e → Plain e → f e = .ok r → Plain r ∧ ideal ρ r = ideal ρ e) :
    ∀ (ps ps' : List Part), (∀ p ∈ ps, WF p.2.2) → (∀ p ∈ ps, Plain p.2.2) →
      ps.mapM (fun (p : Part) => do let v ← f p.2.2; pure ((p.1, p.2.1, v) : Part)) = .ok ps' →
      (∀ p ∈ ps', Plain p.2.2) ∧ ∀ j, tbit ρ ps' j = tbit ρ ps j := by
  intro ps
  induction ps with
  | nil =>
    intro ps' _ _ h
    simp only [List.mapM_nil, pure, Except.pure] at h
    cases h
    exact ⟨(by intro p hp; cases hp), fun _ => rfl⟩
  | cons q tl ih =>
    intro ps' hw hq h
    rw [List.mapM_cons] at h
    cases hqq : f q.2.2 with
    | error e => rw [hqq] at h; cases h
    | ok v =>
      rw [hqq] at h
      simp only [bind, Except.bind, pure, Except.pure] at h
      cases ht : List.mapM (fun (p : Part) => do let v ← f p.2.2; pure ((p.1, p.2.1, v) : Part)) tl with
      | error e =>
        simp only [bind, Except.bind, pure, Except.pure] at ht
        rw [ht] at h; cases h
      | ok tl' =>
        simp only [bind, Except.bind, pure, Except.pure] at ht
        rw [ht] at h
        cases h
        obtain ⟨h1, h2⟩ := ih tl' (fun p hp => hw p (List.mem_cons_of_mem _ hp)) (fun p hp => hq p (List.mem_cons_of_mem _ hp))
          (by simpa [bind, Except.bind, pure, Except.pure] using ht)
        have hv := hf q.2.2 v (hw q List.mem_cons_self) (hq q List.mem_cons_self) hqq
        refine ⟨?_, ?_⟩
        · intro p hp
          rcases List.mem_cons.mp hp with rfl | hp
          · exact hv.1
          · exact h1 p hp
        · intro j
          obtain ⟨lo, hi, e⟩ := q
          rw [tbit_cons, tbit_cons, h2 j, hv.2]

section steps
variable {cfg : Cfg} {ρ : Val} {fuel : Nat} (ih : SoundIH cfg ρ fuel)
include ih

theorem simplify_sstep (o : Opts) (e : Expr) (he : WF e) (hq : Plain e) (hopt : OptsOK o) :
    SPost ρ (ideal ρ e) (simplify cfg (fuel + 1) o e) := by
  have wih := widthIH_all cfg fuel
  rw [simplify.eq_def]; dsimp only
  split
  · exact SPost_ok hq rfl
  · exact SPost_ok hq rfl
  · exact SPost_ok hq rfl
  · exact SPost_ok hq rfl
  · exact SPost_ok hq rfl
  · simp [Plain] at hq
  · exact SPost_error _ _ _
  · -- slc
    rename_i x pos size sf ref ety
    simp only [WF] at he
    obtain ⟨hx, hsz, hps⟩ := he
    simp only [Plain] at hq
    apply SPost_bind; intro x' hx'
    obtain ⟨hxw, hxs⟩ := wih.simplify o x hx x' hx'
    obtain ⟨hxq, hxv⟩ := ih.simplify o x hx hq.2 hopt x' hx'
    have hval : ideal ρ (slc x pos size sf ref ety) = bitsOf (ideal ρ x') pos size := by
      simp only [ideal]; rw [hxv]; rfl
    rw [hval]
    have hself : SPost ρ (bitsOf (ideal ρ x') pos size) (pure (Expr.slc x' pos size sf ref ety)) :=
      SPost_pure (by simp only [Plain]; exact ⟨hq.1, hxq⟩) (by simp only [ideal]; rfl)
    have hgi : ∀ y, WF y → Plain y → pos + size ≤ y.size → SPost ρ (bitsOf (ideal ρ y) pos size)
        (getitem cfg fuel y (pos : Int) ((pos + size : Nat) : Int)) := by
      intro y hy hyq _
      refine SPost_of_eq (ih.getitem y _ _ hy hyq) ?_
      congr 1 <;> omega
    have hgw : ∀ y r, WF y → getitem cfg fuel y (pos : Int) ((pos + size : Nat) : Int) = .ok r → WF r ∧ r.size = size := by
      intro y r hy h
      have := wih.getitem y _ _ hy r h
      exact ⟨this.1, by rw [this.2]; omega⟩
    rw [Plain_isDef hxq]
    simp only [Bool.not_true, Bool.false_eq_true, if_false]
    split
    · apply SPost_bind; intro res hres
      have := hgi x' hxw hxq (by omega) res (by simpa using hres)
      exact SPost_pure ((Plain_setSf _ _).mpr this.1) (by rw [ideal_setSf]; exact this.2)
    · split
      · rename_i hmem
        exfalso
        cases x' <;> simp [isMem] at hmem
        simp [Plain] at hxq
      · cases x' with
        | op xo xl xr xs xf xp =>
          dsimp only
          obtain ⟨_, _, hxl, hxr, hxs', hxeq⟩ := (WF_op_iff _ _ _ _ _ _).mp hxw
          simp only [Plain] at hxq
          obtain ⟨hag, hql, hqr⟩ := hxq
          split
          · rename_i hc
            simp only [Bool.or_eq_true, beq_iff_eq, Bool.and_eq_true, decide_eq_true_eq] at hc
            have hne8 : xo.type ≠ 8 := by
              rcases hc with hc | hc
              · omega
              · rcases hc.1 with rfl | rfl <;> simp [Op.type]
            have hsame := hxeq hne8
            have hls : xl.size = x.size := by
              simp only [size_op] at hxs
              rw [← hxs, hxs']
              rcases hc with hc | hc
              · have hne : xo ≠ Op.mul2 := by intro h; subst h; simp [Op.type] at hc
                simp [resSize, hc, hne]
              · rcases hc.1 with rfl | rfl <;> simp [resSize, Op.type]
            apply SPost_bind; intro r hr
            apply SPost_bind; intro l hl
            have hr1 := hgw xr r hxr (by simpa using hr)
            have hl1 := hgw xl l hxl (by simpa using hl)
            have hr2 := hgi xr hxr hqr (by omega) r (by simpa using hr)
            have hl2 := hgi xl hxl hql (by omega) l (by simpa using hl)
            have := ih.callOp xo l r hl1.1 hr1.1 hl2.1 hr2.1 hag (by intro _; rw [hl1.2, hr1.2])
            refine SPost_of_eq this ?_
            rw [hl2.2, hr2.2, hl1.2, ideal_op_agn ρ xo xl xr xs xf xp hag]
            rcases hc with hc | hc
            · have : xo = Op.and ∨ xo = Op.or ∨ xo = Op.xor := by
                cases xo <;> simp [agnOp, Op.type] at hag hc <;> simp
              rcases this with rfl | rfl | rfl <;> simp only [binSem]
              · exact (slice_and _ _ _ _).symm
              · exact (slice_or _ _ _ _).symm
              · exact (slice_xor _ _ _ _).symm
            · obtain ⟨hc1, hc2⟩ := hc
              subst hc2
              rcases hc1 with rfl | rfl
              · exact (slice_add_low' _ _ _ _ (by omega)).symm
              · exact (slice_sub_low _ _ _ _ (by omega)).symm
          · exact hself
        | uop xo xr xs xf xp =>
          dsimp only
          have hxw' := hxw
          simp only [WF] at hxw'
          simp only [Plain] at hxq
          obtain ⟨hoo, hnc, hqr⟩ := hxq
          split
          · rename_i hc
            simp only [Bool.or_eq_true, beq_iff_eq, Bool.and_eq_true, decide_eq_true_eq] at hc
            have hrs : xr.size = x.size := by simp only [size_uop] at hxs; omega
            apply SPost_bind; intro r hr
            have hr1 := hgw xr r hxw'.2.1 (by simpa using hr)
            have hr2 := hgi xr hxw'.2.1 hqr (by omega) r (by simpa using hr)
            refine SPost_of_eq (ih.callUop xo r hr1.1 hr2.1 hoo) ?_
            rw [hr2.2, hr1.2]
            simp only [ideal]
            rcases hoo with rfl | rfl
            · have hp0 : pos = 0 := by
                rcases hc with hc | hc
                · simp [Op.type] at hc
                · exact hc.2
              subst hp0
              exact (slice_neg_low _ _ _ (by omega)).symm
            · exact (slice_not _ _ _ _ (ideal_lt ρ xr hxw'.2.1) (by omega)).symm
          · exact hself
        | vec l s f => simp [Plain] at hxq
        | _ => exact hself
  · -- comp
    rename_i size sf parts
    have hec := he
    simp only [WF] at he
    obtain ⟨hpos, ht, hwp⟩ := he
    have hwp' := (WFParts_iff _).mp hwp
    have hqp := (plainParts_iff parts).mp (by simpa only [Plain] using hq)
    apply SPost_bind; intro parts' hp'
    obtain ⟨h1, h2, h3⟩ := mapM_parts_spec (simplify cfg fuel o)
      (fun e r he h => wih.simplify o e he r h) parts parts' hwp' hp'
    obtain ⟨s1, s2⟩ := mapM_parts_sem ρ (simplify cfg fuel o)
      (fun e r he hqe h => ih.simplify o e he hqe hopt r h) parts parts' hwp' hqp hp'
    have hd' : Disj size parts' := by
      refine ⟨h2 size ht.1, fun b => ?_⟩
      show cnt b parts' ≤ 1
      rw [h3 b]; exact ht.disj.cnt_le b
    obtain ⟨r1, r2, r3⟩ := restruct_spec size parts' hd' h1
    have htr : Tiles size (restruct parts') :=
      tiles_of_disj_cnt r1 (fun x hx => by rw [r3 x, h3 x]; exact ht.2 x hx)
    obtain ⟨t1, _⟩ := restruct_sem ρ size parts' hd' h1 (fun p hp => Plain_isDef (s1 p hp))
    have hplain := restruct_pres Plain Plain_mkCst (fun e he => Plain_isDef he) size parts' hd' h1 s1
    have hbits : ∀ j, tbit ρ (restruct parts') j = (ideal ρ (comp size sf parts)).testBit j := by
      intro j; rw [t1 j, s2 j, ideal_comp_testBit ρ _ _ _ ht.disj]
    have hkey : ∀ p, findKey 0 size (restruct parts') = some p →
        Plain p ∧ ideal ρ p = ideal ρ (comp size sf parts) := by
      intro p hf
      have hm := findKey_some_mem hf
      refine ⟨hplain _ hm, ?_⟩
      apply Nat.eq_of_testBit_eq; intro j
      rw [← hbits j]
      by_cases hj : j < size
      · rw [tbit_of_mem ρ htr.disj hm ⟨Nat.zero_le _, hj⟩]; rfl
      · rw [tbit_uncovered ρ (cnt_zero_of_sized htr.1 (by omega))]
        exact testBit_of_lt _ _ _ (ideal_lt ρ p (r2 _ hm)) (by rw [htr.whole_key hf]; omega)
    split
    · rename_i v s f hf
      have := hkey _ hf
      exact SPost_pure (by simp [Plain]) (by rw [← this.2]; simp only [ideal])
    · rename_i p _ hf
      have := hkey _ hf
      exact SPost_pure this.1 this.2
    · refine SPost_pure (by simp only [Plain]; exact (plainParts_iff _).mpr hplain) ?_
      apply Nat.eq_of_testBit_eq; intro j
      rw [ideal_comp_testBit ρ _ _ _ htr.disj, hbits j]
  · -- tst
    rename_i t l r size sf
    simp only [WF] at he
    obtain ⟨hpos, ht, hl, hr, ht1, hls, hrs⟩ := he
    simp only [Plain] at hq
    obtain ⟨hqt, hql, hqr⟩ := hq
    apply SPost_bind; intro t' ht'
    obtain ⟨htw, hts⟩ := wih.simplify o t ht t' ht'
    obtain ⟨htq, htv⟩ := ih.simplify o t ht hqt hopt t' ht'
    rw [show o.widening = false from hopt, Plain_isDef htq]
    simp only [Bool.not_true, Bool.or_self, Bool.false_eq_true, if_false]
    have ht2 : ideal ρ t' < 2 := by
      have := ideal_lt ρ t' htw; rw [hts, ht1] at this; simpa using this
    simp only [ideal]
    rw [← htv]
    generalize hV : (if ideal ρ t' % 2 = 1 then ideal ρ l else ideal ρ r) = V
    apply SPost_bind; intro l' hl'
    obtain ⟨hlw, hls'⟩ := wih.simplify o l hl l' hl'
    obtain ⟨hlq, hlv⟩ := ih.simplify o l hl hql hopt l' hl'
    apply SPost_bind; intro c1 hc1
    have hc1v := ih.api Op.eq t' bit1 htw WF_bit1 htq Plain_bit1 rfl (by intro _; rw [hts, ht1]; rfl) c1 hc1
    split
    · rename_i htr
      have : ideal ρ c1 = 1 := by
        cases c1 <;> simp [truthy] at htr
        obtain ⟨rfl, rfl⟩ := htr
        simp [ideal]
      rw [hc1v.2, ideal_bit1] at this
      have h1 : ideal ρ t' = 1 := by
        simp only [binSem, b2n] at this
        split at this
        · rename_i h; simpa using h
        · cases this
      rw [h1] at hV
      simp only [Nat.mod_succ, if_true] at hV
      exact SPost_pure hlq (by rw [hlv, hV])
    · apply SPost_bind; intro r' hr'
      obtain ⟨hrw, hrs'⟩ := wih.simplify o r hr r' hr'
      obtain ⟨hrq, hrv⟩ := ih.simplify o r hr hqr hopt r' hr'
      apply SPost_bind; intro c0 hc0
      have hc0v := ih.api Op.eq t' bit0 htw WF_bit0 htq Plain_bit0 rfl (by intro _; rw [hts, ht1]; rfl) c0 hc0
      split
      · rename_i htr
        have : ideal ρ c0 = 1 := by
          cases c0 <;> simp [truthy] at htr
          obtain ⟨rfl, rfl⟩ := htr
          simp [ideal]
        rw [hc0v.2, ideal_bit0] at this
        have h0 : ideal ρ t' = 0 := by
          simp only [binSem, b2n] at this
          split at this
          · rename_i h; simpa using h
          · cases this
        rw [h0] at hV
        simp only [Nat.zero_mod, Nat.zero_ne_one, if_false] at hV
        exact SPost_pure hrq (by rw [hrv, hV])
      · apply SPost_bind; intro c hc
        have hcv := ih.api Op.eq l' r' hlw hrw hlq hrq rfl (by intro _; omega) c hc
        split
        · rename_i htr
          have : ideal ρ c = 1 := by
            cases c <;> simp [truthy] at htr
            obtain ⟨rfl, rfl⟩ := htr
            simp [ideal]
          rw [hcv.2] at this
          have hlr : ideal ρ l' = ideal ρ r' := by
            simp only [binSem, b2n] at this
            split at this
            · rename_i h; simpa using h
            · cases this
          refine SPost_pure hlq ?_
          rw [← hV, ← hlv, ← hrv, ← hlr]; simp
        · refine SPost_pure (by simp only [Plain]; exact ⟨htq, hlq, hrq⟩) ?_
          simp only [ideal]
          rw [hlv, hrv, hV]
  · -- op
    rename_i oo l r size sf prop
    obtain ⟨hpos, hp, hl, hr, hs, heq⟩ := (WF_op_iff _ _ _ _ _ _).mp he
    have hq' := hq
    simp only [Plain] at hq'
    obtain ⟨hag, hql, hqr⟩ := hq'
    apply SPost_bind; intro l' hl'
    obtain ⟨hlw, hls⟩ := wih.simplify o l hl l' hl'
    obtain ⟨hlq, hlv⟩ := ih.simplify o l hl hql hopt l' hl'
    apply SPost_bind; intro r' hr'
    obtain ⟨hrw, hrs⟩ := wih.simplify o r hr r' hr'
    obtain ⟨hrq, hrv⟩ := ih.simplify o r hr hqr hopt r' hr'
    have hw' : WF (.op oo l' r' size sf prop) := by
      rw [WF_op_iff]
      exact ⟨hpos, hp, hlw, hrw, by rw [resSize_congr oo hls]; exact hs, by intro h; rw [hls, hrs]; exact heq h⟩
    have hq1 : Plain (.op oo l' r' size sf prop) := by simp only [Plain]; exact ⟨hag, hlq, hrq⟩
    have hval : ideal ρ (op oo l r size sf prop) = ideal ρ (.op oo l' r' size sf prop) := by
      rw [ideal_op_agn ρ oo l r size sf prop hag, ideal_op_agn ρ oo l' r' size sf prop hag, hlv, hrv, hls]
    rw [hval]
    have hmain := ih.eqn2 o oo l' r' size sf prop hw' hq1 hopt
    split
    · rename_i hc
      simp only [Bool.and_eq_true, decide_eq_true_eq, bne_iff_ne, ne_eq] at hc
      have ht : oo.type < 4 := by omega
      have hne8 : oo.type ≠ 8 := by omega
      have hlr : l'.size = r'.size := by rw [hls, hrs]; exact heq hne8
      have hswap : WF (.op oo r' l' size sf prop) := by
        rw [WF_op_iff]
        exact ⟨hpos, hp, hrw, hlw, by rw [resSize_congr oo hlr.symm, resSize_congr oo hls]; exact hs, fun _ => hlr.symm⟩
      have hsub : oo = Op.sub → ∀ nr, WF nr → nr.size = r'.size → WF (.op Op.add nr l' size sf prop) := by
        intro h nr hn hns
        subst h
        rw [WF_op_iff]
        refine ⟨hpos, by simpa [Op.type] using hp, hn, hlw, ?_, fun _ => by omega⟩
        rw [hs]; simp [resSize, Op.type]; omega
      -- the two rewritings of the operands
      have hminus : oo = Op.sub → SPost ρ (ideal ρ (op oo l' r' size sf prop))
          (do let nr ← apiNeg cfg fuel r'; eqn2 cfg fuel o Op.add nr l' size sf prop) := by
        intro hm
        apply SPost_bind; intro nr hnr
        have hnw := wih.apiNeg r' hrw nr hnr
        have hnv := ih.apiNeg r' hrw hrq nr hnr
        have := ih.eqn2 o Op.add nr l' size sf prop (hsub hm nr hnw.1 hnw.2)
          (by simp only [Plain]; exact ⟨rfl, hnv.1, hlq⟩) hopt
        refine SPost_of_eq this ?_
        subst hm
        rw [ideal_op_agn ρ Op.add nr l' size sf prop rfl, ideal_op_agn ρ Op.sub l' r' size sf prop rfl, hnv.2, hnw.2, hlr]
        exact (sub_swap _ _ _ _ _).symm
      have hcomm : oo ≠ Op.sub → SPost ρ (ideal ρ (op oo l' r' size sf prop)) (eqn2 cfg fuel o oo r' l' size sf prop) := by
        intro hm
        have := ih.eqn2 o oo r' l' size sf prop hswap (by simp only [Plain]; exact ⟨hag, hrq, hlq⟩) hopt
        refine SPost_of_eq this ?_
        rw [ideal_op_agn ρ oo r' l' size sf prop hag, ideal_op_agn ρ oo l' r' size sf prop hag, hlr]
        have : oo = Op.add ∨ oo = Op.mul ∨ oo = Op.and ∨ oo = Op.or ∨ oo = Op.xor := by
          cases oo <;> simp [agnOp, Op.type] at hag ht hm <;> simp
        exact comm_swap' oo this _ _ _ _ _
      rw [Plain_notTop hlq, Plain_notTop hrq]
      simp only [Bool.false_eq_true, if_false]
      split
      · split
        · apply SPost_bind; intro res hres
          have := ih.callOp oo l' r' hlw hrw hlq hrq hag (fun _ => hlr) res hres
          exact SPost_pure ((Plain_setSf _ _).mpr this.1)
            (by rw [ideal_setSf, this.2, ideal_op_agn ρ oo l' r' size sf prop hag])
        · split
          · rename_i hm
            simp only [beq_iff_eq] at hm
            exact hminus hm
          · rename_i hm
            simp only [beq_iff_eq] at hm
            exact hcomm hm
      · split
        · split
          · rename_i hm
            simp only [beq_iff_eq] at hm
            exact hminus hm
          · rename_i hm
            simp only [beq_iff_eq] at hm
            exact hcomm hm
        · exact hmain
    · exact hmain
  · -- uop
    rename_i oo r size sf prop
    simp only [WF] at he
    simp only [Plain] at hq
    apply SPost_bind; intro r' hr'
    obtain ⟨hrw, hrs⟩ := wih.simplify o r he.2.1 r' hr'
    obtain ⟨hrq, hrv⟩ := ih.simplify o r he.2.1 hq.2.2 hopt r' hr'
    rw [Plain_notTop hrq]
    simp only [Bool.false_eq_true, if_false]
    refine SPost_of_eq (ih.eqn1 oo r' size sf prop hrw hrq (by omega) hq.1) ?_
    simp only [ideal]
    rw [hrv, hrs]
  · -- vec
    simp [Plain] at hq

end steps

/-- **the value-soundness induction**: with the complexity threshold off and under `EqOK ρ`, every function
    of the mutual block, at every fuel, maps well-formed `Plain` operands to a `Plain` result with the ideal
    value its construction dictates. -/
theorem soundIH_all (cfg : Cfg) (hcp : ∀ e, cfg.cplx e = false) (ρ : Val) (eqok : EqOK ρ) (fuel : Nat) :
    SoundIH cfg ρ fuel := by
  induction fuel with
  | zero => exact soundIH_zero cfg ρ
  | succ n ih =>
    exact {
      simplify := simplify_sstep ih
      eqn1 := eqn1_sstep ih
      eqn2 := eqn2_sstep ih hcp
      eqn2norm := fun o l r size sf prop hw hq t h => eqn2norm_sstep ih o l r size sf prop hw hq t h
      normL := fun o l r size sf prop hw hq t h => normL_sstep ih o l r size sf prop hw hq t h
      normR := fun o l r size sf prop hw hq t h => normR_sstep ih o l r size sf prop hw hq t h
      eqn2cst := fun opts o l rv rs rf size sf prop hw hq hopt res h =>
        eqn2cst_sstep ih opts o l rv rs rf size sf prop hw hq hopt res h
      eqn2snd := eqn2snd_sstep ih eqok
      eqn2tail := eqn2tail_sstep ih eqok
      oper := oper_sstep ih
      operU := operU_sstep ih
      apiNeg := apiNeg_sstep ih
      apiNot := apiNot_sstep ih
      api := api_sstep ih
      apiExp := apiExp_sstep ih eqok
      callOp := callOp_sstep ih
      callUop := callUop_sstep ih
      helperCmp := helperCmp_sstep ih
      getitem := getitem_sstep ih
      slicer := slicer_sstep ih
      mkSlc := mkSlc_sstep ih
      setitem := fun n sf ps a b v r hd hw hq hv hpv h => setitem_sstep ih n sf ps a b v r hd hw hq hv hpv h
      composer := composer_sstep ih
      extendExp := extendExp_sstep ih }

end Amoco.Rot
