/-
  Helper lemmas for the spec language (C03).

  Main result: `buildspec_meaning_proof` — for every format `GrammarOK` admits, the
  fix / mask / extractor computation of `buildspec` (as coded) equals the documented meaning
  (`refCells`, `refFields`).

  Route:
  1. a processing-order form of the reference (`refCells_processed`, `refFields_processed`):
     cells are `P.flatMap cl`, fields are a left-to-right walk `walkX` over `P = processed a`
     with a running offset;
  2. a loop invariant for `bloop` over `P` (`bloop_inv`);
  3. the facts `GrammarOK` provides (`sumE_processed`, `ovlP_processed`, ...), and the conclusion.
-/
import Amoco.Model.Spec

namespace Amoco.Spec

/-! ## effective widths -/

/-- sum of effective widths (a `(*)` directive counts `sw`). -/
def sumE (sw : Nat) : List Item → Nat
  | [] => 0
  | it :: rest => it.widthE sw + sumE sw rest

theorem sumE_append (sw : Nat) (l1 l2 : List Item) :
    sumE sw (l1 ++ l2) = sumE sw l1 + sumE sw l2 := by
  induction l1 with
  | nil => simp [sumE]
  | cons it rest ih => simp only [List.cons_append, sumE, ih]; omega

theorem sumE_reverse (sw : Nat) (l : List Item) : sumE sw l.reverse = sumE sw l := by
  induction l with
  | nil => rfl
  | cons it rest ih => simp only [List.reverse_cons, sumE_append, sumE, ih]; omega

theorem width_of_isStar {it : Item} (h : it.isStar = true) : it.width = 0 := by
  cases it with
  | field opt sym loc => cases opt <;> cases loc <;> simp_all [Item.isStar, Item.width]
  | _ => simp [Item.isStar] at h

theorem widthE_zero (it : Item) : it.widthE 0 = it.width := by
  unfold Item.widthE
  split
  · next h => exact (width_of_isStar h).symm
  · rfl

theorem sumWidth_eq_sumE (l : List Item) : sumWidth l = sumE 0 l := by
  unfold sumWidth
  induction l with
  | nil => rfl
  | cons it rest ih => simp only [List.map_cons, List.foldr_cons, sumE, widthE_zero, ih]

theorem starLast_tail {it : Item} {rest : List Item} (h : starLast (it :: rest) = true) :
    starLast rest = true := by
  cases rest with
  | nil => rfl
  | cons x xs => simp only [starLast, Bool.and_eq_true] at h; exact h.2

theorem starLast_head {it : Item} {rest : List Item} (h : starLast (it :: rest) = true)
    (hs : it.isStar = true) : rest = [] := by
  cases rest with
  | nil => rfl
  | cons x xs => simp [starLast, hs] at h

/-- with the star last, the effective total is the plain total plus (once) the star's share. -/
theorem sumE_starLast (sw : Nat) : ∀ l : List Item, starLast l = true →
    sumE sw l = sumE 0 l + (if l.any Item.isStar then sw else 0)
  | [], _ => rfl
  | it :: rest, h => by
    have ih := sumE_starLast sw rest (starLast_tail h)
    by_cases hs : it.isStar = true
    · have hr := starLast_head h hs
      subst hr
      simp [sumE, Item.widthE, hs]
    · simp only [Bool.not_eq_true] at hs
      simp only [sumE, Item.widthE, hs, List.any_cons, Bool.false_or, ih]
      simp
      omega

theorem starSize_starLast : ∀ l : List Item, starLast l = true → starSize l = sumE 0 l
  | [], _ => rfl
  | it :: rest, h => by
    have ih := starSize_starLast rest (starLast_tail h)
    by_cases hs : it.isStar = true
    · have hr := starLast_head h hs
      subst hr
      simp [starSize, sumE, Item.widthE, hs]
    · simp only [Bool.not_eq_true] at hs
      simp [starSize, sumE, Item.widthE, hs, ih]

/-! ## cells, bit level -/

/-- documented cells of one item (ascending bit index), the star taking `sw` free cells. -/
def cl (sw : Nat) (it : Item) : List Cell :=
  if it.isStar then List.replicate sw .free else it.cellsLsb

theorem cellsFix_append (xs ys : List Cell) :
    cellsFix (xs ++ ys) = cellsFix xs + 2 ^ xs.length * cellsFix ys := by
  induction xs with
  | nil => simp [cellsFix]
  | cons c cs ih =>
    simp only [List.cons_append, cellsFix, ih, List.length_cons, Nat.pow_succ]
    rw [Nat.mul_add, Nat.mul_comm (2 ^ cs.length) 2, Nat.mul_assoc]
    omega

theorem cellsMask_append (xs ys : List Cell) :
    cellsMask (xs ++ ys) = cellsMask xs + 2 ^ xs.length * cellsMask ys := by
  induction xs with
  | nil => simp [cellsMask]
  | cons c cs ih =>
    simp only [List.cons_append, cellsMask, ih, List.length_cons, Nat.pow_succ]
    rw [Nat.mul_add, Nat.mul_comm (2 ^ cs.length) 2, Nat.mul_assoc]
    omega

theorem cellsFix_lt (xs : List Cell) : cellsFix xs < 2 ^ xs.length := by
  induction xs with
  | nil => simp [cellsFix]
  | cons c cs ih =>
    simp only [cellsFix, List.length_cons, Nat.pow_succ]
    split <;> omega

theorem cellsMask_lt (xs : List Cell) : cellsMask xs < 2 ^ xs.length := by
  induction xs with
  | nil => simp [cellsMask]
  | cons c cs ih =>
    simp only [cellsMask, List.length_cons, Nat.pow_succ]
    split <;> omega

theorem cellsFix_replicate_free (n : Nat) : cellsFix (List.replicate n .free) = 0 := by
  induction n with
  | zero => rfl
  | succ n ih => simp [List.replicate_succ, cellsFix, ih]

theorem cellsMask_replicate_free (n : Nat) : cellsMask (List.replicate n .free) = 0 := by
  induction n with
  | zero => rfl
  | succ n ih => simp [List.replicate_succ, cellsMask, ih]

/-- `|||` of a value shifted above a smaller one is `+`. -/
theorem lor_shiftLeft_of_lt {a i : Nat} (h : a < 2 ^ i) (x : Nat) :
    a ||| (x <<< i) = a + 2 ^ i * x := by
  rw [Nat.or_comm, ← Nat.shiftLeft_add_eq_or_of_lt h, Nat.shiftLeft_eq]
  rw [Nat.mul_comm]; omega

def byteCells (v k : Nat) : List Cell :=
  (List.range k).map (fun j => if v.testBit j then Cell.one else Cell.zero)

theorem byteCells_length (v k : Nat) : (byteCells v k).length = k := by
  simp [byteCells]

theorem mod_two_pow_succ' (v k : Nat) :
    v % 2 ^ (k + 1) = v % 2 ^ k + 2 ^ k * (if v.testBit k then 1 else 0) := by
  rw [Nat.testBit_eq_decide_div_mod_eq]
  have h1 : v % 2 ^ (k + 1) = v % 2 ^ k + 2 ^ k * (v / 2 ^ k % 2) := by
    rw [Nat.pow_succ, Nat.mod_mul]
  rw [h1]
  have : v / 2 ^ k % 2 = 0 ∨ v / 2 ^ k % 2 = 1 := by omega
  rcases this with h | h <;> simp [h]

theorem cellsFix_byteCells (v : Nat) : ∀ k, cellsFix (byteCells v k) = v % 2 ^ k
  | 0 => by simp [byteCells, cellsFix, Nat.mod_one]
  | k + 1 => by
    have ih := cellsFix_byteCells v k
    have hl := byteCells_length v k
    unfold byteCells at ih hl ⊢
    rw [List.range_succ, List.map_append, cellsFix_append, ih, hl, mod_two_pow_succ']
    by_cases hb : v.testBit k <;> simp [hb, cellsFix]

theorem cellsMask_byteCells (v : Nat) : ∀ k, cellsMask (byteCells v k) = 2 ^ k - 1
  | 0 => by simp [byteCells, cellsMask]
  | k + 1 => by
    have ih := cellsMask_byteCells v k
    have hl := byteCells_length v k
    unfold byteCells at ih hl ⊢
    rw [List.range_succ, List.map_append, cellsMask_append, ih, hl]
    have hp : 0 < 2 ^ k := Nat.two_pow_pos k
    have hc : cellsMask [if v.testBit k then Cell.one else Cell.zero] = 1 := by
      by_cases hb : v.testBit k <;> simp [hb, cellsMask]
    simp only [List.map_cons, List.map_nil, hc, Nat.pow_succ]
    omega

theorem cl_length (sw : Nat) (it : Item) : (cl sw it).length = it.widthE sw := by
  unfold cl Item.widthE
  split
  · simp
  · next h =>
    cases it with
    | skip => rfl
    | bit b => cases b <;> rfl
    | byte v => simp [Item.cellsLsb, Item.width]
    | field opt sym loc =>
      cases opt <;> cases loc <;> simp_all [Item.cellsLsb, Item.width, Item.isStar]

/-! ## processing-order form of the reference -/

theorem refCells_processed (a : Ast) :
    refCells a = (processed a).flatMap (cl (starWidth a)) := by
  unfold refCells processed starWidth
  cases a.dir with
  | lsb => rfl
  | msb =>
    show (List.flatMap (fun it => (cl _ it).reverse) a.items).reverse = _
    rw [List.reverse_flatMap]
    congr 1
    funext it
    simp

/-- the extractor the documentation gives an item that starts at offset `off` in processing order. -/
def extOf (go : Bool) (off : Nat) : Item → List Ext
  | .field opt sym (.len n) =>
    if opt == .ovl then
      (if go then [⟨opt == .attr, sym, kindOf opt, off - n, some off, go⟩]
       else [⟨opt == .attr, sym, kindOf opt, off, some (off + n), go⟩])
    else [⟨opt == .attr, sym, kindOf opt, off, some (off + n), go⟩]
  | .field opt sym .star => [⟨opt == .attr, sym, kindOf opt, off, none, go⟩]
  | _ => []

/-- documented fields as a left-to-right walk over the processed items. -/
def walkX (go : Bool) (sw : Nat) : List Item → Nat → List Ext
  | [], _ => []
  | it :: rest, off => extOf go off it ++ walkX go sw rest (off + it.widthE sw)

theorem walkX_append (go : Bool) (sw : Nat) (l1 l2 : List Item) (off : Nat) :
    walkX go sw (l1 ++ l2) off = walkX go sw l1 off ++ walkX go sw l2 (off + sumE sw l1) := by
  induction l1 generalizing off with
  | nil => simp [walkX, sumE]
  | cons it rest ih =>
    simp only [List.cons_append, walkX, ih, sumE, List.append_assoc, Nat.add_assoc]

theorem filterMap_cons_toList {α β : Type} (f : α → Option β) (x : α) (xs : List α) :
    (x :: xs).filterMap f = (f x).toList ++ xs.filterMap f := by
  rw [List.filterMap_cons]
  cases f x <;> rfl

theorem refField_lsb (T sw : Nat) (it : Item) (p : Nat) :
    (refField .lsb T sw it p).toList = (extOf true p it).map Ext.toRField := by
  cases it with
  | field opt sym loc =>
    cases opt <;> cases loc <;> simp [refField, extOf, Ext.toRField]
  | _ => simp [refField, extOf]

theorem refField_msb (T sw : Nat) (it : Item) (p : Nat) (h : p + it.widthE sw ≤ T) :
    (refField .msb T sw it p).toList =
      (extOf false (T - p - it.widthE sw) it).map Ext.toRField := by
  cases it with
  | field opt sym loc =>
    cases opt <;> cases loc <;>
      simp [refField, extOf, Ext.toRField, Item.widthE, Item.isStar, Item.width] at h ⊢ <;> omega
  | _ => simp [refField, extOf]

theorem refFields_lsb_walk (T sw : Nat) : ∀ (ws : List Item) (p : Nat),
    (prefixWidths sw ws p).filterMap (fun (x : Item × Nat) => refField .lsb T sw x.1 x.2) =
      (walkX true sw ws p).map Ext.toRField
  | [], _ => rfl
  | it :: rest, p => by
    rw [prefixWidths, filterMap_cons_toList, walkX, List.map_append,
      refFields_lsb_walk T sw rest, refField_lsb]

theorem toList_reverse {β : Type} (o : Option β) : o.toList.reverse = o.toList := by
  cases o <;> rfl

theorem refFields_msb_walk (T sw : Nat) : ∀ (ws : List Item) (p : Nat), p + sumE sw ws ≤ T →
    ((prefixWidths sw ws p).filterMap (fun (x : Item × Nat) => refField .msb T sw x.1 x.2)).reverse =
      (walkX false sw ws.reverse (T - p - sumE sw ws)).map Ext.toRField
  | [], _, _ => rfl
  | it :: rest, p, h => by
    simp only [sumE] at h
    have ih := refFields_msb_walk T sw rest (p + it.widthE sw) (by omega)
    rw [prefixWidths, filterMap_cons_toList, List.reverse_append, ih, List.reverse_cons,
      walkX_append, List.map_append, sumE_reverse, toList_reverse]
    congr 1
    · simp only [sumE]; congr 2; omega
    · simp only [walkX, List.append_nil, sumE]
      rw [refField_msb T sw it p (by omega)]
      have : T - p - (it.widthE sw + sumE sw rest) + sumE sw rest = T - p - it.widthE sw := by omega
      rw [this]

theorem refFields_processed (a : Ast) (hT : sumE (starWidth a) a.items = bitSize a) :
    refFields a =
      (walkX (a.dir == .lsb) (starWidth a) (processed a) 0).map Ext.toRField := by
  unfold refFields processed
  cases hd : a.dir with
  | lsb =>
    exact refFields_lsb_walk _ _ a.items 0
  | msb =>
    have h := refFields_msb_walk (bitSize a) (starWidth a) a.items 0 (by omega)
    rw [hT] at h
    simp only [Nat.sub_self, Nat.sub_zero] at h
    have hb : (Dir.msb == Dir.lsb) = false := by decide
    rw [hb]; exact h

/-! ## what `GrammarOK` provides, in processing order -/

/-- `=sym(n)` fits, item at offset `off` in processing order. -/
def ovlOK (go : Bool) (N off : Nat) : Item → Prop
  | .field .ovl _ (.len n) => if go then n ≤ off else off + n ≤ N
  | .field .ovl _ .star => False
  | _ => True

def ovlP (go : Bool) (N sw : Nat) : List Item → Nat → Prop
  | [], _ => True
  | it :: rest, off => ovlOK go N off it ∧ ovlP go N sw rest (off + it.widthE sw)

theorem ovlP_append (go : Bool) (N sw : Nat) (l1 l2 : List Item) (off : Nat) :
    ovlP go N sw (l1 ++ l2) off ↔ ovlP go N sw l1 off ∧ ovlP go N sw l2 (off + sumE sw l1) := by
  induction l1 generalizing off with
  | nil => simp [ovlP, sumE]
  | cons it rest ih => simp only [List.cons_append, ovlP, ih, sumE, and_assoc, Nat.add_assoc]

theorem ovlFits_cons (it : Item) (p : Nat) (rest : List (Item × Nat))
    (h : ovlFits ((it, p) :: rest) = true) :
    (∀ s n, it = .field .ovl s (.len n) → n ≤ p) ∧ (∀ s, it ≠ .field .ovl s .star) ∧
      ovlFits rest = true := by
  cases it with
  | field opt sym loc =>
    cases opt <;> cases loc <;> simp_all [ovlFits]
  | _ => simp_all [ovlFits]

theorem ovlP_lsb (N sw : Nat) : ∀ (ws : List Item) (p : Nat),
    ovlFits (prefixWidths sw ws p) = true → ovlP true N sw ws p
  | [], _, _ => trivial
  | it :: rest, p, h => by
    rw [prefixWidths] at h
    obtain ⟨h1, h2, h3⟩ := ovlFits_cons _ _ _ h
    refine ⟨?_, ovlP_lsb N sw rest _ h3⟩
    cases it with
    | field opt sym loc =>
      cases opt <;> cases loc <;> simp_all [ovlOK]
    | _ => trivial

theorem ovlP_msb (T sw : Nat) : ∀ (ws : List Item) (p : Nat), p + sumE sw ws ≤ T →
    ovlFits (prefixWidths sw ws p) = true → ovlP false T sw ws.reverse (T - p - sumE sw ws)
  | [], _, _, _ => trivial
  | it :: rest, p, hT, h => by
    rw [prefixWidths] at h
    simp only [sumE] at hT
    obtain ⟨h1, h2, h3⟩ := ovlFits_cons _ _ _ h
    have ih := ovlP_msb T sw rest (p + it.widthE sw) (by omega) h3
    rw [List.reverse_cons, ovlP_append, sumE_reverse]
    refine ⟨?_, ?_, trivial⟩
    · simp only [sumE]
      have : T - p - (it.widthE sw + sumE sw rest) = T - (p + it.widthE sw) - sumE sw rest := by
        omega
      rw [this]; exact ih
    · simp only [sumE]
      cases it with
      | field opt sym loc =>
        cases opt <;> cases loc <;> simp_all [ovlOK, Item.widthE, Item.isStar, Item.width]
        omega
      | _ => trivial

/-- no extractor created so far is redefined by a later directive. -/
def Fresh (exts : List Ext) (l : List Item) : Prop :=
  ∀ e ∈ exts, ∀ o s loc, Item.field o s loc ∈ l → ¬ ((o == Opt.attr) = e.toAttr ∧ s = e.sym)

theorem Fresh_tail {exts : List Ext} {d : Item} {l : List Item} (h : Fresh exts (d :: l)) :
    Fresh exts l :=
  fun e he o s loc hm => h e he o s loc (List.mem_cons_of_mem _ hm)

theorem noDupSyms_field {kA kF : List String} {opt : Opt} {sym : String} {loc : Loc}
    {rest : List Item} (h : noDupSyms kA kF (.field opt sym loc :: rest) = true) :
    (if opt == .attr then kA.contains sym else kF.contains sym) = false ∧
    (∀ o s loc', Item.field o s loc' ∈ rest → ¬ ((o == Opt.attr) = (opt == Opt.attr) ∧ s = sym)) ∧
    noDupSyms kA kF rest = true := by
  unfold noDupSyms at h
  by_cases ha : (opt == Opt.attr) = true
  · simp only [ha, if_true, Bool.and_eq_true, Bool.not_eq_true', List.all_eq_true] at h ⊢
    refine ⟨h.1.1, ?_, h.2⟩
    intro o s loc' hm hc
    have := h.1.2 _ hm
    simp [hc.1, hc.2] at this
  · simp only [ha, Bool.false_eq_true, if_false, Bool.and_eq_true, Bool.not_eq_true',
      List.all_eq_true] at h ⊢
    simp only [Bool.not_eq_true] at ha
    refine ⟨h.1.1, ?_, h.2⟩
    intro o s loc' hm hc
    have := h.1.2 _ hm
    simp [hc.2] at this
    simp [this] at hc

theorem noDupSyms_tail {kA kF : List String} {d : Item} {rest : List Item}
    (h : noDupSyms kA kF (d :: rest) = true) : noDupSyms kA kF rest = true := by
  cases d with
  | field opt sym loc => exact (noDupSyms_field h).2.2
  | _ => simpa [noDupSyms] using h

theorem widthE_len {opt : Opt} (h : (opt == Opt.ovl) = false) (sw : Nat) (sym : String) (n : Nat) :
    (Item.field opt sym (.len n)).widthE sw = n := by
  cases opt <;> first | rfl | simp at h

theorem widthE_star (opt : Opt) (sw : Nat) (sym : String) :
    (Item.field opt sym .star).widthE sw = sw := by
  cases opt <;> rfl

theorem cl_len {opt : Opt} (h : (opt == Opt.ovl) = false) (sw : Nat) (sym : String) (n : Nat) :
    cl sw (Item.field opt sym (.len n)) = List.replicate n .free := by
  cases opt <;> first | rfl | simp at h

theorem cl_star (opt : Opt) (sw : Nat) (sym : String) :
    cl sw (Item.field opt sym .star) = List.replicate sw .free := by
  cases opt <;> rfl

theorem cellsFix_append_free (cs : List Cell) (n : Nat) :
    cellsFix (cs ++ List.replicate n .free) = cellsFix cs := by
  rw [cellsFix_append, cellsFix_replicate_free]; omega

theorem cellsMask_append_free (cs : List Cell) (n : Nat) :
    cellsMask (cs ++ List.replicate n .free) = cellsMask cs := by
  rw [cellsMask_append, cellsMask_replicate_free]; omega

/-- the `clash` test of `bstep` does not fire. -/
theorem clash_false {kA kF : List String} {opt : Opt} {sym : String} {loc : Loc}
    {rest : List Item} {exts : List Ext}
    (hk : (if opt == .attr then kA.contains sym else kF.contains sym) = false)
    (hfr : Fresh exts (.field opt sym loc :: rest)) :
    (if (opt == Opt.attr) = true then
        kA.contains sym || exts.any (fun e => e.toAttr && e.sym == sym)
      else kF.contains sym || exts.any (fun e => !e.toAttr && e.sym == sym)) = false := by
  by_cases ha : (opt == Opt.attr) = true
  · simp only [ha, if_true] at hk ⊢
    rw [hk, Bool.false_or, List.any_eq_false]
    intro e he hc
    simp only [Bool.and_eq_true, beq_iff_eq] at hc
    exact hfr e he opt sym loc (List.mem_cons_self ..) ⟨by rw [ha, hc.1], hc.2.symm⟩
  · simp only [ha, Bool.false_eq_true, if_false] at hk ⊢
    simp only [Bool.not_eq_true] at ha
    rw [hk, Bool.false_or, List.any_eq_false]
    intro e he hc
    simp only [Bool.and_eq_true, beq_iff_eq, Bool.not_eq_true'] at hc
    exact hfr e he opt sym loc (List.mem_cons_self ..) ⟨by rw [ha, hc.1], hc.2.symm⟩

theorem bloop_inv (N : Nat) (go : Bool) (kA kF : List String) (sw : Nat) :
    ∀ (l : List Item) (st : BState) (cs : List Cell),
      starLast l = true → st.i + sumE sw l = N → st.count = st.i → cs.length = st.i →
      st.fix = cellsFix cs → st.mask = cellsMask cs →
      noDupSyms kA kF l = true → Fresh st.exts l → ovlP go N sw l st.i →
      ∃ st', bloop N go kA kF st l = .ok st' ∧ st'.count = N ∧
        st'.fix = cellsFix (cs ++ l.flatMap (cl sw)) ∧
        st'.mask = cellsMask (cs ++ l.flatMap (cl sw)) ∧
        st'.exts = (walkX go sw l st.i).reverse ++ st.exts
  | [], st, cs, _, hsum, hcnt, _, hfix, hmask, _, _, _ =>
    ⟨st, rfl, by simp only [sumE] at hsum; omega, by simpa using hfix, by simpa using hmask,
      by simp [walkX]⟩
  | d :: rest, st, cs, hsl, hsum, hcnt, hlen, hfix, hmask, hnd, hfr, hov => by
    have hsl' := starLast_tail hsl
    have hnd' := noDupSyms_tail hnd
    have hfr' := Fresh_tail hfr
    obtain ⟨hov1, hov2⟩ := hov
    simp only [sumE] at hsum
    have hfl : st.fix < 2 ^ st.i := by rw [hfix, ← hlen]; exact cellsFix_lt cs
    have hml : st.mask < 2 ^ st.i := by rw [hmask, ← hlen]; exact cellsMask_lt cs
    cases d with
    | skip =>
      have hw : Item.skip.widthE sw = 1 := rfl
      rw [hw] at hsum hov2
      have hlt : st.i < N := by omega
      obtain ⟨st', h1, h2, h3, h4, h5⟩ :=
        bloop_inv N go kA kF sw rest { st with i := st.i + 1, count := st.count + 1 }
          (cs ++ [.free]) hsl' (by simp only; omega) (by simp only; omega)
          (by simp only [List.length_append, List.length_singleton]; omega)
          (by simp [cellsFix_append, cellsFix, hfix]) (by simp [cellsMask_append, cellsMask, hmask])
          hnd' hfr' hov2
      refine ⟨st', ?_, h2, ?_, ?_, ?_⟩
      · simp only [bloop, bstep, hlt, if_true]; exact h1
      · simpa [cl, Item.isStar, Item.cellsLsb] using h3
      · simpa [cl, Item.isStar, Item.cellsLsb] using h4
      · simpa [walkX, extOf, hw] using h5
    | bit b =>
      have hw : (Item.bit b).widthE sw = 1 := rfl
      rw [hw] at hsum hov2
      have hlt : st.i < N := by omega
      obtain ⟨st', h1, h2, h3, h4, h5⟩ :=
        bloop_inv N go kA kF sw rest
          { st with fix := st.fix ||| ((if b then 1 else 0) <<< st.i),
                    mask := st.mask ||| (1 <<< st.i), i := st.i + 1, count := st.count + 1 }
          (cs ++ [if b then Cell.one else Cell.zero]) hsl' (by simp only; omega) (by simp only; omega)
          (by simp only [List.length_append, List.length_singleton]; omega)
          (by show st.fix ||| _ = _
              rw [lor_shiftLeft_of_lt hfl, cellsFix_append, hlen, hfix]
              cases b <;> simp [cellsFix])
          (by show st.mask ||| _ = _
              rw [lor_shiftLeft_of_lt hml, cellsMask_append, hlen, hmask]
              cases b <;> simp [cellsMask])
          hnd' hfr' hov2
      refine ⟨st', ?_, h2, ?_, ?_, ?_⟩
      · simp only [bloop, bstep, hlt, if_true]; exact h1
      · cases b <;> simpa [cl, Item.isStar, Item.cellsLsb] using h3
      · cases b <;> simpa [cl, Item.isStar, Item.cellsLsb] using h4
      · simpa [walkX, extOf, hw] using h5
    | byte v =>
      have hw : (Item.byte v).widthE sw = 8 := rfl
      rw [hw] at hsum hov2
      have hle : st.i + 8 ≤ N := by omega
      have hcl : cl sw (Item.byte v) = byteCells v 8 := rfl
      obtain ⟨st', h1, h2, h3, h4, h5⟩ :=
        bloop_inv N go kA kF sw rest
          { st with fix := st.fix ||| ((v % 256) <<< st.i),
                    mask := st.mask ||| (255 <<< st.i), i := st.i + 8, count := st.count + 8 }
          (cs ++ byteCells v 8) hsl' (by simp only; omega) (by simp only; omega)
          (by simp only [List.length_append, byteCells_length]; omega)
          (by show st.fix ||| _ = _
              rw [lor_shiftLeft_of_lt hfl, cellsFix_append, hlen, hfix, cellsFix_byteCells])
          (by show st.mask ||| _ = _
              rw [lor_shiftLeft_of_lt hml, cellsMask_append, hlen, hmask, cellsMask_byteCells])
          hnd' hfr' hov2
      refine ⟨st', ?_, h2, ?_, ?_, ?_⟩
      · simp only [bloop, bstep, hle, if_true]; exact h1
      · simpa [hcl] using h3
      · simpa [hcl] using h4
      · simpa [walkX, extOf, hw] using h5
    | field opt sym loc =>
      obtain ⟨hk, hrest, _⟩ := noDupSyms_field hnd
      have hclash := clash_false hk hfr
      have hfr2 : ∀ k sta sto, Fresh (⟨opt == .attr, sym, k, sta, sto, go⟩ :: st.exts) rest := by
        intro k sta sto e he o s loc' hm
        rcases List.mem_cons.1 he with rfl | he
        · exact fun hc => hrest o s loc' hm ⟨hc.1, hc.2⟩
        · exact hfr' e he o s loc' hm
      cases loc with
      | len n =>
        by_cases ho : (opt == Opt.ovl) = true
        · have ho' : opt = Opt.ovl := by simpa using ho
          subst ho'
          have hw : (Item.field Opt.ovl sym (.len n)).widthE sw = 0 := rfl
          have hcl : cl sw (Item.field Opt.ovl sym (.len n)) = [] := rfl
          rw [hw] at hsum hov2
          cases go with
          | true =>
            have hb : n ≤ st.i := by simpa [ovlOK] using hov1
            obtain ⟨st', h1, h2, h3, h4, h5⟩ :=
              bloop_inv N true kA kF sw rest
                { st with exts := ⟨Opt.ovl == .attr, sym, kindOf .ovl, st.i - n, some st.i, true⟩ :: st.exts }
                cs hsl' (by simp only; omega) hcnt hlen hfix hmask hnd' (hfr2 _ _ _) hov2
            refine ⟨st', ?_, h2, ?_, ?_, ?_⟩
            · simp only [bloop, bstep, hclash, hb, if_true]; exact h1
            · simpa [hcl] using h3
            · simpa [hcl] using h4
            · simpa [walkX, extOf, hw] using h5
          | false =>
            have hb : st.i + n ≤ N := by simpa [ovlOK] using hov1
            obtain ⟨st', h1, h2, h3, h4, h5⟩ :=
              bloop_inv N false kA kF sw rest
                { st with exts := ⟨Opt.ovl == .attr, sym, kindOf .ovl, st.i, some (st.i + n), false⟩ :: st.exts }
                cs hsl' (by simp only; omega) hcnt hlen hfix hmask hnd' (hfr2 _ _ _) hov2
            refine ⟨st', ?_, h2, ?_, ?_, ?_⟩
            · simp only [bloop, bstep, hclash, hb, if_true]; exact h1
            · simpa [hcl] using h3
            · simpa [hcl] using h4
            · simpa [walkX, extOf, hw] using h5
        · simp only [Bool.not_eq_true] at ho
          have hw := widthE_len ho sw sym n
          have hcl := cl_len ho sw sym n
          rw [hw] at hsum hov2
          have hb : st.i + n ≤ N := by omega
          obtain ⟨st', h1, h2, h3, h4, h5⟩ :=
            bloop_inv N go kA kF sw rest
              { st with exts := ⟨opt == .attr, sym, kindOf opt, st.i, some (st.i + n), go⟩ :: st.exts,
                        i := st.i + n, count := st.count + n }
              (cs ++ List.replicate n .free) hsl' (by simp only; omega) (by simp only; omega)
              (by simp only [List.length_append, List.length_replicate]; omega)
              (by simpa [cellsFix_append_free] using hfix) (by simpa [cellsMask_append_free] using hmask)
              hnd' (hfr2 _ _ _) hov2
          refine ⟨st', ?_, h2, ?_, ?_, ?_⟩
          · simp only [bloop, bstep, hclash, ho, hb, if_true]; exact h1
          · simpa [hcl] using h3
          · simpa [hcl] using h4
          · simpa [walkX, extOf, hw, ho] using h5
      | star =>
        have ho : (opt == Opt.ovl) = false := by
          cases opt <;> first | rfl | exact absurd hov1 (by simp [ovlOK])
        have hr : rest = [] := starLast_head hsl (by cases opt <;> rfl)
        subst hr
        have hw := widthE_star opt sw sym
        have hcl := cl_star opt sw sym
        rw [hw] at hsum hov2
        simp only [sumE] at hsum
        have hb : st.i ≤ N := by omega
        obtain ⟨st', h1, h2, h3, h4, h5⟩ :=
          bloop_inv N go kA kF sw []
            { st with exts := ⟨opt == .attr, sym, kindOf opt, st.i, none, go⟩ :: st.exts,
                      i := N, count := if st.count < N then N else st.count }
            (cs ++ List.replicate sw .free) hsl' (by simp only [sumE]; omega)
            (by simp only; split <;> omega)
            (by simp only [List.length_append, List.length_replicate]; omega)
            (by simpa [cellsFix_append_free] using hfix) (by simpa [cellsMask_append_free] using hmask)
            hnd' (hfr2 _ _ _) trivial
        refine ⟨st', ?_, h2, ?_, ?_, ?_⟩
        · simp only [bloop, bstep, hclash, ho, hb, if_true]; exact h1
        · simpa [hcl] using h3
        · simpa [hcl] using h4
        · simpa [walkX, extOf, hw] using h5

/-! ## conclusion -/

theorem sumE_processed (sw : Nat) (a : Ast) : sumE sw (processed a) = sumE sw a.items := by
  unfold processed
  cases a.dir with
  | msb => exact sumE_reverse sw a.items
  | lsb => rfl

/-- under `GrammarOK` the effective widths add up to the bit size. -/
theorem sumE_total (a : Ast)
    (hsl : starLast (processed a) = true)
    (hsz : (match a.size with
      | some n => if (processed a).any Item.isStar then decide (sumWidth a.items ≤ n)
                  else sumWidth a.items == n
      | none => true) = true) :
    sumE (starWidth a) (processed a) = bitSize a := by
  have h1 := sumE_starLast (starWidth a) (processed a) hsl
  have h2 : sumE 0 (processed a) = sumWidth a.items := by
    rw [sumE_processed, sumWidth_eq_sumE]
  rw [h1, h2]
  cases hs : a.size with
  | none =>
    have hb : bitSize a = starSize (processed a) := by unfold bitSize; rw [hs]
    have hw : starWidth a = 0 := by unfold starWidth; rw [hs]
    rw [hb, hw, starSize_starLast _ hsl, h2]
    split <;> rfl
  | some n =>
    have hb : bitSize a = n := by unfold bitSize; rw [hs]
    have hw : starWidth a = n - sumWidth a.items := by unfold starWidth; rw [hs]; rfl
    rw [hb, hw]
    rw [hs] at hsz
    simp only at hsz
    split at hsz
    · next hst => rw [if_pos hst]; simp at hsz; omega
    · next hst => rw [if_neg hst]; simp at hsz; omega

theorem ovlP_processed (a : Ast) (hT : sumE (starWidth a) a.items = bitSize a)
    (hov : ovlFits (prefixWidths (starWidth a) a.items 0) = true) :
    ovlP (a.dir == .lsb) (bitSize a) (starWidth a) (processed a) 0 := by
  unfold processed
  cases hd : a.dir with
  | lsb => exact ovlP_lsb _ _ a.items 0 hov
  | msb =>
    have h := ovlP_msb (bitSize a) (starWidth a) a.items 0 (by omega) hov
    rw [hT] at h
    simp only [Nat.sub_self, Nat.sub_zero] at h
    have hb : (Dir.msb == Dir.lsb) = false := by decide
    rw [hb]; exact h

/-- **C03, central theorem**: for every format the grammar admits, `buildspec` as coded
    computes the documented meaning. -/
theorem buildspec_meaning_proof (a : Ast) (keysA keysF : List String)
    (hok : GrammarOK a keysA keysF = true) :
    ∃ s, buildspec a keysA keysF = .ok s ∧
      s.fixSize = bitSize a ∧
      s.fix = cellsFix (refCells a) ∧ s.mask = cellsMask (refCells a) ∧
      s.exts.map Ext.toRField = refFields a ∧
      s.size = a.size.getD 0 ∧ s.pfx = a.pfx ∧ s.xdata = a.xdata := by
  simp only [GrammarOK, Bool.and_eq_true] at hok
  obtain ⟨⟨⟨⟨hsl, _⟩, hnd⟩, hov⟩, hsz⟩ := hok
  have hT := sumE_total a hsl hsz
  have hT' : sumE (starWidth a) a.items = bitSize a := by rw [← sumE_processed]; exact hT
  obtain ⟨st, h1, h2, h3, h4, h5⟩ :=
    bloop_inv (bitSize a) (a.dir == .lsb) keysA keysF (starWidth a) (processed a) {} []
      hsl (by simpa using hT) rfl rfl rfl rfl hnd
      (fun e he => by cases he) (ovlP_processed a hT' hov)
  have hne : (st.count != bitSize a) = false := by simp [h2]
  refine ⟨{ size := a.size.getD 0, fixSize := bitSize a, fix := st.fix, mask := st.mask,
            pfx := a.pfx, xdata := a.xdata, exts := st.exts.reverse }, ?_, rfl, ?_, ?_, ?_, rfl, rfl, rfl⟩
  · simp only [buildspec, h1, hne]
    rfl
  · simpa [refCells_processed] using h3
  · simpa [refCells_processed] using h4
  · simp only [h5, List.append_nil, List.reverse_reverse]
    exact (refFields_processed a hT').symm

end Amoco.Spec
