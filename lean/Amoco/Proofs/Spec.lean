/-
  Helper lemmas for the spec language (C03).
-/
import Amoco.Model.Spec

namespace Amoco.Spec

end Amoco.Spec
