/-
  Helper lemmas for C16 (struct language, LEB128): see the files of Amoco/Proofs/Struct/.
    Leb      — LEB128 reader/writer round trips, canonical encodings
    Bytes    — integer codecs, `canon`, slices, chunks
    Layout   — `align`/`size`/`align_value`/`offsets` against the C ABI reference
    Codec    — per-field round trips (raw, terminated, counted, bound, LEB128)
    Bits     — bit-field storage units
    Pack     — arrays, typedef chains, the instance namespace, assembling parts and masks
    RoundTrip — the mutual induction over definitions (pack ∘ unpack)
    Ref      — unpack of a fixed-size definition = reference decoding at the ABI offsets
-/
import Amoco.Proofs.Struct.Ref
