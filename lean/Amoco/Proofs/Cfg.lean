/-
  Helper lemmas for C18 — umbrella file and the refinement
  `addVertex` (model of `cfg.graph.add_vertex` on the zone of blocks) = `absAdd` (the same algorithm on
  index intervals), for zones that hold runs of one consecutive stream.
-/
import Amoco.Proofs.CfgBlocks
import Amoco.Proofs.CfgStream
import Amoco.Proofs.CfgAbs
import Amoco.Proofs.CfgZone

namespace Amoco.Cfg

open Amoco.Blocks

variable {S : List Instr}

def lift (S : List Instr) (a : Nat) : Option (List Iv × Edges) → Res
  | none => .error
  | some (ivs, E) => .ok ⟨rep S ivs, E⟩ a

theorem blen_run_lt_iff (hS : StreamOK S) (s a b : Nat) (ha : s ≤ a) (hb : s ≤ b) (ha' : a ≤ S.length) (hb' : b ≤ S.length) :
    blen (run S s a) < blen (run S s b) ↔ a < b := by
  have h1 := addrOf_add (S := S) s a ha ha'
  have h2 := addrOf_add (S := S) s b hb hb'
  have := addrOf_lt_iff hS a b ha' hb'
  omega

theorem gapAdd_refines (hS : StreamOK S) (rec : Graph → Block → Res)
    (arec : List Iv × Edges → Nat → Nat → Option (List Iv × Edges))
    (hrec : ∀ ivs1 E1 ns e', IvsOK S.length ivs1 → ns < e' → e' ≤ S.length →
      rec ⟨rep S ivs1, E1⟩ (run S ns e') = lift S (addrOf S ns) (arec (ivs1, E1) ns e'))
    (pre post : List Iv) (E : Edges) (s e : Nat) (hok : IvsOK S.length (pre ++ post))
    (hse : s < e) (he : e ≤ S.length)
    (hpre : ∀ iv ∈ pre, iv.2 ≤ s) (hpost : ∀ iv ∈ post, s < iv.1)
    (i : Option Nat) (hi : nextIdx i = pre.length) :
    gapAdd rec ⟨rep S (pre ++ post), E⟩ (run S s e) (addrOf S s) i =
      lift S (addrOf S s) (absGap (addrOf S) arec E s e pre post) := by
  unfold gapAdd
  have hget : (rep S (pre ++ post))[nextIdx i]? = (rep S post)[0]? := by
    rw [hi, rep_append, ← rep_length (S := S) pre, List.getElem?_append_right (Nat.le_refl _)]
    simp
  rw [hget]
  cases post with
  | nil =>
    simp only [rep_nil, List.getElem?_nil]
    unfold absGap
    simp only [zoneWrite]
    rw [addtomap_gap hS pre [] s e hok hse he hpre (by simp)]
    rfl
  | cons hd post' =>
    obtain ⟨ns, ne⟩ := hd
    have hm := hok.mem (show (ns, ne) ∈ pre ++ (ns, ne) :: post' by simp)
    simp at hm
    have hns : s < ns := hpost (ns, ne) (by simp)
    have hpw := hok.2
    rw [List.pairwise_append] at hpw
    have hpw2 := hpw.2.1
    rw [List.pairwise_cons] at hpw2
    have hafter : ∀ iv ∈ (ns, ne) :: post', ns ≤ iv.1 := by
      intro iv hiv
      rcases List.mem_cons.mp hiv with rfl | hiv
      · exact Nat.le_refl _
      · have := hpw2.1 iv hiv; simp at this; omega
    simp only [rep_cons, List.getElem?_cons_zero]
    have haddr : address? (repMo S (ns, ne)).blk = some (addrOf S ns) :=
      address_run hS ns ne hm.1 hm.2
    rw [haddr]
    simp only
    have hcond : (addrOf S s + blen (run S s e) > addrOf S ns) ↔ ns < e := by
      rw [addrOf_add s e (by omega) he]
      exact addrOf_lt_iff hS ns e (by omega) he
    unfold absGap
    by_cases hlt : ns < e
    · have hc : addrOf S s + blen (run S s e) > addrOf S ns := hcond.mpr hlt
      simp only [hc, if_true, hlt]
      rw [cut_run hS s ns e (by omega) hlt he]
      simp only
      have hnl : ¬ (e - ns = 0) := by omega
      simp only [hnl, if_false]
      have hrest : (run S s e).drop ((run S s e).length - (e - ns)) = run S ns e := by
        rw [run_length s e he]
        have := run_drop (S := S) s ns e (by omega)
        rw [show e - s - (e - ns) = ns - s by omega]
        exact this
      rw [hrest]
      simp only [zoneWrite]
      rw [addtomap_gap hS pre ((ns, ne) :: post') s ns hok hns (by omega) hpre hafter]
      simp only
      have hok1 : IvsOK S.length (pre ++ (s, ns) :: (ns, ne) :: post') :=
        ivsOK_insert hok hns (by omega) hpre hafter
      rw [hrec _ E ns e hok1 hlt he]
      cases arec (pre ++ (s, ns) :: (ns, ne) :: post', E) ns e with
      | none => rfl
      | some r => obtain ⟨ivs2, E2⟩ := r; rfl
    · have hc : ¬ (addrOf S s + blen (run S s e) > addrOf S ns) := fun h => hlt (hcond.mp h)
      simp only [hc, if_false, hlt]
      simp only [zoneWrite]
      rw [addtomap_gap hS pre ((ns, ne) :: post') s e hok hse he hpre
        (fun iv hiv => by have := hafter iv hiv; omega)]
      rfl


theorem transfer_eq (from_ to_ : Nat) (succ : List Nat) (E : Edges) :
    succ.foldl (fun es t => removeEdge (addEdge es (to_, t)) (from_, t)) E = transfer from_ to_ succ E := rfl

theorem cutAdd_refines (hS : StreamOK S) (f : Nat)
    (ih : ∀ (ivs : List Iv) (E : Edges) (s e : Nat), IvsOK S.length ivs → s < e → e ≤ S.length →
      addVertex f ⟨rep S ivs, E⟩ (run S s e) = lift S (addrOf S s) (absAdd (addrOf S) f (ivs, E) s e))
    (ivs pre0 post : List Iv) (E : Edges) (os oe s e : Nat) (hivs : ivs = pre0 ++ (os, oe) :: post)
    (hok : IvsOK S.length ivs) (hos : os ≤ s) (hin : s < oe) (hse : s < e) (he : e ≤ S.length)
    (hpost : ∀ iv ∈ post, s < iv.1) :
    cutAdd (addVertex f) ⟨rep S ivs, E⟩ (run S s e) (addrOf S s) pre0.length (repMo S (os, oe)) =
      lift S (addrOf S s)
        (if os = s then
          if oe < e then
            match absAdd (addrOf S) f (ivs, E) oe e with
            | some (ivs2, E2) => some (ivs2, addEdge E2 (addrOf S s, addrOf S oe))
            | none => none
          else some (ivs, E)
        else
          match absGap (addrOf S) (absAdd (addrOf S) f) E s (if e < oe then oe else e) (pre0 ++ [(os, s)]) post with
          | some (ivs2, E2) =>
            some (ivs2, addEdge (transfer (addrOf S os) (addrOf S s)
              ((E.filter (fun x => x.1 == addrOf S os)).map (·.2)) E2) (addrOf S os, addrOf S s))
          | none => none) := by
  have hok' : IvsOK S.length (pre0 ++ (os, oe) :: post) := hivs ▸ hok
  have hmm := hok'.mem (show (os, oe) ∈ pre0 ++ (os, oe) :: post by simp)
  simp at hmm
  have hpw := hok'.2
  rw [List.pairwise_append] at hpw
  obtain ⟨_, hpw2, hpw3⟩ := hpw
  rw [List.pairwise_cons] at hpw2
  have hp0 : ∀ a ∈ pre0, a.2 ≤ os := fun a ha => hpw3 a ha (os, oe) (by simp)
  have haddr : address? (run S os oe) = some (addrOf S os) := address_run hS os oe hmm.1 hmm.2
  have hblk : (repMo S (os, oe)).blk = run S os oe := rfl
  have hva : (repMo S (os, oe)).vaddr = addrOf S os := rfl
  unfold cutAdd
  simp only [hblk, hva, haddr]
  by_cases hsame : os = s
  · subst hsame
    simp only [↓reduceIte]
    have hlenc : (blen (run S os e) > blen (run S os oe)) ↔ oe < e :=
      blen_run_lt_iff hS os oe e (by omega) (by omega) hmm.2 he
    by_cases hlong : oe < e
    · have := hlenc.mpr hlong
      simp only [this, if_true, hlong]
      rw [getitem_run hS os oe e (by omega) hlong he]
      simp only
      rw [ih ivs E oe e hok hlong he]
      cases absAdd (addrOf S) f (ivs, E) oe e with
      | none => rfl
      | some r => obtain ⟨ivs2, E2⟩ := r; rfl
    · have : ¬ (blen (run S os e) > blen (run S os oe)) := fun h => hlong (hlenc.mp h)
      simp only [this, if_false, hlong]
      rfl
  · have hos' : os < s := by omega
    have hne : ¬ (some (addrOf S os) = some (addrOf S s)) := by
      intro h
      injection h with h
      exact hsame (addrOf_inj hS os s (by omega) (by omega) h)
    simp only [hne, if_false, hsame]
    rw [cut_run hS os s oe (by omega) hin hmm.2]
    simp only
    have hnl : ¬ (oe - s = 0) := by omega
    simp only [hnl, if_false]
    have htail : (run S os oe).drop ((run S os oe).length - (oe - s)) = run S s oe := by
      rw [run_length os oe hmm.2]
      have := run_drop (S := S) os s oe (by omega)
      rw [show oe - os - (oe - s) = s - os by omega]
      exact this
    rw [htail]
    have hv1 : (if blen (run S s oe) > blen (run S s e) then run S s oe else run S s e) =
        run S s (if e < oe then oe else e) := by
      have := blen_run_lt_iff hS s e oe (by omega) (by omega) he hmm.2
      by_cases h : e < oe
      · simp [h, this.mpr h]
      · have h' : ¬ (blen (run S s oe) > blen (run S s e)) := fun hh => h (this.mp hh)
        simp [h, h']
    rw [hv1]
    have hset : (rep S ivs).set pre0.length { vaddr := addrOf S os, blk := run S os s } =
        rep S ((pre0 ++ [(os, s)]) ++ post) := by
      rw [hivs, rep_append, ← rep_length (S := S) pre0]
      simp [repMo]
    have hset' : (rep S ivs).set pre0.length { repMo S (os, oe) with blk := run S os s } =
        rep S ((pre0 ++ [(os, s)]) ++ post) := hset
    first | rw [hset] | rw [hset']
    have hok1 : IvsOK S.length ((pre0 ++ [(os, s)]) ++ post) := by
      have := ivsOK_shrink hok' hos' (by omega)
      simpa using this
    have hloc1 : locate (rep S ((pre0 ++ [(os, s)]) ++ post)) (addrOf S s) = some pre0.length := by
      have := locate_rep_some hS pre0 post (os, s) s (by simpa using hok1) (by omega) (by simp; omega) hpost
      simpa using this
    rw [hloc1]
    have he1 : (if e < oe then oe else e) ≤ S.length := by split <;> omega
    have hse1 : s < (if e < oe then oe else e) := by split <;> omega
    have hpre1 : ∀ iv ∈ pre0 ++ [(os, s)], iv.2 ≤ s := by
      intro iv hiv
      rcases List.mem_append.mp hiv with hx | hx
      · have := hp0 iv hx; omega
      · simp at hx; subst hx; simp
    rw [gapAdd_refines hS (addVertex f) (absAdd (addrOf S) f) ih (pre0 ++ [(os, s)]) post E s _ hok1 hse1 he1
      hpre1 hpost (some pre0.length) (by simp [nextIdx])]
    cases absGap (addrOf S) (absAdd (addrOf S) f) E s (if e < oe then oe else e) (pre0 ++ [(os, s)]) post with
    | none => rfl
    | some r => obtain ⟨ivs2, E2⟩ := r; rfl

theorem addVertex_refines (hS : StreamOK S) :
    ∀ (fuel : Nat) (ivs : List Iv) (E : Edges) (s e : Nat), IvsOK S.length ivs → s < e → e ≤ S.length →
      addVertex fuel ⟨rep S ivs, E⟩ (run S s e) = lift S (addrOf S s) (absAdd (addrOf S) fuel (ivs, E) s e) := by
  intro fuel
  induction fuel with
  | zero => intro ivs E s e _ _ _; rfl
  | succ f ih =>
    intro ivs E s e hok hse he
    have hsplit : ivs.takeWhile (fun iv => decide (iv.1 ≤ s)) ++ ivs.dropWhile (fun iv => decide (iv.1 ≤ s)) = ivs :=
      List.takeWhile_append_dropWhile
    have hpost := post_starts (s := s) ivs hok.2 (fun iv hiv => (hok.mem hiv).1)
    unfold addVertex absAdd
    simp only
    rw [address_run hS s e hse he]
    simp only
    generalize hpre : ivs.takeWhile (fun iv => decide (iv.1 ≤ s)) = pre at hsplit
    generalize hpo : ivs.dropWhile (fun iv => decide (iv.1 ≤ s)) = post at hsplit hpost
    have hpre_le : ∀ iv ∈ pre, iv.1 ≤ s := by
      intro iv hiv
      rw [← hpre] at hiv
      simpa using mem_takeWhile_pred _ _ _ hiv
    cases hl : pre.getLast? with
    | none =>
      have : pre = [] := List.getLast?_eq_none_iff.mp hl
      subst this
      simp only [List.nil_append] at hsplit
      subst hsplit
      rw [locate_rep_none hS post s hok (by omega) hpost]
      simp only
      have := gapAdd_refines hS (addVertex f) (absAdd (addrOf S) f) ih
        [] post E s e (by simpa using hok) hse he (by simp) hpost none rfl
      simpa using this
    | some last =>
      obtain ⟨os, oe⟩ := last
      simp only
      have hdec := getLast?_decomp hl
      have hos : os ≤ s := hpre_le (os, oe) (by rw [hdec]; simp)
      have heq : ivs = pre.dropLast ++ (os, oe) :: post := by
        rw [← hsplit]
        conv => lhs; rw [hdec]
        simp
      have hok' : IvsOK S.length (pre.dropLast ++ (os, oe) :: post) := by rw [← heq]; exact hok
      have hmm := hok'.mem (show (os, oe) ∈ pre.dropLast ++ (os, oe) :: post by simp)
      simp at hmm
      have hpw := hok'.2
      rw [List.pairwise_append] at hpw
      obtain ⟨_, _, hpw3⟩ := hpw
      have hp0 : ∀ a ∈ pre.dropLast, a.2 ≤ os := fun a ha => hpw3 a ha (os, oe) (by simp)
      have hloc : locate (rep S ivs) (addrOf S s) = some pre.dropLast.length := by
        rw [heq]; exact locate_rep_some hS pre.dropLast post (os, oe) s hok' (by omega) hos hpost
      rw [hloc]
      simp only
      have hget : (rep S ivs)[pre.dropLast.length]? = some (repMo S (os, oe)) := by
        rw [heq, rep_append, ← rep_length (S := S) pre.dropLast, List.getElem?_append_right (Nat.le_refl _)]
        simp
      rw [hget]
      simp only
      have hcont : (repMo S (os, oe)).contains (addrOf S s) = decide (s < oe) := by
        rw [repMo_contains hS (os, oe) s (by simp; omega) (by simp; omega) (by omega)]
        simp [hos]
      rw [hcont]
      have hlenpre : pre.length = pre.dropLast.length + 1 := by
        conv => lhs; rw [hdec]
        simp
      by_cases hin : s < oe
      · simp only [hin, decide_true, if_true]
        exact cutAdd_refines hS f ih ivs pre.dropLast post E os oe s e heq hok hos hin hse he hpost
      · simp only [hin, decide_false, Bool.false_eq_true, if_false]
        have hivs : ivs = pre ++ post := hsplit.symm
        rw [hivs]
        apply gapAdd_refines hS (addVertex f) (absAdd (addrOf S) f) ih pre post E s e (hivs ▸ hok) hse he _ hpost
        · rw [hlenpre]; rfl
        · intro iv hiv
          rw [hdec] at hiv
          rcases List.mem_append.mp hiv with hx | hx
          · have := hp0 iv hx; omega
          · simp at hx; subst hx; simp; omega


/-! ## from index space back to instructions -/

theorem mem_run {s e : Nat} {x : Instr} (he : e ≤ S.length) :
    x ∈ run S s e ↔ ∃ k, s ≤ k ∧ k < e ∧ S[k]? = some x := by
  rw [List.mem_iff_getElem]
  constructor
  · rintro ⟨i, hi, rfl⟩
    rw [run_length s e he] at hi
    refine ⟨s + i, by omega, by omega, ?_⟩
    rw [run_getElem s e i he hi]
    simp
  · rintro ⟨k, h1, h2, h3⟩
    have hk : k < S.length := by omega
    rw [List.getElem?_eq_getElem hk] at h3
    injection h3 with h3
    refine ⟨k - s, by rw [run_length s e he]; omega, ?_⟩
    rw [run_getElem s e (k - s) he (by omega)]
    rw [← h3]
    congr 1
    omega

theorem stream_index_unique (hS : StreamOK S) {i j : Nat} {x : Instr}
    (hi : S[i]? = some x) (hj : S[j]? = some x) : i = j := by
  have h1 : i < S.length := by
    apply Nat.lt_of_not_le; intro h; rw [List.getElem?_eq_none h] at hi; cases hi
  have h2 : j < S.length := by
    apply Nat.lt_of_not_le; intro h; rw [List.getElem?_eq_none h] at hj; cases hj
  rw [List.getElem?_eq_getElem h1] at hi
  rw [List.getElem?_eq_getElem h2] at hj
  injection hi with hi
  injection hj with hj
  have a1 := addrOf_getElem hS i h1
  have a2 := addrOf_getElem hS j h2
  rw [hi] at a1
  rw [hj] at a2
  exact addrOf_inj hS i j (by omega) (by omega) (a1.symm.trans a2)

theorem mem_flatten_rep {ivs : List Iv} (hok : IvsOK S.length ivs) (x : Instr) :
    x ∈ ((rep S ivs).map (·.blk)).flatten ↔ ∃ k, cov ivs k ∧ S[k]? = some x := by
  rw [List.mem_flatten]
  constructor
  · rintro ⟨l, hl, hx⟩
    simp only [rep, List.map_map, List.mem_map] at hl
    obtain ⟨iv, hiv, rfl⟩ := hl
    have hm := hok.mem hiv
    simp only [Function.comp, repMo] at hx
    obtain ⟨k, h1, h2, h3⟩ := (mem_run hm.2).mp hx
    exact ⟨k, ⟨iv, hiv, h1, h2⟩, h3⟩
  · rintro ⟨k, ⟨iv, hiv, h1, h2⟩, h3⟩
    have hm := hok.mem hiv
    refine ⟨run S iv.1 iv.2, ?_, (mem_run hm.2).mpr ⟨k, h1, h2, h3⟩⟩
    simp only [rep, List.map_map, List.mem_map]
    exact ⟨iv, hiv, rfl⟩

theorem run_sorted (hS : StreamOK S) (s e : Nat) (he : e ≤ S.length) :
    (run S s e).Pairwise (fun x y => x.addr < y.addr) := by
  rw [List.pairwise_iff_getElem]
  intro i j hi hj hij
  rw [run_length s e he] at hi hj
  rw [run_getElem s e i he hi, run_getElem s e j he hj, addrOf_getElem hS, addrOf_getElem hS]
  exact addrOf_lt hS _ _ (by omega) (by omega)

theorem flatten_rep_sorted (hS : StreamOK S) {ivs : List Iv} (hok : IvsOK S.length ivs) :
    (((rep S ivs).map (·.blk)).flatten).Pairwise (fun x y => x.addr < y.addr) := by
  rw [List.pairwise_flatten]
  constructor
  · intro l hl
    simp only [rep, List.map_map, List.mem_map] at hl
    obtain ⟨iv, hiv, rfl⟩ := hl
    exact run_sorted hS _ _ (hok.mem hiv).2
  · simp only [rep, List.map_map]
    rw [List.pairwise_map]
    have hmem : ∀ iv ∈ ivs, iv.2 ≤ S.length := fun iv hiv => (hok.mem hiv).2
    have hp := hok.2
    clear hok
    induction hp with
    | nil => exact List.Pairwise.nil
    | cons hhd htl ih =>
      rename_i a l
      refine List.Pairwise.cons ?_ (ih (fun iv hiv => hmem iv (List.mem_cons_of_mem _ hiv)))
      intro b hb x hx y hy
      simp only [Function.comp, repMo] at hx hy
      obtain ⟨k1, _, g2, g3⟩ := (mem_run (hmem a (by simp))).mp hx
      obtain ⟨k2, f1, f2, f3⟩ := (mem_run (hmem b (List.mem_cons_of_mem _ hb))).mp hy
      have := hhd b hb
      have hk1 : k1 < S.length := by have := hmem a (by simp); omega
      have hk2 : k2 < S.length := by have := hmem b (List.mem_cons_of_mem _ hb); omega
      rw [List.getElem?_eq_getElem hk1] at g3
      rw [List.getElem?_eq_getElem hk2] at f3
      injection g3 with g3
      injection f3 with f3
      rw [← g3, ← f3, addrOf_getElem hS, addrOf_getElem hS]
      exact addrOf_lt hS _ _ (by omega) (by omega)

theorem rep_pairwise {ivs : List Iv} (hok : IvsOK S.length ivs) :
    (rep S ivs).Pairwise (fun m1 m2 => m1.end ≤ m2.vaddr) := by
  simp only [rep]
  rw [List.pairwise_map]
  have hmem := hok.1
  have hp := hok.2
  clear hok
  induction hp with
  | nil => exact List.Pairwise.nil
  | cons hhd htl ih =>
    rename_i a l
    refine List.Pairwise.cons ?_ (ih (fun iv hiv => hmem iv (List.mem_cons_of_mem _ hiv)))
    intro b hb
    have ha := hmem a (by simp)
    have hbm := hmem b (List.mem_cons_of_mem _ hb)
    rw [repMo_end a (by omega) ha.2]
    exact addrOf_le _ _ (hhd b hb) (by omega)

/-! ## the invariant over an insertion history -/

structure HInv (A : Nat → Nat) (n : Nat) (H : List Iv) (ivs : List Iv) (E : Edges) : Prop where
  ok : IvsOK n ivs
  covers : ∀ k, cov ivs k ↔ ∃ h ∈ H, h.1 ≤ k ∧ k < h.2
  edges : ∀ p, (∃ a, (a, p) ∈ ivs) → (∃ b, (p, b) ∈ ivs) → (∃ h ∈ H, h.1 < p ∧ p < h.2) → fall A ivs E p

theorem hinv_empty (A : Nat → Nat) (n : Nat) : HInv A n [] [] [] :=
  ⟨ivsOK_nil, by simp [cov], by simp⟩

theorem hinv_step {A : Nat → Nat} {n : Nat} {H ivs ivs' : List Iv} {E E' : Edges} {s e : Nat}
    (h : HInv A n H ivs E) (sp : Spec A n ivs E s e ivs' E') : HInv A n ((s, e) :: H) ivs' E' := by
  refine ⟨sp.ok, ?_, ?_⟩
  · intro k
    rw [sp.covers, h.covers]
    constructor
    · rintro (⟨x, hx, g⟩ | g)
      · exact ⟨x, List.mem_cons_of_mem _ hx, g⟩
      · exact ⟨(s, e), by simp, g⟩
    · rintro ⟨x, hx, g⟩
      rcases List.mem_cons.mp hx with rfl | hx
      · exact Or.inr g
      · exact Or.inl ⟨x, hx, g⟩
  · rintro p ⟨a, ha⟩ ⟨b, hb⟩ ⟨x, hx, g1, g2⟩
    rcases List.mem_cons.mp hx with rfl | hx
    · exact sp.espan p g1 g2 ⟨a, ha⟩ ⟨b, hb⟩
    · have c1 : cov ivs (p - 1) := (h.covers _).mpr ⟨x, hx, by omega, by omega⟩
      have c2 : cov ivs p := (h.covers _).mpr ⟨x, hx, by omega, g2⟩
      by_cases hst : ∃ b0, (p, b0) ∈ ivs
      · obtain ⟨b0, hb0⟩ := hst
        obtain ⟨a0, ha0⟩ := h.ok.pred_block hb0 c1 (by omega)
        exact sp.epres p (h.edges p ⟨a0, ha0⟩ ⟨b0, hb0⟩ ⟨x, hx, g1, g2⟩)
      · obtain ⟨iv, hiv, f1, f2⟩ := c2
        have : iv.1 ≠ p := by
          intro heq
          exact hst ⟨iv.2, by rw [← heq]; exact hiv⟩
        exact sp.ecut p ⟨iv, hiv, by omega, f2⟩ ⟨b, hb⟩

theorem addAll_spec (hS : StreamOK S) :
    ∀ (H Hdone ivs : List Iv) (E : Edges), (∀ h ∈ H, h.1 < h.2 ∧ h.2 ≤ S.length) →
      HInv (addrOf S) S.length Hdone ivs E →
      ∃ ivs' E', addAll ⟨rep S ivs, E⟩ (H.map (fun h => run S h.1 h.2)) = some ⟨rep S ivs', E'⟩ ∧
        HInv (addrOf S) S.length (H.reverse ++ Hdone) ivs' E' := by
  intro H
  induction H with
  | nil => intro Hdone ivs E _ hinv; exact ⟨ivs, E, rfl, by simpa using hinv⟩
  | cons h H ih =>
    intro Hdone ivs E hH hinv
    obtain ⟨s, e⟩ := h
    have hse := hH (s, e) (by simp)
    simp only at hse
    have hA : ∀ a b, a ≤ S.length → b ≤ S.length → addrOf S a = addrOf S b → a = b :=
      fun a b ha hb => addrOf_inj hS a b ha hb
    obtain ⟨ivs1, E1, hr, sp⟩ := absAdd_spec (addrOf S) hA ((run S s e).length + 1) ivs E s e hinv.ok hse.1 hse.2
      (by rw [run_length s e hse.2]; omega)
    have hstep := hinv_step hinv sp
    obtain ⟨ivs', E', hr', hinv'⟩ := ih ((s, e) :: Hdone) ivs1 E1 (fun x hx => hH x (List.mem_cons_of_mem _ hx)) hstep
    refine ⟨ivs', E', ?_, ?_⟩
    · simp only [List.map_cons, addAll]
      rw [addVertex_refines hS _ ivs E s e hinv.ok hse.1 hse.2, hr]
      simp only [lift]
      exact hr'
    · simpa using hinv'


/-! ## assembling the statements about histories of blocks -/

/-- a block cut from the instruction stream `S`: a non-empty contiguous part of it -/
def IsRun (S : List Instr) (v : Block) : Prop := v ≠ [] ∧ v <:+: S

theorem hist_indices (hist : List Block) (hh : ∀ v ∈ hist, IsRun S v) :
    ∃ H : List Iv, (∀ h ∈ H, h.1 < h.2 ∧ h.2 ≤ S.length) ∧ hist = H.map (fun h => run S h.1 h.2) := by
  induction hist with
  | nil => exact ⟨[], by simp, rfl⟩
  | cons v r ih =>
    obtain ⟨H, h1, h2⟩ := ih (fun v hv => hh v (List.mem_cons_of_mem _ hv))
    obtain ⟨hne, hin⟩ := hh v (by simp)
    obtain ⟨s, e, hse, he, rfl⟩ := isInfix_run v hne hin
    refine ⟨(s, e) :: H, ?_, by simp [h2]⟩
    intro h hm
    rcases List.mem_cons.mp hm with rfl | hm
    · exact ⟨hse, he⟩
    · exact h1 h hm

theorem history_result (hS : StreamOK S) (hist : List Block) (hh : ∀ v ∈ hist, IsRun S v) :
    ∃ (H ivs : List Iv) (E : Edges), (∀ h ∈ H, h.1 < h.2 ∧ h.2 ≤ S.length) ∧
      hist = H.map (fun h => run S h.1 h.2) ∧
      addAll Graph.empty hist = some ⟨rep S ivs, E⟩ ∧ HInv (addrOf S) S.length H.reverse ivs E := by
  obtain ⟨H, h1, h2⟩ := hist_indices hist hh
  obtain ⟨ivs, E, hr, hinv⟩ := addAll_spec hS H [] [] [] h1 (hinv_empty _ _)
  refine ⟨H, ivs, E, h1, h2, ?_, by simpa using hinv⟩
  rw [h2]
  exact hr

theorem partition_core (hS : StreamOK S) (hist : List Block) (hh : ∀ v ∈ hist, IsRun S v) :
    ∃ g, addAll Graph.empty hist = some g ∧
      g.support.Pairwise (fun m1 m2 => m1.end ≤ m2.vaddr) ∧
      (∀ m ∈ g.support, IsRun S m.blk ∧ address? m.blk = some m.vaddr) ∧
      (∀ x, x ∈ (g.support.map (·.blk)).flatten ↔ ∃ v ∈ hist, x ∈ v) ∧
      ((g.support.map (·.blk)).flatten).Pairwise (fun x y => x.addr < y.addr) := by
  obtain ⟨H, ivs, E, hH, hhist, hr, hinv⟩ := history_result hS hist hh
  refine ⟨_, hr, rep_pairwise hinv.ok, ?_, ?_, flatten_rep_sorted hS hinv.ok⟩
  · intro m hm
    simp only [rep, List.mem_map] at hm
    obtain ⟨iv, hiv, rfl⟩ := hm
    have hmm := hinv.ok.mem hiv
    refine ⟨⟨?_, run_isInfix _ _ (by omega)⟩, address_run hS _ _ hmm.1 hmm.2⟩
    intro h0
    have := (run_eq_nil_iff (S := S) iv.1 iv.2 hmm.2).mp h0
    omega
  · intro x
    simp only
    rw [mem_flatten_rep hinv.ok]
    constructor
    · rintro ⟨k, hc, hk⟩
      obtain ⟨h, hm, g1, g2⟩ := (hinv.covers k).mp hc
      have hm' : h ∈ H := by simpa using hm
      refine ⟨run S h.1 h.2, ?_, (mem_run (hH h hm').2).mpr ⟨k, g1, g2, hk⟩⟩
      rw [hhist]; exact List.mem_map.mpr ⟨h, hm', rfl⟩
    · rintro ⟨v, hv, hx⟩
      rw [hhist] at hv
      obtain ⟨h, hm, rfl⟩ := List.mem_map.mp hv
      obtain ⟨k, g1, g2, hk⟩ := (mem_run (hH h hm).2).mp hx
      exact ⟨k, (hinv.covers k).mpr ⟨h, by simpa using hm, g1, g2⟩, hk⟩

theorem run_head? (s e : Nat) (hse : s < e) (he : e ≤ S.length) : (run S s e).head? = S[s]? := by
  rw [List.head?_eq_getElem?]
  have hl : 0 < (run S s e).length := by rw [run_length s e he]; omega
  rw [List.getElem?_eq_getElem hl, run_getElem s e 0 he (by omega)]
  simp

theorem run_getLast? (s e : Nat) (hse : s < e) (he : e ≤ S.length) : (run S s e).getLast? = S[e - 1]? := by
  rw [List.getLast?_eq_getElem?]
  have hl : (run S s e).length - 1 < (run S s e).length := by rw [run_length s e he]; omega
  rw [List.getElem?_eq_getElem hl]
  have : (run S s e)[(run S s e).length - 1] = S[s + (e - s - 1)]'(by omega) := by
    have h2 : (run S s e).length - 1 = e - s - 1 := by rw [run_length s e he]
    simp only [h2]
    exact run_getElem s e (e - s - 1) he (by omega)
  rw [this]
  rw [List.getElem?_eq_getElem (by omega)]
  congr 2
  omega

theorem fallthrough_core (hS : StreamOK S) (hist : List Block) (hh : ∀ v ∈ hist, IsRun S v) :
    ∃ g, addAll Graph.empty hist = some g ∧
      ∀ m1 ∈ g.support, ∀ m2 ∈ g.support, m1.end = m2.vaddr →
        (∃ v ∈ hist, ∃ x y, m1.blk.getLast? = some x ∧ m2.blk.head? = some y ∧ x ∈ v ∧ y ∈ v) →
        (m1.vaddr, m2.vaddr) ∈ g.edges := by
  obtain ⟨H, ivs, E, hH, hhist, hr, hinv⟩ := history_result hS hist hh
  refine ⟨_, hr, ?_⟩
  intro m1 hm1 m2 hm2 hend ⟨v, hv, x, y, hx, hy, hxv, hyv⟩
  simp only [rep, List.mem_map] at hm1 hm2
  obtain ⟨iv1, hiv1, rfl⟩ := hm1
  obtain ⟨iv2, hiv2, rfl⟩ := hm2
  have mm1 := hinv.ok.mem hiv1
  have mm2 := hinv.ok.mem hiv2
  rw [repMo_end iv1 (by omega) mm1.2] at hend
  have hp : iv1.2 = iv2.1 := addrOf_inj hS _ _ mm1.2 (by omega) hend
  rw [hhist] at hv
  obtain ⟨h, hm, rfl⟩ := List.mem_map.mp hv
  have hmh := hH h hm
  simp only [repMo] at hx hy
  rw [run_getLast? iv1.1 iv1.2 mm1.1 mm1.2] at hx
  rw [run_head? iv2.1 iv2.2 mm2.1 mm2.2] at hy
  obtain ⟨k1, a1, a2, a3⟩ := (mem_run hmh.2).mp hxv
  obtain ⟨k2, b1, b2, b3⟩ := (mem_run hmh.2).mp hyv
  have e1 := stream_index_unique hS a3 hx
  have e2 := stream_index_unique hS b3 hy
  have hfall := hinv.edges iv2.1 ⟨iv1.1, by rw [← hp]; exact hiv1⟩ ⟨iv2.2, hiv2⟩
    ⟨h, by simpa using hm, by omega, by omega⟩
  obtain ⟨s1, e2', f1, f2, f3⟩ := hfall
  have : s1 = iv1.1 := hinv.ok.end_unique f1 (by rw [← hp]; exact hiv1)
  subst this
  exact f3


/-! ## get_with_address -/

theorem getWithAddress_rep_some (hS : StreamOK S) {ivs : List Iv} (E : Edges) (hok : IvsOK S.length ivs)
    {iv : Iv} (hiv : iv ∈ ivs) {k : Nat} (h1 : iv.1 ≤ k) (h2 : k < iv.2) :
    getWithAddress ⟨rep S ivs, E⟩ (addrOf S k) = some (repMo S iv) := by
  obtain ⟨pre, post, rfl⟩ := List.append_of_mem hiv
  have hm := hok.mem hiv
  have hpw := hok.2
  rw [List.pairwise_append] at hpw
  have hpw2 := hpw.2.1
  rw [List.pairwise_cons] at hpw2
  have hpost : ∀ x ∈ post, k < x.1 := fun x hx => by have := hpw2.1 x hx; omega
  unfold getWithAddress
  simp only
  rw [locate_rep_some hS pre post iv k hok (by omega) h1 hpost]
  simp only
  have hget : (rep S (pre ++ iv :: post))[pre.length]? = some (repMo S iv) := by
    rw [rep_append, ← rep_length (S := S) pre, List.getElem?_append_right (Nat.le_refl _)]
    simp
  rw [hget]
  simp only
  rw [repMo_contains hS iv k (by omega) hm.2 (by omega)]
  simp [h1, h2]

theorem getWithAddress_rep_none (hS : StreamOK S) {ivs : List Iv} (E : Edges) (hok : IvsOK S.length ivs)
    {k : Nat} (hk : k ≤ S.length) (hc : ¬ cov ivs k) :
    getWithAddress ⟨rep S ivs, E⟩ (addrOf S k) = none := by
  have hsplit : ivs.takeWhile (fun iv => decide (iv.1 ≤ k)) ++ ivs.dropWhile (fun iv => decide (iv.1 ≤ k)) = ivs :=
    List.takeWhile_append_dropWhile
  have hpost := post_starts (s := k) ivs hok.2 (fun iv hiv => (hok.mem hiv).1)
  generalize hpre : ivs.takeWhile (fun iv => decide (iv.1 ≤ k)) = pre at hsplit
  generalize hpo : ivs.dropWhile (fun iv => decide (iv.1 ≤ k)) = post at hsplit hpost
  have hpre_le : ∀ iv ∈ pre, iv.1 ≤ k := by
    intro iv hiv
    rw [← hpre] at hiv
    simpa using mem_takeWhile_pred _ _ _ hiv
  unfold getWithAddress
  simp only
  cases hl : pre.getLast? with
  | none =>
    have : pre = [] := List.getLast?_eq_none_iff.mp hl
    subst this
    simp only [List.nil_append] at hsplit
    subst hsplit
    rw [locate_rep_none hS post k hok hk hpost]
  | some last =>
    obtain ⟨os, oe⟩ := last
    have hdec := getLast?_decomp hl
    have hos : os ≤ k := hpre_le (os, oe) (by rw [hdec]; simp)
    have heq : ivs = pre.dropLast ++ (os, oe) :: post := by
      rw [← hsplit]
      conv => lhs; rw [hdec]
      simp
    have hok' : IvsOK S.length (pre.dropLast ++ (os, oe) :: post) := by rw [← heq]; exact hok
    have hmm := hok'.mem (show (os, oe) ∈ pre.dropLast ++ (os, oe) :: post by simp)
    simp at hmm
    have hoe : oe ≤ k := by
      apply Nat.le_of_not_lt
      intro hlt
      exact hc ⟨(os, oe), by rw [heq]; simp, hos, hlt⟩
    rw [heq, locate_rep_some hS pre.dropLast post (os, oe) k hok' hk hos hpost]
    simp only
    have hget : (rep S (pre.dropLast ++ (os, oe) :: post))[pre.dropLast.length]? = some (repMo S (os, oe)) := by
      rw [rep_append, ← rep_length (S := S) pre.dropLast, List.getElem?_append_right (Nat.le_refl _)]
      simp
    rw [hget]
    simp only
    rw [repMo_contains hS (os, oe) k (by simp; omega) (by simp; omega) hk]
    simp
    omega

theorem getWithAddress_core (hS : StreamOK S) (hist : List Block) (hh : ∀ v ∈ hist, IsRun S v) :
    ∃ g, addAll Graph.empty hist = some g ∧
      ∀ x ∈ S,
        ((∃ v ∈ hist, x ∈ v) → ∃ m ∈ g.support, getWithAddress g x.addr = some m ∧ x ∈ m.blk) ∧
        ((¬ ∃ v ∈ hist, x ∈ v) → getWithAddress g x.addr = none) := by
  obtain ⟨H, ivs, E, hH, hhist, hr, hinv⟩ := history_result hS hist hh
  refine ⟨_, hr, ?_⟩
  intro x hx
  obtain ⟨k, hk, rfl⟩ := List.getElem_of_mem hx
  rw [addrOf_getElem hS k hk]
  have hcov : cov ivs k ↔ ∃ v ∈ hist, S[k] ∈ v := by
    rw [hinv.covers]
    constructor
    · rintro ⟨h, hm, g1, g2⟩
      have hm' : h ∈ H := by simpa using hm
      refine ⟨run S h.1 h.2, by rw [hhist]; exact List.mem_map.mpr ⟨h, hm', rfl⟩, ?_⟩
      exact (mem_run (hH h hm').2).mpr ⟨k, g1, g2, by simp [hk]⟩
    · rintro ⟨v, hv, hxv⟩
      rw [hhist] at hv
      obtain ⟨h, hm, rfl⟩ := List.mem_map.mp hv
      obtain ⟨k', g1, g2, g3⟩ := (mem_run (hH h hm).2).mp hxv
      have : k' = k := stream_index_unique hS g3 (by simp [hk])
      subst this
      exact ⟨h, by simpa using hm, g1, g2⟩
  constructor
  · intro hv
    obtain ⟨iv, hiv, g1, g2⟩ := hcov.mpr hv
    refine ⟨repMo S iv, List.mem_map.mpr ⟨iv, hiv, rfl⟩, getWithAddress_rep_some hS E hinv.ok hiv g1 g2, ?_⟩
    exact (mem_run (hinv.ok.mem hiv).2).mpr ⟨k, g1, g2, by simp [hk]⟩
  · intro hv
    exact getWithAddress_rep_none hS E hinv.ok (by omega) (fun hc => hv (hcov.mp hc))

end Amoco.Cfg
