/-
  Helper lemmas for C18 (sweep, blocks, cfg insertion).
-/
import Amoco.Model.Blocks
import Amoco.Model.Cfg

namespace Amoco.Blocks

end Amoco.Blocks
