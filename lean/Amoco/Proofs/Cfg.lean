/-
  Helper lemmas for C18 — umbrella file and the refinement
  `addVertex` (model of `cfg.graph.add_vertex` on the zone of blocks) = `absAdd` (the same algorithm on
  index intervals), for zones that hold runs of one consecutive stream.
-/
import Amoco.Proofs.CfgBlocks
import Amoco.Proofs.CfgStream
import Amoco.Proofs.CfgAbs
import Amoco.Proofs.CfgZone

namespace Amoco.Cfg

open Amoco.Blocks

variable {S : List Instr}

def lift (S : List Instr) (a : Nat) : Option (List Iv × Edges) → Res
  | none => .error
  | some (ivs, E) => .ok ⟨rep S ivs, E⟩ a

theorem blen_run_lt_iff (hS : StreamOK S) (s a b : Nat) (ha : s ≤ a) (hb : s ≤ b) (ha' : a ≤ S.length) (hb' : b ≤ S.length) :
    blen (run S s a) < blen (run S s b) ↔ a < b := by
  have h1 := addrOf_add (S := S) s a ha ha'
  have h2 := addrOf_add (S := S) s b hb hb'
  have := addrOf_lt_iff hS a b ha' hb'
  omega

theorem gapAdd_refines (hS : StreamOK S) (rec : Graph → Block → Res)
    (arec : List Iv × Edges → Nat → Nat → Option (List Iv × Edges))
    (hrec : ∀ ivs1 E1 ns e', IvsOK S.length ivs1 → ns < e' → e' ≤ S.length →
      rec ⟨rep S ivs1, E1⟩ (run S ns e') = lift S (addrOf S ns) (arec (ivs1, E1) ns e'))
    (pre post : List Iv) (E : Edges) (s e : Nat) (hok : IvsOK S.length (pre ++ post))
    (hse : s < e) (he : e ≤ S.length)
    (hpre : ∀ iv ∈ pre, iv.2 ≤ s) (hpost : ∀ iv ∈ post, s < iv.1)
    (i : Option Nat) (hi : nextIdx i = pre.length) :
    gapAdd rec ⟨rep S (pre ++ post), E⟩ (run S s e) (addrOf S s) i =
      lift S (addrOf S s) (absGap (addrOf S) arec E s e pre post) := by
  unfold gapAdd
  have hget : (rep S (pre ++ post))[nextIdx i]? = (rep S post)[0]? := by
    rw [hi, rep_append, ← rep_length (S := S) pre, List.getElem?_append_right (Nat.le_refl _)]
    simp
  rw [hget]
  cases post with
  | nil =>
    simp only [rep_nil, List.getElem?_nil]
    unfold absGap
    simp only [zoneWrite]
    rw [addtomap_gap hS pre [] s e hok hse he hpre (by simp)]
    rfl
  | cons hd post' =>
    obtain ⟨ns, ne⟩ := hd
    have hm := hok.mem (show (ns, ne) ∈ pre ++ (ns, ne) :: post' by simp)
    simp at hm
    have hns : s < ns := hpost (ns, ne) (by simp)
    have hpw := hok.2
    rw [List.pairwise_append] at hpw
    have hpw2 := hpw.2.1
    rw [List.pairwise_cons] at hpw2
    have hafter : ∀ iv ∈ (ns, ne) :: post', ns ≤ iv.1 := by
      intro iv hiv
      rcases List.mem_cons.mp hiv with rfl | hiv
      · exact Nat.le_refl _
      · have := hpw2.1 iv hiv; simp at this; omega
    simp only [rep_cons, List.getElem?_cons_zero]
    have haddr : address? (repMo S (ns, ne)).blk = some (addrOf S ns) :=
      address_run hS ns ne hm.1 hm.2
    rw [haddr]
    simp only
    have hcond : (addrOf S s + blen (run S s e) > addrOf S ns) ↔ ns < e := by
      rw [addrOf_add s e (by omega) he]
      exact addrOf_lt_iff hS ns e (by omega) he
    unfold absGap
    by_cases hlt : ns < e
    · have hc : addrOf S s + blen (run S s e) > addrOf S ns := hcond.mpr hlt
      simp only [hc, if_true, hlt]
      rw [cut_run hS s ns e (by omega) hlt he]
      simp only
      have hnl : ¬ (e - ns = 0) := by omega
      simp only [hnl, if_false]
      have hrest : (run S s e).drop ((run S s e).length - (e - ns)) = run S ns e := by
        rw [run_length s e he]
        have := run_drop (S := S) s ns e (by omega)
        rw [show e - s - (e - ns) = ns - s by omega]
        exact this
      rw [hrest]
      simp only [zoneWrite]
      rw [addtomap_gap hS pre ((ns, ne) :: post') s ns hok hns (by omega) hpre hafter]
      simp only
      have hok1 : IvsOK S.length (pre ++ (s, ns) :: (ns, ne) :: post') :=
        ivsOK_insert hok hns (by omega) hpre hafter
      rw [hrec _ E ns e hok1 hlt he]
      cases arec (pre ++ (s, ns) :: (ns, ne) :: post', E) ns e with
      | none => rfl
      | some r => obtain ⟨ivs2, E2⟩ := r; rfl
    · have hc : ¬ (addrOf S s + blen (run S s e) > addrOf S ns) := fun h => hlt (hcond.mp h)
      simp only [hc, if_false, hlt]
      simp only [zoneWrite]
      rw [addtomap_gap hS pre ((ns, ne) :: post') s e hok hse he hpre
        (fun iv hiv => by have := hafter iv hiv; omega)]
      rfl

end Amoco.Cfg
