/-
  Amoco.Proofs.ExprSoundBase — the sign-agnostic deterministic fragment (`Plain`), bounds of ideal values,
  and the operator semantics facts used by the value-soundness induction over the rewrite system.
-/
import Amoco.Proofs.ExprTableSem

namespace Amoco.Expr

open Amoco.Bits

/-- binary operators whose meaning does not depend on a declared signedness, rotations excluded -/
def agnOp : Op → Bool
  | .add | .sub | .mul | .and | .or | .xor | .eq | .neq | .ltu | .geu | .lsl | .lsr | .asr => true
  | _ => false

mutual
/-- the fragment of the value-soundness theorem: no `top`/`vec`/`vecw`/`mem`/`ptr`, only sign-agnostic operators,
    and no unary operator applied to a literal constant (`uop.simplify` folds those at once; the constant-merging
    rule of `eqn2_helpers` would be wrong on `(-c) + k`, a shape no simplified operand has), and no externals
    (`eqn2_helpers` assumes `ext == 0` is false — also for slices of externals: an assumption about the loader) -/
def Plain : Expr → Prop
  | cst .. => True
  | reg .. => True
  | ext .. => False
  | slc x _ _ _ _ k => k ≠ 2 ∧ Plain x
  | comp _ _ ps => PlainParts ps
  | tst t l r _ _ => Plain t ∧ Plain l ∧ Plain r
  | op o l r _ _ _ => agnOp o = true ∧ Plain l ∧ Plain r
  | uop o r _ _ _ => (o = Op.sub ∨ o = Op.not) ∧ r.isCst = false ∧ Plain r
  | _ => False
def PlainParts : List Part → Prop
  | [] => True
  | (_, _, e) :: tl => Plain e ∧ PlainParts tl
end

theorem plainParts_iff (ps : List Part) : PlainParts ps ↔ ∀ p ∈ ps, Plain p.2.2 := by
  induction ps with
  | nil => simp [PlainParts]
  | cons q tl ih => obtain ⟨a, b, e⟩ := q; simp only [PlainParts, ih, List.mem_cons, forall_eq_or_imp]

theorem Plain_setSf (f : Bool) (e : Expr) : Plain (e.setSf f) ↔ Plain e := by
  cases e <;> simp only [setSf, Plain]

theorem Plain_isDef {e : Expr} (h : Plain e) : e.isDef = true := by
  cases e <;> simp [Plain] at h <;> rfl

theorem Plain_notExt {e : Expr} (h : Plain e) : e.isExt = false := by
  cases e <;> simp [Plain, isExt] at h ⊢
  exact h.1

theorem Plain_slcEty {e : Expr} (h : Plain e) : slcEty e ≠ 2 := by
  cases e <;> simp [Plain, slcEty] at h ⊢

theorem Plain_mkCst (x : Int) (s : Nat) : Plain (mkCst x s) := by simp [mkCst, Plain]

/-- for sign-agnostic operators the declared reading is irrelevant -/
theorem binSem_agn (o : Op) (h : agnOp o = true) (s1 s2 : Bool) (w a b : Nat) : binSem o s1 w a b = binSem o s2 w a b := by
  cases o <;> simp [agnOp] at h <;> rfl

/-- meanings are values of the dictated width -/
theorem binSem_lt (o : Op) (sg : Bool) (w a b : Nat) (ha : a < 2 ^ w) (hb : o.type ≠ 8 → b < 2 ^ w) (hw : 0 < w) :
    binSem o sg w a b < 2 ^ (if o.type = 4 then 1 else if o = Op.mul2 then 2 * w else w) := by
  have hp := Nat.two_pow_pos w
  cases o <;> simp only [binSem, Op.type, reduceCtorEq, if_false, if_true] <;>
    first
    | exact Nat.mod_lt _ (Nat.two_pow_pos _)
    | exact wrap_lt _ _
    | (split <;> first | exact wrap_lt _ _ | exact Nat.mod_lt _ (Nat.two_pow_pos _))
    | (simp only [b2n]; split <;> (try split) <;> omega)
    | skip
  · -- and
    exact Nat.lt_of_le_of_lt Nat.and_le_left ha
  · exact Nat.or_lt_two_pow ha (hb (by simp [Op.type]))
  · exact Nat.xor_lt_two_pow ha (hb (by simp [Op.type]))
  · exact Nat.two_pow_pos _
  · simp only [Nat.reduceEqDiff, if_false]
    split
    · exact hp
    · exact Nat.mod_lt _ hp
  · simp only [Nat.reduceEqDiff, if_false]
    exact Nat.lt_of_le_of_lt (Nat.shiftRight_le _ _) ha

theorem unSem_lt (o : Op) (w a : Nat) (ha : a < 2 ^ w) : unSem o w a < 2 ^ w := by
  have hp := Nat.two_pow_pos w
  cases o <;> simp only [unSem] <;> first | exact ha | exact wrap_lt _ _ | omega

/-- value of a table whose parts lie below `n` -/
theorem idealParts_lt (ρ : Val) (n : Nat) : ∀ (ps : List Part), Sized n ps → idealParts ρ ps < 2 ^ n := by
  intro ps
  induction ps with
  | nil => intro _; rw [idealParts_nil]; exact Nat.two_pow_pos n
  | cons p tl ih =>
    intro hs
    rw [idealParts_cons]
    apply Nat.or_lt_two_pow _ (ih (fun q hq => hs q (List.mem_cons_of_mem _ hq)))
    have hp := hs p List.mem_cons_self
    apply lt_two_pow_of_testBit
    intro j hj
    rw [contrib_testBit]
    by_cases h1 : p.1 ≤ j
    · have : ¬ (j - p.1 < p.2.1 - p.1) := by omega
      simp [h1, this]
    · simp [h1]

/-- **the ideal value of a well-formed expression fits its width** (for every node kind) -/
theorem ideal_lt (ρ : Val) : ∀ (e : Expr), WF e → ideal ρ e < 2 ^ e.size
  | .cst v s f, _ => by simp only [ideal, size_cst]; exact Nat.mod_lt _ (Nat.two_pow_pos _)
  | .reg n s f, _ => by simp only [ideal, size_reg]; exact Nat.mod_lt _ (Nat.two_pow_pos _)
  | .ext n s f, _ => by simp only [ideal, size_ext]; exact Nat.mod_lt _ (Nat.two_pow_pos _)
  | .slc x p s f r k, _ => by simp only [ideal, size_slc]; exact Nat.mod_lt _ (Nat.two_pow_pos _)
  | .comp s f ps, _ => by simp only [ideal, size_comp]; exact Nat.mod_lt _ (Nat.two_pow_pos _)
  | .tst t l r s f, h => by
      simp only [WF] at h
      simp only [ideal, size_tst]
      split
      · have := ideal_lt ρ l h.2.2.1; rw [h.2.2.2.2.2.1] at this; exact this
      · have := ideal_lt ρ r h.2.2.2.1; rw [h.2.2.2.2.2.2] at this; exact this
  | .op o l r s f p, h => by
      obtain ⟨hpos, _, hl, hr, hs, heq⟩ := (WF_op_iff _ _ _ _ _ _).mp h
      simp only [ideal, size_op]
      have hla := ideal_lt ρ l hl
      have hra := ideal_lt ρ r hr
      have := binSem_lt o l.sf l.size (ideal ρ l) (ideal ρ r) hla (fun h8 => by rw [heq h8]; exact hra) (WF_size_pos l hl)
      rw [hs]; exact this
  | .uop o r s f p, h => by
      simp only [WF] at h
      simp only [ideal, size_uop]
      rw [h.2.2]
      exact unSem_lt o r.size _ (ideal_lt ρ r h.2.1)
  | .ptr b sg d s f, _ => by simp only [ideal]; exact wrap_lt _ _
  | .mem a s f en ms, _ => by simp only [ideal]; exact Nat.two_pow_pos _
  | .vec l s f, h => by
      simp only [WF] at h
      cases l with
      | nil => exact absurd rfl h.2.1
      | cons x tl =>
        simp only [ideal, idealHead, size_vec]
        simp only [WFList] at h
        have := ideal_lt ρ x h.2.2.1
        rw [h.2.2.2.1] at this; exact this
  | .vecw l s f, _ => by simp only [ideal]; exact Nat.two_pow_pos _
  | .top s f, _ => by simp only [ideal]; exact Nat.two_pow_pos _

end Amoco.Expr
