/-
  `setup` always produces a tree that passes `checkTree` (C04): the builder as coded is correct for
  every specification list, every fetch endianness, every `maxlen` and every recursion budget.
-/
import Amoco.Model.Dis

namespace Amoco.Dis

def Sorted (l : List SpecK) : Prop := l.Pairwise (fun a b => weight a ≥ weight b)

theorem sorted_insertFront (s : SpecK) : ∀ (l : List SpecK), Sorted l → Sorted (insertFront s l)
  | [], _ => by simp [insertFront, Sorted]
  | t :: ts, h => by
    unfold insertFront
    have ht : ∀ x ∈ ts, weight t ≥ weight x := (List.pairwise_cons.mp h).1
    have hts : Sorted ts := (List.pairwise_cons.mp h).2
    by_cases hw : weight t > weight s
    · simp only [hw, ↓reduceIte]
      apply List.pairwise_cons.mpr
      refine ⟨?_, sorted_insertFront s ts hts⟩
      intro x hx
      -- members of insertFront s ts are s or members of ts
      have : x = s ∨ x ∈ ts := by
        clear h ht hts hw
        induction ts with
        | nil => simp [insertFront] at hx; exact Or.inl hx
        | cons u us ih =>
          unfold insertFront at hx
          split at hx
          · rcases List.mem_cons.mp hx with rfl | hx'
            · exact Or.inr List.mem_cons_self
            · rcases ih hx' with h | h
              · exact Or.inl h
              · exact Or.inr (List.mem_cons_of_mem _ h)
          · rcases List.mem_cons.mp hx with rfl | hx'
            · exact Or.inl rfl
            · exact Or.inr hx'
      rcases this with rfl | hx'
      · exact Nat.le_of_lt hw
      · exact ht x hx'
    · simp only [hw, ↓reduceIte]
      apply List.pairwise_cons.mpr
      refine ⟨?_, h⟩
      intro x hx
      rcases List.mem_cons.mp hx with rfl | hx'
      · exact Nat.le_of_not_gt hw
      · exact Nat.le_trans (ht x hx') (Nat.le_of_not_gt hw)

theorem sorted_sortW : ∀ (l : List SpecK), Sorted (sortW l)
  | [] => by simp [sortW, Sorted]
  | a :: l => by
    have := sorted_sortW l
    simp only [sortW, List.foldr_cons] at this ⊢
    exact sorted_insertFront a _ this

theorem sortW_of_sorted : ∀ (l : List SpecK), Sorted l → sortW l = l
  | [], _ => rfl
  | a :: l, h => by
    have ha : ∀ x ∈ l, weight a ≥ weight x := (List.pairwise_cons.mp h).1
    have hl : Sorted l := (List.pairwise_cons.mp h).2
    have ih := sortW_of_sorted l hl
    simp only [sortW, List.foldr_cons] at ih ⊢
    rw [ih]
    cases l with
    | nil => rfl
    | cons t ts =>
      unfold insertFront
      have : ¬ weight t > weight a := Nat.not_lt.mpr (ha t List.mem_cons_self)
      simp [this]

theorem sorted_filter (p : SpecK → Bool) (l : List SpecK) (h : Sorted l) : Sorted (l.filter p) :=
  List.Pairwise.filter p h

theorem and_andAll : ∀ (xs : List Nat) (x : Nat), x ∈ xs → x &&& andAll xs = andAll xs
  | [], _, h => by cases h
  | [y], x, h => by
    simp only [List.mem_singleton] at h
    subst h; simp [andAll]
  | y :: z :: zs, x, h => by
    have ih := and_andAll (z :: zs)
    simp only [andAll]
    rcases List.mem_cons.mp h with rfl | h'
    · rw [← Nat.and_assoc, Nat.and_self]
    · rw [← Nat.and_assoc, Nat.and_comm x y, Nat.and_assoc, ih x h']

theorem mem_dedup : ∀ (l : List Nat) (a : Nat), a ∈ dedup l ↔ a ∈ l
  | [], _ => by simp [dedup]
  | x :: xs, a => by
    simp only [dedup, List.mem_cons, List.mem_filter, mem_dedup xs a, bne_iff_ne, ne_eq]
    constructor
    · rintro (h | ⟨h, _⟩)
      · exact Or.inl h
      · exact Or.inr h
    · rintro (h | h)
      · exact Or.inl h
      · by_cases e : a = x
        · exact Or.inl e
        · exact Or.inr ⟨h, e⟩

theorem nodup_dedup : ∀ (l : List Nat), (dedup l).Nodup
  | [] => by simp [dedup]
  | x :: xs => by
    simp only [dedup, List.nodup_cons, List.mem_filter, bne_iff_ne, ne_eq, not_true_eq_false, and_false,
      not_false_eq_true, true_and]
    exact List.Nodup.sublist List.filter_sublist (nodup_dedup xs)

/-- children built from a duplicate-free key list, each child checked against its own filter. -/
theorem checkChildren_of_keys (be : Bool) (maxlen : Nat) (f : Nat) (S : List SpecK) (T : Nat → Tree) :
    ∀ (ks : List Nat), ks.Nodup →
      (∀ k ∈ ks, checkTree be maxlen (T k) (S.filter (fun s => s.afix be maxlen &&& f == k)) = true) →
      checkTree.checkChildren be maxlen (ks.map (fun k => (k, T k))) f S = true
  | [], _, _ => rfl
  | k :: ks, hnd, h => by
    simp only [List.map_cons, checkTree.checkChildren, Bool.and_eq_true, Bool.not_eq_true',
      List.contains_eq_mem, decide_eq_false_iff_not, List.map_map]
    have hk := List.nodup_cons.mp hnd
    refine ⟨⟨?_, h k List.mem_cons_self⟩, ?_⟩
    · intro hm
      apply hk.1
      simpa [Function.comp_def] using hm
    · exact checkChildren_of_keys be maxlen f S T ks hk.2 (fun k' hk' => h k' (List.mem_cons_of_mem _ hk'))

/-- **`setup` is correct**: for every list of specifications the tree it builds passes the routing
    check w.r.t. the weight-sorted list. -/
theorem setup_checks (be : Bool) (maxlen : Nat) :
    ∀ (fuel : Nat) (l : List SpecK), checkTree be maxlen (setup be maxlen fuel l) (sortW l) = true
  | 0, l => by simp [setup, checkTree]
  | fuel+1, l => by
    have hs := sorted_sortW l
    unfold setup
    simp only
    generalize hl' : sortW l = l' at hs ⊢
    by_cases h5 : l'.length < 5
    · simp [h5, checkTree]
    · simp only [h5, ↓reduceIte]
      by_cases hf : (andAll (l'.map (SpecK.amask be maxlen)) == 0) = true
      · simp [hf, checkTree]
      · simp only [hf, Bool.false_eq_true, ↓reduceIte]
        generalize hfdef : andAll (l'.map (SpecK.amask be maxlen)) = f at hf ⊢
        -- the children, whatever the shape of the partition
        have hchild : ∀ k, checkTree be maxlen
            (setup be maxlen fuel (l'.filter (fun t => t.afix be maxlen &&& f == k)))
            (l'.filter (fun s => s.afix be maxlen &&& f == k)) = true := by
          intro k
          have := setup_checks be maxlen fuel (l'.filter (fun t => t.afix be maxlen &&& f == k))
          rwa [sortW_of_sorted _ (sorted_filter _ _ hs)] at this
        unfold partitionBy
        split
        · -- a single branch: it holds every spec
          rename_i k only heq
          have hks : dedup (l'.map (fun s => s.afix be maxlen &&& f)) = [k] ∧
              only = l'.filter (fun t => t.afix be maxlen &&& f == k) := by
            cases hd : dedup (l'.map (fun s => s.afix be maxlen &&& f)) with
            | nil => simp [hd] at heq
            | cons a rest =>
              cases rest with
              | nil =>
                simp only [hd, List.map_cons, List.map_nil, List.cons.injEq, Prod.mk.injEq, and_true] at heq
                exact ⟨by rw [heq.1], heq.2.symm ▸ by rw [heq.1]⟩
              | cons b rest' => simp [hd] at heq
          have hall : ∀ s ∈ l', (s.afix be maxlen &&& f == k) = true := by
            intro s hs'
            have : s.afix be maxlen &&& f ∈ dedup (l'.map (fun s => s.afix be maxlen &&& f)) :=
              (mem_dedup _ _).mpr (List.mem_map.mpr ⟨s, hs', rfl⟩)
            rw [hks.1] at this
            simpa using this
          have : only = l' := by
            rw [hks.2]
            exact List.filter_eq_self.mpr hall
          simp [checkTree, this]
        · -- a proper node
          rename_i hne
          simp only [checkTree, Bool.and_eq_true, bne_iff_ne, ne_eq, List.all_eq_true, beq_iff_eq,
            List.contains_eq_mem, decide_eq_true_eq, List.map_map]
          refine ⟨⟨⟨by simpa using hf, ?_⟩, ?_⟩, ?_⟩
          · intro s hs'
            rw [← hfdef]
            exact and_andAll _ _ (List.mem_map.mpr ⟨s, hs', rfl⟩)
          · intro s hs'
            have : s.afix be maxlen &&& f ∈ dedup (l'.map (fun s => s.afix be maxlen &&& f)) :=
              (mem_dedup _ _).mpr (List.mem_map.mpr ⟨s, hs', rfl⟩)
            simpa [Function.comp_def] using this
          · have := checkChildren_of_keys be maxlen f l'
              (fun k => setup be maxlen fuel (l'.filter (fun t => t.afix be maxlen &&& f == k)))
              (dedup (l'.map (fun s => s.afix be maxlen &&& f))) (nodup_dedup _)
              (fun k _ => hchild k)
            simpa [List.map_map, Function.comp_def] using this

end Amoco.Dis
