/-
  [C01 extension: the fragment WITH ROTATIONS.  This file is `Proofs/ExprSoundOps.lean` redone in namespace `Amoco.Rot`, where
   `agnOp`/`Plain` also allow `>>>` (`ror`) and `<<<` (`rol`) nodes; changed proof steps: `api_sstep`, `callOp_sstep`,
   `helperRot_spost` (new), `eqn2tail_sstep`, `eqn2cst_sstep` (rule `l >>> 0 ⇒ l`, lemma `rot_zero`).  Original header follows.]
  Amoco.Proofs.ExprSoundOps — value-soundness steps for the operator entry points
  (`callUop operU apiNeg apiNot oper apiExp api helperCmp callOp`).
-/
import Amoco.Proofs.ExprSoundExtIH

namespace Amoco.Rot

open Expr Bits

theorem ideal_setSf (ρ : Val) (f : Bool) (e : Expr) : ideal ρ (e.setSf f) = ideal ρ e := by
  cases e <;> simp only [setSf, ideal]

theorem ideal_mkCst (ρ : Val) (x : Int) (s : Nat) : ideal ρ (mkCst x s) = wrap s x := by
  simp only [mkCst, ideal]
  exact Nat.mod_eq_of_lt (wrap_lt _ _)

theorem Plain_bit0 : Plain bit0 := by simp [bit0, Plain]
theorem Plain_bit1 : Plain bit1 := by simp [bit1, Plain]
theorem ideal_bit0 (ρ : Val) : ideal ρ bit0 = 0 := by simp [bit0, ideal]
theorem ideal_bit1 (ρ : Val) : ideal ρ bit1 = 1 := by simp [bit1, ideal]

/-- ideal value of an operator node over a sign-agnostic operator -/
theorem ideal_op_agn (ρ : Val) (o : Op) (l r : Expr) (s : Nat) (f : Bool) (p : Nat) (h : agnOp o = true) :
    ideal ρ (.op o l r s f p) = binSem o false l.size (ideal ρ l) (ideal ρ r) := by
  simp only [ideal]; exact binSem_agn o h _ _ _ _ _

theorem mkOp_eq {o : Op} {l r e : Expr} (h : mkOp o l r = .ok e) : ∃ s f p, e = .op o l r s f p := by
  unfold mkOp at h
  by_cases hc : (decide (o.type < 4) && l.size != r.size) = true
  · simp only [hc, if_true] at h; cases h
  · simp only [hc] at h
    cases h; exact ⟨_, _, _, rfl⟩

/-- operators on two constants, from the evaluation theorem's lemma -/
theorem callOp_cst_plain (cfg : Cfg) (ρ : Val) (fuel : Nat) (o : Op) (l r : Expr) (hl : WF l) (hr : WF r)
    (hlc : l.isCst = true) (hrc : r.isCst = true) (ha : agnOp o = true) (hsz : o.type ≠ 8 → l.size = r.size) :
    SPost ρ (binSem o false l.size (ideal ρ l) (ideal ρ r)) (callOp cfg fuel o l r) := by
  cases l <;> simp [isCst] at hlc
  cases r <;> simp [isCst] at hrc
  rename_i lv ls lf rv rs rf
  intro res hres
  obtain ⟨f, hf⟩ := callOp_cst_sound cfg fuel o lv ls lf rv rs rf false res hl.2 hr.2 hl.1 hsz
    (by intro h; cases o <;> simp [agnOp, signDep] at ha h) hres
  subst hf
  refine ⟨by simp [Plain], ?_⟩
  rw [ideal_lt_of_WF_cst hl, ideal_lt_of_WF_cst hr]
  simp only [ideal, size_cst]
  apply Nat.mod_eq_of_lt
  have := binSem_lt o false ls lv rv hl.2 (fun h8 => by rw [show ls = rs from hsz h8]; exact hr.2) hl.1
  simpa [resSize] using this

section steps
variable {cfg : Cfg} {ρ : Val} {fuel : Nat} (ih : SoundIH cfg ρ fuel) (eqok : EqOK ρ)
include ih

theorem callUop_sstep (o : Op) (r : Expr) (hr : WF r) (hp : Plain r) (ho : o = Op.sub ∨ o = Op.not) :
    SPost ρ (unSem o r.size (ideal ρ r)) (callUop cfg (fuel + 1) o r) := by
  rw [callUop.eq_def]; dsimp only
  rcases ho with rfl | rfl
  · exact ih.apiNeg r hr hp
  · exact ih.apiNot r hr hp

theorem operU_sstep (o : Op) (r : Expr) (hr : WF r) (hp : Plain r) (hnc : r.isCst = false) (ho : o = Op.sub ∨ o = Op.not) :
    SPost ρ (unSem o r.size (ideal ρ r)) (operU cfg (fuel + 1) o r) := by
  rw [operU.eq_def]; dsimp only
  have hw : WF (mkUop o r) := by
    simp only [mkUop, WF]; exact ⟨WF_size_pos r hr, hr, trivial⟩
  have hpl : Plain (mkUop o r) := by simp only [mkUop, Plain]; exact ⟨ho, hnc, hp⟩
  have := ih.simplify {} (mkUop o r) hw hpl OptsOK_default
  simpa only [mkUop, ideal] using this

theorem apiNeg_sstep (x : Expr) (hx : WF x) (hp : Plain x) :
    SPost ρ (unSem Op.sub x.size (ideal ρ x)) (apiNeg cfg (fuel + 1) x) := by
  rw [apiNeg.eq_def]; dsimp only
  split
  · rename_i v s f
    apply SPost_ok (Plain_mkCst _ _)
    rw [ideal_lt_of_WF_cst hx]
    rw [ideal_mkCst]
    exact cst_neg v s f hx.2
  · rename_i hne
    exact ih.operU _ _ hx hp (by cases x <;> simp [isCst] at hne ⊢) (Or.inl rfl)

theorem apiNot_sstep (x : Expr) (hx : WF x) (hp : Plain x) :
    SPost ρ (unSem Op.not x.size (ideal ρ x)) (apiNot cfg (fuel + 1) x) := by
  rw [apiNot.eq_def]; dsimp only
  split
  · rename_i v s f
    apply SPost_ok (Plain_mkCst _ _)
    rw [ideal_lt_of_WF_cst hx]
    rw [ideal_mkCst]
    exact cst_not v s hx.2
  · rename_i hne
    exact ih.operU _ _ hx hp (by cases x <;> simp [isCst] at hne ⊢) (Or.inr rfl)

theorem oper_sstep (o : Op) (l r : Expr) (hl : WF l) (hr : WF r) (hpl : Plain l) (hpr : Plain r)
    (ha : agnOp o = true) (hsz : o.type ≠ 8 → l.size = r.size) :
    SPost ρ (binSem o false l.size (ideal ρ l) (ideal ρ r)) (oper cfg (fuel + 1) o l r) := by
  rw [oper.eq_def]; dsimp only
  apply SPost_bind
  intro e he
  obtain ⟨h1, _⟩ := mkOp_spec o l r e hl hr (fun h4 => hsz (by omega)) he
  obtain ⟨s, f, p, rfl⟩ := mkOp_eq he
  have := ih.simplify {} _ h1 (by simp only [Plain]; exact ⟨ha, hpl, hpr⟩) OptsOK_default
  rwa [ideal_op_agn ρ o l r s f p ha] at this

include eqok in
theorem apiExp_sstep (o : Op) (l r : Expr) (hl : WF l) (hr : WF r) (hpl : Plain l) (hpr : Plain r)
    (ha : agnOp o = true) (hsz : o.type ≠ 8 → l.size = r.size) :
    SPost ρ (binSem o false l.size (ideal ρ l) (ideal ρ r)) (apiExp cfg (fuel + 1) o l r) := by
  rw [apiExp.eq_def]; dsimp only
  have hop := ih.oper o l r hl hr hpl hpr ha hsz
  cases o <;> simp [agnOp] at ha <;> dsimp only <;> try exact hop
  · -- eq
    split
    · rename_i h
      simp only [Bool.and_eq_true] at h
      have := eqok l r hl hr hpl hpr (hsz (by simp [Op.type])) (Or.inr h.1)
      exact SPost_ok Plain_bit1 (by rw [ideal_bit1, this]; simp [binSem, b2n])
    · exact hop
  · -- neq
    split
    · rename_i h
      simp only [Bool.and_eq_true] at h
      have := eqok l r hl hr hpl hpr (hsz (by simp [Op.type])) (Or.inr h.1)
      exact SPost_ok Plain_bit0 (by rw [ideal_bit0, this]; simp [binSem, b2n])
    · exact hop

theorem api_sstep (o : Op) (l r : Expr) (hl : WF l) (hr : WF r) (hpl : Plain l) (hpr : Plain r)
    (ha : agnOp o = true) (hsz : o.type ≠ 8 → l.size = r.size) :
    SPost ρ (binSem o false l.size (ideal ρ l) (ideal ρ r)) (api cfg (fuel + 1) o l r) := by
  by_cases hcc : l.isCst = true ∧ r.isCst = true
  · -- two constants: `api` is what `callOp` runs, unless the operator is `ltu`/`geu` (no `cst` method)
    by_cases hu : o = Op.ltu ∨ o = Op.geu ∨ o = Op.ror ∨ o = Op.rol
    · cases l <;> simp [isCst] at hcc
      cases r <;> simp [isCst] at hcc
      rw [api_cst]
      rcases hu with rfl | rfl | rfl | rfl <;> simp [hasSizeCheck, cstApi] <;> exact SPost_error _ _ _
    · have e : callOp cfg (fuel + 2) o l r = api cfg (fuel + 1) o l r := by
        rw [callOp.eq_def]; dsimp only
        cases o <;> simp [agnOp] at ha hu <;> rfl
      rw [← e]
      exact callOp_cst_plain cfg ρ _ o l r hl hr hcc.1 hcc.2 ha hsz
  · rw [api.eq_def]; dsimp only
    split
    · rename_i lv ls lf
      split
      · exact SPost_error _ _ _
      · split
        · exact absurd ⟨rfl, rfl⟩ hcc
        · have hl' : WF (cst lv ls (if (o == Op.lsr) = true then false else if (o == Op.asr) = true then true else lf)) := hl
          have := ih.apiExp o _ r hl' hr (by simp [Plain]) hpr ha hsz
          simpa only [ideal, size_cst] using this
    · exact ih.apiExp o l r hl hr hpl hpr ha hsz

theorem helperCmp_sstep (o : Op) (x y : Expr) (hx : WF x) (hy : WF y) (hpx : Plain x) (hpy : Plain y)
    (hs : x.size = y.size) (ho : o = Op.ltu ∨ o = Op.geu) :
    SPost ρ (binSem o false x.size (ideal ρ x) (ideal ρ y)) (helperCmp cfg (fuel + 1) o x y) := by
  have ha : agnOp o = true := by rcases ho with rfl | rfl <;> rfl
  by_cases hcc : (x.isCst && y.isCst) = true
  · have e : callOp cfg (fuel + 2) o x y = helperCmp cfg (fuel + 1) o x y := by
      rw [callOp.eq_def]; dsimp only
      rcases ho with rfl | rfl <;> rfl
    rw [← e]
    simp only [Bool.and_eq_true] at hcc
    exact callOp_cst_plain cfg ρ _ o x y hx hy hcc.1 hcc.2 ha (fun _ => hs)
  · rw [helperCmp.eq_def]; dsimp only
    rw [if_neg hcc]
    intro e he
    obtain ⟨s, f, p, rfl⟩ := mkOp_eq he
    exact ⟨by simp only [Plain]; exact ⟨ha, hpx, hpy⟩, ideal_op_agn ρ o x y s f p ha⟩

omit ih in
/-- `ror(x, n)` / `rol(x, n)` on operands that are not both constants: the `op` node is kept -/
theorem helperRot_spost (cfg : Cfg) (ρ : Val) (fuel : Nat) (o : Op) (x n : Expr) (hpx : Plain x) (hpn : Plain n)
    (ho : o = Op.ror ∨ o = Op.rol) (hcc : ¬ (x.isCst = true ∧ n.isCst = true)) :
    SPost ρ (binSem o false x.size (ideal ρ x) (ideal ρ n)) (helperRot cfg fuel o x n) := by
  have ha : agnOp o = true := by rcases ho with rfl | rfl <;> rfl
  cases fuel with
  | zero => rw [helperRot.eq_def]; exact SPost_error _ _ _
  | succ f =>
    rw [helperRot.eq_def]; dsimp only
    rw [if_neg (by simpa [Bool.and_eq_true] using hcc)]
    intro e he
    obtain ⟨s, f, p, rfl⟩ := mkOp_eq he
    exact ⟨by simp only [Plain]; exact ⟨ha, hpx, hpn⟩, ideal_op_agn ρ o x n s f p ha⟩

theorem callOp_sstep (o : Op) (l r : Expr) (hl : WF l) (hr : WF r) (hpl : Plain l) (hpr : Plain r)
    (ha : agnOp o = true) (hsz : o.type ≠ 8 → l.size = r.size) :
    SPost ρ (binSem o false l.size (ideal ρ l) (ideal ρ r)) (callOp cfg (fuel + 1) o l r) := by
  by_cases hcc : l.isCst = true ∧ r.isCst = true
  · exact callOp_cst_plain cfg ρ _ o l r hl hr hcc.1 hcc.2 ha hsz
  · rw [callOp.eq_def]; dsimp only
    have hapi := ih.api o l r hl hr hpl hpr ha hsz
    cases o <;> simp [agnOp] at ha <;> dsimp only <;> try exact hapi
    · exact ih.helperCmp Op.geu l r hl hr hpl hpr (hsz (by simp [Op.type])) (Or.inr rfl)
    · exact ih.helperCmp Op.ltu l r hl hr hpl hpr (hsz (by simp [Op.type])) (Or.inl rfl)
    · exact helperRot_spost cfg ρ fuel Op.ror l r hpl hpr (Or.inl rfl) hcc
    · exact helperRot_spost cfg ρ fuel Op.rol l r hpl hpr (Or.inr rfl) hcc

end steps
end Amoco.Rot
