/-
  Amoco.Proofs.Macho — lemmas about the Mach-O model (`Amoco.Model.Macho`).
-/
import Amoco.Model.Macho
import Mathlib.Tactic.SplitIfs

namespace Amoco.Macho

theorem slice_length (d : Bytes) (off n : Nat) : (slice d off n).length = min n (d.length - off) := by
  simp [slice, List.length_take, List.length_drop]

theorem rdBytes_ok {d : Bytes} {off n : Nat} (h : off + n ≤ d.length) : rdBytes d off n = .ok (slice d off n) := by
  unfold rdBytes
  have : (slice d off n).length = n := by rw [slice_length]; omega
  simp [this]

theorem rdBytes_len {d : Bytes} {off n : Nat} {bs : Bytes} (h : rdBytes d off n = .ok bs) (hn : 0 < n) :
    off + n ≤ d.length ∧ bs = slice d off n := by
  unfold rdBytes at h
  simp only [slice_length] at h
  split at h
  · rename_i hc
    simp only [beq_iff_eq] at hc
    injection h with h
    exact ⟨by omega, h.symm⟩
  · cases h

theorem bind_ok {α β : Type} {x : Py α} {f : α → Py β} {b : β} (h : (x >>= f) = .ok b) :
    ∃ a, x = .ok a ∧ f a = .ok b := by
  cases x with
  | error e => simp [bind, Except.bind] at h
  | ok a => exact ⟨a, rfl, by simpa [bind, Except.bind] using h⟩

theorem rdLE_ok {d : Bytes} {off n : Nat} (h : off + n ≤ d.length) : rdLE d off n = .ok (le d off n) := by
  simp [rdLE, rdBytes_ok h, le, bind, Except.bind, pure, Except.pure]

theorem rdLE_len {d : Bytes} {off n v : Nat} (h : rdLE d off n = .ok v) (hn : 0 < n) :
    off + n ≤ d.length ∧ v = le d off n := by
  unfold rdLE at h
  obtain ⟨bs, h1, h2⟩ := bind_ok h
  obtain ⟨hl, hb⟩ := rdBytes_len h1 hn
  refine ⟨hl, ?_⟩
  simp only [pure, Except.pure] at h2
  injection h2 with h2
  rw [← h2, hb, le]

theorem rdS32_ok {d : Bytes} {off : Nat} (h : off + 4 ≤ d.length) : rdS32 d off = .ok (toS32 (le d off 4)) := by
  simp [rdS32, rdLE_ok h, bind, Except.bind, pure, Except.pure]

theorem mkBody_err {cmd : Nat} {data : Bytes} {e : Exn} (h : mkBody cmd data = .error e) : e = .machoError := by
  unfold mkBody at h
  split at h
  · cases h
  · injection h with h; exact h.symm

/-! ## the walker, for every byte string -/

/-- consecutive commands: each starts where the previous one ends and is at least 8 bytes long -/
def Chain : Nat → List LC → Prop
  | _, [] => True
  | off, c :: t => c.off = off ∧ 8 ≤ c.cmdsize ∧ Chain (off + c.cmdsize) t

theorem walk_chain (d : Bytes) (soc : Nat) : ∀ fuel off lc, Chain off (walk d soc fuel off lc).1 := by
  intro fuel
  induction fuel with
  | zero => intro off lc; simp [walk, Chain]
  | succ n ih =>
    intro off lc
    unfold walk
    split_ifs with h1
    · split
      · split_ifs with h2
        · simp [Chain]
        · split
          · simp [Chain]
          · exact ⟨rfl, by simp only; omega, ih _ _⟩
      · simp [Chain]
    · simp [Chain]

/-- the only ways the walker ends: normally, with one of the two format errors, or out of fuel -/
theorem walk_end (d : Bytes) (soc : Nat) : ∀ fuel off lc e, (walk d soc fuel off lc).2 = some e →
    e = .machoError ∨ e = .structureError ∨ e = .fuel := by
  intro fuel
  induction fuel with
  | zero => intro off lc e h; simp [walk] at h; exact Or.inr (Or.inr h.symm)
  | succ n ih =>
    intro off lc e h
    unfold walk at h
    split_ifs at h with h1
    · split at h
      · split_ifs at h with h2
        · simp at h; exact Or.inl h.symm
        · split at h
          · rename_i e' he
            simp at h; subst h
            exact Or.inl (mkBody_err he)
          · exact ih _ _ _ h
      · simp at h; exact Or.inr (Or.inl h.symm)

/-- with `fuel + off > length` the fuel never runs out: every step needs 8 readable bytes at `off`
    and advances by at least 8 -/
theorem walk_no_fuel (d : Bytes) (soc : Nat) : ∀ fuel off lc, 0 < fuel → d.length < fuel + off →
    (walk d soc fuel off lc).2 ≠ some .fuel := by
  intro fuel
  induction fuel with
  | zero => intro off lc h0 h; omega
  | succ n ih =>
    intro off lc _ h
    unfold walk
    split_ifs with h1
    · split
      · rename_i cmd cmdsize hc hs
        split_ifs with h2
        · simp
        · split
          · rename_i e' he
            have := mkBody_err he
            simp [this]
          · have hl := (rdLE_len hs (by decide)).1
            exact ih _ _ (by omega) (by omega)
      · simp
    · simp

/-- every command the walker built had its 8-byte header inside the file -/
theorem walk_inbounds (d : Bytes) (soc : Nat) : ∀ fuel off lc, ∀ c ∈ (walk d soc fuel off lc).1, c.off + 8 ≤ d.length := by
  intro fuel
  induction fuel with
  | zero => intro off lc c hc; simp [walk] at hc
  | succ n ih =>
    intro off lc c hc
    unfold walk at hc
    split_ifs at hc with h1
    · split at hc
      · rename_i cmd cmdsize hcm hs
        split_ifs at hc with h2
        · simp at hc
        · split at hc
          · simp at hc
          · simp only [List.mem_cons] at hc
            rcases hc with hc | hc
            · subst hc
              have hl := (rdLE_len hs (by decide)).1
              simp only; omega
            · exact ih _ _ c hc
      · simp at hc
    · simp at hc

/-- a chain of `k` commands from `off` whose last header is inside the file: `off + 8k ≤ length` -/
theorem chain_steps (len : Nat) : ∀ (cs : List LC) (off : Nat), Chain off cs → (∀ c ∈ cs, c.off + 8 ≤ len) → cs ≠ [] →
    off + 8 * cs.length ≤ len := by
  intro cs
  induction cs with
  | nil => intro off _ _ h; exact absurd rfl h
  | cons c t ih =>
    intro off hch hin _
    obtain ⟨h1, h2, h3⟩ := hch
    by_cases ht : t = []
    · subst ht
      have := hin c (by simp)
      simp; omega
    · have := ih (off + c.cmdsize) h3 (fun x hx => hin x (by simp [hx])) ht
      simp only [List.length_cons]; omega

/-- pairwise disjointness from a chain -/
theorem chain_lower : ∀ (cs : List LC) (off : Nat), Chain off cs → ∀ c ∈ cs, off ≤ c.off := by
  intro cs
  induction cs with
  | nil => intro off _ c hc; cases hc
  | cons a t ih =>
    intro off hch c hc
    obtain ⟨h1, h2, h3⟩ := hch
    simp only [List.mem_cons] at hc
    rcases hc with hc | hc
    · subst hc; omega
    · have := ih _ h3 c hc; omega

theorem chain_pairwise : ∀ (cs : List LC) (off : Nat), Chain off cs →
    cs.Pairwise (fun a b => a.off + a.cmdsize ≤ b.off) := by
  intro cs
  induction cs with
  | nil => intro _ _; exact List.Pairwise.nil
  | cons a t ih =>
    intro off hch
    obtain ⟨h1, h2, h3⟩ := hch
    refine List.Pairwise.cons ?_ (ih _ h3)
    intro b hb
    have := chain_lower t _ h3 b hb
    omega



theorem readSect_ok (is64 : Bool) (c : Bytes) (o : Nat) (h : o + sectSize is64 ≤ c.length)
    (hu : utf8Valid (refSect is64 c o).segname = true) : readSect is64 c o = .ok (refSect is64 c o) := by
  cases is64
  · simp [sectSize] at h
    have hu' : utf8Valid (slice c (o + 16) 16) = true := by simpa [refSect] using hu
    simp (disch := omega) [readSect, readSect32, rdLE_ok, rdBytes_ok, bind, Except.bind, pure, Except.pure, hu', refSect]
  · simp [sectSize] at h
    have hu' : utf8Valid (slice c (o + 16) 16) = true := by simpa [refSect] using hu
    simp (disch := omega) [readSect, readSect64, rdLE_ok, rdBytes_ok, bind, Except.bind, pure, Except.pure, hu', refSect]

theorem sectLoop_ok (is64 : Bool) (c : Bytes) : ∀ n o, o + n * sectSize is64 ≤ c.length →
    (∀ k, k < n → utf8Valid (refSect is64 c (o + k * sectSize is64)).segname = true) →
    sectLoop is64 c n o = .ok ((List.range n).map (fun k => refSect is64 c (o + k * sectSize is64))) := by
  intro n
  induction n with
  | zero => intro o _ _; simp [sectLoop]
  | succ n ih =>
    intro o hb hu
    have h0 := hu 0 (by omega)
    simp only [Nat.zero_mul, Nat.add_zero] at h0
    have hsz : 0 < sectSize is64 := by cases is64 <;> simp [sectSize]
    have hb' : o + sectSize is64 + n * sectSize is64 ≤ c.length := by rw [Nat.succ_mul] at hb; omega
    have e1 := readSect_ok is64 c o (by rw [Nat.succ_mul] at hb; omega) h0
    have e2 := ih (o + sectSize is64) hb' (by
      intro k hk
      have := hu (k + 1) (by omega)
      rw [Nat.succ_mul] at this
      have e : o + (k * sectSize is64 + sectSize is64) = o + sectSize is64 + k * sectSize is64 := by omega
      rw [e] at this; exact this)
    simp only [sectLoop, e1, e2, bind, Except.bind, pure, Except.pure]
    rw [List.range_succ_eq_map]
    simp only [List.map_cons, List.map_map, Nat.zero_mul, Nat.add_zero]
    congr 2
    apply List.map_congr_left
    intro k _
    simp only [Function.comp, Nat.succ_mul]
    have e : o + (k * sectSize is64 + sectSize is64) = o + sectSize is64 + k * sectSize is64 := by omega
    rw [e]



theorem refSeg_all {is64 : Bool} {c : Bytes} {n base : Nat}
    (h : ((List.range n).map (fun k => refSect is64 c (base + k * sectSize is64))).all (fun s => utf8Valid s.segname) = true) :
    ∀ k, k < n → utf8Valid (refSect is64 c (base + k * sectSize is64)).segname = true := by
  intro k hk
  rw [List.all_eq_true] at h
  exact h _ (List.mem_map.mpr ⟨k, List.mem_range.mpr hk, rfl⟩)

theorem readSeg32_ok {c : Bytes} {s : Seg} (h : refSeg false c = some s) : readSeg32 c = .ok s := by
  unfold refSeg at h
  simp only [Bool.false_eq_true, if_false, segSize, sectSize] at h
  split_ifs at h with hb hall
  injection h with h
  have hu := refSeg_all (is64 := false) (base := 56) (by simpa [sectSize] using hall)
  have hl := sectLoop_ok false c (le c 48 4) 56 (by simpa [sectSize] using hb) hu
  simp only [sectSize, Bool.false_eq_true, if_false] at hl
  simp (disch := omega) [readSeg32, rdLE_ok, rdS32_ok, rdBytes_ok, bind, Except.bind, pure, Except.pure, hl, ← h]

theorem readSeg64_ok {c : Bytes} {s : Seg} (h : refSeg true c = some s) : readSeg64 c = .ok s := by
  unfold refSeg at h
  simp only [if_true, segSize, sectSize] at h
  split_ifs at h with hb hall
  injection h with h
  have hu := refSeg_all (is64 := true) (base := 72) (by simpa [sectSize] using hall)
  have hl := sectLoop_ok true c (le c 64 4) 72 (by simpa [sectSize] using hb) hu
  simp only [sectSize, if_true] at hl
  simp (disch := omega) [readSeg64, rdLE_ok, rdS32_ok, rdBytes_ok, bind, Except.bind, pure, Except.pure, hl, ← h]

theorem knownNeed_not_special {cmd n : Nat} (h : knownNeed cmd = some n) : cmd ≠ 0x1 ∧ cmd ≠ 0x19 ∧ cmd ≠ 0x32 := by
  refine ⟨?_, ?_, ?_⟩ <;> (intro hc; subst hc; simp [knownNeed] at h)

theorem mkBody_eq_ref {cmd : Nat} {c : Bytes} {b : Body} (h : refBody cmd c = some b) : mkBody cmd c = .ok b := by
  unfold refBody at h
  unfold mkBody mkBodyRaw
  simp only [LC_SEGMENT, LC_SEGMENT_64, LC_BUILD_VERSION]
  split_ifs at h with h1 h2 h3 h4
  · cases hs : refSeg false c with
    | none => simp [hs] at h
    | some s =>
      simp [hs] at h; subst h
      simp [h1, readSeg32_ok hs, bind, Except.bind, pure, Except.pure]
  · cases hs : refSeg true c with
    | none => simp [hs] at h
    | some s =>
      simp [hs] at h; subst h
      simp [h1, h2, readSeg64_ok hs, bind, Except.bind, pure, Except.pure]
  · injection h with h; subst h
    simp only [Bool.and_eq_true, decide_eq_true_eq] at h4
    simp (disch := omega) [h1, h2, h3, rdLE_ok, rdBytes_ok, bind, Except.bind, pure, Except.pure]
  · cases hk : knownNeed cmd with
    | none => simp [hk] at h; subst h; simp [h1, h2, h3, pure, Except.pure]
    | some n =>
      simp only [hk] at h
      split_ifs at h with hn
      injection h with h; subst h
      simp (disch := omega) [h1, h2, h3, hk, rdBytes_ok, bind, Except.bind, pure, Except.pure]

theorem refCmds_steps (d : Bytes) (endoff : Nat) : ∀ n off cs, refCmds d endoff n off = some cs → off + 8 * n ≤ endoff := by
  intro n
  induction n with
  | zero => intro off cs h; simp [refCmds] at h; omega
  | succ n ih =>
    intro off cs h
    unfold refCmds at h
    split_ifs at h with h1
    dsimp only at h
    split_ifs at h with h2
    simp only [Bool.and_eq_true, decide_eq_true_eq] at h2
    split at h
    · rename_i b rest hb hr
      have := ih _ _ hr
      omega
    · cases h

/-- the walker (driven by `sizeofcmds`) finds exactly the `n` commands the reference (driven by
    `ncmds`) lays out back to back up to `endoff` -/
theorem walk_eq_ref (d : Bytes) (soc endoff : Nat) (hend : endoff ≤ d.length) :
    ∀ n off cs fuel lc, refCmds d endoff n off = some cs → n < fuel → lc + (endoff - off) = soc → off ≤ endoff →
      walk d soc fuel off lc = (cs, none) := by
  intro n
  induction n with
  | zero =>
    intro off cs fuel lc h hf hl _
    simp [refCmds] at h
    obtain ⟨h1, h2⟩ := h
    subst h2
    cases fuel with
    | zero => omega
    | succ f =>
      unfold walk
      have : ¬ lc < soc := by omega
      simp [this]
  | succ n ih =>
    intro off cs fuel lc h hf hl _
    unfold refCmds at h
    split_ifs at h with h1
    dsimp only at h
    split_ifs at h with h2
    simp only [Bool.and_eq_true, decide_eq_true_eq] at h2
    split at h
    · rename_i b rest hb hr
      injection h with h; subst h
      cases fuel with
      | zero => omega
      | succ f =>
        unfold walk
        have hlt : lc < soc := by omega
        have r1 : rdLE d off 4 = .ok (le d off 4) := rdLE_ok (by omega)
        have r2 : rdLE d (off + 4) 4 = .ok (le d (off + 4) 4) := rdLE_ok (by omega)
        have hns : ¬ le d (off + 4) 4 < 8 := by omega
        have hw := ih (off + le d (off + 4) 4) rest f (lc + le d (off + 4) 4) hr (by omega) (by omega) (by omega)
        simp [hlt, r1, r2, hns, mkBody_eq_ref hb, hw]
    · cases h


theorem readHeader32_ok {d : Bytes} (h : 28 ≤ d.length) :
    readHeader32 d = .ok (Header.mk false (le d 0 4) (toS32 (le d 4 4)) (toS32 (le d 8 4))
      (le d 12 4) (le d 16 4) (le d 20 4) (le d 24 4) 0) := by
  simp (disch := omega) [readHeader32, rdLE_ok, rdS32_ok, bind, Except.bind, pure, Except.pure]

theorem readHeader64_ok {d : Bytes} (h : 32 ≤ d.length) :
    readHeader64 d = .ok (Header.mk true (le d 0 4) ((le d 4 4 : Nat) : Int) ((le d 8 4 : Nat) : Int)
      (le d 12 4) (le d 16 4) (le d 20 4) (le d 24 4) (le d 28 4)) := by
  simp (disch := omega) [readHeader64, rdLE_ok, bind, Except.bind, pure, Except.pure]

theorem readHeader32_len {d : Bytes} {h : Header} (hr : readHeader32 d = .ok h) : 28 ≤ d.length ∧ h.magic = le d 0 4 := by
  unfold readHeader32 at hr
  obtain ⟨m, hm, hr⟩ := bind_ok hr
  iterate 5 (obtain ⟨_, _, hr⟩ := bind_ok hr)
  obtain ⟨_, h1, hr⟩ := bind_ok hr
  have := (rdLE_len h1 (by decide)).1
  have hm' := (rdLE_len hm (by decide)).2
  simp only [pure, Except.pure] at hr
  injection hr with hr
  subst hr
  exact ⟨by omega, hm'⟩

/-- on a well-formed image the constructor returns exactly what the reference reader reads -/
theorem parseRaw_eq_ref {d : Bytes} {o : Obj} (h : refParse d = some o) : parseRaw d = .ok o := by
  unfold refParse at h
  cases hh : refHeader d with
  | none => simp [hh] at h
  | some hd =>
    simp only [hh] at h
    unfold refHeader at hh
    split_ifs at hh with h28
    dsimp only at hh
    split_ifs at hh with hm32 hm64
    · -- 32-bit
      injection hh with hh
      subst hh
      simp only [Bool.false_eq_true, if_false] at h
      split_ifs at h with hlen
      cases hc : refCmds d (28 + le d 20 4) (le d 16 4) 28 with
      | none => simp [hc] at h
      | some cmds =>
        simp only [hc] at h
        injection h with h
        subst h
        have hsteps := refCmds_steps _ _ _ _ _ hc
        have hw := walk_eq_ref d (le d 20 4) (28 + le d 20 4) hlen (le d 16 4) 28 cmds (d.length + 1) 0 hc (by omega) (by omega) (by omega)
        simp only [beq_iff_eq] at hm32
        have hne : ¬ (le d 0 4 = MH_MAGIC_64) := by rw [hm32]; decide
        have hnf : ¬ (le d 0 4 = FAT_CIGAM) := by rw [hm32]; decide
        have hm : le d 0 4 = MH_MAGIC := by rw [hm32]; rfl
        have k1 : ¬ (MH_MAGIC = MH_MAGIC_64) := by decide
        have k2 : ¬ (MH_MAGIC = FAT_CIGAM) := by decide
        simp [parseRaw, readHeader32_ok h28, readCommands, hw, hm, k1, k2, bind, Except.bind, pure, Except.pure]
    · -- 64-bit
      injection hh with hh
      subst hh
      simp only [if_true] at h
      split_ifs at h with hlen
      cases hc : refCmds d (32 + le d 20 4) (le d 16 4) 32 with
      | none => simp [hc] at h
      | some cmds =>
        simp only [hc] at h
        injection h with h
        subst h
        simp only [Bool.and_eq_true, beq_iff_eq, decide_eq_true_eq] at hm64
        obtain ⟨hm, h32⟩ := hm64
        have hsteps := refCmds_steps _ _ _ _ _ hc
        have hw := walk_eq_ref d (le d 20 4) (32 + le d 20 4) hlen (le d 16 4) 32 cmds (d.length + 1) 0 hc (by omega) (by omega) (by omega)
        have hm' : le d 0 4 = MH_MAGIC_64 := by rw [hm]; rfl
        simp [parseRaw, readHeader32_ok h28, readHeader64_ok h32, readCommands, hw, hm', bind, Except.bind, pure, Except.pure]

theorem machoInit_eq_ref {d : Bytes} {o : Obj} (h : refParse d = some o) : machoInit d = .ok o := by
  simp [machoInit, wrap, parseRaw_eq_ref h]

theorem wrap_format {α : Type} (r : Py α) (e : Exn) (h : wrap r = .error e) : e = .machoError ∨ e = .structureError := by
  unfold wrap at h
  split at h <;> cases h <;> simp


theorem readHeader64_len {d : Bytes} {h : Header} (hr : readHeader64 d = .ok h) : 32 ≤ d.length := by
  unfold readHeader64 at hr
  iterate 7 (obtain ⟨_, _, hr⟩ := bind_ok hr)
  obtain ⟨_, h1, hr⟩ := bind_ok hr
  have := (rdLE_len h1 (by decide)).1
  omega

/-- what an accepted image looks like at header level -/
theorem machoInit_header {d : Bytes} {o : Obj} (h : machoInit d = .ok o) :
    28 ≤ d.length ∧ (le d 0 4 = MH_MAGIC ∨ (le d 0 4 = MH_MAGIC_64 ∧ 32 ≤ d.length) ∨ le d 0 4 = FAT_CIGAM) := by
  unfold machoInit wrap at h
  cases hp : parseRaw d with
  | error e => rw [hp] at h; cases e <;> simp at h
  | ok o' =>
    unfold parseRaw at hp
    cases hr : readHeader32 d with
    | error e => simp [hr] at hp
    | ok hd =>
      obtain ⟨h28, hm⟩ := readHeader32_len hr
      simp only [hr] at hp
      refine ⟨h28, ?_⟩
      split_ifs at hp with h1 h2 h3
      · obtain ⟨h64, hh, _⟩ := bind_ok hp
        simp only [beq_iff_eq] at h1
        exact Or.inr (Or.inl ⟨by rw [← hm]; exact h1, readHeader64_len hh⟩)
      · simp only [beq_iff_eq] at h2
        exact Or.inr (Or.inr (by rw [← hm]; exact h2))
      · simp only [beq_iff_eq] at h3
        exact Or.inl (by rw [← hm]; exact h3)

theorem refCmds_range (d : Bytes) (endoff : Nat) : ∀ n off cs, refCmds d endoff n off = some cs →
    ∀ c ∈ cs, off ≤ c.off ∧ c.off + c.cmdsize ≤ endoff := by
  intro n
  induction n with
  | zero => intro off cs h c hc; simp [refCmds] at h; rw [h.2] at hc; cases hc
  | succ n ih =>
    intro off cs h c hc
    unfold refCmds at h
    split_ifs at h with h1
    dsimp only at h
    split_ifs at h with h2
    simp only [Bool.and_eq_true, decide_eq_true_eq] at h2
    split at h
    · rename_i b rest hb hr
      injection h with h; subst h
      simp only [List.mem_cons] at hc
      rcases hc with hc | hc
      · subst hc; simp only; omega
      · have := ih _ _ hr c hc; omega
    · cases h


end Amoco.Macho
