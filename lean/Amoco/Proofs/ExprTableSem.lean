/-
  Amoco.Proofs.ExprTableSem — bit-level VALUE of a part table and how `parts[k] = v; cut`, `restruct` and the
  `__getitem__` loop act on it (the semantic counterpart of Amoco.Proofs.ExprComp).
-/
import Amoco.Proofs.ExprCompSem

namespace Amoco.Expr

open Amoco.Bits

/-- bit `j` of the value of a part table: the bit of the part that covers `j` -/
def tbit (ρ : Val) (ps : List Part) (j : Nat) : Bool :=
  match cover j ps with
  | some (lo, _, e) => (ideal ρ e).testBit (j - lo)
  | none => false

theorem contrib_testBit (ρ : Val) (p : Part) (j : Nat) :
    (contrib ρ p).testBit j = (decide (p.1 ≤ j) && decide (j - p.1 < p.2.1 - p.1) && (ideal ρ p.2.2).testBit (j - p.1)) := by
  unfold contrib
  rw [Nat.testBit_shiftLeft, Nat.testBit_mod_two_pow]
  by_cases h : p.1 ≤ j <;> simp [h]

theorem cover_none_of_cnt {b : Nat} {ps : List Part} (h : cnt b ps = 0) : cover b ps = none := by
  cases hc : cover b ps with
  | none => rfl
  | some p =>
    obtain ⟨hm, h1, h2⟩ := cover_spec hc
    have := cnt_pos_of_mem hm (b := b) ⟨h1, h2⟩
    omega

/-- the value of a disjoint table, bit by bit -/
theorem idealParts_testBit (ρ : Val) (n : Nat) : ∀ (ps : List Part), Disj n ps → ∀ j,
    (idealParts ρ ps).testBit j = tbit ρ ps j := by
  intro ps
  induction ps with
  | nil => intro _ j; simp [idealParts_nil, tbit, cover]
  | cons p tl ih =>
    intro hd j
    obtain ⟨lo, hi, e⟩ := p
    rw [idealParts_cons, Nat.testBit_or, contrib_testBit, ih hd.tail j]
    have hs := hd.1 (lo, hi, e) List.mem_cons_self
    simp only at hs
    unfold tbit
    simp only [cover]
    by_cases hc : lo ≤ j ∧ j < hi
    · have hcv : (decide (lo ≤ j) && decide (j < hi)) = true := by simp [hc]
      simp only [hcv, if_true]
      have hcnt := hd.cnt_le j
      rw [cnt_cons] at hcnt
      have hi1 : ind lo hi j = 1 := by unfold ind; rw [if_pos hc]
      have h0 : cnt j tl = 0 := by
        have hi2 : ind (lo, hi, e).1 (lo, hi, e).2.1 j = 1 := hi1
        omega
      rw [cover_none_of_cnt h0]
      have : j - lo < hi - lo := by omega
      simp [hc.1, this]
    · have hcv : ¬ ((decide (lo ≤ j) && decide (j < hi)) = true) := by
        simp only [Bool.and_eq_true, decide_eq_true_eq]; exact hc
      simp only [hcv, if_false]
      have : (decide (lo ≤ j) && decide (j - lo < hi - lo)) = false := by
        by_cases h1 : lo ≤ j
        · have : ¬ (j - lo < hi - lo) := by omega
          simp [h1, this]
        · simp [h1]
      simp [this]

/-- in a disjoint table the covering part of a bit is any member that covers it -/
theorem cover_eq_of_mem {n : Nat} {ps : List Part} (hd : Disj n ps) {p : Part} {j : Nat} (hm : p ∈ ps)
    (hc : p.1 ≤ j ∧ j < p.2.1) : cover j ps = some p := by
  have hs := cover_isSome_of_cnt (cnt_pos_of_mem hm hc)
  cases hcv : cover j ps with
  | none => rw [hcv] at hs; cases hs
  | some q =>
    obtain ⟨hq, h1, h2⟩ := cover_spec hcv
    rw [hd.unique hm hq hc ⟨h1, h2⟩]

theorem tbit_of_mem (ρ : Val) {n : Nat} {ps : List Part} (hd : Disj n ps) {p : Part} {j : Nat} (hm : p ∈ ps)
    (hc : p.1 ≤ j ∧ j < p.2.1) : tbit ρ ps j = (ideal ρ p.2.2).testBit (j - p.1) := by
  unfold tbit
  rw [cover_eq_of_mem hd hm hc]

theorem tbit_uncovered (ρ : Val) {ps : List Part} {j : Nat} (h : cnt j ps = 0) : tbit ρ ps j = false := by
  unfold tbit; rw [cover_none_of_cnt h]

/-! ### membership through the dict operations -/

theorem mem_assignKey_of_mem {lo hi : Nat} {v : Expr} {ps : List Part} {p : Part} (h : p ∈ ps)
    (hne : ¬ (p.1 = lo ∧ p.2.1 = hi)) : p ∈ assignKey lo hi v ps := by
  induction ps with
  | nil => cases h
  | cons q tl ih =>
    obtain ⟨a, b, x⟩ := q
    simp only [assignKey]
    split
    · rename_i hk
      simp only [Bool.and_eq_true, beq_iff_eq] at hk
      rcases List.mem_cons.mp h with rfl | h
      · exact absurd ⟨hk.1, hk.2⟩ hne
      · exact List.mem_cons_of_mem _ h
    · rcases List.mem_cons.mp h with rfl | h
      · exact List.mem_cons_self
      · exact List.mem_cons_of_mem _ (ih h)

theorem mem_assignKey_new (lo hi : Nat) (v : Expr) (ps : List Part) : (lo, hi, v) ∈ assignKey lo hi v ps := by
  induction ps with
  | nil => simp [assignKey]
  | cons q tl ih =>
    obtain ⟨a, b, x⟩ := q
    simp only [assignKey]
    split
    · rename_i hk
      simp only [Bool.and_eq_true, beq_iff_eq] at hk
      obtain ⟨rfl, rfl⟩ := hk
      exact List.mem_cons_self
    · exact List.mem_cons_of_mem _ ih

theorem mem_popKey_of_mem {lo hi : Nat} {ps : List Part} {p : Part} (h : p ∈ ps)
    (hne : ¬ (p.1 = lo ∧ p.2.1 = hi)) : p ∈ popKey lo hi ps := by
  induction ps with
  | nil => cases h
  | cons q tl ih =>
    obtain ⟨a, b, x⟩ := q
    simp only [popKey]
    split
    · rename_i hk
      simp only [Bool.and_eq_true, beq_iff_eq] at hk
      rcases List.mem_cons.mp h with rfl | h
      · exact absurd ⟨hk.1, hk.2⟩ hne
      · exact h
    · rcases List.mem_cons.mp h with rfl | h
      · exact List.mem_cons_self
      · exact List.mem_cons_of_mem _ (ih h)

/-- value specification of a `getitem`-like operation -/
def GiSem (ρ : Val) (Q : Expr → Prop) (gi : Expr → Nat → Nat → R Expr) : Prop :=
  ∀ x a b r, WF x → Q x → a < b → b ≤ x.size → gi x a b = .ok r → ideal ρ r = bitsOf (ideal ρ x) a (b - a)

/-- members that `cut` does not list survive, as long as no listed part shares their key and their key is
    none of the piece keys -/
theorem cutLoop_keeps (gi : Expr → Nat → Nat → R Expr) (sta sto : Nat) :
    ∀ (todo ps ps' : List Part) (p : Part), p ∈ ps →
      (∀ q ∈ todo, ¬ (p.1 = q.1 ∧ p.2.1 = q.2.1) ∧ ¬ (p.1 = q.1 ∧ p.2.1 = sta) ∧ ¬ (p.1 = sto ∧ p.2.1 = q.2.1)) →
      cutLoop gi sta sto todo ps = .ok ps' → p ∈ ps' := by
  intro todo
  induction todo with
  | nil => intro ps ps' p hp _ h; simp only [cutLoop] at h; cases h; exact hp
  | cons q tl ih =>
    obtain ⟨lo, hi, nv⟩ := q
    intro ps ps' p hp hk h
    simp only [cutLoop] at h
    have hq := hk (lo, hi, nv) List.mem_cons_self
    simp only at hq
    have h1 : p ∈ popKey lo hi ps := mem_popKey_of_mem hp hq.1
    cases h2 : cutHead gi sta lo nv (popKey lo hi ps) with
    | error e => rw [h2] at h; cases h
    | ok ps2 =>
      rw [h2] at h
      simp only at h
      have m2 : p ∈ ps2 := by
        unfold cutHead at h2
        split at h2
        · cases hg : gi nv 0 (sta - lo) with
          | error e => rw [hg] at h2; cases h2
          | ok hd => rw [hg] at h2; cases h2; exact mem_assignKey_of_mem h1 hq.2.1
        · cases h2; exact h1
      cases h3 : cutTail gi sto lo hi nv ps2 with
      | error e => rw [h3] at h; cases h
      | ok ps3 =>
        rw [h3] at h
        simp only at h
        have m3 : p ∈ ps3 := by
          unfold cutTail at h3
          split at h3
          · cases hg : gi nv (sto - lo) (hi - lo) with
            | error e => rw [hg] at h3; cases h3
            | ok t => rw [hg] at h3; cases h3; exact mem_assignKey_of_mem m2 hq.2.2
          · cases h3; exact m2
        exact ih ps3 ps' p m3 (fun q' hq' => hk q' (List.mem_cons_of_mem _ hq')) h

/-- the pieces of every listed part are in the result -/
theorem cutLoop_pieces (gi : Expr → Nat → Nat → R Expr) (sta sto : Nat) :
    ∀ (todo ps ps' : List Part), todo.Pairwise (fun p q => p.2.1 ≤ q.1) →
      (∀ p ∈ todo, p.1 < p.2.1 ∧ p.1 < sto ∧ sta < p.2.1) → sta < sto →
      cutLoop gi sta sto todo ps = .ok ps' →
      ∀ q ∈ todo, (q.1 < sta → ∃ h, gi q.2.2 0 (sta - q.1) = .ok h ∧ (q.1, sta, h) ∈ ps') ∧
                  (q.2.1 > sto → ∃ t, gi q.2.2 (sto - q.1) (q.2.1 - q.1) = .ok t ∧ (sto, q.2.1, t) ∈ ps') := by
  intro todo
  induction todo with
  | nil => intro ps ps' _ _ _ _ q hq; cases hq
  | cons q0 tl ih =>
    obtain ⟨lo, hi, nv⟩ := q0
    intro ps ps' hpw hne hr h q hq
    simp only [cutLoop] at h
    have hpw' := List.pairwise_cons.mp hpw
    cases h2 : cutHead gi sta lo nv (popKey lo hi ps) with
    | error e => rw [h2] at h; cases h
    | ok ps2 =>
      rw [h2] at h
      simp only at h
      cases h3 : cutTail gi sto lo hi nv ps2 with
      | error e => rw [h3] at h; cases h
      | ok ps3 =>
        rw [h3] at h
        simp only at h
        rcases List.mem_cons.mp hq with rfl | hq
        · -- the pieces of the head element survive the rest of the loop
          have hlt := hne (lo, hi, nv) List.mem_cons_self
          simp only at hlt
          have keep : ∀ p, p ∈ ps3 → (p.1 = lo ∧ p.2.1 = sta) ∨ (p.1 = sto ∧ p.2.1 = hi) → p ∈ ps' := by
            intro p hp hkey
            refine cutLoop_keeps gi sta sto tl ps3 ps' p hp ?_ h
            intro q' hq'
            have hord := hpw'.1 q' hq'
            have hq'lt := hne q' (List.mem_cons_of_mem _ hq')
            simp only at hord
            rcases hkey with ⟨e1, e2⟩ | ⟨e1, e2⟩
            · refine ⟨?_, ?_, ?_⟩ <;> omega
            · refine ⟨?_, ?_, ?_⟩ <;> omega
          constructor
          · intro hl
            simp only at hl
            unfold cutHead at h2
            simp only [hl, if_true] at h2
            cases hg : gi nv 0 (sta - lo) with
            | error e => rw [hg] at h2; cases h2
            | ok hd =>
              rw [hg] at h2
              cases h2
              refine ⟨hd, rfl, ?_⟩
              have m2 : (lo, sta, hd) ∈ assignKey lo sta hd (popKey lo hi ps) := mem_assignKey_new _ _ _ _
              have m3 : (lo, sta, hd) ∈ ps3 := by
                unfold cutTail at h3
                split at h3
                · cases hg' : gi nv (sto - lo) (hi - lo) with
                  | error e => rw [hg'] at h3; cases h3
                  | ok t => rw [hg'] at h3; cases h3; exact mem_assignKey_of_mem m2 (by simp only; omega)
                · cases h3; exact m2
              exact keep _ m3 (Or.inl ⟨rfl, rfl⟩)
          · intro hl
            simp only at hl
            unfold cutTail at h3
            simp only [hl, if_true] at h3
            cases hg : gi nv (sto - lo) (hi - lo) with
            | error e => rw [hg] at h3; cases h3
            | ok t =>
              rw [hg] at h3
              cases h3
              exact ⟨t, rfl, keep _ (mem_assignKey_new _ _ _ _) (Or.inr ⟨rfl, rfl⟩)⟩
        · exact ih ps3 ps' hpw'.2 (fun p hp => hne p (List.mem_cons_of_mem _ hp)) hr h q hq

theorem testBit_bitsOf' (a p s j : Nat) : (bitsOf a p s).testBit j = (decide (j < s) && a.testBit (p + j)) :=
  testBit_bitsOf a p s j

/-- value of the table after `parts[(sta,sto)] = v; cut(sta,sto)`: bits `[sta,sto)` are those of `v`, every
    other bit keeps its value -/
theorem setPart_sem (ρ : Val) (Q : Expr → Prop) (gi : Expr → Nat → Nat → R Expr) (hgi : GiSpec gi) (hgs : GiSem ρ Q gi)
    (n sta sto : Nat) (v : Expr) (parts ps' : List Part) (hd : Disj n parts) (hw : ∀ p ∈ parts, WF p.2.2)
    (hq : ∀ p ∈ parts, Q p.2.2) (hv : WF v)
    (hvs : v.size = sto - sta) (hr : sta < sto) (hn : sto ≤ n)
    (h : setPart gi sta sto v parts = .ok ps') :
    ∀ j, tbit ρ ps' j = if sta ≤ j ∧ j < sto then (ideal ρ v).testBit (j - sta) else tbit ρ parts j := by
  obtain ⟨hd', _, hc'⟩ := setPart_spec gi hgi n sta sto v parts ps' hd hw hv hvs hr hn h
  intro j
  unfold setPart at h
  -- the new part is a member of the result
  have hnew : (sta, sto, v) ∈ ps' := by
    cases hf : findKey sta sto parts with
    | some e => rw [hf] at h; cases h; exact mem_assignKey_new _ _ _ _
    | none =>
      rw [hf] at h
      simp only at h
      refine cutLoop_keeps gi sta sto _ _ ps' (sta, sto, v) (List.mem_append_right _ List.mem_cons_self) ?_ h
      intro q hq
      obtain ⟨hm, h1, h2⟩ := mem_overlapping hq
      have hnk := findKey_none hf q hm
      simp only
      refine ⟨fun hh => hnk ⟨hh.1.symm, hh.2.symm⟩, by omega, by omega⟩
  by_cases hj : sta ≤ j ∧ j < sto
  · rw [if_pos hj]
    exact tbit_of_mem ρ hd' hnew hj
  · rw [if_neg hj]
    by_cases h0 : cnt j parts = 0
    · have : cnt j ps' = 0 := by rw [hc' j, if_neg hj]; exact h0
      rw [tbit_uncovered ρ this, tbit_uncovered ρ h0]
    · -- the old cover of j
      have hs := cover_isSome_of_cnt (b := j) (ps := parts) (by omega)
      cases hcv : cover j parts with
      | none => rw [hcv] at hs; cases hs
      | some q =>
        obtain ⟨hqm, hq1, hq2⟩ := cover_spec hcv
        obtain ⟨lo, hi, nv⟩ := q
        simp only at hq1 hq2
        have hqs := hd.1 _ hqm
        simp only at hqs
        rw [tbit_of_mem ρ hd hqm ⟨hq1, hq2⟩]
        simp only
        cases hf : findKey sta sto parts with
        | some e =>
          rw [hf] at h; cases h
          have : (lo, hi, nv) ∈ assignKey sta sto v parts := mem_assignKey_of_mem hqm (by simp only; omega)
          exact tbit_of_mem ρ hd' this ⟨hq1, hq2⟩
        | none =>
          rw [hf] at h
          simp only at h
          by_cases hov : lo < sto ∧ sta < hi
          · -- overlapping part: j lies in its head or tail piece
            have hqo : (lo, hi, nv) ∈ overlapping sta sto parts := by
              unfold overlapping
              apply (perm_sortParts _).symm.subset
              apply List.mem_filter.mpr
              exact ⟨hqm, by simp [hov]⟩
            have hall : ∀ p ∈ overlapping sta sto parts, p.1 < p.2.1 ∧ p.1 < sto ∧ sta < p.2.1 := by
              intro p hp
              obtain ⟨hm, h1, h2⟩ := mem_overlapping hp
              exact ⟨(hd.1 p hm).1, h1, h2⟩
            obtain ⟨hhead, htail⟩ := cutLoop_pieces gi sta sto _ _ ps' (overlapping_pairwise hd) hall hr h _ hqo
            simp only at hhead htail
            by_cases hjl : j < sta
            · obtain ⟨hdp, hg, hmem⟩ := hhead (by omega)
              rw [tbit_of_mem ρ hd' hmem ⟨hq1, hjl⟩]
              simp only
              rw [hgs nv 0 (sta - lo) hdp (hw _ hqm) (hq _ hqm) (by omega) (by omega) hg, testBit_bitsOf']
              have : j - lo < sta - lo := by omega
              simp [this]
            · have hjs : sto ≤ j := by omega
              obtain ⟨tp, hg, hmem⟩ := htail (by omega)
              rw [tbit_of_mem ρ hd' hmem ⟨hjs, hq2⟩]
              simp only
              rw [hgs nv (sto - lo) (hi - lo) tp (hw _ hqm) (hq _ hqm) (by omega) (by omega) hg, testBit_bitsOf']
              have h1 : j - sto < hi - lo - (sto - lo) := by omega
              have h2 : sto - lo + (j - sto) = j - lo := by omega
              simp [h1, h2]
          · -- untouched part
            have hkeep : (lo, hi, nv) ∈ ps' := by
              refine cutLoop_keeps gi sta sto _ _ ps' (lo, hi, nv) (List.mem_append_left _ hqm) ?_ h
              intro q' hq'
              obtain ⟨hm', h1', h2'⟩ := mem_overlapping hq'
              have hqs' := hd.1 q' hm'
              simp only
              refine ⟨?_, ?_, ?_⟩
              · intro hh
                have l2 := hqs'.1
                -- same key ⇒ same part (disjoint table) ⇒ it would overlap
                have := hd.unique hqm hm' (b := lo) ⟨Nat.le_refl _, hqs.1⟩ ⟨by omega, by omega⟩
                subst this
                exact hov ⟨h1', h2'⟩
              · intro hh
                have l2 := hqs'.1
                have := hd.unique hqm hm' (b := lo) ⟨Nat.le_refl _, hqs.1⟩ ⟨by omega, by omega⟩
                subst this
                exact hov ⟨h1', h2'⟩
              · intro hh
                have e2 : q'.2.1 = hi := hh.2.symm
                have e1 : sto = lo := hh.1.symm
                have l2 := hqs'.1
                have := hd.unique hqm hm' (b := hi - 1) ⟨(by show lo ≤ hi - 1; omega), (by show hi - 1 < hi; omega)⟩ ⟨by omega, by omega⟩
                subst this
                exact hov ⟨h1', h2'⟩
            exact tbit_of_mem ρ hd' hkeep ⟨hq1, hq2⟩

/-! ### `restruct` keeps the value of a table without `top` parts -/

theorem restructFind_cases (l : List Part) (A B : Part) (m : Expr) (h : restructFind l = some (A, B, m)) :
    (∃ av as_ fa bv bs fb, A.2.2 = cst av as_ fa ∧ B.2.2 = cst bv bs fb ∧
        m = mkCst (((bv <<< as_) ||| av : Nat) : Int) (as_ + bs)) ∨
    (A.2.2.isDef = false ∧ B.2.2.isDef = false) := by
  induction l with
  | nil => simp [restructFind] at h
  | cons p rest ih =>
    obtain ⟨alo, ahi, a⟩ := p
    cases rest with
    | nil => simp [restructFind] at h
    | cons q tl =>
      obtain ⟨blo, bhi, b⟩ := q
      simp only [restructFind] at h
      split at h
      · split at h
        · rename_i av as_ fa bv bs fb
          cases h
          exact Or.inl ⟨av, as_, fa, bv, bs, fb, rfl, rfl, rfl⟩
        · split at h
          · rename_i hc
            cases h
            simp only [Bool.and_eq_true, Bool.not_eq_true'] at hc
            exact Or.inr hc
          · exact ih h
      · exact ih h

theorem restructN_sem (ρ : Val) (n : Nat) : ∀ (k : Nat) (ps : List Part), Disj n ps → (∀ p ∈ ps, WF p.2.2) →
    (∀ p ∈ ps, p.2.2.isDef = true) →
    (∀ j, tbit ρ (restructN k ps) j = tbit ρ ps j) ∧ (∀ p ∈ restructN k ps, p.2.2.isDef = true) := by
  intro k
  induction k with
  | zero => intro ps _ _ hdef; exact ⟨fun _ => rfl, hdef⟩
  | succ k ih =>
    intro ps hd hw hdef
    simp only [restructN]
    cases hf : restructFind (sortParts ps) with
    | none => exact ⟨fun _ => rfl, hdef⟩
    | some t =>
      obtain ⟨A, B, m⟩ := t
      obtain ⟨alo, ahi, a⟩ := A
      obtain ⟨blo, bhi, b⟩ := B
      simp only
      obtain ⟨hd3, hw3, hc3, hm3, _, hA, hB, hadj, hlt1, hlt2, e1, fA, fB, fA0, fB1⟩ :=
        restruct_step n ps alo ahi blo bhi a b m hd hw hf
      subst hadj
      rcases restructFind_cases _ _ _ _ hf with ⟨av, as_, fa, bv, bs, fb, ha, hb, hm⟩ | ⟨hu, _⟩
      · simp only at ha hb
        subst ha hb hm
        have sA := hd.1 _ hA
        have sB := hd.1 _ hB
        have wA := hw _ hA
        have wB := hw _ hB
        simp only [size_cst, WF] at sA sB wA wB
        -- the merged part is in the new table
        have hM : (alo, bhi, mkCst (((bv <<< as_) ||| av : Nat) : Int) (as_ + bs)) ∈
            popKey ahi bhi (popKey alo ahi (assignKey alo bhi (mkCst (((bv <<< as_) ||| av : Nat) : Int) (as_ + bs)) ps)) := by
          apply mem_popKey_of_mem _ (by simp only; omega)
          apply mem_popKey_of_mem _ (by simp only; omega)
          exact mem_assignKey_new _ _ _ _
        have hdef3 : ∀ p ∈ popKey ahi bhi (popKey alo ahi (assignKey alo bhi (mkCst (((bv <<< as_) ||| av : Nat) : Int) (as_ + bs)) ps)),
            p.2.2.isDef = true := by
          intro p hp
          rcases hm3 p hp with h | rfl
          · exact hdef p h
          · rfl
        obtain ⟨r1, r2⟩ := ih _ hd3 hw3 hdef3
        refine ⟨fun j => ?_, r2⟩
        rw [r1 j]
        by_cases hj : alo ≤ j ∧ j < bhi
        · rw [tbit_of_mem ρ hd3 hM hj]
          simp only [ideal, mkCst_v]
          have hcat : ((bv <<< as_) ||| av) = cat av as_ bv := rfl
          rw [hcat, wrap_of_nat, Nat.mod_eq_of_lt (cat_lt av as_ bv bs wA.2 wB.2),
            Nat.mod_eq_of_lt (cat_lt av as_ bv bs wA.2 wB.2), testBit_cat _ _ _ _ wA.2]
          by_cases hj2 : j < ahi
          · have : j - alo < as_ := by omega
            rw [if_pos this, tbit_of_mem ρ hd hA ⟨hj.1, hj2⟩]
            simp only [ideal, Nat.mod_eq_of_lt wA.2]
          · have : ¬ (j - alo < as_) := by omega
            rw [if_neg this, tbit_of_mem ρ hd hB ⟨by omega, hj.2⟩]
            simp only [ideal, Nat.mod_eq_of_lt wB.2]
            congr 1; omega
        · by_cases h0 : cnt j ps = 0
          · have : cnt j (popKey ahi bhi (popKey alo ahi (assignKey alo bhi (mkCst (((bv <<< as_) ||| av : Nat) : Int) (as_ + bs)) ps))) = 0 := by
              rw [hc3 j]; exact h0
            rw [tbit_uncovered ρ this, tbit_uncovered ρ h0]
          · have hs := cover_isSome_of_cnt (b := j) (ps := ps) (by omega)
            cases hcv : cover j ps with
            | none => rw [hcv] at hs; cases hs
            | some q =>
              obtain ⟨hqm, hq1, hq2⟩ := cover_spec hcv
              rw [tbit_of_mem ρ hd hqm ⟨hq1, hq2⟩]
              have hq3 : q ∈ popKey ahi bhi (popKey alo ahi (assignKey alo bhi (mkCst (((bv <<< as_) ||| av : Nat) : Int) (as_ + bs)) ps)) := by
                have hqs := hd.1 q hqm
                apply mem_popKey_of_mem
                · apply mem_popKey_of_mem
                  · exact mem_assignKey_of_mem hqm (by
                      intro hh
                      have := hd.unique hqm hA (b := alo) ⟨by omega, by omega⟩ ⟨Nat.le_refl _, hlt1⟩
                      subst this
                      simp only at hh; omega)
                  · intro hh
                    have := hd.unique hqm hA (b := alo) ⟨by omega, by omega⟩ ⟨Nat.le_refl _, hlt1⟩
                    subst this
                    simp only at hq1 hq2; omega
                · intro hh
                  have := hd.unique hqm hB (b := ahi) ⟨by omega, by omega⟩ ⟨Nat.le_refl _, hlt2⟩
                  subst this
                  simp only at hq1 hq2; omega
              exact tbit_of_mem ρ hd3 hq3 ⟨hq1, hq2⟩
      · simp only at hu
        have := hdef _ hA
        simp only at this
        rw [hu] at this
        cases this

theorem restruct_sem (ρ : Val) (n : Nat) (ps : List Part) (hd : Disj n ps) (hw : ∀ p ∈ ps, WF p.2.2)
    (hdef : ∀ p ∈ ps, p.2.2.isDef = true) :
    (∀ j, tbit ρ (restruct ps) j = tbit ρ ps j) ∧ (∀ p ∈ restruct ps, p.2.2.isDef = true) :=
  restructN_sem ρ n ps.length ps hd hw hdef

/-! ### the `__getitem__` loop copies the covered bits -/

/-- value specification of a `setitem`-like operation -/
def SiSem (ρ : Val) (Q : Expr → Prop) (si : Expr → Nat → Nat → Expr → R Expr) : Prop :=
  ∀ n sf ps a b v r, Disj n ps → (∀ p ∈ ps, WF p.2.2) → (∀ p ∈ ps, Q p.2.2) → WF v → Q v →
    si (.comp n sf ps) a b v = .ok r →
    ∃ ps', r = .comp n sf ps' ∧ (∀ p ∈ ps', Q p.2.2) ∧
      ∀ j, tbit ρ ps' j = if a ≤ j ∧ j < b then (ideal ρ v).testBit (j - a) else tbit ρ ps j

theorem compGetLoop_sem (ρ : Val) (Q : Expr → Prop) (gi : Expr → Nat → Nat → R Expr) (si : Expr → Nat → Nat → Expr → R Expr)
    (hgi : GiSpec gi) (hsi : SiSpec si) (hgs : GiSem ρ Q gi) (hss : SiSem ρ Q si)
    (hgq : ∀ x a b r, WF x → Q x → gi x a b = .ok r → Q r) (size : Nat) (parts : List Part)
    (ht : Tiles size parts) (hw : ∀ p ∈ parts, WF p.2.2) (hq : ∀ p ∈ parts, Q p.2.2) (stop l sta : Nat)
    (hstop : stop = sta + l) (hle : stop ≤ size) (sf : Bool) :
    ∀ (k b : Nat) (rps : List Part) (res : Expr), l - b ≤ k → b ≤ l → Disj l rps → (∀ p ∈ rps, WF p.2.2) →
      (∀ p ∈ rps, Q p.2.2) →
      (∀ x, cnt x rps = if x < b then 1 else 0) →
      (∀ x, x < b → tbit ρ rps x = tbit ρ parts (sta + x)) →
      compGetLoop gi si parts stop l k b (sta + b) (.comp l sf rps) = .ok res →
      ∃ rps', res = .comp l sf rps' ∧ (∀ p ∈ rps', Q p.2.2) ∧ ∀ x, x < l → tbit ρ rps' x = tbit ρ parts (sta + x) := by
  intro k
  induction k with
  | zero =>
    intro b rps res hk hb hd hwr hqr hc hv h
    simp only [compGetLoop] at h
    cases h
    have : b = l := by omega
    subst this
    exact ⟨rps, rfl, hqr, hv⟩
  | succ k ih =>
    intro b rps res hk hb hd hwr hqr hc hv h
    simp only [compGetLoop] at h
    split at h
    · cases h
      have : b = l := by omega
      subst this
      exact ⟨rps, rfl, hqr, hv⟩
    · rename_i hbl
      have hbl' : b < l := by omega
      have hcs : (cover (sta + b) parts).isSome := by
        apply cover_isSome_of_cnt
        have := ht.2 (sta + b) (by subst hstop; omega)
        show 1 ≤ cnt (sta + b) parts
        change cnt (sta + b) parts = 1 at this
        omega
      cases hcv : cover (sta + b) parts with
      | none => rw [hcv] at hcs; cases hcs
      | some p =>
        obtain ⟨lo, hi, s⟩ := p
        rw [hcv] at h
        simp only at h
        obtain ⟨hm, h1, h2⟩ := cover_spec hcv
        simp only at h1 h2
        have hs := ht.1 _ hm
        simp only at hs
        cases hg : gi s (sta + b - lo) (min hi stop - lo) with
        | error e => rw [hg] at h; cases h
        | ok piece =>
          rw [hg] at h
          simp only [bind, Except.bind] at h
          have hp := hgi s _ _ piece (hw _ hm) (by omega) (by omega) hg
          have hpv := hgs s _ _ piece (hw _ hm) (hq _ hm) (by omega) (by omega) hg
          have hpq := hgq s _ _ piece (hw _ hm) (hq _ hm) hg
          cases hsv : si (comp l sf rps) b (b + (min hi stop - lo - (sta + b - lo))) piece with
          | error e => rw [hsv] at h; cases h
          | ok res1 =>
            rw [hsv] at h
            simp only at h
            obtain ⟨rps1, rfl, hd1, hw1, hab, hbn, hc1⟩ := hsi l sf rps _ _ piece res1 hd hwr hp.1 hsv
            obtain ⟨rps1', e1', hq1, hb1⟩ := hss l sf rps _ _ piece _ hd hwr hqr hp.1 hpq hsv
            cases e1'
            have e : sta + b + (min hi stop - lo - (sta + b - lo)) = sta + (b + (min hi stop - lo - (sta + b - lo))) := by
              omega
            rw [e] at h
            refine ih _ rps1 res (by omega) hbn hd1 hw1 hq1 ?_ ?_ h
            · intro x
              rw [hc1 x, hc x]
              split_ifs <;> omega
            · intro x hx
              rw [hb1 x]
              by_cases hxb : b ≤ x ∧ x < b + (min hi stop - lo - (sta + b - lo))
              · rw [if_pos hxb, hpv, testBit_bitsOf']
                have hcx : lo ≤ sta + x ∧ sta + x < hi := by omega
                rw [tbit_of_mem ρ ht.disj hm hcx]
                have h3 : x - b < min hi stop - lo - (sta + b - lo) := by omega
                have h4 : sta + b - lo + (x - b) = sta + x - lo := by omega
                simp [h3, h4]
              · rw [if_neg hxb]
                exact hv x (by omega)

end Amoco.Expr
