/-
  Amoco.Proofs.ExprEvalSound — `eval` under a total constant environment returns the constant
  `cst (ideal ρ e)` of width `e.size` (C01 `eval_sound`).
-/
import Amoco.Proofs.ExprCompSem

namespace Amoco

open Expr Bits

/-- the reading of a `w`-bit value with declared signedness `s` -/
def reading (s : Bool) (w v : Nat) : Int := if s then toInt w v else (v : Int)

theorem cstValue_reading (v s : Nat) (sg : Bool) : cstValue v s sg = reading sg s v := by
  cases sg
  · simp [cstValue, reading]
  · simp [cstValue, reading, toInt]

theorem cstValue_neg_iff (v s : Nat) (f : Bool) (hv : v < 2 ^ s) :
    cstValue v s f < 0 ↔ (f = true ∧ v.testBit (s - 1) = true) := by
  unfold cstValue
  have hlt : (v : Int) < ((2 ^ s : Nat) : Int) := by exact_mod_cast hv
  cases f <;> cases hb : v.testBit (s - 1) <;> simp only [Bool.and_true, Bool.and_false, Bool.false_and, Bool.true_and,
    Bool.false_eq_true, if_false, if_true, true_and, false_and, and_true, and_false, iff_false, iff_true, reduceCtorEq] <;> omega

/-- re-creating a constant from its Python value (`cst(self.value, self.size)`) keeps the value it reads as -/
theorem cstValue_reeval (v s : Nat) (f : Bool) (hv : v < 2 ^ s) :
    cstValue v s (decide (cstValue v s f < 0)) = cstValue v s f := by
  have hlt : (v : Int) < ((2 ^ s : Nat) : Int) := by exact_mod_cast hv
  by_cases h : cstValue v s f < 0
  · have := (cstValue_neg_iff v s f hv).mp h
    rw [decide_eq_true h, this.1]
  · have hn : ¬ (f = true ∧ v.testBit (s - 1) = true) := fun hh => h ((cstValue_neg_iff v s f hv).mpr hh)
    rw [decide_eq_false h]
    unfold cstValue
    cases f <;> cases hb : v.testBit (s - 1) <;> simp_all

/-- a constant leaf: flag equal to `s`, or top bit clear -/
theorem cst_leaf_reading (v sz : Nat) (f s : Bool) (h : f = s ∨ v.testBit (sz - 1) = false) :
    cstValue v sz f = reading s sz v := by
  rcases h with rfl | h
  · exact cstValue_reading v sz f
  · simp [cstValue, reading, toInt, h]

/-- the constant table reads its operands only through `cst.value` -/
theorem cstApi_congr (o : Op) (lv ls : Nat) (lf lf' : Bool) (rv rs : Nat) (rf rf' : Bool)
    (h1 : cstValue lv ls lf = cstValue lv ls lf') (h2 : cstValue rv rs rf = cstValue rv rs rf') :
    cstApi o lv ls lf rv rs rf = cstApi o lv ls lf' rv rs rf' := by
  unfold cstApi
  simp only [h1, h2]

theorem cstOut_ok {x : R Expr} {v s : Nat} (h : cstOut x = some (v, s)) : ∃ f, x = .ok (.cst v s f) := by
  unfold cstOut at h
  split at h
  · rename_i v' s' f'
    simp only [Option.some.injEq, Prod.mk.injEq] at h
    exact ⟨f', by rw [h.1, h.2]⟩
  · cases h

variable (cfg : Cfg)

theorem api_cst (fuel : Nat) (o : Op) (lv ls : Nat) (lf : Bool) (rv rs : Nat) (rf : Bool) :
    api cfg (fuel + 1) o (.cst lv ls lf) (.cst rv rs rf) =
      if (hasSizeCheck o && !sizesOK ls rs) = true then .error .value
      else cstApi o lv ls (if (o == Op.lsr) = true then false else if (o == Op.asr) = true then true else lf) rv rs rf := by
  rw [api.eq_def]; rfl

/-- the value of `_operator.__call__` on two constants is the reference meaning of the operator, for the
    reading `sg` that both operands carry when the operator depends on it -/
theorem callOp_cst_sound (fuel : Nat) (o : Op) (lv ls : Nat) (lf : Bool) (rv rs : Nat) (rf : Bool) (sg : Bool) (res : Expr)
    (hl : lv < 2 ^ ls) (hr : rv < 2 ^ rs) (hls : 0 < ls) (hsz : o.type ≠ 8 → ls = rs)
    (hsd : signDep o = true → cstValue lv ls lf = reading sg ls lv ∧ cstValue rv rs rf = reading sg rs rv)
    (h : callOp cfg fuel o (.cst lv ls lf) (.cst rv rs rf) = .ok res) :
    ∃ f, res = .cst (binSem o sg ls lv rv) (resSize o (.cst lv ls lf)) f := by
  cases fuel with
  | zero => rw [callOp.eq_def] at h; cases h
  | succ fuel =>
  rw [callOp.eq_def] at h; dsimp only at h
  -- plain operators go through `api`
  have plain : ∀ (lf' rf' : Bool), (signDep o = true → cstValue lv ls lf' = reading sg ls lv ∧ cstValue rv rs rf' = reading sg rs rv) →
      o ≠ Op.ltu → o ≠ Op.geu → o ≠ Op.ror → o ≠ Op.rol → o ≠ Op.not →
      api cfg fuel o (.cst lv ls lf') (.cst rv rs rf') = .ok res →
      ∃ f, res = .cst (binSem o sg ls lv rv) (resSize o (.cst lv ls lf)) f := by
    intro lf' rf' hsd' n1 n2 n3 n4 n5 ha
    cases fuel with
    | zero => rw [api.eq_def] at ha; cases ha
    | succ fuel =>
    rw [api_cst] at ha
    split at ha
    · cases ha
    · cases o <;> first
        | (exact absurd rfl n1) | (exact absurd rfl n2) | (exact absurd rfl n3) | (exact absurd rfl n4) | (exact absurd rfl n5)
        | skip
      -- add sub mul
      · have e := hsz (by simp [Op.type]); subst e
        obtain ⟨f, hf⟩ := cstOut_ok (cst_add lv ls _ rv rf' sg hl hr)
        simp only [beq_iff_eq, reduceCtorEq, if_false] at ha
        rw [hf] at ha; cases ha; exact ⟨f, by simp [resSize, Op.type]⟩
      · have e := hsz (by simp [Op.type]); subst e
        obtain ⟨f, hf⟩ := cstOut_ok (cst_sub lv ls _ rv rf' sg hl hr)
        simp only [beq_iff_eq, reduceCtorEq, if_false] at ha
        rw [hf] at ha; cases ha; exact ⟨f, by simp [resSize, Op.type]⟩
      · have e := hsz (by simp [Op.type]); subst e
        obtain ⟨f, hf⟩ := cstOut_ok (cst_mul lv ls _ rv rf' sg hl hr)
        simp only [beq_iff_eq, reduceCtorEq, if_false] at ha
        rw [hf] at ha; cases ha; exact ⟨f, by simp [resSize, Op.type]⟩
      -- mul2 div mod
      · have e := hsz (by simp [Op.type]); subst e
        have hh := hsd' rfl
        simp only [beq_iff_eq, reduceCtorEq, if_false] at ha
        rw [cstApi_congr Op.mul2 lv ls lf' sg rv ls rf' sg (by rw [hh.1, cstValue_reading]) (by rw [hh.2, cstValue_reading])] at ha
        obtain ⟨f, hf⟩ := cstOut_ok (cst_mul2 lv ls rv sg)
        rw [hf] at ha; cases ha; exact ⟨f, by simp [resSize, Op.type]⟩
      · have e := hsz (by simp [Op.type]); subst e
        have hh := hsd' rfl
        simp only [beq_iff_eq, reduceCtorEq, if_false] at ha
        rw [cstApi_congr Op.div lv ls lf' sg rv ls rf' sg (by rw [hh.1, cstValue_reading]) (by rw [hh.2, cstValue_reading])] at ha
        by_cases h0 : cstValue rv ls sg = 0
        · simp [cstApi, h0] at ha
        · obtain ⟨f, hf⟩ := cstOut_ok (cst_div lv ls rv sg hl h0)
          rw [hf] at ha; cases ha; exact ⟨f, by simp [resSize, Op.type]⟩
      · have e := hsz (by simp [Op.type]); subst e
        have hh := hsd' rfl
        simp only [beq_iff_eq, reduceCtorEq, if_false] at ha
        rw [cstApi_congr Op.mod lv ls lf' sg rv ls rf' sg (by rw [hh.1, cstValue_reading]) (by rw [hh.2, cstValue_reading])] at ha
        by_cases h0 : cstValue rv ls sg = 0
        · simp [cstApi, h0] at ha
        · obtain ⟨f, hf⟩ := cstOut_ok (cst_mod lv ls rv sg hl h0)
          rw [hf] at ha; cases ha; exact ⟨f, by simp [resSize, Op.type]⟩
      -- and or xor
      · have e := hsz (by simp [Op.type]); subst e
        obtain ⟨f, hf⟩ := cstOut_ok (cst_and lv ls lf' rv rf' sg hl)
        simp only [beq_iff_eq, reduceCtorEq, if_false] at ha
        rw [hf] at ha; cases ha; exact ⟨f, by simp [resSize, Op.type]⟩
      · have e := hsz (by simp [Op.type]); subst e
        obtain ⟨f, hf⟩ := cstOut_ok (cst_or lv ls lf' rv rf' sg hl hr)
        simp only [beq_iff_eq, reduceCtorEq, if_false] at ha
        rw [hf] at ha; cases ha; exact ⟨f, by simp [resSize, Op.type]⟩
      · have e := hsz (by simp [Op.type]); subst e
        obtain ⟨f, hf⟩ := cstOut_ok (cst_xor lv ls lf' rv rf' sg hl hr)
        simp only [beq_iff_eq, reduceCtorEq, if_false] at ha
        rw [hf] at ha; cases ha; exact ⟨f, by simp [resSize, Op.type]⟩
      -- eq neq
      · have e := hsz (by simp [Op.type]); subst e
        obtain ⟨f, hf⟩ := cstOut_ok (cst_eq lv ls lf' rv rf' sg)
        simp only [beq_iff_eq, reduceCtorEq, if_false] at ha
        rw [hf] at ha; cases ha; exact ⟨f, by simp [resSize, Op.type]⟩
      · have e := hsz (by simp [Op.type]); subst e
        obtain ⟨f, hf⟩ := cstOut_ok (cst_neq lv ls lf' rv rf' sg)
        simp only [beq_iff_eq, reduceCtorEq, if_false] at ha
        rw [hf] at ha; cases ha; exact ⟨f, by simp [resSize, Op.type]⟩
      -- le ge lt gt
      · have e := hsz (by simp [Op.type]); subst e
        have hh := hsd' rfl
        simp only [beq_iff_eq, reduceCtorEq, if_false] at ha
        rw [cstApi_congr Op.le lv ls lf' sg rv ls rf' sg (by rw [hh.1, cstValue_reading]) (by rw [hh.2, cstValue_reading])] at ha
        obtain ⟨f, hf⟩ := cstOut_ok (cst_cmp Op.le (Or.inr (Or.inl rfl)) lv ls rv sg)
        rw [hf] at ha; cases ha; exact ⟨f, by simp [resSize, Op.type]⟩
      · have e := hsz (by simp [Op.type]); subst e
        have hh := hsd' rfl
        simp only [beq_iff_eq, reduceCtorEq, if_false] at ha
        rw [cstApi_congr Op.ge lv ls lf' sg rv ls rf' sg (by rw [hh.1, cstValue_reading]) (by rw [hh.2, cstValue_reading])] at ha
        obtain ⟨f, hf⟩ := cstOut_ok (cst_cmp Op.ge (Or.inr (Or.inr (Or.inl rfl))) lv ls rv sg)
        rw [hf] at ha; cases ha; exact ⟨f, by simp [resSize, Op.type]⟩
      · have e := hsz (by simp [Op.type]); subst e
        have hh := hsd' rfl
        simp only [beq_iff_eq, reduceCtorEq, if_false] at ha
        rw [cstApi_congr Op.lt lv ls lf' sg rv ls rf' sg (by rw [hh.1, cstValue_reading]) (by rw [hh.2, cstValue_reading])] at ha
        obtain ⟨f, hf⟩ := cstOut_ok (cst_cmp Op.lt (Or.inl rfl) lv ls rv sg)
        rw [hf] at ha; cases ha; exact ⟨f, by simp [resSize, Op.type]⟩
      · have e := hsz (by simp [Op.type]); subst e
        have hh := hsd' rfl
        simp only [beq_iff_eq, reduceCtorEq, if_false] at ha
        rw [cstApi_congr Op.gt lv ls lf' sg rv ls rf' sg (by rw [hh.1, cstValue_reading]) (by rw [hh.2, cstValue_reading])] at ha
        obtain ⟨f, hf⟩ := cstOut_ok (cst_cmp Op.gt (Or.inr (Or.inr (Or.inr rfl))) lv ls rv sg)
        rw [hf] at ha; cases ha; exact ⟨f, by simp [resSize, Op.type]⟩
      -- lsl lsr asr
      · obtain ⟨f, hf⟩ := cstOut_ok (cst_lsl lv ls lf' rv rs rf' sg hl)
        simp only [beq_iff_eq, reduceCtorEq, if_false] at ha
        rw [hf] at ha; cases ha; exact ⟨f, by simp [resSize, Op.type]⟩
      · obtain ⟨f, hf⟩ := cstOut_ok (cst_lsr lv ls rv rs rf' sg hl)
        simp only [beq_self_eq_true, if_true] at ha
        rw [hf] at ha; cases ha; exact ⟨f, by simp [resSize, Op.type]⟩
      · obtain ⟨f, hf⟩ := cstOut_ok (cst_asr lv ls rv rs rf' sg)
        simp only [beq_iff_eq, reduceCtorEq, if_false, beq_self_eq_true, if_true] at ha
        rw [hf] at ha; cases ha; exact ⟨f, by simp [resSize, Op.type]⟩
  -- rotations of a constant by a constant
  have rot : ∀ (o' : Op), (o' = Op.ror ∨ o' = Op.rol) →
      helperRot cfg fuel o' (.cst lv ls lf) (.cst rv rs rf) = .ok res →
      ∃ f, res = .cst (binSem o' sg ls lv rv) ls f := by
    intro o' ho' hh
    cases fuel with
    | zero => rw [helperRot.eq_def] at hh; cases hh
    | succ fuel =>
    rw [helperRot.eq_def] at hh; dsimp only at hh
    simp only [isCst, Bool.and_self, if_true, size_cst, setSf] at hh
    have hm : rv % ls < 2 ^ ls := Nat.lt_of_lt_of_le (Nat.mod_lt _ hls) (Nat.le_of_lt Nat.lt_two_pow_self)
    have hk : ls - rv % ls < 2 ^ ls := Nat.lt_of_le_of_lt (Nat.sub_le _ _) Nat.lt_two_pow_self
    have wm : wrap ls ((rv % ls : Nat) : Int) = rv % ls := wrap_of_lt _ _ hm
    have wk : wrap ls ((ls - rv % ls : Nat) : Int) = ls - rv % ls := wrap_of_lt _ _ hk
    cases fuel with
    | zero =>
      rcases ho' with rfl | rfl
      · simp only [beq_self_eq_true, if_true] at hh
        rw [api.eq_def] at hh; cases hh
      · simp only [beq_iff_eq, reduceCtorEq, if_false] at hh
        rw [api.eq_def] at hh; cases hh
    | succ fuel =>
    rcases ho' with rfl | rfl
    · simp only [beq_self_eq_true, if_true] at hh
      rw [mkCst_v, mkCst_v, api_cst, api_cst] at hh
      simp only [hasSizeCheck, Bool.false_and, Bool.false_eq_true, if_false, beq_self_eq_true, if_true, beq_iff_eq,
        reduceCtorEq] at hh
      obtain ⟨f1, h1⟩ := cstOut_ok (cst_lsr lv ls (wrap ls ((rv % ls : Nat) : Int)) ls (decide (((rv % ls : Nat) : Int) < 0)) sg hl)
      obtain ⟨f2, h2⟩ := cstOut_ok (cst_lsl lv ls false (wrap ls ((ls - rv % ls : Nat) : Int)) ls (decide (((ls - rv % ls : Nat) : Int) < 0)) sg hl)
      rw [h1, h2] at hh
      simp only [bind, Except.bind] at hh
      rw [api_cst] at hh
      simp only [hasSizeCheck, sizesOK, beq_self_eq_true, Bool.true_or, Bool.not_true, Bool.and_false, Bool.false_eq_true,
        if_false, beq_iff_eq, reduceCtorEq] at hh
      have b1 : binSem Op.lsr sg ls lv (wrap ls ((rv % ls : Nat) : Int)) < 2 ^ ls := by
        simp only [binSem]; exact Nat.lt_of_le_of_lt (Nat.shiftRight_le _ _) hl
      have b2 : binSem Op.lsl sg ls lv (wrap ls ((ls - rv % ls : Nat) : Int)) < 2 ^ ls := by
        simp only [binSem]; split
        · exact Nat.two_pow_pos _
        · exact Nat.mod_lt _ (Nat.two_pow_pos _)
      obtain ⟨f3, h3⟩ := cstOut_ok (cst_or _ ls f1 _ f2 sg b1 b2)
      rw [h3] at hh
      cases hh
      refine ⟨f3, ?_⟩
      congr 1
      have hrf := ror_formula lv ls rv hl
      simp only [binSem] at hrf
      rw [wm, wk]
      simp only [binSem]
      rw [← hrf]
      by_cases h0 : rv % ls = 0
      · have : ls - rv % ls ≥ ls := by omega
        simp only [h0, Nat.sub_zero]
        rw [shl_ge_width lv ls ls (Nat.le_refl _)]
        simp
      · have : ¬ (ls - rv % ls ≥ ls) := by omega
        simp only [this, if_false]
    · simp only [beq_iff_eq, reduceCtorEq, if_false] at hh
      rw [mkCst_v, mkCst_v, api_cst, api_cst] at hh
      simp only [hasSizeCheck, Bool.false_and, Bool.false_eq_true, if_false, beq_self_eq_true, if_true, beq_iff_eq,
        reduceCtorEq] at hh
      obtain ⟨f1, h1⟩ := cstOut_ok (cst_lsl lv ls lf (wrap ls ((rv % ls : Nat) : Int)) ls (decide (((rv % ls : Nat) : Int) < 0)) sg hl)
      obtain ⟨f2, h2⟩ := cstOut_ok (cst_lsr lv ls (wrap ls ((ls - rv % ls : Nat) : Int)) ls (decide (((ls - rv % ls : Nat) : Int) < 0)) sg hl)
      rw [h1, h2] at hh
      simp only [bind, Except.bind] at hh
      rw [api_cst] at hh
      simp only [hasSizeCheck, sizesOK, beq_self_eq_true, Bool.true_or, Bool.not_true, Bool.and_false, Bool.false_eq_true,
        if_false, beq_iff_eq, reduceCtorEq] at hh
      have b2 : binSem Op.lsr sg ls lv (wrap ls ((ls - rv % ls : Nat) : Int)) < 2 ^ ls := by
        simp only [binSem]; exact Nat.lt_of_le_of_lt (Nat.shiftRight_le _ _) hl
      have b1 : binSem Op.lsl sg ls lv (wrap ls ((rv % ls : Nat) : Int)) < 2 ^ ls := by
        simp only [binSem]; split
        · exact Nat.two_pow_pos _
        · exact Nat.mod_lt _ (Nat.two_pow_pos _)
      obtain ⟨f3, h3⟩ := cstOut_ok (cst_or _ ls f1 _ f2 sg b1 b2)
      rw [h3] at hh
      cases hh
      refine ⟨f3, ?_⟩
      congr 1
      have hrf := rol_formula lv ls rv hl
      simp only [binSem] at hrf
      rw [wm, wk]
      simp only [binSem]
      rw [← hrf]
      have : ¬ (rv % ls ≥ ls) := by have := Nat.mod_lt rv hls; omega
      simp only [this, if_false]
  -- unsigned comparisons: `ltu`/`geu` clear both flags, then compare
  have ucmp : ∀ (o' : Op), (o' = Op.ltu ∨ o' = Op.geu) → ls = rs →
      helperCmp cfg fuel o' (.cst lv ls lf) (.cst rv rs rf) = .ok res →
      ∃ f, res = .cst (binSem o' sg ls lv rv) 1 f := by
    intro o' ho' e hh
    subst e
    cases fuel with
    | zero => rw [helperCmp.eq_def] at hh; cases hh
    | succ fuel =>
    rw [helperCmp.eq_def] at hh; dsimp only at hh
    simp only [isCst, Bool.and_self, if_true, setSf] at hh
    cases fuel with
    | zero => rw [api.eq_def] at hh; cases hh
    | succ fuel =>
    rw [api_cst] at hh
    rcases ho' with rfl | rfl
    · simp only [beq_self_eq_true, if_true, hasSizeCheck, sizesOK, Bool.true_or, Bool.not_true, Bool.and_false,
        Bool.false_eq_true, if_false, beq_iff_eq, reduceCtorEq] at hh
      obtain ⟨f, hf⟩ := cstOut_ok (cst_ltu lv ls rv sg)
      rw [hf] at hh; cases hh; exact ⟨f, rfl⟩
    · simp only [beq_iff_eq, reduceCtorEq, if_false, hasSizeCheck, sizesOK, beq_self_eq_true, Bool.true_or, Bool.not_true,
        Bool.and_false, Bool.false_eq_true] at hh
      obtain ⟨f, hf⟩ := cstOut_ok (cst_geu lv ls rv sg)
      rw [hf] at hh; cases hh; exact ⟨f, rfl⟩
  -- dispatch of `_operator.__call__`
  cases o <;> simp only at h
  all_goals first
    | (obtain ⟨f, hf⟩ := ucmp _ (Or.inl rfl) (hsz (by simp [Op.type])) h; exact ⟨f, by simpa [resSize, Op.type] using hf⟩)
    | (obtain ⟨f, hf⟩ := ucmp _ (Or.inr rfl) (hsz (by simp [Op.type])) h; exact ⟨f, by simpa [resSize, Op.type] using hf⟩)
    | (obtain ⟨f, hf⟩ := rot _ (Or.inl rfl) h; exact ⟨f, by simpa [resSize, Op.type] using hf⟩)
    | (obtain ⟨f, hf⟩ := rot _ (Or.inr rfl) h; exact ⟨f, by simpa [resSize, Op.type] using hf⟩)
    | (cases h)
    | exact plain _ _ hsd (by simp) (by simp) (by simp) (by simp) (by simp) h
    | exact plain _ _ (by intro hs; simp [signDep] at hs) (by simp) (by simp) (by simp) (by simp) (by simp) h

theorem callUop_cst_sound (fuel : Nat) (o : Op) (v s : Nat) (f : Bool) (res : Expr) (hv : v < 2 ^ s)
    (h : callUop cfg fuel o (.cst v s f) = .ok res) : ∃ f', res = .cst (unSem o s v) s f' := by
  cases fuel with
  | zero => rw [callUop.eq_def] at h; cases h
  | succ fuel =>
  rw [callUop.eq_def] at h; dsimp only at h
  cases o <;> simp only at h <;> try (cases h; done)
  · -- add
    cases h; exact ⟨f, by simp [unSem]⟩
  · -- sub
    cases fuel with
    | zero => rw [apiNeg.eq_def] at h; cases h
    | succ fuel =>
      rw [apiNeg.eq_def] at h; dsimp only at h
      cases h
      exact ⟨_, by rw [mkCst_v, cst_neg v s f hv]⟩
  · -- not
    cases fuel with
    | zero => rw [apiNot.eq_def] at h; cases h
    | succ fuel =>
      rw [apiNot.eq_def] at h; dsimp only at h
      cases h
      exact ⟨_, by rw [mkCst_v, cst_not v s hv]⟩

theorem getitem_cst (fuel : Nat) (v s : Nat) (f : Bool) (a b : Int) :
    getitem cfg (fuel + 1) (.cst v s f) a b =
      (checkSlice s a b >>= fun _ => pure (mkCst ((v >>> a.toNat : Nat) : Int) (b.toNat - a.toNat))) := by
  rw [getitem.eq_def]; rfl

/-- evaluating the parts of a comp to the constants of their ideal values: same keys, same table value -/
theorem mapM_parts_const (ρ : Val) (f : Expr → R Expr) :
    ∀ (ps ps' : List Part),
      (∀ p ∈ ps, ∀ r, f p.2.2 = .ok r → ∃ fl, r = .cst (ideal ρ p.2.2) p.2.2.size fl ∧ ideal ρ p.2.2 < 2 ^ p.2.2.size) →
      (∀ p ∈ ps, p.2.2.size = p.2.1 - p.1) →
      ps.mapM (fun (p : Part) => do let v ← f p.2.2; pure ((p.1, p.2.1, v) : Part)) = .ok ps' →
      AllCst ps' ∧ idealParts ρ ps' = idealParts ρ ps ∧ ps'.length = ps.length := by
  intro ps
  induction ps with
  | nil =>
    intro ps' _ _ h
    simp only [List.mapM_nil, pure, Except.pure] at h
    cases h
    exact ⟨(by intro p hp; cases hp), rfl, rfl⟩
  | cons q tl ih =>
    intro ps' hf hsz h
    rw [List.mapM_cons] at h
    cases hq : f q.2.2 with
    | error e => rw [hq] at h; cases h
    | ok v =>
      rw [hq] at h
      simp only [bind, Except.bind, pure, Except.pure] at h
      cases ht : List.mapM (fun (p : Part) => do let v ← f p.2.2; pure ((p.1, p.2.1, v) : Part)) tl with
      | error e =>
        simp only [bind, Except.bind, pure, Except.pure] at ht
        rw [ht] at h; cases h
      | ok tl' =>
        simp only [bind, Except.bind, pure, Except.pure] at ht
        rw [ht] at h
        cases h
        obtain ⟨h1, h2, h3⟩ := ih tl' (fun p hp => hf p (List.mem_cons_of_mem _ hp))
          (fun p hp => hsz p (List.mem_cons_of_mem _ hp)) (by simpa [bind, Except.bind, pure, Except.pure] using ht)
        obtain ⟨fl, rfl, hlt⟩ := hf q List.mem_cons_self v hq
        refine ⟨?_, ?_, by simp [h3]⟩
        · intro p hp
          rcases List.mem_cons.mp hp with rfl | hp
          · rfl
          · exact h1 p hp
        · rw [idealParts_cons, idealParts_cons, h2]
          congr 1
          simp only [contrib, ideal]
          rw [Nat.mod_eq_of_lt hlt]

theorem checkSlice_of {n : Nat} {a b : Int} (h0 : 0 ≤ a) (hab : a < b) (hbn : b ≤ n) : checkSlice n a b = .ok () := by
  unfold checkSlice
  have h1 : ¬ ((decide (a < 0) || decide (b > (n : Int))) = true) := by
    simp only [Bool.or_eq_true, decide_eq_true_eq]; omega
  have h2 : ¬ (b ≤ a) := by omega
  rw [if_neg h1, if_neg h2]

theorem ideal_lt_of_WF_cst {ρ : Val} {v s : Nat} {f : Bool} (h : WF (.cst v s f)) : ideal ρ (.cst v s f) = v := by
  simp only [ideal]; exact Nat.mod_eq_of_lt h.2

theorem groundParts_iff (env : Env) (ps : List Part) : GroundParts env ps ↔ ∀ p ∈ ps, Ground env p.2.2 := by
  induction ps with
  | nil => simp [GroundParts]
  | cons q tl ih => obtain ⟨a, b, e⟩ := q; simp only [GroundParts, ih, List.mem_cons, forall_eq_or_imp]

theorem signOKParts_iff (ps : List Part) : SignOKParts ps ↔ ∀ p ∈ ps, SignOK p.2.2 := by
  induction ps with
  | nil => simp [SignOKParts]
  | cons q tl ih => obtain ⟨a, b, e⟩ := q; simp only [SignOKParts, ih, List.mem_cons, forall_eq_or_imp]

/-- **eval_sound**: under a total constant environment `eval` returns the constant of the ideal value, of the
    width of the expression, carrying a sign flag under which it reads as the expression is declared. -/
theorem eval_const (env : Env) (henv : EnvOK env) :
    ∀ (fuel : Nat) (e r : Expr), WF e → Ground env e → SignOK e → eval cfg fuel env e = .ok r →
      ∃ f, r = .cst (ideal (envVal env) e) e.size f ∧ ideal (envVal env) e < 2 ^ e.size ∧
        ∀ s, SfIs s e → cstValue (ideal (envVal env) e) e.size f = reading s e.size (ideal (envVal env) e) := by
  intro fuel
  induction fuel with
  | zero => intro e r _ _ _ h; rw [eval.eq_def] at h; cases h
  | succ fuel ih =>
    intro e r he hg hs h
    have hwr := eval_width cfg env henv (fuel + 1) e he r h
    rw [eval.eq_def] at h; dsimp only at h
    cases e with
    | cst v s f =>
      cases h
      have hv := he.2
      refine ⟨decide (cstValue v s f < 0), ?_, (by simp only [ideal, size_cst]; rw [Nat.mod_eq_of_lt hv]; exact hv), ?_⟩
      · rw [mkCst_v, wrap_cstValue v s f hv]; simp only [ideal, size_cst, Nat.mod_eq_of_lt hv]
      · intro s' hs'
        simp only [ideal, size_cst, Nat.mod_eq_of_lt hv]
        rw [cstValue_reeval v s f hv]
        exact cst_leaf_reading v s f s' hs'
    | reg n s f =>
      dsimp only at h
      obtain ⟨v, f0, hlk, hv⟩ := hg
      rw [hlk] at h
      cases h
      have hi : ideal (envVal env) (.reg n s f) = v := by
        simp only [ideal, envVal, hlk]; exact Nat.mod_eq_of_lt hv
      refine ⟨f, (by rw [hi]; rfl), (by rw [hi]; exact hv), ?_⟩
      intro s' hs'
      simp only [SfIs] at hs'
      subst hs'
      rw [hi]; exact cstValue_reading v s f
    | ext n s f =>
      dsimp only at h
      obtain ⟨v, f0, hlk, hv⟩ := hg
      rw [hlk] at h
      cases h
      have hi : ideal (envVal env) (.ext n s f) = v := by
        simp only [ideal, envVal, hlk]; exact Nat.mod_eq_of_lt hv
      refine ⟨f, (by rw [hi]; rfl), (by rw [hi]; exact hv), ?_⟩
      intro s' hs'
      simp only [SfIs] at hs'
      subst hs'
      rw [hi]; exact cstValue_reading v s f
    | slc x pos size sf ref ety =>
      dsimp only at h
      simp only [WF] at he
      simp only [Ground] at hg
      simp only [SignOK] at hs
      cases hx : eval cfg fuel env x with
      | error e => rw [hx] at h; cases h
      | ok n =>
        rw [hx] at h
        simp only [bind, Except.bind] at h
        obtain ⟨fx, rfl, hxlt, _⟩ := ih x n he.1 hg hs hx
        cases fuel with
        | zero => rw [getitem.eq_def] at h; cases h
        | succ fuel =>
        rw [getitem_cst] at h
        have hck' : checkSlice x.size (↑pos) (↑pos + ↑size) = .ok () :=
          checkSlice_of (by omega) (by omega) (by omega)
        rw [hck'] at h
        simp only [bind, Except.bind, pure, Except.pure] at h
        cases h
        have e1 : ((pos : Int) + (size : Int)).toNat - (pos : Int).toNat = size := by omega
        have e2 : (pos : Int).toNat = pos := by omega
        have hval : ideal (envVal env) (.slc x pos size sf ref ety) = (ideal (envVal env) x >>> pos) % 2 ^ size := by
          simp only [ideal]
        refine ⟨sf, ?_, (by rw [hval]; exact Nat.mod_lt _ (Nat.two_pow_pos _)), ?_⟩
        · rw [mkCst_v, e1, e2, wrap_of_nat, hval]; rfl
        · intro s' hs'
          simp only [SfIs] at hs'
          subst hs'
          exact cstValue_reading _ _ _
    | comp size sf parts =>
      dsimp only at h
      simp only [WF] at he
      obtain ⟨hpos, ht, hwp⟩ := he
      have hwp' := (WFParts_iff parts).mp hwp
      simp only [Ground] at hg
      simp only [SignOK] at hs
      have hg' := (groundParts_iff env parts).mp hg
      have hs' := (signOKParts_iff parts).mp hs
      cases hp : List.mapM (fun (p : Part) => do let v ← eval cfg fuel env p.2.2; pure ((p.1, p.2.1, v) : Part)) parts with
      | error e => rw [hp] at h; cases h
      | ok parts' =>
        rw [hp] at h
        simp only [bind, Except.bind] at h
        obtain ⟨hall, hval, hlen⟩ := mapM_parts_const (envVal env) (eval cfg fuel env) parts parts'
          (by
            intro p hpm r hr
            obtain ⟨f, hf, hlt, _⟩ := ih p.2.2 r (hwp' p hpm) (hg' p hpm) (hs' p hpm) hr
            exact ⟨f, hf, hlt⟩)
          (fun p hpm => (ht.1 p hpm).2.2) hp
        obtain ⟨h1, h2, h3⟩ := mapM_parts_spec (eval cfg fuel env)
          (fun e r he h => eval_width cfg env henv fuel e he r h) parts parts' hwp' hp
        have ht' : Tiles size parts' := ⟨h2 size ht.1, fun b hb => by show cnt b parts' = 1; rw [h3 b]; exact ht.2 b hb⟩
        have hne : parts'.length ≠ 0 := by
          intro h0
          have := ht'.2 0 hpos
          have e0 : parts' = [] := List.length_eq_zero_iff.mp h0
          rw [e0] at this
          simp at this
        obtain ⟨k, hk⟩ : ∃ k, parts'.length = k + 1 := ⟨parts'.length - 1, by omega⟩
        obtain ⟨v, f, hr, hv, hvv⟩ := restruct_allcst (envVal env) size k parts' hk ht' h1 hall hpos
        have hrs : restruct parts' = [(0, size, .cst v size f)] := by unfold restruct; rw [hk]; exact hr
        rw [hrs] at h
        simp only [findKey, beq_self_eq_true, Bool.and_self, if_true] at h
        cases h
        have hid : ideal (envVal env) (.comp size sf parts) = v := by
          simp only [ideal]
          rw [← hval, ← hvv]; exact Nat.mod_eq_of_lt hv
        refine ⟨sf, (by rw [hid]; rfl), (by rw [hid]; exact hv), ?_⟩
        intro s' hs'
        simp only [SfIs] at hs'
        subst hs'
        rw [hid]; exact cstValue_reading _ _ _
    | tst t l r' size sf =>
      dsimp only at h
      simp only [WF] at he
      obtain ⟨hpos, htw, hlw, hrw, ht1, hls, hrs⟩ := he
      simp only [Ground] at hg
      simp only [SignOK] at hs
      cases hc : eval cfg fuel env t with
      | error e => rw [hc] at h; cases h
      | ok c =>
        rw [hc] at h
        simp only [bind, Except.bind] at h
        cases hl : eval cfg fuel env l with
        | error e => rw [hl] at h; cases h
        | ok l' =>
          rw [hl] at h
          simp only at h
          cases hr : eval cfg fuel env r' with
          | error e => rw [hr] at h; cases h
          | ok r'' =>
            rw [hr] at h
            simp only at h
            obtain ⟨fc, rfl, hclt, _⟩ := ih t c htw hg.1 hs.1 hc
            obtain ⟨fl, rfl, hllt, hlrd⟩ := ih l l' hlw hg.2.1 hs.2.1 hl
            obtain ⟨fr, rfl, hrlt, hrrd⟩ := ih r' r'' hrw hg.2.2 hs.2.2 hr
            simp only [pure, Except.pure] at h
            have hc2 : ideal (envVal env) t < 2 := by rw [ht1] at hclt; simpa using hclt
            by_cases hv1 : ideal (envVal env) t = 1
            · simp only [hv1, beq_self_eq_true, if_true] at h
              cases h
              have hid : ideal (envVal env) (.tst t l r' size sf) = ideal (envVal env) l := by
                simp only [ideal, hv1]; simp
              refine ⟨fl, (by rw [hid, hls]; rfl), (by rw [hid]; simpa [hls] using hllt), ?_⟩
              intro s' hs'
              simp only [SfIs] at hs'
              have := hlrd s' hs'.1
              rw [hid]; simpa [hls] using this
            · have hv0 : ideal (envVal env) t = 0 := by omega
              have hne : ¬ ((ideal (envVal env) t == 1) = true) := by simp [hv0]
              simp only [hne, if_false] at h
              cases h
              have hid : ideal (envVal env) (.tst t l r' size sf) = ideal (envVal env) r' := by
                simp only [ideal, hv0]; simp
              refine ⟨fr, (by rw [hid, hrs]; rfl), (by rw [hid]; simpa [hrs] using hrlt), ?_⟩
              intro s' hs'
              simp only [SfIs] at hs'
              have := hrrd s' hs'.2
              rw [hid]; simpa [hrs] using this
    | op o l r' size sf prop =>
      dsimp only at h
      obtain ⟨hpos, hp, hlw, hrw, hsz, heq⟩ := (WF_op_iff _ _ _ _ _ _).mp he
      simp only [Ground] at hg
      simp only [SignOK] at hs
      cases hl : eval cfg fuel env l with
      | error e => rw [hl] at h; cases h
      | ok l' =>
        rw [hl] at h
        simp only [bind, Except.bind] at h
        cases hr : eval cfg fuel env r' with
        | error e => rw [hr] at h; cases h
        | ok r'' =>
          rw [hr] at h
          simp only at h
          obtain ⟨fl, rfl, hllt, hlrd⟩ := ih l l' hlw hg.1 hs.1 hl
          obtain ⟨fr, rfl, hrlt, hrrd⟩ := ih r' r'' hrw hg.2 hs.2.1 hr
          cases hcall : callOp cfg fuel o (.cst (ideal (envVal env) l) l.size fl) (.cst (ideal (envVal env) r') r'.size fr) with
          | error e => rw [hcall] at h; cases h
          | ok res =>
            rw [hcall] at h
            simp only [pure, Except.pure] at h
            cases h
            obtain ⟨f, hres⟩ := callOp_cst_sound cfg fuel o _ _ fl _ _ fr l.sf res hllt hrlt (WF_size_pos l hlw) heq
              (by intro hsd; have := hs.2.2 hsd; exact ⟨hlrd _ this.1, hrrd _ this.2⟩) hcall
            subst hres
            have hrs : resSize o (.cst (ideal (envVal env) l) l.size fl) = size := by
              rw [hsz]; exact resSize_congr o rfl
            have hid : ideal (envVal env) (.op o l r' size sf prop) = binSem o l.sf l.size (ideal (envVal env) l) (ideal (envVal env) r') := by
              simp only [ideal]
            have hw2 := hwr.1
            simp only [setSf, WF] at hw2
            refine ⟨sf, (by rw [hid, ← hrs]; rfl), (by rw [hid, ← hrs]; exact hw2.2), ?_⟩
            intro s' hs'
            simp only [SfIs] at hs'
            subst hs'
            exact cstValue_reading _ _ _
    | uop o r' size sf prop =>
      dsimp only at h
      simp only [WF] at he
      simp only [Ground] at hg
      simp only [SignOK] at hs
      cases hr : eval cfg fuel env r' with
      | error e => rw [hr] at h; cases h
      | ok r'' =>
        rw [hr] at h
        simp only [bind, Except.bind] at h
        obtain ⟨fr, rfl, hrlt, _⟩ := ih r' r'' he.2.1 hg hs hr
        cases hcall : callUop cfg fuel o (.cst (ideal (envVal env) r') r'.size fr) with
        | error e => rw [hcall] at h; cases h
        | ok res =>
          rw [hcall] at h
          simp only [pure, Except.pure] at h
          cases h
          obtain ⟨f, hres⟩ := callUop_cst_sound cfg fuel o _ _ fr res hrlt hcall
          subst hres
          have hid : ideal (envVal env) (.uop o r' size sf prop) = unSem o r'.size (ideal (envVal env) r') := by
            simp only [ideal]
          have hw2 := hwr.1
          simp only [setSf, WF] at hw2
          refine ⟨sf, (by rw [hid, he.2.2]; rfl), (by rw [hid, he.2.2]; exact hw2.2), ?_⟩
          intro s' hs'
          simp only [SfIs] at hs'
          subst hs'
          exact cstValue_reading _ _ _
    | ptr b sg d s f => exact absurd hg (by simp [Ground])
    | mem a s f en ms => exact absurd hg (by simp [Ground])
    | vec l s f => exact absurd hg (by simp [Ground])
    | vecw l s f => exact absurd hg (by simp [Ground])
    | top s f => exact absurd hg (by simp [Ground])

end Amoco
