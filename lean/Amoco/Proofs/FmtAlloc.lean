/-
  Allocation bounds for the line-oriented readers (C20: "no unbounded allocation"): everything
  `HEX.__init__` keeps is bounded by the length of the input — at most one record per input line and
  at most one data byte per two input characters.
-/
import Amoco.Model.HexSrec

namespace Amoco.Fmt

theorem unhexlify_length : ∀ (l r : List Nat), unhexlify l = .ok r → 2 * r.length = l.length
  | [], r, h => by simp [unhexlify] at h; subst h; rfl
  | [_], r, h => by simp [unhexlify] at h
  | a :: b :: t, r, h => by
    unfold unhexlify at h
    split at h
    · split at h
      · rename_i r' hr
        simp only [Except.ok.injEq] at h; subst h
        have := unhexlify_length t r' hr
        simp only [List.length_cons]; omega
      · simp at h
    · simp at h

theorem pySlice_length_le {α} (l : List α) (a b : Int) : (pySlice l a b).length ≤ l.length := by
  unfold pySlice
  rw [List.length_take, List.length_drop]; omega

theorem lstrip_length_le (l : List Nat) : (lstrip l).length ≤ l.length := by
  unfold lstrip
  exact (List.dropWhile_sublist _).length_le

theorem rstrip_length_le (l : List Nat) : (rstrip l).length ≤ l.length := by
  unfold rstrip
  rw [List.length_reverse]
  have := (List.dropWhile_sublist isSpace (l := l.reverse)).length_le
  rwa [List.length_reverse] at this

theorem strip_length_le (l : List Nat) : (strip l).length ≤ l.length := by
  unfold strip
  exact Nat.le_trans (rstrip_length_le _) (lstrip_length_le _)

end Amoco.Fmt

namespace Amoco.Fmt

theorem bind_ok {α β} (x : Py α) (f : α → Py β) (r : β) (h : (x >>= f) = .ok r) :
    ∃ a, x = .ok a ∧ f a = .ok r := by
  cases x with
  | error e => simp [bind, Except.bind] at h
  | ok a => exact ⟨a, rfl, h⟩

theorem toHexError_ok {α} (x : Py α) (r : α) (h : toHexError x = .ok r) : x = .ok r := by
  unfold toHexError at h
  split at h <;> simp_all

theorem toSrecError_ok {α} (x : Py α) (r : α) (h : toSrecError x = .ok r) : x = .ok r := by
  unfold toSrecError at h
  split at h <;> simp_all

/-- a HEX record keeps at most one data byte per two characters of its line -/
theorem hexLineSet_data_le (raw : List Nat) (l : HexLine) (h : hexLineSet raw = .ok l) :
    2 * l.data.length ≤ raw.length := by
  unfold hexLineSet at h
  have h1 := toHexError_ok _ _ h
  unfold hexLineBody at h1
  obtain ⟨_, _, h1⟩ := bind_ok _ _ _ h1
  obtain ⟨count, _, h1⟩ := bind_ok _ _ _ h1
  obtain ⟨address, _, h1⟩ := bind_ok _ _ _ h1
  obtain ⟨code, _, h1⟩ := bind_ok _ _ _ h1
  obtain ⟨data, hd, h1⟩ := bind_ok _ _ _ h1
  obtain ⟨s, _, h1⟩ := bind_ok _ _ _ h1
  obtain ⟨last, _, h1⟩ := bind_ok _ _ _ h1
  obtain ⟨_, _, h1⟩ := bind_ok _ _ _ h1
  obtain ⟨ext, _, h1⟩ := bind_ok _ _ _ h1
  simp only [pure, Except.pure, Except.ok.injEq] at h1
  subst h1
  have := unhexlify_length _ _ hd
  have := pySlice_length_le (strip raw) 9 (9 + 2 * count)
  have := strip_length_le raw
  simp only; omega

theorem srecLineSet_data_le (raw : List Nat) (l : SrecLine) (h : srecLineSet raw = .ok l) :
    2 * l.data.length ≤ raw.length := by
  unfold srecLineSet at h
  have h1 := toSrecError_ok _ _ h
  unfold srecLineBody at h1
  obtain ⟨_, _, h1⟩ := bind_ok _ _ _ h1
  obtain ⟨ty, _, h1⟩ := bind_ok _ _ _ h1
  obtain ⟨count, _, h1⟩ := bind_ok _ _ _ h1
  obtain ⟨address, _, h1⟩ := bind_ok _ _ _ h1
  obtain ⟨data, hd, h1⟩ := bind_ok _ _ _ h1
  obtain ⟨_, _, h1⟩ := bind_ok _ _ _ h1
  obtain ⟨s, _, h1⟩ := bind_ok _ _ _ h1
  obtain ⟨last, _, h1⟩ := bind_ok _ _ _ h1
  split at h1
  · simp [throw, throwThe, MonadExceptOf.throw, bind, Except.bind] at h1
  · simp only [pure, Except.pure, Except.ok.injEq] at h1
    subst h1
    have := unhexlify_length _ _ hd
    have := pySlice_length_le (strip raw) (4 + srecSize ty count) (-2)
    have := strip_length_le raw
    simp only; omega

/-- `readlines` neither invents nor loses characters, and never yields more lines than characters -/
theorem readlinesAux_sum : ∀ (d cur : List Nat),
    ((readlinesAux d cur).map List.length).sum = d.length + cur.length ∧
    (readlinesAux d cur).length ≤ d.length + cur.length
  | [], cur => by
    unfold readlinesAux
    cases cur <;> simp
  | c :: t, cur => by
    unfold readlinesAux
    split
    · have := readlinesAux_sum t []
      simp only [List.map_cons, List.sum_cons, List.length_reverse, List.length_cons, List.length_nil] at this ⊢
      omega
    · have := readlinesAux_sum t (c :: cur)
      simp only [List.length_cons] at this ⊢
      omega

theorem readlines_sum (d : List Nat) :
    ((readlines d).map List.length).sum = d.length ∧ (readlines d).length ≤ d.length := by
  have := readlinesAux_sum d []
  simpa [readlines] using this

/-- data bytes kept by a list of HEX records -/
def hexDataBytes (ls : List HexLine) : Nat := (ls.map (fun l => l.data.length)).sum
def srecDataBytes (ls : List SrecLine) : Nat := (ls.map (fun l => l.data.length)).sum

theorem hexDataBytes_reverse (ls : List HexLine) : hexDataBytes ls.reverse = hexDataBytes ls := by
  unfold hexDataBytes; rw [List.map_reverse, List.sum_reverse]

theorem srecDataBytes_reverse (ls : List SrecLine) : srecDataBytes ls.reverse = srecDataBytes ls := by
  unfold srecDataBytes; rw [List.map_reverse, List.sum_reverse]

theorem hexInitLoop_bound : ∀ (raws : List (List Nat)) (acc h : HexFile),
    hexInitLoop raws acc = .ok h →
    h.lines.length = acc.lines.length + raws.length ∧
    2 * hexDataBytes h.lines ≤ 2 * hexDataBytes acc.lines + (raws.map List.length).sum
  | [], acc, h, e => by
    simp only [hexInitLoop, Except.ok.injEq] at e
    subst e
    simp [hexDataBytes_reverse]
  | raw :: rest, acc, h, e => by
    unfold hexInitLoop at e
    split at e
    · simp at e
    · rename_i l hl
      have hb := hexLineSet_data_le raw l hl
      have ih := hexInitLoop_bound rest _ h e
      have key : ∀ a : HexFile, hexDataBytes ({ a with lines := l :: a.lines } : HexFile).lines = l.data.length + hexDataBytes a.lines := by
        intro a; simp [hexDataBytes]
      simp only [List.map_cons, List.sum_cons, List.length_cons] at ih ⊢
      revert ih
      split <;> (try split) <;> intro ih <;> simp [hexDataBytes] at ih ⊢ <;> omega

theorem srecInitLoop_bound : ∀ (raws : List (List Nat)) (acc h : SrecFile),
    srecInitLoop raws acc = .ok h →
    h.lines.length ≤ acc.lines.length + raws.length ∧
    2 * srecDataBytes h.lines ≤ 2 * srecDataBytes acc.lines + (raws.map List.length).sum
  | [], acc, h, e => by
    simp only [srecInitLoop, Except.ok.injEq] at e
    subst e
    simp [srecDataBytes_reverse]
  | raw :: rest, acc, h, e => by
    unfold srecInitLoop at e
    split at e
    · have ih := srecInitLoop_bound rest acc h e
      simp only [List.map_cons, List.sum_cons, List.length_cons] at ih ⊢
      omega
    · split at e
      · simp at e
      · rename_i l hl
        have hb := srecLineSet_data_le raw l hl
        have ih := srecInitLoop_bound rest _ h e
        simp only [List.map_cons, List.sum_cons, List.length_cons] at ih ⊢
        revert ih
        split <;> (try split) <;> (try split) <;> intro ih <;> simp [srecDataBytes] at ih ⊢ <;> omega

end Amoco.Fmt
