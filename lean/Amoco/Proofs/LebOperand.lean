/-
  Helper lemmas for the LEB128 operand helper model (C05): the `for` loop of `read_leb128` stops at
  the first byte with bit 7 clear, so its outcome depends only on the bytes up to and including it.
-/
import Amoco.Model.LebOperand

namespace Amoco.Leb128

/-- bit 7 of a byte -/
abbrev cont (b : UInt8) : Prop := b.toNat &&& 0x80 ≠ 0

theorem readLoop_count_le (l : List UInt8) : ∀ r s c last,
    c ≤ (readLoop l r s c last).count ∧ (readLoop l r s c last).count ≤ c + l.length := by
  induction l with
  | nil => intro r s c last; simp [readLoop]
  | cons b bs ih =>
    intro r s c last
    simp only [readLoop]
    split
    · simp
    · have := ih (r ||| ((b.toNat &&& 0x7F) <<< s)) (s + 7) (c + 1) b
      simp only [List.length_cons]; omega

theorem readLoop_count_pos (b : UInt8) (bs : List UInt8) (r s c : Nat) (last : UInt8) :
    c + 1 ≤ (readLoop (b :: bs) r s c last).count := by
  simp only [readLoop]
  split
  · simp
  · have := (readLoop_count_le bs (r ||| ((b.toNat &&& 0x7F) <<< s)) (s + 7) (c + 1) b).1
    omega

/-- the loop variable after the loop is the byte at index `count - c - 1`. -/
theorem readLoop_last (l : List UInt8) : ∀ r s c last, l ≠ [] →
    l[(readLoop l r s c last).count - c - 1]? = some (readLoop l r s c last).last := by
  induction l with
  | nil => intro r s c last h; exact absurd rfl h
  | cons b bs ih =>
    intro r s c last _
    simp only [readLoop]
    split
    · simp
    · cases bs with
      | nil => simp [readLoop]
      | cons b2 bs2 =>
        have h1 := ih (r ||| ((b.toNat &&& 0x7F) <<< s)) (s + 7) (c + 1) b (by simp)
        have h2 := readLoop_count_pos b2 bs2 (r ||| ((b.toNat &&& 0x7F) <<< s)) (s + 7) (c + 1) b
        generalize (readLoop (b2 :: bs2) (r ||| ((b.toNat &&& 0x7F) <<< s)) (s + 7) (c + 1) b) = o at h1 h2 ⊢
        have : o.count - c - 1 = (o.count - (c + 1) - 1) + 1 := by omega
        rw [this, List.getElem?_cons_succ]; exact h1

/-- **tail independence of the loop**: when the loop stopped on a terminating byte, running it on the
    bytes it counted followed by anything else gives the same state. -/
theorem readLoop_take_append (l : List UInt8) : ∀ r s c last (t : List UInt8),
    ¬ cont (readLoop l r s c last).last → l ≠ [] →
    readLoop (l.take ((readLoop l r s c last).count - c) ++ t) r s c last = readLoop l r s c last := by
  induction l with
  | nil => intro r s c last t _ h; exact absurd rfl h
  | cons b bs ih =>
    intro r s c last t hterm _
    by_cases hb : b.toNat &&& 0x80 = 0
    · simp [readLoop, hb]
    · have e : readLoop (b :: bs) r s c last
          = readLoop bs (r ||| ((b.toNat &&& 0x7F) <<< s)) (s + 7) (c + 1) b := by
        simp [readLoop, hb]
      rw [e] at hterm ⊢
      cases bs with
      | nil => simp [readLoop] at hterm; exact absurd hterm hb
      | cons b2 bs2 =>
        have hpos := readLoop_count_pos b2 bs2 (r ||| ((b.toNat &&& 0x7F) <<< s)) (s + 7) (c + 1) b
        have h1 := ih (r ||| ((b.toNat &&& 0x7F) <<< s)) (s + 7) (c + 1) b t hterm (by simp)
        generalize (readLoop (b2 :: bs2) (r ||| ((b.toNat &&& 0x7F) <<< s)) (s + 7) (c + 1) b) = o at h1 hpos hterm ⊢
        have : o.count - c = (o.count - (c + 1)) + 1 := by omega
        rw [this, List.take_succ_cons, List.cons_append]
        simp only [readLoop, hb, if_false]
        exact h1

/-- **truncation**: on a proper non-empty prefix of the counted bytes the loop ends on a continuation byte. -/
theorem readLoop_truncated (l : List UInt8) : ∀ r s c last (k : Nat),
    ¬ cont (readLoop l r s c last).last → 0 < k → k < (readLoop l r s c last).count - c →
    cont (readLoop (l.take k) r s c last).last := by
  induction l with
  | nil => intro r s c last k _ hk hlt; simp [readLoop] at hlt
  | cons b bs ih =>
    intro r s c last k hterm hk hlt
    by_cases hb : b.toNat &&& 0x80 = 0
    · simp [readLoop, hb] at hlt; omega
    · have e : readLoop (b :: bs) r s c last
          = readLoop bs (r ||| ((b.toNat &&& 0x7F) <<< s)) (s + 7) (c + 1) b := by
        simp [readLoop, hb]
      rw [e] at hterm hlt
      obtain ⟨k', rfl⟩ : ∃ k', k = k' + 1 := ⟨k - 1, by omega⟩
      rw [List.take_succ_cons]
      simp only [readLoop, hb, if_false]
      by_cases hk' : k' = 0
      · subst hk'; simpa [readLoop] using hb
      · exact ih _ _ _ _ k' hterm (by omega) (by omega)

end Amoco.Leb128

namespace Amoco.Leb128

/-- value delivered from the final loop state -/
def valOf (signed : Bool) (o : LoopOut) : Int :=
  if signed && (o.last.toNat &&& 0x40 != 0) then (o.result : Int) - (2 : Int) ^ o.shift else (o.result : Int)

/-- the helper as a function of the bytes from `offset` on -/
def lebOpL (signed : Bool) (l : List UInt8) : Option (Int × Nat) :=
  if l = [] then none
  else if (readLoop l 0 0 0 0).last.toNat &&& 0x80 ≠ 0 then none
  else some (valOf signed (readLoop l 0 0 0 0), (readLoop l 0 0 0 0).count)

theorem lebOperand_eq (signed : Bool) (data : List UInt8) (off : Nat) :
    lebOperand signed data off = lebOpL signed (data.drop off) := by
  unfold lebOperand lebOpL
  by_cases hlen : data.length ≤ off
  · simp [hlen, List.drop_eq_nil_iff.mpr hlen]
  · have hne : data.drop off ≠ [] := by
      intro h; exact hlen (List.drop_eq_nil_iff.mp h)
    simp only [hlen, if_false, hne]
    have hl := readLoop_last (data.drop off) 0 0 0 0 hne
    obtain ⟨b, bs, hd⟩ : ∃ b bs, data.drop off = b :: bs := by
      cases h : data.drop off with
      | nil => exact absurd h hne
      | cons b bs => exact ⟨b, bs, rfl⟩
    have hpos := readLoop_count_pos b bs 0 0 0 0
    rw [← hd] at hpos
    simp only [readLeb, hd]
    rw [← hd]
    generalize readLoop (data.drop off) 0 0 0 0 = o at hl hpos ⊢
    have hidx : data[off + o.count - 1]? = some o.last := by
      rw [List.getElem?_drop] at hl
      have : off + (o.count - 0 - 1) = off + o.count - 1 := by omega
      rw [this] at hl; exact hl
    by_cases hs : (signed && (o.last.toNat &&& 0x40 != 0)) = true
    · simp [hs, hidx, valOf]
    · simp [hs, hidx, valOf]

theorem lebOpL_bounds (signed : Bool) (l : List UInt8) (v : Int) (n : Nat)
    (h : lebOpL signed l = some (v, n)) : 1 ≤ n ∧ n ≤ l.length := by
  unfold lebOpL at h
  split at h
  · simp at h
  · rename_i hne
    split at h
    · simp at h
    · simp only [Option.some.injEq, Prod.mk.injEq] at h
      obtain ⟨b, bs, rfl⟩ : ∃ b bs, l = b :: bs := by
        cases l with
        | nil => exact absurd rfl hne
        | cons b bs => exact ⟨b, bs, rfl⟩
      have h1 := readLoop_count_pos b bs 0 0 0 0
      have h2 := (readLoop_count_le (b :: bs) 0 0 0 0).2
      omega

theorem lebOpL_take_append (signed : Bool) (l : List UInt8) (v : Int) (n : Nat)
    (h : lebOpL signed l = some (v, n)) (t : List UInt8) :
    lebOpL signed (l.take n ++ t) = some (v, n) := by
  have hb := lebOpL_bounds signed l v n h
  unfold lebOpL at h ⊢
  split at h
  · simp at h
  · rename_i hne
    split at h
    · simp at h
    · rename_i hterm
      simp only [Option.some.injEq, Prod.mk.injEq] at h
      have hta := readLoop_take_append l 0 0 0 0 t hterm hne
      rw [Nat.sub_zero, h.2] at hta
      have hne' : l.take n ++ t ≠ [] := by
        intro hh
        have := congrArg List.length hh
        simp only [List.length_append, List.length_take, List.length_nil] at this
        omega
      simp only [hne', if_false, hta]
      simp only [hterm, if_false, h.1, h.2]

theorem lebOpL_truncated (signed : Bool) (l : List UInt8) (v : Int) (n : Nat)
    (h : lebOpL signed l = some (v, n)) (k : Nat) (hk : k < n) :
    lebOpL signed (l.take k) = none := by
  unfold lebOpL at h ⊢
  split at h
  · simp at h
  · split at h
    · simp at h
    · rename_i hterm
      simp only [Option.some.injEq, Prod.mk.injEq] at h
      by_cases hk0 : k = 0
      · subst hk0; simp
      · have := readLoop_truncated l 0 0 0 0 k hterm (by omega) (by rw [Nat.sub_zero, h.2]; exact hk)
        split
        · rfl
        · first
          | rfl
          | (rw [if_pos this])

end Amoco.Leb128
