/-
  Helper lemmas for C18: vertex insertion in instruction-index space.

  The support zone of a graph whose blocks are runs of one stream is a sorted list of disjoint index
  intervals `(s, e)`; `absAdd` is `add_vertex` on that representation (edges stay pairs of addresses,
  through an injective address map `A`).  `Spec` is what one insertion guarantees; it is proved by
  induction on the recursion of `absAdd` (`absAdd_spec`).  `Proofs/Cfg.lean` shows that the model
  `addVertex` computes exactly `absAdd` on represented zones.
-/
import Amoco.Model.Cfg

namespace Amoco.Cfg

abbrev Iv := Nat × Nat
abbrev Edges := List (Nat × Nat)

/-- sorted, pairwise disjoint, non-empty intervals inside `[0, n]` -/
def IvsOK (n : Nat) (ivs : List Iv) : Prop :=
  (∀ iv ∈ ivs, iv.1 < iv.2 ∧ iv.2 ≤ n) ∧ ivs.Pairwise (fun a b => a.2 ≤ b.1)

/-- instruction `k` is in some stored block -/
def cov (ivs : List Iv) (k : Nat) : Prop := ∃ iv ∈ ivs, iv.1 ≤ k ∧ k < iv.2

/-- fall-through edge at position `p`: a block ends at `p`, a block starts at `p`, and the edge
    between them is present -/
def fall (A : Nat → Nat) (ivs : List Iv) (E : Edges) (p : Nat) : Prop :=
  ∃ s1 e2, (s1, p) ∈ ivs ∧ (p, e2) ∈ ivs ∧ (A s1, A p) ∈ E

/-! ## the algorithm on intervals -/

def absGap (A : Nat → Nat) (rec : List Iv × Edges → Nat → Nat → Option (List Iv × Edges))
    (E : Edges) (s e : Nat) (pre post : List Iv) : Option (List Iv × Edges) :=
  match post with
  | [] => some (pre ++ [(s, e)], E)
  | (ns, ne) :: post' =>
    if ns < e then
      match rec (pre ++ (s, ns) :: (ns, ne) :: post', E) ns e with
      | some (ivs2, E2) => some (ivs2, addEdge E2 (A s, A ns))
      | none => none
    else some (pre ++ (s, e) :: (ns, ne) :: post', E)

def transfer (from_ to_ : Nat) (succ : List Nat) (E : Edges) : Edges :=
  succ.foldl (fun es t => removeEdge (addEdge es (to_, t)) (from_, t)) E

def absAdd (A : Nat → Nat) : Nat → List Iv × Edges → Nat → Nat → Option (List Iv × Edges)
  | 0, _, _, _ => none
  | f + 1, (ivs, E), s, e =>
    let pre := ivs.takeWhile (fun iv => iv.1 ≤ s)
    let post := ivs.dropWhile (fun iv => iv.1 ≤ s)
    match pre.getLast? with
    | none => absGap A (absAdd A f) E s e pre post
    | some (os, oe) =>
      if s < oe then
        if os = s then
          if oe < e then
            match absAdd A f (ivs, E) oe e with
            | some (ivs2, E2) => some (ivs2, addEdge E2 (A s, A oe))
            | none => none
          else some (ivs, E)
        else
          let e1 := if e < oe then oe else e
          let succ := (E.filter (fun x => x.1 == A os)).map (·.2)
          match absGap A (absAdd A f) E s e1 (pre.dropLast ++ [(os, s)]) post with
          | some (ivs2, E2) => some (ivs2, addEdge (transfer (A os) (A s) succ E2) (A os, A s))
          | none => none
      else absGap A (absAdd A f) E s e pre post

/-! ## basic facts on interval lists -/

theorem pairwise_mem {α} {R : α → α → Prop} {l : List α} (h : l.Pairwise R) {x y : α}
    (hx : x ∈ l) (hy : y ∈ l) : x = y ∨ R x y ∨ R y x := by
  induction l with
  | nil => cases hx
  | cons a l ih =>
    rw [List.pairwise_cons] at h
    rcases List.mem_cons.mp hx with hxa | hxl <;> rcases List.mem_cons.mp hy with hya | hyl
    · exact Or.inl (hxa.trans hya.symm)
    · exact Or.inr (Or.inl (hxa ▸ h.1 _ hyl))
    · exact Or.inr (Or.inr (hya ▸ h.1 _ hxl))
    · exact ih h.2 hxl hyl

variable {n : Nat}

theorem IvsOK.mem {ivs : List Iv} (h : IvsOK n ivs) {iv : Iv} (hm : iv ∈ ivs) : iv.1 < iv.2 ∧ iv.2 ≤ n :=
  h.1 iv hm

/-- two stored intervals are equal or one lies entirely before the other -/
theorem IvsOK.sep {ivs : List Iv} (h : IvsOK n ivs) {x y : Iv} (hx : x ∈ ivs) (hy : y ∈ ivs) :
    x = y ∨ x.2 ≤ y.1 ∨ y.2 ≤ x.1 := pairwise_mem h.2 hx hy

theorem IvsOK.start_unique {ivs : List Iv} (h : IvsOK n ivs) {a b1 b2 : Nat}
    (h1 : (a, b1) ∈ ivs) (h2 : (a, b2) ∈ ivs) : b1 = b2 := by
  have m1 := h.mem h1
  have m2 := h.mem h2
  rcases h.sep h1 h2 with heq | hlt | hlt
  · exact (Prod.mk.inj heq).2
  · simp at hlt m1 m2; omega
  · simp at hlt m1 m2; omega

theorem IvsOK.end_unique {ivs : List Iv} (h : IvsOK n ivs) {a1 a2 b : Nat}
    (h1 : (a1, b) ∈ ivs) (h2 : (a2, b) ∈ ivs) : a1 = a2 := by
  have m1 := h.mem h1
  have m2 := h.mem h2
  rcases h.sep h1 h2 with heq | hlt | hlt
  · exact (Prod.mk.inj heq).1
  · simp at hlt m1 m2; omega
  · simp at hlt m1 m2; omega

/-- a position covered by two stored intervals: they are the same -/
theorem IvsOK.disjoint {ivs : List Iv} (h : IvsOK n ivs) {x y : Iv} (hx : x ∈ ivs) (hy : y ∈ ivs)
    {k : Nat} (kx : x.1 ≤ k ∧ k < x.2) (ky : y.1 ≤ k ∧ k < y.2) : x = y := by
  rcases h.sep hx hy with heq | hlt | hlt
  · exact heq
  · omega
  · omega

/-- the block before a block start whose predecessor position is covered ends exactly there -/
theorem IvsOK.pred_block {ivs : List Iv} (h : IvsOK n ivs) {p b : Nat} (hp : (p, b) ∈ ivs)
    (hc : cov ivs (p - 1)) (h0 : 0 < p) : ∃ a, (a, p) ∈ ivs := by
  obtain ⟨iv, hiv, h1, h2⟩ := hc
  have m := h.mem hp
  rcases h.sep hiv hp with heq | hlt | hlt
  · subst heq; simp at h1; omega
  · simp at hlt
    have : iv.2 = p := by omega
    exact ⟨iv.1, by rw [← this]; exact hiv⟩
  · simp at hlt m; omega

theorem ivsOK_nil : IvsOK n [] := ⟨by simp, List.Pairwise.nil⟩

/-- inserting an interval into a gap -/
theorem ivsOK_insert {pre post : List Iv} (h : IvsOK n (pre ++ post)) {s e : Nat} (hse : s < e) (he : e ≤ n)
    (hpre : ∀ iv ∈ pre, iv.2 ≤ s) (hpost : ∀ iv ∈ post, e ≤ iv.1) : IvsOK n (pre ++ (s, e) :: post) := by
  obtain ⟨h1, h2⟩ := h
  rw [List.pairwise_append] at h2
  obtain ⟨p1, p2, p3⟩ := h2
  refine ⟨?_, ?_⟩
  · intro iv hiv
    rcases List.mem_append.mp hiv with hm | hm
    · exact h1 iv (List.mem_append_left _ hm)
    · rcases List.mem_cons.mp hm with rfl | hm
      · exact ⟨hse, he⟩
      · exact h1 iv (List.mem_append_right _ hm)
  · rw [List.pairwise_append]
    refine ⟨p1, ?_, ?_⟩
    · rw [List.pairwise_cons]
      exact ⟨fun y hy => hpost y hy, p2⟩
    · intro a ha b hb
      rcases List.mem_cons.mp hb with rfl | hb
      · exact hpre a ha
      · exact p3 a ha b hb


theorem IvsOK.no_start_inside {ivs : List Iv} (h : IvsOK n ivs) {iv : Iv} (hiv : iv ∈ ivs) {p b : Nat}
    (h1 : iv.1 < p) (h2 : p < iv.2) (hp : (p, b) ∈ ivs) : False := by
  have m := h.mem hp
  rcases h.sep hiv hp with heq | hlt | hlt
  · subst heq; simp at h1
  · simp at hlt; omega
  · simp at hlt m; omega

/-! ## edges -/

theorem mem_addEdge_of_mem {E : Edges} {x e : Nat × Nat} (h : x ∈ E) : x ∈ addEdge E e := by
  unfold addEdge; split
  · exact h
  · exact List.mem_append_left _ h

theorem mem_addEdge_self (E : Edges) (e : Nat × Nat) : e ∈ addEdge E e := by
  unfold addEdge; split
  · assumption
  · simp

theorem mem_removeEdge {E : Edges} {x e : Nat × Nat} : x ∈ removeEdge E e ↔ x ∈ E ∧ x ≠ e := by
  simp [removeEdge]

theorem transfer_keep (from_ to_ : Nat) (succ : List Nat) (E : Edges) {x y : Nat}
    (h : (x, y) ∈ E) (hx : x ≠ from_) : (x, y) ∈ transfer from_ to_ succ E := by
  unfold transfer
  induction succ generalizing E with
  | nil => exact h
  | cons t r ih =>
    simp only [List.foldl_cons]
    apply ih
    rw [mem_removeEdge]
    refine ⟨mem_addEdge_of_mem h, ?_⟩
    intro heq
    exact hx (Prod.mk.inj heq).1

theorem transfer_moved (from_ to_ : Nat) (succ : List Nat) (E : Edges) {t : Nat}
    (h : t ∈ succ) (hne : to_ ≠ from_) : (to_, t) ∈ transfer from_ to_ succ E := by
  unfold transfer
  induction succ generalizing E with
  | nil => cases h
  | cons t' r ih =>
    simp only [List.foldl_cons]
    rcases List.mem_cons.mp h with rfl | h
    · have : (to_, t) ∈ removeEdge (addEdge E (to_, t)) (from_, t) := by
        rw [mem_removeEdge]
        refine ⟨mem_addEdge_self _ _, ?_⟩
        intro heq
        exact hne (Prod.mk.inj heq).1
      exact transfer_keep from_ to_ r _ this hne
    · exact ih _ h

theorem fall_mono {A : Nat → Nat} {ivs : List Iv} {E E' : Edges} {p : Nat}
    (h : fall A ivs E p) (hE : ∀ x ∈ E, x ∈ E') : fall A ivs E' p := by
  obtain ⟨s1, e2, h1, h2, h3⟩ := h
  exact ⟨s1, e2, h1, h2, hE _ h3⟩

/-! ## what one insertion guarantees -/

structure Spec (A : Nat → Nat) (n : Nat) (ivs : List Iv) (E : Edges) (s e : Nat)
    (ivs' : List Iv) (E' : Edges) : Prop where
  ok : IvsOK n ivs'
  covers : ∀ k, cov ivs' k ↔ (cov ivs k ∨ (s ≤ k ∧ k < e))
  keep : ∀ iv ∈ ivs, ¬(iv.1 < s ∧ s < iv.2) → iv ∈ ivs'
  starts : ∀ iv' ∈ ivs', (∃ b0, (iv'.1, b0) ∈ ivs) ∨ iv'.1 = s ∨
    (s < iv'.1 ∧ iv'.1 < e ∧ cov ivs (iv'.1 - 1) ∧ ¬ cov ivs iv'.1)
  ret : ∃ b, (s, b) ∈ ivs'
  epres : ∀ p, fall A ivs E p → fall A ivs' E' p
  ecut : ∀ p, (∃ iv ∈ ivs, iv.1 < p ∧ p < iv.2) → (∃ b, (p, b) ∈ ivs') → fall A ivs' E' p
  espan : ∀ p, s < p → p < e → (∃ a, (a, p) ∈ ivs') → (∃ b, (p, b) ∈ ivs') → fall A ivs' E' p

/-- the block goes into a gap -/
theorem spec_plain (A : Nat → Nat) {pre post : List Iv} (E : Edges) (h : IvsOK n (pre ++ post)) {s e : Nat}
    (hse : s < e) (he : e ≤ n) (hpre : ∀ iv ∈ pre, iv.2 ≤ s) (hpost : ∀ iv ∈ post, e ≤ iv.1) :
    Spec A n (pre ++ post) E s e (pre ++ (s, e) :: post) E := by
  have hsub : ∀ iv ∈ pre ++ post, iv ∈ pre ++ (s, e) :: post := by
    intro iv hiv
    rcases List.mem_append.mp hiv with hm | hm
    · exact List.mem_append_left _ hm
    · exact List.mem_append_right _ (List.mem_cons_of_mem _ hm)
  have hmem : ∀ iv ∈ pre ++ (s, e) :: post, iv ∈ pre ++ post ∨ iv = (s, e) := by
    intro iv hiv
    rcases List.mem_append.mp hiv with hm | hm
    · exact Or.inl (List.mem_append_left _ hm)
    · rcases List.mem_cons.mp hm with rfl | hm
      · exact Or.inr rfl
      · exact Or.inl (List.mem_append_right _ hm)
  have hnew : ∀ p b, (p, b) ∈ pre ++ (s, e) :: post → ¬ (s < p ∧ p < e) := by
    intro p b hpb ⟨h1, h2⟩
    rcases List.mem_append.mp hpb with hm | hm
    · have := hpre _ hm
      have := (h.mem (List.mem_append_left _ hm)).1
      simp at *; omega
    · rcases List.mem_cons.mp hm with heq | hm
      · have := (Prod.mk.inj heq).1; omega
      · have := hpost _ hm; simp at this; omega
  refine ⟨ivsOK_insert h hse he hpre hpost, ?_, ?_, ?_, ⟨e, by simp⟩, ?_, ?_, ?_⟩
  · intro k
    constructor
    · rintro ⟨iv, hiv, h1, h2⟩
      rcases hmem iv hiv with hm | rfl
      · exact Or.inl ⟨iv, hm, h1, h2⟩
      · exact Or.inr ⟨h1, h2⟩
    · rintro (⟨iv, hiv, h1, h2⟩ | ⟨h1, h2⟩)
      · exact ⟨iv, hsub iv hiv, h1, h2⟩
      · exact ⟨(s, e), by simp, h1, h2⟩
  · intro iv hiv _; exact hsub iv hiv
  · intro iv' hiv'
    rcases hmem iv' hiv' with hm | rfl
    · exact Or.inl ⟨iv'.2, hm⟩
    · exact Or.inr (Or.inl rfl)
  · rintro p ⟨s1, e2, h1, h2, h3⟩
    exact ⟨s1, e2, hsub _ h1, hsub _ h2, h3⟩
  · rintro p ⟨iv, hiv, h1, h2⟩ ⟨b, hb⟩
    exfalso
    rcases hmem _ hb with hm | heq
    · exact h.no_start_inside hiv h1 h2 hm
    · have hp : p = s := (Prod.mk.inj heq).1
      subst hp
      rcases List.mem_append.mp hiv with hm | hm
      · have := hpre _ hm; omega
      · have := hpost _ hm; omega
  · rintro p h1 h2 _ ⟨b, hb⟩
    exact absurd ⟨h1, h2⟩ (hnew p b hb)

/-- the block restarts a stored block and does not run past its end: nothing changes -/
theorem spec_inside (A : Nat → Nat) {ivs : List Iv} (E : Edges) (h : IvsOK n ivs) {s oe e : Nat}
    (hm : (s, oe) ∈ ivs) (hse : s < e) (he : e ≤ oe) : Spec A n ivs E s e ivs E := by
  refine ⟨h, ?_, fun iv hiv _ => hiv, fun iv' hiv' => Or.inl ⟨iv'.2, hiv'⟩, ⟨oe, hm⟩, fun p hp => hp, ?_, ?_⟩
  · intro k
    constructor
    · intro hk; exact Or.inl hk
    · rintro (hk | ⟨h1, h2⟩)
      · exact hk
      · exact ⟨(s, oe), hm, h1, by simp; omega⟩
  · rintro p ⟨iv, hiv, h1, h2⟩ ⟨b, hb⟩
    exact (h.no_start_inside hiv h1 h2 hb).elim
  · rintro p h1 h2 _ ⟨b, hb⟩
    exact (h.no_start_inside hm (by simpa using h1) (by simp; omega) hb).elim


/-- `[s, m)` then `[m, e)` with the fall-through edge at `m`: one insertion of `[s, e)` -/
theorem spec_seq (A : Nat → Nat) {ivs ivs1 ivs2 : List Iv} {E E1 E2 : Edges} {s m e : Nat}
    (first : Spec A n ivs E s m ivs1 E1) (second : Spec A n ivs1 E1 m e ivs2 E2)
    (hsm : s < m) (hme : m < e) (hblk : (s, m) ∈ ivs1)
    (hm : (∃ b0, (m, b0) ∈ ivs) ∨ (cov ivs (m - 1) ∧ ¬ cov ivs m)) :
    Spec A n ivs E s e ivs2 (addEdge E2 (A s, A m)) := by
  have hblk2 : (s, m) ∈ ivs2 := second.keep _ hblk (by simp)
  obtain ⟨bm, hbm⟩ := second.ret
  have hfallm : fall A ivs2 (addEdge E2 (A s, A m)) m := ⟨s, bm, hblk2, hbm, mem_addEdge_self _ _⟩
  have hup : ∀ p, fall A ivs2 E2 p → fall A ivs2 (addEdge E2 (A s, A m)) p :=
    fun p hp => fall_mono hp (fun x hx => mem_addEdge_of_mem hx)
  refine ⟨second.ok, ?_, ?_, ?_, ⟨m, hblk2⟩, ?_, ?_, ?_⟩
  · intro k
    rw [second.covers, first.covers]
    constructor
    · rintro ((h | ⟨h1, h2⟩) | ⟨h1, h2⟩)
      · exact Or.inl h
      · exact Or.inr ⟨h1, by omega⟩
      · exact Or.inr ⟨by omega, h2⟩
    · rintro (h | ⟨h1, h2⟩)
      · exact Or.inl (Or.inl h)
      · by_cases hk : k < m
        · exact Or.inl (Or.inr ⟨h1, hk⟩)
        · exact Or.inr ⟨by omega, h2⟩
  · intro iv hiv hns
    have h1 := first.keep iv hiv hns
    apply second.keep iv h1
    intro ⟨h2, h3⟩
    have mm := first.ok.mem h1
    rcases first.ok.sep h1 hblk with heq | hlt | hlt
    · subst heq; simp at h2; omega
    · simp at hlt; omega
    · simp at hlt; omega
  · intro iv' hiv'
    rcases second.starts iv' hiv' with ⟨b0, hb0⟩ | heq | ⟨h1, h2, h3, h4⟩
    · rcases first.starts _ hb0 with h | h | ⟨g1, g2, g3, g4⟩
      · exact Or.inl h
      · exact Or.inr (Or.inl h)
      · exact Or.inr (Or.inr ⟨g1, by simp at g2 ⊢; omega, g3, g4⟩)
    · rw [heq]
      rcases hm with h | ⟨h1, h2⟩
      · exact Or.inl h
      · exact Or.inr (Or.inr ⟨hsm, hme, h1, h2⟩)
    · refine Or.inr (Or.inr ⟨by omega, h2, ?_, ?_⟩)
      · rcases (first.covers _).mp h3 with h | ⟨_, g2⟩
        · exact h
        · omega
      · intro hc; exact h4 ((first.covers _).mpr (Or.inl hc))
  · intro p hp
    exact hup p (second.epres p (first.epres p hp))
  · rintro p ⟨iv, hiv, h1, h2⟩ ⟨b, hb⟩
    rcases second.starts _ hb with ⟨b0, hb0⟩ | heq | ⟨g1, g2, g3, g4⟩
    · exact hup p (second.epres p (first.ecut p ⟨iv, hiv, h1, h2⟩ ⟨b0, hb0⟩))
    · simp at heq; rw [heq]; exact hfallm
    · exfalso
      apply g4
      exact (first.covers _).mpr (Or.inl ⟨iv, hiv, by simp; omega, by simpa using h2⟩)
  · rintro p h1 h2 ⟨a, ha⟩ ⟨b, hb⟩
    rcases Nat.lt_trichotomy p m with hlt | heq | hgt
    · rcases second.starts _ hb with ⟨b0, hb0⟩ | heq | ⟨g1, g2, g3, g4⟩
      · have hc2 : cov ivs2 (p - 1) := ⟨(a, p), ha, by have := (second.ok.mem ha).1; simp at this ⊢; omega, by simp; omega⟩
        have hc1 : cov ivs1 (p - 1) := by
          rcases (second.covers _).mp hc2 with h | ⟨g1, _⟩
          · exact h
          · omega
        obtain ⟨a', ha'⟩ := first.ok.pred_block hb0 hc1 (by omega)
        exact hup p (second.epres p (first.espan p h1 hlt ⟨a', ha'⟩ ⟨b0, hb0⟩))
      · simp at heq; omega
      · simp at g1; omega
    · rw [heq]; exact hfallm
    · exact hup p (second.espan p hgt h2 ⟨a, ha⟩ ⟨b, hb⟩)


/-- the block starts strictly inside a stored block `(os, oe)`: that block is cut at `s`, the part
    that was cut off (or the longer new block) goes into the gap, the out-edges move along. -/
theorem spec_cut (A : Nat → Nat) (hA : ∀ a b, a ≤ n → b ≤ n → A a = A b → a = b)
    {pre0 post ivs2 : List Iv} {E E2 : Edges} {os oe s e : Nat}
    (hok : IvsOK n (pre0 ++ (os, oe) :: post)) (hos : os < s) (hsoe : s < oe) (hse : s < e)
    (second : Spec A n (pre0 ++ (os, s) :: post) E s (if e < oe then oe else e) ivs2 E2) :
    Spec A n (pre0 ++ (os, oe) :: post) E s e ivs2
      (addEdge (transfer (A os) (A s) ((E.filter (fun x => x.1 == A os)).map (·.2)) E2) (A os, A s)) := by
  have hmemO : (os, oe) ∈ pre0 ++ (os, oe) :: post := by simp
  have hmemC : (os, s) ∈ pre0 ++ (os, s) :: post := by simp
  have hpw := hok.2
  rw [List.pairwise_append] at hpw
  obtain ⟨_, hpw2, hpw3⟩ := hpw
  rw [List.pairwise_cons] at hpw2
  have hp0 : ∀ a ∈ pre0, a.2 ≤ os := fun a ha => hpw3 a ha (os, oe) (by simp)
  have hpo : ∀ b ∈ post, oe ≤ b.1 := fun b hb => hpw2.1 b hb
  have hoe : oe ≤ n := (hok.mem hmemO).2
  -- membership transfer between the zone before and after the cut
  have to1 : ∀ iv ∈ pre0 ++ (os, oe) :: post, iv ≠ (os, oe) → iv ∈ pre0 ++ (os, s) :: post := by
    intro iv hiv hne
    rcases List.mem_append.mp hiv with hm | hm
    · exact List.mem_append_left _ hm
    · rcases List.mem_cons.mp hm with rfl | hm
      · exact absurd rfl hne
      · exact List.mem_append_right _ (List.mem_cons_of_mem _ hm)
  have from1 : ∀ iv ∈ pre0 ++ (os, s) :: post, iv = (os, s) ∨ (iv ∈ pre0 ++ (os, oe) :: post ∧ (iv ∈ pre0 ∨ iv ∈ post)) := by
    intro iv hiv
    rcases List.mem_append.mp hiv with hm | hm
    · exact Or.inr ⟨List.mem_append_left _ hm, Or.inl hm⟩
    · rcases List.mem_cons.mp hm with rfl | hm
      · exact Or.inl rfl
      · exact Or.inr ⟨List.mem_append_right _ (List.mem_cons_of_mem _ hm), Or.inr hm⟩
  -- nothing of the cut zone covers [s, oe), and no block of it starts in (s, oe)
  have nocov1 : ∀ k, s ≤ k → k < oe → ¬ cov (pre0 ++ (os, s) :: post) k := by
    rintro k h1 h2 ⟨iv, hiv, g1, g2⟩
    rcases from1 iv hiv with rfl | ⟨_, hm | hm⟩
    · simp at g2; omega
    · have := hp0 _ hm; omega
    · have := hpo _ hm; omega
  have nostart1 : ∀ a b0, (a, b0) ∈ pre0 ++ (os, s) :: post → s < a → a < oe → False := by
    intro a b0 hab h1 h2
    rcases from1 _ hab with heq | ⟨hm0, hm | hm⟩
    · have := (Prod.mk.inj heq).1; omega
    · have := hp0 _ hm; have := (hok.mem hm0).1; simp at *; omega
    · have := hpo _ hm; simp at this; omega
  have cov01 : ∀ k, cov (pre0 ++ (os, oe) :: post) k ↔ (cov (pre0 ++ (os, s) :: post) k ∨ (s ≤ k ∧ k < oe)) := by
    intro k
    constructor
    · rintro ⟨iv, hiv, g1, g2⟩
      by_cases hne : iv = (os, oe)
      · subst hne
        simp at g1 g2
        by_cases hk : k < s
        · exact Or.inl ⟨(os, s), hmemC, g1, hk⟩
        · exact Or.inr ⟨by omega, g2⟩
      · exact Or.inl ⟨iv, to1 iv hiv hne, g1, g2⟩
    · rintro (⟨iv, hiv, g1, g2⟩ | ⟨g1, g2⟩)
      · rcases from1 iv hiv with rfl | ⟨hm, _⟩
        · simp at g1 g2; exact ⟨(os, oe), hmemO, g1, by simp; omega⟩
        · exact ⟨iv, hm, g1, g2⟩
      · exact ⟨(os, oe), hmemO, by simp; omega, g2⟩
  have hcut2 : (os, s) ∈ ivs2 := second.keep _ hmemC (by simp)
  have he1 : oe ≤ (if e < oe then oe else e) := by split <;> omega
  -- the block stored at s reaches at least the old end
  have blockend : ∀ b, (s, b) ∈ ivs2 → oe ≤ b := by
    intro b hb
    apply Nat.le_of_not_lt
    intro hlt
    have hsb := (second.ok.mem hb).1
    simp at hsb
    have hc : cov ivs2 b := (second.covers b).mpr (Or.inr ⟨by omega, by omega⟩)
    obtain ⟨iv, hiv, g1, g2⟩ := hc
    rcases Nat.lt_or_ge iv.1 b with hl | hge
    · rcases second.ok.sep hiv hb with heq | h1 | h1
      · subst heq; simp at g2
      · simp at h1; omega
      · simp at h1; omega
    · have hivb : iv.1 = b := by omega
      rcases second.starts iv hiv with ⟨b0, hb0⟩ | h | ⟨_, _, h3, _⟩
      · exact nostart1 _ _ hb0 (by omega) (by omega)
      · omega
      · exact nocov1 (iv.1 - 1) (by omega) (by omega) h3
  -- edges of E2 survive the transfer unless they leave the cut block
  have survive : ∀ p, fall A ivs2 E2 p → p ≠ s →
      fall A ivs2 (addEdge (transfer (A os) (A s) ((E.filter (fun x => x.1 == A os)).map (·.2)) E2) (A os, A s)) p := by
    rintro p ⟨s1, e2, h1, h2, h3⟩ hps
    refine ⟨s1, e2, h1, h2, mem_addEdge_of_mem (transfer_keep _ _ _ _ h3 ?_)⟩
    intro heq
    have m1 := second.ok.mem h1
    have mc := second.ok.mem hcut2
    simp at m1 mc
    have : s1 = os := hA s1 os (by omega) (by omega) heq
    subst this
    exact hps (second.ok.start_unique h1 hcut2)
  have hfalls : ∀ b, (s, b) ∈ ivs2 →
      fall A ivs2 (addEdge (transfer (A os) (A s) ((E.filter (fun x => x.1 == A os)).map (·.2)) E2) (A os, A s)) s :=
    fun b hb => ⟨os, b, hcut2, hb, mem_addEdge_self _ _⟩
  refine ⟨second.ok, ?_, ?_, ?_, second.ret, ?_, ?_, ?_⟩
  · intro k
    rw [second.covers, cov01]
    constructor
    · rintro (h | ⟨h1, h2⟩)
      · exact Or.inl (Or.inl h)
      · split at h2
        · by_cases hk : k < oe
          · exact Or.inl (Or.inr ⟨h1, hk⟩)
          · omega
        · exact Or.inr ⟨h1, h2⟩
    · rintro ((h | ⟨h1, h2⟩) | ⟨h1, h2⟩)
      · exact Or.inl h
      · exact Or.inr ⟨h1, by omega⟩
      · exact Or.inr ⟨h1, by split <;> omega⟩
  · intro iv hiv hns
    have hne : iv ≠ (os, oe) := by
      rintro rfl; exact hns ⟨hos, hsoe⟩
    exact second.keep iv (to1 iv hiv hne) hns
  · intro iv' hiv'
    rcases second.starts iv' hiv' with ⟨b0, hb0⟩ | h | ⟨h1, h2, h3, h4⟩
    · rcases from1 _ hb0 with heq | ⟨hm, _⟩
      · have : iv'.1 = os := (Prod.mk.inj heq).1
        exact Or.inl ⟨oe, by rw [this]; exact hmemO⟩
      · exact Or.inl ⟨b0, hm⟩
    · exact Or.inr (Or.inl h)
    · have hge : oe ≤ iv'.1 - 1 := by
        apply Nat.le_of_not_lt
        intro hl
        exact nocov1 (iv'.1 - 1) (by omega) hl h3
      refine Or.inr (Or.inr ⟨h1, ?_, (cov01 _).mpr (Or.inl h3), ?_⟩)
      · split at h2 <;> omega
      · intro hc
        rcases (cov01 _).mp hc with h | ⟨_, g2⟩
        · exact h4 h
        · omega
  · rintro p ⟨s1, e2, h1, h2, h3⟩
    by_cases hsp : (s1, p) = (os, oe)
    · obtain ⟨rfl, rfl⟩ := Prod.mk.inj hsp
      have hne2 : (p, e2) ≠ (s1, p) := by
        intro heq; have := (Prod.mk.inj heq).1; omega
      have hk2 : (p, e2) ∈ ivs2 := second.keep _ (to1 _ h2 hne2) (by simp; omega)
      obtain ⟨b, hb⟩ := second.ret
      have hbo : b = p := by
        have h4 := blockend b hb
        rcases second.ok.sep hb hk2 with heq | hl | hl
        · have := (Prod.mk.inj heq).1; omega
        · simp at hl; omega
        · simp at hl; have := (second.ok.mem hk2).1; simp at this; omega
      subst hbo
      refine ⟨s, e2, hb, hk2, mem_addEdge_of_mem (transfer_moved _ _ _ _ ?_ ?_)⟩
      · simp only [List.mem_map, List.mem_filter]
        exact ⟨(A s1, A b), ⟨h3, by simp⟩, rfl⟩
      · intro heq
        have := hA s s1 (by omega) (by omega) heq
        omega
    · have h1' : (s1, p) ∈ pre0 ++ (os, s) :: post := to1 _ h1 hsp
      have hps : p ≠ s := by
        rintro rfl
        exact hok.no_start_inside hmemO (by simpa using hos) (by simpa using hsoe) h2
      have h2' : ∃ e2', (p, e2') ∈ pre0 ++ (os, s) :: post := by
        by_cases hpe : (p, e2) = (os, oe)
        · have : p = os := (Prod.mk.inj hpe).1
          exact ⟨s, by rw [this]; exact hmemC⟩
        · exact ⟨e2, to1 _ h2 hpe⟩
      obtain ⟨e2', h2'⟩ := h2'
      exact survive p (second.epres p ⟨s1, e2', h1', h2', h3⟩) hps
  · rintro p ⟨iv, hiv, h1, h2⟩ ⟨b, hb⟩
    by_cases hps : p = s
    · subst hps; exact hfalls b hb
    · by_cases hne : iv = (os, oe)
      · subst hne
        simp at h1 h2
        exfalso
        rcases second.starts _ hb with ⟨b0, hb0⟩ | h | ⟨g1, g2, g3, g4⟩
        · rcases from1 _ hb0 with heq | ⟨hm, _⟩
          · have := (Prod.mk.inj heq).1; omega
          · exact hok.no_start_inside hmemO (by simpa using h1) (by simpa using h2) hm
        · exact hps h
        · simp at g1 g3
          exact nocov1 (p - 1) (by omega) (by omega) g3
      · exact survive p (second.ecut p ⟨iv, to1 iv hiv hne, h1, h2⟩ ⟨b, hb⟩) hps
  · rintro p h1 h2 ha hb
    exact survive p (second.espan p h1 (by split <;> omega) ha hb) (by omega)


/-! ## the split of the zone at the start of the new block -/

theorem mem_takeWhile_pred {α} (p : α → Bool) : ∀ (l : List α) (x : α), x ∈ l.takeWhile p → p x = true
  | [], _, h => by simp at h
  | a :: l, x, h => by
    rw [List.takeWhile_cons] at h
    split at h
    · rcases List.mem_cons.mp h with rfl | h
      · assumption
      · exact mem_takeWhile_pred p l x h
    · simp at h

theorem getLast?_decomp {α} {l : List α} {x : α} (h : l.getLast? = some x) : l = l.dropLast ++ [x] := by
  have hne : l ≠ [] := by
    intro h0; rw [h0] at h; simp at h
  have := List.dropLast_concat_getLast hne
  rw [List.getLast?_eq_some_getLast hne] at h
  injection h with h
  rw [h] at this
  exact this.symm

theorem post_starts {s : Nat} : ∀ (ivs : List Iv), ivs.Pairwise (fun a b => a.2 ≤ b.1) →
    (∀ iv ∈ ivs, iv.1 < iv.2) → ∀ iv ∈ ivs.dropWhile (fun iv => decide (iv.1 ≤ s)), s < iv.1
  | [], _, _, iv, h => by simp at h
  | x :: r, hp, hl, iv, h => by
    rw [List.pairwise_cons] at hp
    rw [List.dropWhile_cons] at h
    split at h
    · exact post_starts r hp.2 (fun iv hiv => hl iv (List.mem_cons_of_mem _ hiv)) iv h
    · rename_i hx
      simp at hx
      rcases List.mem_cons.mp h with rfl | h
      · exact hx
      · have := hp.1 iv h
        have := hl x (by simp)
        omega

theorem ivsOK_shrink {pre0 post : List Iv} {os oe s : Nat} (h : IvsOK n (pre0 ++ (os, oe) :: post))
    (h1 : os < s) (h2 : s ≤ oe) : IvsOK n (pre0 ++ (os, s) :: post) := by
  obtain ⟨hm, hp⟩ := h
  rw [List.pairwise_append] at hp
  obtain ⟨p1, p2, p3⟩ := hp
  rw [List.pairwise_cons] at p2
  have hoe := (hm (os, oe) (by simp)).2
  refine ⟨?_, ?_⟩
  · intro iv hiv
    rcases List.mem_append.mp hiv with hx | hx
    · exact hm iv (List.mem_append_left _ hx)
    · rcases List.mem_cons.mp hx with rfl | hx
      · exact ⟨h1, by simp at hoe ⊢; omega⟩
      · exact hm iv (List.mem_append_right _ (List.mem_cons_of_mem _ hx))
  · rw [List.pairwise_append]
    refine ⟨p1, ?_, ?_⟩
    · rw [List.pairwise_cons]
      refine ⟨fun y hy => ?_, p2.2⟩
      have := p2.1 y hy
      simp at this ⊢; omega
    · intro a ha b hb
      rcases List.mem_cons.mp hb with rfl | hb
      · exact p3 a ha (os, oe) (by simp)
      · exact p3 a ha b (List.mem_cons_of_mem _ hb)

theorem absGap_spec (A : Nat → Nat) (rec : List Iv × Edges → Nat → Nat → Option (List Iv × Edges)) (E : Edges)
    {pre post : List Iv} {s e : Nat} (hok : IvsOK n (pre ++ post)) (hse : s < e) (he : e ≤ n)
    (hpre : ∀ iv ∈ pre, iv.2 ≤ s) (hpost : ∀ iv ∈ post, s < iv.1)
    (hrec : ∀ ns ne post', post = (ns, ne) :: post' → ns < e → ∀ ivs1 E1, IvsOK n ivs1 →
      ∃ ivs' E', rec (ivs1, E1) ns e = some (ivs', E') ∧ Spec A n ivs1 E1 ns e ivs' E') :
    ∃ ivs' E', absGap A rec E s e pre post = some (ivs', E') ∧ Spec A n (pre ++ post) E s e ivs' E' := by
  cases post with
  | nil =>
    refine ⟨pre ++ [(s, e)], E, rfl, ?_⟩
    exact spec_plain A E hok hse he hpre (by simp)
  | cons hd post' =>
    obtain ⟨ns, ne⟩ := hd
    have hns : s < ns := hpost (ns, ne) (by simp)
    have hpw := hok.2
    rw [List.pairwise_append] at hpw
    have hpw2 := hpw.2.1
    rw [List.pairwise_cons] at hpw2
    have hnn := (hok.mem (show (ns, ne) ∈ pre ++ (ns, ne) :: post' by simp)).1
    simp at hnn
    have hafter : ∀ iv ∈ (ns, ne) :: post', ns ≤ iv.1 := by
      intro iv hiv
      rcases List.mem_cons.mp hiv with rfl | hiv
      · exact Nat.le_refl _
      · have := hpw2.1 iv hiv; simp at this; omega
    unfold absGap
    by_cases hlt : ns < e
    · simp only [hlt, if_true]
      have first := spec_plain A E hok hns (by omega) hpre hafter
      obtain ⟨ivs2, E2, hr, second⟩ := hrec ns ne post' rfl hlt _ E first.ok
      rw [hr]
      refine ⟨ivs2, _, rfl, ?_⟩
      exact spec_seq A first second hns hlt (by simp) (Or.inl ⟨ne, by simp⟩)
    · simp only [hlt, if_false]
      refine ⟨_, E, rfl, ?_⟩
      apply spec_plain A E hok hse he hpre
      intro iv hiv
      have := hafter iv hiv
      omega

theorem absAdd_spec (A : Nat → Nat) (hA : ∀ a b, a ≤ n → b ≤ n → A a = A b → a = b) :
    ∀ (fuel : Nat) (ivs : List Iv) (E : Edges) (s e : Nat), IvsOK n ivs → s < e → e ≤ n → e - s < fuel →
      ∃ ivs' E', absAdd A fuel (ivs, E) s e = some (ivs', E') ∧ Spec A n ivs E s e ivs' E' := by
  intro fuel
  induction fuel with
  | zero => intro ivs E s e _ _ _ h; omega
  | succ f ih =>
    intro ivs E s e hok hse he hf
    have hsplit : ivs.takeWhile (fun iv => decide (iv.1 ≤ s)) ++ ivs.dropWhile (fun iv => decide (iv.1 ≤ s)) = ivs :=
      List.takeWhile_append_dropWhile
    have hpost := post_starts (s := s) ivs hok.2 (fun iv hiv => (hok.mem hiv).1)
    have hrecGap : ∀ (e' : Nat), e' ≤ e → ∀ ns ne post', ivs.dropWhile (fun iv => decide (iv.1 ≤ s)) = (ns, ne) :: post' →
        ns < e' → ∀ ivs1 E1, IvsOK n ivs1 →
        ∃ ivs' E', absAdd A f (ivs1, E1) ns e' = some (ivs', E') ∧ Spec A n ivs1 E1 ns e' ivs' E' := by
      intro e' he' ns ne post' hp hlt ivs1 E1 hok1
      have : s < ns := hpost (ns, ne) (by rw [hp]; simp)
      exact ih ivs1 E1 ns e' hok1 hlt (by omega) (by omega)
    unfold absAdd
    simp only
    generalize hpre : ivs.takeWhile (fun iv => decide (iv.1 ≤ s)) = pre at hsplit
    generalize hpo : ivs.dropWhile (fun iv => decide (iv.1 ≤ s)) = post at hsplit hpost hrecGap
    have hpre_le : ∀ iv ∈ pre, iv.1 ≤ s := by
      intro iv hiv
      rw [← hpre] at hiv
      simpa using mem_takeWhile_pred _ _ _ hiv
    subst hsplit
    cases hl : pre.getLast? with
    | none =>
      have : pre = [] := List.getLast?_eq_none_iff.mp hl
      subst this
      simp only
      exact absGap_spec A _ E hok hse he (by simp) hpost (hrecGap e (Nat.le_refl _))
    | some last =>
      obtain ⟨os, oe⟩ := last
      simp only
      have hdec := getLast?_decomp hl
      have hmemO : (os, oe) ∈ pre ++ post := by
        rw [hdec]; simp
      have hos : os ≤ s := hpre_le (os, oe) (by rw [hdec]; simp)
      have hok' : IvsOK n (pre.dropLast ++ (os, oe) :: post) := by
        have : pre.dropLast ++ (os, oe) :: post = pre ++ post := by
          conv => rhs; rw [hdec]
          simp
        rw [this]; exact hok
      have hpw := hok'.2
      rw [List.pairwise_append] at hpw
      obtain ⟨_, hpw2, hpw3⟩ := hpw
      rw [List.pairwise_cons] at hpw2
      have hp0 : ∀ a ∈ pre.dropLast, a.2 ≤ os := fun a ha => hpw3 a ha (os, oe) (by simp)
      have hmm := hok.mem hmemO
      simp at hmm
      by_cases hin : s < oe
      · simp only [hin, if_true]
        by_cases hsame : os = s
        · subst hsame
          simp only [if_true]
          by_cases hlong : oe < e
          · simp only [hlong, if_true]
            obtain ⟨ivs2, E2, hr, second⟩ := ih (pre ++ post) E oe e hok hlong he (by omega)
            rw [hr]
            refine ⟨ivs2, _, rfl, ?_⟩
            have first := spec_inside A E hok hmemO hin (Nat.le_refl _)
            apply spec_seq A first second hin hlong hmemO
            by_cases hc : cov (pre ++ post) oe
            · left
              obtain ⟨iv, hiv, g1, g2⟩ := hc
              rcases hok.sep hiv hmemO with heq | hlt | hlt
              · subst heq; simp at g2
              · simp at hlt; omega
              · simp at hlt
                have : iv.1 = oe := by omega
                exact ⟨iv.2, by rw [← this]; exact hiv⟩
            · right
              exact ⟨⟨(os, oe), hmemO, by simp; omega, by simp; omega⟩, hc⟩
          · simp only [hlong, if_false]
            exact ⟨_, _, rfl, spec_inside A E hok hmemO hse (by omega)⟩
        · simp only [hsame, if_false]
          have hos' : os < s := by omega
          have hok1 : IvsOK n ((pre.dropLast ++ [(os, s)]) ++ post) := by
            have := ivsOK_shrink hok' hos' (by omega)
            simpa using this
          have he1 : (if e < oe then oe else e) ≤ n := by split <;> omega
          have hse1 : s < (if e < oe then oe else e) := by split <;> omega
          have hpre1 : ∀ iv ∈ pre.dropLast ++ [(os, s)], iv.2 ≤ s := by
            intro iv hiv
            rcases List.mem_append.mp hiv with hx | hx
            · have := hp0 iv hx; omega
            · simp at hx; subst hx; simp
          have hrec1 : ∀ ns ne post', post = (ns, ne) :: post' → ns < (if e < oe then oe else e) → ∀ ivs1 E1, IvsOK n ivs1 →
              ∃ ivs' E', absAdd A f (ivs1, E1) ns (if e < oe then oe else e) = some (ivs', E') ∧
                Spec A n ivs1 E1 ns (if e < oe then oe else e) ivs' E' := by
            intro ns ne post' hp hlt ivs1 E1 hok1
            have hge : oe ≤ ns := by
              have := hpw2.1 (ns, ne) (by rw [hp]; simp)
              simpa using this
            split at hlt
            · omega
            · rename_i hnot
              have := hrecGap e (Nat.le_refl _) ns ne post' hp hlt ivs1 E1 hok1
              simpa [hnot] using this
          obtain ⟨ivs2, E2, hr, second⟩ := absGap_spec A (absAdd A f) E hok1 hse1 he1 hpre1 hpost hrec1
          rw [hr]
          refine ⟨ivs2, _, rfl, ?_⟩
          have second' : Spec A n (pre.dropLast ++ (os, s) :: post) E s (if e < oe then oe else e) ivs2 E2 := by
            simpa using second
          have := spec_cut A hA hok' hos' hin hse second'
          have heq : pre.dropLast ++ (os, oe) :: post = pre ++ post := by
            conv => rhs; rw [hdec]
            simp
          rw [heq] at this
          exact this
      · simp only [hin, if_false]
        apply absGap_spec A _ E hok hse he _ hpost (hrecGap e (Nat.le_refl _))
        intro iv hiv
        rw [hdec] at hiv
        rcases List.mem_append.mp hiv with hx | hx
        · have := hp0 iv hx; omega
        · simp at hx; subst hx; simp; omega

end Amoco.Cfg
