/-
  [C01 extension: the fragment WITH ROTATIONS.  This file is `Proofs/ExprSoundEqn.lean` redone in namespace `Amoco.Rot`, where
   `agnOp`/`Plain` also allow `>>>` (`ror`) and `<<<` (`rol`) nodes; changed proof steps: `api_sstep`, `callOp_sstep`,
   `helperRot_spost` (new), `eqn2tail_sstep`, `eqn2cst_sstep` (rule `l >>> 0 ⇒ l`, lemma `rot_zero`).  Original header follows.]
  Amoco.Proofs.ExprSoundEqn — value-soundness steps for the rewrite rules proper
  (`eqn1 eqn2tail eqn2snd eqn2cst normL normR eqn2norm eqn2`).
-/
import Amoco.Proofs.ExprSoundExtBitslice

namespace Amoco.Rot

open Expr Bits

theorem agn_pm {o : Op} (h : o = Op.add ∨ o = Op.sub) : agnOp o = true := by rcases h with rfl | rfl <;> rfl

theorem pm_cases {o ro x : Op} (h : Op.pm o ro = some x) :
    (o = Op.add ∨ o = Op.sub) ∧ (ro = Op.add ∨ ro = Op.sub) ∧ (x = Op.add ∨ x = Op.sub) := by
  cases o <;> cases ro <;> simp [Op.pm] at h <;> subst h <;> simp

def SPostO (ρ : Val) (v : Nat) (r : R (Option Expr)) : Prop := ∀ e, r = .ok (some e) → Plain e ∧ ideal ρ e = v

theorem SPostO_error (ρ : Val) (v : Nat) (k : Err) : SPostO ρ v (.error k) := by intro e h; cases h
theorem SPostO_none (ρ : Val) (v : Nat) : SPostO ρ v (pure none) := by intro e h; cases h
theorem SPostO_some {ρ : Val} {v : Nat} {e : Expr} (h1 : Plain e) (h2 : ideal ρ e = v) : SPostO ρ v (pure (some e)) := by
  intro e' h; cases h; exact ⟨h1, h2⟩
theorem SPostO_bind {α : Type} {ρ : Val} {v : Nat} (x : R α) (f : α → R (Option Expr)) (h : ∀ a, x = .ok a → SPostO ρ v (f a)) :
    SPostO ρ v (x >>= f) := by
  intro e he
  cases x with
  | error k => cases he
  | ok a => exact h a rfl e he

theorem cstValue_zero {v s : Nat} {f : Bool} (hv : v < 2 ^ s) (h : cstValue v s f = 0) : v = 0 := by
  have := wrap_cstValue v s f hv
  rw [h] at this
  simpa [wrap] using this.symm

theorem cstValue_one {v s : Nat} {f : Bool} (hv : v < 2 ^ s) (hs : 0 < s) (h : cstValue v s f = 1) : v = 1 := by
  have := wrap_cstValue v s f hv
  rw [h] at this
  have e : wrap s ((1 : Nat) : Int) = 1 % 2 ^ s := wrap_of_nat s 1
  have h2 : 2 ≤ 2 ^ s := by
    calc 2 = 2 ^ 1 := rfl
      _ ≤ 2 ^ s := Nat.pow_le_pow_right (by decide) hs
  rw [Nat.mod_eq_of_lt (by omega)] at e
  rw [← this]; exact e

theorem cstValue_pos {v s : Nat} {f : Bool} (hv : v < 2 ^ s) (h : 0 < cstValue v s f) : (cstValue v s f).toNat = v := by
  unfold cstValue at h ⊢
  split at h
  · have : ((v : Int) - ((2 ^ s : Nat) : Int)) < 0 := by omega
    omega
  · rename_i hc; rw [if_neg hc]; simp

theorem maskBounds_sound' (v : Int) (i1 i2 : Nat) (h : maskBounds v = some (i1, i2)) :
    0 < v ∧ v.toNat = maskOf i1 i2 := by
  unfold maskBounds at h
  split at h
  · cases h
  · rename_i hv
    simp only at h
    split at h
    · rename_i hm
      simp only [Option.some.injEq, Prod.mk.injEq] at h
      obtain ⟨rfl, rfl⟩ := h
      simp only [beq_iff_eq] at hm
      exact ⟨by omega, by unfold maskOf; exact hm.symm⟩
    · cases h

theorem testBit_maskOf' (i1 i2 j : Nat) : (maskOf i1 i2).testBit j = xor (decide (j < i2 + 1)) (decide (j < i1)) := by
  unfold maskOf
  rw [Nat.testBit_xor, testBit_two_pow_sub_one, testBit_two_pow_sub_one]

section steps
variable {cfg : Cfg} {ρ : Val} {fuel : Nat} (ih : SoundIH cfg ρ fuel) (eqok : EqOK ρ)
include ih

theorem eqn1_sstep (o : Op) (r : Expr) (size : Nat) (sf : Bool) (prop : Nat) (hr : WF r) (hq : Plain r)
    (hsz : size = r.size) (ho : o = Op.sub ∨ o = Op.not) :
    SPost ρ (unSem o r.size (ideal ρ r)) (eqn1 cfg (fuel + 1) o r size sf prop) := by
  have wih := widthIH_all cfg fuel
  rw [eqn1.eq_def]; dsimp only
  by_cases hnc : r.isCst = false
  swap
  · cases r <;> simp [isCst] at hnc
    apply SPost_bind; intro res hres
    have := ih.callUop o _ hr hq ho res hres
    exact SPost_pure ((Plain_setSf _ _).mpr this.1) (by rw [ideal_setSf]; exact this.2)
  have hself : SPost ρ (unSem o r.size (ideal ρ r)) (Except.ok (uop o r size sf prop)) :=
    SPost_ok (by simp only [Plain]; exact ⟨ho, hnc, hq⟩) (by simp only [ideal])
  split
  · apply SPost_bind; intro res hres
    have := ih.callUop o _ hr hq ho res hres
    exact SPost_pure ((Plain_setSf _ _).mpr this.1) (by rw [ideal_setSf]; exact this.2)
  · simp [Plain] at hq
  · rename_i ro rr rs rf rp
    simp only [WF] at hr
    simp only [Plain] at hq
    split
    · rename_i hpm
      obtain ⟨h1, h2, _⟩ := pm_cases hpm
      have : o = Op.sub ∧ ro = Op.sub := by
        rcases ho with rfl | rfl <;> rcases hq.1 with rfl | rfl <;> simp [Op.pm] at hpm ⊢
      obtain ⟨rfl, rfl⟩ := this
      refine SPost_ok hq.2.2 ?_
      simp only [ideal, size_uop]
      rw [hr.2.2]
      exact (neg_neg _ _ (ideal_lt ρ rr hr.2.1)).symm
    · rename_i hpm
      exfalso
      rcases ho with rfl | rfl <;> rcases hq.1 with rfl | rfl <;> simp [Op.pm] at hpm
    · exact hself
  · rename_i ro rl rr rs rf rp
    have hr' := (WF_op_iff _ _ _ _ _ _).mp hr
    obtain ⟨hpos, _, hwl, hwr, hrs, heq⟩ := hr'
    simp only [Plain] at hq
    obtain ⟨hag, hql, hqr⟩ := hq
    split
    · rename_i hsub
      simp only [beq_iff_eq] at hsub
      subst hsub
      split
      · rename_i x hx
        obtain ⟨_, hro, hxx⟩ := pm_cases hx
        obtain ⟨_, t2, t3, _, n2, n3⟩ := pm_types hx
        apply SPost_bind; intro l hl
        have hlw := wih.apiNeg rl hwl l hl
        have hlv := ih.apiNeg rl hwl hql l hl
        have := ih.api x l rr hlw.1 hwr hlv.1 hqr (agn_pm hxx) (by intro _; rw [hlw.2]; exact heq (by omega))
        refine SPost_of_eq this ?_
        rw [hlv.2, hlw.2, ideal_op_agn ρ ro rl rr rs rf rp hag]
        simp only [size_op]
        rw [hrs, resSize_type1 rl t2 n2]
        exact (neg_of_sum ro x hx _ _ _ _ _).symm
      · exact hself
    · rename_i hnsub
      have hnot : o = Op.not := by rcases ho with rfl | rfl; simp at hnsub; rfl
      subst hnot
      split
      · rename_i hn
        simp only [Bool.and_eq_true, beq_iff_eq] at hn
        have h1 : rs = 1 := by rw [hrs]; simp [resSize, hn.2]
        have hsame : rl.size = rr.size := heq (by omega)
        subst h1
        have hv : ideal ρ (op ro rl rr 1 rf rp) = binSem ro false rl.size (ideal ρ rl) (ideal ρ rr) :=
          ideal_op_agn ρ ro rl rr 1 rf rp hag
        simp only [size_op]
        rw [hv]
        cases ro <;> simp [agnOp, Op.type] at hag hn <;> dsimp only
        · -- eq ⇒ neq
          refine SPost_of_eq (ih.api Op.neq rl rr hwl hwr hql hqr rfl (fun _ => hsame)) ?_
          exact (not_cond Op.eq Op.neq rfl _ _ _ _).symm
        · refine SPost_of_eq (ih.api Op.eq rl rr hwl hwr hql hqr rfl (fun _ => hsame)) ?_
          exact (not_cond Op.neq Op.eq rfl _ _ _ _).symm
        · refine SPost_of_eq (ih.helperCmp Op.ltu rl rr hwl hwr hql hqr hsame (Or.inl rfl)) ?_
          exact (not_cond Op.geu Op.ltu rfl _ _ _ _).symm
        · refine SPost_of_eq (ih.helperCmp Op.geu rl rr hwl hwr hql hqr hsame (Or.inr rfl)) ?_
          exact (not_cond Op.ltu Op.geu rfl _ _ _ _).symm
      · exact hself
  · exact hself

include eqok in
theorem eqn2tail_sstep (opts : Opts) (o : Op) (l r : Expr) (size : Nat) (sf : Bool) (prop : Nat)
    (hw : WF (.op o l r size sf prop)) (hq : Plain (.op o l r size sf prop)) :
    SPost ρ (ideal ρ (.op o l r size sf prop)) (eqn2tail cfg (fuel + 1) opts o l r size sf prop) := by
  rw [eqn2tail.eq_def]; dsimp only
  obtain ⟨hpos, hp, hl, hr, hs, heq⟩ := (WF_op_iff _ _ _ _ _ _).mp hw
  have hq' := hq
  simp only [Plain] at hq'
  obtain ⟨hag, hql, hqr⟩ := hq'
  have hself : SPost ρ (ideal ρ (.op o l r size sf prop)) (Except.ok (op o l r size sf prop)) := SPost_ok hq rfl
  split
  · simp [Plain] at hql
  · simp [Plain] at hqr
  · split
    · rename_i hrender
      simp only [beq_iff_eq] at hrender
      have hv := ideal_op_agn ρ o l r size sf prop hag
      have hsame : o.type ≠ 8 → ideal ρ l = ideal ρ r := fun h8 => eqok l r hl hr hql hqr (heq h8) (Or.inl hrender)
      have hb0 : SPost ρ 0 (Except.ok bit0) := SPost_ok Plain_bit0 (ideal_bit0 ρ)
      have hb1 : SPost ρ 1 (Except.ok (if sf = true then cst 1 1 true else bit1)) :=
        SPost_ok (by split <;> simp [Plain, bit1]) (by split <;> simp [ideal, bit1])
      have hz : SPost ρ 0 (Except.ok (cst 0 size false)) := SPost_ok (by simp [Plain]) (by simp [ideal])
      have hll : SPost ρ (ideal ρ l) (Except.ok l) := SPost_ok hql rfl
      rw [hv]
      have hcases : o = Op.add ∨ o = Op.sub ∨ o = Op.mul ∨ o = Op.and ∨ o = Op.or ∨ o = Op.xor ∨ o = Op.eq ∨ o = Op.neq
          ∨ o = Op.ltu ∨ o = Op.geu ∨ o = Op.lsl ∨ o = Op.lsr ∨ o = Op.asr ∨ o = Op.ror ∨ o = Op.rol := by
        cases o <;> simp [agnOp] at hag <;> simp
      rcases hcases with rfl | rfl | rfl | rfl | rfl | rfl | rfl | rfl | rfl | rfl | rfl | rfl | rfl | rfl | rfl
      · rw [if_neg (by decide), if_neg (by decide), if_neg (by decide), if_neg (by decide)]; rw [← hv]; exact hself
      · rw [if_neg (by decide), if_neg (by decide), if_pos (by decide), hsame (by decide), x_sub_x]; exact hz
      · rw [if_neg (by decide), if_neg (by decide), if_neg (by decide), if_neg (by decide)]; rw [← hv]; exact hself
      · rw [if_neg (by decide), if_neg (by decide), if_neg (by decide), if_pos (by decide), ← hsame (by decide), x_and_x]; exact hll
      · rw [if_neg (by decide), if_neg (by decide), if_neg (by decide), if_pos (by decide), ← hsame (by decide), x_or_x]; exact hll
      · rw [if_neg (by decide), if_neg (by decide), if_pos (by decide), hsame (by decide), x_xor_x]; exact hz
      · rw [if_neg (by decide), if_pos (by decide), hsame (by decide), x_cmp_x_true _ (Or.inl rfl)]; exact hb1
      · rw [if_pos (by decide), hsame (by decide), x_cmp_x_false _ (Or.inl rfl)]; exact hb0
      · rw [if_neg (by decide), if_neg (by decide), if_neg (by decide), if_neg (by decide)]; rw [← hv]; exact hself
      · rw [if_neg (by decide), if_neg (by decide), if_neg (by decide), if_neg (by decide)]; rw [← hv]; exact hself
      · rw [if_neg (by decide), if_neg (by decide), if_neg (by decide), if_neg (by decide)]; rw [← hv]; exact hself
      · rw [if_neg (by decide), if_neg (by decide), if_neg (by decide), if_neg (by decide)]; rw [← hv]; exact hself
      · rw [if_neg (by decide), if_neg (by decide), if_neg (by decide), if_neg (by decide)]; rw [← hv]; exact hself
      · rw [if_neg (by decide), if_neg (by decide), if_neg (by decide), if_neg (by decide)]; rw [← hv]; exact hself
      · rw [if_neg (by decide), if_neg (by decide), if_neg (by decide), if_neg (by decide)]; rw [← hv]; exact hself
    · exact hself

/-- result of a normalisation step: still `Plain`, same value -/
def SameT (ρ : Val) (o : Op) (l r : Expr) (size : Nat) (sf : Bool) (prop : Nat) (t : Op × Expr × Expr) : Prop :=
  Plain (.op t.1 t.2.1 t.2.2 size sf prop) ∧ ideal ρ (.op t.1 t.2.1 t.2.2 size sf prop) = ideal ρ (.op o l r size sf prop)

theorem normL_sstep (o : Op) (l r : Expr) (size : Nat) (sf : Bool) (prop : Nat)
    (hw : WF (.op o l r size sf prop)) (hq : Plain (.op o l r size sf prop)) :
    ∀ t, normL cfg (fuel + 1) o l r = .ok t → SameT ρ o l r size sf prop t := by
  have wih := widthIH_all cfg fuel
  rw [normL.eq_def]; dsimp only
  have same : ∀ t, (pure (o, l, r) : R (Op × Expr × Expr)) = .ok t → SameT ρ o l r size sf prop t := by
    intro t ht; cases ht; exact ⟨hq, rfl⟩
  obtain ⟨hpos, hp, hl, hr, hs, heq⟩ := (WF_op_iff _ _ _ _ _ _).mp hw
  have hq' := hq
  simp only [Plain] at hq'
  obtain ⟨hag, hql, hqr⟩ := hq'
  split
  · split
    · split
      · rename_i lo ll lr ls lf lp _ _ x hx
        obtain ⟨t1, t2, t3, n1, n2, n3⟩ := pm_types hx
        obtain ⟨ho, hlo, _⟩ := pm_cases hx
        obtain ⟨_, _, hll, hlr, hls, hleq⟩ := (WF_op_iff _ _ _ _ _ _).mp hl
        simp only [Plain] at hql
        obtain ⟨hagl, hqll, hqlr⟩ := hql
        intro t ht
        cases hc : callOp cfg fuel o ll r with
        | error e => rw [hc] at ht; cases ht
        | ok nl =>
          rw [hc] at ht
          simp only [bind, Except.bind, pure, Except.pure] at ht
          cases ht
          have hsz1 : ll.size = r.size := by
            have := heq (by omega); simp only [size_op] at this
            rw [← this, hls, resSize_type1 _ t2 n2]
          have hn := wih.callOp o ll r hll hr (by intro h; omega) nl hc
          have hv := ih.callOp o ll r hll hr hqll hqr hag (fun _ => hsz1) nl hc
          rw [resSize_type1 _ t1 n1] at hn
          rw [resSize_type1 _ t2 n2] at hls
          refine ⟨by simp only [Plain]; exact ⟨hagl, hv.1, hqlr⟩, ?_⟩
          show ideal ρ (.op lo nl lr size sf prop) = _
          rw [ideal_op_agn ρ lo nl lr size sf prop hagl, ideal_op_agn ρ o _ r size sf prop hag,
            ideal_op_agn ρ lo ll lr ls lf lp hagl, hv.2, hn.2]
          simp only [size_op, hls]
          exact (reassoc_pm_left o lo ho hlo _ _ _ _ _ _ _ _).symm
      · exact same
    · exact same
  · exact same

theorem normR_sstep (o : Op) (l r : Expr) (size : Nat) (sf : Bool) (prop : Nat)
    (hw : WF (.op o l r size sf prop)) (hq : Plain (.op o l r size sf prop)) :
    ∀ t, normR cfg (fuel + 1) o l r = .ok t → SameT ρ o l r size sf prop t := by
  have wih := widthIH_all cfg fuel
  rw [normR.eq_def]; dsimp only
  have same : ∀ t, (pure (o, l, r) : R (Op × Expr × Expr)) = .ok t → SameT ρ o l r size sf prop t := by
    intro t ht; cases ht; exact ⟨hq, rfl⟩
  obtain ⟨hpos, hp, hl, hr, hs, heq⟩ := (WF_op_iff _ _ _ _ _ _).mp hw
  have hq' := hq
  simp only [Plain] at hq'
  obtain ⟨hag, hql, hqr⟩ := hq'
  split
  · split
    · split
      · rename_i ro rl rr rs rf rp _ _ x hx
        obtain ⟨t1, t2, t3, n1, n2, n3⟩ := pm_types hx
        obtain ⟨ho, hro, hxx⟩ := pm_cases hx
        obtain ⟨_, _, hrl, hrr, hrs, hreq⟩ := (WF_op_iff _ _ _ _ _ _).mp hr
        simp only [Plain] at hqr
        obtain ⟨hagr, hqrl, hqrr⟩ := hqr
        intro t ht
        cases hc : callOp cfg fuel o l rl with
        | error e => rw [hc] at ht; cases ht
        | ok nl =>
          rw [hc] at ht
          simp only [bind, Except.bind, pure, Except.pure] at ht
          cases ht
          rw [resSize_type1 _ t2 n2] at hrs
          have hsz1 : l.size = rl.size := by
            have := heq (by omega); simp only [size_op] at this
            omega
          have hn := wih.callOp o l rl hl hrl (by intro h; omega) nl hc
          have hv := ih.callOp o l rl hl hrl hql hqrl hag (fun _ => hsz1) nl hc
          rw [resSize_type1 _ t1 n1] at hn
          refine ⟨by simp only [Plain]; exact ⟨agn_pm hxx, hv.1, hqrr⟩, ?_⟩
          show ideal ρ (.op x nl rr size sf prop) = _
          rw [ideal_op_agn ρ x nl rr size sf prop (agn_pm hxx), ideal_op_agn ρ o l _ size sf prop hag,
            ideal_op_agn ρ ro rl rr rs rf rp hagr, hv.2, hn.2, ← hsz1]
          exact (reassoc_pm_right o ro x hx _ _ _ _ _ _ _ _).symm
      · exact same
    · exact same
  · split
    · split
      · intro t ht; cases ht
      · exact same
    · exact same
  · exact same

omit ih in
theorem normNeg_sound (o : Op) (l r : Expr) (size : Nat) (sf : Bool) (prop : Nat) (hw : WF (.op o l r size sf prop))
    (hq : Plain (.op o l r size sf prop)) : SameT ρ o l r size sf prop ((normNeg o r).1, l, (normNeg o r).2) := by
  unfold normNeg
  split
  · rename_i ro rr rs rf rp
    split
    · rename_i hc
      simp only [Bool.and_eq_true, beq_iff_eq] at hc
      obtain ⟨rfl, rfl⟩ := hc
      obtain ⟨hpos, hp, hl, hr, hs, heq⟩ := (WF_op_iff _ _ _ _ _ _).mp hw
      simp only [WF] at hr
      simp only [Plain] at hq
      refine ⟨by simp only [Plain]; exact ⟨rfl, hq.2.1, hq.2.2.2.2⟩, ?_⟩
      show ideal ρ (.op Op.sub l rr size sf prop) = _
      rw [ideal_op_agn ρ Op.sub l rr size sf prop rfl, ideal_op_agn ρ Op.add l _ size sf prop rfl]
      simp only [ideal]
      have h2 := heq (by simp [Op.type])
      simp only [size_uop] at h2
      rw [hr.2.2] at h2
      rw [← h2]
      exact (add_neg_to_sub _ _ _ _).symm
    · exact ⟨hq, rfl⟩
  · exact ⟨hq, rfl⟩

theorem eqn2norm_sstep (o : Op) (l r : Expr) (size : Nat) (sf : Bool) (prop : Nat)
    (hw : WF (.op o l r size sf prop)) (hq : Plain (.op o l r size sf prop)) :
    ∀ t, eqn2norm cfg (fuel + 1) o l r = .ok t → SameT ρ o l r size sf prop t := by
  have wih := widthIH_all cfg fuel
  intro t h
  rw [eqn2norm.eq_def] at h; dsimp only at h
  cases h1 : normL cfg fuel o l r with
  | error e => rw [h1] at h; cases h
  | ok t1 =>
    rw [h1] at h
    simp only [bind, Except.bind] at h
    have w1 := wih.normL o l r size sf prop hw t1 h1
    have s1 := ih.normL o l r size sf prop hw hq t1 h1
    have w2 := WF_normNeg t1.1 t1.2.1 t1.2.2 size sf prop w1
    have s2 := normNeg_sound (ρ := ρ) t1.1 t1.2.1 t1.2.2 size sf prop w1 s1.1
    have s3 := ih.normR _ _ _ size sf prop w2 s2.1 t h
    exact ⟨s3.1, by rw [s3.2, s2.2, s1.2]⟩

include eqok in
theorem eqn2snd_sstep (opts : Opts) (o : Op) (l : Expr) (rv rs : Nat) (rf : Bool) (size : Nat) (sf : Bool) (prop : Nat)
    (hw : WF (.op o l (.cst rv rs rf) size sf prop)) (hq : Plain (.op o l (.cst rv rs rf) size sf prop))
    (hwd : OptsOK opts) :
    SPost ρ (ideal ρ (.op o l (.cst rv rs rf) size sf prop)) (eqn2snd cfg (fuel + 1) opts o l rv rs rf size sf prop) := by
  have wih := widthIH_all cfg fuel
  rw [eqn2snd.eq_def]; dsimp only
  obtain ⟨hpos, hp, hl, hr, hs, heq⟩ := (WF_op_iff _ _ _ _ _ _).mp hw
  have hq' := hq
  simp only [Plain] at hq'
  obtain ⟨hag, hql, hqr⟩ := hq'
  have htail := ih.eqn2tail opts o l (.cst rv rs rf) size sf prop hw hq
  have hv := ideal_op_agn ρ o l (.cst rv rs rf) size sf prop hag
  have hrv : ideal ρ (.cst rv rs rf) = rv := ideal_lt_of_WF_cst hr
  have hself : SPost ρ (ideal ρ (.op o l (.cst rv rs rf) size sf prop)) (pure (op o l (cst rv rs rf) size sf prop)) :=
    SPost_pure hq rfl
  -- the `== bit` rules
  have bitrule : SPost ρ (ideal ρ (.op o l (.cst rv rs rf) size sf prop))
      (if (rs == 1 && o == Op.eq) = true then
          if (rv == 1) = true then Except.ok l else apiNot cfg fuel l
        else if (rs == 1 && o == Op.neq) = true then
          if (rv == 1) = true then apiNot cfg fuel l else Except.ok l
        else eqn2tail cfg fuel opts o l (cst rv rs rf) size sf prop) := by
    split
    · rename_i h
      simp only [Bool.and_eq_true, beq_iff_eq] at h
      obtain ⟨h1, rfl⟩ := h
      subst h1
      have e2 : l.size = 1 := by have := heq (by simp [Op.type]); simpa using this
      have hl2 : ideal ρ l < 2 := by have := ideal_lt ρ l hl; rw [e2] at this; simpa using this
      have hr2 : rv < 2 := by have := hr.2; simpa using this
      rw [hv, hrv, e2]
      split
      · rename_i h1
        simp only [beq_iff_eq] at h1
        subst h1
        exact SPost_ok hql (eq_bit1 _ _ hl2).symm
      · rename_i h1
        simp only [beq_iff_eq] at h1
        have : rv = 0 := by omega
        subst this
        refine SPost_of_eq (ih.apiNot l hl hql) ?_
        rw [e2]; exact (eq_bit0 _ _ hl2).symm
    · split
      · rename_i h
        simp only [Bool.and_eq_true, beq_iff_eq] at h
        obtain ⟨h1, rfl⟩ := h
        subst h1
        have e2 : l.size = 1 := by have := heq (by simp [Op.type]); simpa using this
        have hl2 : ideal ρ l < 2 := by have := ideal_lt ρ l hl; rw [e2] at this; simpa using this
        have hr2 : rv < 2 := by have := hr.2; simpa using this
        rw [hv, hrv, e2]
        split
        · rename_i h1
          simp only [beq_iff_eq] at h1
          subst h1
          refine SPost_of_eq (ih.apiNot l hl hql) ?_
          rw [e2]; exact (neq_bit1 _ _ hl2).symm
        · rename_i h1
          simp only [beq_iff_eq] at h1
          have : rv = 0 := by omega
          subst this
          exact SPost_ok hql (neq_bit0 _ _ hl2).symm
      · exact htail
  split
  · -- l = op lo ll lr
    rename_i lo ll lr ls lf lp
    split
    · rename_i x hx
      obtain ⟨t1, t2, t3, n1, n2, n3⟩ := pm_types hx
      obtain ⟨ho, hlo, hxx⟩ := pm_cases hx
      split
      · apply SPost_bind; intro cc hcc
        obtain ⟨_, _, hll, hlr, hls, hleq⟩ := (WF_op_iff _ _ _ _ _ _).mp hl
        simp only [Plain] at hql
        obtain ⟨hagl, hqll, hqlr⟩ := hql
        rw [resSize_type1 _ t2 n2] at hls
        have hsz1 : lr.size = rs := by
          have h1 := heq (by omega); have h2 := hleq (by omega)
          simp only [size_op, size_cst] at h1; omega
        have hc := wih.api x lr (.cst rv rs rf) hlr hr (by intro h; omega) cc hcc
        have hcv := ih.api x lr (.cst rv rs rf) hlr hr hqlr hqr (agn_pm hxx) (fun _ => hsz1) cc hcc
        refine SPost_pure (by simp only [Plain]; exact ⟨hagl, hqll, hcv.1⟩) ?_
        rw [ideal_op_agn ρ lo ll cc size sf prop hagl, hv, ideal_op_agn ρ lo ll lr ls lf lp hagl, hcv.2, hrv]
        simp only [size_op, hls]
        rw [← hleq (by omega)]
        exact (merge_consts o lo x hx _ _ _ _ _ _ _ _).symm
      · exact hself
    · exact bitrule
  · -- l = uop lo lr
    rename_i lo lr ls lf lp
    split
    · split
      · rename_i hcst
        simp only [Plain] at hql
        rw [hql.2.1] at hcst; cases hcst
      · exact hself
    · exact bitrule
  · -- ptr
    simp [Plain] at hql
  · -- comp
    rename_i lsize lsf lparts
    split
    · rename_i hop
      simp only [Bool.or_eq_true, beq_iff_eq] at hop
      have ht2 : o.type = 2 ∧ o ≠ Op.mul2 := by rcases hop with (rfl | rfl) | rfl <;> simp [Op.type]
      have hl' := hl
      simp only [WF] at hl'
      obtain ⟨hlpos, hlt, hlw⟩ := hl'
      have hlw' := (WFParts_iff _).mp hlw
      have hlq := (plainParts_iff lparts).mp (by simpa only [Plain] using hql)
      have hsz : size = lsize := by rw [hs]; simp [resSize, ht2.1, ht2.2]
      have hrs : lsize = rs := by have := heq (by omega); simpa using this
      apply SPost_bind; intro cc hcc
      have hstep : ∀ (c : Expr) (p : Part) (r : Expr), p ∈ lparts →
          (do let rp ← getitem cfg fuel (cst rv rs rf) (p.1 : Int) (p.2.1 : Int)
              let v ← callOp cfg fuel o p.2.2 rp
              setitem cfg fuel c (p.1 : Int) (p.2.1 : Int) v) = .ok r →
          ∃ v, WF v ∧ Plain v ∧ ideal ρ v = binSem o false (p.2.1 - p.1) (ideal ρ p.2.2) (bitsOf rv p.1 (p.2.1 - p.1)) ∧
            setitem cfg fuel c ((0 + p.1 : Nat) : Int) ((0 + p.2.1 : Nat) : Int) v = .ok r := by
        intro c p r hp hstep
        have hps := hlt.1 p hp
        cases h1 : getitem cfg fuel (cst rv rs rf) (p.1 : Int) (p.2.1 : Int) with
        | error e => rw [h1] at hstep; cases hstep
        | ok rp =>
          rw [h1] at hstep
          simp only [bind, Except.bind] at hstep
          cases h2 : callOp cfg fuel o p.2.2 rp with
          | error e => rw [h2] at hstep; cases hstep
          | ok v =>
            rw [h2] at hstep
            have hrp := wih.getitem _ _ _ hr rp h1
            have hrpv := ih.getitem _ _ _ hr hqr rp h1
            have hsame : p.2.2.size = rp.size := by rw [hrp.2, hps.2.2]; omega
            have hvw := wih.callOp o p.2.2 rp (hlw' p hp) hrp.1 (by intro h; omega) v h2
            have hvv := ih.callOp o p.2.2 rp (hlw' p hp) hrp.1 (hlq p hp) hrpv.1 hag (fun _ => hsame) v h2
            refine ⟨v, hvw.1, hvv.1, ?_, by simpa using hstep⟩
            rw [hvv.2, hrpv.2, hrv, hps.2.2]
            simp
      obtain ⟨ps', rfl, hd', hw', hq', hb'⟩ := setitem_foldSem ih lsize sf 0 _
        (fun p => binSem o false (p.2.1 - p.1) (ideal ρ p.2.2) (bitsOf rv p.1 (p.2.1 - p.1))) lparts hstep
        [] cc (Disj_nil _) (by intro p hp; cases hp) (by intro p hp; cases hp) hcc
      obtain ⟨ps'', e'', hd'', hw'', hc''⟩ := setitem_foldS wih lsize sf _ lparts (by
          intro c p r hp hst
          obtain ⟨v, hv1, _, _, hv4⟩ := hstep c p r hp hst
          exact ⟨v, hv1, by simpa using hv4⟩)
        [] _ (Disj_nil _) (by intro p hp; cases hp) hcc
      cases e''
      have htl : Tiles lsize ps' := by
        refine tiles_of_disj_cnt hd' ?_
        intro x hx
        rw [hc'' x, if_pos ((tiles_exists hlt x).mpr hx)]
      have := ih.simplify { bitslice := opts.bitslice } (Expr.comp lsize sf ps')
        (by simp only [WF]; exact ⟨hlpos, htl, (WFParts_iff _).mpr hw'⟩)
        (by simp only [Plain]; exact (plainParts_iff _).mpr hq') (show OptsOK { bitslice := opts.bitslice } from rfl)
      refine SPost_of_eq this ?_
      rw [hv, hrv]
      simp only [size_comp]
      have hA := ideal_lt ρ _ hl
      simp only [size_comp] at hA
      have hB : rv < 2 ^ lsize := by rw [hrs]; exact hr.2
      apply Nat.eq_of_testBit_eq; intro j
      rw [ideal_comp_testBit ρ _ _ _ hd', hb' j, foldBits_cover 0 _ lsize j lparts _ hlt.disj]
      simp only [Nat.zero_le, if_true, Nat.sub_zero]
      have hbitA : ∀ j, (ideal ρ (comp lsize lsf lparts)).testBit j = tbit ρ lparts j :=
        ideal_comp_testBit ρ _ _ _ hlt.disj
      by_cases hj : j < lsize
      · have hsome := cover_isSome_of_cnt (b := j) (ps := lparts) (by
          have := hlt.2 j hj
          change cnt j lparts = 1 at this
          show 1 ≤ cnt _ _; omega)
        cases hcv : cover j lparts with
        | none => rw [hcv] at hsome; cases hsome
        | some p =>
          obtain ⟨hm, h1, h2⟩ := cover_spec hcv
          have hps := hlt.1 p hm
          have hbA : (ideal ρ (comp lsize lsf lparts)).testBit j = (ideal ρ p.2.2).testBit (j - p.1) := by
            rw [hbitA j]; exact tbit_of_mem ρ hlt.disj hm ⟨h1, h2⟩
          have hbB : (bitsOf rv p.1 (p.2.1 - p.1)).testBit (j - p.1) = rv.testBit j := by
            rw [testBit_bitsOf]
            have e1 : j - p.1 < p.2.1 - p.1 := by omega
            have e2 : p.1 + (j - p.1) = j := by omega
            simp [e1, e2]
          simp only
          rcases hop with (rfl | rfl) | rfl
          · simp only [binSem, Nat.testBit_and, hbA, hbB]
          · simp only [binSem, Nat.testBit_or, hbA, hbB]
          · simp only [binSem, Nat.testBit_xor, hbA, hbB]
      · have h0 : cnt j lparts = 0 := cnt_zero_of_sized hlt.1 (by omega)
        rw [cover_none_of_cnt h0]
        simp only
        have hbA := testBit_of_lt _ _ j hA (by omega)
        have hbB := testBit_of_lt _ _ j hB (by omega)
        have hnil : tbit ρ [] j = false := by simp [tbit, cover]
        rcases hop with (rfl | rfl) | rfl
        · simp only [binSem, Nat.testBit_and, hbA, hbB, Bool.and_self, hnil]
        · simp only [binSem, Nat.testBit_or, hbA, hbB, Bool.or_self, hnil]
        · simp only [binSem, Nat.testBit_xor, hbA, hbB, Bool.xor_self, hnil]
    · exact htail
  · -- cst
    apply SPost_bind; intro res hres
    have := ih.callOp o _ _ hl hr hql hqr hag heq res hres
    exact SPost_pure ((Plain_setSf _ _).mpr this.1) (by rw [ideal_setSf, this.2, hv])
  · exact htail

/-- `c = comp(n); c[0:n] = cst(0,n); c[a:b] = piece; c.simplify()` — the mask / shift rules -/
theorem zero_then_piece_sem (n : Nat) (sf : Bool) (a b : Int) (piece c1 c2 y : Expr) (hn : 0 < n) (hp : WF piece)
    (hpp : Plain piece)
    (h1 : setitem cfg fuel (Expr.comp n sf []) 0 n (cst 0 n false) = .ok c1)
    (h2 : setitem cfg fuel c1 a b piece = .ok c2)
    (hy : simplify cfg fuel {} c2 = .ok y) :
    Plain y ∧ ∀ j : Nat, (ideal ρ y).testBit j =
      (decide (a ≤ (j : Int) ∧ (j : Int) < b) && (ideal ρ piece).testBit (j - a.toNat)) := by
  have wih := widthIH_all cfg fuel
  have hz : WF (cst 0 n false) := by simp only [WF]; exact ⟨hn, Nat.two_pow_pos _⟩
  obtain ⟨ps1, rfl, hd1, hw1, _, _, _, hc1⟩ := wih.setitem n sf [] 0 n (cst 0 n false) c1 (Disj_nil _)
    (by intro p hp; cases hp) hz h1
  obtain ⟨ps1', e1, hq1, hb1⟩ := ih.setitem n sf [] 0 n (cst 0 n false) _ (Disj_nil _)
    (by intro p hp; cases hp) (by intro p hp; cases hp) hz (by simp [Plain]) h1
  cases e1
  obtain ⟨ps2, rfl, hd2, hw2, _, _, _, hc2⟩ := wih.setitem n sf ps1 a b piece c2 hd1 hw1 hp h2
  obtain ⟨ps2', e2, hq2, hb2⟩ := ih.setitem n sf ps1 a b piece _ hd1 hw1 hq1 hp hpp h2
  cases e2
  have htl : Tiles n ps2 := by
    refine tiles_of_disj_cnt hd2 ?_
    intro x hx
    rw [hc2 x, hc1 x]
    have : ((0 : Int) ≤ (x : Int) ∧ (x : Int) < (n : Int)) := by omega
    rw [if_pos this]
    split <;> rfl
  have := ih.simplify {} _ (by simp only [WF]; exact ⟨hn, htl, (WFParts_iff _).mpr hw2⟩)
    (by simp only [Plain]; exact (plainParts_iff _).mpr hq2) OptsOK_default y hy
  refine ⟨this.1, ?_⟩
  intro j
  rw [this.2, ideal_comp_testBit ρ _ _ _ hd2, hb2 j]
  by_cases hj : a ≤ (j : Int) ∧ (j : Int) < b
  · simp [hj]
  · rw [if_neg hj, hb1 j]
    have : tbit ρ [] j = false := by simp [tbit, cover]
    simp [hj, ideal, this]

theorem eqn2cst_sstep (opts : Opts) (o : Op) (l : Expr) (rv rs : Nat) (rf : Bool) (size : Nat) (sf : Bool) (prop : Nat)
    (hw : WF (.op o l (.cst rv rs rf) size sf prop)) (hq : Plain (.op o l (.cst rv rs rf) size sf prop))
    (hopt : OptsOK opts) :
    SPostO ρ (ideal ρ (.op o l (.cst rv rs rf) size sf prop)) (eqn2cst cfg (fuel + 1) opts o l rv rs rf size sf) := by
  have wih := widthIH_all cfg fuel
  rw [eqn2cst.eq_def]; dsimp only
  obtain ⟨hpos, hp, hl, hr, hs, heq⟩ := (WF_op_iff _ _ _ _ _ _).mp hw
  have hlpos := WF_size_pos l hl
  have hq' := hq
  simp only [Plain] at hq'
  obtain ⟨hag, hql, hqr⟩ := hq'
  have hv := ideal_op_agn ρ o l (.cst rv rs rf) size sf prop hag
  have hrv : ideal ρ (.cst rv rs rf) = rv := ideal_lt_of_WF_cst hr
  rw [hv, hrv]
  have hll := ideal_lt ρ l hl
  have szl : ∀ {o' : Op}, o = o' → o'.type ≠ 4 → o' ≠ Op.mul2 → l.size = size := by
    intro o' h h4 hm; subst h; rw [hs]; simp [resSize, h4, hm]
  split
  · -- value = 0
    rename_i hval
    have hr0 : rv = 0 := cstValue_zero hr.2 hval
    subst hr0
    split
    · rename_i h
      refine SPostO_some hql ?_
      simp only [Bool.or_eq_true, beq_iff_eq] at h
      rcases h with ((((((h | h) | h) | h) | h) | h) | h) | h
      · subst h; exact (op_zero_right _ (Or.inl rfl) _ _ _ hll hlpos).symm
      · subst h; exact (op_zero_right _ (Or.inr (Or.inl rfl)) _ _ _ hll hlpos).symm
      · subst h; exact (op_zero_right _ (Or.inr (Or.inr (Or.inl rfl))) _ _ _ hll hlpos).symm
      · subst h; exact (op_zero_right _ (Or.inr (Or.inr (Or.inr (Or.inl rfl)))) _ _ _ hll hlpos).symm
      · subst h; exact (op_zero_right _ (Or.inr (Or.inr (Or.inr (Or.inr (Or.inl rfl))))) _ _ _ hll hlpos).symm
      · subst h; exact (op_zero_right _ (Or.inr (Or.inr (Or.inr (Or.inr (Or.inr rfl))))) _ _ _ hll hlpos).symm
      · subst h; exact (rot_zero _ (Or.inl rfl) _ _ _ hll).symm
      · subst h; exact (rot_zero _ (Or.inr rfl) _ _ _ hll).symm
    · split
      · rename_i h
        refine SPostO_some (by simp [Plain]) ?_
        simp only [Bool.or_eq_true, beq_iff_eq] at h
        rcases h with (h | h) | h
        · subst h; simp only [ideal, Nat.zero_mod]; exact (op_zero_absorb _ (Or.inl rfl) _ _ _).symm
        · subst h; simp only [ideal, Nat.zero_mod]; exact (op_zero_absorb _ (Or.inr rfl) _ _ _).symm
        · subst h; simp [agnOp] at hag
      · rw [Plain_notExt hql]
        simp only [Bool.and_false, Bool.false_eq_true, if_false]
        exact SPostO_none _ _
  · rename_i hval
    split
    · rename_i h
      simp only [Bool.and_eq_true, decide_eq_true_eq, Bool.or_eq_true, beq_iff_eq] at h
      have hr1 : rv = 1 := cstValue_one hr.2 hr.1 h.1
      subst hr1
      refine SPostO_some hql ?_
      rcases h.2 with h' | h'
      · subst h'; exact (mul_one _ _ _ hll).symm
      · subst h'; simp [agnOp] at hag
    · split
      · rename_i h
        simp only [Bool.and_eq_true, decide_eq_true_eq, beq_iff_eq] at h
        obtain ⟨_, rfl⟩ := h
        simp [agnOp] at hag
      · split
        · -- mask to slice
          rename_i i1 i2 hm
          have ho : o = Op.and := by
            by_contra hne
            have : (o == Op.and) = false := by simpa using hne
            simp [this] at hm
          subst ho
          simp only [beq_self_eq_true, if_true] at hm
          obtain ⟨hvpos, hmask⟩ := maskBounds_sound' _ _ _ hm
          rw [cstValue_pos hr.2 hvpos] at hmask
          have hsz := szl rfl (by simp [Op.type]) (by simp)
          apply SPostO_bind; intro c1 h1
          apply SPostO_bind; intro piece hpc
          apply SPostO_bind; intro c2 h2
          apply SPostO_bind; intro y hy
          have hpw := wih.getitem l _ _ hl piece hpc
          have hpv := ih.getitem l _ _ hl hql piece hpc
          have := zero_then_piece_sem ih size sf _ _ piece c1 c2 y hpos hpw.1 hpv.1 h1 h2 hy
          refine SPostO_some this.1 ?_
          apply Nat.eq_of_testBit_eq; intro j
          rw [this.2 j, hpv.2, testBit_bitsOf]
          simp only [binSem, Nat.testBit_and, hmask, testBit_maskOf', Int.toNat_natCast, Nat.cast_le, Nat.cast_lt]
          -- the slice is only taken when `i1 < i2 + 1`
          obtain ⟨_, hab, _⟩ : (0 : Int) ≤ (i1 : Int) ∧ (i1 : Int) < ((i2 : Int) + 1) ∧ ((i2 : Int) + 1) ≤ (l.size : Int) := by
            cases fuel with
            | zero => rw [getitem.eq_def] at hpc; cases hpc
            | succ k =>
              rw [getitem.eq_def] at hpc; dsimp only at hpc
              cases hcs : checkSlice l.size (i1 : Int) ((i2 : Int) + 1) with
              | error e => rw [hcs] at hpc; cases hpc
              | ok u => exact checkSlice_ok hcs
          by_cases h1 : i1 ≤ j
          · by_cases h2 : j < i2 + 1
            · have e1 : j - i1 < i2 + 1 - i1 := by omega
              have e2 : i1 + (j - i1) = j := by omega
              have e3 : ¬ j < i1 := by omega
              have e4 : ((i1 : Int) ≤ (j : Int) ∧ (j : Int) < (i2 : Int) + 1) := by omega
              simp [h1, h2, e1, e2, e3, e4]
            · have e4 : ¬ ((i1 : Int) ≤ (j : Int) ∧ (j : Int) < (i2 : Int) + 1) := by omega
              have e3 : ¬ j < i1 := by omega
              simp [h2, e3]
              intro _ hh; omega
          · have e4 : ¬ ((i1 : Int) ≤ (j : Int) ∧ (j : Int) < (i2 : Int) + 1) := by omega
            have e3 : j < i1 := by omega
            have e5 : j < i2 + 1 := by omega
            simp [e3, e4, e5]
        · have testBit_lt : ∀ (V n : Nat), V < 2 ^ n → ∀ j, V.testBit j = (decide (j < n) && V.testBit j) := by
            intro V n hV j
            by_cases hj : j < n
            · simp [hj]
            · simp [hj, testBit_of_lt V n j hV (by omega)]
          split
          · -- bitslice of a logic operator
            rename_i h
            simp only [Bool.and_eq_true, Bool.or_eq_true, beq_iff_eq] at h
            have ho : o = Op.and ∨ o = Op.or ∨ o = Op.xor := by
              rcases h.2 with (h' | h') | h'
              · exact Or.inl h'
              · exact Or.inr (Or.inl h')
              · exact Or.inr (Or.inr h')
            have hsz : l.size = size := by
              rcases ho with h' | h' | h' <;> exact szl h' (by simp [Op.type]) (by simp)
            have hrs : l.size = rs := by
              have := heq (by rcases ho with rfl | rfl | rfl <;> simp [Op.type]); simpa using this
            apply SPostO_bind; intro bits hbits
            obtain ⟨hlen, hok⟩ := bitslice_logic_bits ih o ho l rv rs rf size l.size hl hql hr bits hbits
            apply SPostO_bind; intro c hc
            have hV : binSem o false l.size (ideal ρ l) rv < 2 ^ size := by
              have := binSem_lt o false l.size (ideal ρ l) rv hll (fun _ => by rw [hrs]; exact hr.2) hlpos
              rcases ho with rfl | rfl | rfl <;> simpa [Op.type, hsz] using this
            have := compose_bits_sem ih bits sf _ (binSem o false l.size (ideal ρ l) rv) hok
              (by intro j; rw [hlen]; exact testBit_lt _ _ hV j) c hc
            exact SPostO_some this.1 this.2
          · split
            · rename_i h
              simp only [Bool.and_eq_true, Bool.or_eq_true, beq_iff_eq, decide_eq_true_eq] at h
              refine SPostO_some (by simp [Plain]) ?_
              simp only [ideal, Nat.zero_mod]
              rcases h.1 with h' | h'
              · subst h'; simp only [binSem]; rw [if_pos h.2]
              · subst h'; simp only [binSem]; exact (shr_ge_width _ _ _ hll h.2).symm
            · rename_i hge
              simp only [Bool.and_eq_true, Bool.or_eq_true, beq_iff_eq, decide_eq_true_eq, not_and, not_le] at hge
              split
              · -- bitslice shl
                rename_i h
                simp only [Bool.and_eq_true, beq_iff_eq] at h
                obtain ⟨_, rfl⟩ := h
                have hsz := szl rfl (by simp [Op.type]) (by simp)
                have hlt := hge (Or.inl rfl)
                apply SPostO_bind; intro bits hbits
                obtain ⟨hlen, _, hok⟩ := bits_of_sem ih l hl hql _ _ bits hbits
                have hok2 := BitsOK_append (BitsOK_bit0s ρ rv) hok
                apply SPostO_bind; intro c hc
                have := compose_bits_sem ih (bit0s rv ++ bits) sf _ (binSem Op.lsl false l.size (ideal ρ l) rv) hok2
                  (by
                    intro j
                    have hl1 : (bit0s rv).length = rv := by simp [bit0s]
                    have hl2 : (bit0s rv ++ bits).length = l.size := by
                      rw [List.length_append, hl1, hlen]; omega
                    rw [hl2, hl1]
                    simp only [binSem]
                    rw [if_neg (by omega), Nat.testBit_mod_two_pow, Nat.testBit_shiftLeft]
                    simp only [Int.toNat_zero, Nat.zero_add]
                    by_cases h1 : j < rv
                    · have : ¬ j ≥ rv := by omega
                      simp [h1, this]
                    · have : j ≥ rv := by omega
                      simp [h1, this]) c hc
                exact SPostO_some this.1 this.2
              · split
                · -- bitslice shr
                  rename_i h
                  simp only [Bool.and_eq_true, beq_iff_eq] at h
                  obtain ⟨_, rfl⟩ := h
                  have hsz := szl rfl (by simp [Op.type]) (by simp)
                  have hlt := hge (Or.inr rfl)
                  apply SPostO_bind; intro bits hbits
                  obtain ⟨hlen, _, hok⟩ := bits_of_sem ih l hl hql _ _ bits hbits
                  have hok2 := BitsOK_append hok (BitsOK_bit0s ρ rv)
                  apply SPostO_bind; intro c hc
                  have := compose_bits_sem ih (bits ++ bit0s rv) sf _ (binSem Op.lsr false l.size (ideal ρ l) rv) hok2
                    (by
                      intro j
                      have hl1 : (bit0s rv).length = rv := by simp [bit0s]
                      have hlen' : bits.length = l.size - rv := by rw [hlen]; omega
                      have hl2 : (bits ++ bit0s rv).length = l.size := by
                        rw [List.length_append, hl1, hlen']; omega
                      rw [hl2, hlen']
                      simp only [binSem, Nat.testBit_shiftRight, Int.toNat_natCast]
                      by_cases h1 : j < l.size - rv
                      · have : j < l.size := by omega
                        simp [h1, this]
                      · have : (ideal ρ l).testBit (rv + j) = false := testBit_of_lt _ _ _ hll (by omega)
                        simp [h1, this]) c hc
                  exact SPostO_some this.1 this.2
                · split
                  · -- shl to comp
                    rename_i h
                    simp only [beq_iff_eq] at h
                    subst h
                    have hlt := hge (Or.inl rfl)
                    apply SPostO_bind; intro c1 h1
                    apply SPostO_bind; intro piece hpc
                    apply SPostO_bind; intro c2 h2
                    apply SPostO_bind; intro y hy
                    have hpw := wih.getitem l _ _ hl piece hpc
                    have hpv := ih.getitem l _ _ hl hql piece hpc
                    have := zero_then_piece_sem ih l.size sf _ _ piece c1 c2 y hlpos hpw.1 hpv.1 h1 h2 hy
                    refine SPostO_some this.1 ?_
                    apply Nat.eq_of_testBit_eq; intro j
                    rw [this.2 j, hpv.2, testBit_bitsOf]
                    simp only [binSem]
                    rw [if_neg (by omega), Nat.testBit_mod_two_pow, Nat.testBit_shiftLeft]
                    simp only [Int.toNat_natCast, Nat.cast_le, Nat.cast_lt, Int.toNat_zero, Nat.zero_add]
                    by_cases h1 : rv ≤ j
                    · by_cases h2 : j < l.size
                      · have e1 : j - rv < ((l.size : Int) - (rv : Int)).toNat - 0 := by omega
                        simp [h1, h2, e1]
                        intro _; omega
                      · simp [h2]
                    · simp [h1]
                  · split
                    · rename_i h
                      simp only [beq_iff_eq] at h
                      subst h
                      have hlt := hge (Or.inr rfl)
                      apply SPostO_bind; intro c1 h1
                      apply SPostO_bind; intro piece hpc
                      apply SPostO_bind; intro c2 h2
                      apply SPostO_bind; intro y hy
                      have hpw := wih.getitem l _ _ hl piece hpc
                      have hpv := ih.getitem l _ _ hl hql piece hpc
                      have := zero_then_piece_sem ih l.size sf _ _ piece c1 c2 y hlpos hpw.1 hpv.1 h1 h2 hy
                      refine SPostO_some this.1 ?_
                      apply Nat.eq_of_testBit_eq; intro j
                      rw [this.2 j, hpv.2, testBit_bitsOf]
                      simp only [binSem, Nat.testBit_shiftRight]
                      simp only [Int.toNat_natCast, Nat.cast_le, Nat.cast_lt, Int.toNat_zero, Nat.sub_zero]
                      by_cases h2 : j < l.size - rv
                      · have e1 : ((0 : Int) ≤ (j : Int) ∧ (j : Int) < (l.size : Int) - (rv : Int)) := by omega
                        simp [h2, e1]
                      · have e1 : ¬ ((0 : Int) ≤ (j : Int) ∧ (j : Int) < (l.size : Int) - (rv : Int)) := by omega
                        have : (ideal ρ l).testBit (rv + j) = false := testBit_of_lt _ _ _ hll (by omega)
                        simp [e1, this]
                    · exact SPostO_none _ _

omit ih in
theorem Plain_notTop {e : Expr} (h : Plain e) : e.isTop = false := by
  have := Plain_isDef h
  simpa [isDef] using this

theorem eqn2_sstep (hcp : ∀ e, cfg.cplx e = false) (opts : Opts) (o : Op) (l r : Expr) (size : Nat) (sf : Bool) (prop : Nat)
    (hw : WF (.op o l r size sf prop)) (hq : Plain (.op o l r size sf prop)) (hopt : OptsOK opts) :
    SPost ρ (ideal ρ (.op o l r size sf prop)) (eqn2 cfg (fuel + 1) opts o l r size sf prop) := by
  have wih := widthIH_all cfg fuel
  rw [eqn2.eq_def]; dsimp only
  have hq' := hq
  simp only [Plain] at hq'
  rw [hcp l, hcp r]
  simp only [Bool.false_eq_true, if_false]
  rw [Plain_notTop hq'.2.1, Plain_notTop hq'.2.2]
  simp only [Bool.or_self, Bool.false_eq_true, if_false]
  apply SPost_bind; intro t ht
  obtain ⟨o1, l1, r1⟩ := t
  have hw1 := wih.eqn2norm _ _ _ size sf prop hw o1 l1 r1 ht
  have hs1 := ih.eqn2norm _ _ _ size sf prop hw hq (o1, l1, r1) ht
  obtain ⟨hq1, hv1⟩ := hs1
  simp only at hq1 hv1
  dsimp only
  rw [← hv1]
  split
  · rename_i rv rs rf
    apply SPost_bind; intro res hres
    split
    · rename_i y
      have := ih.eqn2cst opts o1 l1 rv rs rf size sf prop hw1 hq1 hopt y hres
      exact SPost_pure this.1 this.2
    · exact ih.eqn2snd opts o1 l1 rv rs rf size sf prop hw1 hq1 hopt
  · exact ih.eqn2tail opts o1 l1 r1 size sf prop hw1 hq1

end steps
end Amoco.Rot
