/-
  Amoco.Proofs.ExprSoundExtCmp — the ordered comparisons `< <= > >=` as ROOT of a tree whose operands are in the
  fragment with rotations: what `eqn2_helpers` does with them (no re-association of `+` and `-`, no rule for a constant right
  operand, folding of two constants by the `cst` table, the `x op x` shortcut), each step value-preserving when both
  operands carry ONE declared signedness.
-/
import Amoco.Proofs.ExprSoundExtSimp

namespace Amoco.Rot

open Expr Bits

/-- the ordered comparisons (their meaning depends on the declared signedness) -/
def ordOp : Op → Bool
  | .lt | .le | .gt | .ge => true
  | _ => false

theorem pm_ord {o : Op} (h : ordOp o = true) (x : Op) : Op.pm o x = none := by
  cases o <;> simp [ordOp] at h <;> cases x <;> rfl

/-- value-only postcondition -/
def VPost (ρ : Val) (v : Nat) (r : R Expr) : Prop := ∀ e, r = .ok e → ideal ρ e = v

theorem VPost_error (ρ : Val) (v : Nat) (k : Err) : VPost ρ v (.error k) := by intro e h; cases h

variable (cfg : Cfg)

theorem normL_ord {o : Op} (h : ordOp o = true) (l r : Expr) :
    ∀ fuel t, normL cfg fuel o l r = .ok t → t = (o, l, r) := by
  intro fuel t ht
  cases fuel with
  | zero => rw [normL.eq_def] at ht; cases ht
  | succ f =>
    rw [normL.eq_def] at ht; dsimp only at ht
    simp only [pm_ord h] at ht
    split at ht
    · split at ht <;> cases ht <;> rfl
    · cases ht; rfl

theorem normR_ord {o : Op} (h : ordOp o = true) (l r : Expr) :
    ∀ fuel t, normR cfg fuel o l r = .ok t → t = (o, l, r) := by
  intro fuel t ht
  cases fuel with
  | zero => rw [normR.eq_def] at ht; cases ht
  | succ f =>
    rw [normR.eq_def] at ht; dsimp only at ht
    simp only [pm_ord h] at ht
    split at ht
    · split at ht <;> cases ht <;> rfl
    · split at ht <;> cases ht <;> rfl
    · cases ht; rfl

theorem normNeg_ord {o : Op} (h : ordOp o = true) (r : Expr) : normNeg o r = (o, r) := by
  have : (o == Op.add) = false := by cases o <;> simp [ordOp] at h <;> rfl
  unfold normNeg
  split
  · simp [this]
  · rfl

theorem eqn2norm_ord {o : Op} (h : ordOp o = true) (l r : Expr) :
    ∀ fuel t, eqn2norm cfg fuel o l r = .ok t → t = (o, l, r) := by
  intro fuel t ht
  cases fuel with
  | zero => rw [eqn2norm.eq_def] at ht; cases ht
  | succ f =>
    rw [eqn2norm.eq_def] at ht; dsimp only at ht
    cases h1 : normL cfg f o l r with
    | error k => rw [h1] at ht; cases ht
    | ok t1 =>
      rw [h1] at ht
      have := normL_ord cfg h l r f t1 h1
      subst this
      simp only [bind, Except.bind] at ht
      rw [normNeg_ord h] at ht
      exact normR_ord cfg h l r f t ht

theorem eqn2cst_ord {o : Op} (h : ordOp o = true) (opts : Opts) (l : Expr) (rv rs : Nat) (rf : Bool) (size : Nat) (sf : Bool) :
    ∀ fuel y, eqn2cst cfg fuel opts o l rv rs rf size sf = .ok y → y = none := by
  intro fuel y hy
  cases fuel with
  | zero => rw [eqn2cst.eq_def] at hy; cases hy
  | succ f =>
    rw [eqn2cst.eq_def] at hy; dsimp only at hy
    cases o <;> simp [ordOp] at h <;> simp [pure, Except.pure] at hy <;> (cases hy; rfl)


theorem ord_type {o : Op} (h : ordOp o = true) : o.type = 4 := by cases o <;> simp [ordOp] at h <;> rfl

/-- the end of `eqn2_helpers` on an ordered comparison: `x < x ⇒ 0`, `x <= x ⇒ 1` (decided by rendering), else the node -/
theorem eqn2tail_ord {ρ : Val} (eqok : EqOK ρ) {o : Op} (h : ordOp o = true) (opts : Opts) (l r : Expr) (size : Nat) (sf : Bool)
    (prop : Nat) (hl : WF l) (hr : WF r) (hql : Plain l) (hqr : Plain r) (hsz : l.size = r.size) :
    ∀ fuel, VPost ρ (binSem o l.sf l.size (ideal ρ l) (ideal ρ r)) (eqn2tail cfg fuel opts o l r size sf prop) := by
  intro fuel
  cases fuel with
  | zero => rw [eqn2tail.eq_def]; exact VPost_error _ _ _
  | succ f =>
    rw [eqn2tail.eq_def]; dsimp only
    split
    · simp [Plain] at hql
    · simp [Plain] at hqr
    · split
      · rename_i hrender
        simp only [beq_iff_eq] at hrender
        have hsame : ideal ρ l = ideal ρ r := eqok l r hl hr hql hqr hsz (Or.inl hrender)
        rw [← hsame]
        cases o <;> simp [ordOp] at h <;> simp <;> intro e he <;> cases he
        · -- le
          rw [x_cmp_x_true _ (Or.inr (Or.inl rfl))]; split <;> simp [ideal, bit1]
        · rw [x_cmp_x_true _ (Or.inr (Or.inr rfl))]; split <;> simp [ideal, bit1]
        · rw [x_cmp_x_false _ (Or.inr (Or.inl rfl))]; simp [ideal, bit0]
        · rw [x_cmp_x_false _ (Or.inr (Or.inr rfl))]; simp [ideal, bit0]
      · intro e he; cases he; rfl

/-- the rules of `eqn2_helpers` for an ordered comparison with a constant right operand: two constants fold by the
    `cst` table (both read with their common flag), anything else goes to the end of the rule chain -/
theorem eqn2snd_ord {ρ : Val} (eqok : EqOK ρ) {o : Op} (h : ordOp o = true) (opts : Opts) (l : Expr) (rv rs : Nat) (rf : Bool)
    (size : Nat) (sf : Bool) (prop : Nat) (hl : WF l) (hr : WF (.cst rv rs rf)) (hql : Plain l) (hsz : l.size = rs)
    (hsf : l.sf = rf) :
    ∀ fuel, VPost ρ (binSem o l.sf l.size (ideal ρ l) (ideal ρ (.cst rv rs rf)))
      (eqn2snd cfg fuel opts o l rv rs rf size sf prop) := by
  intro fuel
  have hqr : Plain (.cst rv rs rf) := by simp [Plain]
  have tail := fun f => eqn2tail_ord cfg eqok h opts l (.cst rv rs rf) size sf prop hl hr hql hqr hsz f
  have hne : (o == Op.eq) = false ∧ (o == Op.neq) = false ∧ (o == Op.and) = false ∧ (o == Op.or) = false ∧
      (o == Op.xor) = false ∧ (o == Op.sub) = false ∧ (o == Op.add) = false := by
    cases o <;> simp [ordOp] at h <;> simp
  cases fuel with
  | zero => rw [eqn2snd.eq_def]; exact VPost_error _ _ _
  | succ f =>
    rw [eqn2snd.eq_def]; dsimp only
    split
    · simp only [pm_ord h, hne.1, hne.2.1, Bool.and_false, Bool.false_eq_true, if_false]; exact tail f
    · simp only [pm_ord h, hne.1, hne.2.1, Bool.and_false, Bool.false_eq_true, if_false]; exact tail f
    · simp [Plain] at hql
    · simp only [hne.2.2.1, hne.2.2.2.1, hne.2.2.2.2.1, Bool.or_self, Bool.false_eq_true, if_false]; exact tail f
    · -- two constants
      rename_i lv ls lf
      simp only [Expr.sf] at hsf
      subst hsf
      simp only [size_cst] at hsz
      intro e he
      cases hc : callOp cfg f o (.cst lv ls lf) (.cst rv rs lf) with
      | error k => rw [hc] at he; cases he
      | ok res =>
        rw [hc] at he
        simp only [bind, Except.bind, pure, Except.pure] at he
        cases he
        obtain ⟨g, hg⟩ := callOp_cst_sound cfg f o lv ls lf rv rs lf lf res hl.2 hr.2 hl.1 (fun _ => hsz)
          (fun _ => ⟨cstValue_reading _ _ _, cstValue_reading _ _ _⟩) hc
        subst hg
        rw [ideal_lt_of_WF_cst hl, ideal_lt_of_WF_cst hr]
        simp only [setSf, ideal, size_cst, Expr.sf]
        apply Nat.mod_eq_of_lt
        have := binSem_lt o lf ls lv rv hl.2 (fun _ => by rw [hsz]; exact hr.2) hl.1
        simpa [resSize] using this
    · exact tail f

/-- `eqn2_helpers` on an ordered comparison of two operands of the fragment that carry one declared signedness -/
theorem eqn2_ord {ρ : Val} (eqok : EqOK ρ) (hcp : ∀ e, cfg.cplx e = false) {o : Op} (h : ordOp o = true) (opts : Opts)
    (l r : Expr) (size : Nat) (sf : Bool) (prop : Nat) (hl : WF l) (hr : WF r) (hql : Plain l) (hqr : Plain r)
    (hsz : l.size = r.size) (hsf : l.sf = r.sf) :
    ∀ fuel, VPost ρ (binSem o l.sf l.size (ideal ρ l) (ideal ρ r)) (eqn2 cfg fuel opts o l r size sf prop) := by
  intro fuel
  cases fuel with
  | zero => rw [eqn2.eq_def]; exact VPost_error _ _ _
  | succ f =>
    rw [eqn2.eq_def]; dsimp only
    rw [hcp l, hcp r]
    simp only [Bool.false_eq_true, if_false]
    rw [Plain_notTop hql, Plain_notTop hqr]
    simp only [Bool.or_self, Bool.false_eq_true, if_false]
    intro e he
    cases hn : eqn2norm cfg f o l r with
    | error k => rw [hn] at he; cases he
    | ok t =>
      rw [hn] at he
      have := eqn2norm_ord cfg h l r f t hn
      subst this
      simp only [bind, Except.bind] at he
      split at he
      · rename_i rv rs rf
        cases hc : eqn2cst cfg f opts o l rv rs rf size sf with
        | error k => rw [hc] at he; cases he
        | ok y =>
          rw [hc] at he
          have := eqn2cst_ord cfg h opts l rv rs rf size sf f y hc
          subst this
          simp only at he
          exact eqn2snd_ord cfg eqok h opts l rv rs rf size sf prop hl hr hql hsz hsf f e he
      · exact eqn2tail_ord cfg eqok h opts l r size sf prop hl hr hql hqr hsz f e he

/-- `simplify` on an ordered comparison whose operands are in the fragment: the operands are simplified (value kept, by
    the induction over the rewrite system), then `eqn2_helpers` — provided the simplified operands still carry the
    declared signedness of the left operand (`hsf`) -/
theorem simplify_ord {ρ : Val} (eqok : EqOK ρ) (hcp : ∀ e, cfg.cplx e = false) {o : Op} (h : ordOp o = true) (opts : Opts)
    (hopt : OptsOK opts) (l r : Expr) (size : Nat) (sf : Bool) (prop : Nat) (hw : WF (.op o l r size sf prop))
    (hql : Plain l) (hqr : Plain r) (fuel : Nat)
    (hsf : ∀ l' r', simplify cfg fuel opts l = .ok l' → simplify cfg fuel opts r = .ok r' → l'.sf = l.sf ∧ r'.sf = l.sf) :
    VPost ρ (ideal ρ (.op o l r size sf prop)) (simplify cfg (fuel + 1) opts (.op o l r size sf prop)) := by
  obtain ⟨hpos, hp, hl, hr, hs, heq⟩ := (WF_op_iff _ _ _ _ _ _).mp hw
  have ht := ord_type h
  rw [simplify.eq_def]; dsimp only
  intro e he
  cases h1 : simplify cfg fuel opts l with
  | error k => rw [h1] at he; cases he
  | ok l' =>
    rw [h1] at he
    simp only [bind, Except.bind] at he
    cases h2 : simplify cfg fuel opts r with
    | error k => rw [h2] at he; cases he
    | ok r' =>
      rw [h2] at he
      have hp4 : ¬ prop < 4 := by omega
      simp only [hp4, decide_false, Bool.false_and, Bool.false_eq_true, if_false] at he
      obtain ⟨hwl, hsl⟩ := (widthIH_all cfg fuel).simplify opts l hl l' h1
      obtain ⟨hwr, hsr⟩ := (widthIH_all cfg fuel).simplify opts r hr r' h2
      obtain ⟨hpl', hvl⟩ := (soundIH_all cfg hcp ρ eqok fuel).simplify opts l hl hql hopt l' h1
      obtain ⟨hpr', hvr⟩ := (soundIH_all cfg hcp ρ eqok fuel).simplify opts r hr hqr hopt r' h2
      obtain ⟨s1, s2⟩ := hsf l' r' h1 h2
      have := eqn2_ord cfg eqok hcp h opts l' r' size sf prop hwl hwr hpl' hpr'
        (by rw [hsl, hsr]; exact heq (by omega)) (by rw [s1, s2]) fuel e he
      rw [this, s1, hsl, hvl, hvr]
      simp only [ideal]

end Amoco.Rot
