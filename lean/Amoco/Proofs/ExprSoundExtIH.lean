/-
  [C01 extension: the fragment WITH ROTATIONS.  This file is `Proofs/ExprSound.lean` redone in namespace `Amoco.Rot`, where
   `agnOp`/`Plain` also allow `>>>` (`ror`) and `<<<` (`rol`) nodes; changed proof steps: `api_sstep`, `callOp_sstep`,
   `helperRot_spost` (new), `eqn2tail_sstep`, `eqn2cst_sstep` (rule `l >>> 0 ⇒ l`, lemma `rot_zero`).  Original header follows.]
  Amoco.Proofs.ExprSound — value soundness of the rewrite system on the sign-agnostic fragment (`Plain`), with
  the complexity threshold off: every function returns an expression with the ideal value its construction
  dictates.  Induction on the fuel over the whole mutual block, next to (and using) the width induction.
-/
import Amoco.Proofs.ExprTablePres
import Amoco.Proofs.ExprSoundExtBase
import Amoco.Proofs.ExprEvalSound

namespace Amoco.Rot

open Expr Bits

/-- the simplifier decides `x op x`, the comparison shortcuts and `tst` branch equality by comparing
    renderings (`str(l) == str(r)`, `hash(l) == hash(r)`).  `EqOK ρ`: whenever it does so on two well-formed
    `Plain` expressions of one size, they have the same value under `ρ` (`NoRenderClash`). -/
def EqOK (ρ : Val) : Prop := ∀ a b : Expr, WF a → WF b → Plain a → Plain b → a.size = b.size →
  (render a = render b ∨ hashEq a b = true) → ideal ρ a = ideal ρ b

/-- the options covered by the value-soundness theorem: `simplify()` and `simplify(bitslice=True)` — not
    `widening` (which produces the non-deterministic `vecw`) -/
def OptsOK (o : Opts) : Prop := o.widening = false

theorem OptsOK_default : OptsOK {} := rfl

/-- value postcondition -/
def SPost (ρ : Val) (v : Nat) (r : R Expr) : Prop := ∀ e, r = .ok e → Plain e ∧ ideal ρ e = v

theorem SPost_error (ρ : Val) (v : Nat) (k : Err) : SPost ρ v (.error k) := by intro e h; cases h
theorem SPost_ok {ρ : Val} {v : Nat} {e : Expr} (h1 : Plain e) (h2 : ideal ρ e = v) : SPost ρ v (.ok e) := by
  intro e' h; cases h; exact ⟨h1, h2⟩
theorem SPost_pure {ρ : Val} {v : Nat} {e : Expr} (h1 : Plain e) (h2 : ideal ρ e = v) : SPost ρ v (pure e) := SPost_ok h1 h2
theorem SPost_bind {α : Type} {ρ : Val} {v : Nat} (x : R α) (f : α → R Expr) (h : ∀ a, x = .ok a → SPost ρ v (f a)) :
    SPost ρ v (x >>= f) := by
  intro e he
  cases x with
  | error k => cases he
  | ok a => exact h a rfl e he
theorem SPost_of_eq {ρ : Val} {v w : Nat} {r : R Expr} (h : SPost ρ v r) (e : v = w) : SPost ρ w r := e ▸ h

/-- value of `composer(parts)`: the parts one after the other from bit 0 -/
def catVal (ρ : Val) : List Expr → Nat
  | [] => 0
  | x :: tl => cat (ideal ρ x) x.size (catVal ρ tl)

/-- value of `x.extend(sign, size)` for `size > x.size` -/
def extVal (sign : Bool) (w size a : Nat) : Nat := if sign then wrap size (toInt w a) else a

variable (cfg : Cfg) (ρ : Val)

/-- the induction hypothesis of the value-soundness proof -/
structure SoundIH (fuel : Nat) : Prop where
  simplify : ∀ o e, WF e → Plain e → OptsOK o → SPost ρ (ideal ρ e) (simplify cfg fuel o e)
  eqn1 : ∀ o r size sf prop, WF r → Plain r → size = r.size → (o = Op.sub ∨ o = Op.not) →
      SPost ρ (unSem o r.size (ideal ρ r)) (eqn1 cfg fuel o r size sf prop)
  eqn2 : ∀ opts o l r size sf prop, WF (.op o l r size sf prop) → Plain (.op o l r size sf prop) → OptsOK opts →
      SPost ρ (ideal ρ (.op o l r size sf prop)) (eqn2 cfg fuel opts o l r size sf prop)
  eqn2norm : ∀ o l r size sf prop, WF (.op o l r size sf prop) → Plain (.op o l r size sf prop) →
      ∀ t, eqn2norm cfg fuel o l r = .ok t → Plain (.op t.1 t.2.1 t.2.2 size sf prop) ∧
        ideal ρ (.op t.1 t.2.1 t.2.2 size sf prop) = ideal ρ (.op o l r size sf prop)
  normL : ∀ o l r size sf prop, WF (.op o l r size sf prop) → Plain (.op o l r size sf prop) →
      ∀ t, normL cfg fuel o l r = .ok t → Plain (.op t.1 t.2.1 t.2.2 size sf prop) ∧
        ideal ρ (.op t.1 t.2.1 t.2.2 size sf prop) = ideal ρ (.op o l r size sf prop)
  normR : ∀ o l r size sf prop, WF (.op o l r size sf prop) → Plain (.op o l r size sf prop) →
      ∀ t, normR cfg fuel o l r = .ok t → Plain (.op t.1 t.2.1 t.2.2 size sf prop) ∧
        ideal ρ (.op t.1 t.2.1 t.2.2 size sf prop) = ideal ρ (.op o l r size sf prop)
  eqn2cst : ∀ opts o l rv rs rf size sf prop, WF (.op o l (.cst rv rs rf) size sf prop) →
      Plain (.op o l (.cst rv rs rf) size sf prop) → OptsOK opts →
      ∀ res, eqn2cst cfg fuel opts o l rv rs rf size sf = .ok (some res) →
        Plain res ∧ ideal ρ res = ideal ρ (.op o l (.cst rv rs rf) size sf prop)
  eqn2snd : ∀ opts o l rv rs rf size sf prop, WF (.op o l (.cst rv rs rf) size sf prop) →
      Plain (.op o l (.cst rv rs rf) size sf prop) → OptsOK opts →
      SPost ρ (ideal ρ (.op o l (.cst rv rs rf) size sf prop)) (eqn2snd cfg fuel opts o l rv rs rf size sf prop)
  eqn2tail : ∀ opts o l r size sf prop, WF (.op o l r size sf prop) → Plain (.op o l r size sf prop) →
      SPost ρ (ideal ρ (.op o l r size sf prop)) (eqn2tail cfg fuel opts o l r size sf prop)
  oper : ∀ o l r, WF l → WF r → Plain l → Plain r → agnOp o = true → (o.type ≠ 8 → l.size = r.size) →
      SPost ρ (binSem o false l.size (ideal ρ l) (ideal ρ r)) (oper cfg fuel o l r)
  operU : ∀ o r, WF r → Plain r → r.isCst = false → (o = Op.sub ∨ o = Op.not) → SPost ρ (unSem o r.size (ideal ρ r)) (operU cfg fuel o r)
  apiNeg : ∀ x, WF x → Plain x → SPost ρ (unSem Op.sub x.size (ideal ρ x)) (apiNeg cfg fuel x)
  apiNot : ∀ x, WF x → Plain x → SPost ρ (unSem Op.not x.size (ideal ρ x)) (apiNot cfg fuel x)
  api : ∀ o l r, WF l → WF r → Plain l → Plain r → agnOp o = true → (o.type ≠ 8 → l.size = r.size) →
      SPost ρ (binSem o false l.size (ideal ρ l) (ideal ρ r)) (api cfg fuel o l r)
  apiExp : ∀ o l r, WF l → WF r → Plain l → Plain r → agnOp o = true → (o.type ≠ 8 → l.size = r.size) →
      SPost ρ (binSem o false l.size (ideal ρ l) (ideal ρ r)) (apiExp cfg fuel o l r)
  callOp : ∀ o l r, WF l → WF r → Plain l → Plain r → agnOp o = true → (o.type ≠ 8 → l.size = r.size) →
      SPost ρ (binSem o false l.size (ideal ρ l) (ideal ρ r)) (callOp cfg fuel o l r)
  callUop : ∀ o r, WF r → Plain r → (o = Op.sub ∨ o = Op.not) → SPost ρ (unSem o r.size (ideal ρ r)) (callUop cfg fuel o r)
  helperCmp : ∀ o x y, WF x → WF y → Plain x → Plain y → x.size = y.size → (o = Op.ltu ∨ o = Op.geu) →
      SPost ρ (binSem o false x.size (ideal ρ x) (ideal ρ y)) (helperCmp cfg fuel o x y)
  getitem : ∀ x a b, WF x → Plain x → SPost ρ (bitsOf (ideal ρ x) a.toNat (b.toNat - a.toNat)) (getitem cfg fuel x a b)
  slicer : ∀ x pos size, WF x → Plain x → 0 < size → pos + size ≤ x.size →
      SPost ρ (bitsOf (ideal ρ x) pos size) (slicer cfg fuel x pos size)
  mkSlc : ∀ x pos size, WF x → Plain x → 0 < size → pos + size ≤ x.size →
      SPost ρ (bitsOf (ideal ρ x) pos size) (mkSlc cfg fuel x pos size)
  setitem : ∀ n sf ps (a b : Int) v r, Disj n ps → (∀ p ∈ ps, WF p.2.2) → (∀ p ∈ ps, Plain p.2.2) → WF v → Plain v →
      setitem cfg fuel (.comp n sf ps) a b v = .ok r →
      ∃ ps', r = .comp n sf ps' ∧ (∀ p ∈ ps', Plain p.2.2) ∧
        ∀ j : Nat, tbit ρ ps' j = if a ≤ (j : Int) ∧ (j : Int) < b then (ideal ρ v).testBit (j - a.toNat) else tbit ρ ps j
  composer : ∀ parts, (∀ x ∈ parts, WF x) → (∀ x ∈ parts, Plain x) → SPost ρ (catVal ρ parts) (composer cfg fuel parts)
  extendExp : ∀ sign x size, WF x → Plain x → x.size < size →
      SPost ρ (extVal sign x.size size (ideal ρ x)) (extendExp cfg fuel sign x size)

theorem soundIH_zero : SoundIH cfg ρ 0 := by
  constructor
  all_goals intros
  all_goals first
    | (rw [simplify.eq_def]; exact SPost_error _ _ _)
    | (rw [eqn1.eq_def]; exact SPost_error _ _ _)
    | (rw [eqn2.eq_def]; exact SPost_error _ _ _)
    | (rename_i h; rw [eqn2norm.eq_def] at h; cases h)
    | (rename_i h; rw [normL.eq_def] at h; cases h)
    | (rename_i h; rw [normR.eq_def] at h; cases h)
    | (rename_i h; rw [eqn2cst.eq_def] at h; cases h)
    | (rw [eqn2snd.eq_def]; exact SPost_error _ _ _)
    | (rw [eqn2tail.eq_def]; exact SPost_error _ _ _)
    | (rw [oper.eq_def]; exact SPost_error _ _ _)
    | (rw [operU.eq_def]; exact SPost_error _ _ _)
    | (rw [apiNeg.eq_def]; exact SPost_error _ _ _)
    | (rw [apiNot.eq_def]; exact SPost_error _ _ _)
    | (rw [api.eq_def]; exact SPost_error _ _ _)
    | (rw [apiExp.eq_def]; exact SPost_error _ _ _)
    | (rw [callOp.eq_def]; exact SPost_error _ _ _)
    | (rw [callUop.eq_def]; exact SPost_error _ _ _)
    | (rw [helperCmp.eq_def]; exact SPost_error _ _ _)
    | (rw [getitem.eq_def]; exact SPost_error _ _ _)
    | (rw [slicer.eq_def]; exact SPost_error _ _ _)
    | (rw [mkSlc.eq_def]; exact SPost_error _ _ _)
    | (rename_i h; rw [setitem.eq_def] at h; cases h)
    | (rw [composer.eq_def]; exact SPost_error _ _ _)
    | (rw [extendExp.eq_def]; exact SPost_error _ _ _)

end Amoco.Rot
