/-
  [C01 extension: the fragment WITH ROTATIONS.  This file is `Proofs/ExprSoundSlice.lean` redone in namespace `Amoco.Rot`, where
   `agnOp`/`Plain` also allow `>>>` (`ror`) and `<<<` (`rol`) nodes; changed proof steps: `api_sstep`, `callOp_sstep`,
   `helperRot_spost` (new), `eqn2tail_sstep`, `eqn2cst_sstep` (rule `l >>> 0 ⇒ l`, lemma `rot_zero`).  Original header follows.]
  Amoco.Proofs.ExprSoundSlice — value-soundness steps for slicing and composition
  (`getitem slicer mkSlc setitem composer extendExp`).
-/
import Amoco.Proofs.ExprSoundExtOps

namespace Amoco.Rot

open Expr Bits

theorem cnt_zero_of_sized {n : Nat} {ps : List Part} (h : Sized n ps) {b : Nat} (hb : n ≤ b) : cnt b ps = 0 := by
  unfold cnt
  rw [List.countP_eq_zero]
  intro p hp
  have := h p hp
  unfold covers
  simp only [Bool.and_eq_true, decide_eq_true_eq, not_and, not_lt]
  intro _; omega

/-- the bits of a composition are the bits of its table -/
theorem ideal_comp_testBit (ρ : Val) (n : Nat) (sf : Bool) (ps : List Part) (hd : Disj n ps) (j : Nat) :
    (ideal ρ (.comp n sf ps)).testBit j = tbit ρ ps j := by
  simp only [ideal]
  rw [Nat.mod_eq_of_lt (idealParts_lt ρ n ps hd.1)]
  exact idealParts_testBit ρ n ps hd j

/-- `WF ∧ Plain` is kept by slicing, given both induction hypotheses -/
def WP (e : Expr) : Prop := WF e ∧ Plain e

/-- the bits written by a fold of `setitem`s: part `p` of `L` writes `val p` at `[sta+p.lo, sta+p.hi)`, the last
    writer wins -/
def foldBits (sta : Nat) (val : Part → Nat) (L : List Part) (base : Bool) (j : Nat) : Bool :=
  L.foldl (fun acc p => if sta + p.1 ≤ j ∧ j < sta + p.2.1 then (val p).testBit (j - (sta + p.1)) else acc) base

theorem foldBits_cons (sta : Nat) (val : Part → Nat) (q : Part) (tl : List Part) (base : Bool) (j : Nat) :
    foldBits sta val (q :: tl) base j =
      foldBits sta val tl (if sta + q.1 ≤ j ∧ j < sta + q.2.1 then (val q).testBit (j - (sta + q.1)) else base) j := rfl

/-- on disjoint keys the last writer is the only writer -/
theorem foldBits_cover (sta : Nat) (val : Part → Nat) (m : Nat) (j : Nat) :
    ∀ (L : List Part) (base : Bool), Disj m L →
      foldBits sta val L base j =
        if sta ≤ j then (match cover (j - sta) L with
                         | some p => (val p).testBit (j - sta - p.1)
                         | none => base)
        else base := by
  intro L
  induction L with
  | nil => intro base _; simp [foldBits, cover]
  | cons q tl ihl =>
    intro base hd
    obtain ⟨lo, hi, e⟩ := q
    rw [foldBits_cons, ihl _ hd.tail]
    by_cases hj : sta ≤ j
    · simp only [hj, if_true, cover]
      by_cases hq : lo ≤ j - sta ∧ j - sta < hi
      · have hq' : sta + lo ≤ j ∧ j < sta + hi := by omega
        have hc : (decide (lo ≤ j - sta) && decide (j - sta < hi)) = true := by simp [hq]
        rw [if_pos hc, if_pos hq']
        have h0 : cnt (j - sta) tl = 0 := by
          have := hd.2 (j - sta)
          change cnt (j - sta) ((lo, hi, e) :: tl) ≤ 1 at this
          rw [cnt_cons] at this
          unfold ind at this
          simp only at this
          rw [if_pos hq] at this
          omega
        rw [cover_none_of_cnt h0]
        simp only
        congr 1; omega
      · have hq' : ¬ (sta + lo ≤ j ∧ j < sta + hi) := by omega
        have hc : ¬ ((decide (lo ≤ j - sta) && decide (j - sta < hi)) = true) := by simp; omega
        rw [if_neg hc, if_neg hq']
    · have hq' : ¬ (sta + lo ≤ j ∧ j < sta + hi) := by omega
      simp only [hj, if_false, hq']

theorem cat_assoc (V p a w c : Nat) : cat (cat V p a) (p + w) c = cat V p (cat a w c) := by
  unfold cat
  rw [Nat.shiftLeft_or_distrib, ← Nat.shiftLeft_add, Nat.or_assoc, Nat.add_comm w p]

theorem wrap_neg_one (w : Nat) : wrap w (-1) = 2 ^ w - 1 := by
  unfold wrap
  have hp : (0 : Int) < ((2 ^ w : Nat) : Int) := by exact_mod_cast two_pow_pos' w
  have : (-1 : Int) % ((2 ^ w : Nat) : Int) = ((2 ^ w : Nat) : Int) - 1 := by
    rw [← Int.add_emod_right]
    exact Int.emod_eq_of_lt (by omega) (by omega)
  rw [this]; omega

theorem wrap_zero (w : Nat) : wrap w 0 = 0 := by simp [wrap]

section steps
variable {cfg : Cfg} {ρ : Val} {fuel : Nat} (ih : SoundIH cfg ρ fuel)
include ih

theorem gi_WP (x : Expr) (a b : Nat) (r : Expr) (h : WP x) (hg : getitem cfg fuel x (a : Int) (b : Int) = .ok r) : WP r :=
  ⟨((widthIH_all cfg fuel).getitem x a b h.1 r hg).1, (ih.getitem x a b h.1 h.2 r hg).1⟩

theorem giSem_of_ih : GiSem ρ WP (fun y a b => getitem cfg fuel y (a : Int) (b : Int)) := by
  intro x a b r hx hq hab hb h
  have := (ih.getitem x a b hx hq.2 r h).2
  simpa using this

theorem gi_WP' : ∀ x a b r, WF x → WP x → getitem cfg fuel x ((a : Nat) : Int) ((b : Nat) : Int) = .ok r → WP r :=
  fun x a b r _ h hg => gi_WP ih x a b r h hg

theorem siSem_of_ih : SiSem ρ WP (fun c a b v => setitem cfg fuel c (a : Int) (b : Int) v) := by
  intro n sf ps a b v r hd hw hq hv hqv h
  obtain ⟨ps', h1, h2, h3⟩ := ih.setitem n sf ps a b v r hd hw (fun p hp => (hq p hp).2) hv hqv.2 h
  obtain ⟨ps'', h1', _, hw', _⟩ := (widthIH_all cfg fuel).setitem n sf ps a b v r hd hw hv h
  rw [h1] at h1'; cases h1'
  refine ⟨ps', h1, fun p hp => ⟨hw' p hp, h2 p hp⟩, ?_⟩
  intro j
  rw [h3 j]
  simp only [Int.toNat_natCast, Nat.cast_le, Nat.cast_lt]

theorem mkSlc_sstep (x : Expr) (pos size : Nat) (hx : WF x) (hp : Plain x) (hs : 0 < size) (hps : pos + size ≤ x.size) :
    SPost ρ (bitsOf (ideal ρ x) pos size) (mkSlc cfg (fuel + 1) x pos size) := by
  rw [mkSlc.eq_def]; dsimp only
  split
  · apply SPost_bind; intro res hres
    have hv := ih.getitem _ _ _ hx hp res hres
    have hw := (widthIH_all cfg fuel).getitem _ _ _ hx res hres
    have hsz : res.size = size := by rw [hw.2]; omega
    split
    · rename_i x2 p2 s2 f2 r2 k2
      simp only [size_slc] at hsz
      subst hsz
      have hv1 := hv.1
      simp only [Plain] at hv1
      refine SPost_pure (by simp only [Plain]; exact ⟨Plain_slcEty hv1.2, hv1.2⟩) ?_
      have := hv.2
      simp only [ideal] at this ⊢
      rw [this]
      congr 1 <;> omega
    · exact SPost_pure (by simp only [Plain]; exact ⟨Plain_slcEty hp, hp⟩) (by simp only [ideal]; rfl)
  · exact SPost_ok (by simp only [Plain]; exact ⟨Plain_slcEty hp, hp⟩) (by simp only [ideal]; rfl)

theorem slicer_sstep (x : Expr) (pos size : Nat) (hx : WF x) (hp : Plain x) (hs : 0 < size) (hps : pos + size ≤ x.size) :
    SPost ρ (bitsOf (ideal ρ x) pos size) (slicer cfg (fuel + 1) x pos size) := by
  rw [slicer.eq_def]; dsimp only
  rw [Plain_isDef hp]
  simp only [Bool.not_true, Bool.false_eq_true, if_false]
  split
  · rename_i h
    simp only [Bool.and_eq_true, beq_iff_eq] at h
    refine SPost_ok hp ?_
    rw [h.1, h.2]
    exact (slice_whole _ _ (ideal_lt ρ x hx)).symm
  · split
    · apply SPost_bind; intro res hres
      have hv := ih.getitem _ _ _ hx hp res hres
      refine SPost_pure ((Plain_setSf _ _).mpr hv.1) ?_
      rw [ideal_setSf, hv.2]
      congr 1 <;> omega
    · exact ih.mkSlc x pos size hx hp hs hps

theorem getitem_sstep (x : Expr) (a b : Int) (hx : WF x) (hp : Plain x) :
    SPost ρ (bitsOf (ideal ρ x) a.toNat (b.toNat - a.toNat)) (getitem cfg (fuel + 1) x a b) := by
  have wih := widthIH_all cfg fuel
  rw [getitem.eq_def]; dsimp only
  apply SPost_bind; intro u hu
  obtain ⟨h0, hab, hbn⟩ := checkSlice_ok hu
  have hpos : 0 < b.toNat - a.toNat := by omega
  split
  · -- cst
    rename_i v s f
    refine SPost_pure (Plain_mkCst _ _) ?_
    rw [ideal_mkCst, wrap_of_nat, ideal_lt_of_WF_cst hx]; rfl
  · -- comp
    rename_i size sf parts
    have hxc := hx
    simp only [WF] at hx
    obtain ⟨hsz, ht, hwp⟩ := hx
    have hwp' := (WFParts_iff parts).mp hwp
    have hpp := (plainParts_iff parts).mp (by simpa only [Plain] using hp)
    simp only [size_comp] at hbn
    have hbit : ∀ j, (ideal ρ (comp size sf parts)).testBit j = tbit ρ parts j :=
      ideal_comp_testBit ρ _ _ _ ht.disj
    split
    · rename_i p hf
      have hm := findKey_some_mem hf
      have hs := ht.1 _ hm
      simp only at hs
      refine SPost_pure (hpp _ hm) ?_
      apply Nat.eq_of_testBit_eq; intro j
      rw [testBit_bitsOf, hbit]
      by_cases hj : j < b.toNat - a.toNat
      · rw [tbit_of_mem ρ ht.disj hm ⟨by show a.toNat ≤ a.toNat + j; omega, by show a.toNat + j < b.toNat; omega⟩]
        simp [hj]
      · simp only [hj, decide_false, Bool.false_and]
        exact testBit_of_lt _ _ _ (ideal_lt ρ p (hwp' _ hm)) (by rw [hs.2.2]; omega)
    · split
      · rename_i h
        simp only [Bool.and_eq_true, beq_iff_eq] at h
        refine SPost_pure hp ?_
        rw [h.1, h.2]
        exact (slice_whole _ _ (ideal_lt ρ _ hxc)).symm
      · apply SPost_bind; intro res hres
        have hd0 : Disj (b.toNat - a.toNat) [] := Disj_nil _
        obtain ⟨rps, rfl, htl, hwr⟩ := compGetLoop_spec _ _ (giSpec_of_ih wih) (siSpec_of_ih wih) size parts ht hwp'
          b.toNat (b.toNat - a.toNat) a.toNat (by omega) (by omega) sf (b.toNat - a.toNat) 0 [] res
          (by omega) (by omega) hd0 (by intro p hp; cases hp) (by intro x; simp [cnt]) (by simpa using hres)
        obtain ⟨rps', e', hqr, hbits⟩ := compGetLoop_sem ρ WP _ _ (giSpec_of_ih wih) (siSpec_of_ih wih)
          (giSem_of_ih ih) (siSem_of_ih ih) (gi_WP' ih) size parts ht hwp' (fun p hp => ⟨hwp' p hp, hpp p hp⟩)
          b.toNat (b.toNat - a.toNat) a.toNat (by omega) (by omega) sf (b.toNat - a.toNat) 0 [] _
          (by omega) (by omega) hd0 (by intro p hp; cases hp) (by intro p hp; cases hp) (by intro x; simp [cnt])
          (by intro x hx; omega) (by simpa using hres)
        cases e'
        simp only
        obtain ⟨r1, r2, r3⟩ := restruct_spec _ rps htl.disj hwr
        have htr : Tiles (b.toNat - a.toNat) (restruct rps) :=
          tiles_of_disj_cnt r1 (fun x hx => by rw [r3 x]; exact htl.2 x hx)
        obtain ⟨s1, _⟩ := restruct_sem ρ _ rps htl.disj hwr (fun p hp => Plain_isDef (hqr p hp).2)
        have hplain := restruct_pres Plain Plain_mkCst (fun e he => Plain_isDef he) _ rps htl.disj hwr (fun p hp => (hqr p hp).2)
        -- bits of the restructured table
        have hrb : ∀ j, tbit ρ (restruct rps) j = (bitsOf (ideal ρ (comp size sf parts)) a.toNat (b.toNat - a.toNat)).testBit j := by
          intro j
          rw [s1 j, testBit_bitsOf, hbit]
          by_cases hj : j < b.toNat - a.toNat
          · simp [hj, hbits j hj]
          · simp only [hj, decide_false, Bool.false_and]
            exact tbit_uncovered ρ (cnt_zero_of_sized htl.1 (by omega))
        split
        · exact SPost_error _ _ _
        · rename_i lo hi p heq
          rw [heq] at htr r2 hplain hrb
          have hm : (lo, hi, p) ∈ [(lo, hi, p)] := List.mem_cons_self
          have hsz1 := Tiles.single hpos htr
          have hs1 := htr.1 _ hm
          simp only at hs1
          refine SPost_pure (hplain _ hm) ?_
          apply Nat.eq_of_testBit_eq; intro j
          rw [← hrb j]
          by_cases hj : lo ≤ j ∧ j < hi
          · rw [tbit_of_mem ρ htr.disj hm hj]
            have : lo = 0 := by
              have h0 := htr.2 0 hpos
              change cnt 0 [(lo, hi, p)] = 1 at h0
              rw [cnt_single] at h0
              unfold ind at h0
              split_ifs at h0 <;> omega
            subst this; rfl
          · rw [tbit_uncovered ρ (by rw [cnt_single]; unfold ind; rw [if_neg hj])]
            have : lo = 0 := by
              have h0 := htr.2 0 hpos
              change cnt 0 [(lo, hi, p)] = 1 at h0
              rw [cnt_single] at h0
              unfold ind at h0
              split_ifs at h0 <;> omega
            subst this
            exact testBit_of_lt _ _ _ (ideal_lt ρ p (r2 _ hm)) (by omega)
        · refine SPost_pure (by simp only [Plain]; exact (plainParts_iff _).mpr hplain) ?_
          apply Nat.eq_of_testBit_eq; intro j
          rw [ideal_comp_testBit ρ _ _ _ htr.disj, hrb j]
  · -- slc
    rename_i x' p s f r k
    have hxs := hx
    simp only [WF] at hx
    simp only [size_slc] at hbn
    split
    · rename_i h
      simp only [Bool.and_eq_true, beq_iff_eq] at h
      refine SPost_pure hp ?_
      rw [h.1, h.2]
      exact (slice_whole _ _ (ideal_lt ρ _ hxs)).symm
    · have := ih.slicer x' (p + a.toNat) (b.toNat - a.toNat) hx.1 (by simp only [Plain] at hp; exact hp.2) hpos (by omega)
      refine SPost_of_eq this ?_
      simp only [ideal]
      exact (slice_of_slice _ _ _ _ _ (by omega)).symm
  · simp [Plain] at hp
  · simp [Plain] at hp
  · simp [Plain] at hp
  · exact ih.slicer x _ _ hx hp hpos (by omega)

/-- a fold of `setitem`s whose values are computed on the way -/
theorem setitem_foldSem (n : Nat) (sf : Bool) (sta : Nat) (step : Expr → Part → R Expr) (val : Part → Nat) :
    ∀ (L : List Part),
      (∀ c p r, p ∈ L → step c p = .ok r → ∃ v, WF v ∧ Plain v ∧ ideal ρ v = val p ∧
          setitem cfg fuel c ((sta + p.1 : Nat) : Int) ((sta + p.2.1 : Nat) : Int) v = .ok r) →
      ∀ (ps : List Part) (r : Expr), Disj n ps → (∀ p ∈ ps, WF p.2.2) → (∀ p ∈ ps, Plain p.2.2) →
      L.foldlM step (Expr.comp n sf ps) = .ok r →
      ∃ ps', r = .comp n sf ps' ∧ Disj n ps' ∧ (∀ p ∈ ps', WF p.2.2) ∧ (∀ p ∈ ps', Plain p.2.2) ∧
        ∀ j, tbit ρ ps' j = foldBits sta val L (tbit ρ ps j) j := by
  intro L
  induction L with
  | nil =>
    intro _ ps r hd hw hq h
    simp only [List.foldlM_nil, pure, Except.pure] at h
    cases h
    exact ⟨ps, rfl, hd, hw, hq, fun j => rfl⟩
  | cons q tl ihl =>
    intro hstep ps r hd hw hq h
    rw [List.foldlM_cons] at h
    cases h1 : step (Expr.comp n sf ps) q with
    | error e => rw [h1] at h; cases h
    | ok c1 =>
      rw [h1] at h
      simp only [bind, Except.bind] at h
      obtain ⟨v, hv, hpv, hval, hset⟩ := hstep _ q c1 List.mem_cons_self h1
      obtain ⟨ps1, rfl, hd1, hw1, _, _, _, _⟩ := (widthIH_all cfg fuel).setitem n sf ps _ _ _ c1 hd hw hv hset
      obtain ⟨ps1', e1, hq1, hb1⟩ := ih.setitem n sf ps _ _ _ _ hd hw hq hv hpv hset
      cases e1
      obtain ⟨ps', hr, hd', hw', hq', hb'⟩ := ihl (fun c p r hp => hstep c p r (List.mem_cons_of_mem _ hp)) ps1 r hd1 hw1 hq1 h
      refine ⟨ps', hr, hd', hw', hq', ?_⟩
      intro j
      rw [hb' j, foldBits_cons, hb1 j, hval]
      congr 1
      simp only [Int.toNat_natCast, Nat.cast_le, Nat.cast_lt]

theorem setitem_sstep (n : Nat) (sf : Bool) (ps : List Part) (a b : Int) (v r : Expr) (hd : Disj n ps)
    (hw : ∀ p ∈ ps, WF p.2.2) (hq : ∀ p ∈ ps, Plain p.2.2) (hv : WF v) (hpv : Plain v)
    (h : setitem cfg (fuel + 1) (.comp n sf ps) a b v = .ok r) :
    ∃ ps', r = .comp n sf ps' ∧ (∀ p ∈ ps', Plain p.2.2) ∧
      ∀ j : Nat, tbit ρ ps' j = if a ≤ (j : Int) ∧ (j : Int) < b then (ideal ρ v).testBit (j - a.toNat) else tbit ρ ps j := by
  have wih := widthIH_all cfg fuel
  rw [setitem.eq_def] at h; dsimp only at h
  cases hcs : checkSlice n a b with
  | error e => rw [hcs] at h; cases h
  | ok u =>
    rw [hcs] at h
    simp only [bind, Except.bind] at h
    obtain ⟨h0, hab, hbn⟩ := checkSlice_ok hcs
    split at h
    · cases h
    · rename_i hsz
      simp only [bne_iff_ne, ne_eq, Decidable.not_not] at hsz
      simp only [pure, Except.pure] at h
      split at h
      · -- v is a comp: flatten
        rename_i vs vsf vparts
        have hvc := hv
        simp only [WF] at hv
        obtain ⟨hvpos, hvt, hvw⟩ := hv
        have hvw' := (WFParts_iff _).mp hvw
        have hvq := (plainParts_iff vparts).mp (by simpa only [Plain] using hpv)
        simp only [size_comp] at hsz
        obtain ⟨ps', hr, _, _, hq', hb'⟩ := setitem_foldSem ih n sf a.toNat
          (fun c p => setitem cfg fuel c ((a.toNat + p.1 : Nat) : Int) ((a.toNat + p.2.1 : Nat) : Int) p.2.2)
          (fun p => ideal ρ p.2.2) vparts
          (by intro c p r hp hs; exact ⟨p.2.2, hvw' p hp, hvq p hp, rfl, hs⟩) ps r hd hw hq (by simpa using h)
        refine ⟨ps', hr, hq', ?_⟩
        intro j
        rw [hb' j, foldBits_cover _ _ vs j vparts _ hvt.disj]
        by_cases hj : a ≤ (j : Int) ∧ (j : Int) < b
        · have h1 : a.toNat ≤ j := by omega
          rw [if_pos h1, if_pos hj, ideal_comp_testBit ρ _ _ _ hvt.disj]
          unfold tbit
          have hsome := cover_isSome_of_cnt (b := j - a.toNat) (ps := vparts) (by
            have := hvt.2 (j - a.toNat) (by omega)
            change cnt (j - a.toNat) vparts = 1 at this
            show 1 ≤ cnt _ _; omega)
          cases hcv : cover (j - a.toNat) vparts with
          | none => rw [hcv] at hsome; cases hsome
          | some p => obtain ⟨lo, hi, e⟩ := p; rfl
        · rw [if_neg hj]
          by_cases h1 : a.toNat ≤ j
          · rw [if_pos h1]
            have : cnt (j - a.toNat) vparts = 0 := cnt_zero_of_sized hvt.1 (by omega)
            rw [cover_none_of_cnt this]
          · rw [if_neg h1]
      · -- a single part
        cases hsp : setPart (fun y a b => getitem cfg fuel y (a : Int) (b : Int)) a.toNat b.toNat v ps with
        | error e => rw [hsp] at h; simp only at h; cases h
        | ok ps' =>
          rw [hsp] at h
          simp only at h
          cases h
          have hb := setPart_sem ρ WP _ (giSpec_of_ih wih) (giSem_of_ih ih) n a.toNat b.toNat v ps ps' hd hw
            (fun p hp => ⟨hw p hp, hq p hp⟩) hv hsz (by omega) (by omega) hsp
          have hq' := setPart_pres WP _ (fun x a b r hx hg => gi_WP ih x a b r hx hg) a.toNat b.toNat v ps ps'
            ⟨hv, hpv⟩ (fun p hp => ⟨hw p hp, hq p hp⟩) hsp
          refine ⟨ps', rfl, fun p hp => (hq' p hp).2, ?_⟩
          intro j
          rw [hb j]
          have : (a.toNat ≤ j ∧ j < b.toNat) ↔ (a ≤ (j : Int) ∧ (j : Int) < b) := by omega
          simp only [this]

/-- the loop of `composer`: the value laid down so far is `V`, below `2^pos` -/
theorem composer_foldSem (s : Nat) (sf : Bool) :
    ∀ (L : List Expr) (ps : List Part) (pos : Nat) (c : Expr) (pos' V : Nat), Disj s ps → (∀ p ∈ ps, WF p.2.2) →
      (∀ p ∈ ps, Plain p.2.2) → (∀ x ∈ L, WF x) → (∀ x ∈ L, Plain x) → V < 2 ^ pos →
      (∀ j, tbit ρ ps j = V.testBit j) →
      L.foldlM (fun (st : Expr × Nat) (x : Expr) => do
          let c ← setitem cfg fuel st.1 (st.2 : Int) ((st.2 + x.size : Nat) : Int) x
          pure (c, st.2 + x.size)) (Expr.comp s sf ps, pos) = .ok (c, pos') →
      ∃ ps', c = .comp s sf ps' ∧ (∀ p ∈ ps', Plain p.2.2) ∧
        ∀ j, tbit ρ ps' j = (cat V pos (catVal ρ L)).testBit j := by
  intro L
  induction L with
  | nil =>
    intro ps pos c pos' V _ _ hq _ _ _ hb h
    simp only [List.foldlM_nil, pure, Except.pure] at h
    cases h
    refine ⟨ps, rfl, hq, ?_⟩
    intro j; rw [hb j]; simp [catVal, cat]
  | cons y tl ihl =>
    intro ps pos c pos' V hd hw hq hL hLq hV hb h
    rw [List.foldlM_cons] at h
    simp only at h
    have hy := hL y List.mem_cons_self
    cases h1 : setitem cfg fuel (Expr.comp s sf ps) (pos : Int) ((pos + y.size : Nat) : Int) y with
    | error e => rw [h1] at h; cases h
    | ok c1 =>
      rw [h1] at h
      simp only [bind, Except.bind, pure, Except.pure] at h
      obtain ⟨ps1, rfl, hd1, hw1, _, _, _, _⟩ := (widthIH_all cfg fuel).setitem s sf ps _ _ _ c1 hd hw hy h1
      obtain ⟨ps1', e1, hq1, hb1⟩ := ih.setitem s sf ps _ _ _ _ hd hw hq hy (hLq y List.mem_cons_self) h1
      cases e1
      have hyl := ideal_lt ρ y hy
      have hb1' : ∀ j, tbit ρ ps1 j = (cat V pos (ideal ρ y)).testBit j := by
        intro j
        rw [hb1 j, testBit_cat _ _ _ _ hV, hb j]
        simp only [Int.toNat_natCast, Nat.cast_le, Nat.cast_lt]
        by_cases h1 : j < pos
        · have : ¬ (pos ≤ j ∧ j < pos + y.size) := by omega
          rw [if_neg this, if_pos h1]
        · rw [if_neg h1]
          by_cases h2 : j < pos + y.size
          · rw [if_pos ⟨by omega, h2⟩]
          · have : ¬ (pos ≤ j ∧ j < pos + y.size) := by omega
            rw [if_neg this, testBit_of_lt _ _ _ hV (by omega), testBit_of_lt _ _ _ hyl (by omega)]
      obtain ⟨ps', hr, hq', hb'⟩ := ihl ps1 (pos + y.size) c pos' (cat V pos (ideal ρ y)) hd1 hw1 hq1
        (fun x hx => hL x (List.mem_cons_of_mem _ hx)) (fun x hx => hLq x (List.mem_cons_of_mem _ hx))
        (cat_lt _ _ _ _ hV hyl) hb1' h
      refine ⟨ps', hr, hq', ?_⟩
      intro j
      rw [hb' j, cat_assoc]
      rfl

theorem composer_sstep (parts : List Expr) (hp : ∀ x ∈ parts, WF x) (hq : ∀ x ∈ parts, Plain x) :
    SPost ρ (catVal ρ parts) (composer cfg (fuel + 1) parts) := by
  rw [composer.eq_def]; dsimp only
  split
  · exact SPost_error _ _ _
  · rename_i x
    exact SPost_ok (hq x List.mem_cons_self) (by simp only [catVal]; exact (zext_value _ _).symm)
  · rename_i hne1 hne2
    apply SPost_bind; intro st hst
    obtain ⟨c, pos'⟩ := st
    have hne : parts ≠ [] := by intro h; exact hne1 h
    obtain ⟨ps', rfl, hd', hw', hp', hc', hle'⟩ := composer_fold (widthIH_all cfg fuel) _ _ parts [] 0 c pos' (Disj_nil _)
      (by intro p hp; cases hp) hp (by intro x; simp [cnt]) (by simpa using hst)
    obtain ⟨ps'', e', hq', hb'⟩ := composer_foldSem ih _ _ parts [] 0 _ pos' 0 (Disj_nil _)
      (by intro p hp; cases hp) (by intro p hp; cases hp) hp hq (by simp) (by intro j; simp [tbit, cover])
      (by simpa using hst)
    cases e'
    simp only [Nat.zero_add] at hp'
    have hpos : 0 < parts.foldl (fun a x => a + x.size) 0 := by
      cases parts with
      | nil => exact absurd rfl hne
      | cons y tl =>
        simp only [List.foldl_cons, Nat.zero_add]
        rw [foldl_add_size]
        have := WF_size_pos y (hp y List.mem_cons_self)
        omega
    have htl : Tiles (parts.foldl (fun a x => a + x.size) 0) ps' := by
      refine tiles_of_disj_cnt hd' ?_
      intro x hx
      rw [hc' x, hp']; simp [hx]
    have := ih.simplify {} (Expr.comp (parts.foldl (fun a x => a + x.size) 0)
        (match parts.getLast? with | some x => x.sf | none => false) ps')
      (by simp only [WF]; exact ⟨hpos, htl, (WFParts_iff _).mpr hw'⟩)
      (by simp only [Plain]; exact (plainParts_iff _).mpr hq') OptsOK_default
    refine SPost_of_eq this ?_
    apply Nat.eq_of_testBit_eq; intro j
    rw [ideal_comp_testBit ρ _ _ _ hd', hb' j]
    simp [cat]

theorem extendExp_sstep (sign : Bool) (x : Expr) (size : Nat) (hx : WF x) (hq : Plain x) (hlt : x.size < size) :
    SPost ρ (extVal sign x.size size (ideal ρ x)) (extendExp cfg (fuel + 1) sign x size) := by
  rw [extendExp.eq_def]; dsimp only
  have hxp := WF_size_pos x hx
  rw [if_neg (by omega)]
  apply SPost_bind; intro sb hsb
  have hs := (widthIH_all cfg fuel).getitem x _ _ hx sb hsb
  have hv := ih.getitem x _ _ hx hq sb hsb
  have hs1 : sb.size = 1 := by rw [hs.2]; omega
  have hxt : 0 < size - x.size := by omega
  have hxl := ideal_lt ρ x hx
  have hfw : WF (extFill sign sb (size - x.size)) ∧ Plain (extFill sign sb (size - x.size)) := by
    unfold extFill
    split
    · simp only [WF, Plain, size_mkCst']
      exact ⟨⟨hxt, hs.1, WF_mkCst _ _ hxt, WF_mkCst _ _ hxt, hs1, trivial, trivial⟩, hv.1, Plain_mkCst _ _, Plain_mkCst _ _⟩
    · simp only [WF, Plain]
      exact ⟨⟨hxt, Nat.two_pow_pos _⟩, trivial⟩
  have := ih.composer [x, extFill sign sb (size - x.size)]
    (by intro y hy; simp at hy; rcases hy with rfl | rfl; exact hx; exact hfw.1)
    (by intro y hy; simp at hy; rcases hy with rfl | rfl; exact hq; exact hfw.2)
  refine SPost_of_eq this ?_
  simp only [catVal]
  rw [zext_value]
  unfold extVal extFill
  cases sign
  · simp only [Bool.false_eq_true, if_false, ideal]
    rw [Nat.zero_mod, zext_value]
  · simp only [if_true, ideal, ideal_mkCst, wrap_neg_one, wrap_zero]
    have hbit : (ideal ρ sb % 2 = 1) ↔ (ideal ρ x).testBit (x.size - 1) = true := by
      rw [hv.2]
      have : (bitsOf (ideal ρ x) (x.size - 1) 1).testBit 0 = (ideal ρ x).testBit (x.size - 1) := by
        rw [testBit_bitsOf]; simp
      rw [← this, Nat.testBit_zero]
      simp
      have e1 : x.size - (x.size - 1) = 1 := by omega
      rw [e1]
    have e := sext_value (ideal ρ x) x.size (size - x.size) hxl
    have e2 : x.size + (size - x.size) = size := by omega
    rw [e2] at e
    rw [← e]
    congr 1
    by_cases hb : (ideal ρ x).testBit (x.size - 1) = true
    · rw [if_pos (hbit.mpr hb), if_pos hb]
    · rw [if_neg (mt hbit.mp hb), if_neg hb]

end steps
end Amoco.Rot
