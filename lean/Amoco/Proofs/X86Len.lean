/-
  Amoco.Proofs.X86Len — helper lemmas for C07: the byte-reader monad, little-endian numbers,
  sign extension.
-/
import Amoco.Model.X86Len

namespace Amoco.X86Len

open Rd

/-! ## every reader program is determined by the bytes it consumes -/

theorem Rd.run_prefix {α : Type} (p : Rd α) :
    ∀ (b : List Nat) (a : α) (n : Nat), p.run b = some (a, n) →
      n ≤ b.length ∧ ∀ t, p.run (b.take n ++ t) = some (a, n) := by
  induction p with
  | ret a0 =>
    intro b a n h
    simp only [Rd.run, Option.some.injEq, Prod.mk.injEq] at h
    obtain ⟨rfl, rfl⟩ := h
    simp [Rd.run]
  | fail => intro b a n h; simp [Rd.run] at h
  | read k ih =>
    intro b a n h
    cases b with
    | nil => simp [Rd.run] at h
    | cons x xs =>
      simp only [Rd.run] at h
      cases hk : (k x).run xs with
      | none => simp [hk] at h
      | some r =>
        obtain ⟨a', n'⟩ := r
        simp only [hk, Option.some.injEq, Prod.mk.injEq] at h
        obtain ⟨rfl, rfl⟩ := h
        obtain ⟨hle, hext⟩ := ih x xs a' n' hk
        refine ⟨by simp; omega, ?_⟩
        intro t
        simp only [List.take_succ_cons, List.cons_append, Rd.run, hext t]

/-- a program that starts by reading consumes at least one byte -/
theorem Rd.run_read_pos {α : Type} (k : Nat → Rd α) (b : List Nat) (a : α) (n : Nat)
    (h : (Rd.read k).run b = some (a, n)) : 1 ≤ n := by
  cases b with
  | nil => simp [Rd.run] at h
  | cons x xs =>
    simp only [Rd.run] at h
    cases hk : (k x).run xs with
    | none => simp [hk] at h
    | some r =>
      obtain ⟨a', n'⟩ := r
      simp only [hk, Option.some.injEq, Prod.mk.injEq] at h
      omega

/-- sequencing: the second program runs on what the first left -/
theorem Rd.run_bind {α β : Type} (p : Rd α) (f : α → Rd β) :
    ∀ b : List Nat, (Rd.bind p f).run b =
      match p.run b with
      | none => none
      | some (a, n) =>
        match (f a).run (b.drop n) with
        | none => none
        | some (c, k) => some (c, n + k) := by
  induction p with
  | ret a0 => intro b; simp only [Rd.bind, Rd.run, List.drop_zero]; cases (f a0).run b <;> simp
  | fail => intro b; simp [Rd.bind, Rd.run]
  | read k ih =>
    intro b
    cases b with
    | nil => simp [Rd.bind, Rd.run]
    | cons x xs =>
      simp only [Rd.bind, Rd.run, ih x xs]
      cases hk : (k x).run xs with
      | none => simp
      | some r =>
        obtain ⟨a', n'⟩ := r
        simp only [List.drop_succ_cons]
        cases (f a').run (xs.drop n') with
        | none => simp
        | some r2 => obtain ⟨c, j⟩ := r2; simp; omega

theorem run_byte (x : Nat) (xs : List Nat) : byte.run (x :: xs) = some (x, 1) := by
  simp [byte, Rd.run]

theorem run_bytes : ∀ (k : Nat) (b : List Nat), k ≤ b.length → (bytes k).run b = some (b.take k, k)
  | 0, b, _ => by simp [bytes, Rd.run]
  | k + 1, [], h => by simp at h
  | k + 1, x :: xs, h => by
    have h' : k ≤ xs.length := by simpa using h
    simp only [bytes, Rd.run_bind, run_byte, List.drop_succ_cons, List.drop_zero, run_bytes k xs h',
      Rd.run, List.take_succ_cons]
    simp; omega

theorem run_bytes_short : ∀ (k : Nat) (b : List Nat), b.length < k → (bytes k).run b = none
  | 0, b, h => by simp at h
  | k + 1, [], _ => by simp [bytes, Rd.run_bind, byte, Rd.run]
  | k + 1, x :: xs, h => by
    have h' : xs.length < k := by simpa using h
    simp [bytes, Rd.run_bind, run_byte, run_bytes_short k xs h']

/-! ## little-endian numbers and sign extension -/

theorem leBytes_length : ∀ (k v : Nat), (leBytes k v).length = k
  | 0, _ => rfl
  | k + 1, v => by simp [leBytes, leBytes_length k]

theorem leNat_leBytes : ∀ (k v : Nat), leNat (leBytes k v) = v % 2 ^ (8 * k)
  | 0, v => by simp [leBytes, leNat, Nat.mod_one]
  | k + 1, v => by
    simp only [leBytes, leNat, leNat_leBytes k (v / 256), Nat.mod_mod]
    have h : 2 ^ (8 * (k + 1)) = 256 * 2 ^ (8 * k) := by
      rw [Nat.mul_add, Nat.pow_add]; simp [Nat.mul_comm]
    rw [h, Nat.mod_mul]

theorem sext_roundtrip (k : Nat) (hk : 0 < k) (d : Int)
    (hlo : -(2 ^ (8 * k - 1) : Int) ≤ d) (hhi : d < (2 ^ (8 * k - 1) : Int)) :
    sext k (d % (2 ^ (8 * k) : Int)).toNat = d := by
  have hw : (2 ^ (8 * k) : Int) = 2 * 2 ^ (8 * k - 1) := by
    have : 8 * k = (8 * k - 1) + 1 := by omega
    conv => lhs; rw [this, Int.pow_succ]
    omega
  have hpos : (0 : Int) < 2 ^ (8 * k - 1) := Int.pow_pos (by decide)
  unfold sext
  simp only
  by_cases hd : 0 ≤ d
  · have h1 : d % (2 ^ (8 * k) : Int) = d := Int.emod_eq_of_lt hd (by omega)
    rw [h1]
    have h2 : (d.toNat : Int) = d := Int.toNat_of_nonneg hd
    have h3 : d.toNat % 2 ^ (8 * k) = d.toNat := by
      apply Nat.mod_eq_of_lt
      have : (d.toNat : Int) < ((2 ^ (8 * k) : Nat) : Int) := by rw [h2]; push_cast; omega
      exact_mod_cast this
    rw [h3]
    have h4 : 2 * d.toNat < 2 ^ (8 * k) := by
      have : ((2 * d.toNat : Nat) : Int) < ((2 ^ (8 * k) : Nat) : Int) := by push_cast; rw [h2]; omega
      exact_mod_cast this
    simp [h4, h2]
  · have hneg : d < 0 := by omega
    have h1 : d % (2 ^ (8 * k) : Int) = d + 2 ^ (8 * k) := by
      rw [← Int.add_emod_right]
      exact Int.emod_eq_of_lt (by omega) (by omega)
    rw [h1]
    have hnn : 0 ≤ d + (2 ^ (8 * k) : Int) := by omega
    have h2 : ((d + 2 ^ (8 * k)).toNat : Int) = d + 2 ^ (8 * k) := Int.toNat_of_nonneg hnn
    have h3 : (d + 2 ^ (8 * k)).toNat % 2 ^ (8 * k) = (d + 2 ^ (8 * k)).toNat := by
      apply Nat.mod_eq_of_lt
      have : ((d + 2 ^ (8 * k)).toNat : Int) < ((2 ^ (8 * k) : Nat) : Int) := by rw [h2]; push_cast; omega
      exact_mod_cast this
    rw [h3]
    have h4 : ¬ 2 * (d + 2 ^ (8 * k)).toNat < 2 ^ (8 * k) := by
      intro hc
      have : ((2 * (d + 2 ^ (8 * k)).toNat : Nat) : Int) < ((2 ^ (8 * k) : Nat) : Int) := by exact_mod_cast hc
      push_cast at this; rw [h2] at this; omega
    simp only [h4, if_false, h2]
    push_cast
    omega



/-! ## running the decoder on an instruction without / with one prefix -/

/-- bytes the prefix loop consumes -/
def isPfxByte (m : Mode) (x : Nat) : Bool :=
  x == 0x66 || x == 0x67 || x == 0xf2 || x == 0xf3 || x == 0xf0 || isSegPfx x
    || (m == .m64 && 0x40 ≤ x && x ≤ 0x4f)

/-- opcode of the one-byte map that is decoded by the table `op1` (no escape, no ModRM-dependent shape) -/
def plainOp (m : Mode) (p : Pfx) (op : Nat) : Option Op :=
  if isPfxByte m op || op == 0x0f || (special1 m p op).isSome then none else op1 m op

/-- opcode of the two-byte map that is decoded by the table `op2` -/
def plainOp2 (m : Mode) (p : Pfx) (op : Nat) : Option Op :=
  if op == 0x38 || op == 0x3a || (0x20 ≤ op && op ≤ 0x23) then none else op2 m p op

theorem prefixes_stop (m : Mode) (f : Nat) (p : Pfx) (x : Nat) (rest : List Nat)
    (h : isPfxByte m x = false) :
    (prefixes m (f + 1) p).run (x :: rest) = some ((p, x), 1) := by
  simp only [isPfxByte, Bool.or_eq_false_iff] at h
  obtain ⟨⟨⟨⟨⟨⟨h1, h2⟩, h3⟩, h4⟩, h5⟩, h6⟩, h7⟩ := h
  simp only [prefixes, Rd.run_bind, run_byte, List.drop_succ_cons, List.drop_zero]
  simp [h1, h2, h3, h4, h5, h6, h7, Rd.run]

theorem prefixes_66 (m : Mode) (f : Nat) (p : Pfx) (rest : List Nat) :
    (prefixes m (f + 1) p).run (0x66 :: rest) =
      match (prefixes m f { p with opsz := true, rex := none }).run rest with
      | some (r, n) => some (r, 1 + n)
      | none => none := by
  simp only [prefixes, Rd.run_bind, run_byte, List.drop_succ_cons, List.drop_zero]
  simp only [beq_self_eq_true, if_true]
  cases (prefixes m f { p with opsz := true, rex := none }).run rest with
  | none => rfl
  | some r => obtain ⟨a, n⟩ := r; rfl

theorem prefixes_67 (m : Mode) (f : Nat) (p : Pfx) (rest : List Nat) :
    (prefixes m (f + 1) p).run (0x67 :: rest) =
      match (prefixes m f { p with adsz := true, rex := none }).run rest with
      | some (r, n) => some (r, 1 + n)
      | none => none := by
  simp only [prefixes, Rd.run_bind, run_byte, List.drop_succ_cons, List.drop_zero]
  have : ((0x67 : Nat) == 0x66) = false := by decide
  simp only [this, beq_self_eq_true, if_true, Bool.false_eq_true, if_false]
  cases (prefixes m f { p with adsz := true, rex := none }).run rest with
  | none => rfl
  | some r => obtain ⟨a, n⟩ := r; rfl

theorem prefixes_rex (f : Nat) (p : Pfx) (x : Nat) (rest : List Nat) (hlo : 0x40 ≤ x) (hhi : x ≤ 0x4f) :
    (prefixes .m64 (f + 1) p).run (x :: rest) =
      match (prefixes .m64 f { p with rex := some x }).run rest with
      | some (r, n) => some (r, 1 + n)
      | none => none := by
  simp only [prefixes, Rd.run_bind, run_byte, List.drop_succ_cons, List.drop_zero]
  have h1 : (x == 0x66) = false := by simp; omega
  have h2 : (x == 0x67) = false := by simp; omega
  have h3 : (x == 0xf2 || x == 0xf3) = false := by simp; omega
  have h4 : (x == 0xf0) = false := by simp; omega
  have h5 : isSegPfx x = false := by simp [isSegPfx]; omega
  have h6 : ((Mode.m64 == Mode.m64) && decide (0x40 ≤ x) && decide (x ≤ 0x4f)) = true := by simp; omega
  simp only [h1, h2, h3, h4, h5, h6, Bool.false_eq_true, if_false, if_true]
  cases (prefixes .m64 f { p with rex := some x }).run rest with
  | none => rfl
  | some r => obtain ⟨a, n⟩ := r; rfl

/-- shape of `insn` once the prefixes are known -/
def afterPfx (m : Mode) (p : Pfx) (op : Nat) : Rd (Option Int) :=
  if op == 0x0f then twoByte m p
  else
    match special1 m p op with
    | some r => r
    | none =>
      match op1 m op with
      | some o => rdOp m p o
      | none => .fail

theorem insn_eq (m : Mode) : insn m = Rd.bind (prefixes m 15 {}) (fun r => afterPfx m r.1 r.2) := rfl

theorem afterPfx_plain (m : Mode) (p : Pfx) (op : Nat) (o : Op) (h : plainOp m p op = some o) :
    afterPfx m p op = rdOp m p o := by
  unfold plainOp at h
  split at h
  · cases h
  · rename_i hc
    simp only [Bool.or_eq_true, not_or, Bool.not_eq_true] at hc
    obtain ⟨⟨_, h0f⟩, hsp⟩ := hc
    have hsp' : special1 m p op = none := by
      cases hs : special1 m p op with
      | none => rfl
      | some r => simp [hs] at hsp
    unfold afterPfx
    simp [h0f, hsp', h]

theorem plainOp_notPfx (m : Mode) (p : Pfx) (op : Nat) (o : Op) (h : plainOp m p op = some o) :
    isPfxByte m op = false := by
  unfold plainOp at h
  split at h
  · cases h
  · rename_i hc
    simp only [Bool.or_eq_true, not_or, Bool.not_eq_true] at hc
    exact hc.1.1

theorem twoByte_plain (m : Mode) (p : Pfx) (op : Nat) (o : Op) (rest : List Nat)
    (h : plainOp2 m p op = some o) :
    (twoByte m p).run (op :: rest) =
      match (rdOp m p o).run rest with
      | some (d, n) => some (d, 1 + n)
      | none => none := by
  unfold plainOp2 at h
  split at h
  · cases h
  · rename_i hc
    simp only [Bool.or_eq_true, not_or, Bool.not_eq_true] at hc
    obtain ⟨⟨h38, h3a⟩, hcr⟩ := hc
    simp only [twoByte, Rd.run_bind, run_byte, List.drop_succ_cons, List.drop_zero]
    simp only [h38, h3a, hcr, h, Bool.false_eq_true, if_false]
    cases (rdOp m p o).run rest with
    | none => rfl
    | some r => obtain ⟨a, n⟩ := r; rfl

end Amoco.X86Len
