import Amoco.Model.HexSrec
namespace Amoco.Fmt

theorem normIdx_nat (n a : Nat) : normIdx n (a : Int) = min a n := by
  unfold normIdx
  have : ¬ ((a : Int) < 0) := by omega
  simp [this]

theorem normIdx_neg2 (n : Nat) : normIdx n (-2) = n - 2 := by
  unfold normIdx
  have : ((-2 : Int) < 0) := by omega
  rw [if_pos this]
  omega

theorem pySlice_nat {α} (l : List α) (a b : Nat) (hb : b ≤ l.length) (hab : a ≤ b) :
    pySlice l (a : Int) (b : Int) = (l.drop a).take (b - a) := by
  unfold pySlice
  rw [normIdx_nat, normIdx_nat]
  have h1 : min a l.length = a := by omega
  have h2 : min b l.length = b := by omega
  rw [h1, h2]

theorem pySlice_nat' {α} (l : List α) (a b : Nat) (ai bi : Int) (ha : ai = a) (hbi : bi = b)
    (hb : b ≤ l.length) (hab : a ≤ b) :
    pySlice l ai bi = (l.drop a).take (b - a) := by
  subst ha; subst hbi; exact pySlice_nat l a b hb hab

theorem pySlice_neg2' {α} (l : List α) (a : Nat) (ai : Int) (ha : ai = a) (h : a + 2 ≤ l.length) :
    pySlice l ai (-2) = (l.drop a).take (l.length - 2 - a) := by
  subst ha; unfold pySlice
  rw [normIdx_nat, normIdx_neg2]
  have h1 : min a l.length = a := by omega
  rw [h1]

theorem pySlice_neg2 {α} (l : List α) (a : Nat) (h : a + 2 ≤ l.length) :
    pySlice l (a : Int) (-2) = (l.drop a).take (l.length - 2 - a) := by
  unfold pySlice
  rw [normIdx_nat, normIdx_neg2]
  have h1 : min a l.length = a := by omega
  rw [h1]

theorem pySliceFrom_neg2 {α} (l : List α) :
    pySliceFrom l (-2) = l.drop (l.length - 2) := by
  unfold pySliceFrom
  rw [normIdx_neg2]

/-- characterisation of hex digit characters -/
theorem hexVal?_some {c d : Nat} (h : hexVal? c = some d) :
    ((48 ≤ c ∧ c ≤ 57 ∧ d = c - 48) ∨ (97 ≤ c ∧ c ≤ 102 ∧ d = c - 87) ∨ (65 ≤ c ∧ c ≤ 70 ∧ d = c - 55)) := by
  unfold hexVal? at h
  split at h
  · rename_i h1; simp at h1 h; omega
  · split at h
    · rename_i h1 h2; simp at h2 h; omega
    · split at h
      · rename_i h1 h2 h3; simp at h3 h; omega
      · cases h

theorem digitVal?_of_hex {c d : Nat} (h : hexVal? c = some d) : digitVal? c = some d ∧ d < 16 := by
  have := hexVal?_some h
  unfold digitVal?
  rcases this with ⟨a, b, e⟩ | ⟨a, b, e⟩ | ⟨a, b, e⟩
  · have : (48 ≤ c && c ≤ 57) = true := by simp; omega
    simp [this, e]; omega
  · have h1 : (48 ≤ c && c ≤ 57) = false := by simp; omega
    have h2 : (97 ≤ c && c ≤ 122) = true := by simp; omega
    simp [h1, h2, e]; omega
  · have h1 : (48 ≤ c && c ≤ 57) = false := by simp; omega
    have h2 : (97 ≤ c && c ≤ 122) = false := by simp; omega
    have h3 : (65 ≤ c && c ≤ 90) = true := by simp; omega
    simp [h1, h2, h3, e]; omega

def AllHex (ds : List Nat) : Prop := ∀ c ∈ ds, (hexVal? c).isSome = true

def digitsVal : List Nat → Nat → Nat
  | [], acc => acc
  | c :: t, acc => digitsVal t (acc * 16 + (hexVal? c).getD 0)

theorem scanDigits_hex (ds : List Nat) (h : AllHex ds) (acc : Nat) :
    scanDigits 16 ds acc false = some (digitsVal ds acc, []) := by
  induction ds generalizing acc with
  | nil => simp [scanDigits, digitsVal]
  | cons c t ih =>
    have hc := h c (by simp)
    obtain ⟨d, hd⟩ := Option.isSome_iff_exists.mp hc
    have ⟨h1, h2⟩ := digitVal?_of_hex hd
    have hne : (c == 95) = false := by
      have := hexVal?_some hd
      simp; omega
    unfold scanDigits
    simp only [hne, h1, h2, digitsVal, hd]
    simp
    exact ih (fun x hx => h x (by simp [hx])) _

theorem pyInt_hex (ds : List Nat) (h : AllHex ds) (hne : ds ≠ []) :
    pyInt 16 ds = .ok ((digitsVal ds 0 : Nat) : Int) := by
  match ds, hne with
  | c :: t, _ =>
    have hc := h c (by simp)
    obtain ⟨d, hd⟩ := Option.isSome_iff_exists.mp hc
    have hcs := hexVal?_some hd
    have hsp : isSpace c = false := by unfold isSpace; simp; omega
    have hl : lstrip (c :: t) = c :: t := by simp [lstrip, List.dropWhile, hsp]
    have hsc := scanDigits_hex (c :: t) h 0
    have c45 : c ≠ 45 := by omega
    have c43 : c ≠ 43 := by omega
    have c95 : c ≠ 95 := by omega
    have hpfx : (t.head? == some 120 || t.head? == some 88) = false := by
      cases t with
      | nil => simp
      | cons x t' =>
        have hx := h x (by simp)
        obtain ⟨dx, hdx⟩ := Option.isSome_iff_exists.mp hx
        have := hexVal?_some hdx
        simp; omega
    have hle : lstrip [] = [] := by simp [lstrip]
    unfold pyInt
    simp only [hl]
    simp [c45, c43, c95, hpfx, hsc, hle]


/-! ### hexDigits -/

theorem hexVal?_upperHex (d : Nat) (h : d < 16) : hexVal? (upperHex d) = some d := by
  have : ∀ d : Fin 16, hexVal? (upperHex d.val) = some d.val := by decide
  exact this ⟨d, h⟩

theorem hexVal?_lowerHex (d : Nat) (h : d < 16) : hexVal? (lowerHex d) = some d := by
  have : ∀ d : Fin 16, hexVal? (lowerHex d.val) = some d.val := by decide
  exact this ⟨d, h⟩

theorem hexDigits_length (w n : Nat) : (hexDigits w n).length = w := by
  induction w generalizing n with
  | zero => simp [hexDigits]
  | succ w ih => simp [hexDigits, ih]

theorem allHex_hexDigits (w n : Nat) : AllHex (hexDigits w n) := by
  induction w generalizing n with
  | zero => intro c hc; simp [hexDigits] at hc
  | succ w ih =>
    intro c hc
    simp only [hexDigits, List.mem_append, List.mem_singleton] at hc
    rcases hc with hc | hc
    · exact ih _ c hc
    · subst hc; rw [hexVal?_upperHex _ (Nat.mod_lt _ (by omega))]; rfl

theorem digitsVal_append (a b : List Nat) (acc : Nat) :
    digitsVal (a ++ b) acc = digitsVal b (digitsVal a acc) := by
  induction a generalizing acc with
  | nil => rfl
  | cons c t ih => simp [digitsVal, ih]

theorem digitsVal_hexDigits (w n acc : Nat) :
    digitsVal (hexDigits w n) acc = acc * 16 ^ w + n % 16 ^ w := by
  induction w generalizing n acc with
  | zero => simp [hexDigits, digitsVal, Nat.mod_one]
  | succ w ih =>
    simp only [hexDigits, digitsVal_append, ih, digitsVal]
    rw [hexVal?_upperHex _ (Nat.mod_lt _ (by omega))]
    simp only [Option.getD_some]
    have h16 : 16 ^ (w + 1) = 16 * 16 ^ w := by rw [Nat.pow_succ]; omega
    have hm : n % (16 * 16 ^ w) = n % 16 + 16 * (n / 16 % 16 ^ w) := Nat.mod_mul
    rw [h16, hm]
    have h2 : acc * (16 * 16 ^ w) = acc * 16 ^ w * 16 := by rw [Nat.mul_comm 16, Nat.mul_assoc]
    rw [h2, Nat.add_mul]
    omega

theorem pyInt_hexDigits (w n : Nat) (hw : 0 < w) :
    pyInt 16 (hexDigits w n) = .ok ((n % 16 ^ w : Nat) : Int) := by
  have hne : hexDigits w n ≠ [] := by
    intro h; have := hexDigits_length w n; rw [h] at this; simp at this; omega
  rw [pyInt_hex _ (allHex_hexDigits w n) hne, digitsVal_hexDigits]
  simp


/-! ### unhexlify / hexlify -/

def mapOk {α β} (f : α → β) : Py α → Py β
  | .ok a => .ok (f a)
  | .error e => .error e

theorem unhexlify_cons2 (x y : Nat) (hx : x < 16) (hy : y < 16) (t : List Nat) :
    unhexlify (upperHex x :: upperHex y :: t) = mapOk (fun r => (x * 16 + y) :: r) (unhexlify t) := by
  rw [unhexlify, hexVal?_upperHex x hx, hexVal?_upperHex y hy]
  cases unhexlify t <;> rfl

theorem unhexlify_hexlifyUpper_append (d rest : List Nat) (hd : ∀ b ∈ d, b < 256) :
    unhexlify (hexlifyUpper d ++ rest) = mapOk (fun r => d ++ r) (unhexlify rest) := by
  induction d with
  | nil => simp [hexlifyUpper]; cases unhexlify rest <;> rfl
  | cons b t ih =>
    have hb : b < 256 := hd b (by simp)
    simp only [hexlifyUpper, List.cons_append]
    rw [unhexlify_cons2 _ _ (by omega) (Nat.mod_lt _ (by omega)), ih (fun x hx => hd x (by simp [hx]))]
    have : b / 16 * 16 + b % 16 = b := by omega
    rw [this]
    cases unhexlify rest <;> rfl

theorem hexDigits_two (n : Nat) : hexDigits 2 n = [upperHex (n / 16 % 16), upperHex (n % 16)] := by
  simp [hexDigits]

theorem hexDigits_add_two (w n : Nat) :
    hexDigits (w + 2) n = hexDigits w (n / 256) ++ hexDigits 2 (n % 256) := by
  have e1 : n / 16 / 16 = n / 256 := by omega
  have e2 : n % 256 / 16 % 16 = n / 16 % 16 := by omega
  have e3 : n % 256 % 16 = n % 16 := by omega
  simp [hexDigits, e1, e2, e3]

theorem unhexlify_hexDigits2_append (n : Nat) (rest : List Nat) :
    unhexlify (hexDigits 2 n ++ rest) = mapOk (fun r => (n % 256) :: r) (unhexlify rest) := by
  rw [hexDigits_two]
  simp only [List.cons_append, List.nil_append]
  rw [unhexlify_cons2 _ _ (Nat.mod_lt _ (by omega)) (Nat.mod_lt _ (by omega))]
  have : n / 16 % 16 * 16 + n % 16 = n % 256 := by omega
  rw [this]

theorem unhexlify_hexDigits_append (k n : Nat) (rest : List Nat) :
    unhexlify (hexDigits (2 * k) n ++ rest) = mapOk (fun r => beBytes k n ++ r) (unhexlify rest) := by
  induction k generalizing n rest with
  | zero => simp [hexDigits, beBytes]; cases unhexlify rest <;> rfl
  | succ k ih =>
    have : 2 * (k + 1) = 2 * k + 2 := by omega
    rw [this, hexDigits_add_two, List.append_assoc, ih, unhexlify_hexDigits2_append]
    simp only [beBytes]
    have : n % 256 % 256 = n % 256 := by omega
    rw [this]
    cases unhexlify rest <;> simp [mapOk]

theorem hexlifyUpper_length (d : List Nat) : (hexlifyUpper d).length = 2 * d.length := by
  induction d with
  | nil => rfl
  | cons b t ih => simp [hexlifyUpper, ih]; omega

theorem allHex_hexlify (d : List Nat) (hd : ∀ b ∈ d, b < 256) : AllHex (hexlify d) := by
  induction d with
  | nil => intro c hc; simp [hexlify] at hc
  | cons b t ih =>
    have hb : b < 256 := hd b (by simp)
    intro c hc
    simp only [hexlify, List.mem_cons] at hc
    rcases hc with hc | hc | hc
    · subst hc; rw [hexVal?_lowerHex _ (by omega)]; rfl
    · subst hc; rw [hexVal?_lowerHex _ (Nat.mod_lt _ (by omega))]; rfl
    · exact ih (fun x hx => hd x (by simp [hx])) c hc

theorem digitsVal_hexlify (d : List Nat) (hd : ∀ b ∈ d, b < 256) (acc : Nat) :
    digitsVal (hexlify d) acc = beNat d acc := by
  induction d generalizing acc with
  | nil => rfl
  | cons b t ih =>
    have hb : b < 256 := hd b (by simp)
    simp only [hexlify, digitsVal, beNat]
    rw [hexVal?_lowerHex _ (by omega), hexVal?_lowerHex _ (Nat.mod_lt _ (by omega))]
    simp only [Option.getD_some]
    rw [ih (fun x hx => hd x (by simp [hx]))]
    congr 1
    omega

theorem hexlify_ne_nil (d : List Nat) (h : d ≠ []) : hexlify d ≠ [] := by
  cases d with
  | nil => exact absurd rfl h
  | cons b t => simp [hexlify]

theorem pyInt_hexlify (d : List Nat) (hd : ∀ b ∈ d, b < 256) (h : d ≠ []) :
    pyInt 16 (hexlify d) = .ok ((beNat d 0 : Nat) : Int) := by
  rw [pyInt_hex _ (allHex_hexlify d hd) (hexlify_ne_nil d h), digitsVal_hexlify d hd]

theorem hexlify_take (d : List Nat) (k : Nat) : (hexlify d).take (2 * k) = hexlify (d.take k) := by
  induction d generalizing k with
  | nil => simp [hexlify]
  | cons b t ih =>
    cases k with
    | zero => simp [hexlify]
    | succ k =>
      have : 2 * (k + 1) = (2 * k + 1) + 1 := by omega
      simp only [hexlify, List.take_succ_cons, this, ih]

theorem hexlify_drop (d : List Nat) (k : Nat) : (hexlify d).drop (2 * k) = hexlify (d.drop k) := by
  induction d generalizing k with
  | nil => simp [hexlify]
  | cons b t ih =>
    cases k with
    | zero => simp [hexlify]
    | succ k =>
      have : 2 * (k + 1) = (2 * k + 1) + 1 := by omega
      simp only [hexlify, List.drop_succ_cons, this, ih]

theorem hexlify_length (d : List Nat) : (hexlify d).length = 2 * d.length := by
  induction d with
  | nil => rfl
  | cons b t ih => simp [hexlify, ih]; omega


/-! ### strip -/

theorem rstrip_append_single (p : List Nat) (x : Nat) (hx : isSpace x = false) :
    rstrip (p ++ [x]) = p ++ [x] := by
  simp [rstrip, hx]

theorem strip_eq (c : Nat) (p : List Nat) (x : Nat) (hc : isSpace c = false) (hx : isSpace x = false) :
    strip (c :: (p ++ [x])) = c :: (p ++ [x]) := by
  unfold strip
  have : lstrip (c :: (p ++ [x])) = c :: (p ++ [x]) := by simp [lstrip, List.dropWhile, hc]
  rw [this]
  have := rstrip_append_single (c :: p) x hx
  simpa using this

theorem isSpace_upperHex (d : Nat) (h : d < 16) : isSpace (upperHex d) = false := by
  have : ∀ d : Fin 16, isSpace (upperHex d.val) = false := by decide
  exact this ⟨d, h⟩

/-! ### HEX round trip -/

theorem hexPrint_length (r : HexRec) (ck : Nat) : (hexPrint r ck).length = 11 + 2 * r.data.length := by
  simp [hexPrint, hexDigits_length, hexlifyUpper_length]; omega

theorem strip_hexPrint (r : HexRec) (ck : Nat) : strip (hexPrint r ck) = hexPrint r ck := by
  have e : hexPrint r ck = 58 :: ((hexDigits 2 r.count ++ (hexDigits 4 r.address ++ (hexDigits 2 r.code ++
      (hexlifyUpper r.data ++ hexDigits 1 (ck / 16))))) ++ [upperHex (ck % 16)]) := by
    simp [hexPrint, hexDigits]
  rw [e]
  exact strip_eq 58 _ _ (by decide) (isSpace_upperHex _ (Nat.mod_lt _ (by omega)))

theorem hexPrint_slices (r : HexRec) (ck : Nat) (hcount : r.count = r.data.length) :
    pySlice (hexPrint r ck) 0 1 = [58] ∧
    pySlice (hexPrint r ck) 1 3 = hexDigits 2 r.count ∧
    pySlice (hexPrint r ck) 3 7 = hexDigits 4 r.address ∧
    pySlice (hexPrint r ck) 7 9 = hexDigits 2 r.code ∧
    pySlice (hexPrint r ck) 9 (9 + 2 * (r.count : Int)) = hexlifyUpper r.data ∧
    pySlice (hexPrint r ck) 1 (-2) =
      hexDigits 2 r.count ++ (hexDigits 4 r.address ++ (hexDigits 2 r.code ++ hexlifyUpper r.data)) ∧
    pySliceFrom (hexPrint r ck) (-2) = hexDigits 2 ck := by
  have hlen := hexPrint_length r ck
  have hD := hexlifyUpper_length r.data
  have e : hexPrint r ck = 58 :: upperHex (r.count / 16 % 16) :: upperHex (r.count % 16) ::
      upperHex (r.address / 16 / 16 / 16 % 16) :: upperHex (r.address / 16 / 16 % 16) ::
      upperHex (r.address / 16 % 16) :: upperHex (r.address % 16) ::
      upperHex (r.code / 16 % 16) :: upperHex (r.code % 16) ::
      (hexlifyUpper r.data ++ [upperHex (ck / 16 % 16), upperHex (ck % 16)]) := by
    simp [hexPrint, hexDigits]
  have hl9 : 9 ≤ (hexPrint r ck).length := by omega
  refine ⟨?_, ?_, ?_, ?_, ?_, ?_, ?_⟩
  · have := pySlice_nat (hexPrint r ck) 0 1 (by omega) (by omega)
    simp at this
    rw [this, e]; rfl
  · have := pySlice_nat (hexPrint r ck) 1 3 (by omega) (by omega)
    simp at this
    rw [this, e]; simp [hexDigits]
  · have := pySlice_nat (hexPrint r ck) 3 7 (by omega) (by omega)
    simp at this
    rw [this, e]; simp [hexDigits]
  · have := pySlice_nat (hexPrint r ck) 7 9 (by omega) (by omega)
    simp at this
    rw [this, e]; simp [hexDigits]
  · rw [pySlice_nat' (hexPrint r ck) 9 (9 + 2 * r.count) _ _ (by omega) (by omega) (by omega) (by omega), e]
    simp only [List.drop_succ_cons, List.drop_zero]
    apply List.take_left'
    omega
  · rw [pySlice_neg2' (hexPrint r ck) 1 _ (by omega) (by omega), hlen, e]
    simp only [List.drop_succ_cons, List.drop_zero]
    have : 11 + 2 * r.data.length - 2 - 1 = (2 * r.data.length) + 8 := by omega
    rw [this]
    simp only [List.take_succ_cons, hexDigits, List.nil_append, List.cons_append]
    congr 8
    apply List.take_left'
    omega
  · rw [pySliceFrom_neg2, hlen, e]
    have : 11 + 2 * r.data.length - 2 = (2 * r.data.length) + 9 := by omega
    rw [this]
    simp only [List.drop_succ_cons, hexDigits, List.nil_append, List.cons_append]
    rw [List.drop_left']
    omega


theorem unhexlify_hexlifyUpper (d : List Nat) (hd : ∀ b ∈ d, b < 256) :
    unhexlify (hexlifyUpper d) = .ok d := by
  have := unhexlify_hexlifyUpper_append d [] hd
  simpa [unhexlify, mapOk] using this

theorem hexExtOf_wf (r : HexRec) (h : r.WF) : hexExtOf r.code r.count r.data = .ok r.ext := by
  obtain ⟨hc, _, _, _, hd, h2, h3, h4, h5⟩ := h
  unfold hexExtOf HexRec.ext
  by_cases c2 : r.code = 2
  · have hne : r.data ≠ [] := by intro e; rw [e] at hc; have := h2 c2; simp at hc; omega
    have := h2 c2
    simp [c2, this, pyAssert, pyInt_hexlify r.data hd hne, bind, Except.bind, pure, Except.pure]
  · by_cases c3 : r.code = 3
    · have hl := h3 c3
      have hlen : r.data.length = 4 := by omega
      have e1 : pySlice (hexlify r.data) 0 4 = hexlify (r.data.take 2) := by
        rw [pySlice_nat' (hexlify r.data) 0 4 _ _ (by omega) (by omega) (by rw [hexlify_length]; omega) (by omega)]
        simp only [List.drop_zero]
        exact hexlify_take r.data 2
      have e2 : pySliceFrom (hexlify r.data) 4 = hexlify (r.data.drop 2) := by
        unfold pySliceFrom
        rw [show (4 : Int) = ((4 : Nat) : Int) from rfl, normIdx_nat, hexlify_length]
        have : min 4 (2 * r.data.length) = 2 * 2 := by omega
        rw [this]
        exact hexlify_drop r.data 2
      have n1 : r.data.take 2 ≠ [] := by
        intro e; have := congrArg List.length e
        rw [List.length_take] at this; simp only [List.length_nil] at this; omega
      have n2 : r.data.drop 2 ≠ [] := by
        intro e; have := congrArg List.length e
        rw [List.length_drop] at this; simp only [List.length_nil] at this; omega
      have d1 : ∀ b ∈ r.data.take 2, b < 256 := fun b hb => hd b (List.mem_of_mem_take hb)
      have d2 : ∀ b ∈ r.data.drop 2, b < 256 := fun b hb => hd b (List.mem_of_mem_drop hb)
      simp [c3, hl, pyAssert, e1, e2, pyInt_hexlify _ d1 n1, pyInt_hexlify _ d2 n2, bind, Except.bind, pure, Except.pure]
    · by_cases c4 : r.code = 4
      · have hne : r.data ≠ [] := by intro e; rw [e] at hc; have := h4 c4; simp at hc; omega
        have := h4 c4
        simp [c4, this, pyAssert, pyInt_hexlify r.data hd hne, bind, Except.bind, pure, Except.pure]
      · by_cases c5 : r.code = 5
        · have hne : r.data ≠ [] := by intro e; rw [e] at hc; have := h5 c5; simp at hc; omega
          have := h5 c5
          simp [c5, this, pyAssert, pyInt_hexlify r.data hd hne, bind, Except.bind, pure, Except.pure]
        · have i2 : ¬ ((r.code : Int) = 2) := by omega
          have i3 : ¬ ((r.code : Int) = 3) := by omega
          have i4 : ¬ ((r.code : Int) = 4) := by omega
          have i5 : ¬ ((r.code : Int) = 5) := by omega
          simp [c2, c3, c4, c5, i2, i3, i4, i5, pure, Except.pure]


theorem hexLineBody_print (r : HexRec) (h : r.WF) (ck : Nat) (hck : ck < 256) :
    hexLineBody (hexPrint r ck) = if r.cksum = ck then .ok r.toLine else .error .assertion := by
  have hext := hexExtOf_wf r h
  obtain ⟨hc, hc256, ha, hcode, hd, -⟩ := h
  obtain ⟨s0, s1, s2, s3, s4, s5, s6⟩ := hexPrint_slices r ck hc
  have i1 : pyInt 16 (hexDigits 2 r.count) = .ok (r.count : Int) := by
    rw [pyInt_hexDigits 2 r.count (by omega)]
    have : r.count % 16 ^ 2 = r.count := Nat.mod_eq_of_lt (by omega)
    rw [this]
  have i2 : pyInt 16 (hexDigits 4 r.address) = .ok (r.address : Int) := by
    rw [pyInt_hexDigits 4 r.address (by omega)]
    have : r.address % 16 ^ 4 = r.address := Nat.mod_eq_of_lt (by omega)
    rw [this]
  have i3 : pyInt 16 (hexDigits 2 r.code) = .ok (r.code : Int) := by
    rw [pyInt_hexDigits 2 r.code (by omega)]
    have : r.code % 16 ^ 2 = r.code := Nat.mod_eq_of_lt (by omega)
    rw [this]
  have i4 : pyInt 16 (hexDigits 2 ck) = .ok (ck : Int) := by
    rw [pyInt_hexDigits 2 ck (by omega)]
    have : ck % 16 ^ 2 = ck := Nat.mod_eq_of_lt (by omega)
    rw [this]
  have u1 : unhexlify (hexlifyUpper r.data) = .ok r.data := unhexlify_hexlifyUpper r.data hd
  have u2 : unhexlify (hexDigits 2 r.count ++ (hexDigits 4 r.address ++ (hexDigits 2 r.code ++ hexlifyUpper r.data)))
      = .ok r.bytes := by
    rw [unhexlify_hexDigits2_append, show hexDigits 4 r.address = hexDigits (2 * 2) r.address from rfl,
      unhexlify_hexDigits_append, unhexlify_hexDigits2_append, u1]
    simp only [mapOk, beBytes, HexRec.bytes, List.nil_append, List.cons_append]
    have e1 : r.count % 256 = r.count := Nat.mod_eq_of_lt (by omega)
    have e2 : r.address / 256 % 256 = r.address / 256 := Nat.mod_eq_of_lt (by omega)
    have e3 : r.code % 256 = r.code := Nat.mod_eq_of_lt (by omega)
    rw [e1, e2, e3]
  unfold hexLineBody
  simp only [s0, s1, s2, s3, s5, s6, i1, i2, i3, i4, u2, bind, Except.bind, pyAssert]
  simp only [s4, u1, hext, HexRec.cksum, HexRec.toLine]
  by_cases hk : hexCksum r.bytes = ck
  · simp [hk, pure, Except.pure]
  · have : ¬ ((hexCksum r.bytes : Int) = (ck : Int)) := by omega
    simp [hk, this]

/-- parse (print r) = r -/
theorem hexLineSet_print (r : HexRec) (h : r.WF) :
    hexLineSet (hexPrint r r.cksum) = .ok r.toLine := by
  have hck : r.cksum < 256 := by unfold HexRec.cksum hexCksum; omega
  unfold hexLineSet
  rw [strip_hexPrint, hexLineBody_print r h _ hck]
  simp [toHexError]

theorem hexLineSet_bad_cksum (r : HexRec) (h : r.WF) (ck : Nat) (hck : ck < 256) (hne : ck ≠ r.cksum) :
    hexLineSet (hexPrint r ck) = .error .hexError := by
  unfold hexLineSet
  rw [strip_hexPrint, hexLineBody_print r h _ hck]
  have : ¬ (r.cksum = ck) := fun e => hne e.symm
  simp [this, toHexError]


/-! ### HEX address composition -/

theorem hexDecode_noSeg (ls : List HexLine) (ela : Int) (m : HexMode) (h : hexNoSeg ls = true)
    (hm : (m = .plain ∧ ela = 0) ∨ m = .lin ela) :
    hexDecodeLoop ls 0 ela = hexRefLoop ls m := by
  induction ls generalizing ela m with
  | nil => rfl
  | cons l rest ih =>
    simp only [hexNoSeg, List.all_cons, Bool.and_eq_true, bne_iff_ne, ne_eq] at h
    obtain ⟨h2, hrest⟩ := h
    have hrest' : hexNoSeg rest = true := by simpa [hexNoSeg] using hrest
    unfold hexDecodeLoop hexRefLoop
    have c2 : (l.code == 2) = false := by simpa using h2
    simp only [c2, Bool.false_eq_true, if_false]
    by_cases c4 : (l.code == 4) = true
    · simp only [c4, if_true]
      cases hx : l.ext with
      | ela b => exact ih b (.lin b) hrest' (Or.inr rfl)
      | none => exact ih ela m hrest' hm
      | base v => exact ih ela m hrest' hm
      | csip a b => exact ih ela m hrest' hm
      | eip v => exact ih ela m hrest' hm
    · simp only [c4]
      by_cases c0 : (l.code == 0) = true
      · simp only [c0, if_true]
        rw [ih ela m hrest' hm]
        rcases hm with ⟨hm, he⟩ | hm
        · subst hm; subst he; simp
        · subst hm
          by_cases he : ela = 0
          · subst he; simp
          · simp [he]
      · simp only [c0]
        exact ih ela m hrest' hm

theorem hexDecode_noLin (ls : List HexLine) (seg : Int) (m : HexMode) (h : hexNoLin ls = true)
    (hm : (m = .plain ∧ seg = 0) ∨ m = .seg seg) :
    hexDecodeLoop ls seg 0 = hexRefLoop ls m := by
  induction ls generalizing seg m with
  | nil => rfl
  | cons l rest ih =>
    simp only [hexNoLin, List.all_cons, Bool.and_eq_true, bne_iff_ne, ne_eq] at h
    obtain ⟨h4, hrest⟩ := h
    have hrest' : hexNoLin rest = true := by simpa [hexNoLin] using hrest
    unfold hexDecodeLoop hexRefLoop
    have c4 : (l.code == 4) = false := by simpa using h4
    by_cases c2 : (l.code == 2) = true
    · simp only [c2, if_true]
      cases hx : l.ext with
      | base b => exact ih b (.seg b) hrest' (Or.inr rfl)
      | none => exact ih seg m hrest' hm
      | ela v => exact ih seg m hrest' hm
      | csip a b => exact ih seg m hrest' hm
      | eip v => exact ih seg m hrest' hm
    · simp only [c2, c4, Bool.false_eq_true, if_false]
      by_cases c0 : (l.code == 0) = true
      · simp only [c0, if_true]
        rw [ih seg m hrest' hm]
        rcases hm with ⟨hm, he⟩ | hm
        · subst hm; subst he; simp
        · subst hm
          by_cases he : seg = 0
          · subst he; simp
          · simp [he]
      · simp only [c0]
        exact ih seg m hrest' hm


/-! ### SREC round trip -/

theorem pySlice_mid {α} (A B C : List α) (a b : Int) (ha : a = (A.length : Nat))
    (hb : b = ((A.length + B.length : Nat) : Int)) : pySlice (A ++ (B ++ C)) a b = B := by
  rw [pySlice_nat' (A ++ (B ++ C)) A.length (A.length + B.length) a b ha hb (by simp only [List.length_append]; omega) (by omega)]
  rw [List.drop_left' rfl]
  apply List.take_left'
  omega

theorem pySlice_neg2_mid {α} (A B K : List α) (a : Int) (ha : a = (A.length : Nat)) (hK : K.length = 2) :
    pySlice (A ++ (B ++ K)) a (-2) = B := by
  rw [pySlice_neg2' (A ++ (B ++ K)) A.length a ha (by simp only [List.length_append]; omega)]
  rw [List.drop_left' rfl]
  apply List.take_left'
  simp only [List.length_append]; omega

theorem pySliceFrom_neg2_end {α} (A K : List α) (hK : K.length = 2) : pySliceFrom (A ++ K) (-2) = K := by
  rw [pySliceFrom_neg2]
  apply List.drop_left'
  simp only [List.length_append]; omega

theorem pyInt10_digit (t : Nat) (h : t < 10) : pyInt 10 [48 + t] = .ok (t : Int) := by
  match t, h with
  | 0, _ => rfl | 1, _ => rfl | 2, _ => rfl | 3, _ => rfl | 4, _ => rfl
  | 5, _ => rfl | 6, _ => rfl | 7, _ => rfl | 8, _ => rfl | 9, _ => rfl
  | n + 10, h => omega

theorem srecAddrBytes_pos (t : Nat) (h : t < 10) (h4 : t ≠ 4) : 2 ≤ srecAddrBytes t ∧ srecAddrBytes t ≤ 4 := by
  have : ∀ t : Fin 10, t.val ≠ 4 → 2 ≤ srecAddrBytes t.val ∧ srecAddrBytes t.val ≤ 4 := by decide
  exact this ⟨t, h⟩ h4

theorem srecSize_wf (r : SrecRec) (h : r.WF) :
    srecSize (r.type : Int) (r.count : Int) = ((2 * srecAddrBytes r.type : Nat) : Int) := by
  obtain ⟨ht, h4, _, _, _, h56⟩ := h
  have key : ∀ t : Fin 10, t.val ≠ 4 → ∀ c : Nat, ((t.val = 5 ∨ t.val = 6) → c = srecAddrBytes t.val + 1) →
      srecSize (t.val : Int) (c : Int) = ((2 * srecAddrBytes t.val : Nat) : Int) := by
    intro t
    match t with
    | ⟨0, _⟩ | ⟨1, _⟩ | ⟨2, _⟩ | ⟨3, _⟩ | ⟨7, _⟩ | ⟨8, _⟩ | ⟨9, _⟩ => intro _ c _; simp [srecSize, srecAddrBytes]
    | ⟨4, _⟩ => intro h; exact absurd rfl h
    | ⟨5, _⟩ => intro _ c hc; have := hc (Or.inl rfl); subst this; simp [srecSize, srecAddrBytes]
    | ⟨6, _⟩ => intro _ c hc; have := hc (Or.inr rfl); subst this; simp [srecSize, srecAddrBytes]
  refine key ⟨r.type, ht⟩ h4 r.count ?_
  intro h
  have := h56 h
  simp [SrecRec.count, this]


theorem strip_srecPrint (r : SrecRec) (ck : Nat) : strip (srecPrint r ck) = srecPrint r ck := by
  have e : srecPrint r ck = 83 :: (((48 + r.type) :: (hexDigits 2 r.count ++ (hexDigits (2 * srecAddrBytes r.type) r.address ++
      (hexlifyUpper r.data ++ hexDigits 1 (ck / 16))))) ++ [upperHex (ck % 16)]) := by
    simp [srecPrint, hexDigits]
  rw [e]
  exact strip_eq 83 _ _ (by decide) (isSpace_upperHex _ (Nat.mod_lt _ (by omega)))

theorem srecPrint_slices (r : SrecRec) (ck : Nat) :
    let ab := srecAddrBytes r.type
    pySlice (srecPrint r ck) 0 1 = [83] ∧
    pySlice (srecPrint r ck) 1 2 = [48 + r.type] ∧
    pySlice (srecPrint r ck) 2 4 = hexDigits 2 r.count ∧
    pySlice (srecPrint r ck) 4 (4 + ((2 * ab : Nat) : Int)) = hexDigits (2 * ab) r.address ∧
    pySlice (srecPrint r ck) (4 + ((2 * ab : Nat) : Int)) (-2) = hexlifyUpper r.data ∧
    pySlice (srecPrint r ck) 2 (-2) =
      hexDigits 2 r.count ++ (hexDigits (2 * ab) r.address ++ hexlifyUpper r.data) ∧
    pySliceFrom (srecPrint r ck) (-2) = hexDigits 2 ck := by
  intro ab
  have hK : (hexDigits 2 ck).length = 2 := hexDigits_length 2 ck
  have hH : (hexDigits 2 r.count).length = 2 := hexDigits_length 2 r.count
  have hA : (hexDigits (2 * ab) r.address).length = 2 * ab := hexDigits_length _ _
  refine ⟨?_, ?_, ?_, ?_, ?_, ?_, ?_⟩
  · have e : srecPrint r ck = [] ++ ([83] ++ ((48 + r.type) :: (hexDigits 2 r.count ++ (hexDigits (2 * ab) r.address ++
        (hexlifyUpper r.data ++ hexDigits 2 ck))))) := by simp [srecPrint, ab]
    rw [e]; exact pySlice_mid _ _ _ _ _ (by simp) (by simp)
  · have e : srecPrint r ck = [83] ++ ([48 + r.type] ++ (hexDigits 2 r.count ++ (hexDigits (2 * ab) r.address ++
        (hexlifyUpper r.data ++ hexDigits 2 ck)))) := by simp [srecPrint, ab]
    rw [e]; exact pySlice_mid _ _ _ _ _ (by simp) (by simp)
  · have e : srecPrint r ck = [83, 48 + r.type] ++ (hexDigits 2 r.count ++ (hexDigits (2 * ab) r.address ++
        (hexlifyUpper r.data ++ hexDigits 2 ck))) := by simp [srecPrint, ab]
    rw [e]; exact pySlice_mid _ _ _ _ _ (by simp) (by simp [hH])
  · have e : srecPrint r ck = ([83, 48 + r.type] ++ hexDigits 2 r.count) ++ (hexDigits (2 * ab) r.address ++
        (hexlifyUpper r.data ++ hexDigits 2 ck)) := by simp [srecPrint, ab]
    rw [e]; exact pySlice_mid _ _ _ _ _ (by simp [hH]) (by simp [hH, hA])
  · have e : srecPrint r ck = (([83, 48 + r.type] ++ hexDigits 2 r.count) ++ hexDigits (2 * ab) r.address) ++
        (hexlifyUpper r.data ++ hexDigits 2 ck) := by simp [srecPrint, ab]
    rw [e]; exact pySlice_neg2_mid _ _ _ _ (by simp [hH, hA]; omega) hK
  · have e : srecPrint r ck = [83, 48 + r.type] ++ ((hexDigits 2 r.count ++ (hexDigits (2 * ab) r.address ++
        hexlifyUpper r.data)) ++ hexDigits 2 ck) := by simp [srecPrint, ab]
    rw [e]; exact pySlice_neg2_mid _ _ _ _ (by simp) hK
  · have e : srecPrint r ck = ([83, 48 + r.type] ++ (hexDigits 2 r.count ++ (hexDigits (2 * ab) r.address ++
        hexlifyUpper r.data))) ++ hexDigits 2 ck := by simp [srecPrint, ab]
    rw [e]; exact pySliceFrom_neg2_end _ _ hK


theorem srecLineBody_print (r : SrecRec) (h : r.WF) (ck : Nat) (hck : ck < 256) :
    srecLineBody (srecPrint r ck) = if r.cksum = ck then .ok r.toLine else .error .srecError := by
  have hsz := srecSize_wf r h
  obtain ⟨ht, h4, hc256, ha, hd, h56⟩ := h
  obtain ⟨hab2, hab4⟩ := srecAddrBytes_pos r.type ht h4
  obtain ⟨s0, s1, s2, s3, s4, s5, s6⟩ := srecPrint_slices r ck
  have i0 := pyInt10_digit r.type ht
  have i1 : pyInt 16 (hexDigits 2 r.count) = .ok (r.count : Int) := by
    rw [pyInt_hexDigits 2 r.count (by omega)]
    have : r.count % 16 ^ 2 = r.count := Nat.mod_eq_of_lt (by omega)
    rw [this]
  have hpow : 16 ^ (2 * srecAddrBytes r.type) = 256 ^ srecAddrBytes r.type := by
    rw [Nat.pow_mul]
  have i2 : pyInt 16 (hexDigits (2 * srecAddrBytes r.type) r.address) = .ok (r.address : Int) := by
    rw [pyInt_hexDigits _ r.address (by omega)]
    have : r.address % 16 ^ (2 * srecAddrBytes r.type) = r.address := Nat.mod_eq_of_lt (by rw [hpow]; exact ha)
    rw [this]
  have i4 : pyInt 16 (hexDigits 2 ck) = .ok (ck : Int) := by
    rw [pyInt_hexDigits 2 ck (by omega)]
    have : ck % 16 ^ 2 = ck := Nat.mod_eq_of_lt (by omega)
    rw [this]
  have u1 : unhexlify (hexlifyUpper r.data) = .ok r.data := unhexlify_hexlifyUpper r.data hd
  have u2 : unhexlify (hexDigits 2 r.count ++ (hexDigits (2 * srecAddrBytes r.type) r.address ++ hexlifyUpper r.data))
      = .ok r.bytes := by
    rw [unhexlify_hexDigits2_append, unhexlify_hexDigits_append, u1]
    simp only [mapOk, SrecRec.bytes]
    have e1 : r.count % 256 = r.count := Nat.mod_eq_of_lt (by omega)
    rw [e1]
  have hcount : (2 : Int) * (r.count : Int) = ((2 * srecAddrBytes r.type : Nat) : Int) + 2 * (r.data.length : Int) + 2 := by
    unfold SrecRec.count; omega
  unfold srecLineBody
  simp only [s0, s1, s2, s6, i0, i1, i4, bind, Except.bind, pyAssert, hsz, s3, s4, s5, i2, u1, u2]
  simp only [hcount, SrecRec.cksum, SrecRec.toLine]
  by_cases hk : srecCksum r.bytes = ck
  · simp [hk, pure, Except.pure]
  · have : ¬ ((srecCksum r.bytes : Int) = (ck : Int)) := by omega
    simp [hk, this, throw, throwThe, MonadExceptOf.throw]

theorem srecLineSet_print (r : SrecRec) (h : r.WF) :
    srecLineSet (srecPrint r r.cksum) = .ok r.toLine := by
  have hck : r.cksum < 256 := by unfold SrecRec.cksum srecCksum; omega
  unfold srecLineSet
  rw [strip_srecPrint, srecLineBody_print r h _ hck]
  simp [toSrecError]

theorem srecLineSet_bad_cksum (r : SrecRec) (h : r.WF) (ck : Nat) (hck : ck < 256) (hne : ck ≠ r.cksum) :
    srecLineSet (srecPrint r ck) = .error .srecError := by
  unfold srecLineSet
  rw [strip_srecPrint, srecLineBody_print r h _ hck]
  have : ¬ (r.cksum = ck) := fun e => hne e.symm
  simp [this, toSrecError]

end Amoco.Fmt
