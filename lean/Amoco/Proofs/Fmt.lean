/-
  Amoco.Proofs.Fmt — helper lemmas for C14 / C20 (file formats).

  Part 1 (HEX / SREC): Python slicing, `int()` on hex digit strings, `unhexlify`/`hexlify`,
  the record printers, round trip and checksum rejection, HEX address composition.
  Part 2 (ELF): the aligned struct walk reads at the fixed offsets of its layout, loops, layouts of
  the patched field lists = specification tables, the refinement `elfTables = refElf` on well-formed
  images, address queries, symbol-table entries.
  Part 3 (read_program): which exception classes can leave each constructor, totality of the chain,
  first-byte characterisation of the acceptance predicates.
  Core Lean only (no Mathlib needed).
-/
import Amoco.Model.HexSrec
import Amoco.Model.Elf

namespace Amoco.Fmt


theorem normIdx_nat (n a : Nat) : normIdx n (a : Int) = min a n := by
  unfold normIdx
  have : ¬ ((a : Int) < 0) := by omega
  simp [this]

theorem normIdx_neg2 (n : Nat) : normIdx n (-2) = n - 2 := by
  unfold normIdx
  have : ((-2 : Int) < 0) := by omega
  rw [if_pos this]
  omega

theorem pySlice_nat {α} (l : List α) (a b : Nat) (hb : b ≤ l.length) (hab : a ≤ b) :
    pySlice l (a : Int) (b : Int) = (l.drop a).take (b - a) := by
  unfold pySlice
  rw [normIdx_nat, normIdx_nat]
  have h1 : min a l.length = a := by omega
  have h2 : min b l.length = b := by omega
  rw [h1, h2]

theorem pySlice_nat' {α} (l : List α) (a b : Nat) (ai bi : Int) (ha : ai = a) (hbi : bi = b)
    (hb : b ≤ l.length) (hab : a ≤ b) :
    pySlice l ai bi = (l.drop a).take (b - a) := by
  subst ha; subst hbi; exact pySlice_nat l a b hb hab

theorem pySlice_neg2' {α} (l : List α) (a : Nat) (ai : Int) (ha : ai = a) (h : a + 2 ≤ l.length) :
    pySlice l ai (-2) = (l.drop a).take (l.length - 2 - a) := by
  subst ha; unfold pySlice
  rw [normIdx_nat, normIdx_neg2]
  have h1 : min a l.length = a := by omega
  rw [h1]

theorem pySlice_neg2 {α} (l : List α) (a : Nat) (h : a + 2 ≤ l.length) :
    pySlice l (a : Int) (-2) = (l.drop a).take (l.length - 2 - a) := by
  unfold pySlice
  rw [normIdx_nat, normIdx_neg2]
  have h1 : min a l.length = a := by omega
  rw [h1]

theorem pySliceFrom_neg2 {α} (l : List α) :
    pySliceFrom l (-2) = l.drop (l.length - 2) := by
  unfold pySliceFrom
  rw [normIdx_neg2]

/-- characterisation of hex digit characters -/
theorem hexVal?_some {c d : Nat} (h : hexVal? c = some d) :
    ((48 ≤ c ∧ c ≤ 57 ∧ d = c - 48) ∨ (97 ≤ c ∧ c ≤ 102 ∧ d = c - 87) ∨ (65 ≤ c ∧ c ≤ 70 ∧ d = c - 55)) := by
  unfold hexVal? at h
  split at h
  · rename_i h1; simp at h1 h; omega
  · split at h
    · rename_i h1 h2; simp at h2 h; omega
    · split at h
      · rename_i h1 h2 h3; simp at h3 h; omega
      · cases h

theorem digitVal?_of_hex {c d : Nat} (h : hexVal? c = some d) : digitVal? c = some d ∧ d < 16 := by
  have := hexVal?_some h
  unfold digitVal?
  rcases this with ⟨a, b, e⟩ | ⟨a, b, e⟩ | ⟨a, b, e⟩
  · have : (48 ≤ c && c ≤ 57) = true := by simp; omega
    simp [this, e]; omega
  · have h1 : (48 ≤ c && c ≤ 57) = false := by simp; omega
    have h2 : (97 ≤ c && c ≤ 122) = true := by simp; omega
    simp [h1, h2, e]; omega
  · have h1 : (48 ≤ c && c ≤ 57) = false := by simp; omega
    have h2 : (97 ≤ c && c ≤ 122) = false := by simp; omega
    have h3 : (65 ≤ c && c ≤ 90) = true := by simp; omega
    simp [h1, h2, h3, e]; omega

def AllHex (ds : List Nat) : Prop := ∀ c ∈ ds, (hexVal? c).isSome = true

def digitsVal : List Nat → Nat → Nat
  | [], acc => acc
  | c :: t, acc => digitsVal t (acc * 16 + (hexVal? c).getD 0)

theorem scanDigits_hex (ds : List Nat) (h : AllHex ds) (acc : Nat) :
    scanDigits 16 ds acc false = some (digitsVal ds acc, []) := by
  induction ds generalizing acc with
  | nil => simp [scanDigits, digitsVal]
  | cons c t ih =>
    have hc := h c (by simp)
    obtain ⟨d, hd⟩ := Option.isSome_iff_exists.mp hc
    have ⟨h1, h2⟩ := digitVal?_of_hex hd
    have hne : (c == 95) = false := by
      have := hexVal?_some hd
      simp; omega
    unfold scanDigits
    simp only [hne, h1, h2, digitsVal, hd]
    simp
    exact ih (fun x hx => h x (by simp [hx])) _

theorem pyInt_hex (ds : List Nat) (h : AllHex ds) (hne : ds ≠ []) :
    pyInt 16 ds = .ok ((digitsVal ds 0 : Nat) : Int) := by
  match ds, hne with
  | c :: t, _ =>
    have hc := h c (by simp)
    obtain ⟨d, hd⟩ := Option.isSome_iff_exists.mp hc
    have hcs := hexVal?_some hd
    have hsp : isSpace c = false := by unfold isSpace; simp; omega
    have hl : lstrip (c :: t) = c :: t := by simp [lstrip, List.dropWhile, hsp]
    have hsc := scanDigits_hex (c :: t) h 0
    have c45 : c ≠ 45 := by omega
    have c43 : c ≠ 43 := by omega
    have c95 : c ≠ 95 := by omega
    have hpfx : (t.head? == some 120 || t.head? == some 88) = false := by
      cases t with
      | nil => simp
      | cons x t' =>
        have hx := h x (by simp)
        obtain ⟨dx, hdx⟩ := Option.isSome_iff_exists.mp hx
        have := hexVal?_some hdx
        simp; omega
    have hle : lstrip [] = [] := by simp [lstrip]
    unfold pyInt
    simp only [hl]
    simp [c45, c43, c95, hpfx, hsc, hle]


/-! ### hexDigits -/

theorem hexVal?_upperHex (d : Nat) (h : d < 16) : hexVal? (upperHex d) = some d := by
  have : ∀ d : Fin 16, hexVal? (upperHex d.val) = some d.val := by decide
  exact this ⟨d, h⟩

theorem hexVal?_lowerHex (d : Nat) (h : d < 16) : hexVal? (lowerHex d) = some d := by
  have : ∀ d : Fin 16, hexVal? (lowerHex d.val) = some d.val := by decide
  exact this ⟨d, h⟩

theorem hexDigits_length (w n : Nat) : (hexDigits w n).length = w := by
  induction w generalizing n with
  | zero => simp [hexDigits]
  | succ w ih => simp [hexDigits, ih]

theorem allHex_hexDigits (w n : Nat) : AllHex (hexDigits w n) := by
  induction w generalizing n with
  | zero => intro c hc; simp [hexDigits] at hc
  | succ w ih =>
    intro c hc
    simp only [hexDigits, List.mem_append, List.mem_singleton] at hc
    rcases hc with hc | hc
    · exact ih _ c hc
    · subst hc; rw [hexVal?_upperHex _ (Nat.mod_lt _ (by omega))]; rfl

theorem digitsVal_append (a b : List Nat) (acc : Nat) :
    digitsVal (a ++ b) acc = digitsVal b (digitsVal a acc) := by
  induction a generalizing acc with
  | nil => rfl
  | cons c t ih => simp [digitsVal, ih]

theorem digitsVal_hexDigits (w n acc : Nat) :
    digitsVal (hexDigits w n) acc = acc * 16 ^ w + n % 16 ^ w := by
  induction w generalizing n acc with
  | zero => simp [hexDigits, digitsVal, Nat.mod_one]
  | succ w ih =>
    simp only [hexDigits, digitsVal_append, ih, digitsVal]
    rw [hexVal?_upperHex _ (Nat.mod_lt _ (by omega))]
    simp only [Option.getD_some]
    have h16 : 16 ^ (w + 1) = 16 * 16 ^ w := by rw [Nat.pow_succ]; omega
    have hm : n % (16 * 16 ^ w) = n % 16 + 16 * (n / 16 % 16 ^ w) := Nat.mod_mul
    rw [h16, hm]
    have h2 : acc * (16 * 16 ^ w) = acc * 16 ^ w * 16 := by rw [Nat.mul_comm 16, Nat.mul_assoc]
    rw [h2, Nat.add_mul]
    omega

theorem pyInt_hexDigits (w n : Nat) (hw : 0 < w) :
    pyInt 16 (hexDigits w n) = .ok ((n % 16 ^ w : Nat) : Int) := by
  have hne : hexDigits w n ≠ [] := by
    intro h; have := hexDigits_length w n; rw [h] at this; simp at this; omega
  rw [pyInt_hex _ (allHex_hexDigits w n) hne, digitsVal_hexDigits]
  simp


/-! ### unhexlify / hexlify -/

def mapOk {α β} (f : α → β) : Py α → Py β
  | .ok a => .ok (f a)
  | .error e => .error e

theorem unhexlify_cons2 (x y : Nat) (hx : x < 16) (hy : y < 16) (t : List Nat) :
    unhexlify (upperHex x :: upperHex y :: t) = mapOk (fun r => (x * 16 + y) :: r) (unhexlify t) := by
  rw [unhexlify, hexVal?_upperHex x hx, hexVal?_upperHex y hy]
  cases unhexlify t <;> rfl

theorem unhexlify_hexlifyUpper_append (d rest : List Nat) (hd : ∀ b ∈ d, b < 256) :
    unhexlify (hexlifyUpper d ++ rest) = mapOk (fun r => d ++ r) (unhexlify rest) := by
  induction d with
  | nil => simp [hexlifyUpper]; cases unhexlify rest <;> rfl
  | cons b t ih =>
    have hb : b < 256 := hd b (by simp)
    simp only [hexlifyUpper, List.cons_append]
    rw [unhexlify_cons2 _ _ (by omega) (Nat.mod_lt _ (by omega)), ih (fun x hx => hd x (by simp [hx]))]
    have : b / 16 * 16 + b % 16 = b := by omega
    rw [this]
    cases unhexlify rest <;> rfl

theorem hexDigits_two (n : Nat) : hexDigits 2 n = [upperHex (n / 16 % 16), upperHex (n % 16)] := by
  simp [hexDigits]

theorem hexDigits_add_two (w n : Nat) :
    hexDigits (w + 2) n = hexDigits w (n / 256) ++ hexDigits 2 (n % 256) := by
  have e1 : n / 16 / 16 = n / 256 := by omega
  have e2 : n % 256 / 16 % 16 = n / 16 % 16 := by omega
  have e3 : n % 256 % 16 = n % 16 := by omega
  simp [hexDigits, e1, e2, e3]

theorem unhexlify_hexDigits2_append (n : Nat) (rest : List Nat) :
    unhexlify (hexDigits 2 n ++ rest) = mapOk (fun r => (n % 256) :: r) (unhexlify rest) := by
  rw [hexDigits_two]
  simp only [List.cons_append, List.nil_append]
  rw [unhexlify_cons2 _ _ (Nat.mod_lt _ (by omega)) (Nat.mod_lt _ (by omega))]
  have : n / 16 % 16 * 16 + n % 16 = n % 256 := by omega
  rw [this]

theorem unhexlify_hexDigits_append (k n : Nat) (rest : List Nat) :
    unhexlify (hexDigits (2 * k) n ++ rest) = mapOk (fun r => beBytes k n ++ r) (unhexlify rest) := by
  induction k generalizing n rest with
  | zero => simp [hexDigits, beBytes]; cases unhexlify rest <;> rfl
  | succ k ih =>
    have : 2 * (k + 1) = 2 * k + 2 := by omega
    rw [this, hexDigits_add_two, List.append_assoc, ih, unhexlify_hexDigits2_append]
    simp only [beBytes]
    have : n % 256 % 256 = n % 256 := by omega
    rw [this]
    cases unhexlify rest <;> simp [mapOk]

theorem hexlifyUpper_length (d : List Nat) : (hexlifyUpper d).length = 2 * d.length := by
  induction d with
  | nil => rfl
  | cons b t ih => simp [hexlifyUpper, ih]; omega

theorem allHex_hexlify (d : List Nat) (hd : ∀ b ∈ d, b < 256) : AllHex (hexlify d) := by
  induction d with
  | nil => intro c hc; simp [hexlify] at hc
  | cons b t ih =>
    have hb : b < 256 := hd b (by simp)
    intro c hc
    simp only [hexlify, List.mem_cons] at hc
    rcases hc with hc | hc | hc
    · subst hc; rw [hexVal?_lowerHex _ (by omega)]; rfl
    · subst hc; rw [hexVal?_lowerHex _ (Nat.mod_lt _ (by omega))]; rfl
    · exact ih (fun x hx => hd x (by simp [hx])) c hc

theorem digitsVal_hexlify (d : List Nat) (hd : ∀ b ∈ d, b < 256) (acc : Nat) :
    digitsVal (hexlify d) acc = beNat d acc := by
  induction d generalizing acc with
  | nil => rfl
  | cons b t ih =>
    have hb : b < 256 := hd b (by simp)
    simp only [hexlify, digitsVal, beNat]
    rw [hexVal?_lowerHex _ (by omega), hexVal?_lowerHex _ (Nat.mod_lt _ (by omega))]
    simp only [Option.getD_some]
    rw [ih (fun x hx => hd x (by simp [hx]))]
    congr 1
    omega

theorem hexlify_ne_nil (d : List Nat) (h : d ≠ []) : hexlify d ≠ [] := by
  cases d with
  | nil => exact absurd rfl h
  | cons b t => simp [hexlify]

theorem pyInt_hexlify (d : List Nat) (hd : ∀ b ∈ d, b < 256) (h : d ≠ []) :
    pyInt 16 (hexlify d) = .ok ((beNat d 0 : Nat) : Int) := by
  rw [pyInt_hex _ (allHex_hexlify d hd) (hexlify_ne_nil d h), digitsVal_hexlify d hd]

theorem hexlify_take (d : List Nat) (k : Nat) : (hexlify d).take (2 * k) = hexlify (d.take k) := by
  induction d generalizing k with
  | nil => simp [hexlify]
  | cons b t ih =>
    cases k with
    | zero => simp [hexlify]
    | succ k =>
      have : 2 * (k + 1) = (2 * k + 1) + 1 := by omega
      simp only [hexlify, List.take_succ_cons, this, ih]

theorem hexlify_drop (d : List Nat) (k : Nat) : (hexlify d).drop (2 * k) = hexlify (d.drop k) := by
  induction d generalizing k with
  | nil => simp [hexlify]
  | cons b t ih =>
    cases k with
    | zero => simp [hexlify]
    | succ k =>
      have : 2 * (k + 1) = (2 * k + 1) + 1 := by omega
      simp only [hexlify, List.drop_succ_cons, this, ih]

theorem hexlify_length (d : List Nat) : (hexlify d).length = 2 * d.length := by
  induction d with
  | nil => rfl
  | cons b t ih => simp [hexlify, ih]; omega


/-! ### strip -/

theorem rstrip_append_single (p : List Nat) (x : Nat) (hx : isSpace x = false) :
    rstrip (p ++ [x]) = p ++ [x] := by
  simp [rstrip, hx]

theorem strip_eq (c : Nat) (p : List Nat) (x : Nat) (hc : isSpace c = false) (hx : isSpace x = false) :
    strip (c :: (p ++ [x])) = c :: (p ++ [x]) := by
  unfold strip
  have : lstrip (c :: (p ++ [x])) = c :: (p ++ [x]) := by simp [lstrip, List.dropWhile, hc]
  rw [this]
  have := rstrip_append_single (c :: p) x hx
  simpa using this

theorem isSpace_upperHex (d : Nat) (h : d < 16) : isSpace (upperHex d) = false := by
  have : ∀ d : Fin 16, isSpace (upperHex d.val) = false := by decide
  exact this ⟨d, h⟩

/-! ### HEX round trip -/

theorem hexPrint_length (r : HexRec) (ck : Nat) : (hexPrint r ck).length = 11 + 2 * r.data.length := by
  simp [hexPrint, hexDigits_length, hexlifyUpper_length]; omega

theorem strip_hexPrint (r : HexRec) (ck : Nat) : strip (hexPrint r ck) = hexPrint r ck := by
  have e : hexPrint r ck = 58 :: ((hexDigits 2 r.count ++ (hexDigits 4 r.address ++ (hexDigits 2 r.code ++
      (hexlifyUpper r.data ++ hexDigits 1 (ck / 16))))) ++ [upperHex (ck % 16)]) := by
    simp [hexPrint, hexDigits]
  rw [e]
  exact strip_eq 58 _ _ (by decide) (isSpace_upperHex _ (Nat.mod_lt _ (by omega)))

theorem hexPrint_slices (r : HexRec) (ck : Nat) (hcount : r.count = r.data.length) :
    pySlice (hexPrint r ck) 0 1 = [58] ∧
    pySlice (hexPrint r ck) 1 3 = hexDigits 2 r.count ∧
    pySlice (hexPrint r ck) 3 7 = hexDigits 4 r.address ∧
    pySlice (hexPrint r ck) 7 9 = hexDigits 2 r.code ∧
    pySlice (hexPrint r ck) 9 (9 + 2 * (r.count : Int)) = hexlifyUpper r.data ∧
    pySlice (hexPrint r ck) 1 (-2) =
      hexDigits 2 r.count ++ (hexDigits 4 r.address ++ (hexDigits 2 r.code ++ hexlifyUpper r.data)) ∧
    pySliceFrom (hexPrint r ck) (-2) = hexDigits 2 ck := by
  have hlen := hexPrint_length r ck
  have hD := hexlifyUpper_length r.data
  have e : hexPrint r ck = 58 :: upperHex (r.count / 16 % 16) :: upperHex (r.count % 16) ::
      upperHex (r.address / 16 / 16 / 16 % 16) :: upperHex (r.address / 16 / 16 % 16) ::
      upperHex (r.address / 16 % 16) :: upperHex (r.address % 16) ::
      upperHex (r.code / 16 % 16) :: upperHex (r.code % 16) ::
      (hexlifyUpper r.data ++ [upperHex (ck / 16 % 16), upperHex (ck % 16)]) := by
    simp [hexPrint, hexDigits]
  have hl9 : 9 ≤ (hexPrint r ck).length := by omega
  refine ⟨?_, ?_, ?_, ?_, ?_, ?_, ?_⟩
  · have := pySlice_nat (hexPrint r ck) 0 1 (by omega) (by omega)
    simp at this
    rw [this, e]; rfl
  · have := pySlice_nat (hexPrint r ck) 1 3 (by omega) (by omega)
    simp at this
    rw [this, e]; simp [hexDigits]
  · have := pySlice_nat (hexPrint r ck) 3 7 (by omega) (by omega)
    simp at this
    rw [this, e]; simp [hexDigits]
  · have := pySlice_nat (hexPrint r ck) 7 9 (by omega) (by omega)
    simp at this
    rw [this, e]; simp [hexDigits]
  · rw [pySlice_nat' (hexPrint r ck) 9 (9 + 2 * r.count) _ _ (by omega) (by omega) (by omega) (by omega), e]
    simp only [List.drop_succ_cons, List.drop_zero]
    apply List.take_left'
    omega
  · rw [pySlice_neg2' (hexPrint r ck) 1 _ (by omega) (by omega), hlen, e]
    simp only [List.drop_succ_cons, List.drop_zero]
    have : 11 + 2 * r.data.length - 2 - 1 = (2 * r.data.length) + 8 := by omega
    rw [this]
    simp only [List.take_succ_cons, hexDigits, List.nil_append, List.cons_append]
    congr 8
    apply List.take_left'
    omega
  · rw [pySliceFrom_neg2, hlen, e]
    have : 11 + 2 * r.data.length - 2 = (2 * r.data.length) + 9 := by omega
    rw [this]
    simp only [List.drop_succ_cons, hexDigits, List.nil_append, List.cons_append]
    rw [List.drop_left']
    omega


theorem unhexlify_hexlifyUpper (d : List Nat) (hd : ∀ b ∈ d, b < 256) :
    unhexlify (hexlifyUpper d) = .ok d := by
  have := unhexlify_hexlifyUpper_append d [] hd
  simpa [unhexlify, mapOk] using this

theorem hexExtOf_wf (r : HexRec) (h : r.WF) : hexExtOf r.code r.count r.data = .ok r.ext := by
  obtain ⟨hc, _, _, _, hd, h2, h3, h4, h5⟩ := h
  unfold hexExtOf HexRec.ext
  by_cases c2 : r.code = 2
  · have hne : r.data ≠ [] := by intro e; rw [e] at hc; have := h2 c2; simp at hc; omega
    have := h2 c2
    simp [c2, this, pyAssert, pyInt_hexlify r.data hd hne, bind, Except.bind, pure, Except.pure]
  · by_cases c3 : r.code = 3
    · have hl := h3 c3
      have hlen : r.data.length = 4 := by omega
      have e1 : pySlice (hexlify r.data) 0 4 = hexlify (r.data.take 2) := by
        rw [pySlice_nat' (hexlify r.data) 0 4 _ _ (by omega) (by omega) (by rw [hexlify_length]; omega) (by omega)]
        simp only [List.drop_zero]
        exact hexlify_take r.data 2
      have e2 : pySliceFrom (hexlify r.data) 4 = hexlify (r.data.drop 2) := by
        unfold pySliceFrom
        rw [show (4 : Int) = ((4 : Nat) : Int) from rfl, normIdx_nat, hexlify_length]
        have : min 4 (2 * r.data.length) = 2 * 2 := by omega
        rw [this]
        exact hexlify_drop r.data 2
      have n1 : r.data.take 2 ≠ [] := by
        intro e; have := congrArg List.length e
        rw [List.length_take] at this; simp only [List.length_nil] at this; omega
      have n2 : r.data.drop 2 ≠ [] := by
        intro e; have := congrArg List.length e
        rw [List.length_drop] at this; simp only [List.length_nil] at this; omega
      have d1 : ∀ b ∈ r.data.take 2, b < 256 := fun b hb => hd b (List.mem_of_mem_take hb)
      have d2 : ∀ b ∈ r.data.drop 2, b < 256 := fun b hb => hd b (List.mem_of_mem_drop hb)
      simp [c3, hl, pyAssert, e1, e2, pyInt_hexlify _ d1 n1, pyInt_hexlify _ d2 n2, bind, Except.bind, pure, Except.pure]
    · by_cases c4 : r.code = 4
      · have hne : r.data ≠ [] := by intro e; rw [e] at hc; have := h4 c4; simp at hc; omega
        have := h4 c4
        simp [c4, this, pyAssert, pyInt_hexlify r.data hd hne, bind, Except.bind, pure, Except.pure]
      · by_cases c5 : r.code = 5
        · have hne : r.data ≠ [] := by intro e; rw [e] at hc; have := h5 c5; simp at hc; omega
          have := h5 c5
          simp [c5, this, pyAssert, pyInt_hexlify r.data hd hne, bind, Except.bind, pure, Except.pure]
        · have i2 : ¬ ((r.code : Int) = 2) := by omega
          have i3 : ¬ ((r.code : Int) = 3) := by omega
          have i4 : ¬ ((r.code : Int) = 4) := by omega
          have i5 : ¬ ((r.code : Int) = 5) := by omega
          simp [c2, c3, c4, c5, i2, i3, i4, i5, pure, Except.pure]


theorem hexLineBody_print (r : HexRec) (h : r.WF) (ck : Nat) (hck : ck < 256) :
    hexLineBody (hexPrint r ck) = if r.cksum = ck then .ok r.toLine else .error .assertion := by
  have hext := hexExtOf_wf r h
  obtain ⟨hc, hc256, ha, hcode, hd, -⟩ := h
  obtain ⟨s0, s1, s2, s3, s4, s5, s6⟩ := hexPrint_slices r ck hc
  have i1 : pyInt 16 (hexDigits 2 r.count) = .ok (r.count : Int) := by
    rw [pyInt_hexDigits 2 r.count (by omega)]
    have : r.count % 16 ^ 2 = r.count := Nat.mod_eq_of_lt (by omega)
    rw [this]
  have i2 : pyInt 16 (hexDigits 4 r.address) = .ok (r.address : Int) := by
    rw [pyInt_hexDigits 4 r.address (by omega)]
    have : r.address % 16 ^ 4 = r.address := Nat.mod_eq_of_lt (by omega)
    rw [this]
  have i3 : pyInt 16 (hexDigits 2 r.code) = .ok (r.code : Int) := by
    rw [pyInt_hexDigits 2 r.code (by omega)]
    have : r.code % 16 ^ 2 = r.code := Nat.mod_eq_of_lt (by omega)
    rw [this]
  have i4 : pyInt 16 (hexDigits 2 ck) = .ok (ck : Int) := by
    rw [pyInt_hexDigits 2 ck (by omega)]
    have : ck % 16 ^ 2 = ck := Nat.mod_eq_of_lt (by omega)
    rw [this]
  have u1 : unhexlify (hexlifyUpper r.data) = .ok r.data := unhexlify_hexlifyUpper r.data hd
  have u2 : unhexlify (hexDigits 2 r.count ++ (hexDigits 4 r.address ++ (hexDigits 2 r.code ++ hexlifyUpper r.data)))
      = .ok r.bytes := by
    rw [unhexlify_hexDigits2_append, show hexDigits 4 r.address = hexDigits (2 * 2) r.address from rfl,
      unhexlify_hexDigits_append, unhexlify_hexDigits2_append, u1]
    simp only [mapOk, beBytes, HexRec.bytes, List.nil_append, List.cons_append]
    have e1 : r.count % 256 = r.count := Nat.mod_eq_of_lt (by omega)
    have e2 : r.address / 256 % 256 = r.address / 256 := Nat.mod_eq_of_lt (by omega)
    have e3 : r.code % 256 = r.code := Nat.mod_eq_of_lt (by omega)
    rw [e1, e2, e3]
  unfold hexLineBody
  simp only [s0, s1, s2, s3, s5, s6, i1, i2, i3, i4, u2, bind, Except.bind, pyAssert]
  simp only [s4, u1, hext, HexRec.cksum, HexRec.toLine]
  by_cases hk : hexCksum r.bytes = ck
  · simp [hk, pure, Except.pure]
  · have : ¬ ((hexCksum r.bytes : Int) = (ck : Int)) := by omega
    simp [hk, this]

/-- parse (print r) = r -/
theorem hexLineSet_print (r : HexRec) (h : r.WF) :
    hexLineSet (hexPrint r r.cksum) = .ok r.toLine := by
  have hck : r.cksum < 256 := by unfold HexRec.cksum hexCksum; omega
  unfold hexLineSet
  rw [strip_hexPrint, hexLineBody_print r h _ hck]
  simp [toHexError]

theorem hexLineSet_bad_cksum (r : HexRec) (h : r.WF) (ck : Nat) (hck : ck < 256) (hne : ck ≠ r.cksum) :
    hexLineSet (hexPrint r ck) = .error .hexError := by
  unfold hexLineSet
  rw [strip_hexPrint, hexLineBody_print r h _ hck]
  have : ¬ (r.cksum = ck) := fun e => hne e.symm
  simp [this, toHexError]


/-! ### HEX address composition -/

theorem hexDecode_eq_ref (ls : List HexLine) (m : HexMode) :
    hexDecodeLoop ls m.base = hexRefLoop ls m := by
  induction ls generalizing m with
  | nil => rfl
  | cons l rest ih =>
    unfold hexDecodeLoop hexRefLoop
    by_cases c2 : (l.code == 2) = true
    · simp only [c2, if_true]
      cases hx : l.ext with
      | base b => exact ih (.seg b)
      | none => exact ih m
      | ela v => exact ih m
      | csip a b => exact ih m
      | eip v => exact ih m
    · simp only [c2]
      by_cases c4 : (l.code == 4) = true
      · simp only [c4, if_true]
        cases hx : l.ext with
        | ela b => exact ih (.lin b)
        | none => exact ih m
        | base v => exact ih m
        | csip a b => exact ih m
        | eip v => exact ih m
      · simp only [c4]
        by_cases c0 : (l.code == 0) = true
        · simp only [c0, if_true]
          rw [ih m]
          cases m <;> simp [HexMode.base]
        · simp only [c0]
          exact ih m


/-! ### SREC round trip -/

theorem pySlice_mid {α} (A B C : List α) (a b : Int) (ha : a = (A.length : Nat))
    (hb : b = ((A.length + B.length : Nat) : Int)) : pySlice (A ++ (B ++ C)) a b = B := by
  rw [pySlice_nat' (A ++ (B ++ C)) A.length (A.length + B.length) a b ha hb (by simp only [List.length_append]; omega) (by omega)]
  rw [List.drop_left' rfl]
  apply List.take_left'
  omega

theorem pySlice_neg2_mid {α} (A B K : List α) (a : Int) (ha : a = (A.length : Nat)) (hK : K.length = 2) :
    pySlice (A ++ (B ++ K)) a (-2) = B := by
  rw [pySlice_neg2' (A ++ (B ++ K)) A.length a ha (by simp only [List.length_append]; omega)]
  rw [List.drop_left' rfl]
  apply List.take_left'
  simp only [List.length_append]; omega

theorem pySliceFrom_neg2_end {α} (A K : List α) (hK : K.length = 2) : pySliceFrom (A ++ K) (-2) = K := by
  rw [pySliceFrom_neg2]
  apply List.drop_left'
  simp only [List.length_append]; omega

theorem pyInt10_digit (t : Nat) (h : t < 10) : pyInt 10 [48 + t] = .ok (t : Int) := by
  match t, h with
  | 0, _ => rfl | 1, _ => rfl | 2, _ => rfl | 3, _ => rfl | 4, _ => rfl
  | 5, _ => rfl | 6, _ => rfl | 7, _ => rfl | 8, _ => rfl | 9, _ => rfl
  | n + 10, h => omega

theorem srecAddrBytes_pos (t : Nat) (h : t < 10) (h4 : t ≠ 4) : 2 ≤ srecAddrBytes t ∧ srecAddrBytes t ≤ 4 := by
  have : ∀ t : Fin 10, t.val ≠ 4 → 2 ≤ srecAddrBytes t.val ∧ srecAddrBytes t.val ≤ 4 := by decide
  exact this ⟨t, h⟩ h4

theorem srecSize_wf (r : SrecRec) (h : r.WF) :
    srecSize (r.type : Int) (r.count : Int) = ((2 * srecAddrBytes r.type : Nat) : Int) := by
  obtain ⟨ht, h4, _, _, _, h56⟩ := h
  have key : ∀ t : Fin 10, t.val ≠ 4 → ∀ c : Nat, ((t.val = 5 ∨ t.val = 6) → c = srecAddrBytes t.val + 1) →
      srecSize (t.val : Int) (c : Int) = ((2 * srecAddrBytes t.val : Nat) : Int) := by
    intro t
    match t with
    | ⟨0, _⟩ | ⟨1, _⟩ | ⟨2, _⟩ | ⟨3, _⟩ | ⟨7, _⟩ | ⟨8, _⟩ | ⟨9, _⟩ => intro _ c _; simp [srecSize, srecAddrBytes]
    | ⟨4, _⟩ => intro h; exact absurd rfl h
    | ⟨5, _⟩ => intro _ c hc; have := hc (Or.inl rfl); subst this; simp [srecSize, srecAddrBytes]
    | ⟨6, _⟩ => intro _ c hc; have := hc (Or.inr rfl); subst this; simp [srecSize, srecAddrBytes]
  refine key ⟨r.type, ht⟩ h4 r.count ?_
  intro h
  have := h56 h
  simp [SrecRec.count, this]


theorem strip_srecPrint (r : SrecRec) (ck : Nat) : strip (srecPrint r ck) = srecPrint r ck := by
  have e : srecPrint r ck = 83 :: (((48 + r.type) :: (hexDigits 2 r.count ++ (hexDigits (2 * srecAddrBytes r.type) r.address ++
      (hexlifyUpper r.data ++ hexDigits 1 (ck / 16))))) ++ [upperHex (ck % 16)]) := by
    simp [srecPrint, hexDigits]
  rw [e]
  exact strip_eq 83 _ _ (by decide) (isSpace_upperHex _ (Nat.mod_lt _ (by omega)))

theorem srecPrint_slices (r : SrecRec) (ck : Nat) :
    let ab := srecAddrBytes r.type
    pySlice (srecPrint r ck) 0 1 = [83] ∧
    pySlice (srecPrint r ck) 1 2 = [48 + r.type] ∧
    pySlice (srecPrint r ck) 2 4 = hexDigits 2 r.count ∧
    pySlice (srecPrint r ck) 4 (4 + ((2 * ab : Nat) : Int)) = hexDigits (2 * ab) r.address ∧
    pySlice (srecPrint r ck) (4 + ((2 * ab : Nat) : Int)) (-2) = hexlifyUpper r.data ∧
    pySlice (srecPrint r ck) 2 (-2) =
      hexDigits 2 r.count ++ (hexDigits (2 * ab) r.address ++ hexlifyUpper r.data) ∧
    pySliceFrom (srecPrint r ck) (-2) = hexDigits 2 ck := by
  intro ab
  have hK : (hexDigits 2 ck).length = 2 := hexDigits_length 2 ck
  have hH : (hexDigits 2 r.count).length = 2 := hexDigits_length 2 r.count
  have hA : (hexDigits (2 * ab) r.address).length = 2 * ab := hexDigits_length _ _
  refine ⟨?_, ?_, ?_, ?_, ?_, ?_, ?_⟩
  · have e : srecPrint r ck = [] ++ ([83] ++ ((48 + r.type) :: (hexDigits 2 r.count ++ (hexDigits (2 * ab) r.address ++
        (hexlifyUpper r.data ++ hexDigits 2 ck))))) := by simp [srecPrint, ab]
    rw [e]; exact pySlice_mid _ _ _ _ _ (by simp) (by simp)
  · have e : srecPrint r ck = [83] ++ ([48 + r.type] ++ (hexDigits 2 r.count ++ (hexDigits (2 * ab) r.address ++
        (hexlifyUpper r.data ++ hexDigits 2 ck)))) := by simp [srecPrint, ab]
    rw [e]; exact pySlice_mid _ _ _ _ _ (by simp) (by simp)
  · have e : srecPrint r ck = [83, 48 + r.type] ++ (hexDigits 2 r.count ++ (hexDigits (2 * ab) r.address ++
        (hexlifyUpper r.data ++ hexDigits 2 ck))) := by simp [srecPrint, ab]
    rw [e]; exact pySlice_mid _ _ _ _ _ (by simp) (by simp [hH])
  · have e : srecPrint r ck = ([83, 48 + r.type] ++ hexDigits 2 r.count) ++ (hexDigits (2 * ab) r.address ++
        (hexlifyUpper r.data ++ hexDigits 2 ck)) := by simp [srecPrint, ab]
    rw [e]; exact pySlice_mid _ _ _ _ _ (by simp [hH]) (by simp [hH, hA])
  · have e : srecPrint r ck = (([83, 48 + r.type] ++ hexDigits 2 r.count) ++ hexDigits (2 * ab) r.address) ++
        (hexlifyUpper r.data ++ hexDigits 2 ck) := by simp [srecPrint, ab]
    rw [e]; exact pySlice_neg2_mid _ _ _ _ (by simp [hH, hA]; omega) hK
  · have e : srecPrint r ck = [83, 48 + r.type] ++ ((hexDigits 2 r.count ++ (hexDigits (2 * ab) r.address ++
        hexlifyUpper r.data)) ++ hexDigits 2 ck) := by simp [srecPrint, ab]
    rw [e]; exact pySlice_neg2_mid _ _ _ _ (by simp) hK
  · have e : srecPrint r ck = ([83, 48 + r.type] ++ (hexDigits 2 r.count ++ (hexDigits (2 * ab) r.address ++
        hexlifyUpper r.data))) ++ hexDigits 2 ck := by simp [srecPrint, ab]
    rw [e]; exact pySliceFrom_neg2_end _ _ hK


theorem srecLineBody_print (r : SrecRec) (h : r.WF) (ck : Nat) (hck : ck < 256) :
    srecLineBody (srecPrint r ck) = if r.cksum = ck then .ok r.toLine else .error .srecError := by
  have hsz := srecSize_wf r h
  obtain ⟨ht, h4, hc256, ha, hd, h56⟩ := h
  obtain ⟨hab2, hab4⟩ := srecAddrBytes_pos r.type ht h4
  obtain ⟨s0, s1, s2, s3, s4, s5, s6⟩ := srecPrint_slices r ck
  have i0 := pyInt10_digit r.type ht
  have i1 : pyInt 16 (hexDigits 2 r.count) = .ok (r.count : Int) := by
    rw [pyInt_hexDigits 2 r.count (by omega)]
    have : r.count % 16 ^ 2 = r.count := Nat.mod_eq_of_lt (by omega)
    rw [this]
  have hpow : 16 ^ (2 * srecAddrBytes r.type) = 256 ^ srecAddrBytes r.type := by
    rw [Nat.pow_mul]
  have i2 : pyInt 16 (hexDigits (2 * srecAddrBytes r.type) r.address) = .ok (r.address : Int) := by
    rw [pyInt_hexDigits _ r.address (by omega)]
    have : r.address % 16 ^ (2 * srecAddrBytes r.type) = r.address := Nat.mod_eq_of_lt (by rw [hpow]; exact ha)
    rw [this]
  have i4 : pyInt 16 (hexDigits 2 ck) = .ok (ck : Int) := by
    rw [pyInt_hexDigits 2 ck (by omega)]
    have : ck % 16 ^ 2 = ck := Nat.mod_eq_of_lt (by omega)
    rw [this]
  have u1 : unhexlify (hexlifyUpper r.data) = .ok r.data := unhexlify_hexlifyUpper r.data hd
  have u2 : unhexlify (hexDigits 2 r.count ++ (hexDigits (2 * srecAddrBytes r.type) r.address ++ hexlifyUpper r.data))
      = .ok r.bytes := by
    rw [unhexlify_hexDigits2_append, unhexlify_hexDigits_append, u1]
    simp only [mapOk, SrecRec.bytes]
    have e1 : r.count % 256 = r.count := Nat.mod_eq_of_lt (by omega)
    rw [e1]
  have hcount : (2 : Int) * (r.count : Int) = ((2 * srecAddrBytes r.type : Nat) : Int) + 2 * (r.data.length : Int) + 2 := by
    unfold SrecRec.count; omega
  unfold srecLineBody
  simp only [s0, s1, s2, s6, i0, i1, i4, bind, Except.bind, pyAssert, hsz, s3, s4, s5, i2, u1, u2]
  simp only [hcount, SrecRec.cksum, SrecRec.toLine]
  by_cases hk : srecCksum r.bytes = ck
  · simp [hk, pure, Except.pure]
  · have : ¬ ((srecCksum r.bytes : Int) = (ck : Int)) := by omega
    simp [hk, this, throw, throwThe, MonadExceptOf.throw]

theorem srecLineSet_print (r : SrecRec) (h : r.WF) :
    srecLineSet (srecPrint r r.cksum) = .ok r.toLine := by
  have hck : r.cksum < 256 := by unfold SrecRec.cksum srecCksum; omega
  unfold srecLineSet
  rw [strip_srecPrint, srecLineBody_print r h _ hck]
  simp [toSrecError]

theorem srecLineSet_bad_cksum (r : SrecRec) (h : r.WF) (ck : Nat) (hck : ck < 256) (hne : ck ≠ r.cksum) :
    srecLineSet (srecPrint r ck) = .error .srecError := by
  unfold srecLineSet
  rw [strip_srecPrint, srecLineBody_print r h _ hck]
  have : ¬ (r.cksum = ck) := fun e => hne e.symm
  simp [this, toSrecError]



/-! # Part 2 — ELF -/

/-! ### struct walk = fixed offsets -/

theorem slice_length (data : Bytes) (off n : Nat) : (slice data off n).length = min n (data.length - off) := by
  simp [slice]

theorem rdField_ok (be : Bool) (f : RawField) (data : Bytes) (off : Nat) (h : off + f.nbytes ≤ data.length) :
    rdField be f data off = .ok (fieldVal be f (slice data off f.nbytes)) := by
  unfold rdField
  have : (slice data off f.nbytes).length = f.nbytes := by rw [slice_length]; omega
  simp [this]

theorem alignUp_add (off rel a : Nat) (h : a ∣ off) : alignUp (off + rel) a = off + alignUp rel a := by
  unfold alignUp
  by_cases ha : a = 0
  · simp [ha]
  · have hm : (off + rel) % a = rel % a := by
      obtain ⟨k, hk⟩ := h
      rw [hk, Nat.mul_add_mod]
    simp only [ha, beq_iff_eq, if_false, hm]
    by_cases hr : rel % a = 0
    · simp [hr]
    · simp [hr]; omega

/-- the values the aligned walk delivers, read at `base +` the relative layout offsets -/
def readAt (be : Bool) : List RawField → Bytes → Nat → Nat → Rec
  | [], _, _, _ => []
  | f :: fs, data, base, rel =>
    let o := alignUp rel f.size
    (f.name, fieldVal be f (slice data (base + o) f.nbytes)) :: readAt be fs data base (o + f.nbytes)

/-- end of the relative layout -/
def layoutEnd : List RawField → Nat → Nat
  | [], rel => rel
  | f :: fs, rel => layoutEnd fs (alignUp rel f.size + f.nbytes)

theorem le_alignUp (off a : Nat) : off ≤ alignUp off a := by
  unfold alignUp
  by_cases ha : a = 0
  · simp [ha]
  · by_cases hr : off % a = 0
    · simp [ha, hr]
    · simp [ha, hr]

theorem le_layoutEnd (fs : List RawField) (rel : Nat) : rel ≤ layoutEnd fs rel := by
  induction fs generalizing rel with
  | nil => simp [layoutEnd]
  | cons f fs ih =>
    simp only [layoutEnd]
    have := ih (alignUp rel f.size + f.nbytes)
    have := le_alignUp rel f.size
    omega

theorem unpackFields_aligned (be : Bool) (fs : List RawField) (data : Bytes) (base rel : Nat)
    (hin : base + layoutEnd fs rel ≤ data.length) :
    unpackFields be true fs data base rel = .ok (readAt be fs data base rel) := by
  induction fs generalizing rel with
  | nil => simp [unpackFields, readAt]
  | cons f fs ih =>
    have hle := le_layoutEnd fs (alignUp rel f.size + f.nbytes)
    simp only [layoutEnd] at hin
    unfold unpackFields
    simp only [if_true]
    rw [rdField_ok be f data _ (by omega)]
    simp only []
    rw [ih _ hin]
    simp [readAt]

/-- packed walk (no alignment) -/
def readAtPacked (be : Bool) : List RawField → Bytes → Nat → Rec
  | [], _, _ => []
  | f :: fs, data, off => (f.name, fieldVal be f (slice data off f.nbytes)) :: readAtPacked be fs data (off + f.nbytes)

def packedEnd : List RawField → Nat → Nat
  | [], off => off
  | f :: fs, off => packedEnd fs (off + f.nbytes)

theorem le_packedEnd (fs : List RawField) (off : Nat) : off ≤ packedEnd fs off := by
  induction fs generalizing off with
  | nil => simp [packedEnd]
  | cons f fs ih => simp only [packedEnd]; have := ih (off + f.nbytes); omega

theorem unpackFields_packed (be : Bool) (fs : List RawField) (data : Bytes) (off : Nat)
    (hin : packedEnd fs off ≤ data.length) :
    unpackFields be false fs data 0 off = .ok (readAtPacked be fs data off) := by
  induction fs generalizing off with
  | nil => simp [unpackFields, readAtPacked]
  | cons f fs ih =>
    have hle := le_packedEnd fs (off + f.nbytes)
    simp only [packedEnd] at hin
    unfold unpackFields
    simp only [Bool.false_eq_true, if_false, Nat.zero_add]
    rw [rdField_ok be f data _ (by omega)]
    simp only []
    rw [ih _ hin]
    simp [readAtPacked]

/-- reading through a layout table (name, offset, nbytes) -/
def readLayout (be : Bool) (tbl : List (String × Nat × Nat)) (data : Bytes) (base : Nat) : Rec :=
  tbl.map (fun e => (e.1, refNat be data (base + e.2.1) e.2.2))

theorem readAt_eq_layout (be : Bool) (fs : List RawField) (data : Bytes) (base rel : Nat)
    (hs : ∀ f ∈ fs, f.count = 0) :
    readAt be fs data base rel = readLayout be (layout fs rel) data base := by
  induction fs generalizing rel with
  | nil => simp [readAt, layout, readLayout]
  | cons f fs ih =>
    have hc : f.count = 0 := hs f (by simp)
    simp only [readAt, layout, readLayout, List.map_cons]
    rw [ih _ (fun g hg => hs g (by simp [hg]))]
    simp [fieldVal, hc, refNat, readLayout]

theorem readAtPacked_eq_layout (be : Bool) (fs : List RawField) (data : Bytes) (off : Nat)
    (hs : ∀ f ∈ fs, f.count = 0) :
    readAtPacked be fs data off = readLayout be (layoutPacked fs off) data 0 := by
  induction fs generalizing off with
  | nil => simp [readAtPacked, layoutPacked, readLayout]
  | cons f fs ih =>
    have hc : f.count = 0 := hs f (by simp)
    simp only [readAtPacked, layoutPacked, readLayout, List.map_cons]
    rw [ih _ (fun g hg => hs g (by simp [hg]))]
    simp [fieldVal, hc, refNat, readLayout]

theorem refStruct_nil_eq (be : Bool) (tbl : List (String × Nat × Nat)) (data : Bytes) (base : Nat) :
    refStruct be [] tbl data base = readLayout be tbl data base := by
  simp [refStruct, readLayout]


/-! ### loops -/

theorem tableM_ok {α} (rd : Nat → Py α) (g : Nat → α) (n off stride : Nat)
    (h : ∀ i, i < n → rd (off + i * stride) = .ok (g (off + i * stride))) :
    tableM rd n off stride = .ok ((List.range n).map (fun i => g (off + i * stride))) := by
  induction n generalizing off with
  | zero => simp [tableM]
  | succ n ih =>
    have h0 := h 0 (by omega)
    simp only [Nat.zero_mul, Nat.add_zero] at h0
    have hrest : ∀ i, i < n → rd (off + stride + i * stride) = .ok (g (off + stride + i * stride)) := by
      intro i hi
      have := h (i + 1) (by omega)
      have e : off + (i + 1) * stride = off + stride + i * stride := by rw [Nat.add_mul]; omega
      rw [e] at this; exact this
    unfold tableM
    rw [h0, ih (off + stride) hrest]
    simp only [List.range_succ_eq_map, List.map_cons, List.map_map, Nat.zero_mul, Nat.add_zero]
    congr 2
    apply List.map_congr_left
    intro i _
    simp only [Function.comp]
    have e : off + (i + 1) * stride = off + stride + i * stride := by rw [Nat.add_mul]; omega
    rw [e]

theorem tablePrefix_ok {α} (rd : Nat → Py α) (g : Nat → α) (n off stride : Nat)
    (h : ∀ i, i < n → rd (off + i * stride) = .ok (g (off + i * stride))) :
    tablePrefix rd n off stride = (List.range n).map (fun i => g (off + i * stride)) := by
  induction n generalizing off with
  | zero => simp [tablePrefix]
  | succ n ih =>
    have h0 := h 0 (by omega)
    simp only [Nat.zero_mul, Nat.add_zero] at h0
    have hrest : ∀ i, i < n → rd (off + stride + i * stride) = .ok (g (off + stride + i * stride)) := by
      intro i hi
      have := h (i + 1) (by omega)
      have e : off + (i + 1) * stride = off + stride + i * stride := by rw [Nat.add_mul]; omega
      rw [e] at this; exact this
    unfold tablePrefix
    rw [h0, ih (off + stride) hrest]
    simp only [List.range_succ_eq_map, List.map_cons, List.map_map, Nat.zero_mul, Nat.add_zero]
    congr 1
    apply List.map_congr_left
    intro i _
    simp only [Function.comp]
    have e : off + (i + 1) * stride = off + stride + i * stride := by rw [Nat.add_mul]; omega
    rw [e]

/-! ### the layouts of the (patched) field lists are the specification's tables -/

theorem layout_ident : layout identFields 0 = specIdent := by decide
theorem layout_ehdr (x64 : Bool) : layoutPacked (ehdrFields x64) 16 = specEhdr x64 := by cases x64 <;> decide
theorem layout_phdr (x64 : Bool) : layout (phdrFields x64) 0 = specPhdr x64 := by cases x64 <;> decide
theorem layout_shdr (x64 : Bool) : layout (shdrFields x64) 0 = specShdr x64 := by cases x64 <;> decide
theorem layout_sym (x64 : Bool) : layout (symFields x64) 0 = specSym x64 := by cases x64 <;> decide
theorem layout_rel (x64 : Bool) : layout (relFields x64) 0 = specRel x64 := by cases x64 <;> decide
theorem layout_rela (x64 : Bool) : layout (relaFields x64) 0 = specRela x64 := by cases x64 <;> decide
theorem layout_dyn (x64 : Bool) : layout (dynFields x64) 0 = specDyn x64 := by cases x64 <;> decide

/-- natural alignment of the class: 4 (ELF32) or 8 (ELF64) -/
def elfA (x64 : Bool) : Nat := if x64 then 8 else 4
def phdrSize (x64 : Bool) : Nat := if x64 then 56 else 32
def shdrSize (x64 : Bool) : Nat := if x64 then 64 else 40
def ehdrSize (x64 : Bool) : Nat := if x64 then 64 else 52

theorem phdr_facts (x64 : Bool) :
    (∀ f ∈ phdrFields x64, f.count = 0) ∧ (∀ f ∈ phdrFields x64, f.size ∣ elfA x64) ∧
    layoutEnd (phdrFields x64) 0 = phdrSize x64 := by cases x64 <;> decide

theorem shdr_facts (x64 : Bool) :
    (∀ f ∈ shdrFields x64, f.count = 0) ∧ (∀ f ∈ shdrFields x64, f.size ∣ elfA x64) ∧
    layoutEnd (shdrFields x64) 0 = shdrSize x64 := by cases x64 <;> decide

theorem ehdr_facts (x64 : Bool) :
    (∀ f ∈ ehdrFields x64, f.count = 0) ∧ packedEnd (ehdrFields x64) 16 = ehdrSize x64 := by cases x64 <;> decide


/-! ### table entries: the struct walk at an aligned, in-bounds base reads the specification's table -/

theorem structUnpack_phdr (be x64 : Bool) (data : Bytes) (base : Nat)
    (hin : base + phdrSize x64 ≤ data.length) :
    structUnpack be (phdrFields x64) data base = .ok (refStruct be [] (specPhdr x64) data base) := by
  obtain ⟨hs, _, he⟩ := phdr_facts x64
  unfold structUnpack
  have := unpackFields_aligned be (phdrFields x64) data base 0
    (by rw [he]; exact hin)
  rw [this, readAt_eq_layout be _ data base 0 hs, layout_phdr, refStruct_nil_eq]
  rfl

theorem structUnpack_shdr (be x64 : Bool) (data : Bytes) (base : Nat)
    (hin : base + shdrSize x64 ≤ data.length) :
    structUnpack be (shdrFields x64) data base = .ok (refStruct be [] (specShdr x64) data base) := by
  obtain ⟨hs, _, he⟩ := shdr_facts x64
  unfold structUnpack
  have := unpackFields_aligned be (shdrFields x64) data base 0
    (by rw [he]; exact hin)
  rw [this, readAt_eq_layout be _ data base 0 hs, layout_shdr, refStruct_nil_eq]
  rfl

theorem dvd_entry (A off stride i : Nat) (h1 : A ∣ off) (h2 : A ∣ stride) : A ∣ off + i * stride :=
  Nat.dvd_add h1 (Nat.dvd_trans h2 (Nat.dvd_mul_left stride i))

theorem phdrTable_ok (be x64 : Bool) (data : Bytes) (n off stride : Nat)
    (hin : ∀ i, i < n → off + i * stride + phdrSize x64 ≤ data.length) :
    tableM (fun o => structUnpack be (phdrFields x64) data o) n off stride
      = .ok (refTable be (specPhdr x64) data n off stride) := by
  rw [tableM_ok _ (fun o => refStruct be [] (specPhdr x64) data o) n off stride]
  · rfl
  · intro i hi
    exact structUnpack_phdr be x64 data _ (hin i hi)

theorem shdrTable_ok (be x64 : Bool) (data : Bytes) (n off stride : Nat)
    (hin : ∀ i, i < n → off + i * stride + shdrSize x64 ≤ data.length) :
    tablePrefix (fun o => structUnpack be (shdrFields x64) data o) n off stride
      = refTable be (specShdr x64) data n off stride := by
  rw [tablePrefix_ok _ (fun o => refStruct be [] (specShdr x64) data o) n off stride]
  · rfl
  · intro i hi
    exact structUnpack_shdr be x64 data _ (hin i hi)

/-! ### header -/

theorem ident_ok (data : Bytes) (h : 16 ≤ data.length) :
    structUnpack false identFields data 0 = .ok (refStruct false ["ELFMAG", "unused"] specIdent data 0) := by
  unfold structUnpack
  have := unpackFields_aligned false identFields data 0 0 (by
    have : layoutEnd identFields 0 = 16 := by decide
    rw [this]; omega)
  rw [this]
  simp [readAt, identFields, refStruct, specIdent, alignUp, fieldVal, RawField.nbytes, refNat, toStructureError]

theorem ehdr_ok (be x64 : Bool) (data : Bytes) (h : ehdrSize x64 ≤ data.length) :
    unpackFields be false (ehdrFields x64) data 0 16 = .ok (refStruct be [] (specEhdr x64) data 0) := by
  obtain ⟨hs, he⟩ := ehdr_facts x64
  rw [unpackFields_packed be _ data 16 (by rw [he]; exact h), readAtPacked_eq_layout be _ data 16 hs,
    layout_ehdr, refStruct_nil_eq]

/-! ### names -/

theorem nameSections_ok (tab : Bytes) (sh : List Rec)
    (h : ∀ s ∈ sh, utf8Valid (cstrAt tab (fget s "sh_name")) = true) :
    nameSections tab sh = .ok (sh.map (fun s => { hdr := s, name := cstrAt tab (fget s "sh_name") })) := by
  induction sh with
  | nil => rfl
  | cons s rest ih =>
    have hs := h s (by simp)
    unfold nameSections
    simp only [decodeUtf8, hs, if_true]
    rw [ih (fun x hx => h x (by simp [hx]))]
    simp


/-! ### well-formed images and the main refinement -/

/-- A structurally valid ELF image, stated on what the *reference reader* sees: magic, the header
    and both tables inside the file,
    `e_shstrndx` a string table below 2^63 whose names are UTF-8. -/
structure ElfWF (env : ElfEnv) (data : Bytes) : Prop where
  len : ehdrSize (refElf data).x64 ≤ data.length
  magic0 : fget (refElf data).ident "ELFMAG0" = 0x7f
  magic : fget (refElf data).ident "ELFMAG" = 0x454c46
  ph_in : ∀ i, i < fget (refElf data).ehdr "e_phnum" →
          fget (refElf data).ehdr "e_phoff" + i * fget (refElf data).ehdr "e_phentsize" + phdrSize (refElf data).x64 ≤ data.length
  sh_in : ∀ i, i < fget (refElf data).ehdr "e_shnum" →
          fget (refElf data).ehdr "e_shoff" + i * fget (refElf data).ehdr "e_shentsize" + shdrSize (refElf data).x64 ≤ data.length
  strndx_pos : fget (refElf data).ehdr "e_shstrndx" ≠ 0
  strndx_lt : fget (refElf data).ehdr "e_shstrndx" < (refElf data).shdr.length
  strtab : fget ((refElf data).shdr.getD (fget (refElf data).ehdr "e_shstrndx") []) "sh_type" = SHT_STRTAB
  str_off : fget ((refElf data).shdr.getD (fget (refElf data).ehdr "e_shstrndx") []) "sh_offset" < pow63
  str_size : fget ((refElf data).shdr.getD (fget (refElf data).ehdr "e_shstrndx") []) "sh_size" < pow63
  names_utf8 : ∀ nm ∈ (refElf data).names, utf8Valid nm = true

theorem ehdrSize_ge (x64 : Bool) : 16 ≤ ehdrSize x64 := by cases x64 <;> decide

theorem elfTables_eq_ref (env : ElfEnv) (data : Bytes) (h : ElfWF env data) :
    ∃ t, elfTables env data = .ok t ∧
      t.ident = (refElf data).ident ∧ t.ehdr = (refElf data).ehdr ∧
      t.x64 = (refElf data).x64 ∧ t.be = (refElf data).be ∧
      t.phdr = (refElf data).phdr ∧
      t.shdr.map (·.hdr) = (refElf data).shdr ∧
      t.shdr.map (·.name) = (refElf data).names := by
  have hlen16 : 16 ≤ data.length := Nat.le_trans (ehdrSize_ge _) h.len
  -- abbreviations for what the reference reads
  let R := refElf data
  have hident := ident_ok data hlen16
  have hx64 : identX64 (refStruct false ["ELFMAG", "unused"] specIdent data 0) = R.x64 := by
    simp [identX64, refStruct, specIdent, fget, List.lookup, R, refElf]
  have hbe : identBE (refStruct false ["ELFMAG", "unused"] specIdent data 0) = R.be := by
    simp [identBE, refStruct, specIdent, fget, List.lookup, R, refElf]
  have hRident : R.ident = refStruct false ["ELFMAG", "unused"] specIdent data 0 := rfl
  have hReh : R.ehdr = refStruct R.be [] (specEhdr R.x64) data 0 := rfl
  have hm0 := h.magic0
  have hm := h.magic
  rw [show (refElf data).ident = R.ident from rfl, hRident] at hm0 hm
  have hI : elfIdent data = .ok R.ident := by
    unfold elfIdent
    rw [hident]
    simp only [hm0, hm, hRident]
    simp
  have hE : elfEhdr R.ident data = .ok R.ehdr := by
    unfold elfEhdr
    rw [hRident, hx64, hbe, hReh]
    exact ehdr_ok R.be R.x64 data h.len
  have hRph : R.phdr = if fget R.ehdr "e_phoff" != 0 then
      refTable R.be (specPhdr R.x64) data (fget R.ehdr "e_phnum") (fget R.ehdr "e_phoff") (fget R.ehdr "e_phentsize") else [] := rfl
  have hRsh : R.shdr = if fget R.ehdr "e_shoff" != 0 then
      refTable R.be (specShdr R.x64) data (fget R.ehdr "e_shnum") (fget R.ehdr "e_shoff") (fget R.ehdr "e_shentsize") else [] := rfl
  have hP : elfPhdrsAll R.be R.x64 R.ehdr data = .ok R.phdr := by
    unfold elfPhdrsAll
    rw [hRph]
    by_cases hz : (fget R.ehdr "e_phoff" != 0) = true
    · simp only [hz, if_true]
      exact phdrTable_ok R.be R.x64 data _ _ _ h.ph_in
    · simp only [hz]; rfl
  have hS : elfShdrsAll R.be R.x64 R.ehdr data = R.shdr := by
    unfold elfShdrsAll
    rw [hRsh]
    by_cases hz : (fget R.ehdr "e_shoff" != 0) = true
    · simp only [hz, if_true]
      exact shdrTable_ok R.be R.x64 data _ _ _ h.sh_in
    · simp only [hz]; rfl
  have hpf : R.phdr.filter (keepPhdr env) = R.phdr := List.filter_eq_self.mpr (fun _ _ => rfl)
  have hRnames : R.names = R.shdr.map (fun s => cstrAt
      (slice data (fget (R.shdr.getD (fget R.ehdr "e_shstrndx") []) "sh_offset")
                  (fget (R.shdr.getD (fget R.ehdr "e_shstrndx") []) "sh_size")) (fget s "sh_name")) := rfl
  have hN : elfNames R.ehdr R.shdr data =
      .ok (R.shdr.map (fun s => ({ hdr := s, name := (cstrAt
        (slice data (fget (R.shdr.getD (fget R.ehdr "e_shstrndx") []) "sh_offset")
                    (fget (R.shdr.getD (fget R.ehdr "e_shstrndx") []) "sh_size")) (fget s "sh_name")) } : Section))) := by
    unfold elfNames
    have c1 : (fget R.ehdr "e_shstrndx" != 0 && decide (fget R.ehdr "e_shstrndx" < R.shdr.length)) = true := by
      simp [h.strndx_pos, h.strndx_lt, R]
    have e2 : fget (R.shdr.getD (fget R.ehdr "e_shstrndx") []) "sh_type" = SHT_STRTAB := h.strtab
    have c2 : (fget (R.shdr.getD (fget R.ehdr "e_shstrndx") []) "sh_type" != SHT_STRTAB) = false := by
      rw [e2]; simp
    have a1 : fget (R.shdr.getD (fget R.ehdr "e_shstrndx") []) "sh_offset" < pow63 := h.str_off
    have a2 : fget (R.shdr.getD (fget R.ehdr "e_shstrndx") []) "sh_size" < pow63 := h.str_size
    have c3 : fileRead data (fget (R.shdr.getD (fget R.ehdr "e_shstrndx") []) "sh_offset")
        (fget (R.shdr.getD (fget R.ehdr "e_shstrndx") []) "sh_size") = .ok
          (slice data (fget (R.shdr.getD (fget R.ehdr "e_shstrndx") []) "sh_offset")
                  (fget (R.shdr.getD (fget R.ehdr "e_shstrndx") []) "sh_size")) := by
      unfold fileRead
      have n1 : ¬ (fget (R.shdr.getD (fget R.ehdr "e_shstrndx") []) "sh_offset" ≥ pow63) := by omega
      have n2 : ¬ (fget (R.shdr.getD (fget R.ehdr "e_shstrndx") []) "sh_size" ≥ pow63) := by omega
      rw [decide_eq_false n1, decide_eq_false n2]
      rfl
    simp only [c1, c2, if_true, Bool.false_eq_true, if_false, c3]
    apply nameSections_ok
    intro s hs
    apply h.names_utf8
    rw [show (refElf data).names = R.names from rfl, hRnames]
    exact List.mem_map_of_mem hs
  refine ⟨{ ident := R.ident, ehdr := R.ehdr, x64 := R.x64, be := R.be,
            dynamic := R.phdr.any (fun p => fget p "p_type" == PT_INTERP), basemap := basemapOf R.phdr none,
            phdr := R.phdr,
            shdr := R.shdr.map (fun s => ({ hdr := s, name := (cstrAt
              (slice data (fget (R.shdr.getD (fget R.ehdr "e_shstrndx") []) "sh_offset")
                          (fget (R.shdr.getD (fget R.ehdr "e_shstrndx") []) "sh_size")) (fget s "sh_name")) } : Section)) },
          ?_, rfl, rfl, rfl, rfl, rfl, ?_, ?_⟩
  · unfold elfTables
    rw [hI]
    simp only [hE]
    rw [hRident, hx64, hbe]
    simp only [hP, hS, hN, hpf]
  · show List.map (fun (x : Section) => x.hdr) (List.map _ R.shdr) = R.shdr
    rw [List.map_map]
    exact List.map_id'' (fun _ => rfl) _
  · rw [show (refElf data).names = R.names from rfl, hRnames]
    show List.map (fun (x : Section) => x.name) (List.map _ R.shdr) = _
    rw [List.map_map]
    rfl


/-! ### address queries -/

theorem findLastIdxAux_spec {α} (p : α → Bool) (l : List α) (i : Nat) (acc : Option Nat) :
    (findLastIdxAux p l i acc = acc ∧ ∀ x ∈ l, p x = false) ∨
    (∃ k, findLastIdxAux p l i acc = some (i + k) ∧ k < l.length ∧
       (∃ x, l[k]? = some x ∧ p x = true) ∧ ∀ j x, k < j → l[j]? = some x → p x = false) := by
  induction l generalizing i acc with
  | nil => left; simp [findLastIdxAux]
  | cons a t ih =>
    unfold findLastIdxAux
    rcases ih (i + 1) (if p a = true then some i else acc) with ⟨h1, h2⟩ | ⟨k, h1, h2, h3, h4⟩
    · by_cases ha : p a = true
      · right
        refine ⟨0, ?_, by simp, ⟨a, by simp, ha⟩, ?_⟩
        · rw [h1]; simp [ha]
        · intro j x hj hx
          cases j with
          | zero => omega
          | succ j =>
            simp only [List.getElem?_cons_succ] at hx
            exact h2 x (List.mem_of_getElem? hx)
      · left
        simp only [ha, Bool.false_eq_true, if_false] at h1 ⊢
        refine ⟨h1, ?_⟩
        intro x hx
        simp only [List.mem_cons] at hx
        rcases hx with rfl | hx
        · simpa using ha
        · exact h2 x hx
    · right
      refine ⟨k + 1, ?_, by simp; omega, ?_, ?_⟩
      · rw [h1]; congr 1; omega
      · obtain ⟨x, hx, hp⟩ := h3
        exact ⟨x, by simpa using hx, hp⟩
      · intro j x hj hx
        cases j with
        | zero => omega
        | succ j =>
          simp only [List.getElem?_cons_succ] at hx
          exact h4 j x (by omega) hx

theorem findLastIdx_some {α} (p : α → Bool) (l : List α) (k : Nat) (h : findLastIdx p l = some k) :
    k < l.length ∧ (∃ x, l[k]? = some x ∧ p x = true) ∧ ∀ j x, k < j → l[j]? = some x → p x = false := by
  unfold findLastIdx at h
  rcases findLastIdxAux_spec p l 0 none with ⟨h1, _⟩ | ⟨k', h1, h2, h3, h4⟩
  · rw [h1] at h; cases h
  · rw [h1] at h
    have : k = k' := by simp at h; omega
    subst this
    exact ⟨h2, h3, h4⟩

theorem findLastIdx_none {α} (p : α → Bool) (l : List α) (h : findLastIdx p l = none) :
    ∀ x ∈ l, p x = false := by
  unfold findLastIdx at h
  rcases findLastIdxAux_spec p l 0 none with ⟨_, h2⟩ | ⟨k', h1, _, _, _⟩
  · exact h2
  · rw [h1] at h; cases h

/-- the predicate `getinfo` scans the section list with -/
def secHolds (addr : Nat) (s : Section) : Bool :=
  fget s.hdr "sh_type" == SHT_PROGBITS && decide (fget s.hdr "sh_addr" ≤ addr) &&
    decide (addr < fget s.hdr "sh_addr" + fget s.hdr "sh_size")

theorem getinfo_sec (t : ElfTables) (addr : Nat) (hne : t.shdr ≠ []) :
    (∃ i s, t.shdr[i]? = some s ∧ secHolds addr s = true ∧
        (∀ j s', i < j → t.shdr[j]? = some s' → secHolds addr s' = false) ∧
        getinfo t addr = (.sec i, addr - fget s.hdr "sh_addr", fget s.hdr "sh_addr") ∧
        getfileoffset t addr = some (fget s.hdr "sh_offset" + (addr - fget s.hdr "sh_addr"))) ∨
    ((∀ s ∈ t.shdr, secHolds addr s = false) ∧ getinfo t addr = (.none, 0, 0) ∧ getfileoffset t addr = none) := by
  have he : t.shdr.isEmpty = false := by
    cases hs : t.shdr with
    | nil => exact absurd hs hne
    | cons a b => rfl
  cases hf : findLastIdx (secHolds addr) t.shdr with
  | none =>
    right
    refine ⟨findLastIdx_none _ _ hf, ?_, ?_⟩
    · unfold getinfo
      simp only [he, Bool.not_false, if_true]
      have : findLastIdx (fun (s : Section) => fget s.hdr "sh_type" == SHT_PROGBITS &&
          decide (fget s.hdr "sh_addr" ≤ addr) && decide (addr < fget s.hdr "sh_addr" + fget s.hdr "sh_size")) t.shdr = none := hf
      rw [this]
    · unfold getfileoffset getinfo
      simp only [he, Bool.not_false, if_true]
      have : findLastIdx (fun (s : Section) => fget s.hdr "sh_type" == SHT_PROGBITS &&
          decide (fget s.hdr "sh_addr" ≤ addr) && decide (addr < fget s.hdr "sh_addr" + fget s.hdr "sh_size")) t.shdr = none := hf
      rw [this]
  | some i =>
    left
    obtain ⟨hlt, ⟨s, hs, hp⟩, hlast⟩ := findLastIdx_some _ _ _ hf
    have hget : t.shdr.getD i default = s := by
      simp [List.getD, hs]
    have hgi : getinfo t addr = (.sec i, addr - fget s.hdr "sh_addr", fget s.hdr "sh_addr") := by
      unfold getinfo
      simp only [he, Bool.not_false, if_true]
      have : findLastIdx (fun (s : Section) => fget s.hdr "sh_type" == SHT_PROGBITS &&
          decide (fget s.hdr "sh_addr" ≤ addr) && decide (addr < fget s.hdr "sh_addr" + fget s.hdr "sh_size")) t.shdr = some i := hf
      rw [this]
      simp only [hget]
    refine ⟨i, s, hs, hp, hlast, hgi, ?_⟩
    unfold getfileoffset
    rw [hgi]
    simp only [hget]


/-! ### symbol / relocation / dynamic tables -/

def symSize (x64 : Bool) : Nat := if x64 then 24 else 16

theorem sym_facts (x64 : Bool) :
    (∀ f ∈ symFields x64, f.count = 0) ∧ (∀ f ∈ symFields x64, f.size ∣ elfA x64) ∧
    layoutEnd (symFields x64) 0 = symSize x64 := by cases x64 <;> decide

theorem structUnpack_sym (be x64 : Bool) (data : Bytes) (base : Nat)
    (hin : base + symSize x64 ≤ data.length) :
    structUnpack be (symFields x64) data base = .ok (refStruct be [] (specSym x64) data base) := by
  obtain ⟨hs, _, he⟩ := sym_facts x64
  unfold structUnpack
  have := unpackFields_aligned be (symFields x64) data base 0
    (by rw [he]; exact hin)
  rw [this, readAt_eq_layout be _ data base 0 hs, layout_sym, refStruct_nil_eq]
  rfl

/-- `__read_symtab` on the bytes of a symbol-table section: entry `i` is the specification's
    `Elf32_Sym` / `Elf64_Sym` at `i · sh_entsize`. -/
theorem readEntries_sym (be x64 : Bool) (S : Rec) (bytes : Bytes)
    (hent : fget S "sh_entsize" ≠ 0) (hmod : fget S "sh_size" % fget S "sh_entsize" = 0)
    (hbig : fget S "sh_size" / fget S "sh_entsize" ≤ bigTable)
    (hne : bytes ≠ [])
    (hin : ∀ i, i < fget S "sh_size" / fget S "sh_entsize" → i * fget S "sh_entsize" + symSize x64 ≤ bytes.length) :
    readEntries be (symFields x64) S bytes =
      .ok ((refTable be (specSym x64) bytes (fget S "sh_size" / fget S "sh_entsize") 0 (fget S "sh_entsize")).map some) := by
  unfold readEntries
  have e1 : (fget S "sh_entsize" == 0) = false := by simpa using hent
  have e2 : (fget S "sh_size" % fget S "sh_entsize" != 0) = false := by simp [hmod]
  have e3 : ¬ (fget S "sh_size" / fget S "sh_entsize" > bigTable) := by omega
  have e4 : bytes.isEmpty = false := by cases bytes with | nil => exact absurd rfl hne | cons a b => rfl
  simp only [e1, e2, e3, e4, bind, Except.bind, Bool.false_eq_true, if_false, pure, Except.pure]
  rw [tableM_ok _ (fun o => some (refStruct be [] (specSym x64) bytes o))]
  · simp [refTable, List.map_map, Function.comp]
  · intro i hi
    have := structUnpack_sym be x64 bytes (0 + i * fget S "sh_entsize") (by have := hin i hi; omega)
    rw [this]; rfl


/-! ### which exceptions can leave the constructors (C20) -/

def Raises {α} (S : PyExn → Prop) (x : Py α) : Prop := ∀ e, x = .error e → S e

theorem raises_bind {α β} {S : PyExn → Prop} {x : Py α} {f : α → Py β}
    (hx : Raises S x) (hf : ∀ a, Raises S (f a)) : Raises S (x >>= f) := by
  intro e he
  cases x with
  | error e' => simp [bind, Except.bind] at he; subst he; exact hx e' rfl
  | ok a => exact hf a e he

theorem raises_pure {α} {S : PyExn → Prop} (a : α) : Raises S (pure a : Py α) := by
  intro e he; cases he

theorem raises_ok {α} {S : PyExn → Prop} (a : α) : Raises S (.ok a : Py α) := by
  intro e he; cases he

def AV (e : PyExn) : Prop := e = .assertion ∨ e = .value

theorem raises_pyAssert (b : Bool) : Raises AV (pyAssert b) := by
  intro e he; unfold pyAssert at he; split at he
  · cases he
  · cases he; exact Or.inl rfl

theorem raises_pyInt (base : Nat) (s : List Nat) : Raises AV (pyInt base s) := by
  intro e he
  unfold pyInt at he
  simp only [] at he
  repeat' split at he
  all_goals first
    | (cases he; exact Or.inr rfl)
    | (cases he)

theorem raises_unhexlify : ∀ s : List Nat, Raises AV (unhexlify s)
  | [] => by intro e he; simp [unhexlify] at he
  | [_] => by intro e he; simp [unhexlify] at he; subst he; exact Or.inr rfl
  | a :: b :: t => by
    intro e he
    have ih := raises_unhexlify t
    rw [unhexlify] at he
    cases hx : hexVal? a with
    | none => simp [hx] at he; subst he; exact Or.inr rfl
    | some x =>
      cases hy : hexVal? b with
      | none => simp [hx, hy] at he; subst he; exact Or.inr rfl
      | some y =>
        cases hr : unhexlify t with
        | ok r => simp [hx, hy, hr] at he
        | error e' => simp [hx, hy, hr] at he; subst he; exact ih e' hr


theorem raises_hexExtOf (code count : Int) (data : List Nat) : Raises AV (hexExtOf code count data) := by
  unfold hexExtOf
  simp only []
  split
  · exact raises_bind (raises_pyAssert _) (fun _ => raises_bind (raises_pyInt _ _) (fun _ => raises_pure _))
  · split
    · exact raises_bind (raises_pyAssert _) (fun _ => raises_bind (raises_pyInt _ _) (fun _ =>
        raises_bind (raises_pyInt _ _) (fun _ => raises_pure _)))
    · split
      · exact raises_bind (raises_pyAssert _) (fun _ => raises_bind (raises_pyInt _ _) (fun _ => raises_pure _))
      · split
        · exact raises_bind (raises_pyAssert _) (fun _ => raises_bind (raises_pyInt _ _) (fun _ => raises_pure _))
        · exact raises_pure _

theorem raises_hexLineBody (line : List Nat) : Raises AV (hexLineBody line) := by
  unfold hexLineBody
  refine raises_bind (raises_pyAssert _) (fun _ => ?_)
  refine raises_bind (raises_pyInt _ _) (fun count => ?_)
  refine raises_bind (raises_pyInt _ _) (fun address => ?_)
  refine raises_bind (raises_pyInt _ _) (fun code => ?_)
  refine raises_bind (raises_unhexlify _) (fun data => ?_)
  refine raises_bind (raises_unhexlify _) (fun s => ?_)
  refine raises_bind (raises_pyInt _ _) (fun last => ?_)
  refine raises_bind (raises_pyAssert _) (fun _ => ?_)
  refine raises_bind (raises_hexExtOf _ _ _) (fun ext => ?_)
  exact raises_pure _

def OnlyHex (e : PyExn) : Prop := e = .hexError
def OnlySrec (e : PyExn) : Prop := e = .srecError

theorem raises_hexLineSet (raw : List Nat) : Raises OnlyHex (hexLineSet raw) := by
  intro e he
  unfold hexLineSet at he
  have hb := raises_hexLineBody (strip raw)
  cases hbody : hexLineBody (strip raw) with
  | ok v => rw [hbody] at he; simp [toHexError] at he
  | error e' =>
    rw [hbody] at he
    rcases hb e' hbody with h | h <;> subst h <;> simp [toHexError] at he <;> exact he.symm

theorem raises_hexInitLoop (ls : List (List Nat)) (acc : HexFile) : Raises OnlyHex (hexInitLoop ls acc) := by
  induction ls generalizing acc with
  | nil => intro e he; simp [hexInitLoop] at he
  | cons raw rest ih =>
    intro e he
    unfold hexInitLoop at he
    cases hl : hexLineSet raw with
    | error e' => rw [hl] at he; simp at he; subst he; exact raises_hexLineSet raw e' hl
    | ok l => rw [hl] at he; exact ih _ e he

theorem raises_hexInit (data : Bytes) : Raises OnlyHex (hexInit data) := raises_hexInitLoop _ _

def AVS (e : PyExn) : Prop := e = .assertion ∨ e = .value ∨ e = .srecError

theorem av_avs {α} {x : Py α} (h : Raises AV x) : Raises AVS x := by
  intro e he
  rcases h e he with h | h
  · exact Or.inl h
  · exact Or.inr (Or.inl h)

theorem raises_srecLineBody (line : List Nat) : Raises AVS (srecLineBody line) := by
  unfold srecLineBody
  refine raises_bind (av_avs (raises_pyAssert _)) (fun _ => ?_)
  refine raises_bind (av_avs (raises_pyInt _ _)) (fun ty => ?_)
  refine raises_bind (av_avs (raises_pyInt _ _)) (fun count => ?_)
  refine raises_bind (av_avs (raises_pyInt _ _)) (fun address => ?_)
  refine raises_bind (av_avs (raises_unhexlify _)) (fun data => ?_)
  refine raises_bind (av_avs (raises_pyAssert _)) (fun _ => ?_)
  refine raises_bind (av_avs (raises_unhexlify _)) (fun s => ?_)
  refine raises_bind (av_avs (raises_pyInt _ _)) (fun last => ?_)
  intro e he
  simp only [] at he
  split at he
  · simp [throw, throwThe, MonadExceptOf.throw, bind, Except.bind] at he
    subst he; exact Or.inr (Or.inr rfl)
  · cases he

theorem raises_srecLineSet (raw : List Nat) : Raises OnlySrec (srecLineSet raw) := by
  intro e he
  unfold srecLineSet at he
  have hb := raises_srecLineBody (strip raw)
  cases hbody : srecLineBody (strip raw) with
  | ok v => rw [hbody] at he; simp [toSrecError] at he
  | error e' =>
    rw [hbody] at he
    rcases hb e' hbody with h | h | h <;> subst h <;> simp [toSrecError] at he <;> exact he.symm

theorem raises_srecInitLoop (ls : List (List Nat)) (acc : SrecFile) : Raises OnlySrec (srecInitLoop ls acc) := by
  induction ls generalizing acc with
  | nil => intro e he; simp [srecInitLoop] at he
  | cons raw rest ih =>
    intro e he
    unfold srecInitLoop at he
    split at he
    · exact ih _ e he
    · cases hl : srecLineSet raw with
      | error e' => rw [hl] at he; simp at he; subst he; exact raises_srecLineSet raw e' hl
      | ok l => rw [hl] at he; exact ih _ e he

theorem raises_srecInit (data : Bytes) : Raises OnlySrec (srecInit data) := raises_srecInitLoop _ _

def ElfOrStruct (e : PyExn) : Prop := e = .elfError ∨ e = .structureError

theorem raises_elfInit (env : ElfEnv) (data : Bytes) : Raises ElfOrStruct (elfInit env data) := by
  intro e he
  unfold elfInit at he
  cases hr : elfParseRaw env data with
  | ok v => rw [hr] at he; simp [toElfError] at he
  | error e' =>
    rw [hr] at he
    cases e' <;> simp [toElfError] at he <;> subst he <;> first | exact Or.inl rfl | exact Or.inr rfl

/-- `read_program` returns a format object or the raw fallback for every byte string. -/
theorem readProgram_total (env : ElfEnv) (B : Bodies) (data : Bytes) :
    ∃ o, readProgram env B data = .ok o := by
  unfold readProgram
  -- ELF
  cases h1 : elfInit env data with
  | ok o => exact ⟨.elf o, by simp [tryFormat]⟩
  | error e1 =>
    have c1 : [PyExn.structureError, PyExn.elfError].contains e1 = true := by
      rcases raises_elfInit env data e1 h1 with h | h <;> subst h <;> decide
    simp only [tryFormat, c1, if_true]
    -- PE
    cases h2 : peInit B data with
    | ok o => exact ⟨_, rfl⟩
    | error e2 =>
      have c2 : [PyExn.structureError, PyExn.peError].contains e2 = true := by
        unfold peInit at h2
        split at h2
        · split at h2
          · cases h2
          · cases h2; decide
        · split at h2 <;> cases h2 <;> decide
      simp only [c2, if_true]
      cases h3 : machoInit B data with
      | ok o => exact ⟨_, rfl⟩
      | error e3 =>
        have c3 : [PyExn.structureError, PyExn.machoError].contains e3 = true := by
          unfold machoInit at h3
          split at h3
          · split at h3
            · cases h3
            · cases h3; decide
          · cases h3; decide
        simp only [c3, if_true]
        cases h4 : coffInit B data with
        | ok o => exact ⟨_, rfl⟩
        | error e4 =>
          have c4 : [PyExn.structureError, PyExn.coffError].contains e4 = true := by
            unfold coffInit at h4
            split at h4
            · split at h4
              · cases h4
              · cases h4; decide
            · cases h4; decide
          simp only [c4, if_true]
          cases h5 : hexInit data with
          | ok o => exact ⟨_, rfl⟩
          | error e5 =>
            have c5 : [PyExn.hexError].contains e5 = true := by
              have := raises_hexInit data e5 h5; subst this; decide
            simp only [c5, if_true]
            cases h6 : srecInit data with
            | ok o => exact ⟨_, rfl⟩
            | error e6 =>
              have c6 : [PyExn.srecError].contains e6 = true := by
                have := raises_srecInit data e6 h6; subst this; decide
              simp only [c6, if_true]
              exact ⟨_, rfl⟩


/-! ### acceptance predicates are pairwise exclusive (C20) -/

theorem pySlice01_head (line : List Nat) (v : Nat) (h : (pySlice line 0 1 == [v]) = true) :
    line.head? = some v := by
  cases line with
  | nil => simp [pySlice, normIdx] at h
  | cons c t =>
    have : pySlice (c :: t) 0 1 = [c] := by
      have := pySlice_nat' (c :: t) 0 1 0 1 rfl rfl (by simp) (by omega)
      simpa using this
    rw [this] at h
    simp at h
    simp [h]

theorem hexLineSet_head (raw : List Nat) (l : HexLine) (h : hexLineSet raw = .ok l) :
    (strip raw).head? = some 58 := by
  unfold hexLineSet at h
  cases hb : hexLineBody (strip raw) with
  | error e => rw [hb] at h; cases e <;> simp [toHexError] at h
  | ok v =>
    unfold hexLineBody at hb
    by_cases hc : (pySlice (strip raw) 0 1 == [58]) = true
    · exact pySlice01_head _ _ hc
    · simp [pyAssert, hc, bind, Except.bind] at hb

theorem srecLineSet_head (raw : List Nat) (l : SrecLine) (h : srecLineSet raw = .ok l) :
    (strip raw).head? = some 83 := by
  unfold srecLineSet at h
  cases hb : srecLineBody (strip raw) with
  | error e => rw [hb] at h; cases e <;> simp [toSrecError] at h
  | ok v =>
    unfold srecLineBody at hb
    by_cases hc : (pySlice (strip raw) 0 1 == [83]) = true
    · exact pySlice01_head _ _ hc
    · simp [pyAssert, hc, bind, Except.bind] at hb

theorem hexInitLoop_first (raw : List Nat) (rest : List (List Nat)) (acc : HexFile) (r : HexFile)
    (h : hexInitLoop (raw :: rest) acc = .ok r) : (strip raw).head? = some 58 := by
  unfold hexInitLoop at h
  cases hl : hexLineSet raw with
  | error e => rw [hl] at h; cases h
  | ok l => exact hexLineSet_head raw l hl

theorem srecInitLoop_first (raw : List Nat) (rest : List (List Nat)) (acc : SrecFile) (r : SrecFile)
    (h : srecInitLoop (raw :: rest) acc = .ok r) : strip raw = [] ∨ (strip raw).head? = some 83 := by
  unfold srecInitLoop at h
  by_cases hb : (strip raw == []) = true
  · left; simpa using hb
  · right
    simp only [hb, Bool.false_eq_true, if_false] at h
    cases hl : srecLineSet raw with
    | error e => rw [hl] at h; cases h
    | ok l => exact srecLineSet_head raw l hl

theorem readlinesAux_cons (c : Nat) (t cur : List Nat) :
    ∃ l rest, readlinesAux (c :: t) cur = l :: rest ∧ l.head? = some ((cur.reverse ++ [c]).head?.getD c) := by
  induction t generalizing c cur with
  | nil =>
    unfold readlinesAux
    by_cases hc : (c == 10) = true
    · refine ⟨(c :: cur).reverse, readlinesAux [] [], by simp [hc], ?_⟩
      simp
    · refine ⟨(c :: cur).reverse, [], by simp [hc, readlinesAux], ?_⟩
      simp
  | cons d t ih =>
    unfold readlinesAux
    by_cases hc : (c == 10) = true
    · refine ⟨(c :: cur).reverse, readlinesAux (d :: t) [], by simp [hc], ?_⟩
      simp
    · simp only [hc, Bool.false_eq_true, if_false]
      obtain ⟨l, rest, h1, h2⟩ := ih d (c :: cur)
      refine ⟨l, rest, h1, ?_⟩
      rw [h2]
      simp

theorem readlines_first (c : Nat) (t : List Nat) :
    ∃ l rest, readlines (c :: t) = l :: rest ∧ l.head? = some c := by
  obtain ⟨l, rest, h1, h2⟩ := readlinesAux_cons c t []
  exact ⟨l, rest, h1, by simpa using h2⟩

theorem head_strip (l : List Nat) (c : Nat) (h : l.head? = some c) (hc : isSpace c = false) :
    (strip l).head? = some c := by
  cases l with
  | nil => cases h
  | cons a t =>
    simp at h; subst h
    have h1 : lstrip (a :: t) = a :: t := by simp [lstrip, List.dropWhile, hc]
    unfold strip
    rw [h1]
    unfold rstrip
    -- reverse, drop trailing spaces, reverse: the first element survives
    have : ∃ u, (List.dropWhile isSpace (a :: t).reverse) = u ++ [a] := by
      rw [List.reverse_cons]
      generalize t.reverse = r
      induction r with
      | nil => exact ⟨[], by simp [List.dropWhile, hc]⟩
      | cons x r ih =>
        by_cases hx : isSpace x = true
        · obtain ⟨u, hu⟩ := ih
          exact ⟨u, by simp [List.dropWhile, hx]; simpa using hu⟩
        · exact ⟨x :: r, by simp [List.dropWhile, hx]⟩
    obtain ⟨u, hu⟩ := this
    rw [hu]
    simp

/-- HEX: an accepted non-empty file starts (after leading blanks of its first line) with `:`. -/
theorem accHex_first (d : Bytes) (c : Nat) (h : accHex d = true) (hd : d.head? = some c) (hc : isSpace c = false) :
    c = 58 := by
  cases d with
  | nil => cases hd
  | cons a t =>
    simp at hd; subst hd
    unfold accHex hexInit at h
    obtain ⟨l, rest, h1, h2⟩ := readlines_first a t
    rw [h1] at h
    cases hr : hexInitLoop (l :: rest) { lines := [], entry := .zero, eip := none } with
    | error e => rw [hr] at h; cases h
    | ok r =>
      have := hexInitLoop_first l rest _ r hr
      rw [head_strip l a h2 hc] at this
      simpa using this

theorem accSrec_first (d : Bytes) (c : Nat) (h : accSrec d = true) (hd : d.head? = some c) (hc : isSpace c = false) :
    c = 83 := by
  cases d with
  | nil => cases hd
  | cons a t =>
    simp at hd; subst hd
    unfold accSrec srecInit at h
    obtain ⟨l, rest, h1, h2⟩ := readlines_first a t
    rw [h1] at h
    cases hr : srecInitLoop (l :: rest) { lines := [], name := none, entry := none } with
    | error e => rw [hr] at h; cases h
    | ok r =>
      have hs := head_strip l a h2 hc
      rcases srecInitLoop_first l rest _ r hr with h0 | h0
      · rw [h0] at hs; cases hs
      · rw [hs] at h0; simpa using h0

theorem accHex_accSrec (d : Bytes) (h1 : accHex d = true) (h2 : accSrec d = true) : d = [] := by
  cases d with
  | nil => rfl
  | cons a t =>
    exfalso
    unfold accHex hexInit at h1
    unfold accSrec srecInit at h2
    obtain ⟨l, rest, e1, _⟩ := readlines_first a t
    rw [e1] at h1 h2
    cases hr : hexInitLoop (l :: rest) { lines := [], entry := .zero, eip := none } with
    | error e => rw [hr] at h1; cases h1
    | ok r =>
      cases hs : srecInitLoop (l :: rest) { lines := [], name := none, entry := none } with
      | error e => rw [hs] at h2; cases h2
      | ok r2 =>
        have a1 := hexInitLoop_first l rest _ r hr
        rcases srecInitLoop_first l rest _ r2 hs with h0 | h0
        · rw [h0] at a1; cases a1
        · rw [a1] at h0; cases h0



/-! ### first byte of accepted ELF / PE / Mach-O inputs -/

def BytesOK (d : Bytes) : Prop := ∀ b ∈ d, b < 256

theorem unpackFields_head (be al : Bool) (f : RawField) (fs : List RawField) (data : Bytes) (base rel : Nat) (r : Rec)
    (h : unpackFields be al (f :: fs) data base rel = .ok r) :
    ∃ v rest, r = (f.name, v) :: rest ∧ rdField be f data (base + (if al then alignUp rel f.size else rel)) = .ok v := by
  unfold unpackFields at h
  simp only at h
  cases hr : rdField be f data (base + (if al = true then alignUp rel f.size else rel)) with
  | error e => rw [hr] at h; cases h
  | ok v =>
    rw [hr] at h
    simp only at h
    cases hu : unpackFields be al fs data base ((if al = true then alignUp rel f.size else rel) + f.nbytes) with
    | error e => rw [hu] at h; cases h
    | ok rest =>
      rw [hu] at h
      simp only [Except.ok.injEq] at h
      exact ⟨v, rest, h.symm, rfl⟩

theorem rdField_byte0 (be : Bool) (n : String) (data : Bytes) (v : Nat)
    (h : rdField be ⟨n, 1, 0⟩ data 0 = .ok v) : data.head? = some v := by
  cases data with
  | nil => simp [rdField, slice, RawField.nbytes] at h
  | cons b t =>
    simp [rdField, slice, RawField.nbytes, fieldVal, leVal, beVal, beNat] at h
    cases be <;> simp_all

theorem elfIdent_head (data : Bytes) (ident : Rec) (h : elfIdent data = .ok ident) :
    data.head? = some 0x7f := by
  unfold elfIdent at h
  cases hu : structUnpack false identFields data 0 with
  | error e => rw [hu] at h; cases h
  | ok id =>
    rw [hu] at h
    simp only at h
    split at h
    · cases h
    · rename_i hm
      unfold structUnpack at hu
      cases hv : unpackFields false true identFields data 0 0 with
      | error e => rw [hv] at hu; simp [toStructureError] at hu
      | ok r =>
        rw [hv] at hu
        simp only [toStructureError, Except.ok.injEq] at hu
        subst hu
        obtain ⟨v, rest, hr, hrd⟩ := unpackFields_head false true _ _ data 0 0 r hv
        have : 0 + (if true = true then alignUp 0 (⟨"ELFMAG0", 1, 0⟩ : RawField).size else 0) = 0 := by decide
        rw [this] at hrd
        have hh := rdField_byte0 false _ data v hrd
        have hv7 : fget r "ELFMAG0" = v := by rw [hr]; simp [fget, List.lookup]
        simp only [Bool.or_eq_true, bne_iff_ne, ne_eq, not_or, Decidable.not_not] at hm
        rw [hh, ← hv7, hm.1]

theorem accElf_head (env : ElfEnv) (data : Bytes) (h : accElf env data = true) : data.head? = some 0x7f := by
  unfold accElf elfInit at h
  cases hr : elfParseRaw env data with
  | error e => rw [hr] at h; cases e <;> simp [toElfError, Except.isOk, Except.toBool] at h
  | ok o =>
    unfold elfParseRaw at hr
    cases ht : elfTables env data with
    | error e => rw [ht] at hr; simp [bind, Except.bind] at hr
    | ok t =>
      unfold elfTables at ht
      cases hi : elfIdent data with
      | error e => rw [hi] at ht; cases ht
      | ok ident => exact elfIdent_head data ident hi

theorem peHeaderOK_head (data : Bytes) (h : peHeaderOK data = true) : data.head? = some 77 := by
  unfold peHeaderOK at h
  simp only [Bool.and_eq_true] at h
  obtain ⟨⟨_, h2⟩, _⟩ := h
  cases data with
  | nil => simp [slice] at h2
  | cons b t =>
    cases t with
    | nil => simp [slice] at h2
    | cons c u => simp [slice] at h2; simp [h2.1]

theorem leVal_mod (b : Nat) (t : Bytes) (hb : b < 256) : leVal (b :: t) % 256 = b := by
  simp [leVal]; omega

theorem machoHeaderOK_head (data : Bytes) (hok : BytesOK data) (h : machoHeaderOK data = true) :
    data.head? = some 0xCE ∨ data.head? = some 0xCF ∨ data.head? = some 0xCA := by
  unfold machoHeaderOK at h
  simp only [Bool.and_eq_true, decide_eq_true_eq] at h
  obtain ⟨hlen, hm⟩ := h
  match data, hlen, hok with
  | b0 :: b1 :: b2 :: b3 :: t, _, hok =>
    have hb : b0 < 256 := hok b0 (by simp)
    have hs : slice (b0 :: b1 :: b2 :: b3 :: t) 0 4 = [b0, b1, b2, b3] := by simp [slice]
    rw [hs] at hm
    have hmod := leVal_mod b0 [b1, b2, b3] hb
    simp only [Bool.or_eq_true, beq_iff_eq, Bool.and_eq_true, decide_eq_true_eq] at hm
    rcases hm with (hm | ⟨hm, _⟩) | hm <;> rw [hm] at hmod <;> simp at hmod <;> simp [← hmod]


end Amoco.Fmt
