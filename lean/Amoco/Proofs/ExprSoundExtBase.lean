/-
  [C01 extension: the fragment WITH ROTATIONS.  This file is `Proofs/ExprSoundBase.lean` redone in namespace `Amoco.Rot`, where
   `agnOp`/`Plain` also allow `>>>` (`ror`) and `<<<` (`rol`) nodes; changed proof steps: `api_sstep`, `callOp_sstep`,
   `helperRot_spost` (new), `eqn2tail_sstep`, `eqn2cst_sstep` (rule `l >>> 0 ⇒ l`, lemma `rot_zero`).  Original header follows.]
  Amoco.Proofs.ExprSoundBase — the sign-agnostic deterministic fragment (`Plain`), bounds of ideal values,
  and the operator semantics facts used by the value-soundness induction over the rewrite system.
-/
import Amoco.Proofs.ExprSoundBase

namespace Amoco.Rot

open Expr Bits

/-- binary operators whose meaning does not depend on a declared signedness, rotations INCLUDED -/
def agnOp : Op → Bool
  | .add | .sub | .mul | .and | .or | .xor | .eq | .neq | .ltu | .geu | .lsl | .lsr | .asr | .ror | .rol => true
  | _ => false

mutual
/-- the fragment of the value-soundness theorem: no `top`/`vec`/`vecw`/`mem`/`ptr`, only sign-agnostic operators,
    and no unary operator applied to a literal constant (`uop.simplify` folds those at once; the constant-merging
    rule of `eqn2_helpers` would be wrong on `(-c) + k`, a shape no simplified operand has), and no externals
    (`eqn2_helpers` assumes `ext == 0` is false — also for slices of externals: an assumption about the loader) -/
def Plain : Expr → Prop
  | cst .. => True
  | reg .. => True
  | ext .. => False
  | slc x _ _ _ _ k => k ≠ 2 ∧ Plain x
  | comp _ _ ps => PlainParts ps
  | tst t l r _ _ => Plain t ∧ Plain l ∧ Plain r
  | op o l r _ _ _ => agnOp o = true ∧ Plain l ∧ Plain r
  | uop o r _ _ _ => (o = Op.sub ∨ o = Op.not) ∧ r.isCst = false ∧ Plain r
  | _ => False
def PlainParts : List Part → Prop
  | [] => True
  | (_, _, e) :: tl => Plain e ∧ PlainParts tl
end

theorem plainParts_iff (ps : List Part) : PlainParts ps ↔ ∀ p ∈ ps, Plain p.2.2 := by
  induction ps with
  | nil => simp [PlainParts]
  | cons q tl ih => obtain ⟨a, b, e⟩ := q; simp only [PlainParts, ih, List.mem_cons, forall_eq_or_imp]

theorem Plain_setSf (f : Bool) (e : Expr) : Plain (e.setSf f) ↔ Plain e := by
  cases e <;> simp only [setSf, Plain]

theorem Plain_isDef {e : Expr} (h : Plain e) : e.isDef = true := by
  cases e <;> simp [Plain] at h <;> rfl

theorem Plain_notExt {e : Expr} (h : Plain e) : e.isExt = false := by
  cases e <;> simp [Plain, isExt] at h ⊢
  exact h.1

theorem Plain_slcEty {e : Expr} (h : Plain e) : slcEty e ≠ 2 := by
  cases e <;> simp [Plain, slcEty] at h ⊢

theorem Plain_mkCst (x : Int) (s : Nat) : Plain (mkCst x s) := by simp [mkCst, Plain]

/-- for sign-agnostic operators the declared reading is irrelevant -/
theorem binSem_agn (o : Op) (h : agnOp o = true) (s1 s2 : Bool) (w a b : Nat) : binSem o s1 w a b = binSem o s2 w a b := by
  cases o <;> simp [agnOp] at h <;> rfl

/-- `(l >>> 0) ⇒ l`, `(l <<< 0) ⇒ l` (rule of `eqn2_helpers` for a zero right operand) -/
theorem rot_zero (o : Op) (ho : o = Op.ror ∨ o = Op.rol) (sg : Bool) (w a : Nat) (h : a < 2 ^ w) : binSem o sg w a 0 = a := by
  have key : (a ||| a <<< w) % 2 ^ w = a := by
    apply Nat.eq_of_testBit_eq; intro j
    rw [Nat.testBit_mod_two_pow, Nat.testBit_or, Nat.testBit_shiftLeft]
    by_cases hj : j < w
    · have : ¬ (j ≥ w) := by omega
      simp [hj, this]
    · have : a.testBit j = false := by
        apply Nat.testBit_lt_two_pow
        exact Nat.lt_of_lt_of_le h (Nat.pow_le_pow_right (by decide) (by omega))
      simp [hj, this]
  rcases ho with rfl | rfl
  · simp only [binSem, Nat.zero_mod, Nat.shiftRight_zero, Nat.sub_zero]; exact key
  · simp only [binSem, Nat.zero_mod, Nat.shiftLeft_zero, Nat.sub_zero]
    rw [Nat.shiftRight_eq_div_pow, Nat.div_eq_of_lt h, Nat.or_zero]
    exact Nat.mod_eq_of_lt h

end Amoco.Rot
