/-
  [C01 extension: the fragment WITH ROTATIONS.  This file is `Proofs/ExprSoundBitslice.lean` redone in namespace `Amoco.Rot`, where
   `agnOp`/`Plain` also allow `>>>` (`ror`) and `<<<` (`rol`) nodes; changed proof steps: `api_sstep`, `callOp_sstep`,
   `helperRot_spost` (new), `eqn2tail_sstep`, `eqn2cst_sstep` (rule `l >>> 0 ⇒ l`, lemma `rot_zero`).  Original header follows.]
  Amoco.Proofs.ExprSoundBitslice — the `bitslice=True` rules of `eqn2_helpers`: a list of 1-bit expressions
  handed to `composer` is the number whose bits they are.
-/
import Amoco.Proofs.ExprSoundExtSlice

namespace Amoco.Rot

open Expr Bits

theorem mapM_get {α β : Type} (f : α → R β) :
    ∀ (l : List α) (l' : List β), l.mapM f = .ok l' →
      l'.length = l.length ∧ ∀ (i : Nat) (h : i < l.length) (h' : i < l'.length), f l[i] = .ok l'[i] := by
  intro l
  induction l with
  | nil => intro l' h; simp [List.mapM_nil, pure, Except.pure] at h; subst h; simp
  | cons x tl ih =>
    intro l' h
    rw [List.mapM_cons] at h
    cases hx : f x with
    | error e => rw [hx] at h; cases h
    | ok y =>
      rw [hx] at h
      simp only [bind, Except.bind] at h
      cases ht : List.mapM f tl with
      | error e => rw [ht] at h; cases h
      | ok ys =>
        rw [ht] at h
        simp only [pure, Except.pure] at h
        cases h
        obtain ⟨h1, h2⟩ := ih ys ht
        refine ⟨by simp [h1], ?_⟩
        intro i hi hi'
        cases i with
        | zero => simpa using hx
        | succ k =>
          simp only [List.getElem_cons_succ]
          exact h2 k (by simpa using hi) (by simpa using hi')

theorem bitsOf_one (x i : Nat) : bitsOf x i 1 = b2n (x.testBit i) := by
  unfold bitsOf b2n
  rw [Nat.shiftRight_eq_div_pow, Nat.pow_one, ← Nat.toNat_testBit]
  cases x.testBit i <;> rfl

theorem b2n_lt (b : Bool) : b2n b < 2 ^ 1 := by cases b <;> simp [b2n]

theorem testBit_b2n (b : Bool) (j : Nat) : (b2n b).testBit j = (decide (j = 0) && b) := by
  cases b
  · simp [b2n]
  · cases j with
    | zero => simp [b2n]
    | succ k => simp [b2n, Nat.testBit_succ]

/-- a list of 1-bit expressions, concatenated -/
theorem catVal_bits (ρ : Val) (g : Nat → Bool) :
    ∀ (bits : List Expr) (k : Nat),
      (∀ (i : Nat) (h : i < bits.length), bits[i].size = 1 ∧ ideal ρ bits[i] = b2n (g (k + i))) →
      ∀ j, (catVal ρ bits).testBit j = (decide (j < bits.length) && g (k + j)) := by
  intro bits
  induction bits with
  | nil => intro k _ j; simp [catVal]
  | cons x tl ih =>
    intro k h j
    have h0 := h 0 (by simp)
    simp only [List.getElem_cons_zero, Nat.add_zero] at h0
    simp only [catVal]
    rw [h0.1, h0.2, testBit_cat _ _ _ _ (b2n_lt _)]
    by_cases hj : j < 1
    · have : j = 0 := by omega
      subst this
      simp
      cases g k <;> simp [b2n]
    · rw [if_neg hj]
      have := ih (k + 1) (by
        intro i hi
        have := h (i + 1) (by simpa using hi)
        simp only [List.getElem_cons_succ] at this
        rw [show k + 1 + i = k + (i + 1) by omega]
        exact this) (j - 1)
      rw [this]
      have e : k + 1 + (j - 1) = k + j := by omega
      rw [e]
      congr 1
      simp only [List.length_cons]
      apply decide_eq_decide.mpr
      omega

theorem getElem_pyRange (a b : Int) (i : Nat) (h : i < (pyRange a b).length) : (pyRange a b)[i] = a + (i : Int) := by
  simp [pyRange]

/-- what the result of the bitslice rules must look like -/
def BitsOK (ρ : Val) (g : Nat → Bool) (bits : List Expr) : Prop :=
  ∀ (i : Nat) (h : i < bits.length), WF bits[i] ∧ Plain bits[i] ∧ bits[i].size = 1 ∧ ideal ρ bits[i] = b2n (g i)

theorem BitsOK_append {ρ : Val} {g1 g2 : Nat → Bool} {l1 l2 : List Expr} (h1 : BitsOK ρ g1 l1) (h2 : BitsOK ρ g2 l2) :
    BitsOK ρ (fun i => if i < l1.length then g1 i else g2 (i - l1.length)) (l1 ++ l2) := by
  intro i hi
  by_cases h : i < l1.length
  · rw [List.getElem_append_left h]
    simp only [h, if_true]
    exact h1 i h
  · rw [List.getElem_append_right (by omega)]
    simp only [h, if_false]
    exact h2 (i - l1.length) (by simp at hi; omega)

theorem BitsOK_bit0s (ρ : Val) (n : Nat) : BitsOK ρ (fun _ => false) (bit0s n) := by
  intro i hi
  simp only [bit0s, List.getElem_replicate]
  exact ⟨WF_bit0, Plain_bit0, rfl, by simp [ideal_bit0, b2n]⟩

section steps
variable {cfg : Cfg} {ρ : Val} {fuel : Nat} (ih : SoundIH cfg ρ fuel)
include ih

/-- the bits `[a, a+n)` of `l`, taken one by one -/
theorem bits_of_sem (l : Expr) (hl : WF l) (hq : Plain l) (a b : Int) (bits : List Expr)
    (h : (pyRange a b).mapM (fun i => getitem cfg fuel l i (i + 1)) = .ok bits) :
    bits.length = (b - a).toNat ∧ (0 < bits.length → 0 ≤ a) ∧
      BitsOK ρ (fun i => (ideal ρ l).testBit (a.toNat + i)) bits := by
  obtain ⟨h1, h2⟩ := mapM_get _ _ _ h
  have hlen : bits.length = (b - a).toNat := by rw [h1, length_pyRange]
  have key : ∀ (i : Nat) (hi : i < bits.length), 0 ≤ a + (i : Int) ∧
      WF bits[i] ∧ Plain bits[i] ∧ bits[i].size = 1 ∧ ideal ρ bits[i] = b2n ((ideal ρ l).testBit ((a + (i : Int)).toNat)) := by
    intro i hi
    have := h2 i (by rw [← h1]; exact hi) hi
    rw [getElem_pyRange] at this
    have hw := (widthIH_all cfg fuel).getitem l _ _ hl _ this
    have hv := ih.getitem l _ _ hl hq _ this
    have hpos : 0 ≤ a + (i : Int) := by
      cases fuel with
      | zero => rw [getitem.eq_def] at this; cases this
      | succ k =>
        rw [getitem.eq_def] at this; dsimp only at this
        cases hcs : checkSlice l.size (a + (i : Int)) (a + (i : Int) + 1) with
        | error e => rw [hcs] at this; cases this
        | ok u => exact (checkSlice_ok hcs).1
    refine ⟨hpos, hw.1, hv.1, by rw [hw.2]; omega, ?_⟩
    rw [hv.2]
    have e : (a + (i : Int) + 1).toNat - (a + (i : Int)).toNat = 1 := by omega
    rw [e, bitsOf_one]
  refine ⟨hlen, ?_, ?_⟩
  · intro hp
    have := (key 0 hp).1
    simpa using this
  · intro i hi
    obtain ⟨hpos, k1, k2, k3, k4⟩ := key i hi
    refine ⟨k1, k2, k3, ?_⟩
    rw [k4]
    have h0 : 0 ≤ a := by
      have := (key 0 (by omega)).1
      simpa using this
    have e : (a + (i : Int)).toNat = a.toNat + i := by omega
    rw [e]

/-- `composer(bits)` (then `c.sf = e.sf` when a `comp` comes out) for 1-bit expressions -/
theorem compose_bits_sem (bits : List Expr) (sf : Bool) (g : Nat → Bool) (V : Nat) (hb : BitsOK ρ g bits)
    (hV : ∀ j, V.testBit j = (decide (j < bits.length) && g j)) (c : Expr) (hc : composer cfg fuel bits = .ok c) :
    Plain (if c.isCmp = true then c.setSf sf else c) ∧ ideal ρ (if c.isCmp = true then c.setSf sf else c) = V := by
  have := ih.composer bits (fun x hx => by
      obtain ⟨i, hi, rfl⟩ := List.getElem_of_mem hx; exact (hb i hi).1)
    (fun x hx => by obtain ⟨i, hi, rfl⟩ := List.getElem_of_mem hx; exact (hb i hi).2.1) c hc
  have hval : ideal ρ c = V := by
    rw [this.2]
    apply Nat.eq_of_testBit_eq; intro j
    rw [hV j, catVal_bits ρ g bits 0 (by intro i hi; simpa using (hb i hi).2.2) j]
    simp
  split
  · exact ⟨(Plain_setSf _ _).mpr this.1, by rw [ideal_setSf]; exact hval⟩
  · exact ⟨this.1, hval⟩

/-- the `bitslice` rule for `& | ^` with a constant: bit `i` of the result list is bit `i` of the meaning -/
theorem bitslice_logic_bits (o : Op) (ho : o = Op.and ∨ o = Op.or ∨ o = Op.xor) (l : Expr) (rv rs : Nat) (rf : Bool)
    (size w : Nat) (hl : WF l) (hq : Plain l) (hr : WF (.cst rv rs rf)) (bits : List Expr)
    (h : (pyRange 0 size).mapM (fun i => do
            let a ← getitem cfg fuel l i (i + 1)
            let b ← getitem cfg fuel (.cst rv rs rf) i (i + 1)
            callOp cfg fuel o a b) = .ok bits) :
    bits.length = size ∧ BitsOK ρ (fun i => (binSem o false w (ideal ρ l) rv).testBit i) bits := by
  have wih := widthIH_all cfg fuel
  obtain ⟨h1, h2⟩ := mapM_get _ _ _ h
  have hlen : bits.length = size := by rw [h1, length_pyRange]; simp
  refine ⟨hlen, ?_⟩
  intro i hi
  have := h2 i (by rw [← h1]; exact hi) hi
  rw [getElem_pyRange] at this
  simp only [Int.zero_add] at this
  cases ha : getitem cfg fuel l (i : Int) ((i : Int) + 1) with
  | error e => rw [ha] at this; cases this
  | ok a =>
    rw [ha] at this
    simp only [bind, Except.bind] at this
    cases hbb : getitem cfg fuel (cst rv rs rf) (i : Int) ((i : Int) + 1) with
    | error e => rw [hbb] at this; cases this
    | ok b =>
      rw [hbb] at this
      simp only at this
      have w1 := wih.getitem l _ _ hl a ha
      have w2 := wih.getitem _ _ _ hr b hbb
      have v1 := ih.getitem l _ _ hl hq a ha
      have v2 := ih.getitem _ _ _ hr (by simp [Plain]) b hbb
      have hag : agnOp o = true := by rcases ho with rfl | rfl | rfl <;> rfl
      have s1 : a.size = 1 := by rw [w1.2]; omega
      have s2 : b.size = 1 := by rw [w2.2]; omega
      have w3 := wih.callOp o a b w1.1 w2.1 (by intro _; rw [s1, s2]) _ this
      have v3 := ih.callOp o a b w1.1 w2.1 v1.1 v2.1 hag (by intro _; rw [s1, s2]) _ this
      refine ⟨w3.1, v3.1, ?_, ?_⟩
      · rw [w3.2]
        rcases ho with rfl | rfl | rfl <;> simp [resSize, Op.type, s1]
      · rw [v3.2, v1.2, v2.2, ideal_lt_of_WF_cst hr, s1]
        have e1 : (i : Int).toNat = i := by omega
        have e2 : ((i : Int) + 1).toNat - i = 1 := by omega
        rw [e1, e2]
        show _ = b2n ((binSem o false w (ideal ρ l) rv).testBit i)
        rw [← bitsOf_one]
        rcases ho with rfl | rfl | rfl <;> simp only [binSem]
        · exact (and_bit _ _ _).symm
        · exact (or_bit _ _ _).symm
        · exact (xor_bit _ _ _).symm

end steps
end Amoco.Rot
