/-
  Helper lemmas for C18: iterblocks grouping, block offsets / slices / cut.
-/
import Amoco.Model.Blocks

namespace Amoco.Blocks

/-- `delayed` flag of the last instruction of a list (false for the empty list) -/
def lastDelayed (p : List Instr) : Bool :=
  match p.getLast? with
  | some y => y.delayed
  | none => false

/-- no instruction of the run closes a block -/
def NoEnd (b : List Instr) : Prop :=
  ∀ p x q, b = p ++ x :: q → endsBlock (lastDelayed p) x = false

/-- a run that closes exactly at its last instruction -/
def ClosedBlock (b : List Instr) : Prop :=
  ∃ p x, b = p ++ [x] ∧ NoEnd p ∧ endsBlock (lastDelayed p) x = true

theorem noEnd_nil : NoEnd [] := by
  intro p x q h
  simp at h

theorem lastDelayed_append_singleton (p : List Instr) (x : Instr) : lastDelayed (p ++ [x]) = x.delayed := by
  simp [lastDelayed]

theorem noEnd_snoc (b : List Instr) (i : Instr) (hb : NoEnd b) (hi : endsBlock (lastDelayed b) i = false) :
    NoEnd (b ++ [i]) := by
  intro p x q h
  rcases List.append_eq_append_iff.mp h with ⟨as, hp, hs⟩ | ⟨bs, hb', hq⟩
  · -- p = b ++ as, [i] = as ++ x :: q
    cases as with
    | nil =>
      simp at hs
      obtain ⟨rfl, rfl⟩ := hs
      simp at hp
      subst hp
      exact hi
    | cons a as' =>
      simp at hs
  · -- b = p ++ bs, x :: q = bs ++ [i]
    cases bs with
    | nil =>
      simp at hq
      obtain ⟨rfl, rfl⟩ := hq
      simp at hb'
      subst hb'
      exact hi
    | cons c bs' =>
      simp at hq
      obtain ⟨rfl, rfl⟩ := hq
      exact hb p x bs' hb'

theorem iterblocksAux_spec (s : List Instr) :
    ∀ (l : List Instr) (ds : Bool), ds = lastDelayed l.reverse → NoEnd l.reverse →
      ∃ closed trailing, iterblocksAux s l ds = closed ++ trailing ∧
        (∀ b ∈ closed, ClosedBlock b) ∧
        (trailing = [] ∨ ∃ t, trailing = [t] ∧ t ≠ [] ∧ NoEnd t) ∧
        (iterblocksAux s l ds).flatten = l.reverse ++ s := by
  induction s with
  | nil =>
    intro l ds _ hne
    unfold iterblocksAux
    by_cases hl : l.isEmpty
    · refine ⟨[], [], ?_, ?_, Or.inl rfl, ?_⟩ <;> simp [hl]
      simpa using hl
    · refine ⟨[], [l.reverse], ?_, ?_, Or.inr ⟨l.reverse, rfl, ?_, hne⟩, ?_⟩ <;> simp [hl]
      simpa using hl
  | cons i rest ih =>
    intro l ds hds hne
    unfold iterblocksAux
    have hrev : (i :: l).reverse = l.reverse ++ [i] := by simp
    by_cases hd : i.delayed
    · simp only [hd, if_true]
      have h1 : true = lastDelayed (i :: l).reverse := by
        rw [hrev, lastDelayed_append_singleton]; exact hd.symm
      have h2 : NoEnd (i :: l).reverse := by
        rw [hrev]; apply noEnd_snoc _ _ hne; simp [endsBlock, hd]
      obtain ⟨c, t, e1, e2, e3, e4⟩ := ih (i :: l) true h1 h2
      refine ⟨c, t, e1, e2, e3, ?_⟩
      rw [e4, hrev]; simp
    · simp only [hd, Bool.false_eq_true, if_false]
      by_cases hc : (i.cf || ds) = true
      · simp only [hc, if_true]
        obtain ⟨c, t, e1, e2, e3, e4⟩ := ih [] false (by simp [lastDelayed]) (by simpa using noEnd_nil)
        refine ⟨(i :: l).reverse :: c, t, ?_, ?_, e3, ?_⟩
        · rw [e1]; simp
        · intro b hb
          rcases List.mem_cons.mp hb with rfl | hb
          · refine ⟨l.reverse, i, hrev, hne, ?_⟩
            simp [endsBlock, hd, ← hds, hc]
          · exact e2 b hb
        · rw [List.flatten_cons, e4]; simp
      · simp only [hc, Bool.false_eq_true, if_false]
        have hds' : ds = false := by
          cases ds <;> simp_all
        have h1 : ds = lastDelayed (i :: l).reverse := by
          rw [hrev, lastDelayed_append_singleton, hds']; simp [hd]
        have h2 : NoEnd (i :: l).reverse := by
          rw [hrev]; apply noEnd_snoc _ _ hne
          simp [endsBlock, hd, ← hds] at hc ⊢
          simp [hc]
        obtain ⟨c, t, e1, e2, e3, e4⟩ := ih (i :: l) ds h1 h2
        refine ⟨c, t, e1, e2, e3, ?_⟩
        rw [e4, hrev]; simp


/-! ## block: length, raw, offsets -/

@[simp] theorem blen_nil : blen [] = 0 := rfl
@[simp] theorem blen_cons (i : Instr) (b : Block) : blen (i :: b) = i.length + blen b := by
  simp [blen]
theorem blen_append (a b : Block) : blen (a ++ b) = blen a + blen b := by
  induction a with
  | nil => simp
  | cons i a ih => simp [ih]; omega

@[simp] theorem raw_nil : raw [] = [] := rfl
@[simp] theorem raw_cons (i : Instr) (b : Block) : raw (i :: b) = i.bytes ++ raw b := by
  simp [raw]
theorem raw_append (a b : Block) : raw (a ++ b) = raw a ++ raw b := by
  simp [raw]

theorem raw_length (b : Block) : (raw b).length = blen b := by
  induction b with
  | nil => rfl
  | cons i b ih => simp [ih, Instr.length]

theorem blen_take_add_drop (b : Block) (k : Nat) : blen (b.take k) + blen (b.drop k) = blen b := by
  rw [← blen_append, List.take_append_drop]

theorem raw_take (b : Block) (k : Nat) : raw (b.take k) = (raw b).take (blen (b.take k)) := by
  have h : raw b = raw (b.take k) ++ raw (b.drop k) := by
    rw [← raw_append, List.take_append_drop]
  rw [h, ← raw_length, List.take_left']
  rfl

theorem offsets_length (b : Block) (o : Nat) : (offsets b o).length = b.length + 1 := by
  induction b generalizing o with
  | nil => rfl
  | cons i b ih => simp [offsets, ih]

theorem offsets_getElem (b : Block) (o k : Nat) (h : k < (offsets b o).length) :
    (offsets b o)[k] = o + blen (b.take k) := by
  induction b generalizing o k with
  | nil =>
    simp [offsets] at h ⊢
  | cons i b ih =>
    cases k with
    | zero => simp [offsets]
    | succ k =>
      simp only [offsets, List.getElem_cons_succ, List.take_succ_cons, blen_cons]
      rw [ih]; omega

/-- `pos.index(a) = i` means the first `i` instructions are `a` bytes long -/
theorem offsets_idxOf (b : Block) (a i : Nat) (h : (offsets b 0).idxOf? a = some i) :
    i ≤ b.length ∧ blen (b.take i) = a := by
  rw [List.idxOf?_eq_some_iff] at h
  obtain ⟨hi, he, _⟩ := h
  rw [offsets_getElem] at he
  rw [offsets_length] at hi
  constructor <;> omega

/-! ## Consecutive runs -/

theorem consecutive_tail {x : Instr} {r : List Instr} (h : Consecutive (x :: r)) : Consecutive r := by
  cases r with
  | nil => trivial
  | cons y r => exact h.2

theorem consecutive_append_left : ∀ {a b : List Instr}, Consecutive (a ++ b) → Consecutive a
  | [], _, _ => trivial
  | [_], _, _ => trivial
  | x :: y :: r, b, h => by
    have h' : Consecutive (x :: y :: (r ++ b)) := h
    exact ⟨h'.1, consecutive_append_left (a := y :: r) (b := b) h'.2⟩

theorem consecutive_append_right : ∀ {a b : List Instr}, Consecutive (a ++ b) → Consecutive b
  | [], _, h => h
  | _ :: r, _, h => consecutive_append_right (a := r) (consecutive_tail h)

/-- in a consecutive run the instruction after a prefix `p ≠ []` starts at `head + blen p` -/
theorem consecutive_addr : ∀ (p : List Instr) (x : Instr) (q : List Instr) (a : Instr),
    Consecutive (a :: (p ++ x :: q)) → x.addr = a.addr + blen (a :: p)
  | [], x, q, a, h => by
    have := h.1
    simp; omega
  | y :: p, x, q, a, h => by
    have h1 := h.1
    have := consecutive_addr p x q y h.2
    simp at this ⊢
    omega

/-- end of a consecutive run: last address + last length = head address + block length -/
theorem consecutive_end (a : Instr) (p : List Instr) (x : Instr) (h : Consecutive (a :: (p ++ [x]))) :
    x.addr + x.length = a.addr + blen (a :: (p ++ [x])) := by
  have := consecutive_addr p x [] a h
  simp [blen_append] at this ⊢
  omega


theorem consecutive_addr' (p : List Instr) (x : Instr) (q : List Instr) (a : Nat)
    (h : Consecutive (p ++ x :: q)) (ha : address? (p ++ x :: q) = some a) : x.addr = a + blen p := by
  cases p with
  | nil => simp [address?] at ha; simp [ha]
  | cons a0 p' =>
    simp [address?] at ha
    have := consecutive_addr p' x q a0 h
    omega

theorem consecutive_take (b : List Instr) (k : Nat) (h : Consecutive b) : Consecutive (b.take k) := by
  rw [← List.take_append_drop k b] at h
  exact consecutive_append_left h

theorem consecutive_drop (b : List Instr) (k : Nat) (h : Consecutive b) : Consecutive (b.drop k) := by
  rw [← List.take_append_drop k b] at h
  exact consecutive_append_right h

/-- address of the part of a consecutive block that starts at instruction `i` -/
theorem address_drop (b : List Instr) (i : Nat) (a : Nat) (hi : i < b.length)
    (h : Consecutive b) (ha : address? b = some a) : address? (b.drop i) = some (a + blen (b.take i)) := by
  have hd : b.drop i = b[i] :: b.drop (i + 1) := by
    rw [List.drop_eq_getElem_cons hi]
  have hb : b = b.take i ++ b[i] :: b.drop (i + 1) := by
    rw [← hd, List.take_append_drop]
  have := consecutive_addr' (b.take i) b[i] (b.drop (i + 1)) a (hb ▸ h) (hb ▸ ha)
  have h2 : address? (b.drop i) = some b[i].addr := by rw [hd]; rfl
  rw [h2, this]

theorem address_take (b : List Instr) (j : Nat) (hj : 0 < j) : address? (b.take j) = address? b := by
  cases b with
  | nil => simp
  | cons x r =>
    cases j with
    | zero => omega
    | succ j => simp [address?]

theorem raw_drop_take (b : Block) (i j : Nat) (hij : i ≤ j) :
    raw ((b.take j).drop i) = ((raw b).take (blen (b.take j))).drop (blen (b.take i)) := by
  have h1 : raw (b.take j) = (raw b).take (blen (b.take j)) := raw_take b j
  have h2 : b.take i = (b.take j).take i := by
    rw [List.take_take]; congr; omega
  have h3 : raw (b.take j) = raw ((b.take j).take i) ++ raw ((b.take j).drop i) := by
    rw [← raw_append, List.take_append_drop]
  rw [← h1, h3, h2, ← raw_length, List.drop_left']
  rfl

theorem getitem_spec (b b' : Block) (sta sto : Option Int) (h : getitem b sta sto = some b') :
    ∃ i j, i < j ∧ j ≤ b.length ∧ b' = (b.take j).drop i ∧
      blen (b.take i) = sliceBound sta 0 (blen b) ∧
      blen (b.take j) = sliceBound sto (blen b) (blen b) := by
  unfold getitem at h
  simp only at h
  split at h
  · rename_i ista isto h1 h2
    have ⟨hi1, hi2⟩ := offsets_idxOf b _ _ h1
    have ⟨hj1, hj2⟩ := offsets_idxOf b _ _ h2
    split at h
    · cases h
    · rename_i hne
      injection h with h
      refine ⟨ista, isto, ?_, hj1, h.symm, hi2, hj2⟩
      apply Nat.lt_of_not_le
      intro hle
      apply hne
      simp
      omega
  · cases h

theorem cut_spec_none (b : Block) (addr : Nat) (h : (cut b addr).2 = 0) :
    (cut b addr).1 = b ∧ ∀ x ∈ b, x.addr ≠ addr := by
  unfold cut at h ⊢
  split
  · rename_i hn
    rw [List.idxOf?_eq_none_iff] at hn
    refine ⟨rfl, ?_⟩
    intro x hx hxa
    apply hn
    simp
    exact ⟨x, hx, hxa⟩
  · rename_i pos hp
    rw [hp] at h
    rw [List.idxOf?_eq_some_iff] at hp
    obtain ⟨hlt, _, _⟩ := hp
    simp at hlt h
    omega

theorem cut_spec_some (b : Block) (addr : Nat) (h : (cut b addr).2 ≠ 0) :
    ∃ x rem, b = (cut b addr).1 ++ x :: rem ∧ x.addr = addr ∧ (cut b addr).2 = rem.length + 1 ∧
      (∀ y ∈ (cut b addr).1, y.addr ≠ addr) ∧ (cut b addr).1 = b.take (b.length - (cut b addr).2) := by
  unfold cut at h ⊢
  split
  · rename_i hn
    simp [hn] at h
  · rename_i pos hp
    rw [List.idxOf?_eq_some_iff] at hp
    obtain ⟨hlt, he, hmin⟩ := hp
    simp at hlt he
    refine ⟨b[pos], b.drop (pos + 1), ?_, he, ?_, ?_, ?_⟩
    · simp
    · simp; omega
    · intro y hy
      simp only at hy
      obtain ⟨k, hk, rfl⟩ := List.getElem_of_mem hy
      have hk' : k < pos := by simp at hk; omega
      have := hmin k hk'
      simpa using this
    · simp only
      congr
      omega

end Amoco.Blocks
