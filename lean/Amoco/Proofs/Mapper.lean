/-
  Amoco.Proofs.Mapper — helper lemmas for the mapper properties (C02, C09):
    Bytes   little-endian assembly, readN / writeN / byteAt, wrap
    Expr    meaning and size of the expression constructors
    Zones   `_Mem_read` / `_Mem_write` against the C08 byte-store theorems
    Trace   pointer items as a history of writes (`lastAddr`, `lastZ`)
    Alias   what `aliasing(k)` establishes; sub-accesses
    Inv     the invariant and the soundness of `M`
    Steps   `__setitem__`, register branch
    Store   `__setitem__`, pointer branch
    Rebuild `use()`
    Exec    substitution lemma, one statement, whole programs
-/
import Amoco.Proofs.Mapper.Compose

set_option linter.unusedSimpArgs false
set_option linter.unusedVariables false

namespace Amoco.Mapper

/-- all accesses of a program as the symbolic run sees them (symbolic base, displacement, length) -/
def accessesOf (cfg : Cfg) (P : Prog) : List Access := progAccesses cfg P.be MapSt.empty P.stmts

/-- the final step shared by the property theorems: the invariant of the final map is the statement -/
theorem agrees_of_inv {c : Ctx} {μt ρt} {m : MapSt} (h : Inv c μt ρt m) :
    (applyMap c.sem c.σ m).agrees ⟨ρt, μt⟩ := by
  constructor
  · intro n s
    simp only [applyMap]
    rw [h.regs n s, Nat.mod_mod]
  · intro x
    exact h.mem x

theorem prog_inv (c : Ctx) (P : Prog) (hbe : c.be0 = P.be) (hwf : P.wf = true)
    (ok : P.regsOnly = true ∨ c.OK) (hacc : ∀ a ∈ accessesOf c.cfg P, a ∈ c.acc) :
    Inv c (concExec c.sem P c.σ).mem (concExec c.sem P c.σ).reg (symExec c.cfg P) := by
  have hw : ∀ s ∈ P.stmts, s.wf = true := by
    intro s hs
    simp only [Prog.wf, List.all_eq_true] at hwf
    exact hwf s hs
  have hro : (∀ s ∈ P.stmts, s.regsOnly = true) ∨ c.OK := by
    rcases ok with h | h
    · left; intro s hs
      simp only [Prog.regsOnly, List.all_eq_true] at h
      exact h s hs
    · right; exact h
  have := Inv.prog P.stmts MapSt.empty c.σ.mem c.σ.reg (Inv.init c) hro hw (by
    unfold accessesOf at hacc; rw [hbe]; exact hacc)
  rw [hbe] at this
  exact this

theorem prog_sound (c : Ctx) (P : Prog) (hbe : c.be0 = P.be) (hwf : P.wf = true)
    (ok : P.regsOnly = true ∨ c.OK) (hacc : ∀ a ∈ accessesOf c.cfg P, a ∈ c.acc) :
    (applyMap c.sem c.σ (symExec c.cfg P)).agrees (concExec c.sem P c.σ) :=
  agrees_of_inv (prog_inv c P hbe hwf ok hacc)

/-! ### programs whose addresses are constants -/

theorem loadsOf_conc (cfg : Cfg) (m : MapSt) (be : Bool) :
    ∀ (x : X), x.concOnly = true → ∀ a ∈ loadsOf cfg m (x.toE be), ∃ v s, a.base = .cst v s
  | .cst _ _, _, a, ha => by simp [X.toE, loadsOf] at ha
  | .reg _ _, _, a, ha => by simp [X.toE, loadsOf] at ha
  | .slc x _ _, h, a, ha => loadsOf_conc cfg m be x (by simpa [X.concOnly] using h) a (by simpa [X.toE, loadsOf] using ha)
  | .cat lo hi, h, a, ha => by
    simp only [X.concOnly, Bool.and_eq_true] at h
    simp only [X.toE, loadsOf, List.mem_append] at ha
    rcases ha with ha | ha
    · exact loadsOf_conc cfg m be lo h.1 a ha
    · exact loadsOf_conc cfg m be hi h.2 a ha
  | .addc x _, h, a, ha => loadsOf_conc cfg m be x (by simpa [X.concOnly] using h) a (by simpa [X.toE, loadsOf] using ha)
  | .op _ l r _, h, a, ha => by
    simp only [X.concOnly, Bool.and_eq_true] at h
    simp only [X.toE, loadsOf, List.mem_append] at ha
    rcases ha with ha | ha
    · exact loadsOf_conc cfg m be l h.1 a ha
    · exact loadsOf_conc cfg m be r h.2 a ha
  | .load b d s, h, a, ha => by
    cases b with
    | cst v sz =>
      simp only [X.toE, loadsOf, loadsOfMods, eval, mkPtr, List.append_nil, List.nil_append,
        List.mem_singleton] at ha
      subst ha
      exact ⟨v, sz, rfl⟩
    | reg _ _ => simp [X.concOnly] at h
    | slc _ _ _ => simp [X.concOnly] at h
    | cat _ _ => simp [X.concOnly] at h
    | addc _ _ => simp [X.concOnly] at h
    | op _ _ _ _ => simp [X.concOnly] at h
    | load _ _ _ => simp [X.concOnly] at h

theorem progAccesses_conc (cfg : Cfg) (be : Bool) : ∀ (stmts : List Stmt) (m : MapSt),
    (∀ s ∈ stmts, s.concOnly = true) → ∀ a ∈ progAccesses cfg be m stmts, ∃ v s, a.base = .cst v s
  | [], _, _, a, ha => by simp [progAccesses] at ha
  | st :: rest, m, h, a, ha => by
    simp only [progAccesses, List.mem_append] at ha
    rcases ha with ha | ha
    · have hst := h st List.mem_cons_self
      cases st with
      | set n rs pos size e =>
        exact loadsOf_conc cfg m be e (by simpa [Stmt.concOnly] using hst) a (by simpa [stmtAccesses] using ha)
      | store b d size e =>
        simp only [Stmt.concOnly, Bool.and_eq_true] at hst
        cases b with
        | cst v sz =>
          simp only [stmtAccesses, X.toE, loadsOf, eval, mkPtr, List.append_nil, List.mem_append,
            List.mem_singleton] at ha
          rcases ha with ha | ha
          · exact loadsOf_conc cfg m be e hst.1 a ha
          · subst ha; exact ⟨v, sz, rfl⟩
        | reg _ _ => simp at hst
        | slc _ _ _ => simp at hst
        | cat _ _ => simp at hst
        | addc _ _ => simp at hst
        | op _ _ _ _ => simp at hst
        | load _ _ _ => simp at hst
    · exact progAccesses_conc cfg be rest _ (fun s hs => h s (List.mem_cons_of_mem _ hs)) a ha

end Amoco.Mapper
