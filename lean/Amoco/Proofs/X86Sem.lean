/-
  Amoco.Proofs.X86Sem — helper lemmas for C06 (x86 half): the helper models of Amoco/Model/Flags.lean in
  the form the reference semantics of Amoco/Model/X86Sem.lean uses.  The carry / overflow / half-carry /
  parity facts themselves are the lemmas of Amoco/Proofs/Rv.lean (`awc_carry`, `awc_overflow`,
  `swb_carry`, `swb_overflow`, `halfcarry_eq`, `halfborrow_eq`, `parity8_even`).
-/
import Amoco.Model.X86Sem
import Amoco.Proofs.Rv

namespace Amoco.X86Sem
open Amoco.Flags

/-- `c.zeroextend(size)` of a one-bit carry is the number 0 or 1 -/
theorem cin_eq (n : Nat) (c : Bool) : cin n c = BitVec.ofNat n c.toNat := by
  cases c
  · simp [cin]
  · apply BitVec.eq_of_toNat_eq; simp [cin]

theorem awc_res_eq {n} (x y : BitVec n) (c : Bool) :
    (addWithCarry x y c).res = x + y + BitVec.ofNat n c.toNat := by
  simp [addWithCarry, cin_eq]

theorem swb_res_eq {n} (x y : BitVec n) (c : Bool) :
    (subWithBorrow x y c).res = x - y - BitVec.ofNat n c.toNat := by
  simp [subWithBorrow, cin_eq]

theorem par8_eq (x : BitVec 8) : parity8 x = evenParity x := parity8_even x

/-- every mnemonic is in `allMn` -/
theorem mem_allMn (m : Mn) : m ∈ allMn := by cases m <;> decide

/-- the reference CF/OF of ADD and SUB are core Lean's overflow predicates on bit-vectors -/
theorem refAdd_cf_core {w} (a b : BitVec w) :
    (refAdd a b false).cf = .set (BitVec.uaddOverflow a b) := by
  simp [refAdd, BitVec.uaddOverflow]

theorem refAdd_of_core {w} (a b : BitVec w) :
    (refAdd a b false).of = .set (BitVec.saddOverflow a b) := by
  have h : ((2 ^ (w - 1) : Nat) : Int) = (2 : Int) ^ (w - 1) := by norm_cast
  simp only [refAdd, sovf, BitVec.saddOverflow, Bool.toNat_false, Eff.set.injEq, h]
  rw [Bool.eq_iff_iff]
  simp only [decide_eq_true_eq, Bool.or_eq_true, ge_iff_le]
  generalize (2 : Int) ^ (w - 1) = P
  omega

theorem refSub_cf_core {w} (a b : BitVec w) :
    (refSub a b false).cf = .set (BitVec.usubOverflow a b) := by
  simp [refSub, BitVec.usubOverflow]

theorem refSub_of_core {w} (a b : BitVec w) :
    (refSub a b false).of = .set (BitVec.ssubOverflow a b) := by
  have h : ((2 ^ (w - 1) : Nat) : Int) = (2 : Int) ^ (w - 1) := by norm_cast
  simp only [refSub, sovf, BitVec.ssubOverflow, Bool.toNat_false, Eff.set.injEq, h]
  rw [Bool.eq_iff_iff]
  simp only [decide_eq_true_eq, Bool.or_eq_true, ge_iff_le]
  generalize (2 : Int) ^ (w - 1) = P
  omega

end Amoco.X86Sem
