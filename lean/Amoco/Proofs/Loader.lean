/-
  Amoco.Proofs.Loader — helper lemmas for C15 (page arithmetic, `fileRead`/`ljust` indexing,
  the bytes of `segBytes`, single writes as byte maps, `lastWrite` over concatenated write lists).
-/
import Amoco.Model.Loader
import Amoco.Proofs.Memory

set_option linter.unusedVariables false   -- hypotheses named for `omega`

namespace Amoco.Loader

open Amoco.Memory

/-! ## page arithmetic -/

theorem pageOffset_le (ps v : Nat) : pageOffset ps v ≤ v := Nat.and_le_left

theorem pageOffset_le_mask (ps v : Nat) : pageOffset ps v ≤ ps - 1 := Nat.and_le_right

theorem pageStart_add_pageOffset (ps v : Nat) : pageStart ps v + pageOffset ps v = v := by
  unfold pageStart pageOffset
  have := @Nat.and_le_left v (ps - 1)
  omega

theorem pageStart_le (ps v : Nat) : pageStart ps v ≤ v := by
  have := pageStart_add_pageOffset ps v; omega

theorem le_pageAlign (ps v : Nat) (h : 0 < ps) : v ≤ pageAlign ps v := by
  unfold pageAlign
  have h1 := pageStart_add_pageOffset ps (v + ps - 1)
  have h2 := pageOffset_le_mask ps (v + ps - 1)
  omega

/-- for a power of two the mask arithmetic is the usual modular one. -/
theorem pageOffset_pow2 (k v : Nat) : pageOffset (2 ^ k) v = v % 2 ^ k := by
  unfold pageOffset
  exact Nat.and_two_pow_sub_one_eq_mod v k

theorem pageStart_pow2 (k v : Nat) : pageStart (2 ^ k) v = v / 2 ^ k * 2 ^ k := by
  have h := pageStart_add_pageOffset (2 ^ k) v
  rw [pageOffset_pow2] at h
  have := Nat.div_add_mod v (2 ^ k)
  have e : 2 ^ k * (v / 2 ^ k) = v / 2 ^ k * 2 ^ k := Nat.mul_comm _ _
  omega

/-! ## list indexing -/

theorem fileRead_getElem? (file : Bytes) (off n k : Nat) (hk : k < n) :
    (fileRead file off n)[k]? = file[off + k]? := by
  unfold fileRead
  rw [List.getElem?_take_of_lt hk, List.getElem?_drop]

theorem fileRead_length (file : Bytes) (off n : Nat) : (fileRead file off n).length = min n (file.length - off) := by
  unfold fileRead
  rw [List.length_take, List.length_drop]

theorem ljust_getElem?_lt (bs : Bytes) (n f k : Nat) (h : k < bs.length) : (ljust bs n f)[k]? = bs[k]? := by
  unfold ljust
  rw [List.getElem?_append_left h]

theorem ljust_getElem?_ge (bs : Bytes) (n f k : Nat) (h1 : bs.length ≤ k) (h2 : k < n) :
    (ljust bs n f)[k]? = some f := by
  unfold ljust
  rw [List.getElem?_append_right h1, List.getElem?_replicate]
  have : k - bs.length < n - bs.length := by omega
  simp [this]

theorem ljust_length (bs : Bytes) (n f : Nat) : (ljust bs n f).length = max bs.length n := by
  unfold ljust
  rw [List.length_append, List.length_replicate]
  omega

/-! ## the bytes of a segment (repaired `Elf.loadsegment`) -/

/-- head slack and file-backed part: byte `k < PAGEOFFSET(vaddr) + filesz` of the written block is file
    byte `offset - PAGEOFFSET(vaddr) + k`. -/
theorem segBytes_file (file : Bytes) (ps : Nat) (s : Phdr) (k : Nat) (hps : 0 < ps)
    (hpo : pageOffset ps s.vaddr ≤ s.offset) (hin : s.offset + s.filesz ≤ file.length)
    (hk : k < pageOffset ps s.vaddr + s.filesz) :
    (segBytes .repaired file ps s)[k]? = file[s.offset - pageOffset ps s.vaddr + k]? ∧
    s.offset - pageOffset ps s.vaddr + k < file.length := by
  have hsz : s.filesz + pageOffset ps s.vaddr ≤ pageAlign ps (s.filesz + pageOffset ps s.vaddr) := le_pageAlign _ _ hps
  have hk2 : k < pageAlign ps (s.filesz + pageOffset ps s.vaddr) := by omega
  refine ⟨?_, by omega⟩
  unfold segBytes
  simp only
  split
  · rename_i hm
    have hl : k < ((fileRead file (s.offset - pageOffset ps s.vaddr) (pageAlign ps (s.filesz + pageOffset ps s.vaddr))).take
        (pageOffset ps s.vaddr + s.filesz)).length := by
      rw [List.length_take, fileRead_length]; omega
    rw [ljust_getElem?_lt _ _ _ _ hl, List.getElem?_take_of_lt hk, fileRead_getElem? _ _ _ _ hk2]
  · rw [fileRead_getElem? _ _ _ _ hk2]

/-- zero-filled part: bytes `PAGEOFFSET + filesz ≤ k < PAGEOFFSET + memsz` of the written block are 0. -/
theorem segBytes_zero (file : Bytes) (ps : Nat) (s : Phdr) (k : Nat) (hps : 0 < ps)
    (hpo : pageOffset ps s.vaddr ≤ s.offset) (hin : s.offset + s.filesz ≤ file.length)
    (hk1 : pageOffset ps s.vaddr + s.filesz ≤ k) (hk2 : k < pageOffset ps s.vaddr + s.memsz) :
    (segBytes .repaired file ps s)[k]? = some 0 := by
  have hm : s.memsz > s.filesz := by omega
  have hsz : s.filesz + pageOffset ps s.vaddr ≤ pageAlign ps (s.filesz + pageOffset ps s.vaddr) := le_pageAlign _ _ hps
  have hal : pageOffset ps s.vaddr + s.memsz ≤ pageAlign ps (pageOffset ps s.vaddr + s.memsz) := le_pageAlign _ _ hps
  unfold segBytes
  simp only [hm, if_true]
  apply ljust_getElem?_ge
  · rw [List.length_take, fileRead_length]; omega
  · omega

theorem segBytes_length_pos (file : Bytes) (ps : Nat) (s : Phdr) (hps : 0 < ps)
    (hpo : pageOffset ps s.vaddr ≤ s.offset) (hin : s.offset + s.filesz ≤ file.length)
    (hfm : s.filesz ≤ s.memsz) (hpos : 0 < s.memsz) : 0 < (segBytes .repaired file ps s).length := by
  by_cases hm : s.memsz > s.filesz
  · have h := segBytes_zero file ps s (pageOffset ps s.vaddr + s.filesz) hps hpo hin (Nat.le_refl _) (by omega)
    cases hl : (segBytes .repaired file ps s) with
    | nil => rw [hl] at h; simp at h
    | cons a t => simp
  · have h := (segBytes_file file ps s (pageOffset ps s.vaddr) hps hpo hin (by omega)).1
    have h2 : s.offset - pageOffset ps s.vaddr + pageOffset ps s.vaddr < file.length := by omega
    cases hl : (segBytes .repaired file ps s) with
    | nil =>
      rw [hl] at h
      rw [List.getElem?_eq_getElem h2] at h
      simp at h
    | cons a t => simp

/-! ## single writes as byte maps -/

theorem absWrite_raw (a q : Nat) (bs : Bytes) :
    absWrite (a : Int) (.raw bs) .little (q : Int) = if a ≤ q then (bs[q - a]?).map ByteDesc.raw else none := by
  unfold absWrite
  by_cases h : a ≤ q
  · have h' : (a : Int) ≤ (q : Int) := by omega
    have e : ((q : Int) - (a : Int)).toNat = q - a := by omega
    simp only [h, h', if_true, Val.memBytes, e, List.getElem?_map]
  · have h' : ¬ (a : Int) ≤ (q : Int) := by omega
    simp only [h, h', if_false]

theorem absWrite_raw_none (a q : Nat) (bs : Bytes) (h : q < a ∨ a + bs.length ≤ q) :
    absWrite (a : Int) (.raw bs) .little (q : Int) = none := by
  rw [absWrite_raw]
  split
  · rename_i hle
    have : bs.length ≤ q - a := by omega
    rw [List.getElem?_eq_none this]; rfl
  · rfl

theorem extVal_memBytes (sym n : Nat) :
    (extVal sym n).memBytes .little = (List.range n).map (fun k => ByteDesc.sym sym k) := rfl

theorem extVal_len (sym n : Nat) : (extVal sym n).len = n := by
  simp [extVal, Val.len]

/-- a slot write puts byte `k` of the symbol at `addr + k` and nothing elsewhere. -/
theorem absWrite_slot (n : Nat) (r : Reloc) (q : Nat) :
    absWrite (slotWrite n r).1 (slotWrite n r).2.1 (slotWrite n r).2.2 (q : Int) =
      if r.1 ≤ q ∧ q < r.1 + n then some (ByteDesc.sym r.2 (q - r.1)) else none := by
  show absWrite (r.1 : Int) (extVal r.2 n) .little (q : Int) = _
  unfold absWrite
  rw [extVal_memBytes]
  by_cases h : r.1 ≤ q
  · have h' : (r.1 : Int) ≤ (q : Int) := by omega
    have e : ((q : Int) - (r.1 : Int)).toNat = q - r.1 := by omega
    simp only [h', if_true, e, List.getElem?_map]
    by_cases h2 : q < r.1 + n
    · have : q - r.1 < n := by omega
      simp [h, h2, List.getElem?_range this]
    · have : ¬ q - r.1 < n := by omega
      have hn : (List.range n)[q - r.1]? = none := by
        apply List.getElem?_eq_none; simp; omega
      simp [h2, hn]
  · have h' : ¬ (r.1 : Int) ≤ (q : Int) := by omega
    simp [h, h']

/-! ## `lastWrite` over concatenations -/

theorem lastWrite_nil (q : Int) : lastWrite [] q = none := rfl

theorem lastWrite_append (ws1 ws2 : List WriteOp) (q : Int) :
    lastWrite (ws1 ++ ws2) q = (lastWrite ws2 q).or (lastWrite ws1 q) := by
  unfold lastWrite
  rw [List.reverse_append, List.findSome?_append]

theorem lastWrite_cons (w : WriteOp) (ws : List WriteOp) (q : Int) :
    lastWrite (w :: ws) q = (lastWrite ws q).or (absWrite w.1 w.2.1 w.2.2 q) := by
  have : w :: ws = [w] ++ ws := rfl
  rw [this, lastWrite_append]
  congr 1
  simp [lastWrite]

theorem lastWrite_none (ws : List WriteOp) (q : Int) (h : ∀ w ∈ ws, absWrite w.1 w.2.1 w.2.2 q = none) :
    lastWrite ws q = none := by
  induction ws with
  | nil => rfl
  | cons w ws ih =>
    rw [lastWrite_cons, ih (fun w' hw' => h w' (List.mem_cons_of_mem _ hw')), h w List.mem_cons_self]
    rfl

/-- if every write either misses `q` or puts `x` there, the composition misses `q` or holds `x`. -/
theorem lastWrite_agree (ws : List WriteOp) (q : Int) (x : ByteDesc)
    (h : ∀ w ∈ ws, absWrite w.1 w.2.1 w.2.2 q = none ∨ absWrite w.1 w.2.1 w.2.2 q = some x) :
    lastWrite ws q = none ∨ lastWrite ws q = some x := by
  induction ws with
  | nil => exact Or.inl rfl
  | cons w ws ih =>
    rw [lastWrite_cons]
    rcases ih (fun w' hw' => h w' (List.mem_cons_of_mem _ hw')) with h1 | h1
    · rw [h1]; exact h w List.mem_cons_self
    · rw [h1]; exact Or.inr rfl

/-- the write at the split point decides when the later writes agree with it or miss. -/
theorem lastWrite_split (pre post : List WriteOp) (w : WriteOp) (q : Int) (x : ByteDesc)
    (hw : absWrite w.1 w.2.1 w.2.2 q = some x)
    (hpost : ∀ v ∈ post, absWrite v.1 v.2.1 v.2.2 q = none ∨ absWrite v.1 v.2.1 v.2.2 q = some x) :
    lastWrite (pre ++ w :: post) q = some x := by
  rw [lastWrite_append, lastWrite_cons]
  rcases lastWrite_agree post q x hpost with h | h
  · rw [h, hw]; rfl
  · rw [h]; rfl

end Amoco.Loader

namespace Amoco.Loader

open Amoco.Memory

/-! ## the first item of a read at a mapped address -/

/-- reading at a mapped address: the first item of the result is a non-empty value taken from the
    object that holds the address (never a bottom, never empty). -/
theorem read_head_mapped (z : Zone) (wf : z.WF) (a : Int) (n : Nat) (hn : 0 < n) (d : ByteDesc)
    (hd : z.abs a = some d) :
    ∃ v en rest, z.read a n = Item.data v en :: rest ∧ 0 < v.len := by
  obtain ⟨wfm, hc⟩ := wf
  have habs : absL z.map a = some d := hd
  unfold Zone.read
  rw [hc]
  unfold readL
  cases hl : locate (starts z.map) a with
  | none =>
    have h1 := locateM_none z.map a wfm hl
    have : absL z.map a = none := absL_none_of z.map a (fun o ho => Or.inl (h1 o ho))
    rw [this] at habs; cases habs
  | some i =>
    obtain ⟨pre, x, post, hm, hlen, hx, hpost⟩ := locateM_some z.map a i wfm hl
    have hz : (z.map.zip (starts z.map)).drop i = (x, x.vaddr) :: zipS post := by
      rw [zip_starts, hm, ← hlen]
      simp [zipS]
    rw [hm] at wfm habs
    obtain ⟨wf1, wf2, h12⟩ := (zoneWF_append pre (x :: post)).mp wfm
    obtain ⟨hxl, hxp, _⟩ := (zoneWF_cons x post).mp wf2
    have hfin : a < x.fin := by
      by_cases hge : a < x.fin
      · exact hge
      · exfalso
        have : absL (pre ++ x :: post) a = none := by
          apply absL_none_of
          intro o ho
          rcases List.mem_append.mp ho with ho | ho
          · right; have := h12 o ho x List.mem_cons_self; omega
          · rcases List.mem_cons.mp ho with ho | ho
            · subst ho; right; omega
            · left; exact hpost o ho
        rw [this] at habs; cases habs
    simp only
    rw [hz, readLoop]
    have hn0 : ¬ n = 0 := by omega
    simp only [hn0, dite_false]
    have hcont : x.contains a = true := (contains_iff x a).mpr ⟨hx, hfin⟩
    have ho : (a - x.vaddr).toNat < x.data.len := by
      have := Mo.fin_eq x
      have hl2 : x.len = x.data.len := rfl
      omega
    obtain ⟨v, hv, hvm⟩ := DD.getpart_spec x.data (a - x.vaddr).toNat n ho
    have hr : x.read a n = (some v, n - v.len) := by
      unfold Mo.read
      rw [hcont, if_pos rfl, hv]
    rw [hr]
    refine ⟨v, x.data.endian, _, rfl, ?_⟩
    have hlen2 : v.len = ((x.data.memBytes.drop (a - x.vaddr).toNat).take n).length := by
      rw [← hvm, Val.memBytes_length]
    rw [hlen2, List.length_take, List.length_drop, DD.memBytes_length]
    omega

end Amoco.Loader
