/-
  Per-field codec lemmas for C16: for every kind of raw field,
  `unpackX … = some (v, sz, m)  →  packX … v = some (canon m (data.drop pos)) ∧ m.length = sz`.
-/
import Amoco.Proofs.Struct.Layout
import Amoco.Proofs.Struct.Leb

namespace Amoco.Struct

/-- what a field-level round trip lemma states -/
def RoundTrip (data : Bytes) (pos : Nat) (r : Val × Nat × Bytes) (packed : Option Bytes) : Prop :=
  packed = some (canon r.2.2 (data.drop pos)) ∧ r.2.2.length = r.2.1

theorem fitBytes_self (bs : Bytes) : fitBytes bs.length bs = bs := by
  simp [fitBytes, zeros]

/-! ### RawField -/

theorem packRaw_unpackRaw {ps : Nat} {t : Letter} {be : Bool} {count : Nat} {data : Bytes} {pos : Nat}
    {r : Val × Nat × Bytes} (h : unpackRaw ps t be count data pos = some r) :
    RoundTrip data pos r (packRaw ps t be count r.1) := by
  unfold unpackRaw at h
  simp only [] at h
  split at h
  · cases h
  · rename_i hptr
    split at h
    · cases h
    · rename_i bs hsl
      obtain ⟨hle, hbs, hlen⟩ := slice_some hsl
      have hcanon := canon_ones_slice hsl
      have hesz := rawSize_pos ps t
      have hP : (t == Letter.P && !ptrMapped ps) = false := by
        cases t <;> simp_all [Letter.isPtr]
      have hesz' : (if (t.isPtr && !ptrMapped ps) = true then 4 else rawSize ps t) = rawSize ps t := by
        simp only [hptr, if_false]
        rfl
      unfold RoundTrip packRaw
      simp only [hP, Bool.false_eq_true, if_false, hesz']
      split at h
      · -- pad
        rename_i henc
        split at h
        · rename_i hc
          injection h with h; subst h
          have hx : rawSize ps t = 1 := by cases t <;> simp_all [Letter.enc, rawSize]
          simp only [henc, hc, if_true, canon_zeros, zeros_length, hx, Nat.one_mul, and_self]
        · cases h
      · -- bytes
        rename_i henc
        injection h with h; subst h
        have hx : rawSize ps t = 1 := by cases t <;> simp_all [Letter.enc, rawSize]
        simp only [henc, hcanon, ones_length, and_true]
        rw [hx, Nat.one_mul] at hlen
        rw [← hlen, fitBytes_self]
      · -- signed
        rename_i henc
        split at h
        · rename_i hc
          injection h with h; subst h
          subst hc
          simp only [Nat.lt_irrefl, if_false, Nat.mul_one] at hlen hcanon ⊢
          simp only [henc, hcanon, ones_length, and_true, if_true]
          have := encInt_decInt be true bs (by omega)
          rw [hlen] at this
          exact this
        · rename_i hc
          injection h with h; subst h
          have hc' : 0 < count := by omega
          simp only [hc', if_true] at hlen hcanon ⊢
          simp only [henc, hcanon, ones_length, and_true, List.length_map, chunks_length, if_true]
          rw [encInts_chunks be true _ hesz _ (chunks_all_length _ _ _ (by omega)),
            chunks_flatten _ _ _ (by omega), ← hlen, List.take_length]
      · -- unsigned
        rename_i henc
        split at h
        · rename_i hc
          injection h with h; subst h
          subst hc
          simp only [Nat.lt_irrefl, if_false, Nat.mul_one] at hlen hcanon ⊢
          simp only [henc, hcanon, ones_length, and_true, if_true]
          have := encInt_decInt be false bs (by omega)
          rw [hlen] at this
          exact this
        · rename_i hc
          injection h with h; subst h
          have hc' : 0 < count := by omega
          simp only [hc', if_true] at hlen hcanon ⊢
          simp only [henc, hcanon, ones_length, and_true, List.length_map, chunks_length, if_true]
          rw [encInts_chunks be false _ hesz _ (chunks_all_length _ _ _ (by omega)),
            chunks_flatten _ _ _ (by omega), ← hlen, List.take_length]

/-! ### VarField -/

theorem varElems_spec (esz : Nat) (hesz : 0 < esz) : ∀ (fuel : Nat) (rem : Bytes) (els : List Bytes),
    varElems esz fuel rem = some els →
      (∀ c ∈ els, c.length = esz) ∧ els.flatten = rem.take (esz * els.length) ∧ esz * els.length ≤ rem.length
  | 0, _, _, h => by simp [varElems] at h
  | fuel + 1, rem, els, h => by
    unfold varElems at h
    split at h
    · cases h
    · rename_i hlen
      have hl : esz ≤ rem.length := by omega
      simp only [] at h
      split at h
      · injection h with h; subst h
        refine ⟨?_, ?_, ?_⟩
        · intro c hc
          simp only [List.mem_singleton] at hc
          subst hc
          rw [List.length_take]; omega
        · simp
        · simpa using hl
      · split at h
        · rename_i r hr
          injection h with h; subst h
          obtain ⟨h1, h2, h3⟩ := varElems_spec esz hesz fuel (rem.drop esz) r hr
          rw [List.length_drop] at h3
          refine ⟨?_, ?_, ?_⟩
          · intro c hc
            simp only [List.mem_cons] at hc
            rcases hc with rfl | hc
            · rw [List.length_take]; omega
            · exact h1 c hc
          · simp only [List.flatten_cons, h2, List.length_cons]
            have : esz * (r.length + 1) = esz + esz * r.length := by ring
            rw [this, List.take_add]
          · simp only [List.length_cons]
            have : esz * (r.length + 1) = esz + esz * r.length := by ring
            omega
        · cases h

theorem packVar_unpackVar {ps : Nat} {t : Letter} {be : Bool} {data : Bytes} {pos : Nat}
    {r : Val × Nat × Bytes} (h : unpackVar ps t be data pos = some r) :
    RoundTrip data pos r (packVar ps t be r.1) := by
  unfold unpackVar at h
  simp only [] at h
  split at h
  · rename_i els hels
    injection h with h; subst h
    have hesz := rawSize_pos ps t
    obtain ⟨h1, h2, h3⟩ := varElems_spec _ hesz _ _ _ hels
    unfold RoundTrip
    simp only [ones_length, and_true, canon_ones _ _ h3, ← h2]
    unfold elemsVal packVar
    by_cases hb : isBytesLetter t = true
    · simp only [hb, if_true]
    · simp only [hb, if_false, Bool.false_eq_true]
      exact encInts_chunks be _ _ hesz els h1
  · cases h

/-! ### CntField -/

theorem cntSize_pos (ct : Letter) : 0 < cntSize ct := by
  cases ct <;> simp [cntSize]

theorem bytesLetter_size {ps : Nat} {t : Letter} (h : isBytesLetter t = true) : rawSize ps t = 1 := by
  cases t <;> simp_all [isBytesLetter, rawSize]

theorem slice_prefix {data : Bytes} {pos a b : Nat} {x y : Bytes}
    (hx : slice data pos a = some x) (hy : slice data pos (a + b) = some y) :
    y = x ++ y.drop a ∧ (y.drop a).length = b := by
  obtain ⟨_, ex, lx⟩ := slice_some hx
  obtain ⟨_, ey, ly⟩ := slice_some hy
  constructor
  · have : y.take a = x := by rw [ey, ex, List.take_take]; congr 1; omega
    rw [← this, List.take_append_drop]
  · rw [List.length_drop]; omega

theorem elems_pack {ps : Nat} {t : Letter} {be : Bool} {cnt : Nat} {body : Bytes}
    (hlen : body.length = rawSize ps t * cnt) :
    packElems ps t be (elemsVal t be (chunks (rawSize ps t) cnt body)) = some body ∧
      valLen (elemsVal t be (chunks (rawSize ps t) cnt body)) = some cnt := by
  have hesz := rawSize_pos ps t
  have hfl : (chunks (rawSize ps t) cnt body).flatten = body := by
    rw [chunks_flatten _ _ _ (by omega), ← hlen, List.take_length]
  unfold elemsVal
  by_cases hb : isBytesLetter t = true
  · have h1 : rawSize ps t = 1 := bytesLetter_size hb
    rw [h1] at hfl
    rw [h1, Nat.one_mul] at hlen
    simp only [hb, if_true, packElems, valLen, h1, hfl, hlen]
    exact ⟨trivial, trivial⟩
  · have hs : (t == Letter.s) = false := by cases t <;> simp_all [isBytesLetter]
    have hc : (t == Letter.c) = false := by cases t <;> simp_all [isBytesLetter]
    simp only [hb, Bool.false_eq_true, if_false, packElems, hs, hc, valLen, List.length_map, chunks_length,
      and_true]
    rw [encInts_chunks be _ _ hesz _ (chunks_all_length _ _ _ (by omega)), hfl]

theorem packCnt_unpackCnt {ps : Nat} {t : Letter} {be : Bool} {ct : Letter} {data : Bytes} {pos : Nat}
    {r : Val × Nat × Bytes} (h : unpackCnt ps t be ct data pos = some r) :
    RoundTrip data pos r (packCnt ps t be ct r.1) := by
  unfold unpackCnt at h
  simp only [] at h
  split at h
  · cases h
  · rename_i cb hcb
    obtain ⟨_, _, hcl⟩ := slice_some hcb
    have henc := encInt_decInt be (ct.enc == Enc.sint) cb (by have := cntSize_pos ct; omega)
    rw [hcl] at henc
    split at h
    · cases h
    · rename_i hneg
      split at h
      · rename_i hz
        injection h with h; subst h
        rw [hz] at henc
        unfold RoundTrip packCnt
        simp only [ones_length, and_true, canon_ones_slice hcb]
        by_cases hb : isBytesLetter t = true
        · simp [hb, valLen, packElems, henc]
        · simp [hb, valLen, packElems, henc]
      · rename_i hnz
        split at h
        · cases h
        · rename_i all hall
          injection h with h; subst h
          obtain ⟨hsplit, hbl⟩ := slice_prefix hcb hall
          obtain ⟨hp, hv⟩ := elems_pack (ps := ps) (t := t) (be := be) hbl
          have hcnt : ((decInt be (ct.enc == Enc.sint) cb).toNat : Int) = decInt be (ct.enc == Enc.sint) cb := by
            omega
          unfold RoundTrip packCnt
          simp only [ones_length, and_true, canon_ones_slice hall, hp, hv, hcnt, henc]
          rw [← hsplit]

/-! ### BindedField -/

theorem charArgs_chunks : ∀ (cnt : Nat) (body : Bytes), cnt ≤ body.length →
    charArgs ((chunks 1 cnt body).map Val.bytes) = some (body.take cnt)
  | 0, _, _ => by simp [chunks, charArgs]
  | cnt + 1, [], h => by simp at h
  | cnt + 1, b :: body, h => by
    have ih := charArgs_chunks cnt body (by simpa using h)
    simp only [chunks, List.map_cons, List.take_succ_cons, List.take_zero, List.drop_succ_cons, List.drop_zero,
      charArgs, ih, Option.map_some]

theorem packBound_unpackBound {ps : Nat} {t : Letter} {be : Bool} {ref : String} {ns : NS} {data : Bytes}
    {pos : Nat} {r : Val × Nat × Bytes} (h : unpackBound ps t be ref ns data pos = some r) :
    RoundTrip data pos r (packBound ps t be r.1) := by
  unfold unpackBound at h
  simp only [] at h
  split at h
  · split at h
    · cases h
    · split at h
      · injection h with h; subst h
        simp [RoundTrip, packBound, packElems, canon]
      · split at h
        · cases h
        · rename_i nb _ _ _ body hbody
          injection h with h; subst h
          obtain ⟨_, _, hbl⟩ := slice_some hbody
          have hesz := rawSize_pos ps t
          unfold RoundTrip packBound
          simp only [ones_length, and_true, canon_ones_slice hbody]
          by_cases hs : (t == Letter.s) = true
          · have : isBytesLetter t = true := by simp [isBytesLetter, hs]
            simp [hs, packElems, this]
          · by_cases hc : (t == Letter.c) = true
            · have h1 : rawSize ps t = 1 := bytesLetter_size (by simp [isBytesLetter, hc])
              rw [h1, Nat.one_mul] at hbl
              simp only [hs, Bool.false_eq_true, if_false, hc, if_true, packElems]
              rw [charArgs_chunks _ _ (by omega), ← hbl, List.take_length]
            · simp only [hs, Bool.false_eq_true, if_false, hc, packElems]
              rw [encInts_chunks be _ _ hesz _ (chunks_all_length _ _ _ (by omega)),
                chunks_flatten _ _ _ (by omega), ← hbl, List.take_length]
  · cases h

/-! ### Leb128Field -/

theorem packLeb_unpackLeb {signed : Bool} {data : Bytes} {pos : Nat} {r : Val × Nat × Bytes}
    (h : unpackLeb signed data pos = some r) (hc : lebCanonAt signed data pos = true) :
    RoundTrip data pos r (packLeb signed r.1) := by
  unfold unpackLeb at h
  split at h
  · rename_i v n hr
    injection h with h; subst h
    unfold lebCanonAt at hc
    rw [hr] at hc
    simp only [] at hc
    unfold RoundTrip packLeb
    simp only [ones_length, and_true]
    cases signed
    · simp only [Bool.false_eq_true, if_false] at hc ⊢
      obtain ⟨hv, hw, hn⟩ := Leb128.readLeb_canonU hr hc
      have hnn : ¬ v < 0 := by rw [hv]; omega
      simp only [hnn, if_false, canon_ones _ _ hn]
      rw [hv]
      simp only [Int.toNat_natCast, hw]
    · simp only [if_true] at hc ⊢
      obtain ⟨hw, hn⟩ := Leb128.readLeb_canonS hr hc
      simp only [canon_ones _ _ hn, hw]
  · cases h

end Amoco.Struct
