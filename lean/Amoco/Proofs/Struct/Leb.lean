/-
  Helper lemmas for the LEB128 round-trip theorems of C16.
-/
import Amoco.Model.Leb128
import Mathlib.Tactic.Ring
import Mathlib.Tactic.Linarith
import Mathlib.Tactic.NormNum

namespace Amoco.Leb128

/-! ### byte-level facts (complete finite tables) -/

theorem byte_and7f : ∀ n, n < 256 → n &&& 0x7F = n % 128 := by decide +kernel
theorem byte_and80 : ∀ n, n < 256 → ((n &&& 0x80 = 0) ↔ n < 128) := by decide +kernel
theorem byte_and40 : ∀ n, n < 128 → ((n &&& 0x40 = 0) ↔ n < 64) := by decide +kernel

theorem toNat_ofNat_lt (n : Nat) (h : n < 256) : (UInt8.ofNat n).toNat = n := by
  simp [UInt8.toNat_ofNat']; omega

theorem or_shift (r x s : Nat) (h : r < 2 ^ s) : r ||| (x <<< s) = r + x * 2 ^ s := by
  rw [Nat.or_comm, ← Nat.shiftLeft_add_eq_or_of_lt h, Nat.shiftLeft_eq, Nat.add_comm]

theorem pow7 (s : Nat) : 2 ^ (s + 7) = 128 * 2 ^ s := by
  rw [Nat.pow_add]; omega

/-! ### one step of the reader on a continuation / final byte -/

theorem readLoop_cont (x : Nat) (hx : x < 128) (bs : List UInt8) (r s c : Nat) (l : UInt8)
    (hr : r < 2 ^ s) :
    readLoop (UInt8.ofNat (x + 128) :: bs) r s c l
      = readLoop bs (r + x * 2 ^ s) (s + 7) (c + 1) (UInt8.ofNat (x + 128)) := by
  have h1 : (UInt8.ofNat (x + 128)).toNat = x + 128 := toNat_ofNat_lt _ (by omega)
  have h2 : (x + 128) &&& 0x7F = x := by rw [byte_and7f _ (by omega)]; omega
  have h3 : ¬ ((x + 128) &&& 0x80 = 0) := by
    rw [byte_and80 _ (by omega)]; omega
  rw [readLoop]
  simp only [h1, h2, h3, if_false, or_shift r x s hr]

theorem readLoop_last (x : Nat) (hx : x < 128) (bs : List UInt8) (r s c : Nat) (l : UInt8)
    (hr : r < 2 ^ s) :
    readLoop (UInt8.ofNat x :: bs) r s c l = ⟨r + x * 2 ^ s, s + 7, c + 1, UInt8.ofNat x⟩ := by
  have h1 : (UInt8.ofNat x).toNat = x := toNat_ofNat_lt _ (by omega)
  have h2 : x &&& 0x7F = x := by rw [byte_and7f _ (by omega)]; omega
  have h3 : x &&& 0x80 = 0 := by rw [byte_and80 _ (by omega)]; omega
  rw [readLoop]
  simp only [h1, h2, h3, if_true, or_shift r x s hr]

theorem step_bound (r x s : Nat) (hr : r < 2 ^ s) (hx : x < 128) : r + x * 2 ^ s < 2 ^ (s + 7) := by
  rw [pow7]
  have : x * 2 ^ s ≤ 127 * 2 ^ s := Nat.mul_le_mul_right _ (by omega)
  omega

/-! ### unsigned: read ∘ write -/

theorem readLoop_writeULoop (v : Nat) : ∀ (_ : v ≠ 0) (rest : List UInt8) (r s c : Nat) (l : UInt8),
    r < 2 ^ s →
    ∃ last : UInt8, last.toNat < 128 ∧
      readLoop (writeULoop v ++ rest) r s c l
        = ⟨r + v * 2 ^ s, s + 7 * (writeULoop v).length, c + (writeULoop v).length, last⟩ := by
  induction v using Nat.strongRecOn with
  | _ v ih =>
    intro hv rest r s c l hr
    rw [writeULoop]
    simp only [hv, dite_false]
    have hx : v % 128 < 128 := Nat.mod_lt _ (by omega)
    by_cases h' : v / 128 = 0
    · -- final byte
      have hw : writeULoop 0 = [] := by rw [writeULoop]; simp
      simp only [h', ne_eq, not_true_eq_false, if_false, hw, List.cons_append, List.nil_append,
        List.length_cons, List.length_nil]
      refine ⟨UInt8.ofNat (v % 128), by rw [toNat_ofNat_lt _ (by omega)]; exact hx, ?_⟩
      rw [readLoop_last _ hx _ _ _ _ _ hr]
      have : v % 128 = v := by omega
      rw [this]
    · simp only [ne_eq, h', not_false_eq_true, if_true, List.cons_append, List.length_cons]
      rw [readLoop_cont _ hx _ _ _ _ _ hr]
      have hlt : v / 128 < v := by omega
      obtain ⟨last, hl, e⟩ := ih (v / 128) hlt h' rest (r + v % 128 * 2 ^ s) (s + 7) (c + 1)
        (UInt8.ofNat (v % 128 + 128)) (step_bound r _ s hr hx)
      refine ⟨last, hl, ?_⟩
      rw [e, pow7]
      have e1 : r + v % 128 * 2 ^ s + v / 128 * (128 * 2 ^ s) = r + v * 2 ^ s := by
        have : v = 128 * (v / 128) + v % 128 := (Nat.div_add_mod v 128).symm
        calc r + v % 128 * 2 ^ s + v / 128 * (128 * 2 ^ s)
            = r + (128 * (v / 128) + v % 128) * 2 ^ s := by
              rw [Nat.add_mul, Nat.mul_comm 128 (v / 128), Nat.mul_assoc]; omega
          _ = r + v * 2 ^ s := by rw [← this]
      rw [e1]
      congr 1 <;> omega

theorem readLeb_drop (signed : Bool) (pre bs : List UInt8) :
    readLeb signed (pre ++ bs) pre.length = readLeb signed bs 0 := by
  unfold readLeb
  simp

theorem writeULoop_ne_nil (v : Nat) (hv : v ≠ 0) : writeULoop v ≠ [] := by
  rw [writeULoop]; simp [hv]

theorem readLeb_writeU (v : Nat) (rest : List UInt8) :
    readLeb false (writeU v ++ rest) 0 = some ((v : Int), (writeU v).length) := by
  unfold writeU
  by_cases hv : v = 0
  · subst hv
    simp only [if_true, List.cons_append, List.nil_append, readLeb, List.drop_zero]
    have := readLoop_last 0 (by omega) rest 0 0 0 0 (by simp)
    simp only [UInt8.ofNat] at this
    simp [readLoop]
  · simp only [hv, if_false]
    obtain ⟨last, _, e⟩ := readLoop_writeULoop v hv rest 0 0 0 0 (by simp)
    unfold readLeb
    simp only [List.drop_zero]
    cases hw : writeULoop v ++ rest with
    | nil =>
      have : writeULoop v = [] := (List.append_eq_nil_iff.mp hw).1
      exact absurd this (writeULoop_ne_nil v hv)
    | cons b bs =>
      rw [hw] at e
      simp only [e]
      simp

/-! ### signed: read ∘ write -/

/-- signed interpretation of the reader's loop output (what `result |= ~0 << shift` produces) -/
def sval (o : LoopOut) : Int :=
  if o.last.toNat &&& 0x40 != 0 then (o.result : Int) - (2 : Int) ^ o.shift else (o.result : Int)

theorem readLoop_writeS (v : Int) : ∀ (rest : List UInt8) (r s c : Nat) (l : UInt8),
    r < 2 ^ s →
    sval (readLoop (writeS v ++ rest) r s c l) = (r : Int) + v * (2 : Int) ^ s ∧
      (readLoop (writeS v ++ rest) r s c l).count = c + (writeS v).length := by
  induction v using writeS.induct with
  | case1 v x v' hstop =>
    intro rest r s c l hr
    simp only [x, v'] at hstop
    have hx : (v % 128).toNat < 128 := by omega
    have hp : ((2 : Int) ^ (s + 7)) = 128 * (2 : Int) ^ s := by
      rw [Int.pow_add]; norm_num; ring
    have hxe : (((v % 128).toNat : Nat) : Int) = v % 128 := by omega
    rw [writeS]
    simp only [hstop, if_true, List.cons_append, List.nil_append, List.length_cons, List.length_nil]
    rw [readLoop_last _ hx _ _ _ _ _ hr]
    refine ⟨?_, by simp⟩
    simp only [sval, toNat_ofNat_lt _ (show (v % 128).toNat < 256 by omega)]
    rcases hstop with ⟨h0, hb⟩ | ⟨h1, hb⟩
    · have hc : ((v % 128).toNat &&& 0x40 != 0) = false := by simp [hb]
      rw [hc]
      have hvx : v % 128 = v := by omega
      simp only [Bool.false_eq_true, if_false]
      push_cast
      rw [hxe, hvx]
    · have hc : ((v % 128).toNat &&& 0x40 != 0) = true := by simp [hb]
      rw [hc]
      have hvx : v % 128 = v + 128 := by omega
      simp only [if_true]
      push_cast
      rw [hxe, hp, hvx]
      ring
  | case2 v x v' hcont ih =>
    intro rest r s c l hr
    simp only [x, v'] at hcont ih
    have hx : (v % 128).toNat < 128 := by omega
    have hp : ((2 : Int) ^ (s + 7)) = 128 * (2 : Int) ^ s := by
      rw [Int.pow_add]; norm_num; ring
    have hxe : (((v % 128).toNat : Nat) : Int) = v % 128 := by omega
    have hv : v % 128 = v - 128 * (v / 128) := by omega
    rw [writeS]
    simp only [hcont, if_false, List.cons_append, List.length_cons]
    rw [readLoop_cont _ hx _ _ _ _ _ hr]
    obtain ⟨e1, e2⟩ := ih rest (r + (v % 128).toNat * 2 ^ s) (s + 7) (c + 1)
      (UInt8.ofNat ((v % 128).toNat + 128)) (step_bound r _ s hr hx)
    refine ⟨?_, by rw [e2]; omega⟩
    rw [e1]
    push_cast
    rw [hxe, hp, hv]
    ring

theorem writeS_ne_nil (v : Int) : writeS v ≠ [] := by
  rw [writeS]; split <;> simp

theorem readLeb_writeS (v : Int) (rest : List UInt8) :
    readLeb true (writeS v ++ rest) 0 = some (v, (writeS v).length) := by
  obtain ⟨h1, h2⟩ := readLoop_writeS v rest 0 0 0 0 (by simp)
  unfold readLeb
  simp only [List.drop_zero]
  cases hw : writeS v ++ rest with
  | nil => exact absurd (List.append_eq_nil_iff.mp hw).1 (writeS_ne_nil v)
  | cons b bs =>
    rw [hw] at h1 h2
    simp only [sval] at h1
    simp only [Bool.true_and]
    split
    · rename_i hc
      rw [if_pos hc] at h1
      simp only [h1, h2]; simp
    · rename_i hc
      rw [if_neg hc] at h1
      simp only [h1, h2]; simp

/-! ### canonical encodings: write ∘ read -/

def uval : List UInt8 → Nat
  | [] => 0
  | b :: bs => b.toNat % 128 + 128 * uval bs

def ssval : List UInt8 → Int
  | [] => 0
  | [b] => if b.toNat &&& 0x40 != 0 then (b.toNat : Int) - 128 else (b.toNat : Int)
  | b :: b2 :: bs => ((b.toNat : Int) - 128) + 128 * ssval (b2 :: bs)

theorem ofNat_toNat_sub (b : UInt8) (h : 128 ≤ b.toNat) : UInt8.ofNat (b.toNat % 128 + 128) = b := by
  have : b.toNat % 128 + 128 = b.toNat := by have := b.toNat_lt; omega
  rw [this]; simp

theorem uval_pos : ∀ bs, canonULoop bs = true → 0 < uval bs
  | [], h => by simp [canonULoop] at h
  | [b], h => by
    simp only [canonULoop, decide_eq_true_eq] at h
    simp only [uval]; omega
  | b :: b2 :: bs, h => by
    simp only [canonULoop, Bool.and_eq_true] at h
    have := uval_pos (b2 :: bs) h.2
    simp only [uval] at this ⊢; omega

theorem writeULoop_uval : ∀ bs, canonULoop bs = true → writeULoop (uval bs) = bs
  | [], h => by simp [canonULoop] at h
  | [b], h => by
    simp only [canonULoop, decide_eq_true_eq] at h
    have hv : uval [b] = b.toNat := by simp only [uval]; omega
    rw [hv, writeULoop]
    have h0 : ¬ b.toNat = 0 := by omega
    have h1 : b.toNat / 128 = 0 := by omega
    have h2 : b.toNat % 128 = b.toNat := by omega
    have h3 : writeULoop 0 = [] := by rw [writeULoop]; simp
    simp [h0, h1, h2, h3]
  | b :: b2 :: bs, h => by
    simp only [canonULoop, Bool.and_eq_true, decide_eq_true_eq] at h
    have ih := writeULoop_uval (b2 :: bs) h.2
    have hp := uval_pos (b2 :: bs) h.2
    have hx : b.toNat % 128 < 128 := Nat.mod_lt _ (by omega)
    rw [writeULoop]
    have e0 : ¬ uval (b :: b2 :: bs) = 0 := by simp only [uval] at hp ⊢; omega
    have e1 : uval (b :: b2 :: bs) / 128 = uval (b2 :: bs) := by
      simp only [uval]; omega
    have e2 : uval (b :: b2 :: bs) % 128 = b.toNat % 128 := by
      simp only [uval]; omega
    have e3 : uval (b2 :: bs) ≠ 0 := by omega
    simp only [e0, dite_false, e1, e2, ne_eq, e3, not_false_eq_true, if_true, ih,
      ofNat_toNat_sub b h.1]

theorem writeU_uval (bs : List UInt8) (h : canonU bs = true) : writeU (uval bs) = bs := by
  unfold canonU at h
  simp only [Bool.or_eq_true, beq_iff_eq] at h
  rcases h with h | h
  · subst h; simp [uval, writeU]
  · have := uval_pos bs h
    unfold writeU
    simp only [show ¬ uval bs = 0 by omega, if_false]
    exact writeULoop_uval bs h

theorem ssval_small : ∀ bs, canonS bs = true →
    (ssval bs = 0 → bs = [0]) ∧ (ssval bs = -1 → bs = [0x7F])
  | [], h => by simp [canonS] at h
  | [b], h => by
    simp only [canonS, decide_eq_true_eq] at h
    have h40 := byte_and40 b.toNat h
    simp only [ssval]
    constructor
    · intro e
      split at e
      · omega
      · have : b.toNat = 0 := by omega
        have : b = 0 := by apply UInt8.toNat_inj.mp; simpa using this
        rw [this]
    · intro e
      split at e
      · have : b.toNat = 127 := by omega
        have : b = 0x7F := by apply UInt8.toNat_inj.mp; simpa using this
        rw [this]
      · omega
  | b :: b2 :: bs, h => by
    simp only [canonS, Bool.and_eq_true, decide_eq_true_eq] at h
    obtain ⟨⟨hb, hc⟩, hr⟩ := h
    have ih := ssval_small (b2 :: bs) hc
    have hlt := b.toNat_lt
    simp only [ssval]
    constructor
    · intro e
      have e1 : b.toNat = 128 := by omega
      have e2 : ssval (b2 :: bs) = 0 := by omega
      have e3 := ih.1 e2
      injection e3 with e4 e5
      subst e5
      simp [e1, e4] at hr
    · intro e
      have e1 : b.toNat = 255 := by omega
      have e2 : ssval (b2 :: bs) = -1 := by omega
      have e3 := ih.2 e2
      injection e3 with e4 e5
      subst e5
      simp [e1, e4] at hr

theorem writeS_ssval : ∀ bs, canonS bs = true → writeS (ssval bs) = bs
  | [], h => by simp [canonS] at h
  | [b], h => by
    simp only [canonS, decide_eq_true_eq] at h
    have h40 := byte_and40 b.toNat h
    rw [writeS]
    simp only [ssval]
    by_cases hb : b.toNat &&& 0x40 = 0
    · have hlt : b.toNat < 64 := h40.mp hb
      have c : (b.toNat &&& 0x40 != 0) = false := by simp [hb]
      simp only [c]
      have e1 : ((b.toNat : Int) % 128).toNat = b.toNat := by omega
      have e2 : (b.toNat : Int) / 128 = 0 := by omega
      simp [e1, e2, hb]
    · have hlt : ¬ b.toNat < 64 := fun x => hb (h40.mpr x)
      have c : (b.toNat &&& 0x40 != 0) = true := by simp [hb]
      simp only [c, if_true]
      have e1 : (((b.toNat : Int) - 128) % 128).toNat = b.toNat := by omega
      have e2 : ((b.toNat : Int) - 128) / 128 = -1 := by omega
      rw [e1, e2]
      simp [hb]
  | b :: b2 :: bs, h => by
    have h' := h
    simp only [canonS, Bool.and_eq_true, decide_eq_true_eq] at h
    obtain ⟨⟨hb, hc⟩, hr⟩ := h
    have ih := writeS_ssval (b2 :: bs) hc
    have hsm := ssval_small (b2 :: bs) hc
    have hlt := b.toNat_lt
    rw [writeS]
    simp only [ssval]
    have e1 : ((((b.toNat : Int) - 128) + 128 * ssval (b2 :: bs)) % 128).toNat = b.toNat % 128 := by omega
    have e2 : (((b.toNat : Int) - 128) + 128 * ssval (b2 :: bs)) / 128 = ssval (b2 :: bs) := by omega
    simp only [e1, e2]
    have hnot : ¬ ((ssval (b2 :: bs) = 0 ∧ b.toNat % 128 &&& 0x40 = 0) ∨
        (ssval (b2 :: bs) = -1 ∧ b.toNat % 128 &&& 0x40 ≠ 0)) := by
      have hm : b.toNat % 128 &&& 0x40 = b.toNat &&& 0x40 := by
        have : ∀ n, n < 256 → n % 128 &&& 0x40 = n &&& 0x40 := by decide +kernel
        exact this _ hlt
      rw [hm]
      rintro (⟨z, hbit⟩ | ⟨z, hbit⟩)
      · have e3 := hsm.1 z
        injection e3 with e4 e5
        subst e5
        simp [e4, hbit] at hr
      · have e3 := hsm.2 z
        injection e3 with e4 e5
        subst e5
        simp [e4, hbit] at hr
    simp only [hnot, if_false, ih, ofNat_toNat_sub b hb]

/-! ### reading a canonical encoding, then writing the value, gives the bytes back -/

theorem readLeb_at (sg : Bool) (data : List UInt8) (pos : Nat) :
    readLeb sg data pos = readLeb sg (data.drop pos) 0 := by
  unfold readLeb
  simp

theorem readLeb_canonU {data : List UInt8} {pos : Nat} {v : Int} {n : Nat}
    (h : readLeb false data pos = some (v, n)) (hc : canonU ((data.drop pos).take n) = true) :
    v = (uval ((data.drop pos).take n) : Int) ∧ writeU (uval ((data.drop pos).take n)) = (data.drop pos).take n
      ∧ n ≤ (data.drop pos).length := by
  have hw := writeU_uval _ hc
  have hsplit : data.drop pos = (data.drop pos).take n ++ (data.drop pos).drop n :=
    (List.take_append_drop n _).symm
  rw [readLeb_at, hsplit, ← hw, readLeb_writeU] at h
  simp only [Option.some.injEq, Prod.mk.injEq] at h
  rw [hw] at h
  refine ⟨h.1.symm, hw, ?_⟩
  have := h.2
  rw [List.length_take] at this
  omega

theorem readLeb_canonS {data : List UInt8} {pos : Nat} {v : Int} {n : Nat}
    (h : readLeb true data pos = some (v, n)) (hc : canonS ((data.drop pos).take n) = true) :
    writeS v = (data.drop pos).take n ∧ n ≤ (data.drop pos).length := by
  have hw := writeS_ssval _ hc
  have hsplit : data.drop pos = (data.drop pos).take n ++ (data.drop pos).drop n :=
    (List.take_append_drop n _).symm
  rw [readLeb_at, hsplit, ← hw, readLeb_writeS] at h
  simp only [Option.some.injEq, Prod.mk.injEq] at h
  rw [hw] at h
  refine ⟨by rw [← h.1, hw], ?_⟩
  have := h.2
  rw [List.length_take] at this
  omega

/-- what `write` produces is canonical -/
theorem canonULoop_writeULoop (v : Nat) : v ≠ 0 → canonULoop (writeULoop v) = true := by
  induction v using Nat.strongRecOn with
  | _ v ih =>
    intro hv
    rw [writeULoop]
    simp only [hv, dite_false]
    have hx : v % 128 < 128 := Nat.mod_lt _ (by omega)
    by_cases h' : v / 128 = 0
    · have hw : writeULoop 0 = [] := by rw [writeULoop]; simp
      simp only [h', ne_eq, not_true_eq_false, if_false, hw, canonULoop, toNat_ofNat_lt _ (show v % 128 < 256 by omega),
        decide_eq_true_eq]
      omega
    · have ih' := ih (v / 128) (by omega) h'
      simp only [ne_eq, h', not_false_eq_true, if_true]
      cases hw : writeULoop (v / 128) with
      | nil => exact absurd hw (writeULoop_ne_nil _ h')
      | cons b bs =>
        rw [hw] at ih'
        simp only [canonULoop, toNat_ofNat_lt _ (show v % 128 + 128 < 256 by omega), Bool.and_eq_true,
          decide_eq_true_eq, ih', and_true]
        omega

theorem canonU_writeU (v : Nat) : canonU (writeU v) = true := by
  unfold writeU canonU
  by_cases hv : v = 0
  · simp [hv]
  · simp [hv, canonULoop_writeULoop v hv]

end Amoco.Leb128
