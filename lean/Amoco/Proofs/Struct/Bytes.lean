/-
  Byte-level lemmas for C16: integer codecs round trip, `canon`, `slice`, `chunks`.
-/
import Amoco.Model.Struct
import Mathlib.Tactic.Ring
import Mathlib.Tactic.Linarith
import Mathlib.Tactic.NormNum

namespace Amoco.Struct

/-! ### little-endian naturals -/

theorem leNat_lt : ∀ bs : Bytes, leNat bs < 256 ^ bs.length
  | [] => by simp [leNat]
  | b :: bs => by
    have ih := leNat_lt bs
    have hb := b.toNat_lt
    simp only [leNat, List.length_cons, Nat.pow_succ]
    omega

theorem natLE_length : ∀ k n, (natLE k n).length = k
  | 0, _ => by simp [natLE]
  | k + 1, n => by simp [natLE, natLE_length k]

theorem ofNat_toNat_add (b : UInt8) (r : Nat) : UInt8.ofNat ((b.toNat + 256 * r) % 256) = b := by
  have : (b.toNat + 256 * r) % 256 = b.toNat := by have := b.toNat_lt; omega
  rw [this]; simp

theorem natLE_leNat : ∀ bs : Bytes, natLE bs.length (leNat bs) = bs
  | [] => by simp [natLE]
  | b :: bs => by
    have hb := b.toNat_lt
    have e2 : (b.toNat + 256 * leNat bs) / 256 = leNat bs := by omega
    simp only [List.length_cons, natLE, leNat, ofNat_toNat_add, e2, natLE_leNat bs]

theorem leNat_natLE : ∀ k n, leNat (natLE k n) = n % 256 ^ k
  | 0, n => by simp [natLE, leNat, Nat.mod_one]
  | k + 1, n => by
    have ih := leNat_natLE k (n / 256)
    have h1 : (UInt8.ofNat (n % 256)).toNat = n % 256 := by
      simp [UInt8.toNat_ofNat']
    simp only [natLE, leNat, h1, ih, Nat.pow_succ]
    rw [Nat.mul_comm (256 ^ k) 256, Nat.mod_mul]

theorem pow256 (k : Nat) : 256 ^ k = 2 ^ (8 * k) := by
  rw [show (256 : Nat) = 2 ^ 8 by norm_num, ← Nat.pow_mul]

/-! ### struct integer codec round trip -/

theorem two_pow_pred (k : Nat) (hk : 0 < k) : 2 ^ (8 * k) = 2 * 2 ^ (8 * k - 1) := by
  have : 8 * k = (8 * k - 1) + 1 := by omega
  conv => lhs; rw [this, Nat.pow_succ]
  ring

theorem encInt_of_nat (be signed : Bool) (k n : Nat) (hk : 0 < k) (hn : n < 2 ^ (8 * k)) :
    encInt be signed k
        (if (signed && decide (2 ^ (8 * k - 1) ≤ n)) = true then (n : Int) - (2 : Int) ^ (8 * k) else (n : Int))
      = some (if be then (natLE k n).reverse else natLE k n) := by
  have hP := two_pow_pred k hk
  have hPi : ((2 : Int) ^ (8 * k)) = 2 * (2 : Int) ^ (8 * k - 1) := by
    have := congrArg (fun n : Nat => (n : Int)) hP
    push_cast at this
    exact this
  have hltI : (n : Int) < (2 : Int) ^ (8 * k) := by
    have := Int.ofNat_lt.mpr hn
    push_cast at this
    exact this
  have hpos : (0 : Int) < (2 : Int) ^ (8 * k - 1) := by positivity
  by_cases hs : signed = true
  · subst hs
    by_cases hneg : 2 ^ (8 * k - 1) ≤ n
    · have hnegI : (2 : Int) ^ (8 * k - 1) ≤ (n : Int) := by
        have := Int.ofNat_le.mpr hneg
        push_cast at this
        exact this
      have hmod : (((n : Int) - (2 : Int) ^ (8 * k)) % (2 : Int) ^ (8 * k)).toNat = n := by
        rw [Int.sub_emod, Int.emod_self, Int.sub_zero, Int.emod_emod_of_dvd _ (dvd_refl _),
          Int.emod_eq_of_lt (by omega) hltI]
        simp
      have hcond : (true && decide (2 ^ (8 * k - 1) ≤ n)) = true := by simp [hneg]
      rw [if_pos hcond]
      unfold encInt
      have hr : (-((2 : Int) ^ (8 * k - 1)) ≤ (n : Int) - (2 : Int) ^ (8 * k) ∧
          (n : Int) - (2 : Int) ^ (8 * k) < (2 : Int) ^ (8 * k - 1)) := by
        constructor <;> omega
      simp only [if_true, hr, decide_true, hmod, and_self]
    · have hposI : (n : Int) < (2 : Int) ^ (8 * k - 1) := by
        have := Int.ofNat_lt.mpr (Nat.lt_of_not_le hneg)
        push_cast at this
        exact this
      have hmod : ((n : Int) % (2 : Int) ^ (8 * k)).toNat = n := by
        rw [Int.emod_eq_of_lt (by omega) hltI]; simp
      have hcond : ¬ (true && decide (2 ^ (8 * k - 1) ≤ n)) = true := by simp [hneg]
      rw [if_neg hcond]
      unfold encInt
      have hr : (-((2 : Int) ^ (8 * k - 1)) ≤ (n : Int) ∧ (n : Int) < (2 : Int) ^ (8 * k - 1)) := by
        constructor <;> omega
      simp only [if_true, hr, decide_true, hmod, and_self]
  · have hs' : signed = false := by cases signed <;> simp_all
    subst hs'
    have hmod : ((n : Int) % (2 : Int) ^ (8 * k)).toNat = n := by
      rw [Int.emod_eq_of_lt (by omega) hltI]; simp
    have hcond : ¬ (false && decide (2 ^ (8 * k - 1) ≤ n)) = true := by simp
    rw [if_neg hcond]
    unfold encInt
    have hr : ((0 : Int) ≤ (n : Int) ∧ (n : Int) < (2 : Int) ^ (8 * k)) := ⟨by omega, hltI⟩
    simp only [Bool.false_eq_true, if_false, hr, decide_true, and_self, if_true, hmod]

theorem encInt_decInt (be signed : Bool) (bs : Bytes) (hk : 0 < bs.length) :
    encInt be signed bs.length (decInt be signed bs) = some bs := by
  have hlen : (if be then bs.reverse else bs).length = bs.length := by split <;> simp
  have hlt : leNat (if be then bs.reverse else bs) < 2 ^ (8 * bs.length) := by
    have := leNat_lt (if be then bs.reverse else bs); rw [hlen, pow256] at this; exact this
  have h := encInt_of_nat be signed bs.length (leNat (if be then bs.reverse else bs)) hk hlt
  unfold decInt
  simp only []
  rw [h]
  have := natLE_leNat (if be then bs.reverse else bs)
  rw [hlen] at this
  rw [this]
  cases be <;> simp

/-! ### canon -/

theorem canon_length : ∀ m bs, (canon m bs).length = m.length
  | [], _ => by simp [canon]
  | _ :: ms, [] => by simp [canon, canon_length ms []]
  | _ :: ms, _ :: bs => by simp [canon, canon_length ms bs]

theorem canon_append : ∀ (m1 m2 bs : Bytes),
    canon (m1 ++ m2) bs = canon m1 bs ++ canon m2 (bs.drop m1.length)
  | [], m2, bs => by simp [canon]
  | m :: ms, m2, [] => by
    have := canon_append ms m2 []
    simp only [List.cons_append, canon, this, List.drop_nil]
  | m :: ms, m2, b :: bs => by
    have := canon_append ms m2 bs
    simp only [List.cons_append, canon, this, List.length_cons, List.drop_succ_cons]

theorem canon_zeros : ∀ n bs, canon (zeros n) bs = zeros n
  | 0, _ => by simp [zeros, canon]
  | n + 1, [] => by
    have := canon_zeros n []
    simp only [zeros, List.replicate_succ, canon] at this ⊢
    rw [this]; simp
  | n + 1, b :: bs => by
    have := canon_zeros n bs
    simp only [zeros, List.replicate_succ, canon] at this ⊢
    rw [this]; simp

theorem ff_and (b : UInt8) : (0xFF : UInt8) &&& b = b := by
  apply UInt8.toNat_inj.mp
  rw [UInt8.toNat_and]
  have h : (0xFF : UInt8).toNat = 2 ^ 8 - 1 := by decide
  rw [h, Nat.and_comm, Nat.and_two_pow_sub_one_eq_mod]
  exact Nat.mod_eq_of_lt b.toNat_lt

theorem zero_and (b : UInt8) : (0 : UInt8) &&& b = 0 := by
  apply UInt8.toNat_inj.mp
  rw [UInt8.toNat_and]
  simp

theorem canon_ones : ∀ n (bs : Bytes), n ≤ bs.length → canon (ones n) bs = bs.take n
  | 0, _, _ => by simp [ones, canon]
  | n + 1, [], h => by simp at h
  | n + 1, b :: bs, h => by
    have := canon_ones n bs (by simpa using h)
    simp only [ones, List.replicate_succ, canon, List.take_succ_cons] at this ⊢
    rw [this, ff_and]

theorem canon_nil (bs : Bytes) : canon [] bs = [] := by simp [canon]

/-! ### slice -/

theorem slice_some {data : Bytes} {pos n : Nat} {bs : Bytes} (h : slice data pos n = some bs) :
    pos + n ≤ data.length ∧ bs = (data.drop pos).take n ∧ bs.length = n := by
  unfold slice at h
  split at h
  · rename_i hle
    injection h with h
    refine ⟨hle, h.symm, ?_⟩
    rw [← h, List.length_take, List.length_drop]; omega
  · cases h

theorem canon_ones_slice {data : Bytes} {pos n : Nat} {bs : Bytes} (h : slice data pos n = some bs) :
    canon (ones n) (data.drop pos) = bs := by
  obtain ⟨hle, e, _⟩ := slice_some h
  rw [canon_ones n _ (by rw [List.length_drop]; omega), e]

theorem zeros_length (n : Nat) : (zeros n).length = n := by simp [zeros]
theorem ones_length (n : Nat) : (ones n).length = n := by simp [ones]

theorem zeros_add (a b : Nat) : zeros (a + b) = zeros a ++ zeros b := by
  simp [zeros, List.replicate_append_replicate]

/-! ### chunks -/

theorem chunks_length (k : Nat) : ∀ n bs, (chunks k n bs).length = n
  | 0, _ => by simp [chunks]
  | n + 1, bs => by simp [chunks, chunks_length k n]

theorem chunks_flatten (k : Nat) : ∀ n (bs : Bytes), k * n ≤ bs.length → (chunks k n bs).flatten = bs.take (k * n)
  | 0, _, _ => by simp [chunks]
  | n + 1, bs, h => by
    have hk : k ≤ bs.length := by
      have : k * (n + 1) = k * n + k := by ring
      omega
    have ih := chunks_flatten k n (bs.drop k) (by
      rw [List.length_drop]
      have : k * (n + 1) = k * n + k := by ring
      omega)
    simp only [chunks, List.flatten_cons, ih]
    have : k * (n + 1) = k + k * n := by ring
    rw [this, List.take_add]

theorem chunks_all_length (k : Nat) : ∀ n (bs : Bytes), k * n ≤ bs.length → ∀ c ∈ chunks k n bs, c.length = k
  | 0, _, _ => by simp [chunks]
  | n + 1, bs, h => by
    have h1 : k * (n + 1) = k * n + k := by ring
    have ih := chunks_all_length k n (bs.drop k) (by rw [List.length_drop]; omega)
    intro c hc
    simp only [chunks, List.mem_cons] at hc
    rcases hc with rfl | hc
    · rw [List.length_take]; omega
    · exact ih c hc

/-- encoding the decoded chunks gives the bytes back -/
theorem encInts_chunks (be signed : Bool) (k : Nat) (hk : 0 < k) : ∀ (cs : List Bytes), (∀ c ∈ cs, c.length = k) →
    encInts be signed k (cs.map (fun c => Val.int (decInt be signed c))) = some cs.flatten
  | [], _ => by simp [encInts]
  | c :: cs, h => by
    have hc : c.length = k := h c (by simp)
    have ih := encInts_chunks be signed k hk cs (fun c' hc' => h c' (by simp [hc']))
    have e := encInt_decInt be signed c (by omega)
    rw [hc] at e
    simp only [List.map_cons, encInts, Val.int?, e, ih, List.flatten_cons]

end Amoco.Struct
