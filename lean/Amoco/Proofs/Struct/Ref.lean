/-
  C16: for fixed-size definitions `unpack` is the reference decoding at the C ABI offsets, and the
  data mask of the instance is the reference mask.
-/
import Amoco.Proofs.Struct.RoundTrip

namespace Amoco.Struct

/-! ### reading at `pos` is reading the dropped data at 0 -/

theorem slice_drop (data : Bytes) (pos n : Nat) (hn : 0 < n) : slice data pos n = slice (data.drop pos) 0 n := by
  unfold slice
  simp only [List.length_drop, Nat.zero_add, List.drop_zero]
  by_cases h : pos + n ≤ data.length
  · have : n ≤ data.length - pos := by omega
    simp [h, this]
  · have : ¬ n ≤ data.length - pos := by omega
    simp [h, this]

theorem unpackRaw_drop (ps : Nat) (t : Letter) (be : Bool) (count : Nat) (data : Bytes) (pos : Nat) :
    unpackRaw ps t be count data pos = unpackRaw ps t be count (data.drop pos) 0 := by
  have hn : 0 < rawSize ps t * (if count > 0 then count else 1) := by
    have := rawSize_pos ps t
    split
    · exact Nat.mul_pos this (by omega)
    · omega
  unfold unpackRaw
  simp only [slice_drop data pos _ hn]

theorem unpackBits_drop (ps : Nat) (t : Letter) (be : Bool) (names : List String) (sizes : List Nat)
    (data : Bytes) (pos : Nat) :
    unpackBits ps t be names sizes data pos = unpackBits ps t be names sizes (data.drop pos) 0 := by
  unfold unpackBits
  rw [unpackRaw_drop]

/-! ### masks: what `pack`/`unpack` assemble is the reference mask -/

theorem roundUp_sub (e a : Nat) (ha : 0 < a) :
    roundUp e a - e = if e % a = 0 then 0 else a - e % a := by
  have := alignTo_eq_roundUp e a ha
  rw [← this]
  unfold alignTo
  have hne : ¬ a = 0 := by omega
  simp only [hne, if_false]
  split <;> omega

theorem assembleS_maskAt (ps : Nat) (packed : Bool) :
    ∀ (fs : List Field) (ms : List (Nat × Nat)) (masks : List Bytes) (rel : Nat),
    fs.map (Field.alignV ps) = ms.map (·.2) → masks.map List.length = ms.map (·.1) → (∀ m ∈ ms, 0 < m.2) →
    assembleS packed (zipAligns ps fs masks) rel = maskAt (placeMembers (packAl packed ms) rel).1 masks rel
  | [], [], _, _, _, _, _ => by simp [zipAligns, assembleS, placeMembers, packAl, maskAt]
  | [], _ :: _, _, _, h, _, _ => by simp at h
  | _ :: _, [], _, _, h, _, _ => by simp at h
  | f :: fs, (s, a) :: ms, [], rel, _, h2, _ => by simp at h2
  | f :: fs, (s, a) :: ms, mk :: masks, rel, h1, h2, hp => by
    simp only [List.map_cons, List.cons.injEq] at h1 h2
    have ha : 0 < a := hp (s, a) (by simp)
    have ih := fun rel' => assembleS_maskAt ps packed fs ms masks rel' h1.2 h2.2 (fun m hm => hp m (by simp [hm]))
    have hge := alignTo_ge rel (f.alignV ps)
    cases packed
    · have hpl : placeMembers (packAl false ((s, a) :: ms)) rel
          = (roundUp rel a :: (placeMembers (packAl false ms) (roundUp rel a + s)).1,
             (placeMembers (packAl false ms) (roundUp rel a + s)).2) := by
        simp [packAl, placeMembers]
      simp only [zipAligns, assembleS, Bool.false_eq_true, if_false, hpl, maskAt, h1.1,
        alignTo_eq_roundUp rel a ha, h2.1]
      have e1 : rel + (roundUp rel a - rel + s) = roundUp rel a + s := by
        have := (roundUp_spec rel a ha).2.1; omega
      rw [e1, ih]
    · have hpl : placeMembers (packAl true ((s, a) :: ms)) rel
          = (rel :: (placeMembers (packAl true ms) (rel + s)).1, (placeMembers (packAl true ms) (rel + s)).2) := by
        simp [packAl, placeMembers, roundUp_one]
      simp only [zipAligns, assembleS, if_true, hpl, maskAt, Nat.sub_self, Nat.zero_add, h2.1]
      rw [ih]

theorem maskAt_length : ∀ (offs : List Nat) (masks : List Bytes) (e : Nat) (ms : List (Nat × Nat)),
    masks.map List.length = ms.map (·.1) → (∀ m ∈ ms, 0 < m.2) → offs = (placeMembers ms e).1 →
    e + (maskAt offs masks e).length = (placeMembers ms e).2
  | _, [], e, [], _, _, h => by
    simp only [placeMembers] at h ⊢
    subst h
    simp [maskAt]
  | _, [], _, _ :: _, h, _, _ => by simp at h
  | _, _ :: _, _, [], h, _, _ => by simp at h
  | offs, mk :: masks, e, (s, a) :: ms, h1, hp, h => by
    simp only [List.map_cons, List.cons.injEq] at h1
    have ha : 0 < a := hp (s, a) (by simp)
    simp only [placeMembers] at h ⊢
    subst h
    have ih := maskAt_length (placeMembers ms (roundUp e a + s)).1 masks (roundUp e a + s) ms h1.2
      (fun m hm => hp m (by simp [hm])) rfl
    simp only [maskAt, List.length_append, zeros_length, h1.1]
    have := (roundUp_spec e a ha).2.1
    omega

/-! ### lengths of the reference masks -/

theorem longest_length : ∀ (ms : List Bytes), (longest ms).length = maxList (ms.map List.length)
  | [] => by simp [longest, maxList]
  | m :: ms => by
    have ih := longest_length ms
    simp only [longest, List.map_cons, maxList_cons]
    split <;> omega

theorem refElemMasks_length (m : Bytes) : ∀ k, (refElemMasks m k).length = m.length * k
  | 0 => by simp [refElemMasks]
  | k + 1 => by
    simp only [refElemMasks, List.length_append, refElemMasks_length m k]
    ring

theorem placeMembers_end_ge : ∀ (ms : List (Nat × Nat)) (e : Nat), (∀ m ∈ ms, 0 < m.2) →
    e ≤ (placeMembers ms e).2
  | [], e, _ => by simp [placeMembers]
  | (s, a) :: r, e, hp => by
    have ha : 0 < a := hp (s, a) (by simp)
    have ih := placeMembers_end_ge r (roundUp e a + s) (fun m hm => hp m (by simp [hm]))
    have := (roundUp_spec e a ha).2.1
    simp only [placeMembers]
    omega

/-- the member masks have the members' sizes, the definition mask has the definition's size -/
def MaskLenF (ps : Nat) (f : Field) : Prop := ∀ m, refField ps f = some m → (refMaskField ps f).length = m.1
def MaskLenD (ps : Nat) (d : Def) : Prop := ∀ L, refDef ps d = some L → (refMaskDef ps d).length = L.size
def MaskLenFs (ps : Nat) (fs : List Field) : Prop :=
  ∀ ms, refMembers ps fs = some ms → (refMaskFields ps fs).map List.length = ms.map (·.1)

theorem packAl_pos (packed : Bool) (ms : List (Nat × Nat)) (hp : ∀ m ∈ ms, 0 < m.2) :
    ∀ m ∈ packAl packed ms, 0 < m.2 := by
  cases packed
  · simpa [packAl] using hp
  · intro m hm
    simp only [packAl, if_true, List.mem_map] at hm
    obtain ⟨m', _, rfl⟩ := hm
    simp

theorem packAl_sizes (packed : Bool) (ms : List (Nat × Nat)) : (packAl packed ms).map (·.1) = ms.map (·.1) := by
  cases packed <;> simp [packAl, List.map_map, Function.comp_def]

theorem place_offs (isUnion packed : Bool) (ms : List (Nat × Nat)) :
    (place isUnion packed ms).offs =
      if isUnion then (packAl packed ms).map (fun _ => 0) else (placeMembers (packAl packed ms) 0).1 := by
  cases isUnion <;> simp [place, packAl]

theorem place_align_pos (isUnion packed : Bool) (ms : List (Nat × Nat)) : 0 < (place isUnion packed ms).align := by
  rw [place_align]; omega

/-- the body of the reference mask is not longer than the definition -/
theorem refBody_le (isUnion packed : Bool) (ms : List (Nat × Nat)) (masks : List Bytes)
    (hl : masks.map List.length = ms.map (·.1)) (hp : ∀ m ∈ ms, 0 < m.2) :
    (if isUnion then longest masks else maskAt (place isUnion packed ms).offs masks 0).length
      ≤ (place isUnion packed ms).size := by
  have hal := place_align_pos isUnion packed ms
  rw [place_size]
  have hr := (roundUp_spec (if isUnion then ms.foldl (fun a m => max a m.1) 0
      else (placeMembers (packAl packed ms) 0).2) (place isUnion packed ms).align hal).2.1
  refine Nat.le_trans ?_ hr
  cases isUnion
  · simp only [Bool.false_eq_true, if_false, place_offs]
    have := maskAt_length (placeMembers (packAl packed ms) 0).1 masks 0 (packAl packed ms)
      (by rw [packAl_sizes]; exact hl) (packAl_pos packed ms hp) rfl
    omega
  · simp only [if_true]
    rw [longest_length, hl, foldl_max_eq (fun m : Nat × Nat => m.1)]
    omega

mutual
theorem maskLenF (ps : Nat) : (f : Field) → f.modelled ps = true → MaskLenF ps f
  | .raw _ t _ count, _ => by
    intro m h
    simp only [refField, Option.some.injEq] at h
    subst h
    simp only [refMaskField]
    split <;> simp [zeros_length, ones_length]
  | .bits t be names sizes, _ => by
    intro m h
    simp only [refField, Option.some.injEq] at h
    subst h
    simp [refMaskField, bitsMask_length]
  | .nest _ ty count, hm => by
    have hmt : ty.modelled ps = true := by simpa [Field.modelled] using hm
    have ih := maskLenD ps ty hmt
    intro m h
    simp only [refField] at h
    cases hr : refDef ps ty with
    | none => rw [hr] at h; simp at h
    | some L =>
      rw [hr] at h
      simp only [Option.some.injEq] at h
      subst h
      have := ih L hr
      simp only [refMaskField]
      by_cases hc : count = 0
      · simp [hc, this]
      · simp [hc, refElemMasks_length, this]
  | .bitsEx ty names sizes, _ => by
    intro m h
    simp only [refField] at h
    cases hr : refDef ps ty with
    | none => rw [hr] at h; simp at h
    | some L =>
      rw [hr] at h
      simp only [Option.some.injEq] at h
      subst h
      simp [refMaskField, hr, bitsMask_length]
  | .var .., _ => by intro m h; simp [refField] at h
  | .cnt .., _ => by intro m h; simp [refField] at h
  | .bound .., _ => by intro m h; simp [refField] at h
  | .leb .., _ => by intro m h; simp [refField] at h
theorem maskLenD (ps : Nat) : (d : Def) → d.modelled ps = true → MaskLenD ps d
  | .mk kind packed fs, hm => by
    obtain ⟨hmfs, _⟩ := modelled_def hm
    have ih := maskLenFs ps fs hmfs
    have hrel := fieldsRel ps fs hmfs
    intro L hL
    simp only [refDef] at hL
    cases hr : refMembers ps fs with
    | none => rw [hr] at hL; simp at hL
    | some ms =>
      rw [hr] at hL
      simp only [Option.some.injEq] at hL
      subst hL
      have hl := ih ms hr
      unfold FieldsRel at hrel
      rw [hr] at hrel
      have hp : ∀ m ∈ ms, 0 < m.2 := by
        intro m hm'
        have hal : fs.map (Field.alignV ps) = ms.map (·.2) := by
          have := congrArg (List.map (·.2)) hrel.2
          simpa [fieldPairs, List.map_map, Function.comp_def] using this
        have : m.2 ∈ ms.map (·.2) := List.mem_map_of_mem hm'
        rw [← hal] at this
        simp only [List.mem_map] at this
        obtain ⟨f, hf, e⟩ := this
        rw [← e]; exact hrel.1 f hf
      have hle := refBody_le (kind == Kind.union) packed ms (refMaskFields ps fs) hl hp
      simp only [refMaskDef, hr, List.length_append, zeros_length]
      by_cases hk : (kind == Kind.union) = true
      · simp only [hk, if_true] at hle ⊢
        omega
      · have hk' : (kind == Kind.union) = false := by simpa using hk
        simp only [hk', Bool.false_eq_true, if_false] at hle ⊢
        omega
theorem maskLenFs (ps : Nat) : (fs : List Field) → fieldsModelled ps fs = true → MaskLenFs ps fs
  | [], _ => by
    intro ms h
    simp only [refMembers, Option.some.injEq] at h
    subst h
    simp [refMaskFields]
  | f :: fs, hm => by
    obtain ⟨hm1, hm2⟩ := modelled_cons hm
    intro l h
    obtain ⟨m, ms, rfl, hf, hs⟩ := refMembers_cons h
    simp only [refMaskFields, List.map_cons, maskLenF ps f hm1 m hf, maskLenFs ps fs hm2 ms hs]
end

/-! ### `unpack` against the reference decoder -/

/-- the offsets at which the members are read, starting with free offset `rel` -/
def offsOf (u packed : Bool) (ms : List (Nat × Nat)) (rel : Nat) : List Nat :=
  if u then ms.map (fun _ => rel) else (placeMembers (packAl packed ms) rel).1

def FieldRef (ps : Nat) (data : Bytes) (f : Field) : Prop :=
  ∀ m, refField ps f = some m → ∀ pos ns,
    unpackField ps data pos ns f
      = (refDecodeField ps (data.drop pos) ns f).map (fun v => (v, m.1, refMaskField ps f, true))

def DefRef (ps : Nat) (data : Bytes) (d : Def) : Prop :=
  ∀ L, refDef ps d = some L → ∀ pos,
    unpackDef ps data pos d = (refDecodeDef ps (data.drop pos) d).map (fun v => (v, L.size, refMaskDef ps d, true))

def FieldsRef (ps : Nat) (data : Bytes) (fs : List Field) : Prop :=
  ∀ ms, refMembers ps fs = some ms → ∀ base u packed rel ns,
    (unpackFields ps data base u packed fs rel ns).map (·.1)
        = refDecodeFields ps (data.drop base) fs (offsOf u packed ms rel) ns ∧
    ∀ ns' res, unpackFields ps data base u packed fs rel ns = some (ns', res) →
      res.map (·.2.1) = ms.map (·.1) ∧ res.map (·.2.2.1) = refMaskFields ps fs ∧ (∀ r ∈ res, r.2.2.2 = true)

theorem repeatAt_ref {data : Bytes} {g : Nat → Option (Val × Nat × Bytes × Bool)} {gr : Bytes → Option Val}
    {s : Nat} {mk : Bytes}
    (hg : ∀ p, g p = (gr (data.drop p)).map (fun v => (v, s, mk, true))) :
    ∀ (count pos : Nat),
      repeatAt g (some s) count pos
        = (refElems gr s count (data.drop pos)).map (fun vs => (vs, s * count, refElemMasks mk count, true))
  | 0, pos => by simp [repeatAt, refElems, refElemMasks]
  | k + 1, pos => by
    have ih := repeatAt_ref hg k (pos + s)
    simp only [repeatAt, hg pos, refElems, pickStride, List.drop_drop]
    cases h1 : gr (data.drop pos) with
    | none => simp
    | some v =>
      simp only [Option.map_some, ih]
      cases h2 : refElems gr s k (data.drop (pos + s)) with
      | none => simp
      | some vs =>
        simp only [Option.map_some, refElemMasks, Bool.and_self]
        congr 3
        ring

theorem zipAligns_snd (ps : Nat) : ∀ (fs : List Field) (masks : List Bytes), masks.length = fs.length →
    (zipAligns ps fs masks).map (·.2) = masks
  | [], [], _ => by simp [zipAligns]
  | [], _ :: _, h => by simp at h
  | _ :: _, [], h => by simp at h
  | f :: fs, m :: masks, h => by
    simp only [zipAligns, List.map_cons, zipAligns_snd ps fs masks (by simpa using h)]

theorem padRes_eq (packed : Bool) (A : Nat) (b : Bytes) :
    padRes packed A b = b ++ zeros ((padRes packed A b).length - b.length) := by
  unfold padRes
  cases packed
  · simp only [Bool.false_eq_true, if_false]
    split
    · simp [zeros_length]
    · simp [zeros]
  · simp [zeros]

theorem refMaskFields_length (ps : Nat) : ∀ fs : List Field, (refMaskFields ps fs).length = fs.length
  | [] => by simp [refMaskFields]
  | _ :: fs => by simp [refMaskFields, refMaskFields_length ps fs]

/-- the aggregate part of the induction: the instance `unpack` builds is the reference instance -/
theorem agg_ref (ps : Nat) (data : Bytes) (u packed : Bool) (fs : List Field) (kind : Kind)
    (hku : (kind == Kind.union) = u) (hm : (Def.mk kind packed fs).modelled ps = true)
    (hfields : FieldsRef ps data fs) (ms : List (Nat × Nat)) (hr : refMembers ps fs = some ms) (pos : Nat) :
    finishAgg ps u packed fs (unpackFields ps data pos u packed fs 0 [])
      = (match refDecodeFields ps (data.drop pos) fs (place u packed ms).offs [] with
         | some ns => some (Val.inst ns (place u packed ms).size)
         | none => none).map
        (fun v => (v, (place u packed ms).size, refMaskDef ps (.mk kind packed fs), true)) := by
  obtain ⟨hmfs, hne⟩ := modelled_def hm
  have hL : refDef ps (.mk kind packed fs) = some (place u packed ms) := by
    simp only [refDef, hr, hku]
  obtain ⟨hsz, hal, _⟩ : (Def.mk kind packed fs).sizeV ps = some (place u packed ms).size ∧
      (Def.mk kind packed fs).alignV ps = (place u packed ms).align ∧ True := by
    have h := (defRel ps _ hm).2
    rw [hL] at h
    exact ⟨h.1, h.2, trivial⟩
  have hApos : 0 < (if packed then 1 else maxList (alignVs ps fs)) := by
    have := (defRel ps _ hm).1
    simpa [Def.alignV] using this
  have hor : orOne (if packed then 1 else maxList (alignVs ps fs)) = (if packed then 1 else maxList (alignVs ps fs)) := by
    unfold orOne; rw [if_neg (by omega)]
  obtain ⟨hA, hB⟩ := hfields ms hr pos u packed 0 []
  have hoffs : offsOf u packed ms 0 = (place u packed ms).offs := by
    rw [place_offs]
    unfold offsOf
    cases u
    · rfl
    · cases packed <;> simp [packAl]
  rw [hoffs] at hA
  cases hu : unpackFields ps data pos u packed fs 0 [] with
  | none =>
    rw [hu] at hA
    simp only [Option.map_none] at hA
    simp [finishAgg, ← hA]
  | some r =>
    obtain ⟨ns, res⟩ := r
    rw [hu] at hA
    simp only [Option.map_some] at hA
    obtain ⟨b1, b2, b3⟩ := hB ns res hu
    have hlenres : res.length = fs.length := by
      have := congrArg List.length b2
      simpa [refMaskFields_length] using this
    have hmasklen := maskLenFs ps fs hmfs ms hr
    have hrel := fieldsRel ps fs hmfs
    unfold FieldsRel at hrel
    rw [hr] at hrel
    have hp : ∀ m ∈ ms, 0 < m.2 := by
      intro m hm'
      have hal' : fs.map (Field.alignV ps) = ms.map (·.2) := by
        have := congrArg (List.map (·.2)) hrel.2
        simpa [fieldPairs, List.map_map, Function.comp_def] using this
      have : m.2 ∈ ms.map (·.2) := List.mem_map_of_mem hm'
      rw [← hal'] at this
      simp only [List.mem_map] at this
      obtain ⟨f, hf, e⟩ := this
      rw [← e]; exact hrel.1 f hf
    have halv : fs.map (Field.alignV ps) = ms.map (·.2) := by
      have := congrArg (List.map (·.2)) hrel.2
      simpa [fieldPairs, List.map_map, Function.comp_def] using this
    -- len(instance) is the reference size
    have hstatic : fs.map (Field.sizeV ps) = res.map (fun r => some r.2.1) := by
      have := congrArg (List.map (·.1)) hrel.2
      simp only [fieldPairs, List.map_map, Function.comp_def] at this
      rw [this]
      have e : res.map (fun r => some r.2.1) = (res.map (·.2.1)).map some := by simp [List.map_map, Function.comp_def]
      rw [e, b1]
      simp [List.map_map, Function.comp_def]
    have hlen : padTail packed (if packed then 1 else maxList (alignVs ps fs))
        (lenLoop ps u packed fs (res.map (fun r => some r.2.1)) 0) = (place u packed ms).size := by
      simp only [Def.sizeV, hku, hor] at hsz
      split at hsz
      swap
      · cases hsz
      rename_i sz0 hsl
      simp only [Option.some.injEq] at hsz
      rw [← hstatic, lenLoop_static ps u packed fs 0 sz0 hsl, hsz]
    have hflags : res.all (·.2.2.2) = true := List.all_eq_true.mpr b3
    -- the assembled mask is the reference mask
    have hmask : assemble u packed (if packed then 1 else maxList (alignVs ps fs)) (zipAligns ps fs (res.map (·.2.2.1)))
        = refMaskDef ps (.mk kind packed fs) := by
      have hasmlen : (assemble u packed (if packed then 1 else maxList (alignVs ps fs))
          (zipAligns ps fs (res.map (·.2.2.1)))).length = (place u packed ms).size := by
        have hl2 : ∀ r ∈ res, r.2.2.1.length = r.2.1 := by
          intro r hr'
          have e1 : (res.map (·.2.2.1)).map List.length = res.map (·.2.1) := by
            rw [b2, hmasklen, b1]
          have e1' : res.map (fun r => r.2.2.1.length) = res.map (fun r => r.2.1) := by
            rw [← e1]; simp [List.map_map, Function.comp_def]
          exact (List.map_inj_left.mp e1') r hr'
        rw [assemble_eq, padRes_length _ _ _ hApos, ← hlen]
        congr 1
        cases u
        · simp only [Bool.false_eq_true, if_false]
          have := assembleS_length ps packed fs res 0 hl2 hlenres
          omega
        · simp only [if_true]
          have := longest_length_union ps packed fs res 0 hl2 hlenres
          omega
      rw [assemble_eq, padRes_eq]
      rw [← assemble_eq, hasmlen]
      simp only [refMaskDef, hr, hku, b2]
      have hbody : (if u then longest ((zipAligns ps fs (refMaskFields ps fs)).map (·.2))
            else assembleS packed (zipAligns ps fs (refMaskFields ps fs)) 0)
          = (if u then longest (refMaskFields ps fs) else maskAt (place u packed ms).offs (refMaskFields ps fs) 0) := by
        cases u
        · simp only [Bool.false_eq_true, if_false, place_offs]
          exact assembleS_maskAt ps packed fs ms (refMaskFields ps fs) 0 halv hmasklen hp
        · simp only [if_true]
          rw [zipAligns_snd ps fs _ (refMaskFields_length ps fs)]
      rw [hbody]
    simp only [finishAgg, ← hA, Option.map_some, hlen, hmask, hflags]

/-! ### the induction -/

theorem withFlag_map (o : Option (Val × Nat × Bytes)) :
    withFlag true o = o.map (fun r => (r.1, r.2.1, r.2.2, true)) := by
  cases o with
  | none => rfl
  | some r => obtain ⟨a, b, c⟩ := r; rfl

theorem unpackRaw_mask {ps : Nat} {t : Letter} {be : Bool} {count : Nat} {data : Bytes} {pos : Nat}
    {r : Val × Nat × Bytes} (h : unpackRaw ps t be count data pos = some r) :
    r.2.2 = (if t == .x then zeros (cSize ps t * (if count = 0 then 1 else count))
             else ones (cSize ps t * (if count = 0 then 1 else count))) := by
  have hn : (if count > 0 then count else 1) = (if count = 0 then 1 else count) := by
    by_cases hc : count = 0
    · simp [hc]
    · have : 0 < count := by omega
      simp [hc, this]
  unfold unpackRaw at h
  simp only [hn, rawSize_eq_cSize] at h
  split at h
  · cases h
  · split at h
    · cases h
    · split at h
      · rename_i henc
        have : t = Letter.x := by cases t <;> simp_all [Letter.enc]
        subst this
        split at h
        · injection h with h; subst h; simp
        · cases h
      · rename_i henc
        have : (t == Letter.x) = false := by cases t <;> simp_all [Letter.enc]
        injection h with h; subst h; simp [this]
      · rename_i henc
        have : (t == Letter.x) = false := by cases t <;> simp_all [Letter.enc]
        split at h <;> rename_i hc <;> (injection h with h; subst h; simp [this, hc])
      · rename_i henc
        have : (t == Letter.x) = false := by cases t <;> simp_all [Letter.enc]
        split at h <;> rename_i hc <;> (injection h with h; subst h; simp [this, hc])

theorem offsOf_cons (u packed : Bool) (m : Nat × Nat) (ms : List (Nat × Nat)) (rel : Nat) :
    offsOf u packed (m :: ms) rel
      = (if u then rel else roundUp rel (if packed then 1 else m.2)) ::
          offsOf u packed ms (if u then rel else roundUp rel (if packed then 1 else m.2) + m.1) := by
  unfold offsOf
  cases u
  · cases packed <;> simp [packAl, placeMembers]
  · simp

mutual
theorem fieldRef (ps : Nat) (data : Bytes) : (f : Field) → f.wf ps = true → f.modelled ps = true → FieldRef ps data f
  | .raw nm t be count, _, _ => by
    intro m hm pos ns
    simp only [refField, Option.some.injEq] at hm
    subst hm
    simp only [unpackField, refDecodeField, unpackRaw_drop ps t be count data pos, withFlag_map, Option.map_map]
    cases hr : unpackRaw ps t be count (data.drop pos) 0 with
    | none => rfl
    | some r =>
      have h1 := unpackRaw_size hr
      have h2 := unpackRaw_mask hr
      obtain ⟨v, sz, mk⟩ := r
      simp only at h1 h2
      simp only [Option.map_some, Function.comp, refMaskField, h2]
      congr 3
      rw [h1, rawSize_eq_cSize]
      by_cases hc : count = 0
      · simp [hc]
      · have : 0 < count := by omega
        simp [hc, this]
  | .bits t be names sizes, _, _ => by
    intro m hm pos ns
    simp only [refField, Option.some.injEq] at hm
    subst hm
    simp only [unpackField, refDecodeField, unpackBits_drop ps t be names sizes data pos, withFlag_map, Option.map_map]
    cases hr : unpackBits ps t be names sizes (data.drop pos) 0 with
    | none => rfl
    | some r =>
      obtain ⟨v, sz, mk⟩ := r
      unfold unpackBits at hr
      split at hr
      swap
      · cases hr
      rename_i u sz0 m0 hraw
      have := unpackRaw_size hraw
      simp only [Nat.lt_irrefl, if_false, Nat.mul_one] at this
      simp only [Option.some.injEq, Prod.mk.injEq] at hr
      obtain ⟨rfl, rfl, rfl⟩ := hr
      simp only [Option.map_some, Function.comp, refMaskField, this, rawSize_eq_cSize]
  | .var .., _, _ => by intro m hm; simp [refField] at hm
  | .cnt .., _, _ => by intro m hm; simp [refField] at hm
  | .bound .., _, _ => by intro m hm; simp [refField] at hm
  | .leb .., _, _ => by intro m hm; simp [refField] at hm
  | .nest nm ty count, hwf, hm => by
    have hwt : ty.wf ps = true := by simpa [Field.wf] using hwf
    have hmt : ty.modelled ps = true := by simpa [Field.modelled] using hm
    have ih := defRef ps data ty hwt hmt
    intro m hrf pos ns
    simp only [refField] at hrf
    cases hL : refDef ps ty with
    | none => rw [hL] at hrf; simp at hrf
    | some L =>
      rw [hL] at hrf
      simp only [Option.some.injEq] at hrf
      subst hrf
      have hs : ty.sizeV ps = some L.size := by
        have h := (defRel ps ty hmt).2
        rw [hL] at h
        exact h.1
      have ihL := ih L hL
      by_cases hc : count = 0
      · subst hc
        simp only [unpackField, if_true, ihL pos, hs, refDecodeField, refMaskField, Nat.mul_one]
        cases refDecodeDef ps (data.drop pos) ty <;> rfl
      · have hrep := repeatAt_ref (data := data) (g := fun p => unpackDef ps data p ty)
          (gr := fun b => refDecodeDef ps b ty) (s := L.size) (mk := refMaskDef ps ty) (fun p => ihL p) count pos
        simp only [unpackField, hc, if_false, hs, hrep, refDecodeField, hL, refMaskField]
        cases refElems (fun b => refDecodeDef ps b ty) L.size count (data.drop pos) <;> rfl
  | .bitsEx ty names sizes, hwf, hm => by
    have hwt : ty.wf ps = true := by
      simp only [Field.wf, Bool.and_eq_true] at hwf
      exact hwf.1.1.1
    have hmt : ty.modelled ps = true := by
      simp only [Field.modelled, Bool.and_eq_true] at hm
      exact hm.1
    have ih := defRef ps data ty hwt hmt
    intro m hrf pos ns
    simp only [refField] at hrf
    cases hL : refDef ps ty with
    | none => rw [hL] at hrf; simp at hrf
    | some L =>
      rw [hL] at hrf
      simp only [Option.some.injEq] at hrf
      subst hrf
      have hs : ty.sizeV ps = some L.size := by
        have h := (defRel ps ty hmt).2
        rw [hL] at h
        exact h.1
      simp only [unpackField, ih L hL pos, refDecodeField, refMaskField, hL]
      cases hd : refDecodeDef ps (data.drop pos) ty with
      | none => rfl
      | some v =>
        cases v <;> simp [hs]
theorem defRef (ps : Nat) (data : Bytes) : (d : Def) → d.wf ps = true → d.modelled ps = true → DefRef ps data d
  | .mk kind packed fs, hwf, hm => by
    obtain ⟨hwfs, _, htd⟩ := wf_def hwf
    obtain ⟨hmfs, hne⟩ := modelled_def hm
    have ihs := fieldsRef ps data fs hwfs hmfs
    intro L hL pos
    simp only [refDef] at hL
    cases hr : refMembers ps fs with
    | none => rw [hr] at hL; simp at hL
    | some ms =>
      rw [hr] at hL
      simp only [Option.some.injEq] at hL
      subst hL
      cases kind with
      | struct =>
        simp only [unpackDef, refDecodeDef, hr]
        exact agg_ref ps data false packed fs Kind.struct rfl hm ihs ms hr pos
      | union =>
        simp only [unpackDef, refDecodeDef, hr]
        exact agg_ref ps data true packed fs Kind.union rfl hm ihs ms hr pos
      | typedef =>
        obtain ⟨hpk, hshape⟩ := htd rfl
        subst hpk
        match fs, hshape, hwfs, hmfs, hm, ihs, hr with
        | [], hshape, _, _, _, _, _ => simp [typedefShape] at hshape
        | _ :: _ :: _, hshape, _, _, _, _, _ => simp [typedefShape] at hshape
        | [f], _, hwfs, hmfs, hm, _, hr =>
          have ihf := fieldRef ps data f (wf_cons hwfs).1 (modelled_cons hmfs).1
          obtain ⟨m, ms', rfl, hf, hs'⟩ := refMembers_cons hr
          simp only [refMembers, Option.some.injEq] at hs'
          subst hs'
          have hrel := fieldRel ps f (modelled_cons hmfs).1
          unfold FieldRel at hrel
          rw [hf] at hrel
          obtain ⟨hpos, _, hal⟩ := hrel
          have hlen := maskLenF ps f (modelled_cons hmfs).1 m hf
          have hsz : (place false false [m]).size = roundUp m.1 m.2 := by
            rw [place_size, place_align]
            simp only [Bool.false_eq_true, if_false, packAl, placeMembers, List.map_cons, List.map_nil,
              maxList_cons, maxList]
            have e0 : roundUp 0 m.2 = 0 := by rw [← alignTo_eq_roundUp 0 m.2 (by omega)]; exact alignTo_zero _
            rw [e0]
            congr 1
            · omega
            · omega
          have hoff : (place false false [m]).offs = [0] := by
            simp only [place, Bool.false_eq_true, if_false, placeMembers]
            have e0 : roundUp 0 m.2 = 0 := by rw [← alignTo_eq_roundUp 0 m.2 (by omega)]; exact alignTo_zero _
            simp [e0]
          have hpt : padTail false (f.alignV ps) m.1 = roundUp m.1 m.2 := by
            rw [padTail_eq_roundUp _ _ _ hpos, hal]; simp
          simp only [unpackDef, refDecodeDef, hr, Bool.false_eq_true, if_false, alignVs, maxList, List.isEmpty_nil,
            if_true, ihf m hf pos []]
          cases hd : refDecodeField ps (data.drop pos) [] f with
          | none => simp [finishTypedef]
          | some v =>
            simp only [Option.map_some, finishTypedef, hpt, hsz, refMaskDef, hr, hoff, refMaskFields, maskAt,
              Nat.sub_self, zeros, List.replicate_zero, List.nil_append, List.append_nil, hlen,
              show (Kind.typedef == Kind.union) = false from rfl, Bool.false_eq_true, if_false, Nat.zero_add]
theorem fieldsRef (ps : Nat) (data : Bytes) : (fs : List Field) → fieldsWf ps fs = true → fieldsModelled ps fs = true →
    FieldsRef ps data fs
  | [], _, _ => by
    intro ms hr base u packed rel ns
    simp only [refMembers, Option.some.injEq] at hr
    subst hr
    refine ⟨by simp [unpackFields, refDecodeFields, offsOf, packAl, placeMembers], ?_⟩
    intro ns' res h
    simp only [unpackFields, Option.some.injEq, Prod.mk.injEq] at h
    obtain ⟨_, rfl⟩ := h
    simp [refMaskFields]
  | f :: fs, hwf, hm => by
    obtain ⟨hwf1, hwf2⟩ := wf_cons hwf
    obtain ⟨hm1, hm2⟩ := modelled_cons hm
    have ihf := fieldRef ps data f hwf1 hm1
    have ihs := fieldsRef ps data fs hwf2 hm2
    intro l hr base u packed rel ns
    obtain ⟨m, ms, rfl, hf, hs⟩ := refMembers_cons hr
    have hrel := fieldRel ps f hm1
    unfold FieldRel at hrel
    rw [hf] at hrel
    obtain ⟨hpos, _, hal⟩ := hrel
    have hrel1 : (if (!u && !packed) = true then alignTo rel (f.alignV ps) else rel)
        = (if u then rel else roundUp rel (if packed then 1 else m.2)) := by
      cases u
      · cases packed
        · simp only [Bool.not_false, Bool.and_self, if_true, Bool.false_eq_true, if_false]
          rw [alignTo_eq_roundUp _ _ hpos, hal]
        · simp [roundUp_one]
      · simp
    rw [offsOf_cons]
    unfold unpackFields
    simp only [hrel1, ihf m hf, refDecodeFields, List.drop_drop]
    cases hd : refDecodeField ps (data.drop (base + if u then rel else roundUp rel (if packed then 1 else m.2))) ns f with
    | none => simp
    | some v =>
      simp only [Option.map_some]
      have hrel2 : (if u = true then (if u then rel else roundUp rel (if packed then 1 else m.2))
            else (if u then rel else roundUp rel (if packed then 1 else m.2)) + m.1)
          = (if u then rel else roundUp rel (if packed then 1 else m.2) + m.1) := by
        cases u <;> simp
      rw [hrel2]
      obtain ⟨iA, iB⟩ := ihs ms hs base u packed
        (if u then rel else roundUp rel (if packed then 1 else m.2) + m.1) (store f v ns)
      refine ⟨?_, ?_⟩
      · rw [← iA]
        cases unpackFields ps data base u packed fs
          (if u then rel else roundUp rel (if packed then 1 else m.2) + m.1) (store f v ns) <;> rfl
      · intro ns' res h
        cases hu : unpackFields ps data base u packed fs
          (if u then rel else roundUp rel (if packed then 1 else m.2) + m.1) (store f v ns) with
        | none => rw [hu] at h; simp at h
        | some r =>
          obtain ⟨ns2, res'⟩ := r
          rw [hu] at h
          simp only [Option.some.injEq, Prod.mk.injEq] at h
          obtain ⟨rfl, rfl⟩ := h
          obtain ⟨j1, j2, j3⟩ := iB ns2 res' hu
          refine ⟨by simp [j1], by simp [refMaskFields, j2], ?_⟩
          intro r hr'
          simp only [List.mem_cons] at hr'
          rcases hr' with rfl | hr'
          · rfl
          · exact j3 r hr'
end

end Amoco.Struct
