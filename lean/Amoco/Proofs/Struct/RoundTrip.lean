/-
  C16: the mutual induction — packing what was unpacked reproduces the data bits of the bytes read.
-/
import Amoco.Proofs.Struct.Pack

namespace Amoco.Struct

/-! ### static sizes: `__len__` over the class-level sizes is `size` -/

theorem lenLoop_static (ps : Nat) (u p : Bool) : ∀ (fs : List Field) (sz r : Nat),
    sizeLoop ps u p fs sz = some r → lenLoop ps u p fs (fs.map (Field.sizeV ps)) sz = r
  | [], sz, r, h => by
    simp only [sizeLoop, Option.some.injEq] at h
    simp [lenLoop, h]
  | f :: fs, sz, r, h => by
    simp only [sizeLoop] at h
    cases hs : f.sizeV ps with
    | none => rw [hs] at h; simp at h
    | some fsz =>
      rw [hs] at h
      simp only [] at h
      simp only [List.map_cons, lenLoop, hs]
      exact lenLoop_static ps u p fs _ r h

theorem sizeLoop_all_some (ps : Nat) (u p : Bool) : ∀ (fs : List Field) (sz r : Nat),
    sizeLoop ps u p fs sz = some r → ∀ f ∈ fs, (f.sizeV ps).isSome = true
  | [], _, _, _, f, hf => by simp at hf
  | g :: fs, sz, r, h, f, hf => by
    simp only [sizeLoop] at h
    cases hs : g.sizeV ps with
    | none => rw [hs] at h; simp at h
    | some fsz =>
      rw [hs] at h
      simp only [List.mem_cons] at hf
      rcases hf with rfl | hf
      · simp [hs]
      · exact sizeLoop_all_some ps u p fs _ r h f hf

theorem padRes_length (packed : Bool) (A : Nat) (b : Bytes) (hA : 0 < A) :
    (padRes packed A b).length = padTail packed A b.length := by
  unfold padRes padTail orOne
  have : ¬ A = 0 := by omega
  cases packed
  · simp only [this, if_false, Bool.false_eq_true, Bool.not_false, Bool.true_and, decide_eq_true_eq]
    split
    · simp [zeros]
    · rfl
  · simp

theorem sizeV_mod_alignV {ps : Nat} {d : Def} (hm : d.modelled ps = true) {s : Nat} (h : d.sizeV ps = some s) :
    s % d.alignV ps = 0 := by
  have hpos := (defRel ps d hm).1
  cases d with
  | mk kind packed fs =>
    simp only [Def.sizeV] at h
    split at h
    · rename_i sz0 _
      simp only [Option.some.injEq] at h
      simp only [Def.alignV] at hpos ⊢
      cases packed
      · simp only [Bool.false_eq_true, if_false] at hpos h ⊢
        have hor : orOne (maxList (alignVs ps fs)) = maxList (alignVs ps fs) := by
          unfold orOne; rw [if_neg (by omega)]
        rw [hor, padTail_eq_roundUp _ _ _ hpos] at h
        simp only [Bool.false_eq_true, if_false] at h
        rw [← h]
        exact Nat.mod_eq_zero_of_dvd (roundUp_spec _ _ hpos).1
      · simp [Nat.mod_one]
    · cases h

/-! ### a raw field never yields an instance -/

theorem unpackRaw_not_inst {ps : Nat} {t : Letter} {be : Bool} {count : Nat} {data : Bytes} {pos : Nat}
    {ns : NS} {l sz : Nat} {m : Bytes} : unpackRaw ps t be count data pos ≠ some (.inst ns l, sz, m) := by
  intro h
  unfold unpackRaw at h
  simp only [] at h
  split at h
  · cases h
  · split at h
    · cases h
    · split at h
      · split at h <;> simp at h
      · simp at h
      · split at h <;> simp at h
      · split at h <;> simp at h

/-! ### the statements of the induction -/

def FieldRT (ps : Nat) (data : Bytes) (f : Field) : Prop :=
  ∀ pos ns v sz m c, unpackField ps data pos ns f = some (v, sz, m, c) → c = true →
    packField ps f v = some (canon m (data.drop pos)) ∧ m.length = sz ∧ (∀ s, f.sizeV ps = some s → sz = s)

def DefRT (ps : Nat) (data : Bytes) (d : Def) : Prop :=
  ∀ pos v n m c, unpackDef ps data pos d = some (v, n, m, c) → c = true →
    packOne ps d v = some (canon m (data.drop pos)) ∧ m.length = n ∧ (∀ s, d.sizeV ps = some s → n = s)

def FieldsRT (ps : Nat) (data : Bytes) (fs : List Field) : Prop :=
  ∀ base u p rel ns ns' res, unpackFields ps data base u p fs rel ns = some (ns', res) →
    (∀ r ∈ res, r.2.2.2 = true) →
    packFields ps fs (res.map (·.1)) = some (expParts ps data base u p fs res rel) ∧
    (∀ r ∈ res, r.2.2.1.length = r.2.1) ∧ res.length = fs.length ∧
    ((∀ f ∈ fs, (f.sizeV ps).isSome = true) → res.map (fun r => some r.2.1) = fs.map (Field.sizeV ps))

theorem roundTrip_to {data : Bytes} {pos : Nat} {v : Val} {sz : Nat} {m : Bytes} {pk : Option Bytes}
    (h : RoundTrip data pos (v, sz, m) pk) : pk = some (canon m (data.drop pos)) ∧ m.length = sz := h

/-! ### fields that need no induction hypothesis -/

theorem fieldRT_raw (ps : Nat) (data : Bytes) (nm : String) (t : Letter) (be : Bool) (count : Nat) :
    FieldRT ps data (.raw nm t be count) := by
  intro pos ns v sz m c h _
  simp only [unpackField] at h
  obtain ⟨h, _⟩ := withFlag_some h
  obtain ⟨h1, h2⟩ := roundTrip_to (packRaw_unpackRaw h)
  refine ⟨by simpa [packField] using h1, h2, ?_⟩
  intro s hs
  have := unpackRaw_size h
  simp only [Field.sizeV, Option.some.injEq] at hs
  simp only at this
  omega

theorem fieldRT_var (ps : Nat) (data : Bytes) (nm : String) (t : Letter) (be : Bool) :
    FieldRT ps data (.var nm t be) := by
  intro pos ns v sz m c h _
  simp only [unpackField] at h
  obtain ⟨h, _⟩ := withFlag_some h
  obtain ⟨h1, h2⟩ := roundTrip_to (packVar_unpackVar h)
  exact ⟨by simpa [packField] using h1, h2, by simp [Field.sizeV]⟩

theorem fieldRT_cnt (ps : Nat) (data : Bytes) (nm : String) (t : Letter) (be : Bool) (ct : Letter) :
    FieldRT ps data (.cnt nm t be ct) := by
  intro pos ns v sz m c h _
  simp only [unpackField] at h
  obtain ⟨h, _⟩ := withFlag_some h
  obtain ⟨h1, h2⟩ := roundTrip_to (packCnt_unpackCnt h)
  exact ⟨by simpa [packField] using h1, h2, by simp [Field.sizeV]⟩

theorem fieldRT_bound (ps : Nat) (data : Bytes) (nm : String) (t : Letter) (be : Bool) (ref : String) :
    FieldRT ps data (.bound nm t be ref) := by
  intro pos ns v sz m c h _
  simp only [unpackField] at h
  obtain ⟨h, _⟩ := withFlag_some h
  obtain ⟨h1, h2⟩ := roundTrip_to (packBound_unpackBound h)
  exact ⟨by simpa [packField] using h1, h2, by simp [Field.sizeV]⟩

theorem fieldRT_leb (ps : Nat) (data : Bytes) (nm : String) (sg : Bool) :
    FieldRT ps data (.leb nm sg) := by
  intro pos ns v sz m c h hc
  simp only [unpackField] at h
  obtain ⟨h, hc'⟩ := withFlag_some h
  obtain ⟨h1, h2⟩ := roundTrip_to (packLeb_unpackLeb h (by rw [← hc', hc]))
  exact ⟨by simpa [packField] using h1, h2, by simp [Field.sizeV]⟩

theorem fieldRT_bits (ps : Nat) (data : Bytes) (t : Letter) (be : Bool) (names : List String) (sizes : List Nat)
    (hwf : (Field.bits t be names sizes).wf ps = true) :
    FieldRT ps data (.bits t be names sizes) := by
  intro pos ns v sz m c h _
  simp only [Field.wf, Bool.and_eq_true, beq_iff_eq, decide_eq_true_eq, Bool.or_eq_true, bne_iff_ne, ne_eq] at hwf
  obtain ⟨⟨⟨_, hnd⟩, _⟩, hsg⟩ := hwf
  simp only [unpackField] at h
  obtain ⟨h, _⟩ := withFlag_some h
  obtain ⟨hrt, _⟩ := packBits_unpackBits h hnd (by
    intro hs
    rcases hsg with hn | hc
    · exact absurd hs hn
    · exact hc)
  obtain ⟨h1, h2⟩ := roundTrip_to hrt
  refine ⟨by simpa [packField] using h1, h2, ?_⟩
  intro s hs
  simp only [Field.sizeV, Option.some.injEq] at hs
  unfold unpackBits at h
  split at h
  · rename_i u sz0 m0 hraw
    have := unpackRaw_size hraw
    simp only [Nat.lt_irrefl, if_false, Nat.mul_one] at this
    simp only [Option.some.injEq, Prod.mk.injEq] at h
    omega
  · cases h

theorem fieldRT_bitsEx (ps : Nat) (data : Bytes) (ty : Def) (names : List String) (sizes : List Nat)
    (hwf : (Field.bitsEx ty names sizes).wf ps = true) :
    FieldRT ps data (.bitsEx ty names sizes) := by
  intro pos ns v sz m c h _
  simp only [Field.wf, Bool.and_eq_true, beq_iff_eq, decide_eq_true_eq] at hwf
  obtain ⟨⟨⟨_, _⟩, hnd⟩, hch⟩ := hwf
  cases hic : intChain ty with
  | none => rw [hic] at hch; simp at hch
  | some tb =>
    obtain ⟨t, be⟩ := tb
    rw [hic] at hch
    simp only [Bool.or_eq_true, bne_iff_ne, ne_eq, decide_eq_true_eq] at hch
    obtain ⟨c1, c2, c3, c4, _, c6⟩ := chainDef ps data ty t be hic
    simp only [unpackField, c1 pos, c3, c4] at h
    cases hr : unpackRaw ps t be 0 data pos with
    | none => rw [hr] at h; simp [withFlag] at h
    | some r =>
      obtain ⟨v0, n0, m0⟩ := r
      rw [hr] at h
      simp only [withFlag] at h
      split at h
      swap
      · cases h
      rename_i u n1 m1 c' heq
      simp only [Option.some.injEq, Prod.mk.injEq] at heq h
      obtain ⟨rfl, rfl, rfl, rfl⟩ := heq
      obtain ⟨rfl, rfl, rfl, _⟩ := h
      obtain ⟨bs, hsl, hu, hsz, henc, hptr⟩ := unpackRaw_int_inv hr
      have hub : unpackBits ps t be names sizes data pos
          = some (.dict (splitBits u names sizes 0), rawSize ps t, bitsMask be (rawSize ps t) (coveredBits names sizes)) := by
        unfold unpackBits
        rw [hr]
        simp only [hsz]
      obtain ⟨hrt, _⟩ := packBits_unpackBits hub hnd (by
        intro hs
        rcases hch with hn | hc
        · exact absurd hs hn
        · exact hc)
      obtain ⟨h1, h2⟩ := roundTrip_to hrt
      refine ⟨?_, h2, ?_⟩
      · rw [← h1]
        simp only [packField, packBits]
        cases hj : joinBits (splitBits u names sizes 0) names sizes 0 with
        | none => rfl
        | some U => simp only [c2 hptr]
      · intro s hs
        simp only [Field.sizeV, c3, Option.some.injEq] at hs
        exact hs

/-! ### the induction -/

theorem wf_def {ps : Nat} {kind : Kind} {packed : Bool} {fs : List Field}
    (h : (Def.mk kind packed fs).wf ps = true) :
    fieldsWf ps fs = true ∧ (allNames fs).Nodup ∧ (kind = .typedef → packed = false ∧ typedefShape fs = true) := by
  simp only [Def.wf, Bool.and_eq_true, decide_eq_true_eq] at h
  refine ⟨h.1.1, h.1.2, ?_⟩
  intro hk
  subst hk
  simpa using h.2

theorem wf_cons {ps : Nat} {f : Field} {fs : List Field} (h : fieldsWf ps (f :: fs) = true) :
    f.wf ps = true ∧ fieldsWf ps fs = true := by
  simpa [fieldsWf] using h

theorem fieldsWf_mem {ps : Nat} : ∀ (fs : List Field), fieldsWf ps fs = true → ∀ f ∈ fs, f.wf ps = true
  | [], _, f, hf => by simp at hf
  | g :: fs, h, f, hf => by
    obtain ⟨hg, hfs⟩ := wf_cons h
    simp only [List.mem_cons] at hf
    rcases hf with rfl | hf
    · exact hg
    · exact fieldsWf_mem fs hfs f hf

theorem namesOK_of_wf {ps : Nat} {f : Field} (h : f.wf ps = true) : NamesOK f := by
  constructor
  · intro t be names sizes e
    subst e
    simp only [Field.wf, Bool.and_eq_true, beq_iff_eq] at h
    exact h.1.1.1
  · intro ty names sizes e
    subst e
    simp only [Field.wf, Bool.and_eq_true, beq_iff_eq] at h
    exact h.1.1.2

/-! ### aggregates and typedefs, given the induction hypotheses -/

theorem agg_rt (ps : Nat) (data : Bytes) (u packed : Bool) (fs : List Field) (hfields : FieldsRT ps data fs)
    (hnd : (allNames fs).Nodup) (hok : ∀ f ∈ fs, NamesOK f) (kind : Kind) (hk : kind ≠ Kind.typedef)
    (hku : (kind == Kind.union) = u) (hm : (Def.mk kind packed fs).modelled ps = true) :
    ∀ pos v n m c, finishAgg ps u packed fs (unpackFields ps data pos u packed fs 0 []) = some (v, n, m, c) →
      c = true →
      packOne ps (.mk kind packed fs) v = some (canon m (data.drop pos)) ∧ m.length = n ∧
        (∀ s, (Def.mk kind packed fs).sizeV ps = some s → n = s) := by
  intro pos v n m c h hc
  have hApos : 0 < (if packed then 1 else maxList (alignVs ps fs)) := by
    have := (defRel ps _ hm).1
    simpa [Def.alignV] using this
  have hor : orOne (if packed then 1 else maxList (alignVs ps fs)) = (if packed then 1 else maxList (alignVs ps fs)) := by
    unfold orOne; rw [if_neg (by omega)]
  cases hu : unpackFields ps data pos u packed fs 0 [] with
  | none => rw [hu] at h; simp [finishAgg] at h
  | some r =>
    obtain ⟨ns, res⟩ := r
    rw [hu] at h
    simp only [finishAgg, Option.some.injEq, Prod.mk.injEq] at h
    obtain ⟨rfl, rfl, rfl, rfl⟩ := h
    have hflags : ∀ r ∈ res, r.2.2.2 = true := by
      intro r hr
      exact List.all_eq_true.mp hc r hr
    obtain ⟨p1, p2, p3, p4⟩ := hfields pos u packed 0 [] ns res hu hflags
    obtain ⟨hcol, _⟩ := collect_unpackFields ps data pos u packed fs 0 [] ns res hu hnd hok
    have hkt : (kind == Kind.typedef) = false := by
      cases kind <;> simp_all
    have hlen : (assemble u packed (if packed then 1 else maxList (alignVs ps fs))
          (zipAligns ps fs (res.map (·.2.2.1)))).length
        = padTail packed (if packed then 1 else maxList (alignVs ps fs))
            (lenLoop ps u packed fs (res.map (fun r => some r.2.1)) 0) := by
      rw [assemble_eq, padRes_length _ _ _ hApos]
      congr 1
      cases u
      · simp only [Bool.false_eq_true, if_false]
        have := assembleS_length ps packed fs res 0 p2 p3
        omega
      · simp only [if_true]
        have := longest_length_union ps packed fs res 0 p2 p3
        omega
    refine ⟨?_, hlen, ?_⟩
    · unfold packOne
      simp only [hkt, Bool.false_eq_true, if_false, hcol, p1, hku]
      rw [assemble_exp ps data pos u packed _ fs res p2 p3]
    · intro s hs
      simp only [Def.sizeV, hku, hor] at hs
      split at hs
      swap
      · cases hs
      rename_i sz0 hsl
      simp only [Option.some.injEq] at hs
      have hall := sizeLoop_all_some ps u packed fs 0 sz0 hsl
      rw [p4 hall, lenLoop_static ps u packed fs 0 sz0 hsl, hs]

theorem typedef_rt (ps : Nat) (data : Bytes) (f : Field) (ihf : FieldRT ps data f)
    (hm : (Def.mk Kind.typedef false [f]).modelled ps = true) :
    ∀ pos v n m c,
      finishTypedef false (f.alignV ps) (unpackField ps data pos [] f) = some (v, n, m, c) → c = true →
      packOne ps (.mk .typedef false [f]) v = some (canon m (data.drop pos)) ∧ m.length = n ∧
        (∀ s, (Def.mk Kind.typedef false [f]).sizeV ps = some s → n = s) := by
  intro pos v n m c h hc
  have hA : maxList (alignVs ps [f]) = f.alignV ps := by simp [alignVs, maxList]
  have hApos : 0 < f.alignV ps := by
    have := (defRel ps _ hm).1
    simpa [Def.alignV, hA] using this
  have hor : orOne (f.alignV ps) = f.alignV ps := by unfold orOne; rw [if_neg (by omega)]
  -- the member has a finite class-level size
  have hfin : ∃ fsz, f.sizeV ps = some fsz := by
    simp only [Def.modelled, Bool.and_eq_true] at hm
    have h2 := hm.2
    simp only [sizeLoop] at h2
    cases hs : f.sizeV ps with
    | none => rw [hs] at h2; simp at h2
    | some fsz => exact ⟨fsz, rfl⟩
  obtain ⟨fsz, hfsz⟩ := hfin
  cases hu : unpackField ps data pos [] f with
  | none => rw [hu] at h; simp [finishTypedef] at h
  | some r =>
    obtain ⟨v0, sz, m0, c0⟩ := r
    rw [hu] at h
    simp only [finishTypedef, Option.some.injEq, Prod.mk.injEq] at h
    obtain ⟨rfl, rfl, rfl, rfl⟩ := h
    obtain ⟨f1, f2, f3⟩ := ihf pos [] v0 sz m0 c0 hu hc
    have hsz : sz = fsz := f3 fsz hfsz
    have hge : sz ≤ padTail false (f.alignV ps) sz := by
      unfold padTail; simp only []; split <;> omega
    have hstatic : (Def.mk Kind.typedef false [f]).sizeV ps = some (padTail false (f.alignV ps) sz) := by
      simp only [Def.sizeV, sizeLoop, hfsz, show (Kind.typedef == Kind.union) = false from rfl, Bool.not_false,
        Bool.true_and, alignTo_zero, ite_self, Nat.zero_add, Bool.false_eq_true, if_false, hA, hor, hsz]
      simp
    refine ⟨?_, by simp [f2, zeros_length]; omega, fun s hs => by rw [hstatic] at hs; exact (Option.some.inj hs)⟩
    -- the packed bytes
    have hnotinst : (∀ ns l, v0 ≠ .inst ns l) →
        packOne ps (.mk .typedef false [f]) v0
          = some (padRes false (f.alignV ps) (canon m0 (data.drop pos))) := by
      intro hni
      have hku : (Kind.typedef == Kind.union) = false := rfl
      cases v0 with
      | inst ns l => exact absurd rfl (hni ns l)
      | int i =>
        simp only [packOne, packFields, f1, assemble_eq, hku, Bool.false_eq_true, if_false, assembleS, alignTo_zero,
          Nat.sub_self, zeros, List.replicate_zero, List.nil_append, List.append_nil, hA, ite_self]
      | bytes b =>
        simp only [packOne, packFields, f1, assemble_eq, hku, Bool.false_eq_true, if_false, assembleS, alignTo_zero,
          Nat.sub_self, zeros, List.replicate_zero, List.nil_append, List.append_nil, hA, ite_self]
      | seq vs =>
        simp only [packOne, packFields, f1, assemble_eq, hku, Bool.false_eq_true, if_false, assembleS, alignTo_zero,
          Nat.sub_self, zeros, List.replicate_zero, List.nil_append, List.append_nil, hA, ite_self]
      | dict kv =>
        simp only [packOne, packFields, f1, assemble_eq, hku, Bool.false_eq_true, if_false, assembleS, alignTo_zero,
          Nat.sub_self, zeros, List.replicate_zero, List.nil_append, List.append_nil, hA, ite_self]
      | pyNone =>
        simp only [packOne, packFields, f1, assemble_eq, hku, Bool.false_eq_true, if_false, assembleS, alignTo_zero,
          Nat.sub_self, zeros, List.replicate_zero, List.nil_append, List.append_nil, hA, ite_self]
    have hpad : padRes false (f.alignV ps) (canon m0 (data.drop pos))
        = canon (m0 ++ zeros (padTail false (f.alignV ps) sz - sz)) (data.drop pos) := by
      rw [canon_append_zeros]
      unfold padRes padTail
      simp only [Bool.false_eq_true, if_false, canon_length, f2, hor, Bool.not_false, Bool.true_and,
        decide_eq_true_eq]
      split
      · congr 2; omega
      · simp [zeros]
    by_cases hinst : ∃ ns l, v0 = .inst ns l
    · obtain ⟨ns, l, rfl⟩ := hinst
      -- an instance: the member is a nested type, which packs itself; its size is a multiple of its alignment
      cases f with
      | nest nm ty count =>
        have hcount : count = 0 := by
          by_contra hne
          simp [packField, hne] at f1
        subst hcount
        simp only [packField, if_true] at f1
        have hmt : ty.modelled ps = true := by
          have := (modelled_cons (modelled_def hm).1).1
          simpa [Field.modelled] using this
        have hts : ty.sizeV ps = some fsz := by
          cases hq : ty.sizeV ps with
          | none => simp [Field.sizeV, hq] at hfsz
          | some q => simpa [Field.sizeV, hq] using hfsz
        have hmod := sizeV_mod_alignV hmt hts
        have hpt : padTail false (Field.alignV ps (.nest nm ty 0)) sz = sz := by
          unfold padTail
          simp only [Field.alignV, hsz, hmod, Nat.lt_irrefl, decide_false, Bool.and_false, Bool.false_eq_true,
            if_false]
        simp only [packOne, show (Kind.typedef == Kind.typedef) = true from rfl, if_true, f1, hpt, Nat.sub_self,
          zeros, List.replicate_zero, List.append_nil]
      | raw nm t be count =>
        simp only [unpackField] at hu
        obtain ⟨hu, _⟩ := withFlag_some hu
        exact absurd hu unpackRaw_not_inst
      | bits t be names sizes =>
        have := unpackField_shape hu
        obtain ⟨u, hu'⟩ := this
        cases hu'
      | bitsEx ty names sizes =>
        have := unpackField_shape hu
        obtain ⟨u, hu'⟩ := this
        cases hu'
      | var nm t be => simp [Field.sizeV] at hfsz
      | cnt nm t be ct => simp [Field.sizeV] at hfsz
      | bound nm t be ref => simp [Field.sizeV] at hfsz
      | leb nm sg => simp [Field.sizeV] at hfsz
    · rw [hnotinst (fun ns l e => hinst ⟨ns, l, e⟩), hpad]

mutual
theorem fieldRT (ps : Nat) (data : Bytes) : (f : Field) → f.wf ps = true → f.modelled ps = true → FieldRT ps data f
  | .raw nm t be count, _, _ => fieldRT_raw ps data nm t be count
  | .bits t be names sizes, hwf, _ => fieldRT_bits ps data t be names sizes hwf
  | .var nm t be, _, _ => fieldRT_var ps data nm t be
  | .cnt nm t be ct, _, _ => fieldRT_cnt ps data nm t be ct
  | .bound nm t be ref, _, _ => fieldRT_bound ps data nm t be ref
  | .leb nm sg, _, _ => fieldRT_leb ps data nm sg
  | .bitsEx ty names sizes, hwf, _ => fieldRT_bitsEx ps data ty names sizes hwf
  | .nest nm ty count, hwf, hm => by
    have hwt : ty.wf ps = true := by simpa [Field.wf] using hwf
    have hmt : ty.modelled ps = true := by simpa [Field.modelled] using hm
    have ih := defRT ps data ty hwt hmt
    intro pos ns v sz m c h hc
    simp only [unpackField] at h
    by_cases hcount : count = 0
    · subst hcount
      simp only [if_true] at h
      split at h
      swap
      · cases h
      rename_i v0 n0 m0 c0 hd
      cases hs : ty.sizeV ps with
      | none =>
        rw [hs] at h
        simp only [Option.some.injEq, Prod.mk.injEq] at h
        obtain ⟨rfl, rfl, rfl, rfl⟩ := h
        obtain ⟨i1, i2, _⟩ := ih pos _ _ _ _ hd hc
        exact ⟨by simpa [packField] using i1, i2, by simp [Field.sizeV, hs]⟩
      | some s0 =>
        rw [hs] at h
        simp only [Option.some.injEq, Prod.mk.injEq] at h
        obtain ⟨rfl, rfl, rfl, rfl⟩ := h
        obtain ⟨i1, i2, i3⟩ := ih pos _ _ _ _ hd hc
        have := i3 _ hs
        refine ⟨by simpa [packField] using i1, by omega, ?_⟩
        intro s hs'
        simp only [Field.sizeV, hs, Nat.lt_irrefl, if_false, Option.some.injEq] at hs'
        exact hs'
    · simp only [hcount, if_false] at h
      split at h
      swap
      · cases h
      rename_i vs n0 m0 c0 hrep
      simp only [Option.some.injEq, Prod.mk.injEq] at h
      obtain ⟨rfl, rfl, rfl, rfl⟩ := h
      obtain ⟨j1, j2, j3⟩ := repeatAt_rt (data := data) (hp := fun x => packOne ps ty x)
        (fun p v n m c hg hc' => by
          obtain ⟨i1, i2, i3⟩ := ih p v n m c hg hc'
          exact ⟨i1, i2, i3⟩) count pos vs _ _ _ hrep hc
      refine ⟨by simpa [packField, hcount] using j1, j2, ?_⟩
      intro s hs'
      cases hs : ty.sizeV ps with
      | none => simp [Field.sizeV, hs] at hs'
      | some s0 =>
        have hc0 : 0 < count := by omega
        simp only [Field.sizeV, hs, hc0, if_true, Option.some.injEq] at hs'
        rw [j3 s0 hs, hs']
theorem defRT (ps : Nat) (data : Bytes) : (d : Def) → d.wf ps = true → d.modelled ps = true → DefRT ps data d
  | .mk kind packed fs, hwf, hm => by
    obtain ⟨hwfs, hnd, htd⟩ := wf_def hwf
    obtain ⟨hmfs, hne⟩ := modelled_def hm
    have ihs := fieldsRT ps data fs hwfs hmfs
    have hok : ∀ f ∈ fs, NamesOK f := fun f hf => namesOK_of_wf (fieldsWf_mem fs hwfs f hf)
    cases kind with
    | struct =>
      intro pos v n m c h hc
      simp only [unpackDef] at h
      exact agg_rt ps data false packed fs ihs hnd hok Kind.struct (by decide) rfl hm pos v n m c h hc
    | union =>
      intro pos v n m c h hc
      simp only [unpackDef] at h
      exact agg_rt ps data true packed fs ihs hnd hok Kind.union (by decide) rfl hm pos v n m c h hc
    | typedef =>
      obtain ⟨hpk, hshape⟩ := htd rfl
      subst hpk
      match fs, hshape, hwfs, hmfs, hm, ihs with
      | [], hshape, _, _, _, _ => simp [typedefShape] at hshape
      | _ :: _ :: _, hshape, _, _, _, _ => simp [typedefShape] at hshape
      | [f], _, hwfs, hmfs, hm, _ =>
        have ihf := fieldRT ps data f (wf_cons hwfs).1 (modelled_cons hmfs).1
        intro pos v n m c h hc
        have h' : finishTypedef false (f.alignV ps) (unpackField ps data pos [] f) = some (v, n, m, c) := by
          simpa [unpackDef, alignVs, maxList] using h
        exact typedef_rt ps data f ihf hm pos v n m c h' hc
theorem fieldsRT (ps : Nat) (data : Bytes) : (fs : List Field) → fieldsWf ps fs = true → fieldsModelled ps fs = true →
    FieldsRT ps data fs
  | [], _, _ => by
    intro base u p rel ns ns' res h _
    simp only [unpackFields, Option.some.injEq, Prod.mk.injEq] at h
    obtain ⟨rfl, rfl⟩ := h
    simp [packFields, expParts]
  | f :: fs, hwf, hm => by
    obtain ⟨hwf1, hwf2⟩ := wf_cons hwf
    obtain ⟨hm1, hm2⟩ := modelled_cons hm
    have ihf := fieldRT ps data f hwf1 hm1
    have ihs := fieldsRT ps data fs hwf2 hm2
    intro base u p rel ns ns' res h hflags
    unfold unpackFields at h
    simp only [] at h
    split at h
    · cases h
    · rename_i v sz m c hf
      split at h
      · cases h
      · rename_i ns2 res' hrest
        simp only [Option.some.injEq, Prod.mk.injEq] at h
        obtain ⟨rfl, rfl⟩ := h
        have hc : c = true := hflags (v, sz, m, c) (by simp)
        obtain ⟨f1, f2, f3⟩ := ihf _ _ _ _ _ _ hf hc
        obtain ⟨s1, s2, s3, s4⟩ := ihs base u p _ _ _ _ hrest (fun r hr => hflags r (by simp [hr]))
        refine ⟨?_, ?_, by simp [s3], ?_⟩
        · simp only [List.map_cons, packFields, f1, s1, expParts]
        · intro r hr
          simp only [List.mem_cons] at hr
          rcases hr with rfl | hr
          · exact f2
          · exact s2 r hr
        · intro hall
          have h1 := hall f (by simp)
          cases hs : f.sizeV ps with
          | none => rw [hs] at h1; simp at h1
          | some s0 =>
            simp only [List.map_cons, hs, f3 s0 hs, s4 (fun g hg => hall g (by simp [hg]))]
end

end Amoco.Struct
