/-
  Bit-field lemmas for C16: splitting a storage unit into parts and joining the parts again
  reproduces the covered bits of the unit.
-/
import Amoco.Proofs.Struct.Codec

namespace Amoco.Struct

/-! ### naturals: join ∘ split -/

/-- the value `BitField.pack` assembles from the parts of the unsigned unit value `N` -/
def joinNat (N : Nat) : List String → List Nat → Nat → Nat
  | _ :: nms, sz :: szs, l => (((N / 2 ^ l) % 2 ^ sz) <<< l) ||| joinNat N nms szs (l + sz)
  | _, _, _ => 0

theorem joinNat_testBit (N : Nat) : ∀ (names : List String) (sizes : List Nat) (l j : Nat),
    (joinNat N names sizes l).testBit j
      = (decide (l ≤ j ∧ j < l + coveredBits names sizes) && N.testBit j)
  | [], _, l, j => by simp [joinNat, coveredBits]
  | _ :: _, [], l, j => by simp [joinNat, coveredBits]
  | _ :: nms, sz :: szs, l, j => by
    simp only [joinNat, coveredBits, Nat.testBit_or, Nat.testBit_shiftLeft, Nat.testBit_mod_two_pow,
      Nat.testBit_div_two_pow, joinNat_testBit N nms szs (l + sz) j]
    by_cases h1 : l ≤ j
    · have e : j - l + l = j := by omega
      by_cases h2 : j < l + sz
      · have : j - l < sz := by omega
        have h3 : ¬ (l + sz ≤ j) := by omega
        simp [h1, h2, this, h3, e]
        intro _
        omega
      · have : ¬ (j - l < sz) := by omega
        have h3 : l + sz ≤ j := by omega
        simp [h1, this, h3, e]
        by_cases h4 : j < l + sz + coveredBits nms szs
        · have : j < l + (sz + coveredBits nms szs) := by omega
          simp [h4, this]
        · have : ¬ j < l + (sz + coveredBits nms szs) := by omega
          simp [h4, this]
    · have h3 : ¬ (l + sz ≤ j) := by omega
      simp [h1, h3]

theorem joinNat_zero (N : Nat) (names : List String) (sizes : List Nat) :
    joinNat N names sizes 0 = N % 2 ^ coveredBits names sizes := by
  apply Nat.eq_of_testBit_eq
  intro j
  rw [joinNat_testBit, Nat.testBit_mod_two_pow]
  simp

/-! ### bytes: masking a unit -/

theorem ofNat_and (a b : Nat) : UInt8.ofNat a &&& UInt8.ofNat b = UInt8.ofNat (a &&& b) := by
  apply UInt8.toNat_inj.mp
  rw [UInt8.toNat_and]
  simp only [UInt8.toNat_ofNat']
  have := @Nat.and_mod_two_pow a b 8
  simpa using this.symm

theorem canon_natLE : ∀ (k M N : Nat) (rest : Bytes),
    canon (natLE k M) (natLE k N ++ rest) = natLE k (M &&& N)
  | 0, _, _, _ => by simp [natLE, canon]
  | k + 1, M, N, rest => by
    have ih := canon_natLE k (M / 256) (N / 256) rest
    have h1 : (M &&& N) % 256 = M % 256 &&& N % 256 := @Nat.and_mod_two_pow M N 8
    have h2 : (M &&& N) / 256 = M / 256 &&& N / 256 := @Nat.and_div_two_pow M N 8
    simp only [natLE, List.cons_append, canon, ih, ofNat_and, h1, h2]

theorem canon_take (m X : Bytes) (n : Nat) (h : m.length ≤ n) : canon m X = canon m (X.take n) := by
  induction m generalizing X n with
  | nil => simp [canon]
  | cons a m ih =>
    cases X with
    | nil => simp
    | cons x X =>
      cases n with
      | zero => simp at h
      | succ n =>
        simp only [List.take_succ_cons, canon]
        rw [ih X n (by simpa using h)]

theorem canon_append_right (m a rest : Bytes) (h : m.length ≤ a.length) : canon m (a ++ rest) = canon m a := by
  rw [canon_take m (a ++ rest) a.length h, List.take_left' rfl]

theorem canon_reverse : ∀ (a b : Bytes), a.length = b.length →
    canon a.reverse b.reverse = (canon a b).reverse := by
  intro a
  induction a with
  | nil => intro b h; simp [canon]
  | cons x a ih =>
    intro b h
    cases b with
    | nil => simp at h
    | cons y b =>
      have hl : a.length = b.length := by simpa using h
      simp only [List.reverse_cons, canon]
      rw [canon_append, canon_append_right _ _ _ (by simp [hl]), ih b hl]
      have : (b.reverse ++ [y]).drop a.reverse.length = [y] := by
        rw [List.length_reverse, hl, ← List.length_reverse (as := b), List.drop_left]
      rw [this]
      simp [canon]

/-! ### splitting a signed / unsigned unit value -/

/-- the parts of a unit all lie below bit `b`, where the signed and the unsigned reading agree -/
theorem part_of_neg (N b l sz : Nat) (h : l + sz ≤ b) :
    (((N : Int) - (2 : Int) ^ b) / (2 : Int) ^ l) % (2 : Int) ^ sz = (((N / 2 ^ l) % 2 ^ sz : Nat) : Int) := by
  have hb : (2 : Int) ^ b = (2 : Int) ^ (b - l - sz) * (2 : Int) ^ sz * (2 : Int) ^ l := by
    rw [← Int.pow_add, ← Int.pow_add]; congr 1; omega
  have hl : ((2 : Int) ^ l) ≠ 0 := by positivity
  rw [hb, Int.sub_mul_ediv_right _ _ hl, Int.sub_emod, Int.mul_emod_left, Int.sub_zero, Int.emod_emod_of_dvd _ (dvd_refl _)]
  push_cast
  rfl

theorem part_of_pos (N l sz : Nat) :
    ((N : Int) / (2 : Int) ^ l) % (2 : Int) ^ sz = (((N / 2 ^ l) % 2 ^ sz : Nat) : Int) := by
  push_cast
  rfl

/-- `splitBits` on the decoded unit in terms of the unsigned unit value -/
def splitNat (N : Nat) : List String → List Nat → Nat → List (String × Int)
  | nm :: nms, sz :: szs, l => (nm, (((N / 2 ^ l) % 2 ^ sz : Nat) : Int)) :: splitNat N nms szs (l + sz)
  | _, _, _ => []

theorem splitBits_pos (N : Nat) : ∀ (names : List String) (sizes : List Nat) (l : Nat),
    splitBits (N : Int) names sizes l = splitNat N names sizes l
  | [], _, _ => by simp [splitBits, splitNat]
  | _ :: _, [], _ => by simp [splitBits, splitNat]
  | nm :: nms, sz :: szs, l => by
    simp only [splitBits, splitNat, part_of_pos, splitBits_pos N nms szs (l + sz)]

theorem splitBits_neg (N b : Nat) : ∀ (names : List String) (sizes : List Nat) (l : Nat),
    l + coveredBits names sizes ≤ b →
    splitBits ((N : Int) - (2 : Int) ^ b) names sizes l = splitNat N names sizes l
  | [], _, _, _ => by simp [splitBits, splitNat]
  | _ :: _, [], _, _ => by simp [splitBits, splitNat]
  | nm :: nms, sz :: szs, l, h => by
    simp only [coveredBits] at h
    simp only [splitBits, splitNat, part_of_neg N b l sz (by omega),
      splitBits_neg N b nms szs (l + sz) (by omega)]

/-! ### lookups in the dictionary of parts -/

theorem lookup_splitNat_skip (N : Nat) (nm : String) : ∀ (names : List String) (sizes : List Nat) (l : Nat),
    nm ∉ names → (splitNat N names sizes l).lookup nm = none
  | [], _, _, _ => by simp [splitNat]
  | _ :: _, [], _, _ => by simp [splitNat]
  | n :: nms, sz :: szs, l, h => by
    simp only [List.mem_cons, not_or] at h
    simp only [splitNat, List.lookup_cons]
    have : (nm == n) = false := by simpa using h.1
    rw [this]
    exact lookup_splitNat_skip N nm nms szs (l + sz) h.2

theorem joinBits_splitNat (N : Nat) : ∀ (names : List String) (sizes : List Nat) (l : Nat)
    (pre : List (String × Int)), names.Nodup → (∀ nm ∈ names, pre.lookup nm = none) →
    joinBits (pre ++ splitNat N names sizes l) names sizes l = some (joinNat N names sizes l)
  | [], _, _, _, _, _ => by simp [joinBits, joinNat]
  | _ :: _, [], _, _, _, _ => by simp [joinBits, joinNat]
  | nm :: nms, sz :: szs, l, pre, hnd, hpre => by
    have hnd' := List.nodup_cons.mp hnd
    have ih := joinBits_splitNat N nms szs (l + sz) (pre ++ [(nm, (((N / 2 ^ l) % 2 ^ sz : Nat) : Int))]) hnd'.2 (by
      intro x hx
      rw [List.lookup_append]
      have h1 := hpre x (by simp [hx])
      rw [h1]
      have : (x == nm) = false := by
        have : x ≠ nm := fun e => hnd'.1 (e ▸ hx)
        simpa using this
      simp [List.lookup_cons, this])
    simp only [List.append_assoc, List.cons_append, List.nil_append] at ih
    simp only [joinBits, splitNat, joinNat, ih]
    rw [List.lookup_append, hpre nm (by simp)]
    simp only [List.lookup_cons, beq_self_eq_true, Option.none_or]
    have hx : ((((N / 2 ^ l) % 2 ^ sz : Nat) : Int) % (2 : Int) ^ sz).toNat = (N / 2 ^ l) % 2 ^ sz := by
      have hlt : (N / 2 ^ l) % 2 ^ sz < 2 ^ sz := Nat.mod_lt _ (by positivity)
      have hltI : (((N / 2 ^ l) % 2 ^ sz : Nat) : Int) < (2 : Int) ^ sz := by
        have := Int.ofNat_lt.mpr hlt
        push_cast at this ⊢
        exact this
      rw [Int.emod_eq_of_lt (by omega) hltI]
      exact Int.toNat_natCast _
    rw [hx]

/-! ### the storage unit round trip -/

theorem bits_core (bs : Bytes) (hk : 0 < bs.length) (be sg : Bool) (names : List String) (sizes : List Nat)
    (hnd : names.Nodup) (hsg : sg = true → coveredBits names sizes < 8 * bs.length) :
    ∃ U : Nat, joinBits (splitBits (decInt be sg bs) names sizes 0) names sizes 0 = some U ∧
      encInt be sg bs.length (U : Int) = some (canon (bitsMask be bs.length (coveredBits names sizes)) bs) := by
  obtain ⟨le, hle⟩ : ∃ le : Bytes, le = (if be then bs.reverse else bs) := ⟨_, rfl⟩
  have hlen : le.length = bs.length := by rw [hle]; split <;> simp
  have hN : leNat le < 2 ^ (8 * bs.length) := by
    have := leNat_lt le; rw [hlen, pow256] at this; exact this
  refine ⟨leNat le % 2 ^ coveredBits names sizes, ?_, ?_⟩
  · -- the dictionary of parts joins to the covered bits of the unit
    have hsplit : splitBits (decInt be sg bs) names sizes 0 = splitNat (leNat le) names sizes 0 := by
      unfold decInt
      simp only []
      rw [← hle]
      split
      · rename_i hc
        simp only [Bool.and_eq_true, decide_eq_true_eq] at hc
        exact splitBits_neg _ _ _ _ _ (by have := hsg hc.1; omega)
      · exact splitBits_pos _ _ _ _
    rw [hsplit]
    have := joinBits_splitNat (leNat le) names sizes 0 [] hnd (by simp)
    simp only [List.nil_append] at this
    rw [this, joinNat_zero]
  · -- encoding that value gives the masked unit
    have hU : leNat le % 2 ^ coveredBits names sizes < 2 ^ (8 * bs.length) :=
      Nat.lt_of_le_of_lt (Nat.mod_le _ _) hN
    have henc := encInt_of_nat be sg bs.length (leNat le % 2 ^ coveredBits names sizes) hk hU
    have hcond : ¬ ((sg && decide (2 ^ (8 * bs.length - 1) ≤ leNat le % 2 ^ coveredBits names sizes)) = true) := by
      simp only [Bool.and_eq_true, decide_eq_true_eq, not_and]
      intro hs
      have hc := hsg hs
      have h1 : leNat le % 2 ^ coveredBits names sizes < 2 ^ coveredBits names sizes :=
        Nat.mod_lt _ (by positivity)
      have h2 : 2 ^ coveredBits names sizes ≤ 2 ^ (8 * bs.length - 1) :=
        Nat.pow_le_pow_right (by omega) (by omega)
      omega
    rw [if_neg hcond] at henc
    rw [henc]
    congr 1
    -- masked unit, byte order by byte order
    have hbs : natLE bs.length (leNat le) = le := by
      have := natLE_leNat le; rw [hlen] at this; exact this
    have hmask : natLE bs.length (leNat le % 2 ^ coveredBits names sizes)
        = canon (natLE bs.length (2 ^ coveredBits names sizes - 1)) le := by
      have := canon_natLE bs.length (2 ^ coveredBits names sizes - 1) (leNat le) []
      rw [List.append_nil, hbs] at this
      rw [this, Nat.and_comm, Nat.and_two_pow_sub_one_eq_mod]
    unfold bitsMask
    simp only [hmask]
    cases be
    · simp at hle; simp [hle]
    · simp only [if_true] at hle ⊢
      rw [hle, ← canon_reverse _ _ (by rw [natLE_length, List.length_reverse]), List.reverse_reverse]

end Amoco.Struct
