/-
  C16: packing the unpacked values reproduces the data bits of the original bytes.
  Helper lemmas (bit-field fields, typedef chains, arrays, the instance namespace, assembling)
  and the mutual induction over definitions.
-/
import Amoco.Proofs.Struct.Bits

namespace Amoco.Struct

/-! ### BitField -/

theorem unpackRaw_int_inv {ps : Nat} {t : Letter} {be : Bool} {data : Bytes} {pos : Nat} {u : Int} {sz : Nat}
    {m0 : Bytes} (h : unpackRaw ps t be 0 data pos = some (.int u, sz, m0)) :
    ∃ bs, slice data pos (rawSize ps t) = some bs ∧ u = decInt be (t.enc == .sint) bs ∧ sz = rawSize ps t ∧
      (t.enc = .sint ∨ t.enc = .uint) ∧ (t.isPtr && !ptrMapped ps) = false := by
  unfold unpackRaw at h
  simp only [Nat.lt_irrefl, if_false, Nat.mul_one] at h
  split at h
  · cases h
  · rename_i hptr
    split at h
    · cases h
    · rename_i bs hsl
      refine ⟨bs, hsl, ?_⟩
      split at h
      · simp at h
      · simp at h
      · rename_i henc
        simp only [if_true, Option.some.injEq, Prod.mk.injEq, Val.int.injEq] at h
        exact ⟨by rw [← h.1, henc]; rfl, h.2.1.symm, Or.inl henc, by simpa using hptr⟩
      · rename_i henc
        simp only [if_true, Option.some.injEq, Prod.mk.injEq, Val.int.injEq] at h
        exact ⟨by rw [← h.1, henc]; rfl, h.2.1.symm, Or.inr henc, by simpa using hptr⟩

theorem packRaw_int {ps : Nat} {t : Letter} {be : Bool} {i : Int}
    (henc : t.enc = .sint ∨ t.enc = .uint) (hptr : (t.isPtr && !ptrMapped ps) = false) :
    packRaw ps t be 0 (.int i) = encInt be (t.enc == .sint) (rawSize ps t) i := by
  have hP : (t == Letter.P && !ptrMapped ps) = false := by
    cases t <;> simp_all [Letter.isPtr]
  unfold packRaw
  simp only [hP, Bool.false_eq_true, if_false, hptr, Nat.lt_irrefl]
  rcases henc with h | h <;> simp [h] <;> rfl

theorem bitsMask_length (be : Bool) (k c : Nat) : (bitsMask be k c).length = k := by
  unfold bitsMask
  cases be <;> simp [natLE_length]

theorem packBits_unpackBits {ps : Nat} {t : Letter} {be : Bool} {names : List String} {sizes : List Nat}
    {data : Bytes} {pos : Nat} {r : Val × Nat × Bytes}
    (h : unpackBits ps t be names sizes data pos = some r) (hnd : names.Nodup)
    (hsg : t.enc = .sint → coveredBits names sizes < 8 * rawSize ps t) :
    RoundTrip data pos r (packBits ps t be names sizes r.1) ∧
      ∃ u, r.1 = .dict (splitBits u names sizes 0) := by
  unfold unpackBits at h
  split at h
  · rename_i u sz m0 hraw
    injection h with h; subst h
    obtain ⟨bs, hsl, hu, hsz, henc, hptr⟩ := unpackRaw_int_inv hraw
    obtain ⟨_, hbs, hlen⟩ := slice_some hsl
    have hk : 0 < bs.length := by rw [hlen]; exact rawSize_pos ps t
    obtain ⟨U, hj, he⟩ := bits_core bs hk be (t.enc == .sint) names sizes hnd (by
      intro hs
      rw [hlen]
      exact hsg (by simpa using hs))
    refine ⟨?_, u, rfl⟩
    unfold RoundTrip packBits
    simp only [hu, hj, packRaw_int henc hptr]
    rw [hlen] at he
    rw [he, hsz]
    refine ⟨?_, bitsMask_length _ _ _⟩
    congr 1
    rw [canon_take _ (data.drop pos) (rawSize ps t) (by rw [bitsMask_length]), ← hbs]
  · cases h

/-! ### arrays of a nested type -/

theorem pickStride_eq {stride : Option Nat} {n : Nat} (h : ∀ s, stride = some s → n = s) :
    pickStride stride n = n := by
  unfold pickStride
  cases stride with
  | none => rfl
  | some s => exact (h s rfl).symm

theorem repeatAt_rt {data : Bytes} {g : Nat → Option (Val × Nat × Bytes × Bool)} {hp : Val → Option Bytes}
    {stride : Option Nat}
    (hg : ∀ p v n m c, g p = some (v, n, m, c) → c = true →
      hp v = some (canon m (data.drop p)) ∧ m.length = n ∧ (∀ s, stride = some s → n = s)) :
    ∀ (count pos : Nat) (vs : List Val) (n : Nat) (m : Bytes) (c : Bool),
      repeatAt g stride count pos = some (vs, n, m, c) → c = true →
      mapJoin hp vs = some (canon m (data.drop pos)) ∧ m.length = n ∧ (∀ s, stride = some s → n = s * count)
  | 0, pos, vs, n, m, c, h, _ => by
    simp only [repeatAt, Option.some.injEq, Prod.mk.injEq] at h
    obtain ⟨rfl, rfl, rfl, _⟩ := h
    simp [mapJoin, canon]
  | k + 1, pos, vs, n, m, c, h, hc => by
    unfold repeatAt at h
    split at h
    · cases h
    · rename_i v1 n1 m1 c1 hg1
      simp only [] at h
      split at h
      · cases h
      · rename_i vs' n' m' c' hrest
        simp only [Option.some.injEq, Prod.mk.injEq] at h
        obtain ⟨rfl, rfl, rfl, rfl⟩ := h
        simp only [Bool.and_eq_true] at hc
        obtain ⟨h1, h2, h3⟩ := hg pos v1 n1 m1 c1 hg1 hc.1
        have hst : pickStride stride n1 = n1 := pickStride_eq h3
        rw [hst] at hrest ⊢
        obtain ⟨i1, i2, i3⟩ := repeatAt_rt hg k (pos + n1) vs' n' m' c' hrest hc.2
        refine ⟨?_, ?_, ?_⟩
        · simp only [mapJoin, h1, i1, canon_append, h2, List.drop_drop]
        · simp [h2, i2]
        · intro s hs
          rw [i3 s hs, h3 s hs]
          ring

/-! ### the instance namespace -/

theorem nsGet_nsSet : ∀ (ns : NS) (k k' : String) (v : Val),
    nsGet (nsSet ns k v) k' = if k = k' then some v else nsGet ns k'
  | [], k, k', v => by simp [nsSet, nsGet]
  | (a, b) :: r, k, k', v => by
    simp only [nsSet]
    by_cases h : a = k
    · subst h
      simp only [if_true, nsGet]
      by_cases h2 : a = k'
      · simp [h2]
      · simp [h2]
    · simp only [h, if_false, nsGet]
      by_cases h2 : a = k'
      · subst h2
        have : ¬ k = a := fun e => h e.symm
        simp [this]
      · simp only [h2, if_false]
        exact nsGet_nsSet r k k' v

/-- storing the parts of a bit-field -/
def storeParts (ns : NS) (kv : List (String × Int)) : NS :=
  kv.foldl (fun ns p => nsSet ns p.1 (.int p.2)) ns

theorem nsGet_storeParts_other : ∀ (kv : List (String × Int)) (ns : NS) (k : String),
    k ∉ kv.map (·.1) → nsGet (storeParts ns kv) k = nsGet ns k
  | [], _, _, _ => rfl
  | (a, x) :: kv, ns, k, h => by
    simp only [List.map_cons, List.mem_cons, not_or] at h
    unfold storeParts
    simp only [List.foldl_cons]
    have := nsGet_storeParts_other kv (nsSet ns a (.int x)) k h.2
    unfold storeParts at this
    rw [this, nsGet_nsSet]
    simp [Ne.symm h.1]

theorem nsGet_storeParts_mem : ∀ (kv : List (String × Int)) (ns : NS), (kv.map (·.1)).Nodup →
    ∀ p ∈ kv, nsGet (storeParts ns kv) p.1 = some (.int p.2)
  | [], _, _, p, hp => by simp at hp
  | (a, x) :: kv, ns, hnd, p, hp => by
    simp only [List.map_cons, List.nodup_cons] at hnd
    unfold storeParts
    simp only [List.foldl_cons]
    simp only [List.mem_cons] at hp
    rcases hp with rfl | hp
    · have := nsGet_storeParts_other kv (nsSet ns a (.int x)) a hnd.1
      unfold storeParts at this
      rw [this, nsGet_nsSet]
      simp
    · have := nsGet_storeParts_mem kv (nsSet ns a (.int x)) hnd.2 p hp
      unfold storeParts at this
      exact this

theorem splitBits_keys (u : Int) : ∀ (names : List String) (sizes : List Nat) (l : Nat),
    names.length = sizes.length → (splitBits u names sizes l).map (·.1) = names
  | [], [], _, _ => by simp [splitBits]
  | [], _ :: _, _, h => by simp at h
  | _ :: _, [], _, h => by simp at h
  | nm :: nms, sz :: szs, l, h => by
    simp only [splitBits, List.map_cons, splitBits_keys u nms szs (l + sz) (by simpa using h)]

/-- reading the parts of a bit-field back from the namespace -/
theorem mapM_parts (ns : NS) : ∀ (kv : List (String × Int)),
    (∀ p ∈ kv, nsGet ns p.1 = some (.int p.2)) →
    (kv.map (·.1)).mapM (partOf ns) = some kv
  | [], _ => by simp
  | (a, x) :: kv, h => by
    have h1 := h (a, x) (by simp)
    have ih := mapM_parts ns kv (fun p hp => h p (by simp [hp]))
    simp only [List.map_cons, List.mapM_cons, partOf, h1, ih]
    rfl

/-! ### assembling parts and masks -/

theorem alignTo_ge (o a : Nat) : o ≤ alignTo o a := by
  unfold alignTo
  split
  · exact Nat.le_refl _
  · simp only []
    split <;> omega

/-- the parts `packFields` returns for the result `res` of `unpackFields` started at `rel` -/
def expParts (ps : Nat) (data : Bytes) (base : Nat) (isUnion packed : Bool) :
    List Field → List (Val × Nat × Bytes × Bool) → Nat → List (Nat × Bytes)
  | f :: fs, (_, sz, m, _) :: res, rel =>
    (f.alignV ps, canon m (data.drop (base + (if !isUnion && !packed then alignTo rel (f.alignV ps) else rel)))) ::
      expParts ps data base isUnion packed fs res
        (if isUnion then (if !isUnion && !packed then alignTo rel (f.alignV ps) else rel)
         else (if !isUnion && !packed then alignTo rel (f.alignV ps) else rel) + sz)
  | _, _, _ => []

theorem assembleS_exp (ps : Nat) (data : Bytes) (base : Nat) (packed : Bool) :
    ∀ (fs : List Field) (res : List (Val × Nat × Bytes × Bool)) (rel : Nat),
    (∀ r ∈ res, r.2.2.1.length = r.2.1) →
    assembleS packed (expParts ps data base false packed fs res rel) rel
      = canon (assembleS packed (zipAligns ps fs (res.map (·.2.2.1))) rel) (data.drop (base + rel))
  | [], _, _, _ => by simp [expParts, zipAligns, assembleS, canon]
  | _ :: _, [], _, _ => by simp [expParts, zipAligns, assembleS, canon]
  | f :: fs, (v, sz, m, c) :: res, rel, hl => by
    have hm : m.length = sz := hl (v, sz, m, c) (by simp)
    have ih := fun rel' => assembleS_exp ps data base packed fs res rel' (fun r hr => hl r (by simp [hr]))
    have hge := alignTo_ge rel (f.alignV ps)
    cases packed
    · simp only [expParts, Bool.not_false, Bool.and_self, if_true, Bool.false_eq_true, if_false, assembleS,
        List.map_cons, zipAligns, canon_length, hm]
      have e1 : rel + (alignTo rel (f.alignV ps) - rel + sz) = alignTo rel (f.alignV ps) + sz := by omega
      rw [e1, ih, canon_append, canon_append, canon_zeros, zeros_length, List.length_append, zeros_length, hm,
        List.drop_drop, List.drop_drop]
      have e2 : base + rel + (alignTo rel (f.alignV ps) - rel) = base + alignTo rel (f.alignV ps) := by omega
      have e3 : base + rel + (alignTo rel (f.alignV ps) - rel + sz) = base + (alignTo rel (f.alignV ps) + sz) := by omega
      rw [e2, e3]
    · simp only [expParts, Bool.not_false, Bool.not_true, Bool.and_false, Bool.false_eq_true, if_false, if_true,
        assembleS, List.map_cons, zipAligns, canon_length, hm, zeros, List.replicate_zero, List.nil_append,
        Nat.zero_add]
      rw [ih, canon_append, hm, List.drop_drop]
      have e3 : base + rel + sz = base + (rel + sz) := by omega
      rw [e3]

theorem longest_canon (X : Bytes) : ∀ (ms : List Bytes),
    longest (ms.map (fun m => canon m X)) = canon (longest ms) X
  | [] => by simp [longest, canon]
  | m :: ms => by
    have ih := longest_canon X ms
    simp only [List.map_cons, longest, ih, canon_length]
    split <;> rfl

theorem expParts_union (ps : Nat) (data : Bytes) (base : Nat) (packed : Bool) :
    ∀ (fs : List Field) (res : List (Val × Nat × Bytes × Bool)) (rel : Nat), res.length = fs.length →
    (expParts ps data base true packed fs res rel).map (·.2)
      = ((zipAligns ps fs (res.map (·.2.2.1))).map (·.2)).map (fun m => canon m (data.drop (base + rel)))
  | [], [], _, _ => by simp [expParts, zipAligns]
  | [], _ :: _, _, h => by simp at h
  | _ :: _, [], _, h => by simp at h
  | f :: fs, (v, sz, m, c) :: res, rel, h => by
    have ih := expParts_union ps data base packed fs res rel (by simpa using h)
    simp only [expParts, Bool.not_true, Bool.false_and, Bool.false_eq_true, if_false, if_true, List.map_cons,
      zipAligns, ih]

theorem canon_append_zeros (m X : Bytes) (k : Nat) : canon (m ++ zeros k) X = canon m X ++ zeros k := by
  rw [canon_append, canon_zeros]

/-- the trailing padding of `pack` -/
def padRes (packed : Bool) (A : Nat) (res : Bytes) : Bytes :=
  if packed then res
  else if res.length % orOne A > 0 then res ++ zeros (orOne A - res.length % orOne A) else res

theorem assemble_eq (isUnion packed : Bool) (A : Nat) (parts : List (Nat × Bytes)) :
    assemble isUnion packed A parts
      = padRes packed A (if isUnion then longest (parts.map (·.2)) else assembleS packed parts 0) := rfl

theorem padRes_canon (packed : Bool) (A : Nat) (B X : Bytes) :
    padRes packed A (canon B X) = canon (padRes packed A B) X := by
  unfold padRes
  cases packed
  · simp only [Bool.false_eq_true, if_false, canon_length]
    by_cases hr : B.length % orOne A > 0
    · rw [if_pos hr, if_pos hr, canon_append_zeros]
    · rw [if_neg hr, if_neg hr]
  · simp

/-- the tail of `pack`: the same trailing padding for the parts and for the masks -/
theorem assemble_exp (ps : Nat) (data : Bytes) (base : Nat) (isUnion packed : Bool) (A : Nat)
    (fs : List Field) (res : List (Val × Nat × Bytes × Bool))
    (hl : ∀ r ∈ res, r.2.2.1.length = r.2.1) (hlen : res.length = fs.length) :
    assemble isUnion packed A (expParts ps data base isUnion packed fs res 0)
      = canon (assemble isUnion packed A (zipAligns ps fs (res.map (·.2.2.1)))) (data.drop base) := by
  have hbody : (if isUnion then longest ((expParts ps data base isUnion packed fs res 0).map (·.2))
        else assembleS packed (expParts ps data base isUnion packed fs res 0) 0)
      = canon (if isUnion then longest ((zipAligns ps fs (res.map (·.2.2.1))).map (·.2))
          else assembleS packed (zipAligns ps fs (res.map (·.2.2.1))) 0) (data.drop base) := by
    cases isUnion
    · simp only [Bool.false_eq_true, if_false]
      have := assembleS_exp ps data base packed fs res 0 hl
      simpa using this
    · simp only [if_true]
      rw [expParts_union ps data base packed fs res 0 hlen, longest_canon]
      simp
  rw [assemble_eq, assemble_eq, hbody, padRes_canon]

/-! ### lengths: `__len__` of the instance is the length of what `pack` assembles -/

theorem assembleS_length (ps : Nat) (packed : Bool) :
    ∀ (fs : List Field) (res : List (Val × Nat × Bytes × Bool)) (rel : Nat),
    (∀ r ∈ res, r.2.2.1.length = r.2.1) → res.length = fs.length →
    rel + (assembleS packed (zipAligns ps fs (res.map (·.2.2.1))) rel).length
      = lenLoop ps false packed fs (res.map (fun r => some r.2.1)) rel
  | [], [], _, _, _ => by simp [zipAligns, assembleS, lenLoop]
  | [], _ :: _, _, _, h => by simp at h
  | _ :: _, [], _, _, h => by simp at h
  | f :: fs, (v, sz, m, c) :: res, rel, hl, h => by
    have hm : m.length = sz := hl (v, sz, m, c) (by simp)
    have ih := fun rel' => assembleS_length ps packed fs res rel' (fun r hr => hl r (by simp [hr])) (by simpa using h)
    have hge := alignTo_ge rel (f.alignV ps)
    cases packed
    · simp only [List.map_cons, zipAligns, assembleS, Bool.false_eq_true, if_false, List.length_append,
        zeros_length, hm, lenLoop, Bool.not_false, Bool.and_self, if_true]
      rw [← ih]
      have e1 : rel + (alignTo rel (f.alignV ps) - rel + sz) = alignTo rel (f.alignV ps) + sz := by omega
      rw [e1]; omega
    · simp only [List.map_cons, zipAligns, assembleS, if_true, List.length_append, zeros_length, hm, lenLoop,
        Bool.not_false, Bool.not_true, Bool.and_false, Bool.false_eq_true, if_false, Nat.zero_add]
      rw [← ih]; omega

theorem longest_length_union (ps : Nat) (packed : Bool) :
    ∀ (fs : List Field) (res : List (Val × Nat × Bytes × Bool)) (sz0 : Nat),
    (∀ r ∈ res, r.2.2.1.length = r.2.1) → res.length = fs.length →
    max sz0 (longest ((zipAligns ps fs (res.map (·.2.2.1))).map (·.2))).length
      = lenLoop ps true packed fs (res.map (fun r => some r.2.1)) sz0
  | [], [], _, _, _ => by simp [zipAligns, longest, lenLoop]
  | [], _ :: _, _, _, h => by simp at h
  | _ :: _, [], _, _, h => by simp at h
  | f :: fs, (v, sz, m, c) :: res, sz0, hl, h => by
    have hm : m.length = sz := hl (v, sz, m, c) (by simp)
    have ih := fun s' => longest_length_union ps packed fs res s' (fun r hr => hl r (by simp [hr])) (by simpa using h)
    simp only [List.map_cons, zipAligns, longest, lenLoop, Bool.not_true, Bool.false_and, Bool.false_eq_true,
      if_false]
    rw [← ih]
    split <;> split <;> omega

/-! ### what `collect` finds in the namespace after `unpackFields` -/

/-- the value `unpackField` returns for a bit-field is the dictionary of its parts -/
def ValShape (f : Field) (v : Val) : Prop :=
  match f with
  | .bits _ _ names sizes => ∃ u, v = .dict (splitBits u names sizes 0)
  | .bitsEx _ names sizes => ∃ u, v = .dict (splitBits u names sizes 0)
  | _ => True

theorem withFlag_some {c : Bool} {o : Option (Val × Nat × Bytes)} {v : Val} {n : Nat} {m : Bytes} {c' : Bool}
    (h : withFlag c o = some (v, n, m, c')) : o = some (v, n, m) ∧ c' = c := by
  cases o with
  | none => simp [withFlag] at h
  | some r =>
    obtain ⟨a, b, d⟩ := r
    simp only [withFlag, Option.some.injEq, Prod.mk.injEq] at h
    obtain ⟨rfl, rfl, rfl, rfl⟩ := h
    exact ⟨rfl, rfl⟩

theorem unpackField_shape {ps : Nat} {data : Bytes} {pos : Nat} {ns : NS} {f : Field} {v : Val} {sz : Nat}
    {m : Bytes} {c : Bool} (h : unpackField ps data pos ns f = some (v, sz, m, c)) : ValShape f v := by
  cases f with
  | bits t be names sizes =>
    simp only [unpackField] at h
    obtain ⟨h, _⟩ := withFlag_some h
    unfold unpackBits at h
    split at h
    · rename_i u _ _ _
      simp only [Option.some.injEq, Prod.mk.injEq] at h
      exact ⟨u, h.1.symm⟩
    · cases h
  | bitsEx ty names sizes =>
    simp only [unpackField] at h
    split at h
    · rename_i u _ _ _ _
      split at h
      · simp only [Option.some.injEq, Prod.mk.injEq] at h
        exact ⟨u, h.1.symm⟩
      · cases h
    · cases h
  | _ => trivial

theorem store_other {f : Field} {v : Val} {ns : NS} {k : String} (hs : ValShape f v)
    (hwf : ∀ t be names sizes, f = .bits t be names sizes → names.length = sizes.length)
    (hwf' : ∀ ty names sizes, f = .bitsEx ty names sizes → names.length = sizes.length)
    (hk : k ∉ f.names) : nsGet (store f v ns) k = nsGet ns k := by
  cases f with
  | bits t be names sizes =>
    obtain ⟨u, rfl⟩ := hs
    simp only [store]
    apply nsGet_storeParts_other
    rw [splitBits_keys u names sizes 0 (hwf t be names sizes rfl)]
    simpa [Field.names] using hk
  | bitsEx ty names sizes =>
    obtain ⟨u, rfl⟩ := hs
    simp only [store]
    apply nsGet_storeParts_other
    rw [splitBits_keys u names sizes 0 (hwf' ty names sizes rfl)]
    simpa [Field.names] using hk
  | raw nm t be count =>
    simp only [store, nsGet_nsSet]
    have : ¬ Field.name (.raw nm t be count) = k := by
      intro e; apply hk; simp [Field.names, e]
    simp [this]
  | nest nm ty count =>
    simp only [store, nsGet_nsSet]
    have : ¬ Field.name (.nest nm ty count) = k := by
      intro e; apply hk; simp [Field.names, e]
    simp [this]
  | var nm t be =>
    simp only [store, nsGet_nsSet]
    have : ¬ Field.name (.var nm t be) = k := by
      intro e; apply hk; simp [Field.names, e]
    simp [this]
  | cnt nm t be ct =>
    simp only [store, nsGet_nsSet]
    have : ¬ Field.name (.cnt nm t be ct) = k := by
      intro e; apply hk; simp [Field.names, e]
    simp [this]
  | bound nm t be ref =>
    simp only [store, nsGet_nsSet]
    have : ¬ Field.name (.bound nm t be ref) = k := by
      intro e; apply hk; simp [Field.names, e]
    simp [this]
  | leb nm sg =>
    simp only [store, nsGet_nsSet]
    have : ¬ Field.name (.leb nm sg) = k := by
      intro e; apply hk; simp [Field.names, e]
    simp [this]

/-- the part of `Field.wf` the namespace lemmas need -/
def NamesOK (f : Field) : Prop :=
  (∀ t be names sizes, f = .bits t be names sizes → names.length = sizes.length) ∧
  (∀ ty names sizes, f = .bitsEx ty names sizes → names.length = sizes.length)

/-- `collect` at field `f` in a namespace that still holds what `store f v` put there -/
theorem collect_here {f : Field} {v : Val} {ns ns' : NS} (hs : ValShape f v) (hok : NamesOK f)
    (hnd : f.names.Nodup) (hsame : ∀ k ∈ f.names, nsGet ns' k = nsGet (store f v ns) k) :
    collectAt ns' f = some v := by
  cases f with
  | bits t be names sizes =>
    obtain ⟨u, rfl⟩ := hs
    have hkeys := splitBits_keys u names sizes 0 (hok.1 t be names sizes rfl)
    simp only [Field.names] at hnd hsame
    have := mapM_parts ns' (splitBits u names sizes 0) (by
      intro p hp
      have hmem : p.1 ∈ names := by rw [← hkeys]; exact List.mem_map_of_mem hp
      rw [hsame p.1 hmem]
      simp only [store]
      exact nsGet_storeParts_mem _ _ (by rw [hkeys]; exact hnd) p hp)
    rw [hkeys] at this
    simp only [collectAt, this, Option.map_some]
  | bitsEx ty names sizes =>
    obtain ⟨u, rfl⟩ := hs
    have hkeys := splitBits_keys u names sizes 0 (hok.2 ty names sizes rfl)
    simp only [Field.names] at hnd hsame
    have := mapM_parts ns' (splitBits u names sizes 0) (by
      intro p hp
      have hmem : p.1 ∈ names := by rw [← hkeys]; exact List.mem_map_of_mem hp
      rw [hsame p.1 hmem]
      simp only [store]
      exact nsGet_storeParts_mem _ _ (by rw [hkeys]; exact hnd) p hp)
    rw [hkeys] at this
    simp only [collectAt, this, Option.map_some]
  | raw nm t be count =>
    simp only [collectAt]
    rw [hsame _ (by simp [Field.names])]
    simp [store, nsGet_nsSet]
  | nest nm ty count =>
    simp only [collectAt]
    rw [hsame _ (by simp [Field.names])]
    simp [store, nsGet_nsSet]
  | var nm t be =>
    simp only [collectAt]
    rw [hsame _ (by simp [Field.names])]
    simp [store, nsGet_nsSet]
  | cnt nm t be ct =>
    simp only [collectAt]
    rw [hsame _ (by simp [Field.names])]
    simp [store, nsGet_nsSet]
  | bound nm t be ref =>
    simp only [collectAt]
    rw [hsame _ (by simp [Field.names])]
    simp [store, nsGet_nsSet]
  | leb nm sg =>
    simp only [collectAt]
    rw [hsame _ (by simp [Field.names])]
    simp [store, nsGet_nsSet]

theorem collect_unpackFields (ps : Nat) (data : Bytes) (base : Nat) (u p : Bool) :
    ∀ (fs : List Field) (rel : Nat) (ns ns' : NS) (res : List (Val × Nat × Bytes × Bool)),
    unpackFields ps data base u p fs rel ns = some (ns', res) →
    (allNames fs).Nodup → (∀ f ∈ fs, NamesOK f) →
    collect ns' fs = some (res.map (·.1)) ∧ (∀ k, k ∉ allNames fs → nsGet ns' k = nsGet ns k)
  | [], rel, ns, ns', res, h, _, _ => by
    simp only [unpackFields, Option.some.injEq, Prod.mk.injEq] at h
    obtain ⟨rfl, rfl⟩ := h
    simp [collect]
  | f :: fs, rel, ns, ns', res, h, hnd, hok => by
    unfold unpackFields at h
    simp only [] at h
    split at h
    · cases h
    · rename_i v sz m c hf
      split at h
      · cases h
      · rename_i ns2 res' hrest
        simp only [Option.some.injEq, Prod.mk.injEq] at h
        obtain ⟨rfl, rfl⟩ := h
        simp only [allNames] at hnd
        have hnd' := List.nodup_append.mp hnd
        obtain ⟨ih1, ih2⟩ := collect_unpackFields ps data base u p fs _ _ _ _ hrest hnd'.2.1
          (fun g hg => hok g (by simp [hg]))
        have hshape := unpackField_shape hf
        have hokf := hok f (by simp)
        have hdisj : ∀ k ∈ f.names, k ∉ allNames fs := by
          intro k hk hk'
          exact hnd'.2.2 k hk k hk' rfl
        have hhere := collect_here (ns := ns) (ns' := ns2) hshape hokf hnd'.1 (fun k hk => ih2 k (hdisj k hk))
        refine ⟨?_, ?_⟩
        · unfold collect
          simp only [hhere, ih1, List.map_cons]
        · intro k hk
          simp only [allNames, List.mem_append, not_or] at hk
          rw [ih2 k hk.2, store_other hshape hokf.1 hokf.2 hk.1]

/-! ### typedef chains ending in an integer scalar (storage type of a `BitFieldEx`) -/

theorem unpackRaw_size {ps : Nat} {t : Letter} {be : Bool} {count : Nat} {data : Bytes} {pos : Nat}
    {r : Val × Nat × Bytes} (h : unpackRaw ps t be count data pos = some r) :
    r.2.1 = rawSize ps t * (if count > 0 then count else 1) := by
  unfold unpackRaw at h
  simp only [] at h
  split at h
  · cases h
  · split at h
    · cases h
    · split at h
      · split at h
        · rename_i hc
          injection h with h; subst h
          simp only [hc, if_true]
        · cases h
      · injection h with h; subst h; rfl
      · split at h <;> (injection h with h; subst h; rfl)
      · split at h <;> (injection h with h; subst h; rfl)

theorem encInt_length {be sg : Bool} {k : Nat} {v : Int} {p : Bytes} (h : encInt be sg k v = some p) :
    p.length = k := by
  unfold encInt at h
  simp only [] at h
  generalize (if sg = true then decide (-((2 : Int) ^ (8 * k - 1)) ≤ v ∧ v < (2 : Int) ^ (8 * k - 1))
    else decide (0 ≤ v ∧ v < (2 : Int) ^ (8 * k))) = ok at h
  cases ok
  · simp at h
  · simp only [if_true, Option.some.injEq] at h
    rw [← h]
    split <;> simp [natLE_length]

theorem packRaw_int_length {ps : Nat} {t : Letter} {be : Bool} {U : Int} {p : Bytes}
    (henc : t.enc = .sint ∨ t.enc = .uint) (hptr : (t.isPtr && !ptrMapped ps) = false)
    (h : packRaw ps t be 0 (.int U) = some p) : p.length = rawSize ps t := by
  rw [packRaw_int henc hptr] at h
  exact encInt_length h

theorem alignTo_zero (a : Nat) : alignTo 0 a = 0 := by
  unfold alignTo
  split
  · rfl
  · simp

theorem padTail_unit {packed : Bool} {A e : Nat} (hA : A = 1 ∨ A = e) : padTail packed A e = e := by
  unfold padTail
  rcases hA with rfl | rfl <;> simp [Nat.mod_one]

theorem padRes_unit {packed : Bool} {A : Nat} {p : Bytes} (he : 0 < p.length) (hA : A = 1 ∨ A = p.length) :
    padRes packed A p = p := by
  unfold padRes orOne
  cases packed
  · rcases hA with rfl | rfl
    · simp [Nat.mod_one]
    · have : ¬ p.length = 0 := by omega
      simp [this]
  · simp

def ChainF (ps : Nat) (data : Bytes) (f : Field) (t : Letter) (be : Bool) : Prop :=
  (∀ pos ns, unpackField ps data pos ns f = withFlag true (unpackRaw ps t be 0 data pos)) ∧
  ((t.isPtr && !ptrMapped ps) = false → ∀ U : Int, packField ps f (.int U) = packRaw ps t be 0 (.int U)) ∧
  f.sizeV ps = some (rawSize ps t) ∧ bitsExBEField f = be ∧
  (f.alignV ps = 1 ∨ f.alignV ps = rawSize ps t) ∧ (t.enc = .sint ∨ t.enc = .uint)

def ChainD (ps : Nat) (data : Bytes) (d : Def) (t : Letter) (be : Bool) : Prop :=
  (∀ pos, unpackDef ps data pos d = withFlag true (unpackRaw ps t be 0 data pos)) ∧
  ((t.isPtr && !ptrMapped ps) = false → ∀ U : Int, packOne ps d (.int U) = packRaw ps t be 0 (.int U)) ∧
  d.sizeV ps = some (rawSize ps t) ∧ bitsExBE d = be ∧
  (d.alignV ps = 1 ∨ d.alignV ps = rawSize ps t) ∧ (t.enc = .sint ∨ t.enc = .uint)

mutual
theorem chainField (ps : Nat) (data : Bytes) : (f : Field) → (t : Letter) → (be : Bool) →
    intChainField f = some (t, be) → ChainF ps data f t be
  | .raw nm t' be' count, t, be, h => by
    simp only [intChainField] at h
    split at h
    · rename_i hc
      simp only [Option.some.injEq, Prod.mk.injEq] at h
      obtain ⟨rfl, rfl⟩ := h
      simp only [Bool.and_eq_true, decide_eq_true_eq, Bool.or_eq_true, beq_iff_eq] at hc
      obtain ⟨rfl, henc⟩ := hc
      refine ⟨fun pos ns => by simp [unpackField], fun _ U => by simp [packField], ?_, by simp [bitsExBEField],
        Or.inr (by simp [Field.alignV]), henc⟩
      simp [Field.sizeV]
    · cases h
  | .nest nm ty count, t, be, h => by
    simp only [intChainField] at h
    split at h
    · rename_i hc
      subst hc
      obtain ⟨h1, h2, h3, h4, h5, h6⟩ := chainDef ps data ty t be h
      refine ⟨?_, ?_, ?_, by simp [bitsExBEField, h4], by simpa [Field.alignV] using h5, h6⟩
      · intro pos ns
        simp only [unpackField, if_true, h1 pos, h3]
        cases hr : unpackRaw ps t be 0 data pos with
        | none => simp [withFlag]
        | some r =>
          obtain ⟨v, sz, m⟩ := r
          have := unpackRaw_size hr
          simp only [Nat.lt_irrefl, if_false, Nat.mul_one] at this
          simp only [withFlag, this]
      · intro hp U
        simp only [packField, if_true, h2 hp U]
      · simp only [Field.sizeV, h3, Nat.lt_irrefl, if_false]
    · cases h
  | .bits .., _, _, h => by simp [intChainField] at h
  | .bitsEx .., _, _, h => by simp [intChainField] at h
  | .var .., _, _, h => by simp [intChainField] at h
  | .cnt .., _, _, h => by simp [intChainField] at h
  | .bound .., _, _, h => by simp [intChainField] at h
  | .leb .., _, _, h => by simp [intChainField] at h
theorem chainDef (ps : Nat) (data : Bytes) : (d : Def) → (t : Letter) → (be : Bool) →
    intChain d = some (t, be) → ChainD ps data d t be
  | .mk kind packed [], t, be, h => by
    simp only [intChain, intChainFields] at h
    split at h <;> cases h
  | .mk kind packed (_ :: _ :: _), t, be, h => by
    simp only [intChain, intChainFields] at h
    split at h <;> cases h
  | .mk kind packed [f], t, be, h => by
    simp only [intChain, intChainFields] at h
    split at h
    swap
    · cases h
    rename_i hk
    have hkind : kind = Kind.typedef := by simpa using hk
    subst hkind
    obtain ⟨h1, h2, h3, h4, h5, h6⟩ := chainField ps data f t be h
    have hesz := rawSize_pos ps t
    have hA : (if packed then 1 else maxList (alignVs ps [f])) = 1 ∨
        (if packed then 1 else maxList (alignVs ps [f])) = rawSize ps t := by
      cases packed
      · simpa [alignVs, maxList] using h5
      · exact Or.inl rfl
    refine ⟨?_, ?_, ?_, by simp [bitsExBE, bitsExBEFields, h4], ?_, h6⟩
    · intro pos
      simp only [unpackDef, h1 pos []]
      cases hr : unpackRaw ps t be 0 data pos with
      | none => simp [withFlag, finishTypedef]
      | some r =>
        obtain ⟨v, sz, m⟩ := r
        have hsz := unpackRaw_size hr
        simp only [Nat.lt_irrefl, if_false, Nat.mul_one] at hsz
        subst hsz
        simp only [withFlag, finishTypedef, padTail_unit hA, Nat.sub_self, zeros, List.replicate_zero,
          List.append_nil]
    · intro hp U
      have hpk := h2 hp U
      simp only [packOne, packFields, hpk]
      cases hr : packRaw ps t be 0 (.int U) with
      | none => rfl
      | some p =>
        have hl := packRaw_int_length h6 hp hr
        have hku : (Kind.typedef == Kind.union) = false := rfl
        simp only [assemble_eq, hku, Bool.false_eq_true, if_false, assembleS, alignTo_zero, Nat.sub_self, zeros,
          List.replicate_zero, List.nil_append, List.append_nil, ite_self]
        rw [padRes_unit (by omega) (by rw [hl]; exact hA)]
    · have hA' : orOne (if packed then 1 else maxList (alignVs ps [f])) = 1 ∨
          orOne (if packed then 1 else maxList (alignVs ps [f])) = rawSize ps t := by
        unfold orOne
        rcases hA with e | e <;> rw [e]
        · simp
        · have : ¬ rawSize ps t = 0 := by omega
          simp [this]
      simp only [Def.sizeV, sizeLoop, h3, show (Kind.typedef == Kind.union) = false from rfl, Bool.not_false,
        Bool.true_and, alignTo_zero, ite_self, Nat.zero_add, Bool.false_eq_true, if_false]
      simp only [if_true, padTail_unit hA']
    · simpa [Def.alignV] using hA
end

end Amoco.Struct
