/-
  Layout lemmas for C16: the code's `align`/`size`/`align_value`/`offsets` against the C ABI reference.
-/
import Amoco.Proofs.Struct.Bytes

namespace Amoco.Struct

/-! ### rounding -/

theorem roundUp_of_dvd (q a : Nat) (ha : 0 < a) : roundUp (a * q) a = a * q := by
  unfold roundUp
  have : a * q + a - 1 = (a - 1) + a * q := by omega
  rw [this, Nat.add_mul_div_left _ _ ha, Nat.div_eq_of_lt (by omega), Nat.zero_add, Nat.mul_comm]

theorem roundUp_of_rem (q r a : Nat) (hr : 0 < r) (hra : r < a) : roundUp (a * q + r) a = a * q + a := by
  unfold roundUp
  have ha : 0 < a := by omega
  have : a * q + r + a - 1 = (r - 1) + a * (q + 1) := by
    rw [Nat.mul_succ]; omega
  rw [this, Nat.add_mul_div_left _ _ ha, Nat.div_eq_of_lt (by omega), Nat.zero_add, Nat.mul_comm, Nat.mul_succ]

theorem alignTo_eq_roundUp (o a : Nat) (ha : 0 < a) : alignTo o a = roundUp o a := by
  unfold alignTo
  have hne : ¬ a = 0 := by omega
  simp only [hne, if_false]
  have hdm : a * (o / a) + o % a = o := Nat.div_add_mod o a
  by_cases hr : o % a = 0
  · simp only [hr, if_true]
    have : o = a * (o / a) := by omega
    conv => rhs; rw [this]
    rw [roundUp_of_dvd _ _ ha]; omega
  · simp only [hr, if_false]
    have hlt : o % a < a := Nat.mod_lt _ ha
    have := roundUp_of_rem (o / a) (o % a) a (by omega) hlt
    rw [hdm] at this
    rw [this]; omega

theorem roundUp_one (o : Nat) : roundUp o 1 = o := by
  unfold roundUp; simp

/-- specification of `roundUp`: the least multiple of `a` that is not below `o` -/
theorem roundUp_spec (o a : Nat) (ha : 0 < a) :
    a ∣ roundUp o a ∧ o ≤ roundUp o a ∧ roundUp o a < o + a ∧
      ∀ m, o ≤ m → a ∣ m → roundUp o a ≤ m := by
  have hdm : a * (o / a) + o % a = o := Nat.div_add_mod o a
  have hlt : o % a < a := Nat.mod_lt _ ha
  by_cases hr : o % a = 0
  · have e : o = a * (o / a) := by omega
    have : roundUp o a = o := by
      conv => lhs; rw [e]
      rw [roundUp_of_dvd _ _ ha]; omega
    rw [this]
    refine ⟨⟨o / a, e⟩, Nat.le_refl _, by omega, fun m hm _ => hm⟩
  · have := roundUp_of_rem (o / a) (o % a) a (by omega) hlt
    rw [hdm] at this
    rw [this]
    refine ⟨⟨o / a + 1, by rw [Nat.mul_succ]⟩, by omega, by omega, ?_⟩
    intro m hm ⟨k, hk⟩
    subst hk
    -- a*k ≥ o > a*(o/a)  ⇒ k ≥ o/a + 1
    have h1 : a * (o / a) < a * k := by omega
    have h2 : o / a < k := Nat.lt_of_mul_lt_mul_left h1
    have h3 : a * (o / a + 1) ≤ a * k := Nat.mul_le_mul_left a h2
    rw [Nat.mul_succ] at h3
    exact h3

theorem padTail_eq_roundUp (packed : Bool) (A sz : Nat) (hA : 0 < A) :
    padTail packed A sz = roundUp sz (if packed then 1 else A) := by
  unfold padTail
  cases packed
  · simp only [Bool.not_false, Bool.true_and, decide_eq_true_eq, Bool.false_eq_true, if_false]
    have := alignTo_eq_roundUp sz A hA
    unfold alignTo at this
    have hne : ¬ A = 0 := by omega
    simp only [hne, if_false] at this
    by_cases hr : sz % A = 0
    · simp only [hr, if_true] at this
      simp only [hr, Nat.lt_irrefl, if_false]
      exact this
    · simp only [hr, if_false] at this
      have : 0 < sz % A := by omega
      simp only [this, if_true]
      assumption
  · simp [roundUp_one]

/-! ### scalars -/

theorem rawSize_eq_cSize (ps : Nat) (t : Letter) : rawSize ps t = cSize ps t := by
  cases t <;> simp [rawSize, cSize, ptrBytes]

theorem rawSize_pos (ps : Nat) (t : Letter) : 0 < rawSize ps t := by
  cases t <;> simp [rawSize, ptrBytes] <;> split <;> omega

/-! ### max of a list -/

theorem maxList_cons (a : Nat) (r : List Nat) : maxList (a :: r) = max a (maxList r) := by
  cases r with
  | nil => simp [maxList]
  | cons c r' =>
    rw [maxList.eq_2]
    simp only [List.isEmpty_cons, Bool.false_eq_true, if_false]
    split <;> omega

theorem foldl_max_eq {α : Type} (g : α → Nat) : ∀ (l : List α) (b : Nat),
    l.foldl (fun a m => max a (g m)) b = max b (maxList (l.map g))
  | [], b => by simp [maxList]
  | x :: r, b => by
    simp only [List.foldl_cons, List.map_cons, maxList_cons, foldl_max_eq g r]
    omega

theorem maxList_pos : ∀ (l : List Nat), l ≠ [] → (∀ x ∈ l, 0 < x) → 0 < maxList l
  | [], h, _ => absurd rfl h
  | a :: r, _, hp => by
    rw [maxList_cons]
    have := hp a (by simp)
    omega

theorem maxList_ones : ∀ (l : List Nat), (∀ x ∈ l, x = 1) → max 1 (maxList l) = 1
  | [], _ => by simp [maxList]
  | a :: r, h => by
    rw [maxList_cons]
    have := h a (by simp)
    have := maxList_ones r (fun x hx => h x (by simp [hx]))
    omega

/-! ### the loops of `size` over plain lists -/

/-- `sizeLoop` on the list of (size, align_value) of the fields -/
def sizeLoopL (isUnion packed : Bool) : List (Option Nat × Nat) → Nat → Option Nat
  | [], sz => some sz
  | (osz, a) :: r, sz =>
    let sz1 := if !isUnion && !packed then alignTo sz a else sz
    match osz with
    | none => none
    | some fsz =>
      let sz2 := if !isUnion then sz1 + fsz else (if fsz > sz1 then fsz else sz1)
      sizeLoopL isUnion packed r sz2

theorem sizeLoop_eq (ps : Nat) (u p : Bool) : ∀ (fs : List Field) (sz : Nat),
    sizeLoop ps u p fs sz = sizeLoopL u p (fs.map (fun f => (f.sizeV ps, f.alignV ps))) sz
  | [], sz => by simp [sizeLoop, sizeLoopL]
  | f :: fs, sz => by
    simp only [sizeLoop, List.map_cons, sizeLoopL]
    cases h : f.sizeV ps with
    | none => rfl
    | some fsz => simp only [sizeLoop_eq ps u p fs]

/-- members with their alignments forced to 1 when packed -/
def packAl (packed : Bool) (ms : List (Nat × Nat)) : List (Nat × Nat) :=
  if packed then ms.map (fun m => (m.1, 1)) else ms

theorem sizeLoopL_struct (packed : Bool) : ∀ (ms : List (Nat × Nat)) (sz : Nat), (∀ m ∈ ms, 0 < m.2) →
    sizeLoopL false packed (ms.map (fun m => (some m.1, m.2))) sz
      = some (placeMembers (packAl packed ms) sz).2
  | [], sz, _ => by cases packed <;> simp [sizeLoopL, placeMembers, packAl]
  | (s, a) :: r, sz, hp => by
    have ha : 0 < a := hp (s, a) (by simp)
    have ih := fun sz' => sizeLoopL_struct packed r sz' (fun m hm => hp m (by simp [hm]))
    cases packed
    · simp only [List.map_cons, sizeLoopL, Bool.not_false, Bool.and_self, if_true, packAl,
        Bool.false_eq_true, if_false, placeMembers, alignTo_eq_roundUp sz a ha]
      have := ih (roundUp sz a + s)
      simp only [packAl, Bool.false_eq_true, if_false] at this
      rw [this]
    · simp only [List.map_cons, sizeLoopL, Bool.not_false, Bool.not_true, Bool.and_false,
        Bool.false_eq_true, if_false, if_true, packAl, placeMembers, roundUp_one]
      have := ih (sz + s)
      simp only [packAl, if_true] at this
      rw [this]

theorem sizeLoopL_union (packed : Bool) : ∀ (ms : List (Nat × Nat)) (sz : Nat),
    sizeLoopL true packed (ms.map (fun m => (some m.1, m.2))) sz
      = some (ms.foldl (fun a m => max a m.1) sz)
  | [], sz => by simp [sizeLoopL]
  | (s, a) :: r, sz => by
    simp only [List.map_cons, sizeLoopL, Bool.not_true, Bool.false_and, Bool.false_eq_true, if_false,
      List.foldl_cons]
    rw [sizeLoopL_union packed r]
    congr 2
    split <;> omega

theorem sizeLoopL_none (u p : Bool) : ∀ (l : List (Option Nat × Nat)) (sz : Nat),
    (∃ x ∈ l, x.1 = none) → sizeLoopL u p l sz = none
  | [], _, h => by simp at h
  | (osz, a) :: r, sz, h => by
    cases osz with
    | none => simp [sizeLoopL]
    | some fsz =>
      simp only [sizeLoopL]
      apply sizeLoopL_none
      obtain ⟨x, hx, hn⟩ := h
      simp only [List.mem_cons] at hx
      rcases hx with rfl | hx
      · simp at hn
      · exact ⟨x, hx, hn⟩

/-! ### the code's size / align_value against the reference, by induction on the definition -/

theorem alignVs_eq_map (ps : Nat) : ∀ fs : List Field, alignVs ps fs = fs.map (Field.alignV ps)
  | [] => by simp [alignVs]
  | f :: fs => by simp [alignVs, alignVs_eq_map ps fs]

/-- (class-level size, align_value) of every field -/
def fieldPairs (ps : Nat) (fs : List Field) : List (Option Nat × Nat) :=
  fs.map (fun f => (f.sizeV ps, f.alignV ps))

def FieldRel (ps : Nat) (f : Field) : Prop :=
  0 < f.alignV ps ∧
  match refField ps f with
  | some m => f.sizeV ps = some m.1 ∧ f.alignV ps = m.2
  | none => f.sizeV ps = none

def DefRel (ps : Nat) (d : Def) : Prop :=
  0 < d.alignV ps ∧
  match refDef ps d with
  | some L => d.sizeV ps = some L.size ∧ d.alignV ps = L.align
  | none => d.sizeV ps = none

def FieldsRel (ps : Nat) (fs : List Field) : Prop :=
  (∀ f ∈ fs, 0 < f.alignV ps) ∧
  match refMembers ps fs with
  | some ms => fieldPairs ps fs = ms.map (fun m => (some m.1, m.2))
  | none => ∃ x ∈ fieldPairs ps fs, x.1 = none

theorem modelled_def {ps : Nat} {kind : Kind} {packed : Bool} {fs : List Field}
    (h : (Def.mk kind packed fs).modelled ps = true) : fieldsModelled ps fs = true ∧ fs ≠ [] := by
  simp only [Def.modelled, Bool.and_eq_true, Bool.not_eq_true'] at h
  refine ⟨h.1.1, ?_⟩
  intro e
  rw [e] at h
  simp at h

theorem modelled_cons {ps : Nat} {f : Field} {fs : List Field} (h : fieldsModelled ps (f :: fs) = true) :
    f.modelled ps = true ∧ fieldsModelled ps fs = true := by
  simpa [fieldsModelled] using h

theorem place_align (isUnion packed : Bool) (ms : List (Nat × Nat)) :
    (place isUnion packed ms).align = max 1 (maxList ((packAl packed ms).map (·.2))) := by
  unfold place packAl
  cases isUnion <;> simp only [foldl_max_eq (fun m : Nat × Nat => m.2)] <;> rfl

theorem packAl_align (packed : Bool) (ms : List (Nat × Nat)) (hne : ms ≠ []) (hp : ∀ m ∈ ms, 0 < m.2) :
    max 1 (maxList ((packAl packed ms).map (·.2))) = if packed then 1 else maxList (ms.map (·.2)) := by
  cases packed
  · simp only [packAl, Bool.false_eq_true, if_false]
    have : 0 < maxList (ms.map (·.2)) := maxList_pos _ (by simpa using hne) (by
      intro x hx
      simp only [List.mem_map] at hx
      obtain ⟨m, hm, rfl⟩ := hx
      exact hp m hm)
    omega
  · simp only [packAl, if_true]
    apply maxList_ones
    intro x hx
    simp only [List.mem_map] at hx
    obtain ⟨m, hm, rfl⟩ := hx
    obtain ⟨m', _, rfl⟩ := hm
    rfl

theorem foldl_size_packAl (packed : Bool) (ms : List (Nat × Nat)) (b : Nat) :
    (packAl packed ms).foldl (fun a m => max a m.1) b = ms.foldl (fun a m => max a m.1) b := by
  cases packed
  · simp [packAl]
  · simp only [packAl, if_true, List.foldl_map]

theorem place_size (isUnion packed : Bool) (ms : List (Nat × Nat)) :
    (place isUnion packed ms).size =
      roundUp (if isUnion then ms.foldl (fun a m => max a m.1) 0 else (placeMembers (packAl packed ms) 0).2)
        (place isUnion packed ms).align := by
  cases isUnion
  · simp only [place, packAl, Bool.false_eq_true, if_false]
  · have := foldl_size_packAl packed ms 0
    simp only [packAl] at this
    simp only [place, if_true, this]

mutual
theorem fieldRel (ps : Nat) : (f : Field) → f.modelled ps = true → FieldRel ps f
  | .raw _ t _ count, _ => by
    refine ⟨rawSize_pos ps t, ?_⟩
    simp only [refField, Field.sizeV, Field.alignV, rawSize_eq_cSize, and_true]
    by_cases hc : count = 0
    · simp [hc]
    · have : 0 < count := by omega
      simp [hc, this]
  | .bits t _ _ _, _ => by
    refine ⟨rawSize_pos ps t, ?_⟩
    simp only [refField, Field.sizeV, Field.alignV, rawSize_eq_cSize, and_self]
  | .var _ t _, _ => ⟨rawSize_pos ps t, by simp only [refField, Field.sizeV]⟩
  | .cnt _ t _ _, _ => ⟨rawSize_pos ps t, by simp only [refField, Field.sizeV]⟩
  | .bound _ t _ _, _ => ⟨rawSize_pos ps t, by simp only [refField, Field.sizeV]⟩
  | .leb _ _, _ => ⟨by simp [Field.alignV], by simp only [refField, Field.sizeV]⟩
  | .nest _ ty count, h => by
    have hty : ty.modelled ps = true := by simpa [Field.modelled] using h
    have ih := defRel ps ty hty
    unfold DefRel at ih
    refine ⟨by simpa [Field.alignV] using ih.1, ?_⟩
    simp only [refField, Field.sizeV, Field.alignV]
    cases hr : refDef ps ty with
    | none =>
      rw [hr] at ih
      simp only [ih.2]
    | some L =>
      rw [hr] at ih
      simp only [ih.2.1, ih.2.2, and_true]
      by_cases hc : count = 0
      · simp [hc]
      · have : 0 < count := by omega
        simp [hc, this]
  | .bitsEx ty _ _, h => by
    have hty : ty.modelled ps = true := by
      simp only [Field.modelled, Bool.and_eq_true] at h
      exact h.1
    have ih := defRel ps ty hty
    unfold DefRel at ih
    refine ⟨by simpa [Field.alignV] using ih.1, ?_⟩
    simp only [refField, Field.sizeV, Field.alignV]
    cases hr : refDef ps ty with
    | none =>
      rw [hr] at ih
      simp only [ih.2]
    | some L =>
      rw [hr] at ih
      simp only [ih.2.1, ih.2.2, and_self]
theorem defRel (ps : Nat) : (d : Def) → d.modelled ps = true → DefRel ps d
  | .mk kind packed fs, h => by
    obtain ⟨hfs, hne⟩ := modelled_def h
    have ih := fieldsRel ps fs hfs
    unfold FieldsRel at ih
    obtain ⟨hpos, ih⟩ := ih
    have hA : 0 < (Def.mk kind packed fs).alignV ps := by
      simp only [Def.alignV]
      cases packed
      · simp only [Bool.false_eq_true, if_false, alignVs_eq_map]
        apply maxList_pos _ (by simpa using hne)
        intro x hx
        simp only [List.mem_map] at hx
        obtain ⟨f, hf, rfl⟩ := hx
        exact hpos f hf
      · simp
    refine ⟨hA, ?_⟩
    simp only [refDef]
    cases hr : refMembers ps fs with
    | none =>
      rw [hr] at ih
      simp only [Def.sizeV, sizeLoop_eq]
      have := sizeLoopL_none (kind == .union) packed (fieldPairs ps fs) 0 ih
      unfold fieldPairs at this
      rw [this]
    | some ms =>
      rw [hr] at ih
      have hlen : ms ≠ [] := by
        intro e
        rw [e] at ih
        simp only [fieldPairs, List.map_nil, List.map_eq_nil_iff] at ih
        exact hne ih
      have hal : fs.map (Field.alignV ps) = ms.map (·.2) := by
        have := congrArg (List.map (·.2)) ih
        simpa [fieldPairs, List.map_map, Function.comp_def] using this
      have hmpos : ∀ m ∈ ms, 0 < m.2 := by
        intro m hm
        have : m.2 ∈ ms.map (·.2) := List.mem_map_of_mem hm
        rw [← hal] at this
        simp only [List.mem_map] at this
        obtain ⟨f, hf, e⟩ := this
        rw [← e]; exact hpos f hf
      have halign : (Def.mk kind packed fs).alignV ps = (place (kind == .union) packed ms).align := by
        rw [place_align, packAl_align packed ms hlen hmpos]
        simp only [Def.alignV, alignVs_eq_map, hal]
      refine ⟨?_, halign⟩
      have hA' : orOne (if packed then 1 else maxList (alignVs ps fs)) = (Def.mk kind packed fs).alignV ps := by
        simp only [Def.alignV] at hA ⊢
        unfold orOne
        rw [if_neg (by omega)]
      simp only [Def.sizeV, hA', sizeLoop_eq]
      have ih' : fs.map (fun f => (f.sizeV ps, f.alignV ps)) = ms.map (fun m => (some m.1, m.2)) := ih
      rw [ih', place_size]
      have hround : ∀ sz, padTail packed ((Def.mk kind packed fs).alignV ps) sz
          = roundUp sz (place (kind == .union) packed ms).align := by
        intro sz
        rw [padTail_eq_roundUp _ _ _ hA]
        congr 1
        rw [place_align, packAl_align packed ms hlen hmpos]
        cases packed
        · simp only [Bool.false_eq_true, if_false, Def.alignV, alignVs_eq_map, hal]
        · simp
      cases hk : (kind == Kind.union)
      · rw [sizeLoopL_struct packed ms 0 hmpos]
        simp only [hround, hk, Bool.false_eq_true, if_false]
      · rw [sizeLoopL_union packed ms 0]
        simp only [hround, hk, if_true]
theorem fieldsRel (ps : Nat) : (fs : List Field) → fieldsModelled ps fs = true → FieldsRel ps fs
  | [], _ => by
    refine ⟨by simp, ?_⟩
    simp [refMembers, fieldPairs]
  | f :: fs, h => by
    obtain ⟨hf, hfs⟩ := modelled_cons h
    have ihf := fieldRel ps f hf
    have ihs := fieldsRel ps fs hfs
    unfold FieldRel at ihf
    unfold FieldsRel at ihs ⊢
    refine ⟨?_, ?_⟩
    · intro g hg
      simp only [List.mem_cons] at hg
      rcases hg with rfl | hg
      · exact ihf.1
      · exact ihs.1 g hg
    · simp only [refMembers]
      cases hr : refField ps f with
      | none =>
        rw [hr] at ihf
        simp only
        exact ⟨(f.sizeV ps, f.alignV ps), by simp [fieldPairs], ihf.2⟩
      | some m =>
        rw [hr] at ihf
        cases hrs : refMembers ps fs with
        | none =>
          rw [hrs] at ihs
          obtain ⟨x, hx, hn⟩ := ihs.2
          simp only
          exact ⟨x, by simp only [fieldPairs, List.map_cons, List.mem_cons] at hx ⊢; exact Or.inr hx, hn⟩
        | some ms =>
          rw [hrs] at ihs
          simp only [fieldPairs, List.map_cons, ihf.2.1, ihf.2.2]
          congr 1
          exact ihs.2
end

/-! ### offsets -/

theorem fieldsModelled_mem {ps : Nat} : ∀ (fs : List Field), fieldsModelled ps fs = true → ∀ f ∈ fs, f.modelled ps = true
  | [], _, f, hf => by simp at hf
  | g :: fs, h, f, hf => by
    obtain ⟨hg, hfs⟩ := modelled_cons h
    simp only [List.mem_cons] at hf
    rcases hf with rfl | hf
    · exact hg
    · exact fieldsModelled_mem fs hfs f hf

theorem refMembers_cons {ps : Nat} {f : Field} {fs : List Field} {l : List (Nat × Nat)}
    (h : refMembers ps (f :: fs) = some l) :
    ∃ m ms, l = m :: ms ∧ refField ps f = some m ∧ refMembers ps fs = some ms := by
  simp only [refMembers] at h
  cases hf : refField ps f with
  | none => rw [hf] at h; simp at h
  | some m =>
    cases hs : refMembers ps fs with
    | none => rw [hf, hs] at h; simp at h
    | some ms =>
      rw [hf, hs] at h
      simp only [Option.some.injEq] at h
      exact ⟨m, ms, h.symm, rfl, rfl⟩

theorem offsetsLoop_ref (ps : Nat) (packed : Bool) : ∀ (fs : List Field) (ms : List (Nat × Nat)) (o : Nat),
    (∀ f ∈ fs, f.modelled ps = true) → refMembers ps fs = some ms →
    offsetsLoop ps packed fs (fs.map (Field.sizeV ps)) o
      = refEntries ps false fs (placeMembers (packAl packed ms) o).1
  | [], ms, o, _, h => by
    simp only [refMembers, Option.some.injEq] at h
    subst h
    simp [offsetsLoop, refEntries]
  | f :: fs, l, o, hm, h => by
    obtain ⟨m, ms, rfl, hf, hs⟩ := refMembers_cons h
    have hrel := fieldRel ps f (hm f (by simp))
    unfold FieldRel at hrel
    rw [hf] at hrel
    obtain ⟨hpos, hsz, hal⟩ := hrel
    have ih := fun o' => offsetsLoop_ref ps packed fs ms o' (fun g hg => hm g (by simp [hg])) hs
    have ho : (if (!packed) = true then alignTo o (f.alignV ps) else o)
        = roundUp o (if packed then 1 else m.2) := by
      cases packed
      · simp only [Bool.not_false, if_true, Bool.false_eq_true, if_false]
        rw [alignTo_eq_roundUp _ _ hpos, hal]
      · simp [roundUp_one]
    have hpl : placeMembers (packAl packed (m :: ms)) o
        = (roundUp o (if packed then 1 else m.2) ::
            (placeMembers (packAl packed ms) (roundUp o (if packed then 1 else m.2) + m.1)).1,
           (placeMembers (packAl packed ms) (roundUp o (if packed then 1 else m.2) + m.1)).2) := by
      cases packed <;> simp [packAl, placeMembers]
    simp only [List.map_cons, offsetsLoop, ho, hsz, hpl, refEntries, Bool.false_eq_true, if_false, hf,
      Option.map_some, ih]

theorem offsetsV_ref (ps : Nat) (d : Def) (hm : d.modelled ps = true) (L : Lay) (hL : refDef ps d = some L) :
    d.offsetsV ps = refEntries ps d.isUnion d.fields L.offs := by
  cases d with
  | mk kind packed fs =>
    obtain ⟨hfs, _⟩ := modelled_def hm
    have hmem := fieldsModelled_mem fs hfs
    simp only [refDef] at hL
    cases hr : refMembers ps fs with
    | none => rw [hr] at hL; simp at hL
    | some ms =>
      rw [hr] at hL
      simp only [Option.some.injEq] at hL
      subst hL
      simp only [Def.offsetsV, Def.fields, Def.isUnion, Def.kind, Def.packed]
      by_cases hk : (kind == Kind.union) = true
      swap
      · have hk' : (kind == Kind.union) = false := by simpa using hk
        simp only [hk', Bool.false_eq_true, if_false]
        rw [offsetsLoop_ref ps packed fs ms 0 hmem hr]
        simp only [place, packAl, Bool.false_eq_true, if_false]
      · simp only [hk, if_true]
        -- union: every member at offset 0 with its own size
        have key : ∀ (fs : List Field) (ms : List (Nat × Nat)), (∀ f ∈ fs, f.modelled ps = true) →
            refMembers ps fs = some ms →
            (fs.map (Field.sizeV ps)).map (fun s => OffEntry.field 0 s)
              = refEntries ps true fs ((packAl packed ms).map (fun _ => 0)) := by
          intro fs
          induction fs with
          | nil =>
            intro ms _ h
            simp only [refMembers, Option.some.injEq] at h
            subst h
            simp [refEntries]
          | cons f fs ih =>
            intro l hm h
            obtain ⟨m, ms, rfl, hf, hs⟩ := refMembers_cons h
            have hrel := fieldRel ps f (hm f (by simp))
            unfold FieldRel at hrel
            rw [hf] at hrel
            have := ih ms (fun g hg => hm g (by simp [hg])) hs
            have hpk : (packAl packed (m :: ms)).map (fun _ => 0) = 0 :: (packAl packed ms).map (fun _ => 0) := by
              cases packed <;> simp [packAl]
            simp only [List.map_cons, hpk, refEntries, if_true, hf, Option.map_some, hrel.2.1]
            simp only [List.map_map] at this
            simp only [List.map_map, this, List.singleton_append]
        have := key fs ms hmem hr
        simp only [place, if_true, packAl] at this ⊢
        exact this

/-! ### declarative reading of the reference placement -/

/-- `Placed ms e os e'`: starting with free offset `e`, the members `ms = (size, alignment)…` lie at
    offsets `os`, each at the LEAST multiple of its alignment not below the end of the previous
    member; `e'` is the end of the last member. -/
inductive Placed : List (Nat × Nat) → Nat → List Nat → Nat → Prop
  | nil (e : Nat) : Placed [] e [] e
  | cons {s a e o : Nat} {r : List (Nat × Nat)} {os : List Nat} {e' : Nat} :
      a ∣ o → e ≤ o → (∀ o', e ≤ o' → a ∣ o' → o ≤ o') → Placed r (o + s) os e' →
      Placed ((s, a) :: r) e (o :: os) e'

theorem placeMembers_placed : ∀ (ms : List (Nat × Nat)) (e : Nat), (∀ m ∈ ms, 0 < m.2) →
    Placed ms e (placeMembers ms e).1 (placeMembers ms e).2
  | [], e, _ => by simp only [placeMembers]; exact Placed.nil e
  | (s, a) :: r, e, hp => by
    have ha : 0 < a := hp (s, a) (by simp)
    obtain ⟨h1, h2, _, h4⟩ := roundUp_spec e a ha
    have ih := placeMembers_placed r (roundUp e a + s) (fun m hm => hp m (by simp [hm]))
    simp only [placeMembers]
    exact Placed.cons h1 h2 h4 ih

theorem placed_unique : ∀ {ms : List (Nat × Nat)} {e : Nat} {os os' : List Nat} {e1 e2 : Nat},
    Placed ms e os e1 → Placed ms e os' e2 → os = os' ∧ e1 = e2
  | [], _, _, _, _, _, .nil _, .nil _ => ⟨rfl, rfl⟩
  | (s, a) :: r, e, _, _, _, _, .cons h1 h2 h3 hr, .cons g1 g2 g3 gr => by
    have : _ = _ := Nat.le_antisymm (h3 _ g2 g1) (g3 _ h2 h1)
    subst this
    obtain ⟨e1, e2⟩ := placed_unique hr gr
    exact ⟨by rw [e1], e2⟩

end Amoco.Struct
